-------------------------------- MODULE Glyf --------------------------------
(***************************************************************************)
(* TrueType outline semantics (property C16).                              *)
(*                                                                         *)
(* A glyph is its record of the glyf table, a sequence of bytes.  The      *)
(* module gives, as pure operators,                                        *)
(*   ParseGlyph   the record's structure (simple / composite / empty),     *)
(*   Unpack       the packed flag / coordinate stream -> absolute points   *)
(*                (REPEAT runs, X/Y_SHORT, SAME / POSITIVE bits),          *)
(*   Expand/Path  the contour walker: one closed sub-path per contour that *)
(*                starts on the curve, visits the points in order and has  *)
(*                an on-curve midpoint implied between consecutive         *)
(*                off-curve points, also across the closing edge,          *)
(*   Outline      composite recursion: every component's outline under its *)
(*                2x2 matrix (F2Dot14) and offset - given as x/y values,   *)
(*                scaled or not (SCALED_COMPONENT_OFFSET), or implied by   *)
(*                two point numbers -, nested composites composing,        *)
(*                nesting deeper than MaxDepth is an error,                *)
(*   Encode..     the inverse of the parsers (used by the generator; the   *)
(*                model checker verifies Parse(Encode(x)) = x).            *)
(*                                                                         *)
(* Numbers.  Coordinates of delivered commands are integers in FINE UNITS, *)
(* 1/16384 of a font unit (FU): a font unit coordinate c is c * FU, a      *)
(* midpoint of two integer points is exact, an F2Dot14 factor a/16384      *)
(* applied to v is floor(v * a / 16384) (MulF, evaluated in 14-bit limbs   *)
(* because TLC integers are 32 bit).  Every application of a non-identity  *)
(* matrix can lose less than 2 fine units; Outline carries that bound      *)
(* (eps) and the judge adds it to the property's tolerance of 1/64 unit.   *)
(* Outlines without any matrix are exact and are compared exactly.         *)
(*                                                                         *)
(* Style.  Loops over data of unbounded length (points, bytes, commands)   *)
(* are written as FoldLeft(step, state0, seq): measured on this TLC build, *)
(* accumulator-passing RECURSIVE operators cost O(depth) per call (a glyph *)
(* of 1 100 points took 2 s to unpack), the Java-backed fold 3 us a step.  *)
(* RECURSIVE is kept where the depth is small (components, nesting).       *)
(***************************************************************************)
EXTENDS Integers, Sequences, FiniteSets, SequencesExt

CONSTANT MaxDepth      \* deepest nesting level still visited (allsorts: 6, the root being level 0)

FU  == 16384           \* fine units per font unit = one in F2Dot14
Tol == 256             \* 1/64 font unit, the tolerance for matrix-transformed coordinates (f32 in the code)
DomainMax == 268435456 \* 2^28 fine units = 16384 font units: inputs of MulF stay below this

Abs(v) == IF v < 0 THEN -v ELSE v
Bit(f, m) == (f \div m) % 2 = 1                   \* m is the mask, a power of two

---------------------------------------------------------------------------
\* ---- bytes ----------------------------------------------------------------
Has(b, i, k) == i >= 1 /\ i + k - 1 <= Len(b)
U16(b, i) == b[i] * 256 + b[i + 1]
I16(b, i) == LET u == U16(b, i) IN IF u >= 32768 THEN u - 65536 ELSE u
I8(b, i)  == IF b[i] >= 128 THEN b[i] - 256 ELSE b[i]
U16B(v) == <<v \div 256, v % 256>>
I16B(v) == U16B(IF v < 0 THEN v + 65536 ELSE v)
I8B(v)  == <<IF v < 0 THEN v + 256 ELSE v>>

\* simple glyph flags
ON == 1   XSHORT == 2   YSHORT == 4   REPEAT == 8   XSAME == 16   YSAME == 32
OVERLAP == 64          \* OVERLAP_SIMPLE: says nothing about the outline
\* composite glyph flags
WORDS == 1   XYVALUES == 2   HAVE_SCALE == 8   MORE == 32   HAVE_XY == 64   HAVE_2X2 == 128
HAVE_INSTR == 256   SCALED_OFFSET == 2048   UNSCALED_OFFSET == 4096

---------------------------------------------------------------------------
\* ---- the packed point stream ------------------------------------------------
\* logical flags, one per point: a flag byte with REPEAT is followed by a count c and stands for
\* c + 1 points.  State: next byte position, the flag being repeated and how often still.
FlagStep(b, st, k) ==
  IF ~st.ok THEN st
  ELSE IF st.rem > 0 THEN [st EXCEPT !.rem = @ - 1, !.v = Append(@, st.cur)]
  ELSE IF ~Has(b, st.next, 1) THEN [st EXCEPT !.ok = FALSE]
  ELSE LET f == b[st.next] IN
       IF Bit(f, REPEAT)
       THEN IF ~Has(b, st.next + 1, 1) THEN [st EXCEPT !.ok = FALSE]
            ELSE [ok |-> TRUE, next |-> st.next + 2, cur |-> f, rem |-> b[st.next + 1], v |-> Append(st.v, f)]
       ELSE [ok |-> TRUE, next |-> st.next + 1, cur |-> f, rem |-> 0, v |-> Append(st.v, f)]

\* a run that overshoots the n points is malformed (rem > 0 at the end)
ReadFlags(b, i, n) ==
  LET st == FoldLeft(LAMBDA acc, k : FlagStep(b, acc, k), [ok |-> TRUE, next |-> i, cur |-> 0, rem |-> 0, v |-> <<>>],
                     [k \in 1 .. n |-> k])
  IN [ok |-> st.ok /\ st.rem = 0, v |-> st.v, next |-> st.next]

\* one coordinate axis: deltas resolved into absolute values.
\*   SHORT set: one byte magnitude, sign given by the SAME/POSITIVE bit (set = positive)
\*   SHORT clear, SAME set: delta 0, no bytes;  both clear: signed 16-bit delta
CoordStep(b, short, same, st, f) ==
  IF ~st.ok THEN st
  ELSE IF Bit(f, short)
  THEN IF ~Has(b, st.next, 1) THEN [st EXCEPT !.ok = FALSE]
       ELSE LET v == st.prev + (IF Bit(f, same) THEN b[st.next] ELSE -b[st.next]) IN
            [ok |-> TRUE, next |-> st.next + 1, prev |-> v, v |-> Append(st.v, v)]
  ELSE IF Bit(f, same) THEN [st EXCEPT !.v = Append(@, st.prev)]
  ELSE IF ~Has(b, st.next, 2) THEN [st EXCEPT !.ok = FALSE]
       ELSE LET v == st.prev + I16(b, st.next) IN
            [ok |-> TRUE, next |-> st.next + 2, prev |-> v, v |-> Append(st.v, v)]

ReadCoords(b, i, fl, short, same) ==
  FoldLeft(LAMBDA acc, f : CoordStep(b, short, same, acc, f), [ok |-> TRUE, next |-> i, prev |-> 0, v |-> <<>>], fl)

InI16(v) == v >= -32768 /\ v <= 32767

\* n points from the stream starting at byte i: <<[x, y, on]>> in font units
Unpack(b, i, n) ==
  LET F == ReadFlags(b, i, n) IN
  IF ~F.ok THEN [ok |-> FALSE, pts |-> <<>>]
  ELSE LET X == ReadCoords(b, F.next, F.v, XSHORT, XSAME) IN
       IF ~X.ok THEN [ok |-> FALSE, pts |-> <<>>]
       ELSE LET Y == ReadCoords(b, X.next, F.v, YSHORT, YSAME) IN
            IF ~Y.ok \/ \E k \in 1 .. n : ~InI16(X.v[k]) \/ ~InI16(Y.v[k])
            THEN [ok |-> FALSE, pts |-> <<>>]
            ELSE [ok |-> TRUE,
                  pts |-> [k \in 1 .. n |-> [x |-> X.v[k], y |-> Y.v[k], on |-> Bit(F.v[k], ON)]]]

---------------------------------------------------------------------------
\* ---- glyph records ----------------------------------------------------------
\* kind: "empty" | "simple" | "composite" | "bad" (malformed: the property does not speak about it)
NoGlyph(kind) == [kind |-> kind, contours |-> <<>>, comps |-> <<>>]

\* component: glyph id, flags, the two arguments, matrix xx yx xy yy as raw F2Dot14:
\*    x' = xx*x + xy*y + dx      y' = yx*x + yy*y + dy
\* where the file order of a two-by-two is xscale(xx) scale01(yx) scale10(xy) yscale(yy)
\* (Apple's TrueType reference: "x' = a x + c y + e, y' = b x + d y + f" with a b c d in file order;
\* FreeType, HarfBuzz and fontTools read it the same way).
RECURSIVE ReadComps(_, _)
ReadComps(b, i) ==
  IF ~Has(b, i, 4) THEN <<>>                          \* <<>> stands for malformed: a composite has >= 1 component
  ELSE LET fl    == U16(b, i)
           gid   == U16(b, i + 2)
           words == Bit(fl, WORDS)
           xy    == Bit(fl, XYVALUES)
           alen  == IF words THEN 4 ELSE 2
           j     == i + 4 + alen
           mlen  == IF Bit(fl, HAVE_SCALE) THEN 2 ELSE IF Bit(fl, HAVE_XY) THEN 4
                    ELSE IF Bit(fl, HAVE_2X2) THEN 8 ELSE 0
       IN IF ~Has(b, i + 4, alen + mlen) THEN <<>>
          ELSE LET a1 == IF words THEN (IF xy THEN I16(b, i + 4) ELSE U16(b, i + 4))
                                  ELSE (IF xy THEN I8(b, i + 4) ELSE b[i + 4])
                   a2 == IF words THEN (IF xy THEN I16(b, i + 6) ELSE U16(b, i + 6))
                                  ELSE (IF xy THEN I8(b, i + 5) ELSE b[i + 5])
                   m  == IF Bit(fl, HAVE_SCALE) THEN <<I16(b, j), 0, 0, I16(b, j)>>
                         ELSE IF Bit(fl, HAVE_XY) THEN <<I16(b, j), 0, 0, I16(b, j + 2)>>
                         ELSE IF Bit(fl, HAVE_2X2) THEN <<I16(b, j), I16(b, j + 2), I16(b, j + 4), I16(b, j + 6)>>
                         ELSE <<FU, 0, 0, FU>>
                   c  == [gid |-> gid, flags |-> fl, a1 |-> a1, a2 |-> a2,
                          xx |-> m[1], yx |-> m[2], xy |-> m[3], yy |-> m[4]]
               IN IF Bit(fl, MORE)
                  THEN LET rest == ReadComps(b, j + mlen) IN
                       IF rest = <<>> THEN <<>> ELSE <<c>> \o rest
                  ELSE <<c>>

\* byte position after the last component of a record whose components ReadComps accepted
CompLen(fl) == 4 + (IF Bit(fl, WORDS) THEN 4 ELSE 2)
                 + (IF Bit(fl, HAVE_SCALE) THEN 2 ELSE IF Bit(fl, HAVE_XY) THEN 4 ELSE IF Bit(fl, HAVE_2X2) THEN 8 ELSE 0)
RECURSIVE CompsEnd(_, _)
CompsEnd(b, i) == LET fl == U16(b, i) IN IF Bit(fl, MORE) THEN CompsEnd(b, i + CompLen(fl)) ELSE i + CompLen(fl)
InstrFit(b, e) == IF ~Has(b, e, 2) THEN FALSE ELSE e + 1 + U16(b, e) <= Len(b)

SplitContours(pts, ends) ==
  [k \in 1 .. Len(ends) |-> SubSeq(pts, (IF k = 1 THEN 0 ELSE ends[k - 1] + 1) + 1, ends[k] + 1)]

ParseGlyph(b) ==
  IF Len(b) = 0 THEN NoGlyph("empty")
  ELSE IF ~Has(b, 1, 10) THEN NoGlyph("bad")
  ELSE LET nc == I16(b, 1) IN
       IF nc >= 0
       THEN IF ~Has(b, 11, 2 * nc + 2) THEN NoGlyph("bad")
            ELSE LET ends == [k \in 1 .. nc |-> U16(b, 11 + 2 * (k - 1))]
                     ilen == U16(b, 11 + 2 * nc)
                     n    == IF nc = 0 THEN 0 ELSE ends[nc] + 1
                     \* every contour has at least one point: end points strictly increase
                     incr == \A k \in 2 .. nc : ends[k] > ends[k - 1]
                     \* the instructions lie inside the record (also when there is no point at all: a record
                     \* with numberOfContours = 0 is a simple glyph without contours, it draws nothing)
                     fits == 12 + 2 * nc + ilen <= Len(b)
                     u    == IF fits THEN Unpack(b, 13 + 2 * nc + ilen, n) ELSE [ok |-> FALSE, pts |-> <<>>]
                 IN IF ~incr \/ ~u.ok THEN NoGlyph("bad")
                    ELSE [kind |-> "simple", contours |-> SplitContours(u.pts, ends), comps |-> <<>>]
       ELSE LET cs == ReadComps(b, 11) IN
            IF cs = <<>> THEN NoGlyph("bad")
            \* WE_HAVE_INSTRUCTIONS on any component: a length and that many bytes follow the last component
            ELSE IF (\E k \in 1 .. Len(cs) : Bit(cs[k].flags, HAVE_INSTR)) /\ ~InstrFit(b, CompsEnd(b, 11))
            THEN NoGlyph("bad")
            ELSE [kind |-> "composite", contours |-> <<>>, comps |-> cs]

---------------------------------------------------------------------------
\* ---- the contour walker -------------------------------------------------------
\* A contour is a cyclic sequence of points [x, y, on].  Expand inserts the implied on-curve
\* point between every two cyclically consecutive off-curve points (for a single off-curve point:
\* between the point and itself).  In the expanded cycle no two off-curve points are adjacent.
Nxt(c, i) == c[(i % Len(c)) + 1]
Mid(p, q) == [x |-> (p.x + q.x) \div 2, y |-> (p.y + q.y) \div 2, on |-> TRUE]

Expand(c) ==
  FoldLeft(LAMBDA acc, i : IF ~c[i].on /\ ~Nxt(c, i).on THEN acc \o <<c[i], Mid(c[i], Nxt(c, i))>>
                           ELSE Append(acc, c[i]),
           <<>>, [i \in 1 .. Len(c) |-> i])

\* drawing commands: <<op, cx, cy, x, y>>, op 1 move_to, 2 line_to, 3 quadratic_curve_to, 5 close
\* (4 = cubic_curve_to never occurs for glyf)
MoveTo(p)    == <<1, 0, 0, p.x, p.y>>
LineTo(p)    == <<2, 0, 0, p.x, p.y>>
QuadTo(c, p) == <<3, c.x, c.y, p.x, p.y>>
Close        == <<5, 0, 0, 0, 0>>

\* the points after the start, in cyclic order
After(E, s) == [k \in 1 .. (Len(E) - 1) |-> E[((s + k - 1) % Len(E)) + 1]]

\* pen is on the curve; an off-curve point waits (ctl) for the following on-curve point as its end,
\* and takes the start point if it is the last one
NoPt == [x |-> 0, y |-> 0, on |-> TRUE]
SegStep(st, p) ==
  IF st.pending THEN [pending |-> FALSE, ctl |-> NoPt, out |-> Append(st.out, QuadTo(st.ctl, p))]
  ELSE IF p.on THEN [st EXCEPT !.out = Append(@, LineTo(p))]
  ELSE [st EXCEPT !.pending = TRUE, !.ctl = p]
Segs(R, start) ==
  LET st == FoldLeft(SegStep, [pending |-> FALSE, ctl |-> NoPt, out |-> <<>>], R) IN
  IF st.pending THEN Append(st.out, QuadTo(st.ctl, start)) ELSE st.out

\* the closed sub-path of an expanded contour started at its on-curve element s.
\* explicitClose: the final straight edge back to the start is drawn before close (Dev_ExplicitClose)
Path(E, s, explicitClose) ==
  LET R == After(E, s) IN
  <<MoveTo(E[s])>> \o Segs(R, E[s])
     \o (IF explicitClose /\ Len(R) > 0 /\ R[Len(R)].on THEN <<LineTo(E[s])>> ELSE <<>>)
     \o <<Close>>

OnStarts(E) == {s \in 1 .. Len(E) : E[s].on}

\* The start FreeType and allsorts choose: the first point if it is on the curve, else the last
\* point if that is on the curve, else the point implied between the last and the first.  In the
\* expanded cycle the last two alternatives are both its last element.
RefStart(c) == IF c[1].on THEN 1 ELSE Len(Expand(c))
Walk(c) == Path(Expand(c), RefStart(c), FALSE)

\* Dev_Start, Dev_ExplicitClose: the property asks for a closed sub-path that starts on the curve
\* and visits the points in order; which on-curve point is the start, and whether the closing
\* straight edge is spelled out, is left to the implementation.
ValidWalks(c) == LET E == Expand(c) IN {Path(E, s, x) : s \in OnStarts(E), x \in BOOLEAN}

---------------------------------------------------------------------------
\* ---- transforms ---------------------------------------------------------------
MulF(v, a) == (v \div FU) * a + ((v % FU) * a) \div FU          \* floor(v * a / 2^14), |v| <= 2^28, |a| <= 2^15

IsIdentity(c) == c.xx = FU /\ c.yy = FU /\ c.xy = 0 /\ c.yx = 0

\* the matrix of a component alone (its offset is added afterwards, see CompLoop).
\* Dev switch `tr` (used only to classify a mismatch): the two-by-two read row-major for column
\* vectors, i.e. transposed
ApplyM(c, p, tr) ==
  IF IsIdentity(c) THEN p
  ELSE LET xy == IF tr THEN c.yx ELSE c.xy
           yx == IF tr THEN c.xy ELSE c.yx
       IN [x |-> MulF(p.x, c.xx) + MulF(p.y, xy), y |-> MulF(p.x, yx) + MulF(p.y, c.yy), on |-> p.on]
Shift(p, o) == [x |-> p.x + o[1], y |-> p.y + o[2], on |-> p.on]
ApplyC(c, p, tr) == Shift(ApplyM(c, p, tr), <<c.a1 * FU, c.a2 * FU>>)       \* matrix, then the plain x/y offset

ToFine(c) == [k \in 1 .. Len(c) |-> [x |-> c[k].x * FU, y |-> c[k].y * FU, on |-> c[k].on]]

\* largest coordinate magnitude of a sequence of contours
Bigger(a, b) == IF a > b THEN a ELSE b
MaxMag(cs) ==
  FoldLeft(LAMBDA m, c : FoldLeft(LAMBDA mm, p : Bigger(mm, Bigger(Abs(p.x), Abs(p.y))), m, c), 0, cs)

---------------------------------------------------------------------------
\* ---- outlines -------------------------------------------------------------------
\* glyphs: sequence of [gid, rec]; n: number of glyphs of the table.
\* Result: st "ok"   cs = the contours (explicit points, fine units) in delivery order, eps = bound on
\*                   the model's own rounding, exact = no matrix involved
\*            "err"  visiting must fail (nesting deeper than MaxDepth, component glyph id out of range)
\*            "bad"  malformed record: outside the property
\*            "unmodelled"  SCALED_COMPONENT_OFFSET under a matrix with off-diagonal terms; point numbers that
\*                          do not name a delivered point (first component, phantom points)
\*            "domain"      coordinates too large for the 32-bit arithmetic of the model
Res(st) == [st |-> st, cs |-> <<>>, eps |-> 0, exact |-> TRUE]
\* Switches of Outline.  hypot is a legitimate alternative (named nondeterminism, Dev_ScaledOffsetSign): a
\* SCALED_COMPONENT_OFFSET is multiplied by the matrix (OpenType text, HarfBuzz, allsorts' own bounding box of
\* composites) or by the lengths of its rows (Apple, FreeType); for the diagonal matrices modelled here the two
\* differ by the sign of a negative factor only.  The others reproduce known wrong readings and serve only to
\* give a mismatch a stable class: dropParent, transpose (see above), unscaled (SCALED_COMPONENT_OFFSET ignored),
\* noAnchor (a component positioned by point numbers placed at offset 0).
NoDev == [dropParent |-> FALSE, transpose |-> FALSE, hypot |-> FALSE, unscaled |-> FALSE, noAnchor |-> FALSE]

RecOf(glyphs, g) ==
  LET S == {k \in 1 .. Len(glyphs) : glyphs[k].gid = g} IN
  IF S = {} THEN <<-1>> ELSE glyphs[CHOOSE k \in S : TRUE].rec

RECURSIVE Outline(_, _, _, _, _)
RECURSIVE CompLoop(_, _, _, _, _, _, _)

Outline(glyphs, n, g, depth, dev) ==
  IF depth > MaxDepth THEN Res("err")
  ELSE IF g < 0 \/ g >= n THEN Res("err")
  ELSE LET rec == RecOf(glyphs, g) IN
       IF rec = <<-1>> THEN Res("bad")
       ELSE LET G == ParseGlyph(rec) IN
            CASE G.kind = "empty"     -> Res("ok")
              [] G.kind = "bad"       -> Res("bad")
              [] G.kind = "simple"    -> [st |-> "ok", cs |-> [k \in 1 .. Len(G.contours) |-> ToFine(G.contours[k])],
                                          eps |-> 0, exact |-> TRUE]
              [] G.kind = "composite" -> CompLoop(glyphs, n, G.comps, 1, depth, dev, Res("ok"))

\* components k.. of a composite visited at `depth`; acc = what the earlier components delivered.
\* Position of a component (OpenType glyf, "composite glyph description"):
\*   ARGS_ARE_XY_VALUES set: the arguments are the offset (dx, dy), added after the matrix; with
\*     SCALED_COMPONENT_OFFSET (and not UNSCALED_COMPONENT_OFFSET, which wins as the default does) and a matrix
\*     the offset is in the component's coordinate system, i.e. scaled as well;
\*   ARGS_ARE_XY_VALUES clear: the arguments are point numbers: argument1 counts the points the earlier
\*     components of this composite delivered, argument2 the points of this component (after its matrix); the
\*     component is moved so that the two coincide.
FlatPts(cs) == FoldLeft(LAMBDA a, c : a \o c, <<>>, cs)
ScaledOffset(c) == /\ Bit(c.flags, XYVALUES) /\ Bit(c.flags, SCALED_OFFSET) /\ ~Bit(c.flags, UNSCALED_OFFSET)
                   /\ ~IsIdentity(c) /\ (c.a1 # 0 \/ c.a2 # 0)
CompLoop(glyphs, n, comps, k, depth, dev, acc) ==
  IF k > Len(comps) THEN acc
  ELSE LET c == comps[k]
           anchored == ~Bit(c.flags, XYVALUES) /\ ~dev.noAnchor
           scaled   == ScaledOffset(c) /\ ~dev.unscaled
       IN
       \* a scaled offset under a matrix with off-diagonal terms: implementations disagree by more than a sign
       IF scaled /\ (c.xy # 0 \/ c.yx # 0) THEN Res("unmodelled")
       ELSE LET child == Outline(glyphs, n, c.gid, depth + 1, dev) IN
            IF child.st # "ok" THEN Res(child.st)
            ELSE IF ~IsIdentity(c) /\ MaxMag(child.cs) > DomainMax THEN Res("domain")
            ELSE LET childIsComposite == ParseGlyph(RecOf(glyphs, c.gid)).kind = "composite"
                     keep == dev.dropParent /\ childIsComposite     \* deviation: transform not applied
                     m0   == [i \in 1 .. Len(child.cs) |->
                                [j \in 1 .. Len(child.cs[i]) |-> ApplyM(c, child.cs[i][j], dev.transpose)]]
                     e1   == IF IsIdentity(c) THEN child.eps          \* rounding bound of m0
                             ELSE LET sx == Abs(c.xx) + Abs(c.xy)
                                      sy == Abs(c.yx) + Abs(c.yy)
                                      s  == IF sx > sy THEN sx ELSE sy
                                  IN (child.eps * s + FU - 1) \div FU + 2
                     pp   == FlatPts(acc.cs)
                     cp   == FlatPts(m0)
                 IN IF anchored /\ ~keep /\ (c.a1 >= Len(pp) \/ c.a2 >= Len(cp))
                    THEN Res("unmodelled")          \* first component, phantom points, numbers out of range
                    ELSE
                    LET off == IF anchored THEN <<pp[c.a1 + 1].x - cp[c.a2 + 1].x, pp[c.a1 + 1].y - cp[c.a2 + 1].y>>
                               ELSE IF ~Bit(c.flags, XYVALUES) THEN <<0, 0>>                \* dev.noAnchor
                               ELSE IF scaled THEN <<c.a1 * (IF dev.hypot THEN Abs(c.xx) ELSE c.xx),
                                                     c.a2 * (IF dev.hypot THEN Abs(c.yy) ELSE c.yy)>>
                               ELSE <<c.a1 * FU, c.a2 * FU>>
                        cs  == IF keep THEN child.cs
                               ELSE [i \in 1 .. Len(m0) |-> [j \in 1 .. Len(m0[i]) |-> Shift(m0[i][j], off)]]
                        eps == IF keep THEN child.eps
                               ELSE IF anchored THEN 2 * e1 + acc.eps
                               ELSE e1
                    IN CompLoop(glyphs, n, comps, k + 1, depth, dev,
                                [st |-> "ok", cs |-> acc.cs \o cs,
                                 eps |-> IF eps > acc.eps THEN eps ELSE acc.eps,
                                 exact |-> acc.exact /\ child.exact /\ (keep \/ IsIdentity(c))])

---------------------------------------------------------------------------
\* ---- conformance of delivered commands -----------------------------------------
NearCmd(w, g, tol) ==
  /\ w[1] = g[1]
  /\ \A k \in 2 .. 5 : Abs(w[k] - g[k]) <= tol

PathNear(W, G, tol) == Len(W) = Len(G) /\ \A k \in 1 .. Len(W) : NearCmd(W[k], G[k], tol)

\* delivered commands cut into sub-paths: each from a move_to (op 1) to the next close (op 5).
\* ok = FALSE if the command list is not a sequence of move_to ... close groups.
SplitStep(st, c) ==
  IF ~st.ok THEN st
  ELSE IF st.cur = <<>>
  THEN IF c[1] = 1 THEN [st EXCEPT !.cur = <<c>>] ELSE [st EXCEPT !.ok = FALSE]
  ELSE IF c[1] = 1 THEN [st EXCEPT !.ok = FALSE]
  ELSE IF c[1] = 5 THEN [ok |-> TRUE, cur |-> <<>>, ps |-> Append(st.ps, Append(st.cur, c))]
  ELSE [st EXCEPT !.cur = Append(@, c)]
SplitPaths(cmds) ==
  LET st == FoldLeft(SplitStep, [ok |-> TRUE, cur |-> <<>>, ps |-> <<>>], cmds) IN
  [ok |-> st.ok /\ st.cur = <<>>, ps |-> st.ps]

\* a delivered sub-path traces contour c (fine units) iff it is one of its valid walks, within tol
TracesContour(c, G, tol) ==
  LET E == Expand(c) IN
  IF PathNear(Path(E, RefStart(c), FALSE), G, tol) THEN TRUE
  ELSE \E s \in OnStarts(E), x \in BOOLEAN : PathNear(Path(E, s, x), G, tol)

\* the whole glyph: one sub-path per contour, in order
TracesOutline(r, cmds) ==
  LET P   == SplitPaths(cmds)
      tol == IF r.exact THEN 0 ELSE Tol + r.eps + 1
  IN /\ P.ok
     /\ Len(P.ps) = Len(r.cs)
     /\ \A k \in 1 .. Len(P.ps) : TracesContour(r.cs[k], P.ps[k], tol)

\* the reference command list (what Walk delivers for every contour), for reports and samples
RefCommands(cs) == FoldLeft(LAMBDA acc, c : acc \o Walk(c), <<>>, cs)

---------------------------------------------------------------------------
\* ---- encoders (inverse of the parsers) -------------------------------------------
\* mode: [short: use one-byte deltas where they fit, same: use the SAME bit for zero deltas,
\*        zero: how a zero delta is written when `same` is off: "word" | "short+" | "short-",
\*        rep: "none" | "max" (every run of >= 2 equal flags) | "zero" (every flag repeated 0 times)
\*             | "split" (first flag plain, the rest of the run repeated),
\*        ovl: the first flag carries OVERLAP_SIMPLE]
AxisFlag(d, mode, short, same) ==
  IF d = 0 THEN (IF mode.same THEN same
                 ELSE IF mode.zero = "short+" THEN short + same
                 ELSE IF mode.zero = "short-" THEN short ELSE 0)
  ELSE IF mode.short /\ Abs(d) <= 255 THEN (IF d > 0 THEN short + same ELSE short)
  ELSE 0
AxisBytes(d, f, short, same) ==
  IF Bit(f, short) THEN <<Abs(d)>> ELSE IF Bit(f, same) THEN <<>> ELSE I16B(d)

RunLen(fl, k) == LET S == {j \in k .. Len(fl) : \A i \in k .. j : fl[i] = fl[k]} IN Cardinality(S)

RECURSIVE FlagBytes(_, _, _)
FlagBytes(fl, k, rep) ==
  IF k > Len(fl) THEN <<>>
  ELSE LET r == RunLen(fl, k) IN
       CASE rep = "none"  -> <<fl[k]>> \o FlagBytes(fl, k + 1, rep)
         [] rep = "zero"  -> <<fl[k] + REPEAT, 0>> \o FlagBytes(fl, k + 1, rep)
         \* the repeat count is one byte: a run covers at most 256 (max) / 257 (split) points
         [] rep = "max"   -> IF r >= 2 THEN LET c == IF r > 256 THEN 256 ELSE r IN
                                            <<fl[k] + REPEAT, c - 1>> \o FlagBytes(fl, k + c, rep)
                             ELSE <<fl[k]>> \o FlagBytes(fl, k + 1, rep)
         [] rep = "split" -> IF r >= 3 THEN LET c == IF r > 257 THEN 257 ELSE r IN
                                            <<fl[k], fl[k] + REPEAT, c - 2>> \o FlagBytes(fl, k + c, rep)
                             ELSE <<fl[k]>> \o FlagBytes(fl, k + 1, rep)

Flatten(ss, k) == FoldLeft(LAMBDA acc, q : acc \o q, <<>>, SubSeq(ss, k, Len(ss)))

SetMin(S) == CHOOSE v \in S : \A w \in S : v <= w
SetMax(S) == CHOOSE v \in S : \A w \in S : w <= v

\* contours: sequence of sequences of [x, y, on] in font units; instr: instruction bytes
EncodeSimple(contours, mode, instr) ==
  LET pts  == Flatten(contours, 1)
      n    == Len(pts)
      dx   == [k \in 1 .. n |-> pts[k].x - (IF k = 1 THEN 0 ELSE pts[k - 1].x)]
      dy   == [k \in 1 .. n |-> pts[k].y - (IF k = 1 THEN 0 ELSE pts[k - 1].y)]
      fl   == [k \in 1 .. n |-> (IF pts[k].on THEN ON ELSE 0) + AxisFlag(dx[k], mode, XSHORT, XSAME)
                                                             + AxisFlag(dy[k], mode, YSHORT, YSAME)
                                  + (IF mode.ovl /\ k = 1 THEN OVERLAP ELSE 0)]
      ends == [k \in 1 .. Len(contours) |-> Len(Flatten(SubSeq(contours, 1, k), 1)) - 1]
      xs   == {pts[k].x : k \in 1 .. n} \cup {0}
      ys   == {pts[k].y : k \in 1 .. n} \cup {0}
  IN I16B(Len(contours)) \o I16B(SetMin(xs)) \o I16B(SetMin(ys)) \o I16B(SetMax(xs)) \o I16B(SetMax(ys))
       \o Flatten([k \in 1 .. Len(ends) |-> U16B(ends[k])], 1)
       \o U16B(Len(instr)) \o instr
       \o FlagBytes(fl, 1, mode.rep)
       \o Flatten([k \in 1 .. n |-> AxisBytes(dx[k], fl[k], XSHORT, XSAME)], 1)
       \o Flatten([k \in 1 .. n |-> AxisBytes(dy[k], fl[k], YSHORT, YSAME)], 1)

\* comps: sequence of [gid, words (BOOLEAN), pts (BOOLEAN: the arguments are point numbers), a1, a2,
\*                     kind ("none" | "scale" | "xy" | "2x2"), xx, yx, xy, yy, extra (further flag bits)]
CompFlags(c, more) ==
  (IF c.words THEN WORDS ELSE 0) + (IF c.pts THEN 0 ELSE XYVALUES) + (IF more THEN MORE ELSE 0) + c.extra
    + (CASE c.kind = "none" -> 0 [] c.kind = "scale" -> HAVE_SCALE [] c.kind = "xy" -> HAVE_XY [] c.kind = "2x2" -> HAVE_2X2)

\* instr follows the last component iff some component carries WE_HAVE_INSTRUCTIONS (in `extra`)
EncodeComposite(comps, instr) ==
  I16B(-1) \o I16B(0) \o I16B(0) \o I16B(0) \o I16B(0)
    \o Flatten([k \in 1 .. Len(comps) |->
         LET c == comps[k] IN
         U16B(CompFlags(c, k < Len(comps))) \o U16B(c.gid)
           \o (IF c.words THEN I16B(c.a1) \o I16B(c.a2) ELSE I8B(c.a1) \o I8B(c.a2))
           \o (CASE c.kind = "none"  -> <<>>
                 [] c.kind = "scale" -> I16B(c.xx)
                 [] c.kind = "xy"    -> I16B(c.xx) \o I16B(c.yy)
                 [] c.kind = "2x2"   -> I16B(c.xx) \o I16B(c.yx) \o I16B(c.xy) \o I16B(c.yy))], 1)
    \o (IF \E k \in 1 .. Len(comps) : Bit(comps[k].extra, HAVE_INSTR) THEN U16B(Len(instr)) \o instr ELSE <<>>)
=============================================================================
