------------------------------ MODULE MC_Subset ------------------------------
(***************************************************************************)
(* Bounded exhaustive exploration of the subsetting machine of Subset.tla  *)
(* and generator of replay cases (spec -> impl).                           *)
(*                                                                         *)
(* A case = (composite graph, requested glyph ids, numberOfHMetrics):      *)
(*   - every assignment of component lists (sequences of 0 .. MaxDeg glyph *)
(*     ids, repetitions, self reference and cycles included) to NG glyphs  *)
(*     with at most MaxEdges components in total,                          *)
(*   - every list of distinct glyph ids that starts with 0,                *)
(*   - every numberOfHMetrics in NHMs.                                     *)
(* `Init` picks the case; the machine then runs deterministically, one     *)
(* action per loop step of GlyfTable::subset and of create_hmtx_table.     *)
(* The invariants are checked in every state; the finished state prints    *)
(* one CASE line: the source font to synthesize and what the property      *)
(* prescribes for the output.                                              *)
(***************************************************************************)
EXTENDS Subset, Json

CONSTANTS NG,        \* glyphs in the source font
          MaxDeg,    \* components per composite glyph
          MaxEdges,  \* components in the whole font
          NHMs       \* values of numberOfHMetrics explored

VARIABLES src, req, s, pc, hm
vars == <<src, req, s, pc, hm>>

Ids == 0 .. NG - 1

NHMsAll == 1 .. NG
NHMsMid == {(NG + 1) \div 2}     \* glyphs on both sides of numberOfHMetrics (every value is explored with NG = 4)

RECURSIVE SeqsOfLen(_, _)
SeqsOfLen(S, k) == IF k = 0 THEN {<<>>} ELSE {Append(q, x) : q \in SeqsOfLen(S, k - 1), x \in S}

\* component lists for glyphs 0 .. k-1 with at most b components altogether
RECURSIVE Graphs(_, _)
Graphs(k, b) ==
  IF k = 0 THEN {<<>>}
  ELSE UNION {LET G == Graphs(k - 1, b - l) IN {Append(g, c) : g \in G, c \in SeqsOfLen(Ids, l)}
              : l \in 0 .. (IF MaxDeg < b THEN MaxDeg ELSE b)}

RECURSIVE Perms(_, _)
Perms(S, k) == IF k = 0 THEN {<<>>} ELSE UNION {{Append(p, x) : x \in S \ Range(p)} : p \in Perms(S, k - 1)}
ReqLists == UNION {{<<0>> \o p : p \in Perms(1 .. NG - 1, k)} : k \in 0 .. NG - 1}

\* ---- the concrete source font of a case (all values are the generator's choice, printed in CASE) ---
Dx(g, k) == 64 * g + 16 * k
Dy(g, k) == 0 - (9 * g + 3 * k)
AdvVal(k) == 500 + 10 * k
LsbVal(g) == 3 * g - 4
EmptyRule(g, r, h) == (2 * g + Len(r) + h) % 7 = 6

MkSrc(gr, r, h) ==
  [n     |-> NG,
   kind  |-> [i \in 1 .. NG |-> IF gr[i] # <<>> THEN "composite"
                                ELSE IF EmptyRule(i - 1, r, h) THEN "empty" ELSE "simple"],
   shape |-> [i \in 1 .. NG |-> i - 1],
   comp  |-> [i \in 1 .. NG |-> [k \in 1 .. Len(gr[i]) |-> [g |-> gr[i][k], dx |-> Dx(i - 1, k), dy |-> Dy(i - 1, k)]]],
   nhm   |-> h,
   long  |-> [k \in 1 .. h |-> [adv |-> AdvVal(k - 1), lsb |-> LsbVal(k - 1)]],
   tail  |-> [j \in 1 .. NG - h |-> LsbVal(h + j - 1)]]

Init ==
  \E gr \in Graphs(NG, MaxEdges), r \in ReqLists, h \in NHMs :
    /\ src = MkSrc(gr, r, h)
    /\ req = r
    /\ s = Glyf0(r)
    /\ pc = "glyf"
    /\ hm = <<>>

GlyfLoop == pc = "glyf" /\ GlyfMore(s)  /\ s' = GlyfStep(TargetFn(src), s) /\ UNCHANGED <<src, req, pc, hm>>
GlyfEnd  == pc = "glyf" /\ ~GlyfMore(s) /\ pc' = "hmtx" /\ UNCHANGED <<src, req, s, hm>>
HmtxLoop == pc = "hmtx" /\ Len(hm) < Len(s.recs) /\ hm' = HmtxStep(src, s.recs, hm) /\ UNCHANGED <<src, req, s, pc>>
HmtxEnd  == pc = "hmtx" /\ Len(hm) = Len(s.recs) /\ pc' = "done" /\ UNCHANGED <<src, req, s, hm>>
Next == GlyfLoop \/ GlyfEnd \/ HmtxLoop \/ HmtxEnd
Spec == Init /\ [][Next]_vars

\* ---- invariants ---------------------------------------------------------------------
tg == TargetFn(src)

\* holds at every step of the worklist loop
LoopOK ==
  /\ s.cur <= Len(s.ids) /\ Len(s.recs) = s.cur
  /\ Len(s.ids) >= Len(req) /\ SubSeq(s.ids, 1, Len(req)) = req          \* requested ids stay the prefix
  /\ IsDistinct(s.ids)
  /\ Range(s.ids) \subseteq Closure(tg, req)                             \* nothing but components is pulled in
  /\ \A n \in 1 .. s.cur :                                               \* processed records
       /\ s.recs[n].old = s.ids[n]
       /\ LET ts == TargetsOf(tg, s.ids[n]) IN
          /\ Len(s.recs[n].comps) = Len(ts)
          /\ \A k \in 1 .. Len(ts) : /\ s.recs[n].comps[k] < Len(s.ids)
                                     /\ s.ids[s.recs[n].comps[k] + 1] = ts[k]

\* once the worklist is exhausted
GlyfOK ==
  pc \in {"hmtx", "done"} =>
    /\ Olds(s.recs) = s.ids
    /\ ConformantOrder(tg, req, Olds(s.recs))       \* prefix, no duplicates, closure complete and nothing else
    /\ ComponentsRenumbered(tg, s.recs)
    /\ MapsInverse(s.recs)
    /\ \A o \in Ids \ Range(s.ids) : NewId(s.recs, o) = 0

HmtxOK ==
  /\ Len(hm) <= Len(s.recs)
  /\ \A n \in 1 .. Len(hm) : /\ hm[n].adv = AdvOf(src, s.recs[n].old)
                             /\ hm[n].lsb = LsbOf(src, s.recs[n].old)

out == OutFont(src, s.recs, hm)

DoneOK ==
  pc = "done" =>
    /\ SubsetRelation(src, req, s.recs, out)
    /\ SubsetGlyf(src, req) = [recs |-> s.recs, out |-> out]     \* small steps = the run operators the judge uses
    /\ out.nhm = out.n

DesignOK == LoopOK /\ GlyfOK /\ HmtxOK /\ DoneOK

\* ---- CASE lines --------------------------------------------------------------------
RECURSIVE SortSet(_)
SortSet(S) == IF S = {} THEN <<>> ELSE LET m == MinOf(S) IN <<m>> \o SortSet(S \ {m})

FlatJson(r) == IF r.ok THEN r.ls ELSE << <<-1, 0, 0>> >>
\* what the property prescribes for the new glyph that stands for old glyph o (stated on the SOURCE)
Prescribed(o) == <<FlatJson(Outline(src, o)), AdvOf(src, o), LsbOf(src, o)>>

Case ==
  [n     |-> NG,
   nhm   |-> src.nhm,
   adv   |-> [k \in 1 .. src.nhm |-> src.long[k].adv],
   lsb   |-> [g \in 1 .. NG |-> LsbOf(src, g - 1)],
   empty |-> SortSet({g \in Ids : src.kind[g + 1] = "empty"}),
   comp  |-> [i \in 1 .. NG |-> [k \in 1 .. Len(src.comp[i]) |-> <<src.comp[i][k].g, src.comp[i][k].dx, src.comp[i][k].dy>>]],
   req   |-> req,
   exp   |-> [n     |-> Len(s.recs),
              head  |-> [i \in 1 .. Len(req) |-> Prescribed(req[i])],
              \* pulled-in components: their order is the implementation's (Dev_ClosureOrder), listed by old id
              tail  |-> LET T == SortSet(Closure(tg, req) \ Range(req)) IN [i \in 1 .. Len(T) |-> Prescribed(T[i])],
              \* the order and component ids under allsorts' choice (informative)
              order |-> Olds(s.recs),
              comps |-> [i \in 1 .. Len(s.recs) |-> s.recs[i].comps]]]

EmitCase == pc = "done" => PrintT(<<"CASE", ToJson(Case)>>)
=============================================================================
