------------------------------ MODULE MC_Subset ------------------------------
(***************************************************************************)
(* Bounded exhaustive exploration of the subsetting machine of Subset.tla  *)
(* and generator of replay cases (spec -> impl).                           *)
(*                                                                         *)
(* A case = (composite graph, requested glyph ids, numberOfHMetrics):      *)
(*   - every assignment of component lists (sequences of 0 .. MaxDeg glyph *)
(*     ids, repetitions, self reference and cycles included) to NG glyphs  *)
(*     with at most MaxEdges components in total,                          *)
(*   - every list of distinct glyph ids that starts with 0,                *)
(*   - every numberOfHMetrics in NHMs.                                     *)
(* `Init` picks the case; the machine then runs deterministically, one     *)
(* action per loop step of GlyfTable::subset and of create_hmtx_table.     *)
(* The invariants are checked in every state; the finished state prints    *)
(* one CASE line: the source font to synthesize and what the property      *)
(* prescribes for the output.                                              *)
(***************************************************************************)
EXTENDS Subset, Json

CONSTANTS NG,        \* glyphs in the source font
          MaxDeg,    \* components per composite glyph
          MaxEdges,  \* components in the whole font
          NHMs       \* values of numberOfHMetrics explored

VARIABLES src, req, s, pc, hm, rep
vars == <<src, req, s, pc, hm, rep>>

Ids == 0 .. NG - 1

NHMsAll == 1 .. NG
NHMsMid == {(NG + 1) \div 2}     \* glyphs on both sides of numberOfHMetrics (every value is explored with NG = 4)

RECURSIVE SeqsOfLen(_, _)
SeqsOfLen(S, k) == IF k = 0 THEN {<<>>} ELSE {Append(q, x) : q \in SeqsOfLen(S, k - 1), x \in S}

\* component lists for glyphs 0 .. k-1 with at most b components altogether
RECURSIVE Graphs(_, _)
Graphs(k, b) ==
  IF k = 0 THEN {<<>>}
  ELSE UNION {LET G == Graphs(k - 1, b - l) IN {Append(g, c) : g \in G, c \in SeqsOfLen(Ids, l)}
              : l \in 0 .. (IF MaxDeg < b THEN MaxDeg ELSE b)}

RECURSIVE Perms(_, _)
Perms(S, k) == IF k = 0 THEN {<<>>} ELSE UNION {{Append(p, x) : x \in S \ Range(p)} : p \in Perms(S, k - 1)}
ReqLists == UNION {{<<0>> \o p : p \in Perms(1 .. NG - 1, k)} : k \in 0 .. NG - 1}

\* ---- the concrete source font of a case (all values are the generator's choice, printed in CASE) ---
\* Component records.  Which template component k of glyph g gets depends on the whole case (graph
\* position, length of the requested list, numberOfHMetrics), so that over the cases of a run every
\* (glyph, slot) meets every template: all transform kinds (none, scale, x/y scale, two by two with
\* asymmetric off-diagonal terms, negative and extreme F2Dot14 values), both argument widths (bytes on
\* the int8 boundaries, words also where bytes would do, int16 extremes), point-number arguments
\* (ARGS_ARE_XY_VALUES clear), ROUND_XY_TO_GRID, USE_MY_METRICS, OVERLAP_COMPOUND, (UN)SCALED_COMPONENT_OFFSET.
\* args: "b" int8 on the boundaries, "w" words with word-sized values, "s" words with byte-sized values,
\*       "x" int16 extremes, "p" / "q" point numbers as bytes / words
Templates == <<
  [fl |-> 2,                 args |-> "b", tr |-> <<>>],
  [fl |-> 2 + 4,             args |-> "s", tr |-> <<>>],
  [fl |-> 2 + 8,             args |-> "b", tr |-> <<8192>>],
  [fl |-> 2 + 8 + 512,       args |-> "w", tr |-> <<-16384>>],
  [fl |-> 2 + 64,            args |-> "b", tr |-> <<16384, -8192>>],
  [fl |-> 2 + 64 + 4096,     args |-> "w", tr |-> <<-24576, 32767>>],
  [fl |-> 2 + 128,           args |-> "b", tr |-> <<16384, 8192, 0, 16384>>],
  [fl |-> 2 + 128 + 1024,    args |-> "w", tr |-> <<0, 16384, -16384, 0>>],
  [fl |-> 2 + 128 + 2048,    args |-> "s", tr |-> <<-16310, -1, 0, -16384>>],
  [fl |-> 2 + 128 + 4,       args |-> "x", tr |-> <<32767, -32768, 4660, -4660>>],
  [fl |-> 0,                 args |-> "p", tr |-> <<>>],
  [fl |-> 0 + 8,             args |-> "q", tr |-> <<12288>>],
  [fl |-> 2 + 128 + 512,     args |-> "w", tr |-> <<8192, 4096, 4096, 8192>>],
  [fl |-> 2 + 1024 + 4096,   args |-> "x", tr |-> <<>>] >>
NT == Len(Templates)
TemplateOf(g, k, r, h) == Templates[((5 * g + 3 * k + Len(r) + 2 * h) % NT) + 1]

\* arguments, distinct for every (glyph, slot): int8 values from -128 and 127 inwards, words from -129 and 128 outwards
Even(g, k) == (g + k) % 2 = 0
ArgSmall1(g, k) == IF Even(g, k) THEN 129 - 3 * g - k ELSE 3 * g + k - 129
ArgSmall2(g, k) == 0 - (9 * g + 3 * k)
ArgWord1(g, k) == IF Even(g, k) THEN 0 - (97 + 64 * g + 16 * k) ELSE 112 + 64 * g + 16 * k
ArgWord2(g, k) == 300 + 9 * g + 3 * k
MkComp(t, g, k, tp) ==
  [g  |-> t, fl |-> tp.fl, tr |-> tp.tr,
   w  |-> tp.args \in {"w", "s", "x", "q"},
   a1 |-> IF tp.args \in {"b", "s"} THEN ArgSmall1(g, k)
          ELSE IF tp.args = "w" THEN ArgWord1(g, k)
          ELSE IF tp.args = "x" THEN (IF Even(g, k) THEN 32767 - g ELSE g - 32768)
          ELSE IF tp.args = "p" THEN (g + k) % 4 ELSE 256 + g,
   a2 |-> IF tp.args \in {"b", "s"} THEN ArgSmall2(g, k)
          ELSE IF tp.args = "w" THEN ArgWord2(g, k)
          ELSE IF tp.args = "x" THEN (IF Even(g, k) THEN k - 32768 ELSE 32767 - k)
          ELSE IF tp.args = "p" THEN k ELSE 2 + k]
\* instructions: on two of three non-empty glyphs of a case (composites: WE_HAVE_INSTRUCTIONS on the last component)
InstrOf(g, r, h) == IF (g + Len(r) + h) % 3 = 0 THEN <<>> ELSE <<176, g, 177, Len(r), h, 33>>
\* a glyph without contours may still carry instructions (a record with numberOfContours = 0): every other one does
EmptyInstr(g, r, h) == (g + Len(r) + h) % 2 = 0
AdvVal(k) == 500 + 10 * k
LsbVal(g) == 3 * g - 4
EmptyRule(g, r, h) == (2 * g + Len(r) + h) % 7 = 6

MkSrc(gr, r, h) ==
  [n     |-> NG,
   kind  |-> [i \in 1 .. NG |-> IF gr[i] # <<>> THEN "composite"
                                ELSE IF EmptyRule(i - 1, r, h) THEN "empty" ELSE "simple"],
   shape |-> [i \in 1 .. NG |-> i - 1],
   comp  |-> [i \in 1 .. NG |-> [k \in 1 .. Len(gr[i]) |-> MkComp(gr[i][k], i - 1, k, TemplateOf(i - 1, k, r, h))]],
   instr |-> [i \in 1 .. NG |-> IF gr[i] = <<>> /\ EmptyRule(i - 1, r, h) /\ ~EmptyInstr(i - 1, r, h) THEN <<>> ELSE InstrOf(i - 1, r, h)],
   nhm   |-> h,
   long  |-> [k \in 1 .. h |-> [adv |-> AdvVal(k - 1), lsb |-> LsbVal(k - 1)]],
   tail  |-> [j \in 1 .. NG - h |-> LsbVal(h + j - 1)]]

\* The representation of a case (Subset.tla, "representation choices of the source"): every component
\* rotates with a number computed from the whole case, so that over a run every graph shape, list length and
\* numberOfHMetrics meets every choice without multiplying the cases; composites of one font get different
\* numberOfContours values.
RECURSIVE SumSeq(_, _)
SumSeq(q, i) == IF i > Len(q) THEN 0 ELSE i * (q[i] + 1) + SumSeq(q, i + 1)
GraphNum(gr) == SumSeq([i \in 1 .. Len(gr) |-> 7 * Len(gr[i]) + SumSeq(gr[i], 1)], 1)
CaseNum(gr, r, h) == GraphNum(gr) + 5 * SumSeq(r, 1) + 3 * h
NCSeq == <<-1, -2, -32768>>
LocaSeq == <<"short", "long", "long-unpadded", "long-gaps">>
EmptySeq == <<"no-bytes", "zero-contours">>
SimpleSeq == <<"short-vectors", "words-repeat", "overlap-bit">>
DirSeq == <<"sorted", "unsorted">>
MkRep(gr, r, h) ==
  LET k == CaseNum(gr, r, h) IN
  [ncc    |-> [i \in 1 .. NG |-> NCSeq[((k + i) % 3) + 1]],
   loca   |-> LocaSeq[((k \div 3) % 4) + 1],
   empty  |-> EmptySeq[((k \div 2) % 2) + 1],
   simple |-> SimpleSeq[((k \div 5) % 3) + 1],
   dir    |-> DirSeq[((k \div 7) % 2) + 1]]

Init ==
  \E gr \in Graphs(NG, MaxEdges), r \in ReqLists, h \in NHMs :
    /\ rep = MkRep(gr, r, h)
    /\ src = MkSrc(gr, r, h)
    /\ req = r
    /\ s = Glyf0(r)
    /\ pc = "glyf"
    /\ hm = <<>>

GlyfLoop == pc = "glyf" /\ GlyfMore(s)  /\ s' = GlyfStep(TargetFn(src), s) /\ UNCHANGED <<src, req, pc, hm, rep>>
GlyfEnd  == pc = "glyf" /\ ~GlyfMore(s) /\ pc' = "hmtx" /\ UNCHANGED <<src, req, s, hm, rep>>
HmtxLoop == pc = "hmtx" /\ Len(hm) < Len(s.recs) /\ hm' = HmtxStep(src, s.recs, hm) /\ UNCHANGED <<src, req, s, pc, rep>>
HmtxEnd  == pc = "hmtx" /\ Len(hm) = Len(s.recs) /\ pc' = "done" /\ UNCHANGED <<src, req, s, hm, rep>>
Next == GlyfLoop \/ GlyfEnd \/ HmtxLoop \/ HmtxEnd
Spec == Init /\ [][Next]_vars

\* ---- invariants ---------------------------------------------------------------------
tg == TargetFn(src)

\* holds at every step of the worklist loop
LoopOK ==
  /\ s.cur <= Len(s.ids) /\ Len(s.recs) = s.cur
  /\ Len(s.ids) >= Len(req) /\ SubSeq(s.ids, 1, Len(req)) = req          \* requested ids stay the prefix
  /\ IsDistinct(s.ids)
  /\ Range(s.ids) \subseteq Closure(tg, req)                             \* nothing but components is pulled in
  /\ \A n \in 1 .. s.cur :                                               \* processed records
       /\ s.recs[n].old = s.ids[n]
       /\ LET ts == TargetsOf(tg, s.ids[n]) IN
          /\ Len(s.recs[n].comps) = Len(ts)
          /\ \A k \in 1 .. Len(ts) : /\ s.recs[n].comps[k] < Len(s.ids)
                                     /\ s.ids[s.recs[n].comps[k] + 1] = ts[k]

\* once the worklist is exhausted
GlyfOK ==
  pc \in {"hmtx", "done"} =>
    /\ Olds(s.recs) = s.ids
    /\ ConformantOrder(tg, req, Olds(s.recs))       \* prefix, no duplicates, closure complete and nothing else
    /\ ComponentsRenumbered(tg, s.recs)
    /\ MapsInverse(s.recs)
    /\ \A o \in Ids \ Range(s.ids) : NewId(s.recs, o) = 0

HmtxOK ==
  /\ Len(hm) <= Len(s.recs)
  /\ \A n \in 1 .. Len(hm) : /\ hm[n].adv = AdvOf(src, s.recs[n].old)
                             /\ hm[n].lsb = LsbOf(src, s.recs[n].old)

out == OutFont(src, s.recs, hm)

DoneOK ==
  pc = "done" =>
    /\ SubsetRelation(src, req, s.recs, out)
    /\ SubsetGlyf(src, req) = [recs |-> s.recs, out |-> out]     \* small steps = the run operators the judge uses
    /\ out.nhm = out.n

\* the generator's fonts are fonts: every component record is one a file can hold
SrcOK == \A i \in 1 .. NG : \A k \in 1 .. Len(src.comp[i]) : WellFormedComp(src.comp[i][k])

\* a retained composite keeps every component field except the renumbered glyph id; stated on the
\* written font at the end, and on the worklist records (which carry only the ids) all along
KeptOK ==
  pc = "done" =>
    \A n \in 0 .. out.n - 1 :
      LET o == OldId(s.recs, n) IN
      /\ RecordKept(src, out, n, o)
      /\ \A k \in 1 .. Len(src.comp[o + 1]) :
           /\ out.comp[n + 1][k].w = src.comp[o + 1][k].w                      \* Dev_ArgWidth, the machine's choice
           /\ OldId(s.recs, out.comp[n + 1][k].g) = src.comp[o + 1][k].g       \* the one field that changes

\* the representation of the case is one of Reps and decodes to the abstract font of the case; what is prescribed
\* below (Prescribed) is computed from src alone
RepOK == WellFormedRep(src, rep) /\ RepIndependent(src, rep)

DesignOK == SrcOK /\ RepOK /\ LoopOK /\ GlyfOK /\ HmtxOK /\ DoneOK /\ KeptOK

\* ---- CASE lines --------------------------------------------------------------------
RECURSIVE SortSet(_)
SortSet(S) == IF S = {} THEN <<>> ELSE LET m == MinOf(S) IN <<m>> \o SortSet(S \ {m})

FlatJson(r) == IF r.ok THEN r.ls ELSE << <<-1, <<>> >> >>
\* what the property prescribes for the new glyph that stands for old glyph o (stated on the SOURCE):
\* flattened outline, advance, lsb, and the record's own placements (component fields but the id) and instructions
Prescribed(o) == <<FlatJson(Outline(src, o)), AdvOf(src, o), LsbOf(src, o),
                   <<PlacementsOf(src.comp[o + 1]), src.instr[o + 1]>> >>

Case ==
  [n     |-> NG,
   nhm   |-> src.nhm,
   adv   |-> [k \in 1 .. src.nhm |-> src.long[k].adv],
   lsb   |-> [g \in 1 .. NG |-> LsbOf(src, g - 1)],
   empty |-> SortSet({g \in Ids : src.kind[g + 1] = "empty"}),
   \* component: <<glyph id, flags (CompSem bits), ARG_1_AND_2_ARE_WORDS, argument 1, argument 2, transform>>
   comp  |-> [i \in 1 .. NG |-> [k \in 1 .. Len(src.comp[i]) |->
                LET c == src.comp[i][k] IN <<c.g, c.fl, IF c.w THEN 1 ELSE 0, c.a1, c.a2, c.tr>>]],
   instr |-> src.instr,
   \* how the harness is to write the source (a choice that the prescription does not depend on)
   rep   |-> rep,
   req   |-> req,
   exp   |-> [n     |-> Len(s.recs),
              head  |-> [i \in 1 .. Len(req) |-> Prescribed(req[i])],
              \* pulled-in components: their order is the implementation's (Dev_ClosureOrder), listed by old id
              tail  |-> LET T == SortSet(Closure(tg, req) \ Range(req)) IN [i \in 1 .. Len(T) |-> Prescribed(T[i])],
              \* the order and component ids under allsorts' choice (informative)
              order |-> Olds(s.recs),
              comps |-> [i \in 1 .. Len(s.recs) |-> s.recs[i].comps]]]

EmitCase == pc = "done" => PrintT(<<"CASE", ToJson(Case)>>)
=============================================================================
