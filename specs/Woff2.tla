------------------------------- MODULE Woff2 -------------------------------
(***************************************************************************)
(* The WOFF2 container rules that property C11 talks about, transcribed    *)
(* from the W3C WOFF2 recommendation (sections 4.1 table directory, 4.2    *)
(* collection directory, 5.1 transformed glyf, 5.2 triplet encoding, 5.4   *)
(* transformed hmtx, 6.1.1 UIntBase128, 6.1.2 255UInt16).                  *)
(*                                                                         *)
(* Everything is a pure operator over byte sequences (bytes are 0..255,    *)
(* offsets are 0-based, sequences 1-based).  Decoders return records with  *)
(* an `ok` field; a decoder never looks outside the sequence it is given.  *)
(*                                                                         *)
(* Grain: one operator per reader of src/woff2.rs                          *)
(*   DecB128At          U32Base128::read                                   *)
(*   Dec255At           PackedU16::read                                    *)
(*   Triplet / TripletXY   COORD_LUT entry + XYTriplet::dx/dy (the table   *)
(*                      is DERIVED here from the five families of rules)   *)
(*   BitmapGet          BitSlice::get                                      *)
(*   DecGlyphAt         one iteration of the loop in Woff2GlyfTable::read  *)
(*   ParseGlyfTable     TransformedGlyphTable::read                        *)
(*   DecHmtx            Woff2HmtxTable::read_dep                           *)
(*   DecDirectory       Woff2Font::read_table_directory                    *)
(*   DecCollection      collection::Directory::read                        *)
(***************************************************************************)
EXTENDS Integers, Sequences, FiniteSets

Abs(x) == IF x < 0 THEN -x ELSE x
MinOf(S) == CHOOSE x \in S : \A y \in S : x <= y
MaxOf(S) == CHOOSE x \in S : \A y \in S : x >= y

U16B(v) == <<v \div 256, v % 256>>
I16B(v) == U16B(IF v < 0 THEN v + 65536 ELSE v)
I8B(v)  == IF v < 0 THEN v + 256 ELSE v
I8Of(b) == IF b >= 128 THEN b - 256 ELSE b
U32B(n) == <<n \div 16777216, (n \div 65536) % 256, (n \div 256) % 256, n % 256>>   \* 0 <= n < 2^31
U16At(s, at) == s[at + 1] * 256 + s[at + 2]
I16At(s, at) == LET u == U16At(s, at) IN IF u >= 32768 THEN u - 65536 ELSE u
\* big-endian u32 below 2^31 (sizes inside a transformed glyf table); -1 when it does not fit
U31At(s, at) == IF s[at + 1] >= 128 THEN -1
                ELSE ((s[at + 1] * 256 + s[at + 2]) * 256 + s[at + 3]) * 256 + s[at + 4]
Has(s, at, n) == at >= 0 /\ n >= 0 /\ at + n <= Len(s)
Slice(s, at, n) == SubSeq(s, at + 1, at + n)

RECURSIVE Flat(_)
Flat(ss) == IF ss = <<>> THEN <<>> ELSE Head(ss) \o Flat(Tail(ss))

---------------------------------------------------------------------------
(* 6.1.1  UIntBase128.  A u32 is the pair <<hi16, lo16>> (TLC integers are *)
(* 32-bit signed).  Rules: at most 5 bytes; a leading 0x80 byte (leading   *)
(* zeros) is invalid; if any of the top 7 bits of the accumulator are set  *)
(* before the shift the value overflows 32 bits and is invalid.            *)
U32Of(n) == <<n \div 65536, n % 65536>>                \* 0 <= n < 2^31
NatOf(v) == v[1] * 65536 + v[2]                        \* only for v[1] < 32768

B128Push(acc, septet) ==
  <<((acc[1] * 128) % 65536) + ((acc[2] * 128) \div 65536), ((acc[2] * 128) % 65536) + septet>>
B128Fail == [ok |-> FALSE, hi |-> 0, lo |-> 0, used |-> 0]

RECURSIVE B128Step(_, _, _, _)
B128Step(s, at, i, acc) ==
  IF i = 5 \/ ~Has(s, at + i, 1) THEN B128Fail
  ELSE LET b == s[at + i + 1] IN
       IF i = 0 /\ b = 128 THEN B128Fail
       ELSE IF acc[1] >= 512 THEN B128Fail              \* acc & 0xFE000000 # 0
       ELSE LET a2 == B128Push(acc, b % 128) IN
            IF b < 128 THEN [ok |-> TRUE, hi |-> a2[1], lo |-> a2[2], used |-> i + 1]
            ELSE B128Step(s, at, i + 1, a2)
DecB128At(s, at) == B128Step(s, at, 0, <<0, 0>>)

\* the five septets of a u32, most significant first (4 + 7 + 7 + 7 + 7 bits)
B128Septets(v) == <<v[1] \div 4096, (v[1] \div 32) % 128, (v[1] % 32) * 4 + v[2] \div 16384,
                    (v[2] \div 128) % 128, v[2] % 128>>
RECURSIVE StripZeros(_)
StripZeros(s) == IF Len(s) > 1 /\ s[1] = 0 THEN StripZeros(Tail(s)) ELSE s
\* the (unique) conforming encoding: no leading zero septet
EncB128(v) == LET q == StripZeros(B128Septets(v)) IN
              [k \in 1 .. Len(q) |-> IF k < Len(q) THEN q[k] + 128 ELSE q[k]]

---------------------------------------------------------------------------
(* 6.1.2  255UInt16: code 253 = word follows, 255 = byte + 253,            *)
(* 254 = byte + 506, anything else is the value itself.  A value may have  *)
(* up to four encodings, all of them valid.                                *)
U255Fail == [ok |-> FALSE, v |-> 0, used |-> 0]
Dec255At(s, at) ==
  IF ~Has(s, at, 1) THEN U255Fail
  ELSE LET c == s[at + 1] IN
       CASE c = 253 -> IF Has(s, at + 1, 2) THEN [ok |-> TRUE, v |-> U16At(s, at + 1), used |-> 3] ELSE U255Fail
         [] c = 255 -> IF Has(s, at + 1, 1) THEN [ok |-> TRUE, v |-> s[at + 2] + 253, used |-> 2] ELSE U255Fail
         [] c = 254 -> IF Has(s, at + 1, 1) THEN [ok |-> TRUE, v |-> s[at + 2] + 506, used |-> 2] ELSE U255Fail
         [] OTHER   -> [ok |-> TRUE, v |-> c, used |-> 1]

Forms255(v) == (IF v < 253 THEN {"one"} ELSE {})
          \cup (IF v >= 253 /\ v < 509 THEN {"c255"} ELSE {})
          \cup (IF v >= 506 /\ v < 762 THEN {"c254"} ELSE {})
          \cup {"c253"}
Enc255Form(v, f) == CASE f = "one"  -> <<v>>
                      [] f = "c255" -> <<255, v - 253>>
                      [] f = "c254" -> <<254, v - 506>>
                      [] f = "c253" -> <<253>> \o U16B(v)
Enc255All(v) == {Enc255Form(v, f) : f \in Forms255(v)}
\* encoder policies (a conforming encoder may use any form)
Pref255(policy) == CASE policy = "short" -> <<"one", "c255", "c254", "c253">>
                     [] policy = "word"  -> <<"c253">>
                     [] policy = "alt"   -> <<"c254", "c255", "c253">>
Enc255(v, policy) ==
  LET p == Pref255(policy)
      k == CHOOSE k \in 1 .. Len(p) : p[k] \in Forms255(v) /\ \A j \in 1 .. (k - 1) : p[j] \notin Forms255(v)
  IN Enc255Form(v, p[k])

---------------------------------------------------------------------------
(* 5.2  Triplet encoding.  The low 7 bits of a flag byte select one of 128 *)
(* (extra byte count, x bits, y bits, delta x, delta y, x sign, y sign)    *)
(* entries; the top bit CLEAR means on-curve.  The table is not copied: it *)
(* is generated from the five families the recommendation lays out:        *)
(*    0..  9  dx = 0, 8 bits of dy, dy base 0,256,..1024, sign             *)
(*   10.. 19  dy = 0, 8 bits of dx, dx base 0,256,..1024, sign             *)
(*   20.. 83  4 + 4 bits, bases 1,17,33,49 for x (outer) and y (inner)     *)
(*   84..119  8 + 8 bits, bases 1,257,513 for x (outer) and y (inner)      *)
(*  120..123  12 + 12 bits, base 0;   124..127  16 + 16 bits, base 0       *)
(* Within a family the lowest index bits are the signs: bit 0 set = x      *)
(* (or the only coordinate) positive, bit 1 set = y positive.              *)
Sgn(bit) == IF bit = 1 THEN 1 ELSE -1
TripletRule(i) ==
  IF i < 10 THEN
    [nb |-> 1, xb |-> 0, yb |-> 8, dx |-> 0, dy |-> 256 * (i \div 2), xs |-> 1, ys |-> Sgn(i % 2)]
  ELSE IF i < 20 THEN
    [nb |-> 1, xb |-> 8, yb |-> 0, dx |-> 256 * ((i - 10) \div 2), dy |-> 0, xs |-> Sgn(i % 2), ys |-> 1]
  ELSE IF i < 84 THEN LET k == i - 20 IN
    [nb |-> 1, xb |-> 4, yb |-> 4, dx |-> 1 + 16 * (k \div 16), dy |-> 1 + 16 * ((k \div 4) % 4),
     xs |-> Sgn(k % 2), ys |-> Sgn((k \div 2) % 2)]
  ELSE IF i < 120 THEN LET k == i - 84 IN
    [nb |-> 2, xb |-> 8, yb |-> 8, dx |-> 1 + 256 * (k \div 12), dy |-> 1 + 256 * ((k \div 4) % 3),
     xs |-> Sgn(k % 2), ys |-> Sgn((k \div 2) % 2)]
  ELSE LET k == (i - 120) % 4  w == IF i < 124 THEN 12 ELSE 16 IN
    [nb |-> IF i < 124 THEN 3 ELSE 4, xb |-> w, yb |-> w, dx |-> 0, dy |-> 0,
     xs |-> Sgn(k % 2), ys |-> Sgn((k \div 2) % 2)]

\* the table proper, computed once from the rule
TripletTable == [i \in 0 .. 127 |-> TripletRule(i)]
Triplet(i) == TripletTable[i]

\* the x bits are the top bits of the data bytes, the y bits follow
TripletXY(t, b) ==
  IF t.nb = 4 THEN <<b[1] * 256 + b[2], b[3] * 256 + b[4]>>       \* 16 + 16: split, keeps below 2^31
  ELSE LET N == IF t.nb = 1 THEN b[1] ELSE IF t.nb = 2 THEN b[1] * 256 + b[2]
                ELSE (b[1] * 256 + b[2]) * 256 + b[3]
       IN <<N \div 2 ^ t.yb, N % 2 ^ t.yb>>
\* decoded (dx, dy, onCurve) of a flag byte and its data bytes
TripletDecode(flag, b) ==
  LET t == Triplet(flag % 128)  xy == TripletXY(t, b) IN
  <<t.xs * (xy[1] + t.dx), t.ys * (xy[2] + t.dy), IF flag < 128 THEN 1 ELSE 0>>

\* encoder side: entry i can carry (dx, dy) iff magnitudes fall in its range and signs agree
Fits(i, dx, dy) ==
  LET t == Triplet(i)  X == Abs(dx) - t.dx  Y == Abs(dy) - t.dy IN
  /\ X >= 0 /\ X < 2 ^ t.xb /\ Y >= 0 /\ Y < 2 ^ t.yb
  /\ (dx > 0 => t.xs = 1) /\ (dx < 0 => t.xs = -1)
  /\ (dy > 0 => t.ys = 1) /\ (dy < 0 => t.ys = -1)
TripletCands(dx, dy) == {i \in 0 .. 127 : Fits(i, dx, dy)}
TripletBytes(i, dx, dy) ==
  LET t == Triplet(i)  X == Abs(dx) - t.dx  Y == Abs(dy) - t.dy IN
  CASE t.nb = 1 -> <<X * 2 ^ t.yb + Y>>
    [] t.nb = 2 -> <<X, Y>>
    [] t.nb = 3 -> <<X \div 16, (X % 16) * 16 + Y \div 256, Y % 256>>
    [] t.nb = 4 -> <<X \div 256, X % 256, Y \div 256, Y % 256>>
\* The index arithmetic of the reference encoder (google/woff2 transform.cc), an independent
\* formulation of the same table: it must select an entry that fits, with the byte count of
\* the cheapest entry.  Also offered as the encoder policy "ref".
ReferenceIndex(dx, dy) ==
  LET ax == Abs(dx)  ay == Abs(dy)
      xsb == IF dx < 0 THEN 0 ELSE 1  ysb == IF dy < 0 THEN 0 ELSE 1  xy == xsb + 2 * ysb
  IN IF dx = 0 /\ ay < 1280 THEN 2 * (ay \div 256) + ysb
     ELSE IF dy = 0 /\ ax < 1280 THEN 10 + 2 * (ax \div 256) + xsb
     ELSE IF ax < 65 /\ ay < 65 THEN 20 + 16 * ((ax - 1) \div 16) + 4 * ((ay - 1) \div 16) + xy
     ELSE IF ax < 769 /\ ay < 769 THEN 84 + 12 * ((ax - 1) \div 256) + 4 * ((ay - 1) \div 256) + xy
     ELSE IF ax < 4096 /\ ay < 4096 THEN 120 + xy
     ELSE 124 + xy

\* encoder policies: "min" fewest bytes then lowest index (what woff2_compress does),
\* "max" highest index that fits, "alt" the runner-up of "min" when there is one
TKey(i) == Triplet(i).nb * 128 + i
TripletPick(dx, dy, policy) ==
  LET C == TripletCands(dx, dy)
      lo == CHOOSE i \in C : \A j \in C : TKey(i) <= TKey(j)
  IN CASE policy = "min" -> lo
       [] policy = "ref" -> ReferenceIndex(dx, dy)
       [] policy = "max" -> MaxOf(C)
       [] policy = "alt" -> IF C = {lo} THEN lo
                            ELSE LET R == C \ {lo} IN CHOOSE i \in R : \A j \in R : TKey(i) <= TKey(j)

---------------------------------------------------------------------------
(* 5.1  bboxBitmap.  The recommendation: "The total number of bytes in      *)
(* bboxBitmap is equal to 4 * floor((numGlyphs + 31) / 32).  The bits are  *)
(* packed so that glyph number 0 corresponds to the most significant bit   *)
(* of the first byte".  In words: a whole number of 32-bit words, the       *)
(* fewest that hold one bit per glyph - so 32 glyphs need ONE word (4      *)
(* bytes), 33 need two, 64 need two, 0 need none.  The bbox stream size    *)
(* of the table header covers the bitmap AND the bounding boxes, so this   *)
(* length is the only thing that tells a decoder where the first explicit  *)
(* bounding box starts.                                                    *)
(* The rule is stated twice, the way the two sides use it: the decoder     *)
(* (ParseGlyfTable) takes the formula of the text, the encoder             *)
(* (BitmapBytes) counts the started groups of 32 glyphs.  BitmapLenRule    *)
(* below is the lemma that they are the same function (TLC: n in 0..130).  *)
BitmapLen(n) == 4 * ((n + 31) \div 32)                                  \* decoder: the text's formula
BitmapWords(n) == IF n % 32 = 0 THEN n \div 32 ELSE n \div 32 + 1        \* started groups of 32 glyphs
EncBitmapLen(n) == 4 * BitmapWords(n)                                   \* encoder
BitmapGet(bm, g) == IF g \div 8 < Len(bm) THEN (bm[g \div 8 + 1] \div 2 ^ (7 - (g % 8))) % 2 ELSE -1
BitmapBytes(bits) ==          \* bits: sequence of 0/1, one per glyph
  [k \in 1 .. EncBitmapLen(Len(bits)) |->
     LET B(j) == IF 8 * (k - 1) + j + 1 <= Len(bits) THEN bits[8 * (k - 1) + j + 1] ELSE 0 IN
     128 * B(0) + 64 * B(1) + 32 * B(2) + 16 * B(3) + 8 * B(4) + 4 * B(5) + 2 * B(6) + B(7)]

---------------------------------------------------------------------------
(* Abstract glyph record (the vocabulary of the property): kind, end       *)
(* points of contours, points <<x, y, onCurve>>, instructions, bounding    *)
(* box <<xMin, yMin, xMax, yMax>>, components.                             *)
EmptyRec == [kind |-> "empty", ends |-> <<>>, pts |-> <<>>, instr |-> <<>>,
             bbox |-> <<0, 0, 0, 0>>, comps |-> <<>>]
\* tight bounding box of a point sequence (one pass, so that glyphs of several hundred points stay cheap)
RECURSIVE BBoxFrom(_, _, _)
BBoxFrom(pts, k, b) ==
  IF k > Len(pts) THEN b
  ELSE LET x == pts[k][1]  y == pts[k][2] IN
       BBoxFrom(pts, k + 1, <<IF x < b[1] THEN x ELSE b[1], IF y < b[2] THEN y ELSE b[2],
                              IF x > b[3] THEN x ELSE b[3], IF y > b[4] THEN y ELSE b[4]>>)
BBoxOf(pts) ==
  IF pts = <<>> THEN <<0, 0, 0, 0>>
  ELSE BBoxFrom(pts, 2, <<pts[1][1], pts[1][2], pts[1][1], pts[1][2]>>)
BBoxAt(s, at) == <<I16At(s, at), I16At(s, at + 2), I16At(s, at + 4), I16At(s, at + 6)>>
XMinOf(rec) == IF rec.kind = "empty" THEN 0 ELSE rec.bbox[1]

\* Dev_ReservedComponentBits: bits 4, 13, 14, 15 of a component flag word are reserved;
\* allsorts' CompositeGlyphFlag::from_bits_truncate drops them, so they are not compared.
Dev_MaskCompFlags(fl) == (fl % 8192) - (IF (fl \div 16) % 2 = 1 THEN 16 ELSE 0)

Bit(v, k) == (v \div 2 ^ k) % 2
CompTrCount(fl) == IF Bit(fl, 3) = 1 THEN 1 ELSE IF Bit(fl, 6) = 1 THEN 2 ELSE IF Bit(fl, 7) = 1 THEN 4 ELSE 0
CompBytes(c) ==
  LET words == Bit(c.flags, 0) = 1  xy == Bit(c.flags, 1) = 1
      Arg(v) == IF words THEN (IF xy THEN I16B(v) ELSE U16B(v)) ELSE <<IF xy THEN I8B(v) ELSE v>>
  IN U16B(c.flags) \o U16B(c.gid) \o Arg(c.a1) \o Arg(c.a2) \o Flat([k \in 1 .. Len(c.tr) |-> I16B(c.tr[k])])

---------------------------------------------------------------------------
(* 5.1  The transformed glyf table: seven streams plus the bbox bitmap.    *)
(* S = [nc, np, fl, gl, co, bm, bb, ins]; a cursor has one offset per      *)
(* stream that is consumed sequentially.                                   *)
Cur0 == [nc |-> 0, np |-> 0, fl |-> 0, gl |-> 0, co |-> 0, bb |-> 0, ins |-> 0]
EndCur(S) == [nc |-> Len(S.nc), np |-> Len(S.np), fl |-> Len(S.fl), gl |-> Len(S.gl),
              co |-> Len(S.co), bb |-> Len(S.bb), ins |-> Len(S.ins)]
DecFail(c) == [ok |-> FALSE, cur |-> c, rec |-> EmptyRec]

RECURSIVE ReadCounts(_, _, _, _, _)
ReadCounts(s, at, k, total, ends) ==
  IF k = 0 THEN [ok |-> TRUE, at |-> at, total |-> total, ends |-> ends]
  ELSE LET r == Dec255At(s, at) IN
       IF ~r.ok THEN [ok |-> FALSE, at |-> at, total |-> total, ends |-> ends]
       ELSE ReadCounts(s, at + r.used, k - 1, total + r.v, Append(ends, total + r.v - 1))

RECURSIVE ReadPoints(_, _, _, _, _, _, _)
ReadPoints(S, flAt, glAt, k, x, y, acc) ==
  IF k = 0 THEN [ok |-> TRUE, gl |-> glAt, pts |-> acc]
  ELSE LET f == S.fl[flAt + 1]  t == Triplet(f % 128) IN
       IF ~Has(S.gl, glAt, t.nb) THEN [ok |-> FALSE, gl |-> glAt, pts |-> acc]
       ELSE LET xy == TripletXY(t, Slice(S.gl, glAt, t.nb))
                nx == x + t.xs * (xy[1] + t.dx)
                ny == y + t.ys * (xy[2] + t.dy)
            IN ReadPoints(S, flAt + 1, glAt + t.nb, k - 1, nx, ny,
                          Append(acc, <<nx, ny, IF f < 128 THEN 1 ELSE 0>>))

DecSimple(S, c, n, bit) ==
  LET rc == ReadCounts(S.np, c.np, n, 0, <<>>) IN
  IF ~rc.ok \/ ~Has(S.fl, c.fl, rc.total) THEN DecFail(c) ELSE
  LET rp == ReadPoints(S, c.fl, c.gl, rc.total, 0, 0, <<>>) IN
  IF ~rp.ok THEN DecFail(c) ELSE
  LET il == Dec255At(S.gl, rp.gl) IN
  IF ~il.ok \/ ~Has(S.ins, c.ins, il.v) \/ (bit = 1 /\ ~Has(S.bb, c.bb, 8)) THEN DecFail(c) ELSE
  [ok |-> TRUE,
   cur |-> [nc |-> c.nc + 2, np |-> rc.at, fl |-> c.fl + rc.total, gl |-> rp.gl + il.used, co |-> c.co,
            bb |-> IF bit = 1 THEN c.bb + 8 ELSE c.bb, ins |-> c.ins + il.v],
   rec |-> [kind |-> "simple", ends |-> rc.ends, pts |-> rp.pts, instr |-> Slice(S.ins, c.ins, il.v),
            bbox |-> IF bit = 1 THEN BBoxAt(S.bb, c.bb) ELSE BBoxOf(rp.pts), comps |-> <<>>]]

RECURSIVE ReadComps(_, _, _, _)
ReadComps(s, at, acc, hasInstr) ==
  IF ~Has(s, at, 4) THEN [ok |-> FALSE, at |-> at, comps |-> acc, hasInstr |-> hasInstr] ELSE
  LET fl == U16At(s, at)  gid == U16At(s, at + 2)
      words == Bit(fl, 0) = 1  xy == Bit(fl, 1) = 1
      alen == IF words THEN 4 ELSE 2
      ntr == CompTrCount(fl)
      total == 4 + alen + 2 * ntr
  IN IF ~Has(s, at, total) THEN [ok |-> FALSE, at |-> at, comps |-> acc, hasInstr |-> hasInstr] ELSE
     LET ArgAt(o) == IF words THEN (IF xy THEN I16At(s, o) ELSE U16At(s, o))
                     ELSE (IF xy THEN I8Of(s[o + 1]) ELSE s[o + 1])
         comp == [flags |-> Dev_MaskCompFlags(fl), gid |-> gid,
                  a1 |-> ArgAt(at + 4), a2 |-> ArgAt(at + 4 + alen \div 2),
                  tr |-> [k \in 1 .. ntr |-> I16At(s, at + 4 + alen + 2 * (k - 1))]]
         hi == hasInstr \/ Bit(fl, 8) = 1
     IN IF Bit(fl, 5) = 1 THEN ReadComps(s, at + total, Append(acc, comp), hi)
        ELSE [ok |-> TRUE, at |-> at + total, comps |-> Append(acc, comp), hasInstr |-> hi]

\* a composite glyph MUST carry an explicit bounding box.
\* Step 3a of the recommendation: "If any of the component flags has FLAG_WE_HAVE_INSTRUCTIONS set, read the
\* instructionLength from the glyph stream and that many bytes from the instruction stream" - ANY component:
\* neither OpenType nor WOFF2 say which component record carries the bit (font tools put it on the last one,
\* hand-edited and merged fonts do not).  ReadComps therefore ORs bit 8 over every component it passes
\* (`hasInstr`), whatever its position; CompInstrAnywhere below is the lemma that the position does not matter.
\* The same holds for every other per-component property: the width and signedness of the arguments
\* (bits 0, 1), the transform kind (bits 3, 6, 7) and the remaining flag bits belong to THEIR component only,
\* and MORE_COMPONENTS (bit 5) of a component alone says whether another one follows.
DecComposite(S, c, bit) ==
  LET rc == ReadComps(S.co, c.co, <<>>, FALSE) IN
  IF ~rc.ok \/ bit # 1 \/ ~Has(S.bb, c.bb, 8) THEN DecFail(c) ELSE
  LET il == IF rc.hasInstr THEN Dec255At(S.gl, c.gl) ELSE [ok |-> TRUE, v |-> 0, used |-> 0] IN
  IF ~il.ok \/ ~Has(S.ins, c.ins, il.v) THEN DecFail(c) ELSE
  [ok |-> TRUE,
   cur |-> [nc |-> c.nc + 2, np |-> c.np, fl |-> c.fl, gl |-> c.gl + il.used, co |-> rc.at,
            bb |-> c.bb + 8, ins |-> c.ins + il.v],
   rec |-> [kind |-> "composite", ends |-> <<>>, pts |-> <<>>, instr |-> Slice(S.ins, c.ins, il.v),
            bbox |-> BBoxAt(S.bb, c.bb), comps |-> rc.comps]]

\* one step of the stream machine: glyph g at cursor c
DecGlyphAt(S, c, g) ==
  IF ~Has(S.nc, c.nc, 2) THEN DecFail(c) ELSE
  LET n == I16At(S.nc, c.nc)  bit == BitmapGet(S.bm, g) IN
  IF bit = -1 THEN DecFail(c)
  ELSE IF n = 0 THEN (IF bit = 1 THEN DecFail(c)      \* an empty glyph must not have a bbox
                      ELSE [ok |-> TRUE, cur |-> [c EXCEPT !.nc = c.nc + 2], rec |-> EmptyRec])
  ELSE IF n > 0 THEN DecSimple(S, c, n, bit)
  ELSE IF n = -1 THEN DecComposite(S, c, bit)
  ELSE DecFail(c)

RECURSIVE DecAllFrom(_, _, _, _, _, _)
DecAllFrom(S, n, g, c, recs, curs) ==
  IF g = n THEN [ok |-> TRUE, cur |-> c, recs |-> recs, curs |-> curs]
  ELSE LET r == DecGlyphAt(S, c, g) IN
       IF ~r.ok THEN [ok |-> FALSE, cur |-> c, recs |-> recs, curs |-> curs]
       ELSE DecAllFrom(S, n, g + 1, r.cur, Append(recs, r.rec), Append(curs, r.cur))
\* recs: the glyph records; curs: the cursor after every glyph (for the cursor invariants)
DecAll(S, n) == DecAllFrom(S, n, 0, Cur0, <<>>, <<>>)

\* Cursor discipline of one step (checked by TLC on every generated glyph set):
\* every cursor is monotone, a glyph kind touches only its own streams, and the nContour
\* cursor advances by exactly two bytes per glyph.
StepDiscipline(c, d, rec) ==
  /\ d.nc = c.nc + 2
  /\ d.np >= c.np /\ d.fl >= c.fl /\ d.gl >= c.gl /\ d.co >= c.co /\ d.bb >= c.bb /\ d.ins >= c.ins
  /\ d.bb - c.bb \in {0, 8}
  /\ d.ins - c.ins = Len(rec.instr)
  /\ (rec.kind = "empty" => d = [c EXCEPT !.nc = d.nc])
  /\ (rec.kind = "simple" => /\ d.co = c.co
                             /\ d.fl - c.fl = Len(rec.pts)
                             /\ d.np > c.np /\ d.gl > c.gl)
  /\ (rec.kind = "composite" => /\ d.np = c.np /\ d.fl = c.fl
                                /\ d.co > c.co /\ d.bb = c.bb + 8)

\* --- encoder (conforming; `ch` = [trip, u16, bbox]) ------------------------
RECURSIVE EncPoints(_, _, _, _, _, _)
EncPoints(pts, k, x, y, policy, acc) ==       \* acc = <<flag bytes, data bytes>>
  IF k > Len(pts) THEN acc
  ELSE LET dx == pts[k][1] - x  dy == pts[k][2] - y
           i == TripletPick(dx, dy, policy)
       IN EncPoints(pts, k + 1, pts[k][1], pts[k][2], policy,
                    <<Append(acc[1], i + (IF pts[k][3] = 1 THEN 0 ELSE 128)),
                      acc[2] \o TripletBytes(i, dx, dy)>>)

NoStreams == [nc |-> <<>>, np |-> <<>>, fl |-> <<>>, gl |-> <<>>, co |-> <<>>, bb |-> <<>>, ins |-> <<>>, bit |-> 0]
EncGlyph(rec, ch) ==
  CASE rec.kind = "empty" -> [NoStreams EXCEPT !.nc = I16B(0)]
    [] rec.kind = "simple" ->
         LET cnt(k) == rec.ends[k] - (IF k = 1 THEN -1 ELSE rec.ends[k - 1])
             ep == EncPoints(rec.pts, 1, 0, 0, ch.trip, <<<<>>, <<>>>>)
             bit == IF ch.bbox = "all" \/ rec.bbox # BBoxOf(rec.pts) THEN 1 ELSE 0
         IN [nc |-> I16B(Len(rec.ends)),
             np |-> Flat([k \in 1 .. Len(rec.ends) |-> Enc255(cnt(k), ch.u16)]),
             fl |-> ep[1],
             gl |-> ep[2] \o Enc255(Len(rec.instr), ch.u16),
             co |-> <<>>,
             bb |-> IF bit = 1 THEN Flat([k \in 1 .. 4 |-> I16B(rec.bbox[k])]) ELSE <<>>,
             ins |-> rec.instr, bit |-> bit]
    [] rec.kind = "composite" ->
         LET hasI == \E k \in DOMAIN rec.comps : Bit(rec.comps[k].flags, 8) = 1 IN
            [nc |-> I16B(-1), np |-> <<>>, fl |-> <<>>,
             gl |-> IF hasI THEN Enc255(Len(rec.instr), ch.u16) ELSE <<>>,
             co |-> Flat([k \in 1 .. Len(rec.comps) |-> CompBytes(rec.comps[k])]),
             bb |-> Flat([k \in 1 .. 4 |-> I16B(rec.bbox[k])]),
             ins |-> rec.instr, bit |-> 1]

EncGlyf(recs, ch) ==
  LET E == [k \in 1 .. Len(recs) |-> EncGlyph(recs[k], ch)] IN
  [nc |-> Flat([k \in DOMAIN E |-> E[k].nc]), np |-> Flat([k \in DOMAIN E |-> E[k].np]),
   fl |-> Flat([k \in DOMAIN E |-> E[k].fl]), gl |-> Flat([k \in DOMAIN E |-> E[k].gl]),
   co |-> Flat([k \in DOMAIN E |-> E[k].co]), bm |-> BitmapBytes([k \in DOMAIN E |-> E[k].bit]),
   bb |-> Flat([k \in DOMAIN E |-> E[k].bb]), ins |-> Flat([k \in DOMAIN E |-> E[k].ins])]

\* overlapSimpleBitmap (optionFlags bit 0): one bit per glyph, set when the first flag of a simple glyph of the
\* source carries OVERLAP_SIMPLE; packed like the bboxBitmap (glyph 0 = most significant bit of the first byte) but
\* padded to whole BYTES only: floor((numGlyphs + 7) / 8) bytes - NOT to 32-bit words.  It follows the instruction
\* stream and is not counted by any of the seven stream sizes (only by the directory's transformLength).
OverlapLen(n) == (n + 7) \div 8
OverlapBytes(bits) ==
  [k \in 1 .. OverlapLen(Len(bits)) |->
     LET B(j) == IF 8 * (k - 1) + j + 1 <= Len(bits) THEN bits[8 * (k - 1) + j + 1] ELSE 0 IN
     128 * B(0) + 64 * B(1) + 32 * B(2) + 16 * B(3) + 8 * B(4) + 4 * B(5) + 2 * B(6) + B(7)]

\* table layout: reserved u16, optionFlags u16, numGlyphs, indexFormat, seven u32 sizes (the
\* bbox size covers bitmap + bbox values), the streams; an optional overlapSimpleBitmap follows
\* when optionFlags bit 0 is set (decoders that do not use it ignore it).
GlyfTableBytes(S, n, indexFormat, optionFlags, tail) ==
  U16B(0) \o U16B(optionFlags) \o U16B(n) \o U16B(indexFormat)
  \o U32B(Len(S.nc)) \o U32B(Len(S.np)) \o U32B(Len(S.fl)) \o U32B(Len(S.gl)) \o U32B(Len(S.co))
  \o U32B(Len(S.bm) + Len(S.bb)) \o U32B(Len(S.ins))
  \o S.nc \o S.np \o S.fl \o S.gl \o S.co \o S.bm \o S.bb \o S.ins \o tail

ParseGlyfTable(b) ==
  IF ~Has(b, 0, 36) THEN [ok |-> FALSE] ELSE
  LET n == U16At(b, 4)
      sz == [k \in 1 .. 7 |-> U31At(b, 8 + 4 * (k - 1))]
      bml == BitmapLen(n)
  IN IF (\E k \in 1 .. 7 : sz[k] < 0) \/ sz[6] < bml THEN [ok |-> FALSE] ELSE
     LET o1 == 36  o2 == o1 + sz[1]  o3 == o2 + sz[2]  o4 == o3 + sz[3]  o5 == o4 + sz[4]
         o6 == o5 + sz[5]  o7 == o6 + sz[6]  end == o7 + sz[7]
     IN IF Len(b) < end THEN [ok |-> FALSE] ELSE
        [ok |-> TRUE, n |-> n, indexFormat |-> U16At(b, 6), optionFlags |-> U16At(b, 2),
         S |-> [nc |-> Slice(b, o1, sz[1]), np |-> Slice(b, o2, sz[2]), fl |-> Slice(b, o3, sz[3]),
                gl |-> Slice(b, o4, sz[4]), co |-> Slice(b, o5, sz[5]), bm |-> Slice(b, o6, bml),
                bb |-> Slice(b, o6 + bml, sz[6] - bml), ins |-> Slice(b, o7, sz[7])]]

---------------------------------------------------------------------------
(* 5.4  Transformed hmtx (transform version 1): flags, advanceWidth[nhm],  *)
(* lsb[nhm] unless bit 0, leftSideBearing[n - nhm] unless bit 1.  An       *)
(* elided side bearing is the xMin of THAT glyph (0 for an empty glyph).   *)
(* 1-based sequences: adv[g], lsb[g], xmin[g] describe glyph g - 1.        *)
HmtxAllowed(flags, n, nhm, lsb, xmin) ==
  /\ flags \in {1, 2, 3}
  /\ (flags % 2 = 1 => \A g \in 1 .. nhm : lsb[g] = xmin[g])
  /\ (flags \div 2 = 1 => \A g \in (nhm + 1) .. n : lsb[g] = xmin[g])
EncHmtx(flags, n, nhm, adv, lsb) ==
  <<flags>> \o Flat([g \in 1 .. nhm |-> U16B(adv[g])])
  \o (IF flags % 2 = 0 THEN Flat([g \in 1 .. nhm |-> I16B(lsb[g])]) ELSE <<>>)
  \o (IF flags \div 2 = 0 THEN Flat([g \in 1 .. (n - nhm) |-> I16B(lsb[nhm + g])]) ELSE <<>>)
DecHmtx(b, n, nhm, xmin) ==
  IF Len(b) < 1 \/ nhm < 1 \/ nhm > n THEN [ok |-> FALSE, adv |-> <<>>, lsb |-> <<>>] ELSE
  LET flags == b[1]
      p1 == flags % 2 = 0                    \* lsb[] present
      p2 == (flags \div 2) % 2 = 0           \* leftSideBearing[] present
      lsbAt == 1 + 2 * nhm
      tailAt == lsbAt + (IF p1 THEN 2 * nhm ELSE 0)
      need == tailAt + (IF p2 THEN 2 * (n - nhm) ELSE 0)
  IN IF Len(b) < need \/ flags >= 4 \/ (p1 /\ p2) THEN [ok |-> FALSE, adv |-> <<>>, lsb |-> <<>>] ELSE
     [ok |-> TRUE,
      adv |-> [g \in 1 .. n |-> U16At(b, 1 + 2 * ((IF g <= nhm THEN g ELSE nhm) - 1))],
      lsb |-> [g \in 1 .. n |->
                 IF g <= nhm THEN (IF p1 THEN I16At(b, lsbAt + 2 * (g - 1)) ELSE xmin[g])
                 ELSE (IF p2 THEN I16At(b, tailAt + 2 * (g - nhm - 1)) ELSE xmin[g])]]

---------------------------------------------------------------------------
(* 4.1  Table directory.  Tags are 4-byte sequences.  flags bits 0..5:     *)
(* index into the known-tag table, 63 = a 4-byte tag follows; bits 6..7:   *)
(* transform version.  glyf/loca: version 0 = transformed, 3 = null        *)
(* transform; every other table: 0 = null transform (hmtx: 1 = transformed)*)
(* transformLength is present exactly when the table is transformed.  The  *)
(* data of table k starts at the sum of the stored lengths of the tables   *)
(* before it.                                                              *)
KnownTags == <<
    <<99,109,97,112>>, <<104,101,97,100>>, <<104,104,101,97>>, <<104,109,116,120>>,   \* 0: cmap head hhea hmtx
    <<109,97,120,112>>, <<110,97,109,101>>, <<79,83,47,50>>, <<112,111,115,116>>,     \* 4: maxp name OS/2 post
    <<99,118,116,32>>, <<102,112,103,109>>, <<103,108,121,102>>, <<108,111,99,97>>,   \* 8: cvt  fpgm glyf loca
    <<112,114,101,112>>, <<67,70,70,32>>, <<86,79,82,71>>, <<69,66,68,84>>,           \* 12: prep CFF  VORG EBDT
    <<69,66,76,67>>, <<103,97,115,112>>, <<104,100,109,120>>, <<107,101,114,110>>,    \* 16: EBLC gasp hdmx kern
    <<76,84,83,72>>, <<80,67,76,84>>, <<86,68,77,88>>, <<118,104,101,97>>,            \* 20: LTSH PCLT VDMX vhea
    <<118,109,116,120>>, <<66,65,83,69>>, <<71,68,69,70>>, <<71,80,79,83>>,           \* 24: vmtx BASE GDEF GPOS
    <<71,83,85,66>>, <<69,66,83,67>>, <<74,83,84,70>>, <<77,65,84,72>>,               \* 28: GSUB EBSC JSTF MATH
    <<67,66,68,84>>, <<67,66,76,67>>, <<67,79,76,82>>, <<67,80,65,76>>,               \* 32: CBDT CBLC COLR CPAL
    <<83,86,71,32>>, <<115,98,105,120>>, <<97,99,110,116>>, <<97,118,97,114>>,        \* 36: SVG  sbix acnt avar
    <<98,100,97,116>>, <<98,108,111,99>>, <<98,115,108,110>>, <<99,118,97,114>>,      \* 40: bdat bloc bsln cvar
    <<102,100,115,99>>, <<102,101,97,116>>, <<102,109,116,120>>, <<102,118,97,114>>,  \* 44: fdsc feat fmtx fvar
    <<103,118,97,114>>, <<104,115,116,121>>, <<106,117,115,116>>, <<108,99,97,114>>,  \* 48: gvar hsty just lcar
    <<109,111,114,116>>, <<109,111,114,120>>, <<111,112,98,100>>, <<112,114,111,112>>,\* 52: mort morx opbd prop
    <<116,114,97,107>>, <<90,97,112,102>>, <<83,105,108,102>>, <<71,108,97,116>>,     \* 56: trak Zapf Silf Glat
    <<71,108,111,99>>, <<70,101,97,116>>, <<83,105,108,108>> >>                       \* 60: Gloc Feat Sill
TagGLYF == KnownTags[11]
TagLOCA == KnownTags[12]
TagHMTX == KnownTags[4]
TagHEAD == KnownTags[2]
TagIndex(tag) == IF \E k \in 1 .. 63 : KnownTags[k] = tag
                 THEN (CHOOSE k \in 1 .. 63 : KnownTags[k] = tag) - 1 ELSE 63
IsGlyfLoca(tag) == tag = TagGLYF \/ tag = TagLOCA
HasTransformLength(tag, ver) == IF IsGlyfLoca(tag) THEN ver # 3 ELSE ver # 0

\* e = [tag, explicit, ver, orig, tlen] with tlen = -1 when absent; lengths below 2^31
EncDirEntry(e) ==
  LET idx == IF e.explicit THEN 63 ELSE TagIndex(e.tag) IN
  <<idx + 64 * e.ver>> \o (IF idx = 63 THEN e.tag ELSE <<>>) \o EncB128(U32Of(e.orig))
  \o (IF e.tlen >= 0 THEN EncB128(U32Of(e.tlen)) ELSE <<>>)

DirFail == [ok |-> FALSE, entries |-> <<>>, used |-> 0]
RECURSIVE DecDirFrom(_, _, _, _, _)
DecDirFrom(b, at, k, off, acc) ==
  IF k = 0 THEN [ok |-> TRUE, entries |-> acc, used |-> at]
  ELSE IF ~Has(b, at, 1) THEN DirFail ELSE
  LET fl == b[at + 1]  idx == fl % 64  ver == fl \div 64 IN
  IF idx = 63 /\ ~Has(b, at + 1, 4) THEN DirFail ELSE
  LET tag == IF idx = 63 THEN Slice(b, at + 1, 4) ELSE KnownTags[idx + 1]
      a1 == at + 1 + (IF idx = 63 THEN 4 ELSE 0)
      r1 == DecB128At(b, a1)
  IN IF ~r1.ok \/ r1.hi >= 16384 THEN DirFail ELSE
     LET ht == HasTransformLength(tag, ver)
         r2 == IF ht THEN DecB128At(b, a1 + r1.used) ELSE [ok |-> TRUE, hi |-> 0, lo |-> 0, used |-> 0]
     IN IF ~r2.ok \/ r2.hi >= 16384 THEN DirFail ELSE
        LET orig == NatOf(<<r1.hi, r1.lo>>)
            tlen == IF ht THEN NatOf(<<r2.hi, r2.lo>>) ELSE -1
            stored == IF ht THEN tlen ELSE orig
        IN IF off + stored >= 1073741824 THEN DirFail ELSE
           DecDirFrom(b, a1 + r1.used + r2.used, k - 1, off + stored,
                      Append(acc, [tag |-> tag, off |-> off, orig |-> orig, tlen |-> tlen]))
DecDirectory(b, n) == DecDirFrom(b, 0, n, 0, <<>>)

---------------------------------------------------------------------------
(* 4.2  Collection directory: version u32, numFonts 255UInt16, then per    *)
(* font numTables 255UInt16, flavor u32, index[numTables] 255UInt16.       *)
EncCollection(version, fonts, policy) ==      \* version, flavor: 4-byte sequences
  version \o Enc255(Len(fonts), policy)
  \o Flat([f \in 1 .. Len(fonts) |->
             Enc255(Len(fonts[f].idx), policy) \o fonts[f].flavor
             \o Flat([k \in 1 .. Len(fonts[f].idx) |-> Enc255(fonts[f].idx[k], policy)])])

CollFail == [ok |-> FALSE, fonts |-> <<>>, used |-> 0]
RECURSIVE ReadIdx(_, _, _, _)
ReadIdx(b, at, k, acc) ==
  IF k = 0 THEN [ok |-> TRUE, at |-> at, idx |-> acc]
  ELSE LET r == Dec255At(b, at) IN
       IF ~r.ok THEN [ok |-> FALSE, at |-> at, idx |-> acc]
       ELSE ReadIdx(b, at + r.used, k - 1, Append(acc, r.v))
RECURSIVE ReadFonts(_, _, _, _)
ReadFonts(b, at, k, acc) ==
  IF k = 0 THEN [ok |-> TRUE, fonts |-> acc, used |-> at]
  ELSE LET r == Dec255At(b, at) IN
       IF ~r.ok \/ ~Has(b, at + r.used, 4) THEN CollFail ELSE
       LET ri == ReadIdx(b, at + r.used + 4, r.v, <<>>) IN
       IF ~ri.ok THEN CollFail
       ELSE ReadFonts(b, ri.at, k - 1, Append(acc, [flavor |-> Slice(b, at + r.used, 4), idx |-> ri.idx]))
DecCollection(b) ==
  IF ~Has(b, 0, 4) THEN CollFail ELSE
  LET r == Dec255At(b, 4) IN
  IF ~r.ok THEN CollFail ELSE ReadFonts(b, 4 + r.used, r.v, <<>>)

---------------------------------------------------------------------------
(* Design lemmas about the rules themselves (checked by TLC in MC_Woff2).  *)
\* the triplet table has the shape the recommendation tabulates
TripletTableShape ==
  /\ \A i \in 0 .. 127 : LET t == Triplet(i) IN t.xb + t.yb = 8 * t.nb /\ t.nb \in 1 .. 4
  /\ Cardinality({i \in 0 .. 127 : Triplet(i).nb = 1}) = 84
  /\ Cardinality({i \in 0 .. 127 : Triplet(i).nb = 2}) = 36
  /\ Cardinality({i \in 0 .. 127 : Triplet(i).nb = 3}) = 4
  /\ Cardinality({i \in 0 .. 127 : Triplet(i).nb = 4}) = 4
  \* entries differ pairwise
  /\ \A i, j \in 0 .. 127 : i # j => Triplet(i) # Triplet(j)

\* every encoding of (dx, dy, on) decodes to itself; at least one encoding exists
TripletRoundTrip(dx, dy, on) ==
  LET C == TripletCands(dx, dy) IN
  /\ C # {}
  /\ \A i \in C : LET b == TripletBytes(i, dx, dy)  fl == i + (IF on = 1 THEN 0 ELSE 128) IN
                  /\ Len(b) = Triplet(i).nb
                  /\ \A k \in DOMAIN b : b[k] \in 0 .. 255
                  /\ TripletDecode(fl, b) = <<dx, dy, on>>
  /\ \A p \in {"min", "ref", "max", "alt"} : TripletPick(dx, dy, p) \in C
  /\ Triplet(ReferenceIndex(dx, dy)).nb = Triplet(TripletPick(dx, dy, "min")).nb

\* every encoding of v decodes to v and is consumed entirely; nothing else decodes to v
U255RoundTrip(v) ==
  /\ \A e \in Enc255All(v) : Dec255At(e, 0) = [ok |-> TRUE, v |-> v, used |-> Len(e)]
  /\ \A p \in {"short", "word", "alt"} : Enc255(v, p) \in Enc255All(v)

B128RoundTrip(v) ==
  LET e == EncB128(v) IN
  /\ Len(e) \in 1 .. 5 /\ e[1] # 128
  /\ DecB128At(e, 0) = [ok |-> TRUE, hi |-> v[1], lo |-> v[2], used |-> Len(e)]

\* The bboxBitmap length rule for a glyph count n: encoder and decoder use the same length; it is
\* the least multiple of 4 bytes with a bit for every glyph (in particular n = 32 k takes 4 k bytes,
\* not 4 (k + 1)); every glyph's bit is readable and reads back what was written, padding bits are
\* zero and the bit after the last word does not exist; a table of n glyphs whose LAST glyph carries
\* the only explicit bounding box is split so that the bounding box stream is exactly those 8 bytes.
\* the arithmetic part alone (cheap for any n; numGlyphs is a uint16, so n ranges up to 65535 - note that
\* n + 31 does not fit 16 bits for n > 65504, the formula is over the integers)
BitmapLenArith(n) ==
  /\ BitmapLen(n) = EncBitmapLen(n)
  /\ BitmapLen(n) % 4 = 0 /\ 8 * BitmapLen(n) >= n
  /\ (n > 0 => 8 * (BitmapLen(n) - 4) < n) /\ (n = 0 => BitmapLen(n) = 0)
  /\ (n % 32 = 0 => BitmapLen(n) = n \div 8)
BitmapLenRule(n) ==
  LET bits == [g \in 1 .. n |-> IF g = 1 \/ g = n \/ g % 32 = 0 THEN 1 ELSE 0]
      bm == BitmapBytes(bits)
      dot == [kind |-> "simple", ends |-> <<0>>, pts |-> <<<<7, 9, 1>>>>, instr |-> <<>>,
              bbox |-> <<6, 8, 10, 11>>, comps |-> <<>>]
      recs == [g \in 1 .. n |-> IF g = n THEN dot ELSE EmptyRec]
      S == EncGlyf(recs, [trip |-> "ref", u16 |-> "short", bbox |-> "needed"])
      pg == ParseGlyfTable(GlyfTableBytes(S, n, 0, 0, <<>>))
  IN /\ BitmapLenArith(n)
     /\ BitmapLen(n) = 4 * Cardinality({g \div 32 : g \in 0 .. (n - 1)})
     /\ Len(bm) = BitmapLen(n)
     /\ \A g \in 0 .. (n - 1) : BitmapGet(bm, g) = bits[g + 1]
     /\ \A g \in n .. (8 * Len(bm) - 1) : BitmapGet(bm, g) = 0
     /\ BitmapGet(bm, 8 * Len(bm)) = -1
     /\ pg.ok /\ pg.n = n /\ Len(pg.S.bm) = BitmapLen(n) /\ pg.S = S
     /\ Len(pg.S.bb) = (IF n > 0 THEN 8 ELSE 0)
     /\ LET D == DecAll(pg.S, n) IN D.ok /\ D.recs = recs /\ D.cur = EndCur(S)

\* The streams of ONE encoded glyph as a stream record of its own (a bitmap of one word).
OneGlyphStreams(e) == [nc |-> e.nc, np |-> e.np, fl |-> e.fl, gl |-> e.gl, co |-> e.co,
                       bm |-> <<128 * e.bit, 0, 0, 0>>, bb |-> e.bb, ins |-> e.ins]

\* Position independence of WE_HAVE_INSTRUCTIONS in a composite glyph `rec` (well-formed: MORE_COMPONENTS on
\* exactly the non-last components, instructions only when some component carries bit 8):
\*  - the glyph stream holds an instructionLength iff SOME component has the bit, wherever it sits;
\*  - the glyph decodes to itself and consumes its streams exactly;
\*  - moving the bit onto any single component p leaves the glyph, bbox and instruction streams unchanged,
\*    and that variant decodes to itself with the same instructions (so a decoder that looks at one fixed
\*    position - the last, the first - contradicts the rule for some p).
CompInstrAnywhere(rec, ch) ==
  LET k == Len(rec.comps)
      hasI == \E j \in 1 .. k : Bit(rec.comps[j].flags, 8) = 1
      E == EncGlyph(rec, ch)
      Moved(p) == [rec EXCEPT !.comps = [j \in 1 .. k |->
                     [rec.comps[j] EXCEPT !.flags = (@ - 256 * Bit(@, 8)) + (IF j = p THEN 256 ELSE 0)]]]
  IN /\ rec.kind = "composite" /\ k >= 1
     /\ \A j \in 1 .. k : Bit(rec.comps[j].flags, 5) = (IF j < k THEN 1 ELSE 0)
     /\ (hasI <=> E.gl # <<>>)
     /\ (~hasI => rec.instr = <<>> /\ E.ins = <<>>)
     /\ LET d == DecGlyphAt(OneGlyphStreams(E), Cur0, 0)
        IN d.ok /\ d.rec = rec /\ d.cur = EndCur(OneGlyphStreams(E))
     /\ (hasI => \A p \in 1 .. k :
           LET m == Moved(p)
               e == EncGlyph(m, ch)
               d == DecGlyphAt(OneGlyphStreams(e), Cur0, 0)
           IN /\ e.gl = E.gl /\ e.ins = E.ins /\ e.bb = E.bb /\ Len(e.co) = Len(E.co)
              /\ d.ok /\ d.rec = m /\ d.rec.instr = rec.instr
              /\ d.cur.gl = Len(E.gl) /\ d.cur.ins = Len(rec.instr))
=============================================================================
