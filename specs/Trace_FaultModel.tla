-------------------------- MODULE Trace_FaultModel --------------------------
(***************************************************************************)
(* Trace judge for property C01 (impl -> spec), judging style.  One event  *)
(* per (input font, fault sequence, entry point group):                    *)
(*   ev = "Group" | "Container"                                            *)
(*   a  = [input, job, g (group), nf (number of faults),                   *)
(*         faults : Seq(<<kind, role, value class, level, table, field,    *)
(*                        offset, width, old, new>>)]                      *)
(*        Container events add  view (FaultModel!ViewOf of the faulted     *)
(*        file, cut by the harness), big (the head would exceed the cap:   *)
(*        no view), slices, inflated (hash of the byte range of every      *)
(*        directory record; the harness' own zlib decode of it), indep     *)
(*        (WOFF2: did the harness' own reader get through the file).       *)
(*        An event whose process died (outcome OOM, StackOverflow, Timeout,*)
(*        Abort) carries no observation: big = TRUE, empty view and facts; *)
(*        it is judged by the outcome clause alone - in every group, the   *)
(*        container group included.                                        *)
(*   o  = [oc (outcome), ok, err (calls that returned a value / an error), *)
(*         panics (sites), msg]                                            *)
(*        Container events add  facts = what FontData::read,               *)
(*        table_provider(0..2), table_tags, has_table and read_table_data  *)
(*        answered.                                                        *)
(* An event conforms iff                                                   *)
(*   - it is inside the alphabet of FaultModel (group, fault kinds, roles, *)
(*     value classes, outcome),                                            *)
(*   - FaultModel!Safe(outcome) and no call of the group panicked,         *)
(*   - (Container) the answers are the ones FaultModel!ContainerExpect     *)
(*     prescribes for the view, and an intact file that the harness' own   *)
(*     reader accepts loads with every table Ok.                           *)
(***************************************************************************)
EXTENDS FaultModel, Json, IOUtils

Rec == ndJsonDeserialize(IOEnv.TRACE)

VARIABLE l
tvars == <<l>>

FaultOK(f) ==
  /\ f[1] \in FaultKinds
  /\ f[2] \in Roles \cup {""}
  /\ f[3] \in ValueClasses \cup {""}
  /\ (f[3] # "" => ClassApplies(f[3], f[2]))
  /\ f[4] \in Levels

AlphabetFailures(e) ==
     (IF e.a.g \in Groups THEN {} ELSE {"Alphabet.group"})
  \cup (IF e.o.oc \in Outcomes THEN {} ELSE {"Alphabet.outcome"})
  \cup (IF Len(e.a.faults) <= 3 /\ Len(e.a.faults) = e.a.nf /\ \A k \in 1 .. Len(e.a.faults) : FaultOK(e.a.faults[k])
        THEN {} ELSE {"Alphabet.fault"})
  \cup (IF (e.ev = "Container") = (e.a.g = "container") THEN {} ELSE {"Alphabet.event"})

SafetyFailures(e) ==
  IF Safe(e.o.oc) /\ e.o.panics = <<>> THEN {} ELSE {"Unsafe." \o e.o.oc}

MinOf(a, b) == IF a < b THEN a ELSE b

ViewFailures(v) ==
  IF Len(v.hd) = MinOf(v.flen, HeadNeed(v.hd, v.flen)) THEN {} ELSE {"View.headLength"}

IntactFailures(e) ==
  LET f == e.o.facts IN
  IF e.a.nf = 0 /\ e.a.indep = "Ok"
  THEN IF f.read = "Ok" /\ Len(f.prov) >= 1 /\ f.prov[1] = "Ok" /\ \A j \in 1 .. Len(f.tabs) : f.tabs[j][2] /\ f.tabs[j][3] = "Ok"
       THEN {} ELSE {"Intact.mustLoad"}
  ELSE {}

Failures(e) ==
  AlphabetFailures(e) \cup SafetyFailures(e)
  \cup (IF e.ev = "Container" /\ e.o.oc \in {"Ok", "Err"}
        THEN IntactFailures(e)
             \cup (IF e.a.big THEN {}
                   ELSE ViewFailures(e.a.view)
                        \cup ContainerFailures(ContainerExpect(e.a.view), e.o.facts, e.a.slices, e.a.inflated))
        ELSE {})

\* only events that returned are compared with the container expectation; nothing else of a Container
\* event is looked at when its process died
Returned(e) == e.o.oc \in {"Ok", "Err", "Panic"}
Want(e) == IF e.ev = "Container" /\ Returned(e) /\ ~e.a.big
           THEN LET x == ContainerExpect(e.a.view) IN
                [read |-> x.read, kind |-> x.kind, prov |-> x.prov, tabs |-> [k \in 1 .. Len(x.font.tabs) |-> x.font.tabs[k].st]]
           ELSE [read |-> "", kind |-> "", prov |-> <<>>, tabs |-> <<>>]

TInit == l = 1

TNext ==
  /\ l <= Len(Rec)
  /\ l' = l + 1
  /\ LET e == Rec[l]  f == Failures(e) IN
     IF f = {} THEN TRUE
     ELSE PrintT(<<"MISMATCH", ToJson([i |-> e.i, case |-> e.case, fails |-> SetToSeq(f),
                                       a |-> [input |-> e.a.input, kind |-> e.a.kind, job |-> e.a.job, g |-> e.a.g, nf |-> e.a.nf,
                                             faults |-> e.a.faults, min |-> e.a.min, patches |-> e.a.patches],
                                       o |-> [oc |-> e.o.oc, ok |-> e.o.ok, err |-> e.o.err, panics |-> e.o.panics, pmsg |-> e.o.pmsg, msg |-> e.o.msg],
                                       want |-> Want(e),
                                       got |-> IF e.ev = "Container" /\ Returned(e) THEN e.o.facts ELSE <<>>])>>)

TSpec == TInit /\ [][TNext]_tvars

AllConsumed == TLCGet("stats").diameter = Len(Rec) + 1
=============================================================================
