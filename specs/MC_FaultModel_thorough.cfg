CONSTANTS
  MaxSeq = 2
  Triples = TRUE
  FilePairs = "full"
  ReducedPairVC = {"zero", "max", "inc", "filelen", "tablelen", "self", "eqnext", "prev-1", "der-1"}
SPECIFICATION Spec
INVARIANTS LemmasAndEmit Sanity
CHECK_DEADLOCK FALSE
