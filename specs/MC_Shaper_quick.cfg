CONSTANTS
  TextLen = 2
  GsubSteps = 2
  GposSteps = 1
  GenLen = 4
  TxtLen = 5
SPECIFICATION Spec
INVARIANTS RunOK CallOK Sanity TextSanity Emit
CHECK_DEADLOCK FALSE
