CONSTANTS
  TextLen = 2
  GsubSteps = 2
  GposSteps = 1
  GenLen = 4
SPECIFICATION Spec
INVARIANTS RunOK CallOK Sanity Emit
CHECK_DEADLOCK FALSE
