CONSTANTS
  Deep = FALSE
SPECIFICATION Spec
INVARIANTS DesignOK EmitCase
CHECK_DEADLOCK FALSE
