------------------------------ MODULE Normalize ------------------------------
(***************************************************************************)
(* C13 - user coordinates normalise per fvar and avar.                     *)
(*                                                                         *)
(* Part 1 (exact semantics, what the property states):                     *)
(*   a user value v of an axis (min <= def <= max) is clamped to           *)
(*   [min, max], mapped linearly so that min/def/max become -1/0/+1,       *)
(*   passed through the piecewise linear avar map and clamped to [-1, 1].  *)
(*   All of it is a rational number; it is carried as P/Q in output units  *)
(*   (U units = 1.0; U = 16384 for F2Dot14) with Fix!Z big integers, and   *)
(*   an implementation's output `out` is judged by cross multiplication:   *)
(*        |out * Q - P| <= Tol * Q,   Tol = max(1, slope of the segment)   *)
(*   (the tolerance the property grants), exact -1/0/+1 at min/def/max,    *)
(*   range, and monotonicity over a group of values.                       *)
(*                                                                         *)
(* Part 2 (reference procedure): the 16.16 arithmetic the OpenType spec    *)
(*   prescribes (and allsorts follows: fvar.rs default_normalize,          *)
(*   avar.rs SegmentMap::normalize, tables.rs Fixed Div/Mul, F2Dot14::from)*)
(*   parametrised by the number of fraction bits FB, so that TLC can check *)
(*   exhaustively on a scaled-down fixed point that the procedure meets    *)
(*   Part 1 (MC_Normalize).                                                *)
(*                                                                         *)
(* An axis is a triple <<min, def, max>> of raw fixed-point integers, a    *)
(* segment map a sequence of knots <<from, to>> in output units.  `avar`   *)
(* FALSE or an empty map mean "no avar step".                              *)
(***************************************************************************)
EXTENDS Fix, FiniteSets

AMin(ax) == ax[1]
ADef(ax) == ax[2]
AMax(ax) == ax[3]

ValidAxis(ax) == AMin(ax) <= ADef(ax) /\ ADef(ax) <= AMax(ax)

Clamp(x, lo, hi) == IF x < lo THEN lo ELSE IF x > hi THEN hi ELSE x

\* A valid avar segment map (OpenType avar): from strictly increasing, to non-decreasing,
\* and the three mandatory knots -1 -> -1, 0 -> 0, +1 -> +1.  The empty map is the identity.
\* (MapUsable is what the exact semantics needs: a function on the whole of [-1, 1].)
KnotF(map, k) == map[k][1]
KnotT(map, k) == map[k][2]
MapUsable(U, map) ==
  \/ map = <<>>
  \/ /\ Len(map) >= 2
     /\ KnotF(map, 1) = -U /\ KnotF(map, Len(map)) = U
     /\ \A k \in 1 .. Len(map) - 1 : KnotF(map, k) < KnotF(map, k + 1)
     /\ \A k \in 1 .. Len(map) : KnotT(map, k) >= -U /\ KnotT(map, k) <= U
MapMonotone(map) == \A k \in 1 .. Len(map) - 1 : KnotT(map, k) <= KnotT(map, k + 1)
MapValid(U, map) ==
  \/ map = <<>>
  \/ /\ MapUsable(U, map) /\ MapMonotone(map)
     /\ \E k \in 1 .. Len(map) : map[k] = <<-U, -U>>
     /\ \E k \in 1 .. Len(map) : map[k] = <<0, 0>>
     /\ \E k \in 1 .. Len(map) : map[k] = <<U, U>>

\* ---- Part 1: exact semantics -------------------------------------------------------

\* default normalisation as a fraction num/den, den > 0, value in [-1, 1]
DefNorm(ax, v) ==
  LET c == Clamp(v, AMin(ax), AMax(ax)) IN
  IF c < ADef(ax) THEN [num |-> ZSub(ZOf(c), ZOf(ADef(ax))), den |-> ZSub(ZOf(ADef(ax)), ZOf(AMin(ax)))]
  ELSE IF c > ADef(ax) THEN [num |-> ZSub(ZOf(c), ZOf(ADef(ax))), den |-> ZSub(ZOf(AMax(ax)), ZOf(ADef(ax)))]
  ELSE [num |-> Zero, den |-> One]

\* -1, 0, +1 when the clamped value is min (< def), def, max (> def); 2 otherwise
EndClass(ax, v) ==
  LET c == Clamp(v, AMin(ax), AMax(ax)) IN
  IF c = ADef(ax) THEN 0
  ELSE IF c = AMin(ax) THEN -1
  ELSE IF c = AMax(ax) THEN 1 ELSE 2

\* The exact result without avar: P/Q = U * num / den, slope 1 (tolerance Q).
PlainExact(U, n) == [P |-> ZMul(ZOf(U), n.num), Q |-> n.den, TolQ |-> n.den]

\* Segment k (knots k, k+1) contains the position x = U*num/den  iff  f_k*den <= U*num <= f_k+1*den
SegHolds(U, map, n, k) ==
  LET x == ZMul(ZOf(U), n.num) IN
  /\ ZLe(ZMul(ZOf(KnotF(map, k)), n.den), x)
  /\ ZLe(x, ZMul(ZOf(KnotF(map, k + 1)), n.den))

\* exact value on segment k:  t_k + (x - f_k) * dt/df  =  (t_k*den*df + (U*num - f_k*den)*dt) / (den*df)
\* tolerance max(1, |dt|/df) * Q = max(den*df, den*|dt|)
SegExact(U, map, n, k) ==
  LET df == ZOf(KnotF(map, k + 1) - KnotF(map, k))
      dt == ZOf(KnotT(map, k + 1) - KnotT(map, k))
      q  == ZMul(n.den, df)
      p  == ZAdd(ZMul(ZOf(KnotT(map, k)), q),
                 ZMul(ZSub(ZMul(ZOf(U), n.num), ZMul(ZOf(KnotF(map, k)), n.den)), dt))
      uq == ZMul(ZOf(U), q)
  IN [P |-> IF ZLt(uq, p) THEN uq ELSE IF ZLt(p, ZNeg(uq)) THEN ZNeg(uq) ELSE p,   \* final clamp
      Q |-> q,
      TolQ |-> ZMax(q, ZMul(n.den, ZAbs(dt)))]

\* |out*Q - P| <= TolQ
Within(e, out) == ZLe(ZAbs(ZSub(ZMul(ZOf(out), e.Q), e.P)), e.TolQ)

\* Dev_SegmentAtKnot: a position exactly on an interior knot belongs to both neighbouring
\* segments (same value, different slope, hence different tolerance); either is conformant.
Accurate(U, ax, avar, map, v, out) ==
  LET n == DefNorm(ax, v) IN
  IF ~avar \/ map = <<>> THEN Within(PlainExact(U, n), out)
  ELSE \E k \in 1 .. Len(map) - 1 : SegHolds(U, map, n, k) /\ Within(SegExact(U, map, n, k), out)

\* min / def / max become exactly -1 / 0 / +1 (and stay so under a map that has the mandatory knot)
EndpointExact(U, ax, avar, map, v, out) ==
  LET c == EndClass(ax, v) IN
  IF c = 2 THEN TRUE
  ELSE IF ~avar \/ map = <<>> THEN out = c * U
  ELSE \A k \in 1 .. Len(map) : KnotF(map, k) = c * U => out = KnotT(map, k)

InRange(U, out) == -U <= out /\ out <= U

\* verdict on one (axis, map, value, output); "" = conforms, otherwise the clause that fails
Verdict(U, ax, avar, map, v, out) ==
  IF ~InRange(U, out) THEN "range"
  ELSE IF ~EndpointExact(U, ax, avar, map, v, out) THEN "endpoint"
  ELSE IF ~Accurate(U, ax, avar, map, v, out) THEN "accuracy"
  ELSE ""

\* monotone non-decreasing over a group of (value, output) pairs, when the avar map is
MonotoneGroup(vs, outs) ==
  \A i, j \in 1 .. Len(vs) : vs[i] <= vs[j] => outs[i] <= outs[j]

\* ---- Part 2: the prescribed fixed-point procedure, FB fraction bits ----------------------
\* (plain TLC integers: used on scaled-down numbers only)
FixOne(FB) == Pow2(FB)
FixDivFB(FB, a, b) == IF b = 0 THEN 2147483647 ELSE TruncDiv(a * Pow2(FB), b)
FixMulFB(FB, a, b) == (a * b) \div Pow2(FB)                   \* arithmetic shift right = floor

RefDefault(FB, ax, v) ==
  LET c == Clamp(v, AMin(ax), AMax(ax))
      r == IF c < ADef(ax) THEN FixDivFB(FB, -(ADef(ax) - c), ADef(ax) - AMin(ax))
           ELSE IF c > ADef(ax) THEN FixDivFB(FB, c - ADef(ax), AMax(ax) - ADef(ax))
           ELSE 0
  IN Clamp(r, -FixOne(FB), FixOne(FB))

\* knots are in output units (FB - 2 fraction bits); ToFix = << 2
ToFix(x) == 4 * x
RECURSIVE RefAvarFrom(_, _, _, _)
RefAvarFrom(FB, map, n, k) ==       \* k = index of the candidate end knot, k >= 2
  IF k > Len(map) THEN n
  ELSE LET ef == ToFix(KnotF(map, k)) sf == ToFix(KnotF(map, k - 1))
           et == ToFix(KnotT(map, k)) st == ToFix(KnotT(map, k - 1)) IN
       IF ef = n THEN et
       ELSE IF ef > n THEN st + FixMulFB(FB, FixDivFB(FB, n - sf, ef - sf), et - st)
       ELSE RefAvarFrom(FB, map, n, k + 1)
RefAvar(FB, map, n) == RefAvarFrom(FB, map, n, 2)

ToOut(x) == (x + 2) \div 4                                    \* add 2, sign-extending shift by 2

RefNormalize(FB, ax, avar, map, v) ==
  LET d == RefDefault(FB, ax, v) IN
  IF ~avar THEN ToOut(d)
  ELSE ToOut(Clamp(RefAvar(FB, map, d), -FixOne(FB), FixOne(FB)))

\* ---- fixed-point conversions (F2Dot14 <-> Fixed), full width ---------------------------
F2Dot14ToFixed(x) == 4 * x
FixedToF2Dot14(f) == (f + 2) \div 4

\* ---- tuple length ---------------------------------------------------------------------
\* normalize(tuple) succeeds iff the tuple has one value per axis
LengthAccepted(naxes, len) == len = naxes
=============================================================================
