------------------------------ MODULE Normalize ------------------------------
(***************************************************************************)
(* C13 - user coordinates normalise per fvar and avar.                     *)
(*                                                                         *)
(* Part 1 (exact semantics, what the property states):                     *)
(*   a user value v of an axis (min <= def <= max) is clamped to           *)
(*   [min, max], mapped linearly so that min/def/max become -1/0/+1,       *)
(*   passed through the piecewise linear avar map and clamped to [-1, 1].  *)
(*   All of it is a rational number; it is carried as P/Q in output units  *)
(*   (U units = 1.0; U = 16384 for F2Dot14) with Fix!Z big integers, and   *)
(*   an implementation's output `out` is judged by cross multiplication:   *)
(*        |out * Q - P| <= Tol * Q,   Tol = max(1, slope of the segment)   *)
(*   (the tolerance the property grants), exact -1/0/+1 at min/def/max,    *)
(*   range, and monotonicity over a group of values.                       *)
(*                                                                         *)
(* Part 2 (reference procedure): the 16.16 arithmetic the OpenType spec    *)
(*   prescribes (and allsorts follows: fvar.rs default_normalize,          *)
(*   avar.rs SegmentMap::normalize, tables.rs Fixed Div/Mul, F2Dot14::from)*)
(*   parametrised by the number of fraction bits FB, so that TLC can check *)
(*   exhaustively on a scaled-down fixed point that the procedure meets    *)
(*   Part 1 (MC_Normalize).                                                *)
(*                                                                         *)
(* An axis is a triple <<min, def, max>> of raw fixed-point integers, a    *)
(* segment map a sequence of knots <<from, to>> in output units.  `avar`   *)
(* FALSE or an empty map mean "no avar step".                              *)
(*                                                                         *)
(* Round 3: the judged class of segment maps is every sequence of records  *)
(* whose from-coordinates do not decrease (MapJudged): to-coordinates      *)
(* anywhere in the F2Dot14 range, decreasing and flat segments, duplicate  *)
(* from-coordinates (steps), maps without the -1/0/+1 records, one-record  *)
(* and empty maps.  The avar function is the OpenType one: piecewise       *)
(* linear between neighbouring records, the identity where no segment      *)
(* exists (fewer than two records, above the last record, Dev_BelowFirst   *)
(* below the first), and the result is clamped to [-1, 1] for EVERY map.   *)
(* Part 3 states where the records of an fvar table are (axesArrayOffset,  *)
(* axisSize, instanceSize) and reads them from the table bytes.            *)
(***************************************************************************)
EXTENDS Fix, FiniteSets

AMin(ax) == ax[1]
ADef(ax) == ax[2]
AMax(ax) == ax[3]

ValidAxis(ax) == AMin(ax) <= ADef(ax) /\ ADef(ax) <= AMax(ax)

Clamp(x, lo, hi) == IF x < lo THEN lo ELSE IF x > hi THEN hi ELSE x

\* A valid avar segment map (OpenType avar): from strictly increasing, to non-decreasing,
\* and the three mandatory knots -1 -> -1, 0 -> 0, +1 -> +1.  The empty map is the identity.
\* (MapUsable is what the exact semantics needs: a function on the whole of [-1, 1].)
KnotF(map, k) == map[k][1]
KnotT(map, k) == map[k][2]
MapUsable(U, map) ==
  \/ map = <<>>
  \/ /\ Len(map) >= 2
     /\ KnotF(map, 1) = -U /\ KnotF(map, Len(map)) = U
     /\ \A k \in 1 .. Len(map) - 1 : KnotF(map, k) < KnotF(map, k + 1)
     /\ \A k \in 1 .. Len(map) : KnotT(map, k) >= -U /\ KnotT(map, k) <= U
MapMonotone(map) == \A k \in 1 .. Len(map) - 1 : KnotT(map, k) <= KnotT(map, k + 1)
\* The class of maps that is judged: from-coordinates in non-decreasing order, nothing else demanded.
MapJudged(map) == \A k \in 1 .. Len(map) - 1 : KnotF(map, k) <= KnotF(map, k + 1)
\* "the avar map is monotone": as a function on [-1, 1].  With fewer than two records it is the identity;
\* otherwise the to-coordinates must not decrease and the records must cover [-1, 1] (where no segment
\* exists the function is the identity, which in general jumps against a record that is not a fixed point).
MonotoneDemanded(U, map) ==
  \/ Len(map) < 2
  \/ MapMonotone(map) /\ KnotF(map, 1) <= -U /\ KnotF(map, Len(map)) >= U
MapValid(U, map) ==
  \/ map = <<>>
  \/ /\ MapUsable(U, map) /\ MapMonotone(map)
     /\ \E k \in 1 .. Len(map) : map[k] = <<-U, -U>>
     /\ \E k \in 1 .. Len(map) : map[k] = <<0, 0>>
     /\ \E k \in 1 .. Len(map) : map[k] = <<U, U>>

\* ---- Part 1: exact semantics -------------------------------------------------------

\* default normalisation as a fraction num/den, den > 0, value in [-1, 1]
DefNorm(ax, v) ==
  LET c == Clamp(v, AMin(ax), AMax(ax)) IN
  IF c < ADef(ax) THEN [num |-> ZSub(ZOf(c), ZOf(ADef(ax))), den |-> ZSub(ZOf(ADef(ax)), ZOf(AMin(ax)))]
  ELSE IF c > ADef(ax) THEN [num |-> ZSub(ZOf(c), ZOf(ADef(ax))), den |-> ZSub(ZOf(AMax(ax)), ZOf(ADef(ax)))]
  ELSE [num |-> Zero, den |-> One]

\* -1, 0, +1 when the clamped value is min (< def), def, max (> def); 2 otherwise
EndClass(ax, v) ==
  LET c == Clamp(v, AMin(ax), AMax(ax)) IN
  IF c = ADef(ax) THEN 0
  ELSE IF c = AMin(ax) THEN -1
  ELSE IF c = AMax(ax) THEN 1 ELSE 2

\* The exact result without avar: P/Q = U * num / den, slope 1 (tolerance Q).
PlainExact(U, n) == [P |-> ZMul(ZOf(U), n.num), Q |-> n.den, TolQ |-> n.den]

\* sign of (position x = U*num/den) - f
PosCmp(U, n, f) == ZCmp(ZMul(ZOf(U), n.num), ZMul(ZOf(f), n.den))

\* Segment k (knots k, k+1; not of zero width) contains the position x  iff  f_k*den <= U*num <= f_k+1*den
SegHolds(U, map, n, k) ==
  /\ KnotF(map, k) < KnotF(map, k + 1)
  /\ PosCmp(U, n, KnotF(map, k)) >= 0
  /\ PosCmp(U, n, KnotF(map, k + 1)) <= 0

\* the position is less than one unit of the 16.16 intermediate (a quarter output unit) away from record k
RecNear(U, map, n, k) ==
  ZLt(ZMul(ZOf(4), ZAbs(ZSub(ZMul(ZOf(U), n.num), ZMul(ZOf(KnotF(map, k)), n.den)))), n.den)

\* exact value on segment k:  t_k + (x - f_k) * dt/df  =  (t_k*den*df + (U*num - f_k*den)*dt) / (den*df)
\* tolerance max(1, |dt|/df) * Q = max(den*df, den*|dt|)
SegExact(U, map, n, k) ==
  LET df == ZOf(KnotF(map, k + 1) - KnotF(map, k))
      dt == ZOf(KnotT(map, k + 1) - KnotT(map, k))
      q  == ZMul(n.den, df)
      p  == ZAdd(ZMul(ZOf(KnotT(map, k)), q),
                 ZMul(ZSub(ZMul(ZOf(U), n.num), ZMul(ZOf(KnotF(map, k)), n.den)), dt))
      uq == ZMul(ZOf(U), q)
  IN [P |-> IF ZLt(uq, p) THEN uq ELSE IF ZLt(p, ZNeg(uq)) THEN ZNeg(uq) ELSE p,   \* final clamp
      Q |-> q,
      \* Dev_WideSegment: the prescribed procedure rounds the ratio (position in the segment) to one 16.16
      \* unit, which costs |dt| / 4 output units - within max(1, slope) for every segment up to 1.0 wide,
      \* i.e. for every map that has the 0 record; a wider segment (map without the 0 record, or with
      \* from-coordinates beyond -1 / +1) is granted twice the tolerance.
      TolQ |-> LET t == ZMax(q, ZMul(n.den, ZAbs(dt))) IN
               IF KnotF(map, k + 1) - KnotF(map, k) > U THEN ZAdd(t, t) ELSE t]

\* the unclamped value of segment k at the position leaves [-1, 1]: the final clamp decides
SegClamped(U, map, n, k) ==
  LET df == ZOf(KnotF(map, k + 1) - KnotF(map, k))
      dt == ZOf(KnotT(map, k + 1) - KnotT(map, k))
      q  == ZMul(n.den, df)
      p  == ZAdd(ZMul(ZOf(KnotT(map, k)), q),
                 ZMul(ZSub(ZMul(ZOf(U), n.num), ZMul(ZOf(KnotF(map, k)), n.den)), dt))
      uq == ZMul(ZOf(U), q)
  IN ZLt(uq, p) \/ ZLt(p, ZNeg(uq))

\* |out*Q - P| <= TolQ
Within(e, out) == ZLe(ZAbs(ZSub(ZMul(ZOf(out), e.Q), e.P)), e.TolQ)

\* The avar step on the default-normalised position n, for a map with from-coordinates in order.
\* Dev_SegmentAtKnot: a position exactly on an interior record belongs to both neighbouring segments
\*   (same value, different slope, hence different tolerance); either is conformant.
\* Dev_StepAtRecord: where the function jumps (duplicate from-coordinates; the first / last record of a
\*   map that does not cover [-1, 1]) a position less than one 16.16 unit away from the record may take
\*   the record's to-coordinate exactly - the position itself is only known to one 16.16 unit.  With
\*   several records on one from-coordinate any of their to-coordinates is conformant.
\* Dev_BelowFirst: OpenType's scan never takes the first record as the end of a segment ("which is for
\*   -1"), so below the first record of a map without the -1 record the text gives no rule: the identity
\*   and the extension of the first segment are both accepted; when that segment is narrower than 1/64
\*   the extension does not fit the 16.16 intermediate and only the range clause is judged there.
AvarAccurate(U, map, n, out) ==
  LET L == Len(map) IN
  IF L < 2 THEN Within(PlainExact(U, n), out)
  ELSE \/ \E k \in 1 .. L - 1 : SegHolds(U, map, n, k) /\ Within(SegExact(U, map, n, k), out)
       \/ \E k \in 1 .. L : RecNear(U, map, n, k) /\ out = Clamp(KnotT(map, k), -U, U)
       \/ PosCmp(U, n, KnotF(map, L)) > 0 /\ Within(PlainExact(U, n), out)
       \/ /\ PosCmp(U, n, KnotF(map, 1)) < 0
          /\ \/ Within(PlainExact(U, n), out)
             \/ KnotF(map, 2) - KnotF(map, 1) < U \div 64
             \/ Within(SegExact(U, map, n, 1), out)

Accurate(U, ax, avar, map, v, out) ==
  LET n == DefNorm(ax, v) IN
  IF ~avar THEN Within(PlainExact(U, n), out) ELSE AvarAccurate(U, map, n, out)

\* which rule of the avar step decides the position (vacuity counters; classification of inputs only)
AvarRule(U, map, n) ==
  LET L == Len(map) IN
  IF L < 2 THEN "identity"
  ELSE IF PosCmp(U, n, KnotF(map, 1)) < 0 THEN "below"
  ELSE IF PosCmp(U, n, KnotF(map, L)) > 0 THEN "above"
  ELSE IF \E k \in 1 .. L : PosCmp(U, n, KnotF(map, k)) = 0 THEN "record"
  ELSE "segment"

\* min / def / max become exactly -1 / 0 / +1, and under a map with a record on that position exactly the
\* (clamped) to-coordinate of such a record
EndpointExact(U, ax, avar, map, v, out) ==
  LET c == EndClass(ax, v) IN
  IF c = 2 THEN TRUE
  ELSE IF ~avar \/ Len(map) < 2 THEN out = c * U
  ELSE LET ks == {k \in 1 .. Len(map) : KnotF(map, k) = c * U} IN
       ks = {} \/ \E k \in ks : out = Clamp(KnotT(map, k), -U, U)

InRange(U, out) == -U <= out /\ out <= U

\* verdict on one (axis, map, value, output); "" = conforms, otherwise the clause that fails
Verdict(U, ax, avar, map, v, out) ==
  IF ~InRange(U, out) THEN "range"
  ELSE IF ~EndpointExact(U, ax, avar, map, v, out) THEN "endpoint"
  ELSE IF ~Accurate(U, ax, avar, map, v, out) THEN "accuracy"
  ELSE ""

\* monotone non-decreasing over a group of (value, output) pairs, when the avar map is
MonotoneGroup(vs, outs) ==
  \A i, j \in 1 .. Len(vs) : vs[i] <= vs[j] => outs[i] <= outs[j]

\* ---- Part 2: the prescribed fixed-point procedure, FB fraction bits ----------------------
\* (plain TLC integers: used on scaled-down numbers only)
FixOne(FB) == Pow2(FB)
FixDivFB(FB, a, b) == IF b = 0 THEN 2147483647 ELSE TruncDiv(a * Pow2(FB), b)
FixMulFB(FB, a, b) == (a * b) \div Pow2(FB)                   \* arithmetic shift right = floor

RefDefault(FB, ax, v) ==
  LET c == Clamp(v, AMin(ax), AMax(ax))
      r == IF c < ADef(ax) THEN FixDivFB(FB, -(ADef(ax) - c), ADef(ax) - AMin(ax))
           ELSE IF c > ADef(ax) THEN FixDivFB(FB, c - ADef(ax), AMax(ax) - ADef(ax))
           ELSE 0
  IN Clamp(r, -FixOne(FB), FixOne(FB))

\* knots are in output units (FB - 2 fraction bits); ToFix = << 2
ToFix(x) == 4 * x
RECURSIVE RefAvarFrom(_, _, _, _)
RefAvarFrom(FB, map, n, k) ==       \* k = index of the candidate end knot, k >= 2
  IF k > Len(map) THEN n
  ELSE LET ef == ToFix(KnotF(map, k)) sf == ToFix(KnotF(map, k - 1))
           et == ToFix(KnotT(map, k)) st == ToFix(KnotT(map, k - 1)) IN
       IF ef = n THEN et
       ELSE IF ef > n THEN st + FixMulFB(FB, FixDivFB(FB, n - sf, ef - sf), et - st)
       ELSE RefAvarFrom(FB, map, n, k + 1)
RefAvar(FB, map, n) == RefAvarFrom(FB, map, n, 2)

ToOut(x) == (x + 2) \div 4                                    \* add 2, sign-extending shift by 2

RefNormalize(FB, ax, avar, map, v) ==
  LET d == RefDefault(FB, ax, v) IN
  IF ~avar THEN ToOut(d)
  ELSE ToOut(Clamp(RefAvar(FB, map, d), -FixOne(FB), FixOne(FB)))

\* ---- fixed-point conversions (F2Dot14 <-> Fixed), full width ---------------------------
F2Dot14ToFixed(x) == 4 * x
FixedToF2Dot14(f) == (f + 2) \div 4

\* ---- Part 3: where the records of an fvar table are ---------------------------------------------
\* (OpenType fvar: the axis array starts axesArrayOffset bytes from the start of the table, its records
\*  are axisSize bytes apart; the instance array follows the axis array; an instance record is
\*  instanceSize bytes: subfamilyNameID, flags, axisCount coordinates and, when instanceSize is
\*  4*axisCount + 6, postScriptNameID.)  Offsets are 0-based, b is the table as a sequence of bytes.
FvarAxisPos(off, asz, i) == off + i * asz                              \* axis record i = 0 ..
FvarInstPos(off, asz, n, isz, j) == off + n * asz + j * isz             \* instance record j = 0 ..
FvarInstSizeOK(n, isz) == isz = 4 * n + 4 \/ isz = 4 * n + 6
FvarLen(off, asz, n, isz, ni) == off + n * asz + ni * isz

BU16(b, p) == b[p + 1] * 256 + b[p + 2]
BI32(b, p) == (IF b[p + 1] >= 128 THEN b[p + 1] - 256 ELSE b[p + 1]) * 16777216
              + b[p + 2] * 65536 + b[p + 3] * 256 + b[p + 4]

\* what a reader of the table must see
FvarAxes(b) ==
  LET off == BU16(b, 4) n == BU16(b, 8) asz == BU16(b, 10) IN
  [i \in 1 .. n |->
     LET p == FvarAxisPos(off, asz, i - 1) IN
     <<BU16(b, p), BU16(b, p + 2), BI32(b, p + 4), BI32(b, p + 8), BI32(b, p + 12), BU16(b, p + 16), BU16(b, p + 18)>>]
FvarInstances(b) ==
  LET off == BU16(b, 4) n == BU16(b, 8) asz == BU16(b, 10) ni == BU16(b, 12) isz == BU16(b, 14) IN
  [j \in 1 .. ni |->
     LET p == FvarInstPos(off, asz, n, isz, j - 1) IN
     [sub |-> BU16(b, p), flags |-> BU16(b, p + 2),
      coords |-> [k \in 1 .. n |-> BI32(b, p + 4 * k)],
      ps |-> IF isz > 4 * n + 4 THEN BU16(b, p + 4 + 4 * n) ELSE -1]]
\* the tables of the check are well-formed: everything inside the table, sizes as OpenType allows
FvarWellFormed(b) ==
  /\ Len(b) >= 16 /\ BU16(b, 0) = 1
  /\ LET off == BU16(b, 4) n == BU16(b, 8) asz == BU16(b, 10) ni == BU16(b, 12) isz == BU16(b, 14) IN
     /\ off >= 16 /\ asz >= 20 /\ FvarInstSizeOK(n, isz)
     /\ FvarLen(off, asz, n, isz, ni) <= Len(b)

\* ---- tuple length ---------------------------------------------------------------------
\* normalize(tuple) succeeds iff the tuple has one value per axis
LengthAccepted(naxes, len) == len = naxes
=============================================================================
