----------------------------- MODULE Trace_Cmap -----------------------------
(***************************************************************************)
(* Trace judge for character-to-glyph mapping (impl -> spec, C06).         *)
(* Judging style: Next is always enabled, a non-conforming event prints a  *)
(* MISMATCH line, the rest of the trace is still examined.                 *)
(*   Select     the record allsorts prefers among the font's records       *)
(*   Load       the selected subtable as decoded by the harness' reader,   *)
(*              its encoding and usFirstCharIndex -> state (tab,enc,first) *)
(*   MapBatch   CmapSubtable::map_glyph / owned map_glyph for many codes   *)
(*   CharBatch  Font::lookup_glyph_index / map_glyphs for many characters  *)
(*   Enumerate  mappings_fn pairs and the mappings() map of the subtable   *)
(*   ConvTable  the defined pairs of a conversion in both directions       *)
(***************************************************************************)
EXTENDS Cmap, Json, IOUtils, Sequences, SequencesExt

Rec == ndJsonDeserialize(IOEnv.TRACE)

VARIABLES l, tab, enc, first, wf, srt
tvars == <<l, tab, enc, first, wf, srt>>

NoTab == [fmt |-> 0, gia |-> <<>>]

WellFormed(t) ==
  CASE t.fmt = 2  -> Len(t.keys) = 256 /\ \A b \in 1 .. 256 : t.keys[b] % 8 = 0 /\ t.keys[b] \div 8 < Len(t.subs)
    [] OTHER -> TRUE

\* at most n elements of a set of tuples, the smallest by first component
Few(S, n) == {x \in S : Cardinality({y \in S : y[1] < x[1]}) < n}

SelectBad(e) ==
  LET k == Preferred(e.a.recs) IN
  IF e.o.sel = k /\ (k = 0 \/ e.o.enc = EncodingOf(e.a.recs[k])) THEN {}
  ELSE {<<k, IF k = 0 THEN "None" ELSE EncodingOf(e.a.recs[k]), e.o.sel, e.o.enc>>}

\* <<code, conformant answers, answer, rule, api>>
\* srt: the segments / groups of the loaded table are sorted and disjoint; otherwise the
\* Dev_UnsortedAny readings apply
Acc(c) == IF srt THEN AcceptSub(tab, c) ELSE AcceptSubU(tab, c)
Br(c)  == IF srt THEN Branch(tab, c) ELSE BranchU(tab, c)
MapBad(e) ==
  LET cs == e.a.codes IN
  {<<cs[k], Acc(cs[k]), e.o.sub[k], Br(cs[k]), "map_glyph">> :
      k \in {j \in 1 .. Len(cs) : ~Ok(Acc(cs[j]), e.o.sub[j])}}
  \cup
  {<<cs[k], Acc(cs[k]), e.o.own[k], Br(cs[k]), "owned_map_glyph">> :
      k \in {j \in 1 .. Len(e.o.own) : ~Ok(Acc(cs[j]), e.o.own[j])}}

CharBad(e) ==
  LET cs == e.a.chars IN
  {<<cs[k], FontAccept(tab, enc, first, cs[k]), e.o.font[k], FontBranch(tab, enc, first, cs[k]), "lookup_glyph_index">> :
      k \in {j \in 1 .. Len(cs) : ~Ok(FontAccept(tab, enc, first, cs[j]), e.o.font[j])}}
  \cup
  {<<cs[k], FontAccept(tab, enc, first, cs[k]), e.o.text[k], FontBranch(tab, enc, first, cs[k]), "map_glyphs">> :
      k \in {j \in 1 .. Len(cs) : ~Ok(FontAccept(tab, enc, first, cs[j]), e.o.text[j])}}

\* Enumeration lists exactly the pairs single lookups give: every listed pair is the lookup's
\* answer, every code with a non-zero glyph is listed (Dev_EnumZeros: listing codes that map to
\* glyph 0 is optional), no code is listed with two glyphs; mappings() relates every listed glyph
\* to one of its listed codes.
EnumBad(e) ==
  LET P  == ToSet(e.o.pairs)
      M  == Mappings(tab)
      G  == ToSet(e.o.map)
      unconstrained == \E m \in M : m[2] = BAD
  IN IF unconstrained THEN {}
     ELSE IF ~e.o.ok THEN {<<-1, {0}, ERR, "enumerate:failed", e.o.note>>}
     ELSE {<<p[1], {Map(tab, p[1])}, p[2], Branch(tab, p[1]), "mappings_fn:listed">> : p \in {q \in P : Map(tab, q[1]) # q[2]}}
          \cup {<<m[1], {m[2]}, 0, Branch(tab, m[1]), "mappings_fn:omitted">> : m \in {x \in M : x[2] # 0 /\ x \notin P}}
          \cup (IF Cardinality({p[1] : p \in P}) # Cardinality(P) THEN {<<-1, {0}, 1, "enumerate:dup", "mappings_fn:duplicate">>} ELSE {})
          \cup (IF ~e.o.mok THEN {<<-1, {0}, ERR, "enumerate:failed", "mappings:" \o e.o.mnote>>} ELSE
                {<<g[2], {g[1]}, -1, "enumerate:map", "mappings:pair-not-listed">> : g \in {x \in G : <<x[2], x[1]>> \notin P}}
                \cup {<<-1, {g}, -1, "enumerate:map", "mappings:glyph-missing">> : g \in ({p[2] : p \in P} \ {x[1] : x \in G})})

\* Enumeration of a table whose segments / groups are unsorted or overlap.  e.o.look are single
\* lookups <<code, glyph>> made on the same subtable.  Every listed pair is a code of the table
\* with a glyph that a segment / group holding the code assigns (Dev_EnumOverlapDup: a code held
\* by several may be listed once per holder); every pair a single lookup returns with a non-zero
\* glyph is listed; a code with one holder is listed with one glyph.
EnumBadU(e) ==
  LET P  == ToSet(e.o.pairs)
      G  == ToSet(e.o.map)
      L  == ToSet(e.o.look)
      Cv == Covered(tab)
  IN IF \E c \in Cv : BAD \in HolderGlyphs(tab, c) THEN {}
     ELSE IF ~e.o.ok THEN {<<-1, {0}, ERR, "enumerate:failed", e.o.note>>}
     ELSE {<<p[1], HolderGlyphs(tab, p[1]), p[2], BranchU(tab, p[1]), "mappings_fn:listed">> :
              p \in {q \in P : q[1] \notin Cv \/ q[2] \notin HolderGlyphs(tab, q[1])}}
          \cup {<<x[1], {x[2]}, 0, BranchU(tab, x[1]), "mappings_fn:omitted">> : x \in {y \in L : y[2] > 0 /\ y \notin P}}
          \cup {<<p[1], HolderGlyphs(tab, p[1]), p[2], BranchU(tab, p[1]), "mappings_fn:duplicate">> :
                   p \in {q \in P : HolderCount(tab, q[1]) <= 1 /\ \E r \in P : r[1] = q[1] /\ r[2] # q[2]}}
          \cup (IF ~e.o.mok THEN {<<-1, {0}, ERR, "enumerate:failed", "mappings:" \o e.o.mnote>>} ELSE
                {<<g[2], {g[1]}, -1, "enumerate:map", "mappings:pair-not-listed">> : g \in {x \in G : <<x[2], x[1]>> \notin P}}
                \cup {<<-1, {g}, -1, "enumerate:map", "mappings:glyph-missing">> : g \in ({p[2] : p \in P} \ {x[1] : x \in G})})

ConvBad(e) ==
  LET E == ToSet(e.o.enc)  D == ToSet(e.o.dec) IN
  IF e.a.name = "MacRoman"
  THEN [encOnly |-> E \ D, decOnly |-> D \ E, wrong |-> MacEncDiff(E).wrong, missing |-> MacEncDiff(E).missing]
  ELSE LET d == Big5Diff(E, D) IN
       [encOnly |-> d.encOnly, decOnly |-> d.decOnly, wrong |-> {}, missing |-> d.missing]
ConvOK(b) == b.encOnly = {} /\ b.decOnly = {} /\ b.wrong = {} /\ b.missing = {}

Report(e, bad) ==
  IF bad = {} THEN TRUE
  ELSE PrintT(<<"MISMATCH", ToJson([i |-> e.i, case |-> e.case, ev |-> e.ev, n |-> Cardinality(bad),
                                    bad |-> SetToSeq(Few(bad, 8))])>>)

TInit == l = 1 /\ tab = NoTab /\ enc = "Unicode" /\ first = 32 /\ wf = TRUE /\ srt = TRUE

TNext ==
  /\ l <= Len(Rec)
  /\ l' = l + 1
  /\ LET e == Rec[l] IN
     IF e.ev = "Load"
     THEN /\ tab' = e.a.t /\ enc' = e.a.enc /\ first' = e.a.first
          /\ wf' = WellFormed(e.a.t)
          /\ srt' = TabSorted(e.a.t)
          /\ IF WellFormed(e.a.t) THEN TRUE ELSE PrintT(<<"MALFORMED", e.case>>)
     ELSE /\ UNCHANGED <<tab, enc, first, wf, srt>>
          /\ CASE e.ev = "Select"    -> Report(e, SelectBad(e))
               [] e.ev = "MapBatch"  -> IF wf THEN Report(e, MapBad(e)) ELSE TRUE
               [] e.ev = "CharBatch" -> IF wf /\ srt THEN Report(e, CharBad(e)) ELSE TRUE
               [] e.ev = "Enumerate" -> IF ~wf THEN TRUE ELSE IF srt THEN Report(e, EnumBad(e)) ELSE Report(e, EnumBadU(e))
               [] e.ev = "ConvTable" ->
                    LET b == ConvBad(e) IN
                    IF ConvOK(b) THEN TRUE
                    ELSE PrintT(<<"MISMATCH", ToJson([i |-> e.i, case |-> e.case, ev |-> e.ev, name |-> e.a.name,
                                    part |-> e.a.part,
                                    n |-> Cardinality(b.encOnly) + Cardinality(b.decOnly) + Cardinality(b.wrong) + Cardinality(b.missing),
                                    nEncOnly |-> Cardinality(b.encOnly), nDecOnly |-> Cardinality(b.decOnly),
                                    encOnly |-> SetToSeq(Few(b.encOnly, 6)), decOnly |-> SetToSeq(Few(b.decOnly, 6)),
                                    wrong |-> SetToSeq(Few(b.wrong, 20)), missing |-> SetToSeq(Few(b.missing, 20))])>>)
               [] e.ev = "FontNewFailed" -> PrintT(<<"NOTE", e.case \o ": Font::new failed (not a cmap matter)">>)
               [] e.ev = "ReadFailed" ->
                    PrintT(<<"MISMATCH", ToJson([i |-> e.i, case |-> e.case, ev |-> e.ev, n |-> 1, bad |-> <<>>])>>)
               [] OTHER -> PrintT(<<"UNMODELLED", e.ev>>)

TSpec == TInit /\ [][TNext]_tvars

AllConsumed == TLCGet("stats").diameter = Len(Rec) + 1
=============================================================================
