---------------------------- MODULE MC_GlyphMap ----------------------------
(***************************************************************************)
(* Bounded exhaustive exploration of GlyphMap and generator of replay      *)
(* cases (spec -> impl) for X06.                                           *)
(*                                                                         *)
(* Two kinds of runs on a font drawn from FontList:                        *)
(*  kind = "text": Init picks a font and a presentation mode; Feed appends *)
(*     ONE character and performs ONE step of the small-step machine       *)
(*     GlyphMap!Step (primary reading), so that the tree of texts up to    *)
(*     the bound is the set of machine runs.                               *)
(*  kind = "seq" : Call appends ONE operation (lookup_glyph_index,         *)
(*     map_glyphs, set_embedded_image_filter) to a history on one Font;    *)
(*     the only state the specification has is the filter.                 *)
(* Invariants on every state: SmallStepIsClosedForm (all readings), the    *)
(* design lemmas L1..L6 of GlyphMap, FontsWellFormed, Emit (prints FONT    *)
(* once per font and one CASE per state: operations and, per operation,    *)
(* the distinct observations the conformant readings allow).               *)
(***************************************************************************)
EXTENDS GlyphMap, Json

CONSTANTS FontList,    \* sequence of <<cmap configuration, table configuration, class>>
          MaxLen,      \* class -> longest text
          ShortLen,    \* texts up to this length use the whole alphabet, longer ones the core only
          Core,        \* class -> core characters
          Alphabet,    \* class -> characters
          SeqFonts,    \* indices into FontList used for call sequences
          SeqOps, MaxOps,
          NotRequiredTables   \* table configurations on which NotRequired texts are explored

VARIABLES kind, fi, mode, text, m, ops, filt, exp
vars == <<kind, fi, mode, text, m, ops, filt, exp>>

---------------------------------------------------------------------------
\* fonts
U7 == <<65, 66, 67, 8986, 8987, 9676, 10084>>        \* A B C, WATCH, HOURGLASS, DOTTED CIRCLE, HEAVY BLACK HEART
U8 == U7 \o <<128512>>                                \* + GRINNING FACE
Pairs(k, chars) == TLCEval([i \in DOMAIN chars |-> <<chars[i], 10 * k + i>>])
Rec(p, e, fmt, mm) == [p |-> p, e |-> e, fmt |-> fmt, m |-> mm]
UvsRecord == Rec(0, 5, 14, <<>>)
\* VS1: A non-default, B..C default;  VS15: WATCH non-default;  VS16: WATCH..HOURGLASS default, HEART
\* non-default;  VS17: A and GRINNING FACE non-default
UvsA == << [vs |-> 65024,  def |-> << <<66, 1>> >>,   non |-> << <<65, 91>> >>],
           [vs |-> 65038,  def |-> <<>>,              non |-> << <<8986, 92>> >>],
           [vs |-> 65039,  def |-> << <<8986, 1>> >>, non |-> << <<10084, 93>> >>],
           [vs |-> 917760, def |-> <<>>,              non |-> << <<65, 94>>, <<128512, 95>> >>] >>
SymPairs(k) == << <<61472, 10 * k + 1>>, <<61505, 10 * k + 2>>, <<61506, 10 * k + 3>> >>     \* F020 F041 F042
LowPairs(k) == << <<65, 10 * k + 1>>, <<66, 10 * k + 2>>, <<128, 10 * k + 3>>, <<189, 10 * k + 4>> >>
Cm(recs, uvs, first) == [recs |-> recs, uvs |-> uvs, first |-> first]
CmapConfigs ==
  [ w4      |-> Cm(<<Rec(3, 1, 4, Pairs(1, U7))>>, <<>>, 32),
    w12     |-> Cm(<<Rec(0, 3, 4, Pairs(1, U7)), Rec(3, 1, 4, Pairs(2, U7)), Rec(3, 10, 12, Pairs(3, U8))>>, <<>>, 32),
    w4uvs   |-> Cm(<<Rec(0, 3, 4, Pairs(1, U7)), UvsRecord, Rec(3, 1, 4, Pairs(3, U7))>>, UvsA, 32),
    u12uvs  |-> Cm(<<Rec(0, 3, 4, Pairs(1, U7)), Rec(0, 4, 12, Pairs(2, U8)), UvsRecord>>, UvsA, 32),
    u4uvs   |-> Cm(<<Rec(0, 3, 4, Pairs(1, U7)), UvsRecord>>, UvsA, -1),
    uvsSym  |-> Cm(<<UvsRecord, Rec(3, 0, 4, SymPairs(2))>>, UvsA, 61472),
    uvsMac  |-> Cm(<<UvsRecord, Rec(1, 0, 0, LowPairs(2))>>, UvsA, -1),
    sym     |-> Cm(<<Rec(3, 0, 4, SymPairs(1))>>, <<>>, 61472),
    symLow  |-> Cm(<<Rec(3, 0, 4, LowPairs(1))>>, <<>>, -1),
    mac     |-> Cm(<<Rec(1, 0, 0, LowPairs(1))>>, <<>>, -1),
    macSym  |-> Cm(<<Rec(1, 0, 0, LowPairs(1)), Rec(3, 0, 4, SymPairs(2))>>, <<>>, 61472) ]
TableConfigs ==
  [ glyf |-> <<"glyf">>, svg |-> <<"glyf", "SVG">>, cbdt |-> <<"CBDT">>, cffsbix |-> <<"CFF", "sbix">>,
    ebdt |-> <<"glyf", "EBDT">>, none |-> <<>>, shadow |-> <<"glyf", "SVG!", "CBDT">>, broken |-> <<"glyf", "sbix!">>,
    shadow2 |-> <<"CFF2", "CBDT!", "sbix">> ]
FontOf(i) == LET c == CmapConfigs[FontList[i][1]] IN
             [recs |-> c.recs, uvs |-> c.uvs, first |-> c.first, tabs |-> TableConfigs[FontList[i][2]]]
ClassOf(i) == FontList[i][3]
FontTab == TLCEval([i \in DOMAIN FontList |-> FontOf(i)])      \* (a constant: evaluated once)
F == FontTab[fi]

O(k, t, mm, v, fl) == [k |-> k, t |-> t, m |-> mm, v |-> v, fl |-> fl]
SeqOpsAll ==
  { O("look", <<9676>>, "N", 0, <<>>), O("look", <<9676>>, "R", 0, <<>>), O("look", <<9676>>, "N", 16, <<>>),
    O("look", <<9676>>, "R", 16, <<>>), O("look", <<8986>>, "R", 0, <<>>), O("look", <<65>>, "R", 1, <<>>),
    O("look", <<10084>>, "N", 16, <<>>),
    O("map", <<9676>>, "N", 0, <<>>), O("map", <<9676, 65039>>, "R", 0, <<>>), O("map", <<8986, 9676, 65038>>, "R", 0, <<>>),
    O("filt", <<>>, "", 0, <<>>), O("filt", <<>>, "", 0, DefaultFilter), O("filt", <<>>, "", 0, <<"EBDT">>),
    O("filt", <<>>, "", 0, <<"sbix", "CBDT">>) }

---------------------------------------------------------------------------
\* the distinct observations the conformant readings allow, named by the first reading that gives it
Alts(FF, fl, op) ==
  IF op.k = "filt" THEN << [r |-> "", o |-> <<>>] >>
  ELSE LET outs == TLCEval([k \in 1 .. 16 |-> OpOut(FF, fl, ReadingSeq[k], op)])
           firsts == {k \in 1 .. 16 : \A j \in 1 .. (k - 1) : outs[j] # outs[k]}
           idx == SetToSortSeq(firsts, <)
       IN [n \in DOMAIN idx |-> [r |-> RdName(ReadingSeq[idx[n]]), o |-> outs[idx[n]]]]

Init ==
  \/ /\ kind = "text" /\ ops = <<>> /\ exp = <<>> /\ filt = DefaultFilter /\ text = <<>> /\ m = M0
     /\ fi \in DOMAIN FontList /\ mode \in {"N", "R"}
     /\ (mode = "N" => FontList[fi][2] \in NotRequiredTables)     \* (lemma L4: the tables play no part)
  \/ /\ kind = "seq" /\ ops = <<>> /\ exp = <<>> /\ filt = DefaultFilter /\ text = <<>> /\ m = M0
     /\ fi \in SeqFonts /\ mode = ""

Feed == /\ kind = "text" /\ Len(text) < MaxLen[ClassOf(fi)]
        /\ \E ch \in Alphabet[ClassOf(fi)] :
              /\ Len(text) + 1 <= ShortLen \/ (ch \in Core[ClassOf(fi)] /\ Range(text) \subseteq Core[ClassOf(fi)])
              /\ text' = Append(text, ch)
              /\ m' = Step(F, filt, Primary, mode, m, ch)
        /\ UNCHANGED <<kind, fi, mode, ops, filt, exp>>
Call == /\ kind = "seq" /\ Len(ops) < MaxOps
        /\ \E op \in SeqOps :
              /\ ops' = Append(ops, op)
              /\ exp' = Append(exp, Alts(F, filt, op))
              /\ filt' = IF op.k = "filt" THEN op.fl ELSE filt
        /\ UNCHANGED <<kind, fi, mode, text, m>>
Next == Feed \/ Call
Spec == Init /\ [][Next]_vars

---------------------------------------------------------------------------
\* the readings the lemmas are checked under: primary, the one closest to allsorts, the opposite
\* corner, and the code model with all defect readings (Emit evaluates all sixteen)
LemmaReadings == {Primary, Rd("ign", "five", "outl", "plain", {}), Rd("std", "five", "any", "pres", {})}
AllReadings == LemmaReadings \cup {Rd("ign", "five", "outl", "plain", DefectSets[7])}

SmallStepIsClosedForm ==
  kind = "text" =>
     /\ m.out = Out(F, filt, Primary, text, mode)
     /\ m.att = (text # <<>> /\ text[Len(text)] \notin Selectors("full"))
     /\ \A rd \in AllReadings : Run(F, filt, rd, mode, M0, text).out = Out(F, filt, rd, text, mode)

Lemmas ==
  kind = "text" =>
     \A rd \in LemmaReadings :
        LET out == Out(F, filt, rd, text, mode) IN
        /\ OutputChars(rd, text, out)
        /\ UsedOk(rd, text, out)
        /\ (mode = "R" => RequiredRefines(F, filt, rd, text, out))
        /\ (mode = "N" => NotRequiredIgnoresTables(F, filt, rd, text, out))
        /\ StraySelectors(F, filt, rd, text, mode, out)

FontsWellFormed ==
  (text = <<>> /\ ops = <<>>) =>
     /\ UvsWellFormed(F)
     /\ BaseIdx(F, Primary) # 0
     /\ \A ch \in Alphabet[ClassOf(fi)] : \A vs \in {1, 2, 15, 16, 17, 18} :
           /\ UvsLookup(F, ch, vs) = UvsLookupLin(F, ch, vs)
           /\ \A rd \in LemmaReadings : UvsLaw(F, rd, ch, vs)
     /\ RangesSorted(EmojiPresentationRanges)
     \* the alphabets are bound to the Unicode data
     /\ EmojiPresentation(8986) /\ EmojiPresentation(8987) /\ EmojiPresentation(128512)
     /\ ~EmojiPresentation(10084) /\ ~EmojiPresentation(9676) /\ ~EmojiPresentation(65) /\ ~EmojiPresentation(8988)

\* which rules of the specification the case exercises (vacuity counters of the driver)
Tags ==
  IF kind = "seq" THEN {"seq"}
  ELSE LET sel == Selectors("full")
           out == m.out
           pos == SelectSeq([i \in DOMAIN text |-> i], LAMBDA i : text[i] \notin sel)
           vsAt(k) == IF pos[k] < Len(text) /\ text[pos[k] + 1] \in sel THEN VsNum(text[pos[k] + 1]) ELSE 0
       IN {"enc:" \o Encoding(F, Primary), "mode:" \o mode}
          \cup (IF text # <<>> /\ text[1] \in sel THEN {"lead-selector"} ELSE {})
          \cup (IF \E i \in 1 .. (Len(text) - 1) : text[i] \in sel /\ text[i + 1] \in sel THEN {"double-selector"} ELSE {})
          \cup UNION {{"vs:" \o ToString(vsAt(k))} : k \in DOMAIN pos}
          \cup UNION {IF vsAt(k) # 0 /\ HasUvsRec(F) /\ Encoding(F, Primary) = "Unicode"
                      THEN {"uvs:" \o UvsLookup(F, text[pos[k]], vsAt(k))[1]} ELSE {} : k \in DOMAIN pos}
          \cup UNION {IF mode = "R" THEN {IF Supported(F, filt, Primary, text[pos[k]], vsAt(k))
                                          THEN "required:" \o ToString(out[k].v) \o ":pass"
                                          ELSE "required:" \o ToString(out[k].v) \o ":blocked"} ELSE {} : k \in DOMAIN pos}
          \cup UNION {IF out[k].g = {0} THEN {"glyph0"} ELSE {"mapped"} : k \in DOMAIN pos}
          \cup (IF HasUvsRec(F) /\ BaseIdx(F, Primary) # BaseIdx(F, WithDefects(Primary, {"uvsRecordChosen"}))
                THEN {"uvs-record-first-of-platform-0"} ELSE {})

Emit ==
  /\ (kind = "text" /\ text = <<>> /\ mode = "R")
        => PrintT(<<"FONT", ToJson([fi |-> fi, cm |-> FontList[fi][1], tb |-> FontList[fi][2], f |-> F])>>)
  /\ IF kind = "text"
     THEN LET op == O("map", text, mode, 0, <<>>) IN
          PrintT(<<"CASE", ToJson([fi |-> fi, ops |-> <<op>>, exp |-> <<Alts(F, filt, op)>>, b |-> Tags])>>)
     ELSE ops # <<>> => PrintT(<<"CASE", ToJson([fi |-> fi, ops |-> ops, exp |-> exp, b |-> Tags])>>)

---------------------------------------------------------------------------
\* bounds
AlphaUQuick    == {65, 66, 8986, 10084, 9676, 128512, 65024, 65038, 65039}
AlphaUThorough == AlphaUQuick \cup {90, 67, 68, 8987, 8988, 65027, 917760}
SeqOpsQuick == { O("look", <<9676>>, "N", 0, <<>>), O("look", <<9676>>, "R", 0, <<>>), O("look", <<9676>>, "R", 16, <<>>),
                 O("look", <<8986>>, "R", 0, <<>>), O("map", <<9676>>, "N", 0, <<>>), O("map", <<9676, 65039>>, "R", 0, <<>>),
                 O("filt", <<>>, "", 0, <<>>), O("filt", <<>>, "", 0, DefaultFilter), O("filt", <<>>, "", 0, <<"EBDT">>) }
NrtQuick    == {"glyf", "cbdt"}
NrtThorough == {"glyf", "cbdt", "svg"}
AlphaL         == {65, 196, 61505, 90, 8986, 65024, 65039}
AlphabetQuick    == [u |-> AlphaUQuick, l |-> AlphaL, w |-> AlphaUQuick]
AlphabetThorough == [u |-> AlphaUThorough, l |-> AlphaL \cup {937, 61472, 65027}, w |-> AlphaUQuick]
CoreQuick    == AlphabetQuick
CoreThorough == [u |-> AlphaUQuick \cup {90}, l |-> AlphaL \cup {937, 61472, 65027}, w |-> AlphaUQuick]
MaxLenQuick    == [u |-> 3, l |-> 2, w |-> 2]
MaxLenThorough == [u |-> 3, l |-> 3, w |-> 4]

UniCm == <<"w4", "w12", "w4uvs", "u12uvs", "u4uvs">>
LegCm == <<"uvsSym", "uvsMac", "sym", "symLow", "mac", "macSym">>
Prod(cms, tbs, cls) == TLCEval([k \in 1 .. (Len(cms) * Len(tbs)) |->
                          <<cms[((k - 1) \div Len(tbs)) + 1], tbs[((k - 1) % Len(tbs)) + 1], cls>>])
FontListQuick ==
  Prod(UniCm, <<"glyf", "svg", "cbdt">>, "u")
  \o Prod(<<"w4", "w4uvs">>, <<"shadow">>, "u")
  \o Prod(<<"w12">>, <<"cffsbix", "ebdt", "none", "broken">>, "u")
  \o Prod(LegCm, <<"glyf", "cbdt">>, "l")
FontListThorough ==
  Prod(UniCm, <<"glyf", "svg", "cbdt", "cffsbix", "ebdt", "none", "shadow", "broken", "shadow2">>, "u")
  \o Prod(LegCm, <<"glyf", "cbdt", "none">>, "l")
  \o <<  <<"w4uvs", "svg", "w">>, <<"u12uvs", "cbdt", "w">> >>
\* call sequences: w12/svg, w4uvs/cbdt, w4uvs/shadow, w12/ebdt
SeqFontsQuick    == {5, 9, 17, 19}
SeqFontsThorough == {11, 14, 21, 25, 26, 27, 30}
=============================================================================
