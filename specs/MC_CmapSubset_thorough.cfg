CONSTANTS
  Deep = TRUE
  FixFmt0 = FALSE
  FixSymInv = FALSE
SPECIFICATION Spec
INVARIANTS DesignOK EmitCase
CHECK_DEADLOCK FALSE
