\* the model of the code as it is now (both repairs are in /repo): cases are emitted
CONSTANTS
  Deep = TRUE
  FixFmt0 = TRUE
  FixSymInv = TRUE
SPECIFICATION Spec
INVARIANTS DesignOK EmitCase
CHECK_DEADLOCK FALSE
