---------------------------- MODULE Trace_Type2 ----------------------------
(***************************************************************************)
(* Trace judge for C18 (impl -> spec), judging style.  One event per glyph *)
(* of a repository font: the raw charstring bytes, the subroutines it      *)
(* reaches (found by the harness' own walker) and the font context are     *)
(* interpreted by Type2!Interp; the commands allsorts delivered to the     *)
(* sink must be exactly the machine's commands.                            *)
(*                                                                         *)
(* A glyph the machine does not accept (halt = "err") is outside the       *)
(* property's quantifier ("well-formed glyph program", or outside the      *)
(* modelled number domain): it is reported as NOTWF with the reason and    *)
(* not judged.  Dev_F32Tolerance: where an operand or coordinate is not    *)
(* exactly representable in single precision (what allsorts computes       *)
(* with), the commands must agree within Tol instead of exactly.           *)
(***************************************************************************)
EXTENDS Type2, Json, IOUtils

Rec == ndJsonDeserialize(IOEnv.TRACE)

VARIABLES l, stats
tvars == <<l, stats>>

Tol == 4096          \* 1/16 unit, scaled

FCof(a) == [kind |-> a.kind, nG |-> a.nG, nL |-> a.nL, gsubrs |-> a.gsubrs, lsubrs |-> a.lsubrs,
            comps |-> a.comps, seacOk |-> a.seacOk, charset |-> a.charset, nGlyphs |-> a.nGlyphs, regions |-> a.regions, tuple |-> a.tuple, dvs |-> a.dvs]

Dev_F32Tolerance(got, want) ==
  /\ Len(got) = Len(want)
  /\ \A k \in 1 .. Len(want) :
       /\ got[k].c = want[k].c
       /\ Len(got[k].p) = Len(want[k].p)
       /\ \A j \in 1 .. Len(want[k].p) : Abs(got[k].p[j] - want[k].p[j]) <= Tol

Conforms(e, r) ==
  /\ e.o.ok
  /\ IF r.fuzzy \/ e.o.rounded THEN Dev_F32Tolerance(e.o.cmds, r.cmds) ELSE e.o.cmds = r.cmds

\* what kind of deviation (part of the violation key)
Class(e, r) ==
  IF ~e.o.ok THEN "err:" \o e.o.why
  ELSE IF r.cmds = <<>> /\ e.o.cmds = <<[c |-> "Z", p |-> <<>>]>> THEN "close-without-move"
  ELSE IF Len(e.o.cmds) # Len(r.cmds) THEN "command-count"
  ELSE IF \E k \in 1 .. Len(r.cmds) : e.o.cmds[k].c # r.cmds[k].c THEN "command-kind"
  ELSE "coordinates"

JudgeStats(e, s1) ==
  /\ stats' = s1
  /\ IF l = Len(Rec) THEN PrintT(<<"STATS", ToJson(s1)>>) ELSE TRUE

Bump(s, f) == [s EXCEPT ![f] = @ + 1]

TInit == l = 1 /\ stats = [judged |-> 0, exact |-> 0, fuzzy |-> 0, notwf |-> 0, cmds |-> 0,
                           withsubrs |-> 0, withmask |-> 0, withwidth |-> 0, deep |-> 0, blends |-> 0, empty |-> 0,
                           seac |-> 0, seacsubr |-> 0]

\* r is an operator parameter so that the interpretation is evaluated once per event
Stats(r) ==
  IF r.halt = "done"
  THEN LET a == Bump(Bump(stats, "judged"), IF r.fuzzy THEN "fuzzy" ELSE "exact")
           b == IF r.maxDepth > 0 THEN Bump(a, "withsubrs") ELSE a
           c == IF r.nStems > 0 THEN Bump(b, "withmask") ELSE b
           d == IF r.width # <<>> THEN Bump(c, "withwidth") ELSE c
           f == IF r.maxDepth > 2 THEN Bump(d, "deep") ELSE d
           g == IF r.seenBlend THEN Bump(f, "blends") ELSE f
           h == IF r.cmds = <<>> THEN Bump(g, "empty") ELSE g
           k == IF r.seac # 0 THEN Bump(h, "seac") ELSE h         \* an accented character: both components resolved and drawn
           \* ... whose accent calls a subroutine that returns before the accent's end
           n == IF r.compRet[2] THEN Bump(k, "seacsubr") ELSE k IN
       [n EXCEPT !.cmds = @ + Len(r.cmds)]
  ELSE Bump(stats, "notwf")

Judge(e, r) ==
  /\ JudgeStats(e, Stats(r))
  /\ IF r.halt = "done"
     THEN IF Conforms(e, r) THEN TRUE
          ELSE PrintT(<<"MISMATCH", ToJson([i |-> e.i, case |-> e.case, fuzzy |-> r.fuzzy,
                                            class |-> Class(e, r), want |-> Outcome(r), got |-> e.o])>>)
     ELSE PrintT(<<"NOTWF", ToJson([i |-> e.i, case |-> e.case, why |-> r.why, gotok |-> e.o.ok])>>)

TNext ==
  /\ l <= Len(Rec)
  /\ l' = l + 1
  /\ Judge(Rec[l], Interp(FCof(Rec[l].a), Rec[l].a.code))

TSpec == TInit /\ [][TNext]_tvars

AllConsumed == TLCGet("stats").diameter = Len(Rec) + 1
=============================================================================
