----------------------------- MODULE MC_SubsetCff -----------------------------
(***************************************************************************)
(* Bounded exhaustive exploration of the name-keyed CFF side of Subset.tla *)
(* (CFF::subset: charstrings copied, names kept, charset representation    *)
(* chosen) and generator of replay cases (spec -> impl).                   *)
(*                                                                         *)
(* A case = (glyph names, accented glyphs, requested glyph ids,            *)
(*           numberOfHMetrics):                                            *)
(*   - every injective assignment of names (string ids of SIDs) to the     *)
(*     glyphs 1 .. NGC-1: the ISOAdobe order 1, 2, 3 is one of them, every  *)
(*     other order and names the font does not use are the rest,           *)
(*   - every choice of at most MaxAcc accented glyphs with every pair of    *)
(*     StandardEncoding codes of SIDs as base and accent (components that  *)
(*     are plain, accented themselves, the glyph itself, a name the font    *)
(*     does not have),                                                     *)
(*   - every list of distinct glyph ids that starts with 0 (prefixes,      *)
(*     permutations, components retained / omitted / behind the accented   *)
(*     glyph).                                                             *)
(* The representation of the source (Subset.tla CffRep..) rotates with a    *)
(* number computed from the whole case.  `Init` picks the case; one action  *)
(* per iteration of the loop of CFF::subset, one for the charset decision.  *)
(* The finished state prints one CASE: the source to synthesize and what    *)
(* the machine's output font draws glyph by glyph (which the invariants     *)
(* relate to the source: CffSubsetRelation).                               *)
(***************************************************************************)
EXTENDS Subset, Json

CONSTANTS NGC,      \* glyphs in the source font
          SIDs,     \* names to choose from
          MaxAcc,   \* accented glyphs per font
          NHMsC     \* values of numberOfHMetrics

VARIABLES src, req, rep, st, pc
vars == <<src, req, rep, st, pc>>

GIds == 1 .. NGC - 1
Codes == {s + 31 : s \in SIDs}          \* StandardEncoding: code 32 + k is SID 1 + k (space, exclam, quotedbl, ..)

RECURSIVE Perms(_, _)
Perms(S, k) == IF k = 0 THEN {<<>>} ELSE UNION {{Append(p, x) : x \in S \ Range(p)} : p \in Perms(S, k - 1)}
ReqLists == UNION {{<<0>> \o p : p \in Perms(GIds, k)} : k \in 0 .. NGC - 1}
AccSets == {A \in SUBSET GIds : Cardinality(A) <= MaxAcc}

DXY == << <<30, 40>>, <<-25, 120>>, <<0, 0>>, <<300, -107>>, <<108, 7>> >>

RECURSIVE SumSeq(_, _)
SumSeq(q, i) == IF i > Len(q) THEN 0 ELSE i * (q[i] + 1) + SumSeq(q, i + 1)
RECURSIVE SumSet(_)
SumSet(S) == IF S = {} THEN 0 ELSE LET x == CHOOSE z \in S : TRUE IN x + SumSet(S \ {x})

MkCffSrc(nm, A, cf, r, h) ==
  [n     |-> NGC,
   name  |-> <<0>> \o nm,
   glyph |-> [i \in 1 .. NGC |->
                IF (i - 1) \in A
                THEN LET d == DXY[((i + Len(r) + h) % 5) + 1] IN
                     [acc |-> TRUE, shape |-> i - 1, b |-> cf[i - 1][1], a |-> cf[i - 1][2], dx |-> d[1], dy |-> d[2]]
                ELSE [acc |-> FALSE, shape |-> i - 1, b |-> 0, a |-> 0, dx |-> 0, dy |-> 0]],
   nhm   |-> h,
   long  |-> [k \in 1 .. h |-> [adv |-> 500 + 10 * (k - 1), lsb |-> 3 * (k - 1) - 4]],
   tail  |-> [j \in 1 .. NGC - h |-> 3 * (h + j - 1) - 4]]

CaseNumC(nm, A, cf, r, h) ==
  SumSeq(nm, 1) + 7 * SumSet(A) + 3 * SumSet({cf[g][1] + 2 * cf[g][2] : g \in A}) + 5 * SumSeq(r, 1) + 3 * h
HdrSeq == <<4, 5, 8>>
HoffSeq == <<4, 1, 2, 3>>
IoffSeq == <<0, 2, 4, 3>>
CsAny == <<"f0", "f1", "f2">>
CsIso == <<"iso-omitted", "f1", "iso-0", "f0", "f2">>
EncSeq == <<"absent", "standard", "custom0", "expert", "custom1">>
MkCffRep(f, k) ==
  [hdr     |-> HdrSeq[(k % 3) + 1],
   hoff    |-> HoffSeq[(k % 4) + 1],
   ioff    |-> IoffSeq[((k \div 2) % 4) + 1],
   top     |-> k % 4,
   short   |-> (k \div 3) % 2 = 1,
   charset |-> IF NamesAreIsoAdobe(f.name) THEN CsIso[((k \div 2) % 5) + 1] ELSE CsAny[((k \div 3) % 3) + 1],
   enc     |-> EncSeq[(k % 5) + 1],
   blocks  |-> (k \div 2) % 3,
   gap     |-> IF (k \div 5) % 2 = 0 THEN 0 ELSE 3,
   priv    |-> (k \div 4) % 2,
   subrs   |-> (k \div 7) % 2 = 0,
   widths  |-> (k \div 3) % 4]

\* st: the loop of CFF::subset - cursor, the charstrings and names collected so far, then the charset decision
St0 == [cur |-> 0, glyphs |-> <<>>, names |-> <<0>>, charset |-> "undecided"]

Init ==
  \E nm \in Perms(SIDs, NGC - 1), A \in AccSets, r \in ReqLists, h \in NHMsC :
    \E cf \in [A -> Codes \X Codes] :
      /\ src = MkCffSrc(nm, A, cf, r, h)
      /\ rep = MkCffRep(MkCffSrc(nm, A, cf, r, h), CaseNumC(nm, A, cf, r, h))
      /\ req = r
      /\ st = St0
      /\ pc = "loop"

\* `for &glyph_id in glyph_ids`: the charstring is copied; the name is collected for every glyph but .notdef
LoopStep ==
  /\ pc = "loop" /\ st.cur < Len(req)
  /\ LET g == req[st.cur + 1] IN
     st' = [st EXCEPT !.cur = @ + 1, !.glyphs = Append(@, src.glyph[g + 1]),
                      !.names = IF g = 0 THEN @ ELSE Append(@, src.name[g + 1])]
  /\ UNCHANGED <<src, req, rep, pc>>
LoopEnd == pc = "loop" /\ st.cur = Len(req) /\ pc' = "charset" /\ UNCHANGED <<src, req, rep, st>>
\* "Update the charset": the predefined ISOAdobe charset or a format 0 table, decided from the collected NAMES
Charset == pc = "charset" /\ st' = [st EXCEPT !.charset = CharsetChoice(st.names)] /\ pc' = "done" /\ UNCHANGED <<src, req, rep>>
Next == LoopStep \/ LoopEnd \/ Charset
Spec == Init /\ [][Next]_vars

\* ---- invariants ---------------------------------------------------------------------
\* the written font as a reader decodes it
out == [n |-> Len(st.glyphs), name |-> NamesDecoded(st.charset, st.names), glyph |-> st.glyphs]

LoopOK ==
  /\ st.cur <= Len(req) /\ Len(st.glyphs) = st.cur /\ Len(st.names) = (IF st.cur = 0 THEN 1 ELSE st.cur)
  /\ \A i \in 1 .. st.cur : st.glyphs[i] = src.glyph[req[i] + 1] /\ st.names[i] = src.name[req[i] + 1]

DoneOK ==
  pc = "done" =>
    /\ CharsetFaithful(st.names)
    /\ out = CffSubsetFont(src, req)
    /\ CffSubsetRelation(src, req, out)
    \* what is not demanded (Dev_SeacComponentsNotPulledIn) is, in this machine, lost - never another outline
    /\ \A n \in 0 .. out.n - 1 :
         ~SeacClosedIn(src, req, req[n + 1]) => CffOutline(out, n) \in {NoOutline, CffOutline(src, req[n + 1])}
    \* metrics as for every subset: fetched through the old id
    /\ LET recs == CffOrder(req) hm == HmtxRun(src, recs, <<>>) IN
       \A n \in 1 .. Len(req) : hm[n].adv = AdvOf(src, req[n]) /\ hm[n].lsb = LsbOf(src, req[n])

RepOK == WellFormedCffRep(src, rep) /\ CffRepIndependent(src, rep)

DesignOK == LoopOK /\ DoneOK /\ RepOK

\* ---- CASE lines --------------------------------------------------------------------
FlatJson3(r) == IF r.ok THEN r.ls ELSE << <<-1, 0, 0>> >>
Case ==
  [n     |-> NGC,
   nhm   |-> src.nhm,
   adv   |-> [k \in 1 .. src.nhm |-> src.long[k].adv],
   lsb   |-> [g \in 1 .. NGC |-> LsbOf(src, g - 1)],
   names |-> src.name,
   \* glyph: <<0, shape>> plain, <<1, bchar, achar, adx, ady>> accented
   glyphs |-> [i \in 1 .. NGC |-> LET c == src.glyph[i] IN IF c.acc THEN <<1, c.b, c.a, c.dx, c.dy>> ELSE <<0, c.shape>>],
   rep   |-> rep,
   req   |-> req,
   \* what the source draws (information for reports), whether the request is closed under base / accent
   srcdraw |-> [i \in 1 .. Len(req) |-> FlatJson3(CffOutline(src, req[i]))],
   closed  |-> [i \in 1 .. Len(req) |-> IF SeacClosedIn(src, req, req[i]) THEN 1 ELSE 0],
   exp   |-> [n |-> Len(req),
              glyphs |-> [i \in 1 .. Len(req) |-> <<FlatJson3(CffOutline(out, i - 1)), AdvOf(src, req[i]), LsbOf(src, req[i])>>]]]

EmitCase == pc = "done" => PrintT(<<"CASE", ToJson(Case)>>)
=============================================================================
