CONSTANTS
  Tier = "quick"
SPECIFICATION Spec
INVARIANTS CffCase
CHECK_DEADLOCK FALSE
