----------------------------- MODULE TableCodec -----------------------------
(***************************************************************************)
(* Field layouts, encoders, decoders and normalisations of the sfnt tables *)
(* allsorts can both parse and serialise (property C15):                   *)
(*   head, hhea, maxp (0.5 / 1.0), hmtx, cvt, loca (short / long),         *)
(*   OS/2 (versions 0-5 and the 68-byte legacy form), post (1, 2, 2.5, 3), *)
(*   name (owned form: records with their strings, language tags),         *)
(*   cmap subtables 0 / 4 / 6 / 10 / 12 and the cmap table,                *)
(*   glyf glyph records (simple, composite; simple glyphs also in the      *)
(*   packings other writers use: EncGlyphPacked).                          *)
(*                                                                         *)
(* For every kind k:                                                       *)
(*   InFormat(k, v)  the value is representable in the format at all       *)
(*   Refuse(k, v)    some count / length / offset exceeds the width of the *)
(*                   field that must hold it: the writer must answer Err   *)
(*   Enc(k, v)       the bytes the format prescribes                       *)
(*   Dec(k, bytes, args)   the value a reader must produce                 *)
(*   Normalise(k, v) the declared normalisations of the writer             *)
(* and the law   ~Refuse(k, v) => Dec(k, Enc(k, v)) = Normalise(k, v),     *)
(* Normalise idempotent, checked by TLC in MC_TableCodec on boundary-heavy *)
(* value sets; the same Enc / Dec judge allsorts (replayed cases, recorded *)
(* repository tables).                                                     *)
(*                                                                         *)
(* Values are records of integers; 32-bit unsigned and 64-bit fields are   *)
(* big-endian byte tuples (TLC integers are 32 bit), unless stated.        *)
(***************************************************************************)
EXTENDS BinaryWriter

\* ---- primitives -----------------------------------------------------------
U8(x)  == <<x>>
U16(x) == BE2(x)
I16(x) == BE2(x % 65536)
U24(x) == BE3(x)
I32(x) == BE4s(x)
U32(x) == BE4s(x)                 \* for 0 <= x < 2^31
I8(x)  == <<x % 256>>

RU8(bs, at)  == bs[at + 1]
RU16(bs, at) == bs[at + 1] * 256 + bs[at + 2]
RI16(bs, at) == LET u == RU16(bs, at) IN IF u >= 32768 THEN u - 65536 ELSE u
RI8(bs, at)  == IF bs[at + 1] >= 128 THEN bs[at + 1] - 256 ELSE bs[at + 1]
RU24(bs, at) == bs[at + 1] * 65536 + bs[at + 2] * 256 + bs[at + 3]
RI32(bs, at) == DecInt("i32", SubSeq(bs, at + 1, at + 4))
RU32(bs, at) == RI32(bs, at)      \* for values < 2^31
RB(bs, at, n) == SubSeq(bs, at + 1, at + n)

MapS(q, F(_)) == [i \in 1 .. Len(q) |-> F(q[i])]
\* concatenation and sum by halving (FlattenSeq of the community modules recurses once per
\* element: quadratic, and too deep for the 65536-element cases)
RECURSIVE CatR(_, _, _)
CatR(q, lo, hi) == IF lo > hi THEN <<>> ELSE IF lo = hi THEN q[lo]
                   ELSE LET m == (lo + hi) \div 2 IN CatR(q, lo, m) \o CatR(q, m + 1, hi)
Cat(q) == CatR(q, 1, Len(q))
CatMap(q, F(_)) == Cat([i \in 1 .. Len(q) |-> F(q[i])])
RECURSIVE SumR(_, _, _)
SumR(q, lo, hi) == IF lo > hi THEN 0 ELSE IF lo = hi THEN q[lo]
                   ELSE LET m == (lo + hi) \div 2 IN SumR(q, lo, m) + SumR(q, m + 1, hi)
SumSeq(q) == SumR(q, 1, Len(q))
MaxSeq(q) == IF q = <<>> THEN -1 ELSE CHOOSE m \in {q[i] : i \in 1 .. Len(q)} : \A i \in 1 .. Len(q) : q[i] <= m
IsU8(x)  == x \in 0 .. 255
IsU16(x) == x >= 0 /\ x <= 65535
IsI16(x) == x >= -32768 /\ x <= 32767
IsI8(x)  == x >= -128 /\ x <= 127
IsBytes(bs) == \A i \in 1 .. Len(bs) : bs[i] \in 0 .. 255

\* ---- fixed layouts as data ------------------------------------------------
\* a field:  [n |-> name ("" for a constant), k |-> kind, c |-> constant value]
\* kinds: those of BinaryWriter plus "b10" (ten raw bytes)
F(n, k) == [n |-> n, k |-> k, c |-> 0]
C(k, c) == [n |-> "", k |-> k, c |-> c]
CB(k, c) == [n |-> "", k |-> k, c |-> c]

FSize(k)    == IF k = "b10" THEN 10 ELSE WSizeOf(k)
FFits(k, x) == IF k = "b10" THEN Len(x) = 10 /\ IsBytes(x) ELSE Fits(k, x)
FEnc(k, x)  == IF k = "b10" THEN x ELSE EncVal(k, x)
FDec(k, bs) == IF k = "b10" THEN bs ELSE DecVal(k, bs)

SizeL(L) == SumSeq([i \in 1 .. Len(L) |-> FSize(L[i].k)])
OffL(L, i) == SumSeq([j \in 1 .. (i - 1) |-> FSize(L[j].k)])
NamesL(L) == {L[i].n : i \in {j \in 1 .. Len(L) : L[j].n # ""}}
IdxL(L, n) == CHOOSE i \in 1 .. Len(L) : L[i].n = n

FitsL(L, v) == \A i \in 1 .. Len(L) : L[i].n = "" \/ FFits(L[i].k, v[L[i].n])
EncL(L, v)  == Cat([i \in 1 .. Len(L) |-> IF L[i].n = "" THEN FEnc(L[i].k, L[i].c) ELSE FEnc(L[i].k, v[L[i].n])])
\* the record of the named fields; constants are not looked at (readers either ignore them
\* or reject the table, and only accepted tables are judged)
DecL(L, bs) == [n \in NamesL(L) |-> LET i == IdxL(L, n) IN FDec(L[i].k, RB(bs, OffL(L, i), FSize(L[i].k)))]

HeadMagic == <<95, 15, 60, 245>>
HeadL == << F("major", "u16"), F("minor", "u16"), F("rev", "i32"), F("csa", "u32"), F("magic", "u32"),
            F("flags", "u16"), F("upem", "u16"), F("created", "i64"), F("modified", "i64"),
            F("xmin", "i16"), F("ymin", "i16"), F("xmax", "i16"), F("ymax", "i16"),
            F("mac", "u16"), F("ppem", "u16"), F("fdh", "i16"), F("loc", "i16"), F("gdf", "i16") >>

HheaL == << C("u16", 1), C("u16", 0),
            F("asc", "i16"), F("desc", "i16"), F("gap", "i16"), F("awm", "u16"), F("minlsb", "i16"),
            F("minrsb", "i16"), F("xme", "i16"), F("rise", "i16"), F("run", "i16"), F("coff", "i16"),
            C("i16", 0), C("i16", 0), C("i16", 0), C("i16", 0), C("i16", 0),
            F("nhm", "u16") >>

Os2BaseL == << F("xavg", "i16"), F("wgt", "u16"), F("wdt", "u16"), F("fstype", "u16"),
               F("subxs", "i16"), F("subys", "i16"), F("subxo", "i16"), F("subyo", "i16"),
               F("supxs", "i16"), F("supys", "i16"), F("supxo", "i16"), F("supyo", "i16"),
               F("strs", "i16"), F("strp", "i16"), F("fam", "i16"), F("panose", "b10"),
               F("ur1", "u32"), F("ur2", "u32"), F("ur3", "u32"), F("ur4", "u32"), F("vend", "u32"),
               F("fssel", "u16"), F("first", "u16"), F("last", "u16") >>
Os2V0K == <<"i16", "i16", "i16", "u16", "u16">>
Os2V1K == <<"u32", "u32">>
Os2V2K == <<"i16", "i16", "u16", "u16", "u16">>
Os2V5K == <<"u16", "u16">>

PostL == << F("version", "i32"), F("angle", "i32"), F("upos", "i16"), F("uthick", "i16"),
            F("fixed", "u32"), F("min42", "u32"), F("max42", "u32"), F("min1", "u32"), F("max1", "u32") >>

\* a tail: a tuple of values with its kinds
TailFits(K, t) == t = <<>> \/ (Len(t) = Len(K) /\ \A i \in 1 .. Len(K) : FFits(K[i], t[i]))
TailEnc(K, t)  == Cat([i \in 1 .. Len(t) |-> FEnc(K[i], t[i])])
TailSize(K)    == SumSeq([i \in 1 .. Len(K) |-> FSize(K[i])])
TailDec(K, bs, at) == [i \in 1 .. Len(K) |->
                         FDec(K[i], RB(bs, at + SumSeq([j \in 1 .. (i - 1) |-> FSize(K[j])]), FSize(K[i])))]

---------------------------------------------------------------------------
\* ---- head ------------------------------------------------------------------
HeadInFormat(v) == FitsL(HeadL, v) /\ v.magic = HeadMagic /\ v.mac \in 0 .. 127 /\ v.loc \in {0, 1}
EncHead(v) == EncL(HeadL, v)
\* reserved macStyle bits are dropped by the reader (bitflags), as are unknown fsSelection bits
DecHead(bs) == LET r == DecL(HeadL, bs) IN [r EXCEPT !.mac = @ % 128]

\* ---- hhea ------------------------------------------------------------------
EncHhea(v) == EncL(HheaL, v)
DecHhea(bs) == DecL(HheaL, bs)

\* ---- maxp: [ng, sub]  sub = <<>> (0.5) or thirteen u16 (1.0) -------------------
MaxpInFormat(v) == IsU16(v.ng) /\ Len(v.sub) \in {0, 13} /\ \A i \in 1 .. Len(v.sub) : IsU16(v.sub[i])
EncMaxp(v) == (IF v.sub = <<>> THEN <<0, 0, 80, 0>> ELSE <<0, 1, 0, 0>>) \o U16(v.ng) \o CatMap(v.sub, U16)
DecMaxp(bs) == [ng |-> RU16(bs, 4),
                sub |-> IF RB(bs, 0, 4) = <<0, 1, 0, 0>> THEN [i \in 1 .. 13 |-> RU16(bs, 4 + 2 * i)] ELSE <<>>]

\* ---- hmtx: [hm: <<aw, lsb>>*, lsb: i16*]  args: numGlyphs, numHMetrics ------
HmtxInFormat(v) == /\ \A i \in 1 .. Len(v.hm) : IsU16(v.hm[i][1]) /\ IsI16(v.hm[i][2])
                   /\ \A i \in 1 .. Len(v.lsb) : IsI16(v.lsb[i])
EncHmtx(v) == CatMap(v.hm, LAMBDA m : U16(m[1]) \o I16(m[2])) \o CatMap(v.lsb, I16)
DecHmtx(bs, ng, nhm) ==
  [hm |-> [i \in 1 .. nhm |-> <<RU16(bs, 4 * (i - 1)), RI16(bs, 4 * (i - 1) + 2)>>],
   lsb |-> [i \in 1 .. (IF ng > nhm THEN ng - nhm ELSE 0) |-> RI16(bs, 4 * nhm + 2 * (i - 1))]]

\* ---- cvt: [vals: i16*] ----------------------------------------------------------
EncCvt(v) == CatMap(v.vals, I16)
DecCvt(bs) == [vals |-> [i \in 1 .. (Len(bs) \div 2) |-> RI16(bs, 2 * (i - 1))]]

\* ---- loca: [fmt: 0 short | 1 long, offs: byte offsets < 2^31] -------------------
\* short form stores offset / 2 in 16 bits: odd offsets and offsets above 131070 do not fit
LocaRefuse(v) == v.fmt = 0 /\ \E i \in 1 .. Len(v.offs) : v.offs[i] % 2 = 1 \/ v.offs[i] \div 2 > 65535
EncLoca(v) == IF v.fmt = 0 THEN CatMap(v.offs, LAMBDA o : U16(o \div 2)) ELSE CatMap(v.offs, U32)
DecLoca(bs, fmt, n) ==
  [fmt |-> fmt,
   offs |-> IF fmt = 0 THEN [i \in 1 .. n |-> 2 * RU16(bs, 2 * (i - 1))] ELSE [i \in 1 .. n |-> RU32(bs, 4 * (i - 1))]]

\* ---- OS/2 -----------------------------------------------------------------------
\* [version, <base fields>, v0, v1, v2, v5]  tails are <<>> when absent
Os2Consistent(v) ==
  /\ v.version \in 0 .. 5
  /\ (v.v1 # <<>>) = (v.version >= 1)
  /\ (v.v2 # <<>>) = (v.version >= 2)
  /\ (v.v5 # <<>>) = (v.version >= 5)
  /\ (v.version >= 1 => v.v0 # <<>>)                \* only version 0 has the 68-byte form
Os2InFormat(v) ==
  /\ Os2Consistent(v) /\ FitsL(Os2BaseL, v) /\ v.fssel \in 0 .. 1023
  /\ TailFits(Os2V0K, v.v0) /\ TailFits(Os2V1K, v.v1) /\ TailFits(Os2V2K, v.v2) /\ TailFits(Os2V5K, v.v5)
\* declared normalisation: versions 2 and 3 are written as 4 (same layout)
NormOs2(v) == [v EXCEPT !.version = IF @ \in {2, 3} THEN 4 ELSE @]
Os2WrittenVersion(v) == IF v.v5 # <<>> THEN 5 ELSE IF v.v2 # <<>> THEN 4 ELSE IF v.v1 # <<>> THEN 1 ELSE 0
EncOs2(v) == U16(Os2WrittenVersion(v)) \o EncL(Os2BaseL, v) \o TailEnc(Os2V0K, v.v0) \o TailEnc(Os2V1K, v.v1)
             \o TailEnc(Os2V2K, v.v2) \o TailEnc(Os2V5K, v.v5)
\* reader: the size of the table decides about the version-0 tail, the version field about the rest
DecOs2(bs, size) ==
  LET ver  == RU16(bs, 0)
      base == DecL(Os2BaseL, RB(bs, 2, SizeL(Os2BaseL)))
      a0   == 2 + SizeL(Os2BaseL)
      has0 == size >= 78
      a1   == a0 + (IF has0 THEN TailSize(Os2V0K) ELSE 0)
      a2   == a1 + (IF ver >= 1 THEN TailSize(Os2V1K) ELSE 0)
      a5   == a2 + (IF ver >= 2 THEN TailSize(Os2V2K) ELSE 0)
      tails == [version |-> ver,
                v0 |-> IF has0 THEN TailDec(Os2V0K, bs, a0) ELSE <<>>,
                v1 |-> IF ver >= 1 THEN TailDec(Os2V1K, bs, a1) ELSE <<>>,
                v2 |-> IF ver >= 2 THEN TailDec(Os2V2K, bs, a2) ELSE <<>>,
                v5 |-> IF ver >= 5 THEN TailDec(Os2V5K, bs, a5) ELSE <<>>]
  IN [n \in (DOMAIN base) \cup (DOMAIN tails) |->
        IF n \in DOMAIN tails THEN tails[n] ELSE IF n = "fssel" THEN base[n] % 1024 ELSE base[n]]
Os2Size(v) == 2 + SizeL(Os2BaseL) + (IF v.v0 # <<>> THEN 10 ELSE 0) + (IF v.v1 # <<>> THEN 8 ELSE 0)
              + (IF v.v2 # <<>> THEN 10 ELSE 0) + (IF v.v5 # <<>> THEN 4 ELSE 0)

\* ---- post: [<header fields>, idx: u16*, names: bytes*]  (idx, names only for 2.0) ----
PostV2 == 131072
PostNamesNeeded(idx) == LET m == MaxSeq(idx) IN IF m + 1 > 258 THEN m + 1 - 258 ELSE 0
PostInFormat(v) ==
  /\ FitsL(PostL, v) /\ v.version \in {65536, 131072, 151552, 196608}
  /\ (v.version # PostV2 => v.idx = <<>> /\ v.names = <<>>)
  /\ \A i \in 1 .. Len(v.idx) : IsU16(v.idx[i])
  /\ Len(v.names) = PostNamesNeeded(v.idx)
  /\ \A i \in 1 .. Len(v.names) : IsBytes(v.names[i])
PostRefuse(v) == Len(v.idx) > 65535 \/ \E i \in 1 .. Len(v.names) : Len(v.names[i]) > 255
EncPost(v) ==
  EncL(PostL, v) \o
  (IF v.version = PostV2
   THEN U16(Len(v.idx)) \o CatMap(v.idx, U16) \o CatMap(v.names, LAMBDA s : U8(Len(s)) \o s)
   ELSE <<>>)
RECURSIVE PascalStrings(_, _, _)
PascalStrings(bs, at, n) ==
  IF n = 0 THEN <<>> ELSE <<RB(bs, at + 1, bs[at + 1])>> \o PascalStrings(bs, at + 1 + bs[at + 1], n - 1)
DecPost(bs) ==
  LET h == DecL(PostL, bs) IN
  IF h.version = PostV2
  THEN LET n == RU16(bs, 32)
           idx == [i \in 1 .. n |-> RU16(bs, 34 + 2 * (i - 1))] IN
       [k \in (DOMAIN h) \cup {"idx", "names"} |->
          IF k = "idx" THEN idx
          ELSE IF k = "names" THEN PascalStrings(bs, 34 + 2 * n, PostNamesNeeded(idx)) ELSE h[k]]
  ELSE [k \in (DOMAIN h) \cup {"idx", "names"} |-> IF k \in {"idx", "names"} THEN <<>> ELSE h[k]]

\* ---- name (owned form): [recs: [p, e, l, n, s]*, tags: bytes*] --------------------
\* format 1 iff there are language tags; strings are stored back to back in record order,
\* then the tag strings; all offsets are relative to the storage area
NameHdrSize(v) == 6 + 12 * Len(v.recs) + (IF v.tags # <<>> THEN 2 + 4 * Len(v.tags) ELSE 0)
NameStrs(v) == MapS(v.recs, LAMBDA r : r.s) \o v.tags
RECURSIVE PrefR(_, _, _, _)
PrefR(q, lo, hi, base) ==      \* base + sum of q[lo .. i-1], for i in lo .. hi
  IF lo > hi THEN <<>> ELSE IF lo = hi THEN <<base>>
  ELSE LET m == (lo + hi) \div 2 IN PrefR(q, lo, m, base) \o PrefR(q, m + 1, hi, base + SumR(q, lo, m))
Pref(q, i, acc) == PrefR(q, i, Len(q), acc)
NameOffs(v) == Pref(MapS(NameStrs(v), Len), 1, 0)          \* offset of every string in the storage area
NameInFormat(v) ==
  /\ \A i \in 1 .. Len(v.recs) : LET r == v.recs[i] IN
        IsU16(r.p) /\ IsU16(r.e) /\ IsU16(r.l) /\ IsU16(r.n) /\ IsBytes(r.s)
  /\ \A i \in 1 .. Len(v.tags) : IsBytes(v.tags[i])
NameRefuse(v) ==
  \/ Len(v.recs) > 65535 \/ Len(v.tags) > 65535
  \/ NameHdrSize(v) > 65535
  \/ LET strs == NameStrs(v)  offs == NameOffs(v) IN
     \E i \in 1 .. Len(strs) : Len(strs[i]) > 65535 \/ offs[i] > 65535
EncName(v) ==
  LET strs == NameStrs(v)  nr == Len(v.recs)  offs == NameOffs(v) IN
  U16(IF v.tags = <<>> THEN 0 ELSE 1) \o U16(nr) \o U16(NameHdrSize(v))
  \o Cat([i \in 1 .. nr |-> LET r == v.recs[i] IN
            U16(r.p) \o U16(r.e) \o U16(r.l) \o U16(r.n) \o U16(Len(r.s)) \o U16(offs[i])])
  \o (IF v.tags = <<>> THEN <<>>
      ELSE U16(Len(v.tags)) \o Cat([i \in 1 .. Len(v.tags) |-> U16(Len(v.tags[i])) \o U16(offs[nr + i])]))
  \o Cat(strs)
DecName(bs) ==
  LET fmt == RU16(bs, 0)  nr == RU16(bs, 2)  so == RU16(bs, 4)
      nt  == IF fmt >= 1 THEN RU16(bs, 6 + 12 * nr) ELSE 0 IN
  [recs |-> [i \in 1 .. nr |-> LET a == 6 + 12 * (i - 1) IN
               [p |-> RU16(bs, a), e |-> RU16(bs, a + 2), l |-> RU16(bs, a + 4), n |-> RU16(bs, a + 6),
                s |-> RB(bs, so + RU16(bs, a + 10), RU16(bs, a + 8))]],
   tags |-> [i \in 1 .. nt |-> LET a == 8 + 12 * nr + 4 * (i - 1) IN RB(bs, so + RU16(bs, a + 2), RU16(bs, a))]]

\* ---- cmap subtables -----------------------------------------------------------------
\* [fmt 0, lang, gids (256 u8)]   [fmt 4, lang, ends, starts, deltas, ros, gids]
\* [fmt 6, lang, first, gids]     [fmt 10, lang, start, gids]   [fmt 12, lang, groups <<s, e, g>>*]
\* 32-bit fields of formats 10 / 12 are integers < 2^31 here.
RECURSIVE FloorLog2(_)
FloorLog2(n) == IF n <= 1 THEN 0 ELSE 1 + FloorLog2(n \div 2)
RECURSIVE Pow2i(_)
Pow2i(k) == IF k = 0 THEN 1 ELSE 2 * Pow2i(k - 1)
CmapLen(v) ==
  CASE v.fmt = 0  -> 6 + Len(v.gids)
    [] v.fmt = 4  -> 16 + 8 * Len(v.starts) + 2 * Len(v.gids)
    [] v.fmt = 6  -> 10 + 2 * Len(v.gids)
    [] v.fmt = 10 -> 20 + 2 * Len(v.gids)
    [] v.fmt = 12 -> 16 + 12 * Len(v.groups)
CmapInFormat(v) ==
  CASE v.fmt = 0  -> IsU16(v.lang) /\ Len(v.gids) = 256 /\ IsBytes(v.gids)
    [] v.fmt = 4  -> /\ IsU16(v.lang) /\ Len(v.starts) >= 1
                     /\ Len(v.ends) = Len(v.starts) /\ Len(v.deltas) = Len(v.starts) /\ Len(v.ros) = Len(v.starts)
                     /\ \A i \in 1 .. Len(v.starts) : IsU16(v.starts[i]) /\ IsU16(v.ends[i]) /\ IsI16(v.deltas[i]) /\ IsU16(v.ros[i])
                     /\ \A i \in 1 .. Len(v.gids) : IsU16(v.gids[i])
    [] v.fmt = 6  -> IsU16(v.lang) /\ IsU16(v.first) /\ \A i \in 1 .. Len(v.gids) : IsU16(v.gids[i])
    [] v.fmt = 10 -> v.lang >= 0 /\ v.start >= 0 /\ \A i \in 1 .. Len(v.gids) : IsU16(v.gids[i])
    [] v.fmt = 12 -> v.lang >= 0 /\ \A i \in 1 .. Len(v.groups) : \A j \in 1 .. 3 : v.groups[i][j] >= 0
\* formats 0, 4, 6 keep their length (and 4 its doubled segment count, 6 its entry count) in 16 bits
CmapRefuse(v) == v.fmt \in {0, 4, 6} /\ CmapLen(v) > 65535
EncCmapSub(v) ==
  CASE v.fmt = 0  -> U16(0) \o U16(CmapLen(v)) \o U16(v.lang) \o v.gids
    [] v.fmt = 4  -> LET n == Len(v.starts)  sr == 2 * Pow2i(FloorLog2(n)) IN
                     U16(4) \o U16(CmapLen(v)) \o U16(v.lang) \o U16(2 * n) \o U16(sr) \o U16(FloorLog2(n))
                     \o U16(2 * n - sr) \o CatMap(v.ends, U16) \o U16(0) \o CatMap(v.starts, U16)
                     \o CatMap(v.deltas, I16) \o CatMap(v.ros, U16) \o CatMap(v.gids, U16)
    [] v.fmt = 6  -> U16(6) \o U16(CmapLen(v)) \o U16(v.lang) \o U16(v.first) \o U16(Len(v.gids)) \o CatMap(v.gids, U16)
    [] v.fmt = 10 -> U16(10) \o U16(0) \o U32(CmapLen(v)) \o U32(v.lang) \o U32(v.start) \o U32(Len(v.gids))
                     \o CatMap(v.gids, U16)
    [] v.fmt = 12 -> U16(12) \o U16(0) \o U32(CmapLen(v)) \o U32(v.lang) \o U32(Len(v.groups))
                     \o CatMap(v.groups, LAMBDA g : U32(g[1]) \o U32(g[2]) \o U32(g[3]))
ArrU16(bs, at, n) == [i \in 1 .. n |-> RU16(bs, at + 2 * (i - 1))]
ArrI16(bs, at, n) == [i \in 1 .. n |-> RI16(bs, at + 2 * (i - 1))]
DecCmapSub(bs) ==
  LET fmt == RU16(bs, 0) IN
  CASE fmt = 0  -> [fmt |-> 0, lang |-> RU16(bs, 4), gids |-> RB(bs, 6, 256)]
    [] fmt = 4  -> LET len == RU16(bs, 2)  n == RU16(bs, 6) \div 2  a == 14 IN
                   [fmt |-> 4, lang |-> RU16(bs, 4),
                    ends |-> ArrU16(bs, a, n), starts |-> ArrU16(bs, a + 2 * n + 2, n),
                    deltas |-> ArrI16(bs, a + 4 * n + 2, n), ros |-> ArrU16(bs, a + 6 * n + 2, n),
                    gids |-> ArrU16(bs, a + 8 * n + 2, (len - (16 + 8 * n)) \div 2)]
    [] fmt = 6  -> [fmt |-> 6, lang |-> RU16(bs, 4), first |-> RU16(bs, 6), gids |-> ArrU16(bs, 10, RU16(bs, 8))]
    [] fmt = 10 -> [fmt |-> 10, lang |-> RU32(bs, 8), start |-> RU32(bs, 12), gids |-> ArrU16(bs, 20, RU32(bs, 16))]
    [] fmt = 12 -> [fmt |-> 12, lang |-> RU32(bs, 8),
                    groups |-> [i \in 1 .. RU32(bs, 12) |-> LET a == 16 + 12 * (i - 1) IN
                                  <<RU32(bs, a), RU32(bs, a + 4), RU32(bs, a + 8)>>]]

\* the cmap table: [recs: [p, e, sub]*]; subtables follow the records in record order
CmapTblSubOff(v, i) == 4 + 8 * Len(v.recs) + SumSeq([j \in 1 .. (i - 1) |-> CmapLen(v.recs[j].sub)])
CmapTblRefuse(v) == Len(v.recs) > 65535 \/ \E i \in 1 .. Len(v.recs) : CmapRefuse(v.recs[i].sub)
EncCmapTbl(v) ==
  U16(0) \o U16(Len(v.recs))
  \o Cat([i \in 1 .. Len(v.recs) |-> U16(v.recs[i].p) \o U16(v.recs[i].e) \o U32(CmapTblSubOff(v, i))])
  \o Cat([i \in 1 .. Len(v.recs) |-> EncCmapSub(v.recs[i].sub)])
DecCmapTbl(bs) ==
  [recs |-> [i \in 1 .. RU16(bs, 2) |-> LET a == 4 + 8 * (i - 1)  o == RU32(bs, a + 4) IN
               [p |-> RU16(bs, a), e |-> RU16(bs, a + 2), sub |-> DecCmapSub(RB(bs, o, Len(bs) - o))]]]

\* ---- glyf glyph records ---------------------------------------------------------------
\* simple:    [t "s", bbox <<xmin, ymin, xmax, ymax>>, ends, instr, pts <<flags, x, y>>*]
\* composite: [t "c", bbox, comps [flags, gid, a1, a2, sc]*, instr]
\* empty:     [t "e"]  (no bytes)
\* Dev_FlagEncoding: of a point's flag byte only ON_CURVE (bit 0) is content; the other bits say
\* how the coordinates were packed in the bytes the glyph came from.  The writer picks its own
\* packing (all words, no repeats), any packing that decodes to the same points is legitimate.
NormGlyph(v) ==
  IF v.t = "s" THEN [v EXCEPT !.pts = MapS(@, LAMBDA p : <<p[1] % 2, p[2], p[3]>>)] ELSE v
LastOr(q, d) == IF q = <<>> THEN d ELSE q[Len(q)]
CFlagDefined == 8175       \* 0x1FEF
HasBit(f, b) == (f \div b) % 2 = 1
CompScaleLen(f) == IF HasBit(f, 8) THEN 1 ELSE IF HasBit(f, 64) THEN 2 ELSE IF HasBit(f, 128) THEN 4 ELSE 0
CompArgOk(f, a) ==
  IF HasBit(f, 1) THEN (IF HasBit(f, 2) THEN IsI16(a) ELSE IsU16(a))
  ELSE (IF HasBit(f, 2) THEN IsI8(a) ELSE IsU8(a))
GlyphInFormat(v) ==
  CASE v.t = "e" -> TRUE
    [] v.t = "s" ->
         /\ \A i \in 1 .. 4 : IsI16(v.bbox[i])
         /\ \A i \in 1 .. Len(v.ends) : IsU16(v.ends[i])
         /\ Len(v.pts) = (IF v.ends = <<>> THEN 0 ELSE LastOr(v.ends, 0) + 1)
         /\ IsBytes(v.instr)
         /\ \A i \in 1 .. Len(v.pts) : v.pts[i][1] \in 0 .. 63 /\ IsI16(v.pts[i][2]) /\ IsI16(v.pts[i][3])
         \* coordinates are stored as 16-bit differences
         /\ \A i \in 1 .. Len(v.pts) : \A c \in {2, 3} :
               IsI16(v.pts[i][c] - (IF i = 1 THEN 0 ELSE v.pts[i - 1][c]))
    [] v.t = "c" ->
         /\ \A i \in 1 .. 4 : IsI16(v.bbox[i])
         /\ Len(v.comps) >= 1 /\ IsBytes(v.instr)
         /\ \A i \in 1 .. Len(v.comps) : LET c == v.comps[i] IN
               /\ c.flags \in 0 .. 65535 /\ (c.flags \div 16) % 2 = 0 /\ c.flags < 8192
               /\ HasBit(c.flags, 32) = (i < Len(v.comps))          \* MORE_COMPONENTS
               /\ IsU16(c.gid) /\ CompArgOk(c.flags, c.a1) /\ CompArgOk(c.flags, c.a2)
               /\ Len(c.sc) = CompScaleLen(c.flags) /\ \A j \in 1 .. Len(c.sc) : IsI16(c.sc[j])
         /\ (v.instr # <<>> => \E i \in 1 .. Len(v.comps) : HasBit(v.comps[i].flags, 256))
\* numberOfContours is a signed 16-bit count, instructionLength an unsigned one
GlyphRefuse(v) ==
  CASE v.t = "e" -> FALSE
    [] v.t = "s" -> Len(v.ends) > 32767 \/ Len(v.instr) > 65535
    [] v.t = "c" -> Len(v.instr) > 65535
EncArg(f, a) == IF HasBit(f, 1) THEN I16(a) ELSE I8(a)        \* two's complement image, signed or not
EncGlyph(v) ==
  CASE v.t = "e" -> <<>>
    [] v.t = "s" ->
         I16(Len(v.ends)) \o CatMap(v.bbox, I16) \o CatMap(v.ends, U16) \o U16(Len(v.instr)) \o v.instr
         \o CatMap(v.pts, LAMBDA p : U8(p[1] % 2))
         \o Cat([i \in 1 .. Len(v.pts) |-> I16(v.pts[i][2] - (IF i = 1 THEN 0 ELSE v.pts[i - 1][2]))])
         \o Cat([i \in 1 .. Len(v.pts) |-> I16(v.pts[i][3] - (IF i = 1 THEN 0 ELSE v.pts[i - 1][3]))])
    [] v.t = "c" ->
         I16(-1) \o CatMap(v.bbox, I16)
         \o CatMap(v.comps, LAMBDA c : U16(c.flags) \o U16(c.gid) \o EncArg(c.flags, c.a1) \o EncArg(c.flags, c.a2)
                                        \o CatMap(c.sc, I16))
         \o (IF \E i \in 1 .. Len(v.comps) : HasBit(v.comps[i].flags, 256)
             THEN U16(Len(v.instr)) \o v.instr ELSE <<>>)

\* decoder of the writer's own packing (all flags without SHORT / SAME / REPEAT bits) and of
\* composites; enough for Dec(Enc(v)) and for judging allsorts' output.  The general unpacking
\* machine of arbitrary glyf bytes is Glyf.tla (C16).
DecArg(f, bs, at) ==
  IF HasBit(f, 1) THEN (IF HasBit(f, 2) THEN RI16(bs, at) ELSE RU16(bs, at))
  ELSE (IF HasBit(f, 2) THEN RI8(bs, at) ELSE RU8(bs, at))
ArgSize(f) == IF HasBit(f, 1) THEN 2 ELSE 1
CompSize(f) == 4 + 2 * ArgSize(f) + 2 * CompScaleLen(f)
RECURSIVE DecComps(_, _)
DecComps(bs, at) ==
  LET f == (RU16(bs, at) % 8192) - (IF HasBit(RU16(bs, at), 16) THEN 16 ELSE 0)   \* undefined bits dropped
      fr == RU16(bs, at)
      c == [flags |-> f, gid |-> RU16(bs, at + 2), a1 |-> DecArg(fr, bs, at + 4),
            a2 |-> DecArg(fr, bs, at + 4 + ArgSize(fr)),
            sc |-> [j \in 1 .. CompScaleLen(fr) |-> RI16(bs, at + 4 + 2 * ArgSize(fr) + 2 * (j - 1))]] IN
  IF HasBit(fr, 32) THEN <<c>> \o DecComps(bs, at + CompSize(fr)) ELSE <<c>>
CompsSize(cs) == SumSeq([i \in 1 .. Len(cs) |-> CompSize(cs[i].flags)])
RECURSIVE AccSeq(_, _, _)
AccSeq(bs, at, n) ==     \* running sums of n 16-bit differences
  [i \in 1 .. n |-> SumSeq([j \in 1 .. i |-> RI16(bs, at + 2 * (j - 1))])]
DecGlyph(bs) ==
  IF bs = <<>> THEN [t |-> "e"]
  ELSE LET nc == RI16(bs, 0)  bbox == [i \in 1 .. 4 |-> RI16(bs, 2 * i)] IN
  IF nc >= 0
  THEN LET ends == ArrU16(bs, 10, nc)
           il == RU16(bs, 10 + 2 * nc)
           np == IF nc = 0 THEN 0 ELSE ends[nc] + 1
           a == 12 + 2 * nc + il
           xs == AccSeq(bs, a + np, np)  ys == AccSeq(bs, a + 3 * np, np) IN
       [t |-> "s", bbox |-> bbox, ends |-> ends, instr |-> RB(bs, 12 + 2 * nc, il),
        pts |-> [i \in 1 .. np |-> <<bs[a + i] % 2, xs[i], ys[i]>>]]
  ELSE LET cs == DecComps(bs, 10)
           a == 10 + CompsSize(cs)
           hi == \E i \in 1 .. Len(cs) : HasBit(cs[i].flags, 256) IN
       [t |-> "c", bbox |-> bbox, comps |-> cs, instr |-> IF hi THEN RB(bs, a + 2, RU16(bs, a)) ELSE <<>>]

\* ---- a simple glyph in the packing its flag bytes describe ------------------------------
\* (what other writers produce and every reader must accept; kind "glyphp": these bytes are parsed,
\*  written and parsed again).  Per point: X_SHORT (2) / Y_SHORT (4): the difference is one unsigned
\* byte whose sign is bit 16 / 32 (set = positive); without SHORT, bit 16 / 32 set means "same as the
\* previous point" (no bytes), clear means a 16-bit difference.  REPEAT (8): the flag byte is followed by
\* the number of further points carrying the same flag byte (here: the maximal run, at most 255).
GDelta(v, i, c) == v.pts[i][c] - (IF i = 1 THEN 0 ELSE v.pts[i - 1][c])
CoordPackOk(f, d, sh, sm) ==
  IF HasBit(f, sh) THEN (IF HasBit(f, sm) THEN d \in 0 .. 255 ELSE d \in -255 .. 0)
  ELSE (HasBit(f, sm) => d = 0)
PackedOk(v) ==
  /\ v.t = "s"
  /\ \A i \in 1 .. Len(v.pts) : /\ CoordPackOk(v.pts[i][1], GDelta(v, i, 2), 2, 16)
                                /\ CoordPackOk(v.pts[i][1], GDelta(v, i, 3), 4, 32)
EncCoordPacked(f, d, sh, sm) ==
  IF HasBit(f, sh) THEN U8(IF d < 0 THEN -d ELSE d) ELSE IF HasBit(f, sm) THEN <<>> ELSE I16(d)
RECURSIVE RunLen(_, _, _)
RunLen(pts, i, n) ==
  IF i + n + 1 <= Len(pts) /\ n < 255 /\ pts[i + n + 1][1] = pts[i][1] THEN RunLen(pts, i, n + 1) ELSE n
RECURSIVE EncFlagsPacked(_, _)
EncFlagsPacked(pts, i) ==
  IF i > Len(pts) THEN <<>>
  ELSE IF HasBit(pts[i][1], 8) THEN LET r == RunLen(pts, i, 0) IN <<pts[i][1], r>> \o EncFlagsPacked(pts, i + r + 1)
  ELSE <<pts[i][1]>> \o EncFlagsPacked(pts, i + 1)
EncGlyphPacked(v) ==
  I16(Len(v.ends)) \o CatMap(v.bbox, I16) \o CatMap(v.ends, U16) \o U16(Len(v.instr)) \o v.instr
  \o EncFlagsPacked(v.pts, 1)
  \o Cat([i \in 1 .. Len(v.pts) |-> EncCoordPacked(v.pts[i][1], GDelta(v, i, 2), 2, 16)])
  \o Cat([i \in 1 .. Len(v.pts) |-> EncCoordPacked(v.pts[i][1], GDelta(v, i, 3), 4, 32)])
\* size of the packed form, field by field (an independent count the encoder must agree with)
PackedSize(v) ==
  12 + 2 * Len(v.ends) + Len(v.instr) + Len(EncFlagsPacked(v.pts, 1))
  + SumSeq([i \in 1 .. Len(v.pts) |-> LET f == v.pts[i][1] IN
              (IF HasBit(f, 2) THEN 1 ELSE IF HasBit(f, 16) THEN 0 ELSE 2)
              + (IF HasBit(f, 4) THEN 1 ELSE IF HasBit(f, 32) THEN 0 ELSE 2)])

---------------------------------------------------------------------------
\* ---- dispatch --------------------------------------------------------------------------
TInFormat(k, v) ==
  CASE k = "head" -> HeadInFormat(v) [] k = "hhea" -> FitsL(HheaL, v) [] k = "maxp" -> MaxpInFormat(v)
    [] k = "hmtx" -> HmtxInFormat(v) [] k = "cvt" -> \A i \in 1 .. Len(v.vals) : IsI16(v.vals[i])
    [] k = "loca" -> v.fmt \in {0, 1} /\ \A i \in 1 .. Len(v.offs) : v.offs[i] >= 0
    [] k = "os2" -> Os2InFormat(v) [] k = "post" -> PostInFormat(v) [] k = "name" -> NameInFormat(v)
    [] k = "cmapsub" -> CmapInFormat(v)
    [] k = "cmap" -> \A i \in 1 .. Len(v.recs) : IsU16(v.recs[i].p) /\ IsU16(v.recs[i].e) /\ CmapInFormat(v.recs[i].sub)
    [] k = "glyph" -> GlyphInFormat(v)
TRefuse(k, v) ==
  CASE k = "loca" -> LocaRefuse(v) [] k = "post" -> PostRefuse(v) [] k = "name" -> NameRefuse(v)
    [] k = "cmapsub" -> CmapRefuse(v) [] k = "cmap" -> CmapTblRefuse(v) [] k = "glyph" -> GlyphRefuse(v)
    [] OTHER -> FALSE
TEnc(k, v) ==
  CASE k = "head" -> EncHead(v) [] k = "hhea" -> EncHhea(v) [] k = "maxp" -> EncMaxp(v)
    [] k = "hmtx" -> EncHmtx(v) [] k = "cvt" -> EncCvt(v) [] k = "loca" -> EncLoca(v)
    [] k = "os2" -> EncOs2(v) [] k = "post" -> EncPost(v) [] k = "name" -> EncName(v)
    [] k = "cmapsub" -> EncCmapSub(v) [] k = "cmap" -> EncCmapTbl(v) [] k = "glyph" -> EncGlyph(v)
\* args of the readers that need them are derived from the value, as a caller would from
\* maxp / hhea / head / the table directory
TDec(k, bs, v) ==
  CASE k = "head" -> DecHead(bs) [] k = "hhea" -> DecHhea(bs) [] k = "maxp" -> DecMaxp(bs)
    [] k = "hmtx" -> DecHmtx(bs, Len(v.hm) + Len(v.lsb), Len(v.hm)) [] k = "cvt" -> DecCvt(bs)
    [] k = "loca" -> DecLoca(bs, v.fmt, Len(v.offs))
    [] k = "os2" -> DecOs2(bs, Len(bs)) [] k = "post" -> DecPost(bs) [] k = "name" -> DecName(bs)
    [] k = "cmapsub" -> DecCmapSub(bs) [] k = "cmap" -> DecCmapTbl(bs) [] k = "glyph" -> DecGlyph(bs)
TNormalise(k, v) == CASE k = "os2" -> NormOs2(v) [] k = "glyph" -> NormGlyph(v) [] OTHER -> v

TableKinds == {"head", "hhea", "maxp", "hmtx", "cvt", "loca", "os2", "post", "name", "cmapsub", "cmap", "glyph"}
=============================================================================
