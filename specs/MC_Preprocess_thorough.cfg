CONSTANTS
  LenOf <- LenThorough
SPECIFICATION Spec
INVARIANTS StepOK GlobalOK FinalOK Emit
CHECK_DEADLOCK FALSE
