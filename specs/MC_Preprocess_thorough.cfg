CONSTANTS
  MccPairs <- MCMccPairs
  LenOf <- LenThorough
SPECIFICATION Spec
INVARIANTS StepOK GlobalOK FinalOK Emit
CHECK_DEADLOCK FALSE
