---------------------------- MODULE MC_FontCache ----------------------------
(***************************************************************************)
(* Exploration of FontCache over a small universe of fonts and calls.  The *)
(* state of the model is the cache contents (with the font it belongs to); *)
(* `path` remembers one shortest history reaching it (hidden by VIEW).     *)
(* For every reachable cache state and every call:                         *)
(*   CodeKeys = FALSE : invariant AllPure - the intended keying is pure    *)
(*   CodeKeys = TRUE  : no purity invariant; one CASE per state lists, for *)
(*                      every call, whether the code's keying makes it     *)
(*                      impure after this history, and which slot is stale *)
(* StaleIffImpure (the model's explanation is exact) is checked in both.   *)
(*                                                                         *)
(* Six families of fonts, each with its own universe of calls:             *)
(*   intact  : the plain font; glyph mapping, shaping under scripts, masks *)
(*             and tuples, images and image filters, advances, names       *)
(*   dmg     : a font one (or several) of whose lazily loaded tables is    *)
(*             present but fails to load; table accessors, shaping,        *)
(*             vertical advances, image queries and filters                *)
(*   collide : a font whose GSUB and/or GPOS is larger than 64 KiB and     *)
(*             holds Coverage and ClassDef tables at positions congruent   *)
(*             mod 2^16 and mod 2^8 (and at equal offsets from their       *)
(*             sub-tables), and lookups at indices congruent mod 2^8, each *)
(*             activated by a feature of its own; shaping with every       *)
(*             single feature and with all of them, as a mask and as a     *)
(*             custom feature list, under the default language system and  *)
(*             under a second one that has only some of the features       *)
(*   img     : a font that carries two, three (or four) embedded-image     *)
(*             tables which all hold an image of the glyph asked for; the  *)
(*             histories are ALL sequences of up to MaxImgFilters image    *)
(*             filters (narrowing, widening, disjoint, the same again),    *)
(*             with or without an image query before the first and after   *)
(*             each filter: here the path is part of the VIEW, because     *)
(*             the model forgets the selection at every change of filter   *)
(*             and so merges histories an implementation may distinguish   *)
(*   fill    : one long history that fills a keyed cache far beyond any    *)
(*             plausible capacity - `keys`: shaping under hundreds of      *)
(*             distinct (script, language, feature mask) keys, every       *)
(*             second one through the fraction path that holds two indices *)
(*             of cached_lookups at once; `complex`: hundreds of languages *)
(*             under a script with a shaper of its own (one key per        *)
(*             shaping stage); `lookups`: hundreds of lookups, each with a *)
(*             Coverage of its own, in GSUB and GPOS.  A CASE is printed   *)
(*             at the checkpoints only; its fan probes old and new keys    *)
(*   scopes  : a ReadCache read through scopes derived by every route      *)
(*             (offset, offset_length, ReadCtxt::read_scope, nested)       *)
(*   var     : a variable font (two axes) whose GSUB has an `rvrn` feature *)
(*             per script - lookups that substitute, a lookup index the    *)
(*             lookup list does not have, a Lookup table of a type that    *)
(*             does not exist - next to frac / liga / calt and the Arabic forms,    *)
(*             whose GPOS value records carry VariationIndex tables and    *)
(*             whose GDEF has an item variation store with four regions.   *)
(*             Three fonts: that one, the same with a GDEF that fails to   *)
(*             load, the same with a FeatureVariations record in GSUB and  *)
(*             GPOS (exact model of which tuples select the alternative).  *)
(*             Shaping under every script with no tuple, the default       *)
(*             instance and several other tuples; calls that FAIL half-way *)
(*             are part of the histories.  ALL histories up to MaxDepthVar *)
(*             are generated (the path is part of the VIEW): the model     *)
(*             keeps nothing of a call but filled memo slots, so it merges *)
(*             histories an implementation with working state may tell     *)
(*             apart                                                       *)
(*   strike  : a font whose one bitmap table (EBLC/EBDT, or CBLC/CBDT) has  *)
(*             several strikes that differ in size, in bit depth and in    *)
(*             the glyphs they hold; lookup_glyph_image for every glyph    *)
(*             under two sizes and three bit depth limits, with changes of *)
(*             the image filter in between.  ALL histories up to the depth *)
(*             (path in the VIEW: the model keeps nothing of an image      *)
(*             lookup but the selected table)                              *)
(*   pairs   : a font whose GPOS has PairPos lookups with several          *)
(*             sub-tables whose Coverages overlap (format 1 exception      *)
(*             pairs before and after a format 2 class table for the same  *)
(*             first glyphs, a pair a later sub-table lists but an earlier *)
(*             one shadows); shaping texts of two to four glyphs with and  *)
(*             without kerning.  ALL histories up to the depth (path in    *)
(*             the VIEW: nothing of an application outlives it)            *)
(* The layout of the collide and fill fonts is part of the CASE: the       *)
(* harness builds the bytes from it.                                       *)
(***************************************************************************)
EXTENDS FontCache, Json, SequencesExt

CONSTANTS MaxDepth,        \* depth of histories on the intact font
          MaxDepthDmg,     \* ... on a font with a damaged table
          MaxDepthCollide, \* ... on a font with colliding cache keys
          Families,        \* which families are explored
          ImgCounts,       \* img: how many image tables the fonts have (a set of numbers)
          ImgFilterMode,   \* img: "own" = filters are the subsets of the font's tables, "all" = all 16 filters
          MaxImgFilters,   \* img: number of set_embedded_image_filter calls in a history
          FillKeys,        \* fill: length of the history of distinct (script, language, mask) keys
          FillLangs,       \* fill: ... of distinct languages under a complex script
          FillLookups,     \* fill: ... of distinct lookups (= number of lookups of the font's GSUB and GPOS)
          MaxDepthScopes,
          MaxDepthVar,     \* var: length of the histories
          VarTuples,       \* var: the variation tuples (besides "none")
          MaxDepthStrike,  \* strike: length of the histories
          MaxDepthPairs    \* pairs: length of the histories

VARIABLES st, path
vars == <<st, path>>

Chars  == {"A", "DC", "EM"}
Pres   == {"Req", "NotReq"}
VSs    == {"none", "VS15", "VS16"}
Tuples == {"none", "tA", "tB"}
Filters == {DefaultFilter, 0, EBDT}
TextDC == <<[ch |-> "A", vs |-> "none"], [ch |-> "DC", vs |-> "none"]>>
TextVS == <<[ch |-> "DC", vs |-> "VS16"], [ch |-> "A", vs |-> "none"]>>

\* ---- fonts ----------------------------------------------------------------
Kinds       == {"gsub", "gpos", "gdef", "morx", "kern", "vhea", "vmtx", "images"}
TableKinds  == {"gsub", "gpos", "gdef", "morx", "kern", "vhea"}     \* kinds with a public accessor
\* the image table of a damaged font is one the default filter selects
DmgFont(ks) == [fam |-> "dmg", damaged |-> ks, lookups |-> <<>>, imgs |-> DefaultFilter, sub |-> ""]
DmgFonts    == {DmgFont(<<k>>) : k \in Kinds}
               \cup {DmgFont(<<"gsub", "gpos">>), DmgFont(<<"gsub", "gpos", "gdef", "morx", "kern">>),
                     DmgFont(<<"vhea", "vmtx">>)}

\* Layout of one layout table of a collide font.  Sub-tables of `single` lookups keep their Coverage
\* 8 bytes in; `class` lookups (GSUB: ContextSubst format 2 naming lookup 6; GPOS: PairPos format 2)
\* keep their Coverage 32 and their ClassDef 64 bytes in.  Positions: X, X + 256, X + 65536.
\* the features of the second language system ("l2"; "l1" is the default one, which has them all)
L2Feats == {"dlig", "rlig", "smcp"}
Obj(kind, sub, rel, content) == [kind |-> kind, pos |-> sub + rel, rel |-> rel, content |-> content]
SingleL(tbl, idx, feat, sub, content, l2) ==
  [tbl |-> tbl, idx |-> idx, feat |-> feat, typ |-> "single", ext |-> sub >= 65536, sub |-> sub, l2 |-> l2,
   objs |-> <<Obj("cov", sub, 8, content)>>, nested |-> <<>>]
Single(tbl, idx, feat, sub, content) == SingleL(tbl, idx, feat, sub, content, feat \in L2Feats)
Class(tbl, idx, feat, sub, content) ==
  [tbl |-> tbl, idx |-> idx, feat |-> feat, typ |-> "class", ext |-> sub >= 65536, sub |-> sub, l2 |-> feat \in L2Feats,
   objs |-> <<Obj("cov", sub, 32, IF tbl = "GSUB" THEN "EFG" ELSE "X"), Obj("cls", sub, 64, content)>>,
   nested |-> IF tbl = "GSUB" THEN <<6>> ELSE <<>>]
Layout(tbl) ==
  <<Single(tbl, 0, "liga", 2560, "A"),             \* Coverage at 2568
    Single(tbl, 1, "dlig", 2560 + 65536, "B"),     \* ... + 65536 : same u16, same u8
    Single(tbl, 2, "hlig", 2560 + 256, "C"),       \* ... + 256   : same u8
    Class(tbl, 3, "calt", 3072, "E"),              \* ClassDef at 3136
    Class(tbl, 4, "rlig", 3072 + 65536, "F"),      \* ... + 65536
    Class(tbl, 5, "clig", 3072 + 256, "G"),        \* ... + 256
    Single(tbl, 6, "none", 3712, "EFG"),           \* the lookup the class rules of GSUB name
    Single(tbl, 256, "smcp", 3840 + 16, "I")>>     \* lookup index 256: same u8 as lookup 0
CollideFont(tbls) == [fam |-> "collide", damaged |-> <<>>,
                      lookups |-> (IF "GSUB" \in tbls THEN Layout("GSUB") ELSE <<>>)
                                  \o (IF "GPOS" \in tbls THEN Layout("GPOS") ELSE <<>>),
                      imgs |-> 0, sub |-> ""]
CollideFonts == {CollideFont({"GSUB"}), CollideFont({"GPOS"}), CollideFont({"GSUB", "GPOS"})}

\* fonts with several image tables
PopCount(x) == (x % 2) + ((x \div 2) % 2) + ((x \div 4) % 2) + ((x \div 8) % 2)
ImgFont(m)  == [fam |-> "img", damaged |-> <<>>, lookups |-> <<>>, imgs |-> m, sub |-> ""]
ImgFonts    == {ImgFont(m) : m \in {x \in 1 .. 15 : PopCount(x) \in ImgCounts}}

\* fonts of the fill family
\* keys: one single substitution per feature (the first three are the ones gsub_apply_default / build_lookups_default
\* treat specially: frac = two lists, vert = VRT2_OR_VERT fallback, rvrn = taken out of the mask); the second
\* language system has every second feature only (not frac), so the supported-feature masks differ
KeyFeats == <<"frac", "vert", "rvrn", "liga", "ccmp", "calt", "clig", "rlig", "locl", "smcp", "onum", "lnum", "tnum", "zero">>
KeyContent == <<"12", "A", "B", "C", "D", "E", "F", "G", "H", "I", "J", "K", "L", "M">>
KeysLayout == [j \in 1 .. Len(KeyFeats) |-> SingleL("GSUB", j - 1, KeyFeats[j], 2560 + 32 * (j - 1), KeyContent[j], j % 2 = 0)]
KeyL2Feats == {KeyFeats[j] : j \in {k \in 1 .. Len(KeyFeats) : k % 2 = 0}}
\* lookups: lookup i - 1 belongs to the feature Tag(i) and covers one upper-case and one lower-case letter: the
\* pair is different for every i < 676
Digit == <<"0", "1", "2", "3", "4", "5", "6", "7", "8", "9">>
Tag(i) == "L" \o Digit[((i \div 100) % 10) + 1] \o Digit[((i \div 10) % 10) + 1] \o Digit[(i % 10) + 1]
Upper == <<"A", "B", "C", "D", "E", "F", "G", "H", "I", "J", "K", "L", "M", "N", "O", "P", "Q", "R", "S", "T", "U", "V", "W", "X", "Y", "Z">>
Lower == <<"a", "b", "c", "d", "e", "f", "g", "h", "i", "j", "k", "l", "m", "n", "o", "p", "q", "r", "s", "t", "u", "v", "w", "x", "y", "z">>
PairOf(i) == Upper[(i % 26) + 1] \o Lower[((i \div 26) % 26) + 1]
ManyLayout(tbl) == [i \in 1 .. FillLookups |-> SingleL(tbl, i - 1, Tag(i), 20480 + 32 * (i - 1), PairOf(i), FALSE)]
FillFont(kind) == [fam |-> "fill", damaged |-> <<>>,
                   lookups |-> CASE kind = "keys"    -> KeysLayout
                                 [] kind = "lookups" -> ManyLayout("GSUB") \o ManyLayout("GPOS")
                                 [] OTHER            -> <<>>,
                   imgs |-> 0, sub |-> kind]
FillFonts == {FillFont("keys"), FillFont("complex"), FillFont("lookups")}

ScopesFont == [fam |-> "scopes", damaged |-> <<>>, lookups |-> <<>>, imgs |-> 0, sub |-> ""]

\* the variable font.  Scripts: s1 latn, s2 cyrl, s3 grek, s5 hebr (default shaper), s4 arab (Arabic shaper).  In a Coverage
\* content "^x" is the glyph a single substitution turns x into.  GSUB single = SingleSubst, GPOS vsingle = SinglePos
\* whose xAdvance has a VariationIndex, vplace = SinglePos whose x and y placement have one; `regs` = the regions of
\* the GDEF item variation store their delta sets are non-zero for.
VL(tbl, idx, feat, typ, content, scr, regs) ==
  LET sub == 2560 + (64 * idx) IN
  [tbl |-> tbl, idx |-> idx, feat |-> feat, typ |-> typ, ext |-> FALSE, sub |-> sub, l2 |-> FALSE,
   objs |-> IF typ \in {"missing", "badtype", "badcov"} THEN <<>> ELSE <<Obj("cov", sub, 32, content)>>, nested |-> <<>>, scr |-> scr, regs |-> regs]
AllScr == <<"s1", "s2", "s3", "s4", "s5">>
VarLayout ==
  <<VL("GSUB", 0, "rvrn", "single", "12B", <<"s1", "s2">>, <<>>),      \* latn, cyrl: digits and B get their variants
    VL("GSUB", 1, "frac", "single", "^1^2", <<"s1">>, <<>>),           \* the variants of the digits become fraction forms
    VL("GSUB", 2, "liga", "single", "A", <<"s1", "s2", "s3", "s5">>, <<>>),  \* s5 (hebr) has no rvrn at all
    VL("GSUB", 3, "rvrn", "single", "p", <<"s4">>, <<>>),              \* arab: beh gets its variant (p q r stand for beh lam alef)
    VL("GSUB", 4, "init", "single", "^pq", <<"s4">>, <<>>),
    VL("GSUB", 5, "fina", "single", "^pqr", <<"s4">>, <<>>),
    VL("GSUB", 6, "medi", "single", "^pq", <<"s4">>, <<>>),
    VL("GSUB", 7, "calt", "badtype", "", <<"s3">>, <<>>),              \* grek: the main stage fails when calt is asked for
    VL("GSUB", 8, "locl", "single", "D", <<"s1", "s2">>, <<>>),
    VL("GSUB", 9, "rvrn", "badtype", "", <<"s3">>, <<>>),              \* grek: the rvrn stage fails at once
    VL("GSUB", 10, "locl", "badcov", "", <<"s3">>, <<>>),             \* grek: a sub-table that does not parse is skipped
    VL("GSUB", 20, "rvrn", "missing", "", <<"s2">>, <<>>),            \* cyrl: the rvrn stage fails after lookup 0 was applied
    VL("GPOS", 0, "kern", "vsingle", "AV", AllScr, <<0>>),
    VL("GPOS", 1, "dist", "vplace", "WX", AllScr, <<1, 2, 3>>),
    VL("GPOS", 2, "kern", "single", "C", AllScr, <<>>)>>
VarFont == [fam |-> "var", damaged |-> <<>>, lookups |-> VarLayout, imgs |-> 0, sub |-> "", fv |-> FALSE]
\* the same font whose GDEF (the item variation store) fails to load: no deltas, the error is part of every result
VarDmgFont == [VarFont EXCEPT !.damaged = <<"gdef">>, !.sub = "dmg"]
\* the same font with a FeatureVariations record in GSUB and GPOS (condition: wght >= 0.75, which of the tuples only
\* tA satisfies): liga, the rvrn of latn and arab and kern get other / more lookups under it
WithF(r, k, v) == [x \in DOMAIN r \cup {k} |-> IF x = k THEN v ELSE r[x]]
VarFvLayout ==
  [i \in DOMAIN VarLayout |-> IF VarLayout[i].tbl = "GSUB" /\ VarLayout[i].idx = 2 THEN WithF(VarLayout[i], "alt", "dflt") ELSE VarLayout[i]]
  \o <<WithF(VL("GSUB", 11, "liga", "single", "V", <<"s1", "s2", "s3", "s5">>, <<>>), "alt", "alt"),
       WithF(VL("GSUB", 13, "rvrn", "single", "X", <<"s1">>, <<>>), "alt", "alt"),
       WithF(VL("GSUB", 14, "rvrn", "single", "q", <<"s4">>, <<>>), "alt", "alt"),
       WithF(VL("GPOS", 3, "kern", "vsingle", "W", AllScr, <<1>>), "alt", "alt")>>
VarFvFont == [fam |-> "var", damaged |-> <<>>, lookups |-> VarFvLayout, imgs |-> 0, sub |-> "fv", fv |-> TRUE, fvt |-> <<"tA">>]
VarFonts == {VarFont, VarDmgFont, VarFvFont}

\* fonts with one bitmap table of four strikes: two sizes, three bit depths, overlapping glyph ranges.  Glyph 2 is
\* in a 1-bit and in two 8-bit strikes, glyph 3 only in 8-bit ones, glyph 4 in an 8-bit and a 32-bit strike of the same
\* size, glyph 5 only in the 32-bit one, glyph 6 in none
Strikes == <<[ppem |-> 12, depth |-> 1, first |-> 1, last |-> 2], [ppem |-> 12, depth |-> 8, first |-> 1, last |-> 3],
             [ppem |-> 24, depth |-> 8, first |-> 2, last |-> 4], [ppem |-> 24, depth |-> 32, first |-> 4, last |-> 5]>>
StrikeFont(kind) == [fam |-> "strike", damaged |-> <<>>, lookups |-> <<>>, imgs |-> kind, sub |-> "", strikes |-> Strikes]
StrikeFonts == {StrikeFont(EBDT), StrikeFont(CBDT)}

\* the font of the pairs family: two PairPos lookups.  Sub-table j of lookup i lies at 2560 + 1024 i + 160 (j - 1), its
\* Coverage 32 bytes in, the ClassDefs of a format 2 sub-table 64 and 96 bytes in.  kern: exception pairs (A C) (B D), then
\* the class table {A B} x {B C}, then a format 1 sub-table that lists (E F) and the pair (A D), which the class table
\* shadows (it handles every pair that starts with A).  dist: class table {C} x {A D}, then pairs (C A) (D A).
P1(at, cov, covs, pairs, val) == [fmt |-> 1, at |-> at, cov |-> covs, covstr |-> cov, pairs |-> pairs, cls2 |-> <<>>, cls2str |-> "", val |-> val]
P2(at, cov, covs, c2, c2s, val) == [fmt |-> 2, at |-> at, cov |-> covs, covstr |-> cov, pairs |-> <<>>, cls2 |-> c2s, cls2str |-> c2, val |-> val]
SubObjs(s) == IF s.fmt = 1 THEN <<Obj("cov", s.at, 32, s.covstr)>>
              ELSE <<Obj("cov", s.at, 32, s.covstr), Obj("cls", s.at, 64, s.covstr), Obj("cls", s.at, 96, s.cls2str)>>
RECURSIVE AllSubObjs(_)
AllSubObjs(subs) == IF subs = <<>> THEN <<>> ELSE SubObjs(subs[1]) \o AllSubObjs(Tail(subs))
PairL(idx, feat, subs) == [tbl |-> "GPOS", idx |-> idx, feat |-> feat, typ |-> "pairs", ext |-> FALSE, sub |-> subs[1].at, l2 |-> FALSE,
                           objs |-> AllSubObjs(subs), nested |-> <<>>, subs |-> subs]
PairsLayout ==
  <<PairL(0, "kern", <<P1(2560, "AB", <<"A", "B">>, << <<"A", "C">>, <<"B", "D">> >>, 100),
                       P2(2720, "AB", <<"A", "B">>, "BC", <<"B", "C">>, 30),
                       P1(2880, "AE", <<"A", "E">>, << <<"A", "D">>, <<"E", "F">> >>, 10)>>),
    PairL(1, "dist", <<P2(3584, "C", <<"C">>, "AD", <<"A", "D">>, 7),
                       P1(3744, "CD", <<"C", "D">>, << <<"C", "A">>, <<"D", "A">> >>, 3)>>)>>
PairsFont == [fam |-> "pairs", damaged |-> <<>>, lookups |-> PairsLayout, imgs |-> 0, sub |-> ""]

Fonts == (IF "intact" \in Families THEN {PlainFont} ELSE {})
         \cup (IF "dmg" \in Families THEN DmgFonts ELSE {})
         \cup (IF "collide" \in Families THEN CollideFonts ELSE {})
         \cup (IF "img" \in Families THEN ImgFonts ELSE {})
         \cup (IF "fill" \in Families THEN FillFonts ELSE {})
         \cup (IF "scopes" \in Families THEN {ScopesFont} ELSE {})
         \cup (IF "var" \in Families THEN VarFonts ELSE {})
         \cup (IF "strike" \in Families THEN StrikeFonts ELSE {})
         \cup (IF "pairs" \in Families THEN {PairsFont} ELSE {})

\* ---- calls ----------------------------------------------------------------
ShapeCallX(s, l, m, t, custom, feats, frac, m0) ==
  [op |-> "Shape", text |-> "w1", script |-> s, lang |-> l, mask |-> m, tuple |-> t, kern |-> TRUE,
   custom |-> custom, feats |-> feats, frac |-> frac, mask0 |-> m0]
ShapeCallL(s, l, m, t, custom, feats) == ShapeCallX(s, l, m, t, custom, feats, FALSE, m)
ShapeCall(s, m, t, custom, feats) == ShapeCallL(s, "l1", m, t, custom, feats)
TableCalls == {[op |-> "Table", k |-> k] : k \in TableKinds}
\* `feats` are the features in force (the mask / list intersected with the language system), `mfeats` the features
\* the caller names (the harness passes those)
WithM(call, mf) == [x \in DOMAIN call \cup {"mfeats"} |-> IF x = "mfeats" THEN mf ELSE call[x]]

IntactCalls ==
       {[op |-> "LookupGlyph", ch |-> c, pres |-> p, vs |-> v] : c \in Chars, p \in Pres, v \in VSs}
  \cup {[op |-> "MapGlyphs", text |-> t, script |-> "s1", pres |-> p] : t \in {TextDC, TextVS}, p \in Pres}
  \cup {ShapeCall(s, m, t, FALSE, <<>>) : s \in {"s1", "s2"}, m \in {"m1", "m2"}, t \in Tuples}
  \cup {[op |-> "Image", g |-> 1], [op |-> "HasImages"], [op |-> "HAdvance", g |-> 1], [op |-> "VAdvance", g |-> 1],
        [op |-> "GlyphNames", g |-> 1]}
  \cup {[op |-> "SetFilter", f |-> f] : f \in Filters}

DmgCalls ==
       TableCalls
  \cup {ShapeCall("s1", "m1", "none", FALSE, <<>>), ShapeCall("s1", "m1", "none", TRUE, <<>>)}
  \cup {[op |-> "Image", g |-> 1], [op |-> "HasImages"], [op |-> "VAdvance", g |-> 1],
        [op |-> "LookupGlyph", ch |-> "EM", pres |-> "Req", vs |-> "none"]}
  \cup {[op |-> "SetFilter", f |-> f] : f \in {DefaultFilter, 0}}

CollideFeats == {"liga", "dlig", "hlig", "calt", "rlig", "clig", "smcp"}
AllFeats     == <<"calt", "clig", "dlig", "hlig", "liga", "rlig", "smcp">>
CollideCalls ==
       {ShapeCall("s1", f, "none", cu, <<f>>) : f \in CollideFeats, cu \in BOOLEAN}
  \cup {ShapeCall("s1", "all", "none", cu, AllFeats) : cu \in BOOLEAN}
  \* under the second language system only its own features are in force
  \cup {WithM(ShapeCallL("s1", "l2", f, "none", cu, IF f \in L2Feats THEN <<f>> ELSE <<>>), <<f>>) : f \in {"liga", "dlig"}, cu \in BOOLEAN}
  \cup {WithM(ShapeCallL("s1", "l2", "all", "none", cu, SelectSeq(AllFeats, LAMBDA f : f \in L2Feats)), AllFeats) : cu \in BOOLEAN}

\* img: the image queries (all of them go through Font::embedded_images)
ImgQueries == <<[op |-> "LookupGlyph", ch |-> "EM", pres |-> "Req", vs |-> "none"],
                [op |-> "Image", g |-> 1], [op |-> "HasImages"]>>
ImgFiltersOf(font) == IF ImgFilterMode = "own" THEN {f \in 0 .. 15 : FilterWithin(f, font.imgs)} ELSE 0 .. 15
NumFilters(p) == Len(SelectSeq(p, LAMBDA c : c.op = "SetFilter"))

\* fill, keys: the calls come in blocks of 20; within block k = i \div 20 the scripts are 5 consecutive ones
\* (of 40, starting at 5k), the languages 4 consecutive ones (of 24, starting at 4k), the mask number is 8k + i % 8;
\* bit j - 1 of the mask number says whether KeyFeats[j] is in the mask.  So (script, language, mask) is different
\* for every i, (script, language) hardly ever repeats, every second call has frac in its mask (its partner key,
\* the mask without frac, is no other i's key) and vert / rvrn come and go.  Languages l2, l6, l10 .. are the
\* second language system of the font (the harness maps them to it), l0 is "no language", the others are
\* languages nobody has heard of (default language system); scripts from s3 on are unknown (DFLT).
KeyA(i) == (((i % 5) + (5 * (i \div 20))) % 40) + 1
KeyB(i) == (((i \div 5) % 4) + (4 * (i \div 20))) % 24
KeyC(i) == ((i \div 20) * 8) + (i % 8)
IsL2(b) == b % 4 = 2
Pow2(j) == <<1, 2, 4, 8, 16, 32, 64, 128, 256, 512, 1024, 2048, 4096, 8192>>[j + 1]
FeatsOfMask(c) == SelectSeq(KeyFeats, LAMBDA f : \E j \in 1 .. Len(KeyFeats) : KeyFeats[j] = f /\ Bit(c, Pow2(j - 1)))
KeyCall(i, custom) ==
  LET c     == KeyC(i)
      feats == IF IsL2(KeyB(i)) THEN SelectSeq(FeatsOfMask(c), LAMBDA f : f \in KeyL2Feats) ELSE FeatsOfMask(c)
      frac  == ~custom /\ (c % 2) = 1 /\ ~IsL2(KeyB(i)) IN
  WithM(ShapeCallX("s" \o ToString(KeyA(i)), "l" \o ToString(KeyB(i)), "m" \o ToString(c), "none", custom, feats,
                   frac, IF frac THEN "m" \o ToString(c - 1) ELSE "m" \o ToString(c)),
        FeatsOfMask(c))
\* fill, complex: the i-th call shapes under the font's own (complex) script with a language nobody has heard of
\* (number 4i + 3: never one of the numbers that stand for the second language system)
LangCall(s, b, m) == ShapeCallL(s, "l" \o ToString(b), m, "none", FALSE, <<>>)
LangNo(i) == (4 * i) + 3
\* fill, lookups: the i-th call applies the i-th lookup of GSUB and of GPOS through a custom feature list
TagCall(tags) == ShapeCallX("s1", "l1", IF Len(tags) = 1 THEN tags[1] ELSE "all", "none", TRUE, tags, FALSE,
                            IF Len(tags) = 1 THEN tags[1] ELSE "all")
AllTags == [i \in 1 .. FillLookups |-> Tag(i)]
\* the features of the 65 lookups around the n-th: one call that holds that many parsed lookups at once
Lo(n) == IF n > 41 THEN n - 40 ELSE 1
Hi(n) == IF n + 24 < FillLookups THEN n + 24 ELSE FillLookups
BlockTags(n) == [i \in 1 .. (Hi(n) - Lo(n) + 1) |-> Tag(Lo(n) + i - 1)]
FillMax(font) == CASE font.sub = "keys" -> FillKeys [] font.sub = "complex" -> FillLangs [] OTHER -> FillLookups
FillCall(font, i) == CASE font.sub = "keys"    -> KeyCall(i, FALSE)
                       [] font.sub = "complex" -> LangCall("s1", LangNo(i), "m1")
                       [] OTHER                -> TagCall(<<Tag(i)>>)
Checkpoints == {16, 31, 32, 33, 48, 62, 63, 64, 65, 66, 96, 100, 127, 128, 129, 130, 150, 200, 255, 256, 257, 258, 300,
                400, 511, 512, 513, 600, 800, 1000, 1023, 1024, 1025, 1500, 2000}
IsCheckpoint(font, n) == n \in Checkpoints \/ n = FillMax(font)
\* probes after n calls of the fill: keys / languages / lookups from the beginning and the end of the history and
\* ones the font object has not seen yet
FillFan(font, n) ==
  CASE font.sub = "keys" ->
         {KeyCall(i, FALSE) : i \in {1, 2, n - 1, n, n + 1, n + 2, n + 3, n + 4} \cap (1 .. n + 4)}
         \cup {KeyCall(i, TRUE) : i \in {1, n + 1}} \cup {[op |-> "Table", k |-> "gsub"]}
    [] font.sub = "complex" ->
         {LangCall(s, b, m) : s \in {"s1", "s2"}, b \in {1, LangNo(1), LangNo(n), LangNo(n + 1), LangNo(n + 2)}, m \in {"m1", "m2"}}
         \cup {[op |-> "MapGlyphs", text |-> TextDC, script |-> "s1", pres |-> "NotReq"]}
    [] OTHER ->
         {TagCall(<<Tag(i)>>) : i \in {1, 2, n, n + 1, FillLookups} \cap (1 .. FillLookups)}
         \cup {TagCall(BlockTags(n)), [op |-> "Table", k |-> "gsub"], [op |-> "Table", k |-> "gpos"]}
         \cup (IF n = FillLookups THEN {TagCall(AllTags)} ELSE {})

\* scopes: Coverage tables at three positions (two of them congruent mod 2^16 and 2^8) and a ClassDef, read through a
\* ReadCache by way of every route that derives a scope
ScopeObjs   == {Obj("cov", 0, 64, "A"), Obj("cov", 0, 320, "B"), Obj("cov", 0, 65600, "C"), Obj("cls", 0, 128, "E")}
ScopeRoutes == {"offset", "offset_length", "read_scope", "nested"}
ScopeCalls  == {[op |-> "ReadCached", route |-> r, obj |-> o] : r \in ScopeRoutes, o \in ScopeObjs}

\* var: shaping under a script with the features `named` (as a mask, or as a custom list), a tuple, kerning on/off.
\* The mask of the model is the EFFECTIVE one (the named features the script's language system has - that is the
\* cache key); the features in force also hold the GPOS features every run gets (dist, and kern when kerning is
\* asked for) and, under the Arabic shaper, the forms the shaper applies whatever the mask says.
ScriptHas(font, s, f) == \E L \in Range(font.lookups) : L.tbl = "GSUB" /\ L.feat = f /\ InScript(L, s)
VarCall(s, named, t, kern, custom) ==
  LET eff   == SelectSeq(named, LAMBDA f : ScriptHas(VarFont, s, f))    \* the three var fonts have the same features per script
      frac  == ~custom /\ s # "s4" /\ "frac" \in Range(eff)
      eff0  == SelectSeq(eff, LAMBDA f : f # "frac")
      feats == (IF s = "s4" /\ ~custom THEN <<"fina", "init", "medi">> ELSE named) \o (IF kern THEN <<"dist", "kern">> ELSE <<"dist">>) IN
  WithM([op |-> "Shape", text |-> "w1", script |-> s, lang |-> "l1", mask |-> ToString(eff), tuple |-> t, kern |-> kern,
         custom |-> custom, feats |-> feats, frac |-> frac, mask0 |-> IF frac THEN ToString(eff0) ELSE ToString(eff)], named)
N1 == <<"calt", "frac", "liga">>
N2 == <<"liga", "locl">>
VarPathCalls ==
       {VarCall(s, N1, t, TRUE, FALSE) : s \in {"s1", "s2", "s3", "s4"}, t \in {"none", "tA", "tB"}}
  \cup {VarCall("s5", N1, "tA", TRUE, FALSE)}
  \cup {VarCall("s1", N1, t, TRUE, FALSE) : t \in VarTuples \ {"tA", "tB"}}
  \cup {VarCall("s1", N2, "tA", TRUE, TRUE), VarCall("s2", N2, "tB", FALSE, FALSE), [op |-> "Table", k |-> "gdef"]}
VarFanCalls ==
       {VarCall(s, n, t, TRUE, FALSE) : s \in {"s1", "s2", "s3", "s4"}, n \in {N1, N2}, t \in {"none"} \cup VarTuples}
  \cup {VarCall("s5", N1, t, TRUE, FALSE) : t \in {"none", "tA"}}
  \cup {VarCall("s1", N1, t, FALSE, FALSE) : t \in {"none"} \cup VarTuples}
  \cup {VarCall(s, N2, "tA", TRUE, TRUE) : s \in {"s1", "s2", "s3", "s4"}}
  \cup {[op |-> "Table", k |-> "gdef"], [op |-> "Table", k |-> "gsub"]}

\* strike: lookup_glyph_image(glyph, size, bit depth limit); the filters: everything (EBDT is not in the default
\* filter) and the default one
ImageCall(g, p, d) == [op |-> "Image", g |-> g, ppem |-> p, depth |-> d]
StrikePathCalls == {ImageCall(g, p, d) : g \in {2, 3, 4, 5}, p \in {10, 30}, d \in {1, 8, 32}}
                   \cup {[op |-> "SetFilter", f |-> f] : f \in {15, DefaultFilter}}
StrikeFanCalls  == StrikePathCalls \cup {ImageCall(g, 24, d) : g \in {1, 6}, d \in {1, 32}} \cup {[op |-> "HasImages"]}

\* pairs: the text is given glyph by glyph (the model decides which sub-table handles each pair of neighbours)
PairCall(text, glyphs, kern) ==
  [op |-> "Shape", text |-> text, glyphs |-> glyphs, script |-> "s1", lang |-> "l1", mask |-> "m1", tuple |-> "none", kern |-> kern,
   custom |-> FALSE, feats |-> IF kern THEN <<"dist", "kern">> ELSE <<"dist">>, frac |-> FALSE, mask0 |-> "m1"]
PairTexts == {<<"AB", <<"A", "B">> >>, <<"AC", <<"A", "C">> >>, <<"AD", <<"A", "D">> >>, <<"EF", <<"E", "F">> >>,
              <<"BD", <<"B", "D">> >>, <<"CA", <<"C", "A">> >>, <<"DA", <<"D", "A">> >>, <<"CD", <<"C", "D">> >>,
              <<"ABAC", <<"A", "B", "A", "C">> >>, <<"EFAD", <<"E", "F", "A", "D">> >>, <<"DACA", <<"D", "A", "C", "A">> >>,
              <<"XY", <<"X", "Y">> >>}
PairPathCalls == {PairCall(t[1], t[2], TRUE) : t \in PairTexts} \cup {PairCall("DACA", <<"D", "A", "C", "A">>, FALSE)}
PairFanCalls  == PairPathCalls \cup {PairCall("AC", <<"A", "C">>, FALSE), [op |-> "Table", k |-> "gpos"]}

\* calls that extend a history / calls probed after it
PathCalls(font) == CASE font.fam = "intact"  -> IntactCalls
                     [] font.fam = "dmg"     -> DmgCalls
                     [] font.fam = "collide" -> CollideCalls
                     [] font.fam = "scopes"  -> ScopeCalls
FanCalls(font)  == CASE font.fam = "intact"  -> IntactCalls \cup TableCalls
                     [] font.fam = "dmg"     -> DmgCalls \cup {[op |-> "HAdvance", g |-> 1]}
                     [] font.fam = "collide" -> CollideCalls \cup {[op |-> "Table", k |-> "gsub"], [op |-> "Table", k |-> "gpos"]}
                     [] font.fam = "img"     -> Range(ImgQueries)
                     [] font.fam = "fill"    -> FillFan(font, Len(path))
                     [] font.fam = "scopes"  -> ScopeCalls
                     [] font.fam = "var"     -> VarFanCalls
                     [] font.fam = "strike"  -> StrikeFanCalls
                     [] font.fam = "pairs"   -> PairFanCalls
DepthOf(font)   == CASE font.fam = "intact"  -> MaxDepth
                     [] font.fam = "dmg"     -> MaxDepthDmg
                     [] font.fam = "collide" -> MaxDepthCollide
                     [] font.fam = "scopes"  -> MaxDepthScopes

Init == /\ \E f \in Fonts : st = InitStateOf(f)
        /\ path = <<>>
\* the families whose histories are the shortest ones to each cache state
NextShortest == /\ st.font.fam \in {"intact", "dmg", "collide", "scopes"}
                /\ Len(path) < DepthOf(st.font)
                /\ \E c \in PathCalls(st.font) : /\ st' = Step(st, c).st
                                                 /\ st' # st
                                                 /\ path' = Append(path, c)
\* img: every sequence  [query] (filter [query])*  with at most MaxImgFilters filters; the query that may
\* follow the k-th filter is ImgQueries[k + 1] (so each kind of query is used, without multiplying the histories)
NextImg == /\ st.font.fam = "img"
           /\ NumFilters(path) < MaxImgFilters
           /\ \/ \E f \in ImgFiltersOf(st.font) :
                   LET c == [op |-> "SetFilter", f |-> f] IN st' = Step(st, c).st /\ path' = Append(path, c)
              \/ /\ IF path = <<>> THEN TRUE ELSE path[Len(path)].op = "SetFilter"
                 /\ LET c == ImgQueries[(NumFilters(path) % 3) + 1] IN st' = Step(st, c).st /\ path' = Append(path, c)
\* fill: one long history
NextFill == /\ st.font.fam = "fill"
            /\ Len(path) < FillMax(st.font)
            /\ LET c == FillCall(st.font, Len(path) + 1) IN st' = Step(st, c).st /\ path' = Append(path, c)
\* var: every history up to the depth
\* (the font with FeatureVariations: at most 2 calls; the font whose GDEF fails to load: one call fewer)
VarDepth(font) == CASE font.sub = ""   -> MaxDepthVar
                    [] font.sub = "fv" -> IF MaxDepthVar > 2 THEN 2 ELSE MaxDepthVar
                    [] OTHER           -> MaxDepthVar - 1
NextVar == /\ st.font.fam = "var"
           /\ Len(path) < VarDepth(st.font)
           /\ \E c \in VarPathCalls : st' = Step(st, c).st /\ path' = Append(path, c)
\* strike, pairs: every history up to the depth
NextAll == /\ st.font.fam \in {"strike", "pairs"}
           /\ Len(path) < (IF st.font.fam = "strike" THEN MaxDepthStrike ELSE MaxDepthPairs)
           /\ \E c \in (IF st.font.fam = "strike" THEN StrikePathCalls ELSE PairPathCalls) :
                 st' = Step(st, c).st /\ path' = Append(path, c)
Next == NextShortest \/ NextImg \/ NextFill \/ NextVar \/ NextAll
Spec == Init /\ [][Next]_vars
View == <<st, IF st.font.fam \in {"img", "scopes", "var", "strike", "pairs"} THEN path ELSE <<Len(path)>> >>

\* fill: the fan is probed (and printed) at the checkpoints only
Probed       == st.font.fam # "fill" \/ IsCheckpoint(st.font, Len(path))
AllPure      == Probed => \A c \in FanCalls(st.font) : PureStep(st, c)
ModelExact   == Probed => \A c \in FanCalls(st.font) : StaleIffImpure(st, c)

Fan == {[call |-> c, impure |-> ~PureStep(st, c),
         causes |-> CausesSeq(Step(st, c).stale)] : c \in FanCalls(st.font)}
EmitCase == IF ~Probed THEN TRUE
            ELSE PrintT(<<"CASE", ToJson([font |-> st.font, path |-> path, fan |-> SetToSeq(Fan)])>>)
=============================================================================
