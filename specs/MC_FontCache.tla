---------------------------- MODULE MC_FontCache ----------------------------
(***************************************************************************)
(* Exploration of FontCache over a small universe of fonts and calls.  The *)
(* state of the model is the cache contents (with the font it belongs to); *)
(* `path` remembers one shortest history reaching it (hidden by VIEW).     *)
(* For every reachable cache state and every call:                         *)
(*   CodeKeys = FALSE : invariant AllPure - the intended keying is pure    *)
(*   CodeKeys = TRUE  : no purity invariant; one CASE per state lists, for *)
(*                      every call, whether the code's keying makes it     *)
(*                      impure after this history, and which slot is stale *)
(* StaleIffImpure (the model's explanation is exact) is checked in both.   *)
(*                                                                         *)
(* Three families of fonts, each with its own universe of calls:           *)
(*   intact  : the plain font; glyph mapping, shaping under scripts, masks *)
(*             and tuples, images and image filters, advances, names       *)
(*   dmg     : a font one (or several) of whose lazily loaded tables is    *)
(*             present but fails to load; table accessors, shaping,        *)
(*             vertical advances, image queries and filters                *)
(*   collide : a font whose GSUB and/or GPOS is larger than 64 KiB and     *)
(*             holds Coverage and ClassDef tables at positions congruent   *)
(*             mod 2^16 and mod 2^8 (and at equal offsets from their       *)
(*             sub-tables), and lookups at indices congruent mod 2^8, each *)
(*             activated by a feature of its own; shaping with every       *)
(*             single feature and with all of them, as a mask and as a     *)
(*             custom feature list, under the default language system and  *)
(*             under a second one that has only some of the features       *)
(* The layout of the collide fonts is part of the CASE: the harness builds *)
(* the bytes from it.                                                      *)
(***************************************************************************)
EXTENDS FontCache, Json, SequencesExt

CONSTANTS MaxDepth,        \* depth of histories on the intact font
          MaxDepthDmg,     \* ... on a font with a damaged table
          MaxDepthCollide, \* ... on a font with colliding cache keys
          Families         \* which families are explored

VARIABLES st, path
vars == <<st, path>>

Chars  == {"A", "DC", "EM"}
Pres   == {"Req", "NotReq"}
VSs    == {"none", "VS15", "VS16"}
Tuples == {"none", "tA", "tB"}
Filters == {"default", "empty", "bw"}
TextDC == <<[ch |-> "A", vs |-> "none"], [ch |-> "DC", vs |-> "none"]>>
TextVS == <<[ch |-> "DC", vs |-> "VS16"], [ch |-> "A", vs |-> "none"]>>

\* ---- fonts ----------------------------------------------------------------
Kinds       == {"gsub", "gpos", "gdef", "morx", "kern", "vhea", "vmtx", "images"}
TableKinds  == {"gsub", "gpos", "gdef", "morx", "kern", "vhea"}     \* kinds with a public accessor
DmgFont(ks) == [fam |-> "dmg", damaged |-> ks, lookups |-> <<>>]
DmgFonts    == {DmgFont(<<k>>) : k \in Kinds}
               \cup {DmgFont(<<"gsub", "gpos">>), DmgFont(<<"gsub", "gpos", "gdef", "morx", "kern">>),
                     DmgFont(<<"vhea", "vmtx">>)}

\* Layout of one layout table of a collide font.  Sub-tables of `single` lookups keep their Coverage
\* 8 bytes in; `class` lookups (GSUB: ContextSubst format 2 naming lookup 6; GPOS: PairPos format 2)
\* keep their Coverage 32 and their ClassDef 64 bytes in.  Positions: X, X + 256, X + 65536.
\* the features of the second language system ("l2"; "l1" is the default one, which has them all)
L2Feats == {"dlig", "rlig", "smcp"}
Obj(kind, sub, rel, content) == [kind |-> kind, pos |-> sub + rel, rel |-> rel, content |-> content]
Single(tbl, idx, feat, sub, content) ==
  [tbl |-> tbl, idx |-> idx, feat |-> feat, typ |-> "single", ext |-> sub >= 65536, sub |-> sub, l2 |-> feat \in L2Feats,
   objs |-> <<Obj("cov", sub, 8, content)>>, nested |-> <<>>]
Class(tbl, idx, feat, sub, content) ==
  [tbl |-> tbl, idx |-> idx, feat |-> feat, typ |-> "class", ext |-> sub >= 65536, sub |-> sub, l2 |-> feat \in L2Feats,
   objs |-> <<Obj("cov", sub, 32, IF tbl = "GSUB" THEN "EFG" ELSE "X"), Obj("cls", sub, 64, content)>>,
   nested |-> IF tbl = "GSUB" THEN <<6>> ELSE <<>>]
Layout(tbl) ==
  <<Single(tbl, 0, "liga", 2560, "A"),             \* Coverage at 2568
    Single(tbl, 1, "dlig", 2560 + 65536, "B"),     \* ... + 65536 : same u16, same u8
    Single(tbl, 2, "hlig", 2560 + 256, "C"),       \* ... + 256   : same u8
    Class(tbl, 3, "calt", 3072, "E"),              \* ClassDef at 3136
    Class(tbl, 4, "rlig", 3072 + 65536, "F"),      \* ... + 65536
    Class(tbl, 5, "clig", 3072 + 256, "G"),        \* ... + 256
    Single(tbl, 6, "none", 3712, "EFG"),           \* the lookup the class rules of GSUB name
    Single(tbl, 256, "smcp", 3840 + 16, "I")>>     \* lookup index 256: same u8 as lookup 0
CollideFont(tbls) == [fam |-> "collide", damaged |-> <<>>,
                      lookups |-> (IF "GSUB" \in tbls THEN Layout("GSUB") ELSE <<>>)
                                  \o (IF "GPOS" \in tbls THEN Layout("GPOS") ELSE <<>>)]
CollideFonts == {CollideFont({"GSUB"}), CollideFont({"GPOS"}), CollideFont({"GSUB", "GPOS"})}

Fonts == (IF "intact" \in Families THEN {PlainFont} ELSE {})
         \cup (IF "dmg" \in Families THEN DmgFonts ELSE {})
         \cup (IF "collide" \in Families THEN CollideFonts ELSE {})

\* ---- calls ----------------------------------------------------------------
ShapeCallL(s, l, m, t, custom, feats) ==
  [op |-> "Shape", text |-> "w1", script |-> s, lang |-> l, mask |-> m, tuple |-> t, kern |-> TRUE,
   custom |-> custom, feats |-> feats]
ShapeCall(s, m, t, custom, feats) == ShapeCallL(s, "l1", m, t, custom, feats)
TableCalls == {[op |-> "Table", k |-> k] : k \in TableKinds}

IntactCalls ==
       {[op |-> "LookupGlyph", ch |-> c, pres |-> p, vs |-> v] : c \in Chars, p \in Pres, v \in VSs}
  \cup {[op |-> "MapGlyphs", text |-> t, script |-> "s1", pres |-> p] : t \in {TextDC, TextVS}, p \in Pres}
  \cup {ShapeCall(s, m, t, FALSE, <<>>) : s \in {"s1", "s2"}, m \in {"m1", "m2"}, t \in Tuples}
  \cup {[op |-> "Image", g |-> 1], [op |-> "HasImages"], [op |-> "HAdvance", g |-> 1], [op |-> "VAdvance", g |-> 1],
        [op |-> "GlyphNames", g |-> 1]}
  \cup {[op |-> "SetFilter", f |-> f] : f \in Filters}

DmgCalls ==
       TableCalls
  \cup {ShapeCall("s1", "m1", "none", FALSE, <<>>), ShapeCall("s1", "m1", "none", TRUE, <<>>)}
  \cup {[op |-> "Image", g |-> 1], [op |-> "HasImages"], [op |-> "VAdvance", g |-> 1],
        [op |-> "LookupGlyph", ch |-> "EM", pres |-> "Req", vs |-> "none"]}
  \cup {[op |-> "SetFilter", f |-> f] : f \in {"default", "empty"}}

CollideFeats == {"liga", "dlig", "hlig", "calt", "rlig", "clig", "smcp"}
AllFeats     == <<"calt", "clig", "dlig", "hlig", "liga", "rlig", "smcp">>
CollideCalls ==
       {ShapeCall("s1", f, "none", cu, <<f>>) : f \in CollideFeats, cu \in BOOLEAN}
  \cup {ShapeCall("s1", "all", "none", cu, AllFeats) : cu \in BOOLEAN}
  \* under the second language system only its own features are in force
  \cup {ShapeCallL("s1", "l2", f, "none", cu, IF f \in L2Feats THEN <<f>> ELSE <<>>) : f \in {"liga", "dlig"}, cu \in BOOLEAN}
  \cup {ShapeCallL("s1", "l2", "all", "none", cu, SelectSeq(AllFeats, LAMBDA f : f \in L2Feats)) : cu \in BOOLEAN}

\* calls that extend a history / calls probed after it
PathCalls(font) == CASE font.fam = "intact"  -> IntactCalls
                     [] font.fam = "dmg"     -> DmgCalls
                     [] font.fam = "collide" -> CollideCalls
FanCalls(font)  == CASE font.fam = "intact"  -> IntactCalls \cup TableCalls
                     [] font.fam = "dmg"     -> DmgCalls \cup {[op |-> "HAdvance", g |-> 1]}
                     [] font.fam = "collide" -> CollideCalls \cup {[op |-> "Table", k |-> "gsub"], [op |-> "Table", k |-> "gpos"]}
DepthOf(font)   == CASE font.fam = "intact"  -> MaxDepth
                     [] font.fam = "dmg"     -> MaxDepthDmg
                     [] font.fam = "collide" -> MaxDepthCollide

Init == /\ \E f \in Fonts : st = InitStateOf(f)
        /\ path = <<>>
Next == /\ Len(path) < DepthOf(st.font)
        /\ \E c \in PathCalls(st.font) : /\ st' = Step(st, c).st
                                         /\ st' # st
                                         /\ path' = Append(path, c)
Spec == Init /\ [][Next]_vars
View == <<st, Len(path)>>

AllPure      == \A c \in FanCalls(st.font) : PureStep(st, c)
ModelExact   == \A c \in FanCalls(st.font) : StaleIffImpure(st, c)

Fan == {[call |-> c, impure |-> ~PureStep(st, c),
         causes |-> CausesSeq(Step(st, c).stale)] : c \in FanCalls(st.font)}
EmitCase == PrintT(<<"CASE", ToJson([font |-> st.font, path |-> path, fan |-> SetToSeq(Fan)])>>)
=============================================================================
