---------------------------- MODULE MC_FontCache ----------------------------
(***************************************************************************)
(* Exploration of FontCache over a small universe of calls.  The state of  *)
(* the model is the cache contents; `path` remembers one shortest history  *)
(* reaching it (hidden by VIEW).  For every reachable cache state and      *)
(* every call:                                                             *)
(*   CodeKeys = FALSE : invariant AllPure - the intended keying is pure    *)
(*   CodeKeys = TRUE  : no purity invariant; one CASE per state lists, for *)
(*                      every call, whether the code's keying makes it     *)
(*                      impure after this history, and which slot is stale *)
(* StaleIffImpure (the model's explanation is exact) is checked in both.   *)
(***************************************************************************)
EXTENDS FontCache, Json, SequencesExt

CONSTANT MaxDepth

VARIABLES st, path
vars == <<st, path>>

Chars  == {"A", "DC", "EM"}
Pres   == {"Req", "NotReq"}
VSs    == {"none", "VS15", "VS16"}
Tuples == {"none", "tA", "tB"}
Filters == {"default", "empty", "bw"}
TextDC == <<[ch |-> "A", vs |-> "none"], [ch |-> "DC", vs |-> "none"]>>
TextVS == <<[ch |-> "DC", vs |-> "VS16"], [ch |-> "A", vs |-> "none"]>>

Calls ==
       {[op |-> "LookupGlyph", ch |-> c, pres |-> p, vs |-> v] : c \in Chars, p \in Pres, v \in VSs}
  \cup {[op |-> "MapGlyphs", text |-> t, script |-> "s1", pres |-> p] : t \in {TextDC, TextVS}, p \in Pres}
  \cup {[op |-> "Shape", text |-> "w1", script |-> s, lang |-> "l1", mask |-> m, tuple |-> t, kern |-> TRUE] :
           s \in {"s1", "s2"}, m \in {"m1", "m2"}, t \in Tuples}
  \cup {[op |-> "Image", g |-> 1], [op |-> "HasImages"], [op |-> "HAdvance", g |-> 1], [op |-> "VAdvance", g |-> 1],
        [op |-> "GlyphNames", g |-> 1]}
  \cup {[op |-> "SetFilter", f |-> f] : f \in Filters}

Init == st = InitState /\ path = <<>>
Next == /\ Len(path) < MaxDepth
        /\ \E c \in Calls : /\ st' = Step(st, c).st
                            /\ st' # st
                            /\ path' = Append(path, c)
Spec == Init /\ [][Next]_vars
View == <<st, Len(path)>>

AllPure      == \A c \in Calls : PureStep(st, c)
ModelExact   == \A c \in Calls : StaleIffImpure(st, c)

Fan == {[call |-> c, impure |-> ~PureStep(st, c),
         causes |-> CausesSeq(Step(st, c).stale)] : c \in Calls}
EmitCase == PrintT(<<"CASE", ToJson([path |-> path, fan |-> SetToSeq(Fan)])>>)
=============================================================================
