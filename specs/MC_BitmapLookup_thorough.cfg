CONSTANTS
  Deep = TRUE
SPECIFICATION Spec
INVARIANTS CacheCoherent ChoicesOK WantsOK EmitCase
CHECK_DEADLOCK FALSE
