---------------------------- MODULE Trace_IndicReorder ----------------------------
(***************************************************************************)
(* Judge of recorded events (impl -> spec) for X11.  One event = one call  *)
(* of the initial reordering stage on one cluster:                         *)
(*   a = [sc, m (shaping model), f (font record), k (cluster kind),        *)
(*        r (symbols), c (code points)]                                    *)
(*   o = [r = [order, sym, pos, mask, base], kind, model, err, panic,      *)
(*        clusters]                                                        *)
(* The event conforms iff the stage returned without error on exactly one  *)
(* cluster of the announced kind under the announced model and its result  *)
(* equals IndicReorder!Expected.  Otherwise the key names the first        *)
(* component that differs.                                                 *)
(***************************************************************************)
EXTENDS IndicReorder, Json, IOUtils

Rec == ndJsonDeserialize(IOEnv.TRACE)

VARIABLE l
tvars == <<l>>

FontOf(f) == [rphf |-> f.rphf, blwf |-> ToSet(f.blwf), pstf |-> ToSet(f.pstf), pref |-> ToSet(f.pref)]

FirstDiff(x, y) == IF Len(x) # Len(y) THEN 0
                   ELSE LET d == {k \in DOMAIN x : x[k] # y[k]} IN IF d = {} THEN 0 ELSE Min(d)
JoinPlus(m) == IF Len(m) = 0 THEN "-" ELSE FoldLeft(LAMBDA acc, x : IF acc = "" THEN x ELSE acc \o "+" \o x, "", m)

Verdict(e) ==
  LET want == Expected(e.a.sc, e.a.m, FontOf(e.a.f), e.a.k, e.a.r)
      got  == e.o.r
      pre  == <<e.a.sc, e.a.m>>
  IN IF e.o.panic # "" THEN [ok |-> FALSE, key |-> pre \o <<"panic">>, want |-> want]
     ELSE IF e.o.err # "" THEN [ok |-> FALSE, key |-> pre \o <<"error">>, want |-> want]
     ELSE IF e.o.clusters # 1 \/ e.o.kind # e.a.k \/ e.o.model # e.a.m
          THEN [ok |-> FALSE, key |-> pre \o <<"binding">>, want |-> want]
     ELSE IF got = want THEN [ok |-> TRUE, key |-> <<>>, want |-> want]
     ELSE IF (got.base = 0) # (want.base = 0)
          THEN [ok |-> FALSE, key |-> pre \o <<"base", IF want.base = 0 THEN "none-expected" ELSE "expected">>, want |-> want]
     ELSE IF got.order # want.order
          THEN [ok |-> FALSE, key |-> pre \o <<"order",
                   IF FirstDiff(want.order, got.order) = 0 THEN "length"
                   ELSE want.pos[FirstDiff(want.order, got.order)]>>, want |-> want]
     ELSE IF got.pos # want.pos
          THEN LET k == FirstDiff(want.pos, got.pos)
               IN [ok |-> FALSE, key |-> pre \o <<"pos", want.sym[k], want.pos[k], got.pos[k]>>, want |-> want]
     ELSE IF got.mask # want.mask
          THEN LET k == FirstDiff(want.mask, got.mask)
               IN [ok |-> FALSE, key |-> pre \o <<"mask", want.pos[k], JoinPlus(want.mask[k]), JoinPlus(got.mask[k])>>, want |-> want]
     ELSE [ok |-> FALSE, key |-> pre \o <<"other">>, want |-> want]

TInit == l = 1
TNext == l <= Len(Rec) /\ l' = l + 1

Judged ==
  l <= Len(Rec) =>
     LET e == Rec[l]
         v == Verdict(e)
     IN IF v.ok THEN TRUE
        ELSE PrintT(<<"MISMATCH", ToJson([i |-> e.i, case |-> e.case, a |-> e.a, o |-> e.o,
                                          want |-> v.want, key |-> v.key])>>)

TSpec == TInit /\ [][TNext]_tvars
AllConsumed == TLCGet("stats").diameter = Len(Rec) + 1
=============================================================================
