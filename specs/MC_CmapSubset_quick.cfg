CONSTANTS
  Deep = FALSE
  FixFmt0 = FALSE
SPECIFICATION Spec
INVARIANTS DesignOK EmitCase
CHECK_DEADLOCK FALSE
