---------------------------- MODULE Trace_Naming ----------------------------
(***************************************************************************)
(* Trace judge for X08 (impl -> spec), judging style.  One event per call: *)
(*   GetName   a = [recs, id]      o = [g, s]   fontcode_get_name and      *)
(*             NameTable::string_for_id on the same name table             *)
(*   Nav       a = [tabs, q]       o = [n]      StatTable::name_for_axis_value, *)
(*             q = <<axis index, value, 1 = ElidableName::Exclude>>        *)
(*   Inst      a = [axes, tuple, stat, names, kept, src, insts]            *)
(*             o = [err, names, ord, kept, wc, wdc, fs, mac, ia, an]       *)
(*             variations::instance (output font read by the harness' own  *)
(*             reader) and variations::axis_names                          *)
(*   MacTable  o = [m]             macroman_to_char for the 256 codes      *)
(* An event conforms iff the Keys operator of module Naming returns {}:    *)
(* the observation is one of the conformant readings (Dev_ names).  Otherwise   *)
(* the keys name the violated clauses (a Code_ reading names a known      *)
(* behaviour of the code, "unexplained" anything else).                    *)
(***************************************************************************)
EXTENDS Naming

Rec == ndJsonDeserialize(IOEnv.TRACE)

VARIABLE l
tvars == <<l>>

Verdict(e) ==
  CASE e.ev = "GetName" ->
         [keys |-> GnKeys(e.a.recs, e.a.id, e.o.g) \cup SfiKeys(e.a.recs, e.a.id, e.o.s),
          prim |-> e.o.g = GetName(e.a.recs, e.a.id) /\ e.o.s = StringForId(e.a.recs, e.a.id),
          want |-> [g |-> GetName(e.a.recs, e.a.id), s |-> StringForId(e.a.recs, e.a.id)]]
    [] e.ev = "Nav" ->
         [keys |-> NavKeys(e.a.tabs, e.a.q[1], e.a.q[2], e.a.q[3], e.o.n),
          prim |-> e.o.n = NavClosed(e.a.tabs, e.a.q[1], e.a.q[2], e.a.q[3]),
          want |-> [n |-> NavClosed(e.a.tabs, e.a.q[1], e.a.q[2], e.a.q[3])]]
    [] e.ev = "Inst" ->
         LET p == InstPrimary(e.a)
         IN [keys |-> InstVerdict(e.a, e.o) \cup (IF p.err = 1 \/ e.o.err # <<>> THEN {} ELSE AxisNamesKeys(e.a, e.o.an)),
             prim |-> FALSE,
             want |-> IF p.err = 1 THEN [err |-> 1]
                      ELSE [err |-> 0, n1 |-> p.n1, n3 |-> p.n3, n4 |-> p.n4, n6 |-> p.n6, n16 |-> p.n16, n17 |-> p.sub,
                            wc |-> p.wc, wdc |-> p.wdc, ital |-> p.ital, bold |-> p.bold]]
    [] e.ev = "MacTable" ->
         [keys |-> IF \A b \in 0 .. 255 : MacTableOK(b, e.o.m[b + 1]) THEN {} ELSE {"macroman|table"},
          prim |-> \A b \in 0 .. 255 : e.o.m[b + 1] = MacToUni(b),
          want |-> [m |-> [b \in 1 .. 256 |-> MacToUni(b - 1)]]]

TInit == l = 1
TNext == l <= Len(Rec) /\ l' = l + 1

Judged ==
  l <= Len(Rec) =>
     LET e == Rec[l]
         v == Verdict(e)
     IN IF v.keys = {}
        THEN IF v.prim THEN TRUE ELSE PrintT(<<"DEV", ToJson([i |-> e.i, case |-> e.case, ev |-> e.ev])>>)
        ELSE PrintT(<<"MISMATCH", ToJson([i |-> e.i, case |-> e.case, ev |-> e.ev, keys |-> v.keys, want |-> v.want])>>)

TSpec == TInit /\ [][TNext]_tvars
AllConsumed == TLCGet("stats").diameter = Len(Rec) + 1
=============================================================================
