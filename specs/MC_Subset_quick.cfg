CONSTANTS
  NG = 4
  MaxDeg = 2
  MaxEdges = 3
  NHMs <- NHMsAll
SPECIFICATION Spec
INVARIANTS DesignOK EmitCase
CHECK_DEADLOCK FALSE
