CONSTANTS
  LenOf <- LenNone
  PairsFull = FALSE
  LongLens <- LongQuick
SPECIFICATION SSpec
INVARIANTS StepOK GlobalOK FinalOK Emit
CHECK_DEADLOCK FALSE
