CONSTANTS
  MaxBlocks = 1
  MaxBlocksAll = 1
  ExtraKinds <- NoKinds
  ExtraKindsAll <- NoKinds
  BigCounts <- BigQuick
SPECIFICATION Spec
INVARIANTS MachineOK FormOK EncodingsOK GenExact EmitCase
CHECK_DEADLOCK FALSE
