CONSTANTS
  MaxBlocks = 1
  MaxBlocksAll = 1
  ExtraKinds <- NoKinds
  ExtraKindsAll <- NoKinds
  SeacFull = FALSE
  BigCounts <- BigQuick
SPECIFICATION Spec
INVARIANTS MachineOK FormOK CharsetOK EncodingsOK GenExact EmitCase
CHECK_DEADLOCK FALSE
