\* the two recorded (and since repaired) defects switched on: SubsetCmapOK may fail only where
\* Fmt0Overflow / SymInvDiverges say, and fails on every Fmt0Overflow case
CONSTANTS
  Deep = FALSE
  FixFmt0 = FALSE
  FixSymInv = FALSE
SPECIFICATION Spec
INVARIANTS DesignOK
CHECK_DEADLOCK FALSE
