----------------------------- MODULE MC_Shaper -----------------------------
(***************************************************************************)
(* Three things in one bounded model.                                      *)
(*                                                                         *)
(* mode = "run": exploration of the engine model of Shaper over every text *)
(*   up to TextLen over a four-character alphabet (base letter, combining  *)
(*   mark, ZWJ, VS16) with a four-glyph font: map_glyphs, then up to       *)
(*   GsubSteps primitive substitution steps (substitute, expand, contract, *)
(*   insert dotted circle, delete joiner, swap, fail-and-forge-ahead),     *)
(*   the final clamp of glyph ids, up to GposSteps positioning steps       *)
(*   (attach to any glyph of the run, displace, fail), the result of shape *)
(*   (Ok, or Err carrying the run), and glyph_positions.  Invariant RunOK: *)
(*   every primitive preserves the well-formedness clauses of the property;*)
(*   CallOK: the finished call sequence has no failing clause.             *)
(*                                                                         *)
(* mode = "gen": generator of syllable-class strings, every string up to   *)
(*   GenLen over the eighteen classes; one CASE line per string.  The      *)
(*   harness concretises each per script and runs it through every         *)
(*   repository font of the script (spec -> impl); the runs that come back *)
(*   are judged by Trace_Shaper.                                           *)
(*                                                                         *)
(* mode = "txt": generator of text-shape-class strings for the default     *)
(*   shaper and its special-cased feature paths, every string up to TxtLen *)
(*   over the eleven classes TextClasses: a letter that starts ligatures   *)
(*   (Lf), a letter that is only a later ligature component (Li), a letter *)
(*   with single / multiple / contextual substitutions (Lx), a precomposed *)
(*   letter that ccmp decomposes (Ld), an ASCII digit (Dg), the ASCII      *)
(*   slash of the fraction detector (Sl), U+2044 (Fs), space (Sp), two     *)
(*   combining marks of different mark classes (Mk, Mb), a joiner (Zj).    *)
(*   One CASE line per string, tagged fam = "txt" (syllable strings are    *)
(*   tagged fam = "syl").  The harness maps each string onto the glyph     *)
(*   roles of every synthesized font whose roles cover the string's        *)
(*   classes, and onto the repository fonts of the default shaper.         *)
(*   TextSanity states what the bound must contain for the special paths   *)
(*   to be reachable at all: a fraction preceded by two ligating letters,  *)
(*   a four-component ligature followed by a mark, a mark between          *)
(*   ligature components.                                                  *)
(***************************************************************************)
EXTENDS Shaper, Json

CONSTANTS TextLen, GsubSteps, GposSteps, GenLen, TxtLen

Classes == {"C", "Ra", "H", "N", "Mpre", "Mabv", "Mblw", "Mpst", "Msplit", "Anu",
            "ZWJ", "ZWNJ", "Dig", "Lone", "VS15", "VS16", "For", "DC"}

TextClasses == {"Lf", "Li", "Lx", "Ld", "Dg", "Sl", "Fs", "Sp", "Mk", "Mb", "Zj"}

\* the little font of the engine exploration
LetterA == 65    MarkAcute == 769    ZWJ == \h200D    VS16 == \hFE0F
Alphabet == {LetterA, MarkAcute, ZWJ, VS16}
Cmap == (LetterA :> 1) @@ (MarkAcute :> 2) @@ (ZWJ :> 3) @@ (DottedCircle :> 1)
NumGlyphs == 4
SubstGids == {0, 2, 5}          \* 5 is beyond the glyph count: a lookup may name a missing glyph

VARIABLES mode, cls, phase, text, mapped, run, err, steps, shapeOc, posOc, nPos
vars == <<mode, cls, phase, text, mapped, run, err, steps, shapeOc, posOc, nPos>>

Init ==
  /\ cls = <<>> /\ mapped = <<>> /\ run = <<>> /\ err = FALSE /\ steps = 0
  /\ shapeOc = "Skipped" /\ posOc = "Skipped" /\ nPos = -1
  /\ \/ mode = "gen" /\ phase = "gen" /\ text = <<>>
     \/ mode = "txt" /\ phase = "gen" /\ text = <<>>
     \/ /\ mode = "run" /\ phase = "map"
        /\ \E n \in 0 .. TextLen : \E t \in [1 .. n -> Alphabet] : text = t

\* ---- generator ----------------------------------------------------------------
Extend ==
  /\ mode = "gen" /\ Len(cls) < GenLen
  /\ \E c \in Classes : cls' = Append(cls, c)
  /\ UNCHANGED <<mode, phase, text, mapped, run, err, steps, shapeOc, posOc, nPos>>

ExtendText ==
  /\ mode = "txt" /\ Len(cls) < TxtLen
  /\ \E c \in TextClasses : cls' = Append(cls, c)
  /\ UNCHANGED <<mode, phase, text, mapped, run, err, steps, shapeOc, posOc, nPos>>

\* ---- engine ---------------------------------------------------------------------
DoMap ==
  /\ phase = "map"
  /\ mapped' = MapText(text, Cmap) /\ run' = MapText(text, Cmap)
  /\ phase' = "gsub"
  /\ UNCHANGED <<mode, cls, text, err, steps, shapeOc, posOc, nPos>>

GsubStep ==
  /\ phase = "gsub" /\ steps < GsubSteps
  /\ steps' = steps + 1
  /\ \/ \E i \in DOMAIN run : \E g \in SubstGids : run' = Substitute(run, i, g)
     \/ \E i \in DOMAIN run : \E g \in SubstGids : run' = Expand(run, i, <<g, 2>>)
     \/ \E i \in DOMAIN run : run' = Expand(run, i, <<>>)                 \* empty sequence: glyph deleted
     \/ \E i \in DOMAIN run : \E n \in 1 .. (Len(run) - i) : \E g \in SubstGids : run' = Contract(run, i, n, g)
     \/ \E i \in 1 .. (Len(run) + 1) : run' = InsertDottedCircle(run, i, Cmap[DottedCircle])
     \/ \E i \in DOMAIN run : run[i].chars = <<ZWJ>> /\ run' = Delete(run, i)
     \/ \E i \in 1 .. (Len(run) - 1) : run' = Swap(run, i)
  /\ UNCHANGED <<mode, cls, phase, text, mapped, err, shapeOc, posOc, nPos>>

\* an error is recorded and the engine forges ahead with the run as it is
Fail ==
  /\ phase \in {"gsub", "gpos"} /\ ~err
  /\ err' = TRUE
  /\ UNCHANGED <<mode, cls, phase, text, mapped, run, steps, shapeOc, posOc, nPos>>

EndGsub ==
  /\ phase = "gsub"
  /\ run' = Clamp(run, NumGlyphs)
  /\ phase' = "gpos" /\ steps' = 0
  /\ UNCHANGED <<mode, cls, text, mapped, err, shapeOc, posOc, nPos>>

GposStep ==
  /\ phase = "gpos" /\ steps < GposSteps
  /\ steps' = steps + 1
  /\ \/ \E i \in DOMAIN run : \E kind \in AttachKinds : \E j \in 0 .. (Len(run) - 1) :
          j + 1 # i /\ run' = Attach(run, i, kind, j)
     \/ \E i \in DOMAIN run : run' = Displace(run, i)
  /\ UNCHANGED <<mode, cls, phase, text, mapped, err, shapeOc, posOc, nPos>>

EndShape ==
  /\ phase = "gpos"
  /\ shapeOc' = IF err THEN "Err" ELSE "Ok"
  /\ phase' = "pos"
  /\ UNCHANGED <<mode, cls, text, mapped, run, err, steps, posOc, nPos>>

Positions ==
  /\ phase = "pos"
  /\ \/ posOc' = "Ok" /\ nPos' = Len(run)
     \/ posOc' = "Err" /\ nPos' = -1
  /\ phase' = "done"
  /\ UNCHANGED <<mode, cls, text, mapped, run, err, steps, shapeOc>>

Next == Extend \/ ExtendText \/ DoMap \/ GsubStep \/ Fail \/ EndGsub \/ GposStep \/ EndShape \/ Positions
Spec == Init /\ [][Next]_vars

---------------------------------------------------------------------------
Submitted == UNION {{mapped[i].chars[k] : k \in DOMAIN mapped[i].chars} : i \in DOMAIN mapped}

\* every primitive preserves the clauses (glyph ids are clamped when GSUB ends)
RunOK ==
  /\ phase = "gsub" => RunFailures(run, Submitted, FALSE, NumGlyphs) = {}
  /\ phase \in {"gpos", "pos", "done"} => RunFailures(run, Submitted, TRUE, NumGlyphs) = {}
\* Err carries a run and it is the run the engine had (ErrCarriesRun), the finished calls conform
CallOK ==
  phase = "done" => CallFailures("Ok", mapped, shapeOc, run, posOc, nPos, TRUE, NumGlyphs) = {}
\* the clauses are not vacuous: a run with a dangling attachment / foreign character / big id fails
Sanity ==
  /\ RunFailures(<<[gid |-> 1, chars |-> <<65>>, pk |-> "mark", pi |-> 1]>>, {65}, TRUE, 4) = {"AttachInRun"}
  /\ RunFailures(<<[gid |-> 1, chars |-> <<66>>, pk |-> "none", pi |-> -1]>>, {65}, TRUE, 4) = {"CharsFromInput"}
  /\ RunFailures(<<[gid |-> 4, chars |-> <<65>>, pk |-> "none", pi |-> -1]>>, {65}, TRUE, 4) = {"GidBelowCount"}
  /\ RunFailures(<<[gid |-> 4, chars |-> <<DottedCircle>>, pk |-> "none", pi |-> -1]>>, {65}, FALSE, 4) = {}
  /\ CallFailures("Ok", <<>>, "Panic", <<>>, "Skipped", -1, TRUE, 4) = {"Total.shape.Panic"}

\* the bound of the text generator reaches the shapes the special paths need
TextSanity ==
  /\ TxtLen >= 5
  /\ \A t \in {<<"Lf", "Lf", "Dg", "Sl", "Dg">>, <<"Ld", "Dg", "Sl", "Dg">>, <<"Lf", "Lf", "Lf", "Lf", "Mk">>,
               <<"Lf", "Mk", "Lf", "Lf", "Mb">>, <<"Dg", "Fs", "Dg">>, <<"Lx", "Zj", "Lf">>} :
        Len(t) <= TxtLen /\ \A k \in DOMAIN t : t[k] \in TextClasses

Emit ==
  /\ mode = "gen" => PrintT(<<"CASE", ToJson([fam |-> "syl", cls |-> cls])>>)
  /\ mode = "txt" => PrintT(<<"CASE", ToJson([fam |-> "txt", cls |-> cls])>>)
=============================================================================
