------------------------------- MODULE Cmap -------------------------------
(***************************************************************************)
(* Specification of character-to-glyph mapping through an OpenType `cmap`  *)
(* table (property C06): the lookup rule of every subtable format allsorts *)
(* supports (0, 2, 4, 6, 10, 12), the enumeration of a subtable, the       *)
(* preference order among encoding records, the encoding dispatch          *)
(* (Unicode / Symbol / Mac Roman / Big5) and the inverse law of the two    *)
(* legacy conversions.                                                     *)
(*                                                                         *)
(* The mapping is a pure function of (table, code), so the semantics is a  *)
(* family of operators.  MC_Cmap explores bounded sets of tables and       *)
(* prints the expectation for every probe; Trace_Cmap replays recorded     *)
(* lookups of real fonts through the very same operators.                  *)
(*                                                                         *)
(* Abstract subtables (what the harness encodes to / decodes from bytes):  *)
(*   [fmt |-> 0,  gia]                 gia: 256 glyph ids (u8)             *)
(*   [fmt |-> 2,  keys, subs, gia]     keys: 256 raw subHeaderKeys (8*k);  *)
(*                                     subs: <<[first,count,delta,ro]>>,   *)
(*                                     ro = raw idRangeOffset (bytes)      *)
(*   [fmt |-> 4,  segs, gia]           segs: <<[s,e,delta,ro]>> incl. the  *)
(*                                     final 0xFFFF one, ro raw (bytes)    *)
(*   [fmt |-> 6,  first, gia]   [fmt |-> 10, first, gia]                   *)
(*   [fmt |-> 12, groups]              groups: <<[s,e,g]>>                 *)
(* idDelta is a signed 16-bit number.  All raw offsets are kept raw so     *)
(* that the index arithmetic is part of the specification.                 *)
(*                                                                         *)
(* Glyph 0 is "unmapped".  BAD means "the table is structurally broken for *)
(* this code" (offset outside the glyph array, glyph id above 65535): the  *)
(* property does not constrain the result there.                           *)
(***************************************************************************)
EXTENDS Integers, Sequences, FiniteSets, FiniteSetsExt, TLC

BAD == -1          \* no requirement
ERR == -2          \* the subtable-level call reported an error (projection of Err(_))
NoCode == -3       \* the encoding has no code for the character

Mod16(x) == x % 65536

---------------------------------------------------------------------------
\* Format 0: byte encoding table.
Map0(t, c) == IF c >= 0 /\ c < Len(t.gia) THEN t.gia[c + 1] ELSE 0
Covered0(t) == 0 .. (Len(t.gia) - 1)

---------------------------------------------------------------------------
\* Format 6 / 10: trimmed table / trimmed array.
MapTrim(t, c) == IF c >= t.first /\ c < t.first + Len(t.gia) THEN t.gia[c - t.first + 1] ELSE 0
CoveredTrim(t) == t.first .. (t.first + Len(t.gia) - 1)

---------------------------------------------------------------------------
\* Format 4: segment mapping to delta values.
\* Smallest i in lo..hi with segs[i].e >= c (segments sorted by end code), 0 if none.
RECURSIVE FindSeg4(_, _, _, _)
FindSeg4(segs, c, lo, hi) ==
  IF lo > hi THEN 0
  ELSE IF lo = hi THEN (IF segs[lo].e >= c THEN lo ELSE 0)
  ELSE LET mid == (lo + hi) \div 2 IN
       IF segs[mid].e >= c THEN FindSeg4(segs, c, lo, mid) ELSE FindSeg4(segs, c, mid + 1, hi)

\* Reference definition (what the code does: first segment in table order containing c).
FindSeg4Lin(segs, c) ==
  LET S == {i \in 1 .. Len(segs) : segs[i].s <= c /\ c <= segs[i].e} IN
  IF S = {} THEN 0 ELSE Min(S)

Sorted4(segs) == \A i \in 1 .. (Len(segs) - 1) : segs[i].e < segs[i + 1].s

\* Dev_FontographerRO: idRangeOffset 0xFFFF is read as 0 (work-around for a Fontographer bug
\* that allsorts takes from AFDKO); strictly such a table is malformed.
EffRO(ro) == IF ro = 65535 THEN 0 ELSE ro

\* Glyph of code c in segment number i (1-based) of t.
Seg4Glyph(t, i, c) ==
  LET sg == t.segs[i]
      ro == EffRO(sg.ro)
  IN IF ro = 0 THEN Mod16(c + sg.delta)
     ELSE IF ro % 2 = 1 THEN BAD
     ELSE \* the address  &idRangeOffset[i] + ro + 2*(c - s)  expressed as index into glyphIdArray,
          \* which follows the segCount entries of idRangeOffset
          LET idx == (i - 1) + (ro \div 2) + (c - sg.s) - Len(t.segs) IN
          IF idx < 0 \/ idx >= Len(t.gia) THEN BAD
          ELSE LET v == t.gia[idx + 1] IN
               IF v = 0 THEN 0 ELSE Mod16(v + sg.delta)

Map4With(t, c, i) == IF i = 0 THEN 0
                     ELSE IF t.segs[i].s <= c /\ c <= t.segs[i].e THEN Seg4Glyph(t, i, c) ELSE 0
Map4(t, c)    == IF c < 0 \/ c > 65535 THEN 0 ELSE Map4With(t, c, FindSeg4(t.segs, c, 1, Len(t.segs)))
Map4Lin(t, c) == IF c < 0 \/ c > 65535 THEN 0 ELSE Map4With(t, c, FindSeg4Lin(t.segs, c))
Covered4(t) == UNION {t.segs[i].s .. t.segs[i].e : i \in 1 .. Len(t.segs)}

\* Dev_UnsortedAny (format 4): OpenType requires the segments sorted by endCode and disjoint.  On a
\* table that is not, readers differ (first segment in table order - allsorts; binary search -
\* FreeType, HarfBuzz).  A code that lies in several segments may get the glyph of any segment
\* that contains it, or what the binary search of this specification yields.
Holders4(t, c) == {i \in 1 .. Len(t.segs) : t.segs[i].s <= c /\ c <= t.segs[i].e}
Dev_UnsortedAny4(t, c) ==
  IF c < 0 \/ c > 65535 THEN {0}
  ELSE {Map4(t, c)} \cup {Seg4Glyph(t, i, c) : i \in Holders4(t, c)}

---------------------------------------------------------------------------
\* Format 12: segmented coverage.
RECURSIVE FindGrp(_, _, _, _)
FindGrp(groups, c, lo, hi) ==
  IF lo > hi THEN 0
  ELSE IF lo = hi THEN (IF groups[lo].e >= c THEN lo ELSE 0)
  ELSE LET mid == (lo + hi) \div 2 IN
       IF groups[mid].e >= c THEN FindGrp(groups, c, lo, mid) ELSE FindGrp(groups, c, mid + 1, hi)
FindGrpLin(groups, c) ==
  LET S == {i \in 1 .. Len(groups) : groups[i].s <= c /\ c <= groups[i].e} IN
  IF S = {} THEN 0 ELSE Min(S)
Sorted12(groups) == \A i \in 1 .. (Len(groups) - 1) : groups[i].e < groups[i + 1].s

Map12With(t, c, i) ==
  IF i = 0 THEN 0
  ELSE LET gr == t.groups[i] IN
       IF gr.s <= c /\ c <= gr.e
       THEN (IF gr.g + (c - gr.s) > 65535 THEN BAD ELSE gr.g + (c - gr.s))
       ELSE 0
Map12(t, c)    == Map12With(t, c, FindGrp(t.groups, c, 1, Len(t.groups)))
Map12Lin(t, c) == Map12With(t, c, FindGrpLin(t.groups, c))
Covered12(t) == UNION {t.groups[i].s .. t.groups[i].e : i \in 1 .. Len(t.groups)}

\* Dev_UnsortedAny (format 12): as for format 4, for group lists that are not sorted / overlap.
Holders12(t, c) == {i \in 1 .. Len(t.groups) : t.groups[i].s <= c /\ c <= t.groups[i].e}
Dev_UnsortedAny12(t, c) == {Map12(t, c)} \cup {Map12With(t, c, i) : i \in Holders12(t, c)}

---------------------------------------------------------------------------
\* Format 2: high-byte mapping through table (mixed 8/16-bit encodings such as Big5).
SubIdx(t, b) == t.keys[b + 1] \div 8          \* subHeaderKeys[b] is subHeader index * 8

\* Map byte `lo` through subHeader number k (0-based).  The glyph sub-array starts
\* idRangeOffset bytes after the idRangeOffset word itself, which is the last word (byte 6) of
\* the 8-byte subHeader k; glyphIdArray follows the subHeaders.
Sub2(t, k, lo) ==
  IF k >= Len(t.subs) THEN BAD
  ELSE
  LET sh == t.subs[k + 1] IN
  IF lo < sh.first \/ lo >= sh.first + sh.count THEN 0
  ELSE LET byteoff == (8 * k + 6 + sh.ro) - 8 * Len(t.subs) IN
       IF byteoff < 0 \/ byteoff % 2 = 1 THEN BAD
       ELSE LET idx == (byteoff \div 2) + (lo - sh.first) IN
            IF idx >= Len(t.gia) THEN BAD
            ELSE LET v == t.gia[idx + 1] IN
                 IF v = 0 THEN 0 ELSE Mod16(v + sh.delta)

\* A 16-bit code is a complete character of the encoding iff it is a single byte whose key is 0,
\* or a lead byte (key # 0) followed by a second byte.
Valid2(t, c) ==
  /\ c >= 0 /\ c <= 65535
  /\ LET hi == c \div 256  lo == c % 256 IN
     IF hi = 0 THEN SubIdx(t, lo) = 0 ELSE SubIdx(t, hi) # 0

Map2(t, c) ==      \* for complete characters; anything else is unmapped
  IF ~Valid2(t, c) THEN 0
  ELSE LET hi == c \div 256  lo == c % 256 IN
       IF hi = 0 THEN Sub2(t, 0, lo) ELSE Sub2(t, SubIdx(t, hi), lo)

\* Dev_Fmt2Incomplete: for 16-bit codes that are not complete characters (a lead byte alone, or
\* a second byte after a single-byte character) OpenType gives no rule.  allsorts maps the low
\* byte through the subHeader of the high byte; mapping to 0 (FreeType) is equally conformant.
Dev_Fmt2Incomplete(t, c) ==
  IF c >= 0 /\ c <= 65535 /\ ~Valid2(t, c)
  THEN {0, Sub2(t, SubIdx(t, c \div 256), c % 256)}
  ELSE {}

Covered2(t) ==
  LET single == {b \in 0 .. 255 : SubIdx(t, b) = 0 /\ Len(t.subs) > 0
                                  /\ b >= t.subs[1].first /\ b < t.subs[1].first + t.subs[1].count}
      double == UNION {{hi * 256 + lo : lo \in t.subs[SubIdx(t, hi) + 1].first ..
                                               (t.subs[SubIdx(t, hi) + 1].first + t.subs[SubIdx(t, hi) + 1].count - 1)}
                       : hi \in {h \in 0 .. 255 : SubIdx(t, h) # 0 /\ SubIdx(t, h) < Len(t.subs)}}
  IN single \cup double

---------------------------------------------------------------------------
\* All formats.
Map(t, c) ==
  CASE t.fmt = 0  -> Map0(t, c)
    [] t.fmt = 2  -> Map2(t, c)
    [] t.fmt = 4  -> Map4(t, c)
    [] t.fmt = 6  -> MapTrim(t, c)
    [] t.fmt = 10 -> MapTrim(t, c)
    [] t.fmt = 12 -> Map12(t, c)

Covered(t) ==
  CASE t.fmt = 0  -> Covered0(t)
    [] t.fmt = 2  -> Covered2(t)
    [] t.fmt = 4  -> Covered4(t)
    [] t.fmt = 6  -> CoveredTrim(t)
    [] t.fmt = 10 -> CoveredTrim(t)
    [] t.fmt = 12 -> Covered12(t)

\* Enumeration: the (code, glyph) pairs of the codes the subtable lists.
Mappings(t) == {<<c, Map(t, c)>> : c \in Covered(t)}

\* Results a conformant implementation may give for one code (glyph ids; BAD = unconstrained).
Accept(t, c) ==
  {Map(t, c)} \cup (IF t.fmt = 2 THEN Dev_Fmt2Incomplete(t, c) ELSE {})

\* Dev_Fmt4WideCodeErr: at the subtable level (CmapSubtable::map_glyph) allsorts reports an
\* error instead of "no glyph" for a code above 0xFFFF in a format 4 subtable; Font maps that
\* to glyph 0, so both are accepted there.
AcceptSub(t, c) == Accept(t, c) \cup (IF t.fmt = 4 /\ c > 65535 THEN {ERR} ELSE {})

\* Tables whose segments / groups are unsorted or overlap (see Dev_UnsortedAny).  On sorted tables
\* AcceptU = Accept (design invariant UnsortedIsConservative).
TabSorted(t) == CASE t.fmt = 4 -> Sorted4(t.segs) [] t.fmt = 12 -> Sorted12(t.groups) [] OTHER -> TRUE
AcceptU(t, c) ==
  CASE t.fmt = 4  -> Dev_UnsortedAny4(t, c)
    [] t.fmt = 12 -> Dev_UnsortedAny12(t, c)
    [] OTHER      -> Accept(t, c)
AcceptSubU(t, c) == AcceptU(t, c) \cup (IF t.fmt = 4 /\ c > 65535 THEN {ERR} ELSE {})
\* glyphs the segments / groups that contain c assign to it
HolderGlyphs(t, c) ==
  CASE t.fmt = 4  -> IF c < 0 \/ c > 65535 THEN {} ELSE {Seg4Glyph(t, i, c) : i \in Holders4(t, c)}
    [] t.fmt = 12 -> {Map12With(t, c, i) : i \in Holders12(t, c)}
HolderCount(t, c) ==
  CASE t.fmt = 4  -> IF c < 0 \/ c > 65535 THEN 0 ELSE Cardinality(Holders4(t, c))
    [] t.fmt = 12 -> Cardinality(Holders12(t, c))
UnsortedIsConservative(t, probes) == TabSorted(t) => \A c \in probes : AcceptU(t, c) = Accept(t, c)

Ok(acc, got) == BAD \in acc \/ got \in acc

---------------------------------------------------------------------------
\* Encoding records and the preference order ("most capable supported subtable"):
\* Windows UCS-4, Windows BMP, Unicode full, any other Unicode-platform record that is a character
\* map (first in table order; encoding 5 = Unicode variation sequences, format 14, is not one),
\* Windows Symbol, Macintosh Roman, Windows Big5.  recs: sequence of [p, e, ...].
FirstRec(recs, P(_)) ==
  LET S == {i \in 1 .. Len(recs) : P(recs[i])} IN IF S = {} THEN 0 ELSE Min(S)

PrefList(recs) ==
  << FirstRec(recs, LAMBDA r : r.p = 3 /\ r.e = 10),
     FirstRec(recs, LAMBDA r : r.p = 3 /\ r.e = 1),
     FirstRec(recs, LAMBDA r : r.p = 0 /\ r.e = 4),
     FirstRec(recs, LAMBDA r : r.p = 0 /\ r.e # 5),
     FirstRec(recs, LAMBDA r : r.p = 3 /\ r.e = 0),
     FirstRec(recs, LAMBDA r : r.p = 1 /\ r.e = 0),
     FirstRec(recs, LAMBDA r : r.p = 3 /\ r.e = 4) >>

\* index of the preferred record, 0 if the table has no supported record
Preferred(recs) ==
  LET L == PrefList(recs)
      S == {k \in 1 .. Len(L) : L[k] # 0}
  IN IF S = {} THEN 0 ELSE L[Min(S)]

EncodingOf(r) ==
  CASE r.p = 0 -> "Unicode"
    [] r.p = 3 /\ r.e \in {1, 10} -> "Unicode"
    [] r.p = 3 /\ r.e = 0 -> "Symbol"
    [] r.p = 1 /\ r.e = 0 -> "AppleRoman"
    [] r.p = 3 /\ r.e = 4 -> "Big5"
    [] OTHER -> "Unsupported"

\* Rank of an encoding record in the order above (smaller is better); 8 = unsupported.
Rank(r) ==
  CASE r.p = 3 /\ r.e = 10 -> 1  [] r.p = 3 /\ r.e = 1 -> 2  [] r.p = 0 /\ r.e = 4 -> 3
    [] r.p = 0 -> 4  [] r.p = 3 /\ r.e = 0 -> 5  [] r.p = 1 /\ r.e = 0 -> 6
    [] r.p = 3 /\ r.e = 4 -> 7  [] OTHER -> 8
\* Rank by platform/encoding alone is kept as it is for GlyphMap.tla (X06), which excludes the
\* variation-sequences record itself.  The rank C06 uses: the (0, 5) record (format 14) is not a
\* character map and is never chosen.
IsUvsRecord(r) == r.p = 0 /\ r.e = 5
RankC(r) == IF IsUvsRecord(r) THEN 8 ELSE Rank(r)

---------------------------------------------------------------------------
\* Mac OS Roman (Apple's ROMAN.TXT): codes 0..127 are ASCII, 128..255 as below.
MacRomanHigh ==
  << 196, 197, 199, 201, 209, 214, 220, 225,
     224, 226, 228, 227, 229, 231, 233, 232,
     234, 235, 237, 236, 238, 239, 241, 243,
     242, 244, 246, 245, 250, 249, 251, 252,
     8224, 176, 162, 163, 167, 8226, 182, 223,
     174, 169, 8482, 180, 168, 8800, 198, 216,
     8734, 177, 8804, 8805, 165, 181, 8706, 8721,
     8719, 960, 8747, 170, 186, 937, 230, 248,
     191, 161, 172, 8730, 402, 8776, 8710, 171,
     187, 8230, 160, 192, 195, 213, 338, 339,
     8211, 8212, 8220, 8221, 8216, 8217, 247, 9674,
     255, 376, 8260, 8364, 8249, 8250, 64257, 64258,
     8225, 183, 8218, 8222, 8240, 194, 202, 193,
     203, 200, 205, 206, 207, 204, 211, 212,
     63743, 210, 218, 219, 217, 305, 710, 732,
     175, 728, 729, 730, 184, 733, 731, 711 >>

MacToUni(b) == IF b < 128 THEN b ELSE MacRomanHigh[b - 127]
\* Dev_MacCurrency: code 0xDB was the currency sign U+00A4 before Mac OS 8.5 and is the euro
\* sign U+20AC since; both tables are in use, an implementation knows one of the two characters.
Dev_MacCurrency == {<<219, 164>>, <<219, 8364>>}
\* Dev_MacRomanPdfSubset: the fifteen Mac OS Roman codes that the PostScript / PDF
\* MacRomanEncoding vector leaves out (mathematical symbols taken from the Symbol font, the
\* Apple logo).  allsorts' table is that vector; these characters may be unmapped.
Dev_MacRomanPdfSubset == {173, 176, 178, 179, 182, 183, 184, 185, 186, 189, 195, 197, 198, 215, 240}
MacRomanPairs == {<<b, MacToUni(b)>> : b \in 0 .. 255} \cup Dev_MacCurrency      \* <<code, char>>
MacRomanChars == {p[2] : p \in MacRomanPairs}
MacOptionalChars == {164, 8364} \cup {MacToUni(b) : b \in Dev_MacRomanPdfSubset}
UniToMac(ch)  == (CHOOSE p \in MacRomanPairs : p[2] = ch)[1]

\* A few Big5 characters (code, Unicode) from the Big5 standard, as fixed points for the dispatch.
Big5Sample == {<<65, 65>>, <<126, 126>>, <<42606, 22909>>, <<41824, 949>>, <<41283, 12290>>,
               <<42048, 19968>>, <<41280, 12288>>, <<63957, 40856>>, <<66, 66>>}
\* the Latin-1 characters whose Big5 code has two bytes (section sign, multiplication sign, division
\* sign, degree sign, plus-minus sign, middle dot); kept apart because CmapSubset.tla builds on Big5Sample
Big5SampleLatin1 == {<<41393, 167>>, <<41425, 215>>, <<41426, 247>>, <<41560, 176>>, <<41427, 177>>, <<41296, 183>>}
Big5SampleAll == Big5Sample \cup Big5SampleLatin1
Big5SampleChars == {p[2] : p \in Big5SampleAll}
NotBig5Chars    == {2350, 1114111, 196}     \* Devanagari MA, U+10FFFF, A dieresis
UniToBig5(ch)   == (CHOOSE p \in Big5SampleAll : p[2] = ch)[1]

\* Legacy symbol rule: text uses single bytes (or the PUA image 0xF0xx of them) and byte 0x20
\* corresponds to OS/2.usFirstCharIndex (0x20 when there is no OS/2 table).
SymbolCode(ch, first) ==
  LET c0 == IF ch >= 61440 /\ ch <= 61695 THEN ch - 61440 ELSE ch
      v  == c0 + first - 32
  IN IF v < 0 THEN NoCode ELSE v

AcceptCode(t, code) == IF code = NoCode THEN {0} ELSE Accept(t, code)

\* Glyphs Font::lookup_glyph_index may answer for character ch when the selected subtable is t
\* with encoding enc (first = usFirstCharIndex or 32).
\* Dev_MacSymbolPUA: with a Mac Roman subtable, PUA characters U+F000..U+F0FF (symbol fonts that
\* only carry a Macintosh subtable) may be mapped by the legacy symbol rule as allsorts does, or
\* be unmapped.
FontAccept(t, enc, first, ch) ==
  CASE enc = "Unicode"    -> Accept(t, ch)
    [] enc = "Symbol"     -> AcceptCode(t, SymbolCode(ch, first))
    [] enc = "AppleRoman" ->
         IF ch \in MacRomanChars
         THEN Accept(t, UniToMac(ch)) \cup (IF ch \in MacOptionalChars THEN {0} ELSE {})
         ELSE IF ch >= 61440 /\ ch <= 61695 THEN {0} \cup AcceptCode(t, SymbolCode(ch, first))
         ELSE {0}
    [] enc = "Big5"       ->
         IF ch \in Big5SampleChars THEN Accept(t, UniToBig5(ch))
         ELSE IF ch \in NotBig5Chars THEN {0}
         ELSE {BAD}       \* outside the sample: no expectation from this specification

---------------------------------------------------------------------------
\* Which rule of the specification decides code c in table t (vacuity counters, finding keys).
Branch4(t, c) ==
  IF c > 65535 THEN "f4:wide"
  ELSE LET i == FindSeg4(t.segs, c, 1, Len(t.segs)) IN
       IF i = 0 \/ ~(t.segs[i].s <= c /\ c <= t.segs[i].e) THEN "f4:none"
       ELSE IF Seg4Glyph(t, i, c) = BAD THEN "f4:bad"
       ELSE IF t.segs[i].ro = 65535 THEN "f4:fontographer"
       ELSE IF t.segs[i].ro = 0 THEN "f4:delta"
       ELSE IF Seg4Glyph(t, i, c) = 0 /\ t.gia[(i - 1) + (t.segs[i].ro \div 2) + (c - t.segs[i].s) - Len(t.segs) + 1] = 0
            THEN "f4:gia0" ELSE "f4:gia"
Branch2(t, c) ==
  IF c > 65535 THEN "f2:wide"
  ELSE IF ~Valid2(t, c) THEN "f2:incomplete"
  ELSE LET k  == IF c < 256 THEN 0 ELSE SubIdx(t, c \div 256)
           lo == c % 256
           r  == Sub2(t, k, lo)
           kind == IF c < 256 THEN "f2:single" ELSE "f2:double" IN
       IF r = BAD THEN "f2:bad"
       ELSE IF lo < t.subs[k + 1].first \/ lo >= t.subs[k + 1].first + t.subs[k + 1].count THEN kind \o ":out"
       ELSE IF r = 0 THEN kind \o ":zero" ELSE kind
Branch(t, c) ==
  CASE t.fmt = 0  -> IF c < Len(t.gia) THEN "f0:in" ELSE "f0:out"
    [] t.fmt = 2  -> Branch2(t, c)
    [] t.fmt = 4  -> Branch4(t, c)
    [] t.fmt \in {6, 10} -> IF c < t.first THEN "f6:below"
                            ELSE IF c < t.first + Len(t.gia) THEN "f6:in" ELSE "f6:above"
    [] t.fmt = 12 -> IF Map12(t, c) = BAD THEN "f12:bad"
                     ELSE LET i == FindGrp(t.groups, c, 1, Len(t.groups)) IN
                          IF i # 0 /\ t.groups[i].s <= c THEN "f12:in" ELSE "f12:none"
\* rule names on tables whose segments / groups are unsorted or overlap
BranchU(t, c) ==
  IF TabSorted(t) THEN Branch(t, c)
  ELSE LET n == IF t.fmt = 4 THEN Cardinality(Holders4(t, c)) ELSE Cardinality(Holders12(t, c))
           f == IF t.fmt = 4 THEN "f4" ELSE "f12" IN
       IF BAD \in AcceptU(t, c) THEN f \o ":unsorted:bad"
       ELSE IF n = 0 THEN f \o ":unsorted:none" ELSE IF n = 1 THEN f \o ":unsorted:one" ELSE f \o ":unsorted:multi"
FontBranch(t, enc, first, ch) ==
  CASE enc = "Unicode"    -> "Unicode:" \o Branch(t, ch)
    [] enc = "Symbol"     -> IF SymbolCode(ch, first) = NoCode THEN "Symbol:nocode"
                             ELSE (IF ch >= 61440 /\ ch <= 61695 THEN "Symbol:pua:" ELSE "Symbol:") \o Branch(t, SymbolCode(ch, first))
    [] enc = "AppleRoman" -> IF ch \in MacRomanChars THEN "AppleRoman:mac:" \o Branch(t, UniToMac(ch))
                             ELSE IF ch >= 61440 /\ ch <= 61695 THEN "AppleRoman:pua"
                             ELSE "AppleRoman:notmac"
    [] enc = "Big5"       -> IF ch \in Big5SampleChars THEN "Big5:" \o Branch(t, UniToBig5(ch))
                             ELSE IF ch \in NotBig5Chars THEN "Big5:notbig5" ELSE "Big5:unknown"

---------------------------------------------------------------------------
\* Conversions as relations of <<code, char>> pairs.  enc: the pairs the encoder (char -> code)
\* defines, dec: the pairs the decoder (code -> char) defines.  Mutual inverses: same relation.
InverseDiff(enc, dec) == [encOnly |-> enc \ dec, decOnly |-> dec \ enc]
MutualInverses(enc, dec) == enc = dec
\* Conformance of the Mac Roman encoder to the table above (either currency variant).
MacEncDiff(enc) ==
  [wrong   |-> {p \in enc : p \notin MacRomanPairs},
   missing |-> {p \in MacRomanPairs \ Dev_MacCurrency : p \notin enc /\ p[1] \notin Dev_MacRomanPdfSubset}
               \cup (IF Dev_MacCurrency \cap enc = {} THEN {<<219, 0>>} ELSE {})]

\* Big5 codes: a single byte below 0x80, or lead byte 0x81..0xFE followed by 0x40..0x7E / 0xA1..0xFE.
ValidBig5Code(b) ==
  \/ b >= 0 /\ b < 128
  \/ LET hi == b \div 256  lo == b % 256 IN
     hi >= 129 /\ hi <= 254 /\ ((lo >= 64 /\ lo <= 126) \/ (lo >= 161 /\ lo <= 254))
\* Dev_Big5DecodeSuperset: Big5 contains duplicate characters and the WHATWG index allsorts uses
\* decodes the HKSCS area without encoding to it, so the decoder may accept valid double-byte
\* codes the encoder never produces.  Everything the encoder produces must decode back, and the
\* decoder must not accept what is not a Big5 code.
Big5Diff(enc, dec) ==
  [encOnly |-> enc \ dec,
   decOnly |-> {p \in dec \ enc : ~(ValidBig5Code(p[1]) /\ p[1] >= 256)},
   missing |-> {p \in Big5SampleAll : p \notin enc /\ \E q \in enc \cup dec : q[1] \div 256 = p[1] \div 256}]

---------------------------------------------------------------------------
\* Design invariants (checked by MC_Cmap on every generated table).
\* 1. enumeration and single lookups agree; codes that are not listed are unmapped
EnumerateEqualsLookups(t, probes) ==
  LET Cv == Covered(t)  M == Mappings(t) IN
  /\ \A m \in M : m[1] \in Cv /\ Map(t, m[1]) = m[2]
  /\ \A c \in probes : c \notin Cv => Map(t, c) = 0
  /\ \A c \in probes : Map(t, c) \notin {0, BAD} => <<c, Map(t, c)>> \in M
\* 2. binary search = the first containing segment / group, given sorted tables
SearchIsLinear(t, probes) ==
  /\ t.fmt = 4  => (Sorted4(t.segs) => \A c \in probes : Map4(t, c) = Map4Lin(t, c))
  /\ t.fmt = 12 => (Sorted12(t.groups) => \A c \in probes : Map12(t, c) = Map12Lin(t, c))
\* 3. every glyph id is a u16 or BAD
GlyphRange(t, probes) == \A c \in probes : Map(t, c) \in {BAD} \cup 0 .. 65535
\* 4. the preferred record has the best rank, and ranks of supported records are below 8
PreferenceOrder(recs) ==
  LET k == Preferred(recs) IN
  IF k = 0 THEN \A i \in 1 .. Len(recs) : RankC(recs[i]) = 8
  ELSE /\ RankC(recs[k]) < 8
       /\ \A i \in 1 .. Len(recs) : RankC(recs[k]) <= RankC(recs[i])
       /\ \A i \in 1 .. (k - 1) : RankC(recs[i]) > RankC(recs[k])
\* 5. the Mac Roman table is a bijection up to the currency alternative
MacRomanInverse ==
  /\ \A p \in MacRomanPairs : p[2] \in MacRomanChars
  /\ \A ch \in MacRomanChars \ {164, 8364} : MacToUni(UniToMac(ch)) = ch
  /\ UniToMac(164) = 219 /\ UniToMac(8364) = 219
  /\ Cardinality(MacRomanChars) = 257
=============================================================================
