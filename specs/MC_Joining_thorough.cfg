CONSTANTS
  LenMain <- LenThorough
  LenLang = 4
SPECIFICATION Spec
INVARIANTS SmallStepIsClosedForm Design FontFaithful Emit
CHECK_DEADLOCK FALSE
