CONSTANTS
  CodeKeys = TRUE
  HasFV = TRUE
  HasImages = TRUE
  StoreFailed = FALSE
  PosKeyMode = "abs"
  IdxKeyMode = "abs"
SPECIFICATION TSpec
POSTCONDITION AllConsumed
CHECK_DEADLOCK FALSE
