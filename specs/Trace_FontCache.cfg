CONSTANTS
  CodeKeys = TRUE
  HasFV = TRUE
  HasImages = TRUE
  StoreFailed = FALSE
  PosKeyMode = "abs"
  IdxKeyMode = "abs"
  ImgKeepMode = "none"
  LookupsCap = 0
  FailKeep = FALSE
  RegionMemo = FALSE
  NegCache = FALSE
  SubMRU = FALSE
SPECIFICATION TSpec
POSTCONDITION AllConsumed
CHECK_DEADLOCK FALSE
