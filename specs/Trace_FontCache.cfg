CONSTANTS
  CodeKeys = TRUE
  HasFV = TRUE
  HasImages = TRUE
SPECIFICATION TSpec
POSTCONDITION AllConsumed
CHECK_DEADLOCK FALSE
