----------------------------- MODULE FontCache -----------------------------
(***************************************************************************)
(* The memoising state of allsorts' Font object (src/font.rs) and of its   *)
(* GSUB layout cache (src/layout.rs LayoutCacheData, src/gsub.rs           *)
(* get_lookups_cache_index), and the public queries that read and fill it. *)
(* Property C03: every query returns what it would return on a freshly     *)
(* loaded font, whatever was asked before.                                 *)
(*                                                                         *)
(* Font content is abstract: the value of a query is a TERM naming every   *)
(* argument (and every piece of configuration) the true value depends on.  *)
(* A memo slot stores the term it was filled with, so a slot keyed on      *)
(* fewer arguments than its value depends on hands back a term that names  *)
(* OTHER arguments - that is a stale read, and the query is impure.        *)
(*                                                                         *)
(* CodeKeys = TRUE  : slots keyed as the code keys them                    *)
(* CodeKeys = FALSE : slots keyed on everything the value depends on       *)
(* TLC proves Pure for the second and enumerates, for the first, which     *)
(* histories the code's keys make impure (with the slot to blame); the     *)
(* harness replays the histories on real Font objects.                     *)
(***************************************************************************)
EXTENDS Integers, Sequences, FiniteSets, TLC

CONSTANTS CodeKeys,      \* BOOLEAN
          HasFV,         \* the font's GSUB has FeatureVariations: lookups depend on the tuple
          HasImages      \* the font has an embedded-image table

\* ---- slots --------------------------------------------------------------
\*  glyph   : function key -> term        (font.rs GlyphCache: only U+25CC is cached)
\*  images  : function key -> filter value the image tables were selected under (LazyLoad embedded_images:
\*            one slot in the code; keyed by the filter in the intended design)
\*  lookups : function key -> term        (lookups_index + cached_lookups)
\*  lazy    : set of loaded constant tables (gdef, morx, gsub, gpos, kern, vhea, vmtx, os2)
\*  filter  : current embedded image filter (configuration, set by set_embedded_image_filter)
InitState == [glyph |-> <<>>, images |-> <<>>, lookups |-> <<>>, lazy |-> {}, filter |-> "default"]

Put(f, k, v) == [x \in (DOMAIN f) \cup {k} |-> IF x = k THEN v ELSE f[x]]

\* ---- what values depend on -----------------------------------------------
Resolve(ch, vs) == IF vs # "none" THEN vs ELSE IF ch = "EM" THEN "VS16" ELSE "VS15"
\* which image tables a filter lets through (only matters when the font has any)
ImagesUnder(f) == IF HasImages THEN f ELSE "n/a"
\* region of the design space as far as GSUB FeatureVariations distinguish it
FV(t) == IF HasFV THEN t ELSE "n/a"

\* has_embedded_images()/lookup_glyph_image(): the image tables are selected on first use
\* returns [st, val, stale]
ImagesKey(st) == IF CodeKeys THEN "slot" ELSE ImagesUnder(st.filter)
ReadImages(st) ==
  LET k == ImagesKey(st) IN
  IF k \notin DOMAIN st.images
  THEN [st |-> [st EXCEPT !.images = Put(@, k, st.filter)], val |-> ImagesUnder(st.filter), stale |-> {}]
  ELSE [st |-> st, val |-> ImagesUnder(st.images[k]),
        stale |-> IF ImagesUnder(st.images[k]) # ImagesUnder(st.filter) THEN {"images.filter"} ELSE {}]

\* map_unicode_to_glyph returns (glyph, selector used).  The glyph depends on the presentation
\* only when it is Required (then on the image tables for VS16); the selector used is always
\* part of the answer.
\* returns [st, val, stale]
MapChar(st, ch, pres, vs) ==
  IF pres = "NotReq" THEN [st |-> st, val |-> <<"gid", ch, Resolve(ch, vs)>>, stale |-> {}]
  ELSE IF Resolve(ch, vs) = "VS16"
       THEN LET r == ReadImages(st) IN [st |-> r.st, val |-> <<"gid", ch, "VS16", "req", r.val>>, stale |-> r.stale]
       ELSE [st |-> st, val |-> <<"gid", ch, Resolve(ch, vs), "req">>, stale |-> {}]

\* Code: one slot for U+25CC, consulted and filled only by the plain lookup (NotRequired, no
\* selector) - the lookup Font::shape makes.  Intended design: any keying that names every argument.
Cacheable(ch, pres, vs) ==
  IF CodeKeys THEN ch = "DC" /\ pres = "NotReq" /\ vs = "none" ELSE ch = "DC"
GlyphKey(ch, pres, vs, st) ==
  IF CodeKeys THEN ch
  ELSE <<ch, pres, Resolve(ch, vs), IF pres = "Req" /\ Resolve(ch, vs) = "VS16" THEN ImagesUnder(st.filter) ELSE "-">>

\* lookup_glyph_index
LookupGlyph(st, ch, pres, vs) ==
  IF ~Cacheable(ch, pres, vs) THEN MapChar(st, ch, pres, vs)
  ELSE LET k == GlyphKey(ch, pres, vs, st) IN
       IF k \in DOMAIN st.glyph
       THEN LET fresh == MapChar([InitState EXCEPT !.filter = st.filter], ch, pres, vs) IN   \* a fresh font's answer
            [st |-> st, val |-> st.glyph[k],
             stale |-> IF st.glyph[k] # fresh.val THEN {"glyph.dottedCircle"} ELSE {}]
       ELSE LET r == MapChar(st, ch, pres, vs) IN
            [st |-> [r.st EXCEPT !.glyph = Put(@, k, r.val)], val |-> r.val, stale |-> r.stale]

RECURSIVE MapText(_, _, _)
\* map_glyphs over a text (sequence of [ch, vs])
MapText(st, text, pres) ==
  IF text = <<>> THEN [st |-> st, val |-> <<>>, stale |-> {}]
  ELSE LET a == LookupGlyph(st, text[1].ch, pres, text[1].vs)
           b == MapText(a.st, Tail(text), pres) IN
       [st |-> b.st, val |-> <<a.val>> \o b.val, stale |-> a.stale \cup b.stale]

LookupsTerm(s, l, m, t) == <<"lookups", s, l, m, FV(t)>>
LookupsKey(s, l, m, t)  == IF CodeKeys THEN <<s, l, m>> ELSE <<s, l, m, FV(t)>>

\* get_lookups_cache_index + cached_lookups
ReadLookups(st, s, l, m, t) ==
  LET k == LookupsKey(s, l, m, t) IN
  IF k \in DOMAIN st.lookups
  THEN [st |-> st, val |-> st.lookups[k],
        stale |-> IF st.lookups[k] # LookupsTerm(s, l, m, t) THEN {"lookupsIndex.tuple"} ELSE {}]
  ELSE [st |-> [st EXCEPT !.lookups = Put(@, k, LookupsTerm(s, l, m, t))], val |-> LookupsTerm(s, l, m, t), stale |-> {}]

\* Font::shape: loads the layout tables, looks the dotted circle up (NotRequired, no selector),
\* fetches the lookups for (script, lang, mask) under the tuple, applies them
Shape(st, c) ==
  LET st1 == [st EXCEPT !.lazy = @ \cup {"gsub", "gpos", "gdef", "morx", "kern"}]
      dc  == LookupGlyph(st1, "DC", "NotReq", "none")
      lk  == ReadLookups(dc.st, c.script, c.lang, c.mask, c.tuple) IN
  [st |-> lk.st, val |-> <<"shape", c.text, c.kern, dc.val, lk.val>>, stale |-> dc.stale \cup lk.stale]

\* ---- queries --------------------------------------------------------------
\* call records: [op |-> ..., ...]; Step returns [st, ret, stale]
Step(st, c) ==
  CASE c.op = "LookupGlyph" -> LET r == LookupGlyph(st, c.ch, c.pres, c.vs) IN [st |-> r.st, ret |-> r.val, stale |-> r.stale]
    [] c.op = "MapGlyphs"   -> LET r == MapText(st, c.text, c.pres) IN [st |-> r.st, ret |-> <<"map", c.script, r.val>>, stale |-> r.stale]
    [] c.op = "Shape"       -> LET r == Shape(st, c) IN [st |-> r.st, ret |-> r.val, stale |-> r.stale]
    [] c.op = "Image"       -> LET r == ReadImages(st) IN [st |-> r.st, ret |-> <<"img", c.g, r.val>>, stale |-> r.stale]
    [] c.op = "HasImages"   -> LET r == ReadImages(st) IN [st |-> r.st, ret |-> <<"has", r.val>>, stale |-> r.stale]
    \* set_embedded_image_filter forgets the image tables selected under another filter
    [] c.op = "SetFilter"   -> [st |-> [st EXCEPT !.filter = c.f,
                                                 !.images = IF CodeKeys /\ c.f # st.filter THEN <<>> ELSE @],
                                ret |-> "unit", stale |-> {}]
    [] c.op = "HAdvance"    -> [st |-> st, ret |-> <<"hadv", c.g>>, stale |-> {}]
    [] c.op = "VAdvance"    -> [st |-> [st EXCEPT !.lazy = @ \cup {"vhea", "vmtx"}], ret |-> <<"vadv", c.g>>, stale |-> {}]
    [] c.op = "GlyphNames"  -> [st |-> st, ret |-> <<"names", c.g>>, stale |-> {}]

\* the same call on a freshly loaded font carrying the same configuration
Fresh(st, c) == Step([InitState EXCEPT !.filter = st.filter], c).ret

\* C03 for one step
PureStep(st, c) == Step(st, c).ret = Fresh(st, c)
\* a stale read is the only way to be impure, and it always is one (the model's own consistency)
StaleIffImpure(st, c) == (Step(st, c).stale # {}) <=> ~PureStep(st, c)

AllCauses == <<"glyph.dottedCircle", "images.filter", "lookupsIndex.tuple">>
CausesSeq(S) == SelectSeq(AllCauses, LAMBDA x : x \in S)
=============================================================================
