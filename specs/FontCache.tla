----------------------------- MODULE FontCache -----------------------------
(***************************************************************************)
(* The memoising state of allsorts' Font object (src/font.rs), of its      *)
(* GSUB/GPOS layout caches (src/layout.rs LayoutCacheData, src/gsub.rs     *)
(* get_lookups_cache_index) and of the ReadCache of parsed Coverage and    *)
(* ClassDef tables (src/binary/read.rs), and the public queries that read  *)
(* and fill them.                                                          *)
(* Property C03: every query returns what it would return on a freshly     *)
(* loaded font, whatever was asked before.                                 *)
(*                                                                         *)
(* Font content is abstract: the value of a query is a TERM naming every   *)
(* argument (and every piece of configuration) the true value depends on.  *)
(* A memo slot stores the term it was filled with, so a slot keyed on      *)
(* fewer arguments than its value depends on hands back a term that names  *)
(* OTHER arguments - that is a stale read, and the query is impure.        *)
(*                                                                         *)
(* CodeKeys = TRUE  : slots keyed as the code keys them                    *)
(* CodeKeys = FALSE : slots keyed on everything the value depends on       *)
(* TLC proves Pure for the second and enumerates, for the first, which     *)
(* histories the code's keys make impure (with the slot to blame); the     *)
(* harness replays the histories on real Font objects.                     *)
(*                                                                         *)
(* Three more constants name DEFECT CLASSES the design excludes (the code  *)
(* and the design both have them switched off); switching one on must make *)
(* TLC predict impure histories - that is how the driver knows that the    *)
(* universe of fonts and calls is able to expose the class at all:         *)
(*   StoreFailed : a lazy slot is filled although its load FAILED, so the  *)
(*                 error is reported once and "table absent" ever after    *)
(*   PosKeyMode  : the ReadCache key of a Coverage/ClassDef object -       *)
(*                 "abs" its absolute position in the layout table, or a   *)
(*                 narrowing of it: "u16", "u8" (position truncated),      *)
(*                 "rel" (offset relative to the sub-table)                *)
(*   IdxKeyMode  : the key of a parsed lookup - "abs" its index, "u8"      *)
(*   ImgKeepMode : when set_embedded_image_filter keeps the image tables   *)
(*                 selected under the previous filter - "none" (any change *)
(*                 of the filter forgets them), or "superset" / "subset"   *)
(*                 (kept when the new filter contains / is contained in    *)
(*                 the old one), "always"                                  *)
(*   LookupsCap  : 0 = cached_lookups is an unbounded map (code, design);  *)
(*                 n > 0 = at most n lists are kept, a miss on a full      *)
(*                 cache is served through one scratch slot that the next  *)
(*                 miss overwrites (a handle to it dangles)                *)
(*   FailKeep    : a shaping call that fails half-way (a lookup of the    *)
(*                 `rvrn` stage does not parse) leaves working state      *)
(*                 behind in the layout cache that the next call through  *)
(*                 the same stage picks up (the glyph origins saved for   *)
(*                 the stage are not restored); in the code and in the    *)
(*                 design a failing call leaves nothing but filled memo   *)
(*                 slots, whose content does not depend on the failure    *)
(*   RegionMemo  : the scalar of a variation region of the GDEF item      *)
(*                 variation store is memoised inside the cached GDEF     *)
(*                 table without the tuple in its key; in the code and in *)
(*                 the design nothing that depends on the tuple is kept   *)
(*   NegCache    : lookup_glyph_image remembers, per glyph id alone, that  *)
(*                 a lookup found no image and answers "none" at once the  *)
(*                 next time (forgotten when the image filter changes);    *)
(*                 whether a glyph has an image also depends on the bit    *)
(*                 depth limit and the size asked for (strike selection);  *)
(*                 in the code and in the design nothing is kept per glyph *)
(*   SubMRU      : a parsed PairPos lookup remembers which of its          *)
(*                 sub-tables handled the last pair and starts the search  *)
(*                 there; in the code and in the design the sub-tables are *)
(*                 tried in order for every pair and nothing of an         *)
(*                 application outlives it                                 *)
(* The caches are UNBOUNDED MAPS: any bound, eviction or slot reuse in the *)
(* implementation is a behaviour this model does not have.                 *)
(***************************************************************************)
EXTENDS Integers, Sequences, FiniteSets, TLC

CONSTANTS CodeKeys,      \* BOOLEAN
          HasFV,         \* the font's GSUB has FeatureVariations: lookups depend on the tuple
          HasImages,     \* the font has an embedded-image table
          StoreFailed,   \* BOOLEAN, FALSE in the code and in the design
          PosKeyMode,    \* "abs" in the code and in the design
          IdxKeyMode,    \* "abs" in the code and in the design
          ImgKeepMode,   \* "none" in the code and in the design
          LookupsCap,    \* 0 in the code and in the design
          FailKeep,      \* BOOLEAN, FALSE in the code and in the design
          RegionMemo,    \* BOOLEAN, FALSE in the code and in the design
          NegCache,      \* BOOLEAN, FALSE in the code and in the design
          SubMRU         \* BOOLEAN, FALSE in the code and in the design

\* ---- the font ------------------------------------------------------------
\* A font descriptor is the part of the font's content the cache model has to know:
\*   fam     : "intact" | "dmg" | "collide"  (which universe of calls is explored on it)
\*   damaged : sequence of lazily loaded table kinds that are present but whose load fails
\*             (gsub gpos gdef morx kern vhea vmtx images)
\*   lookups : sequence of the layout lookups whose parsing is modelled
\*             [tbl, idx, feat, typ, ext, sub, l2, objs, nested]
\*               tbl "GSUB"|"GPOS", idx lookup index, feat the feature that activates it,
\*               objs the Coverage/ClassDef objects its sub-table refers to, in the order they are read:
\*                 [kind "cov"|"cls", pos absolute position, rel position relative to the sub-table, content]
\*               nested: indices of lookups applied through its rules
\*               (typ, ext, sub tell the harness how to lay the bytes out, l2 whether the feature also belongs
\*                to the font's second language system; the model ignores them - a call names the features
\*                that are in force, `feats`)
\*   imgs    : the embedded-image tables the font carries (all of them hold an image of the glyphs asked for),
\*             a bit set: 1 = SVG, 2 = CBDT/CBLC, 4 = sbix, 8 = EBDT/EBLC - the order of precedence of
\*             Font::embedded_images; an image filter is a bit set of the same kinds
\*   sub     : sub-family (which generator of histories runs on it; the model ignores it)
\* Optional fields (fonts of the `var` family; absent = the default):
\*   fv      : FALSE = the GSUB has no FeatureVariations, so no lookup list depends on the tuple (default TRUE:
\*             the most pessimistic font)
\*   fvt     : GSUB and GPOS have one FeatureVariations record; the tuples that satisfy its condition set.  A lookup
\*             with a field `alt` belongs to the default feature table only ("dflt") or to the substituted one ("alt")
\*   strikes : fonts of the `strike` family: the strikes of the font's one bitmap table (EBLC/EBDT or CBLC/CBDT), in
\*             table order: [ppem, depth, first, last] - size, bit depth, range of glyphs that have a bitmap in it
\* Optional fields of a lookup:
\*   subs    : GPOS, typ "pairs": the PairPos sub-tables of the lookup, in order:
\*             [fmt 1, cov (first glyphs), pairs (the glyph pairs listed), val] - handles exactly the listed pairs;
\*             [fmt 2, cov, cls2 (the second glyphs of class 1), val] - handles EVERY pair whose first glyph is covered
\*             (second glyphs outside cls2 get the zero record of class 0)
\*   scr     : the scripts whose language system has the lookup's feature (default: every script)
\*   regs    : GPOS: the regions of the GDEF item variation store that the VariationIndex tables of the
\*             lookup's value records refer to (default none: positioning does not depend on the tuple)
\*   typ "missing" (the feature names a lookup index the lookup list does not have) and "badtype" (the Lookup
\*             table has a lookup type that does not exist): using the lookup fails, on every Font object alike.
\*             "badcov" (the sub-table's Coverage does not parse) does NOT fail: allsorts skips a sub-table
\*             that does not parse, the lookup is stored without it and nothing enters the ReadCache
Range(s) == {s[i] : i \in DOMAIN s}
IsDamaged(font, k) == k \in Range(font.damaged)

\* ---- slots --------------------------------------------------------------
\*  glyph   : function key -> term        (font.rs GlyphCache: only U+25CC is cached)
\*  images  : function key -> the image table that was selected (LazyLoad embedded_images: one slot in the code;
\*            keyed by the filter in the intended design); 0 = none, ImgAbsent = Loaded(None) after a failed load
\*  lookups : function key -> term        (lookups_index + cached_lookups)
\*  supported : function <<script, lang>> -> term   (supported_features: the feature mask of a language system)
\*  lazy    : function table kind -> "ok" (LazyLoad::Loaded) | "failed" (a load was attempted and failed: the
\*            slot is still NotLoaded - the mark only records that the history went through a failing load)
\*            | "absent" (defect StoreFailed only: Loaded(None) after a failed load)
\*  parsed  : function <<tbl, key of lookup index>> -> term of the parsed lookup (LayoutCacheData.lookup_cache)
\*  objs    : function <<tbl, kind, key of position>> -> term of the parsed object (coverages / classdefs)
\*  filter  : current embedded image filter (configuration, set by set_embedded_image_filter)
\*  scratch : the list last served through the scratch slot of a bounded cached_lookups (LookupsCap > 0 only)
SVG == 1  CBDT == 2  SBIX == 4  EBDT == 8
DefaultFilter == 7        \* Font::new: SVG | SBIX | CBDT
\*  leftover : FailKeep only: the `rvrn` stage of the last shaping call failed and its working state is still there
\*  regions  : RegionMemo only: function region -> term of the memoised scalar
\*  noimage  : NegCache only: the glyph ids a lookup_glyph_image found no image for
\*  mru      : SubMRU only: function <<tbl, lookup index>> -> the sub-table that handled the last pair
InitStateOf(font) == [font |-> font, glyph |-> <<>>, images |-> <<>>, lookups |-> <<>>, supported |-> <<>>, lazy |-> <<>>,
                      parsed |-> <<>>, objs |-> <<>>, filter |-> DefaultFilter, scratch |-> <<>>,
                      leftover |-> FALSE, regions |-> <<>>, noimage |-> {}, mru |-> <<>>]
\* the most pessimistic intact font: it has every image table, so every filter may select another one
PlainFont == [fam |-> "intact", damaged |-> <<>>, lookups |-> <<>>, imgs |-> 15, sub |-> ""]
InitState == InitStateOf(PlainFont)

Put(f, k, v) == [x \in (DOMAIN f) \cup {k} |-> IF x = k THEN v ELSE f[x]]

\* ---- lazily loaded tables (font.rs LazyLoad::get_or_load) -------------------
\* what loading the table gives now: an error for a damaged table, the table (or its absence) otherwise
LoadNow(st, k) == IF IsDamaged(st.font, k) THEN "err" ELSE "ok"
\* returns [st, val, stale]; a failing load leaves the slot NotLoaded, so it is retried by the next query
ReadLazy(st, k) ==
  IF k \in DOMAIN st.lazy /\ st.lazy[k] # "failed"
  THEN [st |-> st, val |-> st.lazy[k],
        stale |-> IF st.lazy[k] # LoadNow(st, k) THEN {"lazy.failedLoad"} ELSE {}]
  ELSE IF LoadNow(st, k) = "err"
       THEN [st |-> [st EXCEPT !.lazy = Put(@, k, IF StoreFailed THEN "absent" ELSE "failed")], val |-> "err", stale |-> {}]
       ELSE [st |-> [st EXCEPT !.lazy = Put(@, k, "ok")], val |-> "ok", stale |-> {}]

\* ---- what values depend on -----------------------------------------------
Resolve(ch, vs) == IF vs # "none" THEN vs ELSE IF ch = "EM" THEN "VS16" ELSE "VS15"
\* Font::embedded_images: the first of SVG, CBDT, sbix, EBDT that the font has and the filter lets through
Bit(x, k) == (x \div k) % 2 = 1
FontImgs(font) == IF HasImages THEN font.imgs ELSE 0
Sel(imgs, f) == IF Bit(imgs, SVG) /\ Bit(f, SVG) THEN SVG
                ELSE IF Bit(imgs, CBDT) /\ Bit(f, CBDT) THEN CBDT
                ELSE IF Bit(imgs, SBIX) /\ Bit(f, SBIX) THEN SBIX
                ELSE IF Bit(imgs, EBDT) /\ Bit(f, EBDT) THEN EBDT ELSE 0
ImgErr == -2      \* the selected table fails to load
ImgAbsent == -1   \* slot content Loaded(None) stored after a failed load (defect StoreFailed only)
\* what selecting the image tables gives now: the selection depends on the font AND on the filter in force
ImagesNow(st) == LET s == Sel(FontImgs(st.font), st.filter) IN
                 IF s # 0 /\ IsDamaged(st.font, "images") THEN ImgErr ELSE s
ImagesStored(v) == IF v = ImgAbsent THEN 0 ELSE v
\* region of the design space as far as GSUB FeatureVariations distinguish it
FontFV(font) == IF "fv" \in DOMAIN font THEN font.fv ELSE TRUE
\* `fvt` (fonts of the var family with FeatureVariations): the tuples that satisfy the condition set of the one
\* FeatureVariations record - the lookup lists then depend on the tuple only through "alt" / "dflt"
FV(font, t) == IF ~(HasFV /\ FontFV(font)) THEN "n/a"
               ELSE IF "fvt" \in DOMAIN font THEN (IF t \in Range(font.fvt) THEN "alt" ELSE "dflt") ELSE t

\* has_embedded_images()/lookup_glyph_image(): the image tables are selected on first use
\* returns [st, val, stale]
ImagesKey(st) == IF CodeKeys THEN "slot" ELSE st.filter
ReadImages(st) ==
  LET k == ImagesKey(st) IN
  IF k \in DOMAIN st.images
  THEN [st |-> st, val |-> ImagesStored(st.images[k]),
        stale |-> IF ImagesStored(st.images[k]) = ImagesNow(st) THEN {}
                  ELSE IF st.images[k] = ImgAbsent THEN {"lazy.failedLoad"} ELSE {"images.filter"}]
  ELSE IF ImagesNow(st) = ImgErr
       THEN [st |-> IF StoreFailed THEN [st EXCEPT !.images = Put(@, k, ImgAbsent)]
                    ELSE [st EXCEPT !.lazy = Put(@, "images", "failed")],
             val |-> ImgErr, stale |-> {}]
       ELSE [st |-> [st EXCEPT !.images = Put(@, k, ImagesNow(st))], val |-> ImagesNow(st), stale |-> {}]

\* ---- lookup_glyph_image on a bitmap table with several strikes (CBLCTable::find_strike) ---------------------
\* candidates: the strikes that hold the glyph and are not deeper than max_bit_depth; the first candidate is kept
\* until one of the same size and a higher bit depth, or one of a strictly better size comes (a size at or above the
\* target beats one below it, then the one closer to the target wins)
BiggerOrCloser(v, cur) == IF v = 0 THEN TRUE ELSE IF cur = 0 THEN FALSE
                          ELSE IF cur > 0 THEN v > 0 /\ v < cur ELSE v > cur
RECURSIVE BestStrike(_, _, _, _, _, _)
BestStrike(S, i, g, ppem, maxd, best) ==
  IF i > Len(S) THEN best
  ELSE LET s    == S[i]
           cand == s.first <= g /\ g <= s.last /\ s.depth <= maxd
           d    == s.ppem - ppem
           bd   == S[best].ppem - ppem IN
       BestStrike(S, i + 1, g, ppem, maxd,
                  IF ~cand THEN best
                  ELSE IF best = 0 THEN i
                  ELSE IF d = bd /\ s.depth > S[best].depth THEN i
                  ELSE IF d # bd /\ BiggerOrCloser(d, bd) THEN i ELSE best)
StrikeOf(font, c) == BestStrike(font.strikes, 1, c.g, c.ppem, c.depth, 0)
\* the value of lookup_glyph_image(g, ppem, max depth) when table `sel` is the selected one
ImageVal(font, sel, c) == IF sel = ImgErr THEN <<"img", c.g, "err">>
                          ELSE IF sel \notin {CBDT, EBDT} \/ StrikeOf(font, c) = 0 THEN <<"img", c.g, "none">>
                          ELSE <<"img", c.g, sel, "strike", StrikeOf(font, c)>>
\* returns [st, ret, stale]
ImageAt(st, c) ==
  IF NegCache /\ c.g \in st.noimage
  THEN [st |-> st, ret |-> <<"img", c.g, "none">>,
        stale |-> IF ImageVal(st.font, ImagesNow(st), c) # <<"img", c.g, "none">> THEN {"images.negativeGlyph"} ELSE {}]
  ELSE LET r == ReadImages(st)
           v == ImageVal(st.font, r.val, c) IN
       [st |-> IF NegCache /\ v = <<"img", c.g, "none">> THEN [r.st EXCEPT !.noimage = @ \cup {c.g}] ELSE r.st,
        ret |-> v, stale |-> IF v = ImageVal(st.font, ImagesNow(st), c) THEN {} ELSE r.stale]

\* set_embedded_image_filter: which changes of the filter forget the selected image tables
FilterWithin(a, b) == \A k \in {SVG, CBDT, SBIX, EBDT} : Bit(a, k) => Bit(b, k)
ForgetsImages(old, new) ==
  /\ new # old
  /\ CASE ImgKeepMode = "none"     -> TRUE
        [] ImgKeepMode = "superset" -> ~FilterWithin(old, new)
        [] ImgKeepMode = "subset"   -> ~FilterWithin(new, old)
        [] ImgKeepMode = "always"   -> FALSE

\* map_unicode_to_glyph returns (glyph, selector used).  The glyph depends on the presentation
\* only when it is Required (then on the image tables for VS16); the selector used is always
\* part of the answer.
\* returns [st, val, stale]
MapChar(st, ch, pres, vs) ==
  IF pres = "NotReq" THEN [st |-> st, val |-> <<"gid", ch, Resolve(ch, vs)>>, stale |-> {}]
  ELSE IF Resolve(ch, vs) = "VS16"
       THEN LET r == ReadImages(st) IN [st |-> r.st, val |-> <<"gid", ch, "VS16", "req", r.val>>, stale |-> r.stale]
       ELSE [st |-> st, val |-> <<"gid", ch, Resolve(ch, vs), "req">>, stale |-> {}]

\* Code: one slot for U+25CC, consulted and filled only by the plain lookup (NotRequired, no
\* selector) - the lookup Font::shape makes.  Intended design: any keying that names every argument.
Cacheable(ch, pres, vs) ==
  IF CodeKeys THEN ch = "DC" /\ pres = "NotReq" /\ vs = "none" ELSE ch = "DC"
GlyphKey(ch, pres, vs, st) ==
  IF CodeKeys THEN ch
  ELSE <<ch, pres, Resolve(ch, vs), IF pres = "Req" /\ Resolve(ch, vs) = "VS16" THEN ImagesNow(st) ELSE 0>>

\* the state of a freshly loaded font carrying the same configuration
FreshOf(st) == [InitStateOf(st.font) EXCEPT !.filter = st.filter]

\* lookup_glyph_index
LookupGlyph(st, ch, pres, vs) ==
  IF ~Cacheable(ch, pres, vs) THEN MapChar(st, ch, pres, vs)
  ELSE LET k == GlyphKey(ch, pres, vs, st) IN
       IF k \in DOMAIN st.glyph
       THEN LET fresh == MapChar(FreshOf(st), ch, pres, vs) IN   \* a fresh font's answer
            [st |-> st, val |-> st.glyph[k],
             stale |-> IF st.glyph[k] # fresh.val THEN {"glyph.dottedCircle"} ELSE {}]
       ELSE LET r == MapChar(st, ch, pres, vs) IN
            [st |-> [r.st EXCEPT !.glyph = Put(@, k, r.val)], val |-> r.val, stale |-> r.stale]

RECURSIVE MapText(_, _, _)
\* map_glyphs over a text (sequence of [ch, vs])
MapText(st, text, pres) ==
  IF text = <<>> THEN [st |-> st, val |-> <<>>, stale |-> {}]
  ELSE LET a == LookupGlyph(st, text[1].ch, pres, text[1].vs)
           b == MapText(a.st, Tail(text), pres) IN
       [st |-> b.st, val |-> <<a.val>> \o b.val, stale |-> a.stale \cup b.stale]

LookupsTerm(font, s, l, m, t) == <<"lookups", s, l, m, FV(font, t)>>
LookupsKey(font, s, l, m, t)  == IF CodeKeys THEN <<s, l, m>> ELSE <<s, l, m, FV(font, t)>>

\* get_lookups_cache_index hands out an INDEX into cached_lookups; the list is read afterwards.  The model's
\* handle is the key itself (an unbounded map never moves an entry); with LookupsCap > 0 a miss on a full cache
\* gets the scratch slot.  returns [st, h]
FetchLookups(st, s, l, m, t) ==
  LET k == LookupsKey(st.font, s, l, m, t) IN
  IF k \in DOMAIN st.lookups THEN [st |-> st, h |-> <<"key", k>>]
  ELSE IF LookupsCap = 0 \/ Cardinality(DOMAIN st.lookups) < LookupsCap
       THEN [st |-> [st EXCEPT !.lookups = Put(@, k, LookupsTerm(st.font, s, l, m, t))], h |-> <<"key", k>>]
       ELSE [st |-> [st EXCEPT !.scratch = LookupsTerm(st.font, s, l, m, t)], h |-> <<"scratch">>]
\* cached_lookups.borrow()[index]; returns [val, stale]
DerefLookups(st, h, s, l, m, t) ==
  LET v == IF h[1] = "key" THEN st.lookups[h[2]] ELSE st.scratch IN
  [val |-> v, stale |-> IF v = LookupsTerm(st.font, s, l, m, t) THEN {}
                        ELSE IF h[1] = "key" THEN {"lookupsIndex.tuple"} ELSE {"lookups.capacity"}]
\* fetch and read at once (every caller but the fraction path)
ReadLookups(st, s, l, m, t) ==
  LET f == FetchLookups(st, s, l, m, t)
      d == DerefLookups(f.st, f.h, s, l, m, t) IN
  [st |-> f.st, val |-> d.val, stale |-> d.stale]
\* gsub_apply_default with FRAC in the (supported) mask: the index for the mask with FRAC and the index for the
\* mask without it (m0) are both fetched before either list is read
ReadLookupsFrac(st, s, l, m, m0, t) ==
  LET f1 == FetchLookups(st, s, l, m, t)
      f2 == FetchLookups(f1.st, s, l, m0, t)
      d2 == DerefLookups(f2.st, f2.h, s, l, m0, t)
      d1 == DerefLookups(f2.st, f1.h, s, l, m, t) IN
  [st |-> f2.st, val |-> <<d1.val, d2.val>>, stale |-> d1.stale \cup d2.stale]

\* get_supported_features: the mask of a shaping call is intersected with the features of the language system
SupportedTerm(s, l) == <<"supported", s, l>>
ReadSupported(st, s, l) ==
  IF <<s, l>> \in DOMAIN st.supported
  THEN [st |-> st, val |-> st.supported[<<s, l>>],
        stale |-> IF st.supported[<<s, l>>] # SupportedTerm(s, l) THEN {"supported.lang"} ELSE {}]
  ELSE [st |-> [st EXCEPT !.supported = Put(@, <<s, l>>, SupportedTerm(s, l))], val |-> SupportedTerm(s, l), stale |-> {}]

\* ---- parsing a lookup on first use: lookup_cache + ReadCache ----------------
PosKey(o) == CASE PosKeyMode = "abs" -> o.pos
               [] PosKeyMode = "u16" -> o.pos % 65536
               [] PosKeyMode = "u8"  -> o.pos % 256
               [] PosKeyMode = "rel" -> o.rel
IdxKey(i) == IF IdxKeyMode = "u8" THEN i % 256 ELSE i
ObjTerm(o) == <<o.kind, o.content>>
LookupAt(font, tbl, idx) == CHOOSE L \in Range(font.lookups) : L.tbl = tbl /\ L.idx = idx
LookupTruth(L) == <<"lookup", L.idx, [i \in DOMAIN L.objs |-> ObjTerm(L.objs[i])]>>

RECURSIVE ReadObjs(_, _, _)
\* ReadScope::read_cache over the objects of one sub-table, in order; returns [st, val, stale]
ReadObjs(st, tbl, os) ==
  IF os = <<>> THEN [st |-> st, val |-> <<>>, stale |-> {}]
  ELSE LET o   == os[1]
           k   == <<tbl, o.kind, PosKey(o)>>
           hit == k \in DOMAIN st.objs
           t   == IF hit THEN st.objs[k] ELSE ObjTerm(o)
           r   == ReadObjs(IF hit THEN st ELSE [st EXCEPT !.objs = Put(@, k, t)], tbl, Tail(os)) IN
       [st |-> r.st, val |-> <<t>> \o r.val,
        stale |-> (IF t # ObjTerm(o) THEN {"readCache.position"} ELSE {}) \cup r.stale]

Broken(L) == L.typ \in {"missing", "badtype"}
Failed(v) == v # <<>> /\ v[Len(v)][1] = "ERR"
RECURSIVE UseLookup(_, _, _)
RECURSIVE UseSeq(_, _, _)
\* lookup_cache_gsub / lookup_cache_gpos followed by the application of the lookup; the lookups its
\* rules name are used in turn (the texts shaped on these fonts make every rule match)
UseLookup(st, tbl, idx) ==
  LET L     == LookupAt(st.font, tbl, idx) IN
  \* a lookup that does not parse: the error is reported and nothing is stored (the next use fails the same way)
  IF Broken(L) THEN [st |-> st, val |-> <<<<"lookup", idx, L.typ>>, <<"ERR">> >>, stale |-> {}] ELSE
  LET k     == <<tbl, IdxKey(idx)>>
      hit   == k \in DOMAIN st.parsed
      r     == IF hit THEN [st |-> st, val |-> <<>>, stale |-> {}] ELSE ReadObjs(st, tbl, L.objs)
      term  == IF hit THEN st.parsed[k] ELSE <<"lookup", idx, r.val>>
      st1   == IF hit THEN st ELSE [r.st EXCEPT !.parsed = Put(@, k, term)]
      here  == IF ~hit THEN r.stale
               ELSE IF term[2] # idx THEN {"lookupCache.index"}
               ELSE IF term # LookupTruth(L) THEN {"readCache.position"} ELSE {}
      n     == UseSeq(st1, tbl, L.nested) IN
  [st |-> n.st, val |-> <<term>> \o n.val, stale |-> here \cup n.stale]
\* the first lookup that fails ends the stage (`?`): the lookups after it are not touched
UseSeq(st, tbl, idxs) ==
  IF idxs = <<>> THEN [st |-> st, val |-> <<>>, stale |-> {}]
  ELSE LET a == UseLookup(st, tbl, idxs[1]) IN
       IF Failed(a.val) THEN a
       ELSE LET b == UseSeq(a.st, tbl, Tail(idxs)) IN
            [st |-> b.st, val |-> a.val \o b.val, stale |-> a.stale \cup b.stale]

\* the lookups of `tbl` activated by a set of features, in lookup-index order
InScript(L, s) == IF "scr" \in DOMAIN L THEN s \in Range(L.scr) ELSE TRUE
InRegion(L, font, t) == IF "alt" \in DOMAIN L THEN L.alt = FV(font, t) ELSE TRUE
ActiveSet(font, tbl, feats, s, t) ==
  {L.idx : L \in {M \in Range(font.lookups) : M.tbl = tbl /\ M.feat \in Range(feats) /\ InScript(M, s) /\ InRegion(M, font, t)}}
RECURSIVE Ascending(_)
Ascending(S) == IF S = {} THEN <<>>
                ELSE LET m == CHOOSE x \in S : \A y \in S : x <= y IN <<m>> \o Ascending(S \ {m})
UseFeatures(st, tbl, feats, s, t) == UseSeq(st, tbl, Ascending(ActiveSet(st.font, tbl, feats, s, t)))

\* ---- the `rvrn` stage of gsub_apply_default (variation tuple given, Features::Mask) ------------------
\* The lookup list of (script, lang, RVRN) is fetched and its lookups are applied before anything else; the glyph
\* origins are saved before and restored after the stage (working state of ONE call).  A lookup that fails
\* ends the whole GSUB stage of the call.
RvrnOf(font, s, t) == Ascending(ActiveSet(font, "GSUB", <<"rvrn">>, s, t))
RvrnStage(st, c) ==
  LET lk    == ReadLookups(st, c.script, c.lang, "RVRN", c.tuple)
      u     == UseSeq(lk.st, "GSUB", RvrnOf(st.font, c.script, c.tuple))
      dirty == FailKeep /\ st.leftover /\ ~Failed(u.val) IN
  [st |-> [u.st EXCEPT !.leftover = FailKeep /\ Failed(u.val)],
   val |-> <<"rvrn", lk.val, u.val, IF dirty THEN "origins lost" ELSE "origins kept">>,
   failed |-> Failed(u.val),
   stale |-> lk.stale \cup u.stale \cup (IF dirty THEN {"scratch.failedCall"} ELSE {})]

\* ---- GPOS value records with VariationIndex tables: deltas from the GDEF item variation store -----------
\* adjustment = sum over the regions of scalar(region, tuple) x delta; nothing of it outlives the call
RegsOf(L) == IF "regs" \in DOMAIN L THEN L.regs ELSE <<>>
ScalarTerm(r, t) == <<"scalar", r, t>>
RECURSIVE ReadRegions(_, _, _)
ReadRegions(st, rs, t) ==
  IF rs = <<>> THEN [st |-> st, val |-> <<>>, stale |-> {}]
  ELSE LET r   == rs[1]
           hit == RegionMemo /\ r \in DOMAIN st.regions
           v   == IF hit THEN st.regions[r] ELSE ScalarTerm(r, t)
           n   == ReadRegions(IF RegionMemo /\ ~hit THEN [st EXCEPT !.regions = Put(@, r, v)] ELSE st, Tail(rs), t) IN
       [st |-> n.st, val |-> <<v>> \o n.val, stale |-> (IF v # ScalarTerm(r, t) THEN {"gdef.regionScalar"} ELSE {}) \cup n.stale]
RECURSIVE RegsOfSeq(_, _, _)
RegsOfSeq(font, tbl, idxs) == IF idxs = <<>> THEN <<>> ELSE RegsOf(LookupAt(font, tbl, idxs[1])) \o RegsOfSeq(font, tbl, Tail(idxs))

Nothing(st) == [st |-> st, val |-> <<>>, stale |-> {}]

\* ---- GPOS pair adjustment: the sub-tables of a PairPos lookup are tried in order for every pair -------------
\* (gpos_lookup_pairpos / PairPos::apply: format 1 handles the pairs it lists, format 2 every pair whose first
\* glyph its Coverage has).  The term of a pair names the sub-table that handled it (0 = none).
Handles(s, a, b) == IF s.fmt = 1 THEN <<a, b>> \in Range(s.pairs) ELSE a \in Range(s.cov)
RECURSIVE FirstFrom(_, _, _, _, _)
\* the first sub-table in the order start, start + 1, .., n, 1, .., start - 1 that handles (a, b); k = number tried
FirstFrom(subs, start, k, a, b) ==
  IF k = Len(subs) THEN 0
  ELSE LET j == ((start - 1 + k) % Len(subs)) + 1 IN
       IF Handles(subs[j], a, b) THEN j ELSE FirstFrom(subs, start, k + 1, a, b)
RECURSIVE PairRun(_, _, _, _)
\* forall_glyph_pairs_match: every pair of neighbours, left to right; returns [st, val]
PairRun(st, L, glyphs, i) ==
  IF i >= Len(glyphs) THEN [st |-> st, val |-> <<>>]
  ELSE LET key   == <<L.tbl, L.idx>>
           start == IF SubMRU /\ key \in DOMAIN st.mru THEN st.mru[key] ELSE 1
           j     == FirstFrom(L.subs, start, 0, glyphs[i], glyphs[i + 1])
           n     == PairRun(IF SubMRU /\ j # 0 THEN [st EXCEPT !.mru = Put(@, key, j)] ELSE st, L, glyphs, i + 1) IN
       [st |-> n.st, val |-> << <<glyphs[i], glyphs[i + 1], j>> >> \o n.val]
RECURSIVE ApplyPairs(_, _, _, _)
\* the PairPos lookups among the active GPOS lookups, in order; a remembered sub-table is a stale read when the run
\* differs from the run of a font object that remembers nothing
ApplyPairs(st, tbl, idxs, glyphs) ==
  IF idxs = <<>> THEN Nothing(st)
  ELSE LET L == LookupAt(st.font, tbl, idxs[1]) IN
       IF "subs" \notin DOMAIN L THEN ApplyPairs(st, tbl, Tail(idxs), glyphs)
       ELSE LET mine  == PairRun(st, L, glyphs, 1)
                fresh == PairRun([st EXCEPT !.mru = <<>>], L, glyphs, 1)
                n     == ApplyPairs(mine.st, tbl, Tail(idxs), glyphs) IN
            [st |-> n.st, val |-> << <<"pairs", L.idx, mine.val>> >> \o n.val,
             stale |-> (IF mine.val # fresh.val THEN {"lookupCache.lastSubtable"} ELSE {}) \cup n.stale]

\* Font::shape: loads the five layout tables (gsub, gpos, gdef, morx, kern - the first error is reported
\* and shaping goes on without that table), looks the dotted circle up (NotRequired, no selector),
\* fetches the lookups for (script, lang, mask) under the tuple (Features::Mask only - custom feature
\* lists are not cached; `frac`: the mask, intersected with the features of the language system, has FRAC, and
\* `mask0` is that mask without FRAC - otherwise mask0 = mask), parses and applies them
Shape(st, c) ==
  LET g1  == ReadLazy(st, "gsub")
      g2  == ReadLazy(g1.st, "gpos")
      g3  == ReadLazy(g2.st, "gdef")
      g4  == ReadLazy(g3.st, "morx")
      g5  == ReadLazy(g4.st, "kern")
      dc  == LookupGlyph(g5.st, "DC", "NotReq", "none")
      \* gsub_apply_default under a tuple: the rvrn stage comes first; when it fails the GSUB stage is over
      rv  == IF g1.val = "ok" /\ ~c.custom /\ c.tuple # "none" THEN RvrnStage(dc.st, c)
             ELSE [st |-> dc.st, val |-> "n/a", failed |-> FALSE, stale |-> {}]
      sp  == IF g1.val # "ok" \/ c.custom \/ rv.failed THEN [st |-> rv.st, val |-> "n/a", stale |-> {}]
             ELSE ReadSupported(rv.st, c.script, c.lang)
      lk  == IF g1.val # "ok" \/ rv.failed THEN [st |-> sp.st, val |-> "no gsub", stale |-> {}]
             ELSE IF c.custom THEN [st |-> sp.st, val |-> LookupsTerm(st.font, c.script, c.lang, c.mask, c.tuple), stale |-> {}]
             ELSE IF c.frac THEN ReadLookupsFrac(sp.st, c.script, c.lang, c.mask, c.mask0, c.tuple)
             ELSE ReadLookups(sp.st, c.script, c.lang, c.mask, c.tuple)
      sub == IF g1.val = "ok" /\ ~rv.failed THEN UseFeatures(lk.st, "GSUB", c.feats, c.script, c.tuple) ELSE Nothing(lk.st)
      \* GPOS goes on whatever happened in GSUB (Font::shape reports the first error and forges ahead)
      pidx == Ascending(ActiveSet(st.font, "GPOS", c.feats, c.script, c.tuple))
      pos == IF g2.val = "ok" THEN UseSeq(sub.st, "GPOS", pidx) ELSE Nothing(sub.st)
      \* pair adjustment (calls that name the glyphs of their text: fonts of the pairs family)
      pp  == IF g2.val = "ok" /\ "glyphs" \in DOMAIN c /\ ~Failed(pos.val) THEN ApplyPairs(pos.st, "GPOS", pidx, c.glyphs)
             ELSE Nothing(pos.st)
      \* the deltas of the value records: only under a tuple and with a GDEF
      dl  == IF g2.val = "ok" /\ g3.val = "ok" /\ c.tuple # "none" /\ ~Failed(pos.val)
             THEN ReadRegions(pp.st, RegsOfSeq(st.font, "GPOS", pidx), c.tuple) ELSE Nothing(pp.st) IN
  [st |-> dl.st,
   val |-> <<"shape", c.text, c.kern, <<g1.val, g2.val, g3.val, g4.val, g5.val>>, dc.val, rv.val, sp.val, lk.val, sub.val, pos.val, pp.val, dl.val>>,
   stale |-> g1.stale \cup g2.stale \cup g3.stale \cup g4.stale \cup g5.stale \cup dc.stale \cup rv.stale \cup sp.stale \cup lk.stale
             \cup sub.stale \cup pos.stale \cup pp.stale \cup dl.stale]

\* Font::vertical_advance: vmtx, then vhea; an error and an absent table both answer None
VAdvance(st, c) ==
  LET a == ReadLazy(st, "vmtx") IN
  IF a.val = "err" THEN [st |-> a.st, ret |-> <<"vadv", c.g, "none">>, stale |-> a.stale]
  ELSE LET b == ReadLazy(a.st, "vhea") IN
       [st |-> b.st, ret |-> IF a.val = "ok" /\ b.val = "ok" THEN <<"vadv", c.g>> ELSE <<"vadv", c.g, "none">>,
        stale |-> a.stale \cup b.stale]

\* ---- queries --------------------------------------------------------------
\* call records: [op |-> ..., ...]; Step returns [st, ret, stale]
Step(st, c) ==
  CASE c.op = "LookupGlyph" -> LET r == LookupGlyph(st, c.ch, c.pres, c.vs) IN [st |-> r.st, ret |-> r.val, stale |-> r.stale]
    [] c.op = "MapGlyphs"   -> LET r == MapText(st, c.text, c.pres) IN [st |-> r.st, ret |-> <<"map", c.script, r.val>>, stale |-> r.stale]
    [] c.op = "Shape"       -> LET r == Shape(st, c) IN [st |-> r.st, ret |-> r.val, stale |-> r.stale]
    \* lookup_glyph_image; on the fonts of the strike family the call names the size and the bit depth limit
    [] c.op = "Image"       -> IF "depth" \in DOMAIN c THEN ImageAt(st, c)
                               ELSE LET r == ReadImages(st) IN [st |-> r.st, ret |-> <<"img", c.g, r.val>>, stale |-> r.stale]
    [] c.op = "HasImages"   -> LET r == ReadImages(st) IN [st |-> r.st, ret |-> <<"has", r.val>>, stale |-> r.stale]
    \* set_embedded_image_filter forgets the image tables selected under another filter
    [] c.op = "SetFilter"   -> [st |-> [st EXCEPT !.filter = c.f,
                                                 !.images = IF CodeKeys /\ ForgetsImages(st.filter, c.f) THEN <<>> ELSE @,
                                                 !.noimage = IF c.f # st.filter THEN {} ELSE @],
                                ret |-> "unit", stale |-> {}]
    [] c.op = "HAdvance"    -> [st |-> st, ret |-> <<"hadv", c.g>>, stale |-> {}]
    [] c.op = "VAdvance"    -> VAdvance(st, c)
    [] c.op = "GlyphNames"  -> [st |-> st, ret |-> <<"names", c.g>>, stale |-> {}]
    \* gsub_cache() gpos_cache() gdef_table() morx_table() kern_table() vhea_table()
    [] c.op = "Table"       -> LET r == ReadLazy(st, c.k) IN [st |-> r.st, ret |-> <<"table", c.k, r.val>>, stale |-> r.stale]
    \* ReadScope::read_cache on a scope derived from the table's scope by `route` (offset, offset_length,
    \* ReadCtxt::read_scope, nested windows): the key is the absolute position, whatever the route
    [] c.op = "ReadCached"  -> LET r == ReadObjs(st, "RAW", <<c.obj>>) IN
                               [st |-> r.st, ret |-> <<"obj", c.route, r.val>>, stale |-> r.stale]

\* ---- what a fresh font answers, in observable terms (binding of the font semantics of the strike and pairs
\* families: the harness reports size and bit depth of the bitmap found / the kerning of every glyph) -------------
StrikeObs(st, c) == LET v == Step(FreshOf(st), c).ret IN
                    IF Len(v) = 5 THEN <<st.font.strikes[v[5]].ppem, st.font.strikes[v[5]].depth>> ELSE <<>>
\* format 1: the listed pair gets the value; format 2: the record of (class 1, class 1), the other records are zero
PairValue(s, a, b) == IF s.fmt = 1 \/ b \in Range(s.cls2) THEN s.val ELSE 0
RECURSIVE KernSum(_, _, _, _)
KernSum(font, idxs, a, b) ==
  IF idxs = <<>> THEN 0
  ELSE LET L == LookupAt(font, "GPOS", idxs[1])
           j == IF "subs" \in DOMAIN L THEN FirstFrom(L.subs, 1, 0, a, b) ELSE 0 IN
       (IF j = 0 THEN 0 ELSE 0 - PairValue(L.subs[j], a, b)) + KernSum(font, Tail(idxs), a, b)
KernObs(st, c) == LET pidx == Ascending(ActiveSet(st.font, "GPOS", c.feats, c.script, c.tuple)) IN
                  [i \in 1 .. Len(c.glyphs) |-> IF i = Len(c.glyphs) THEN 0 ELSE KernSum(st.font, pidx, c.glyphs[i], c.glyphs[i + 1])]
ModelObs(st, c) == IF c.op = "Image" THEN StrikeObs(st, c) ELSE KernObs(st, c)

\* the same call on a freshly loaded font carrying the same configuration
Fresh(st, c) == Step(FreshOf(st), c).ret

\* C03 for one step
PureStep(st, c) == Step(st, c).ret = Fresh(st, c)
\* a stale read is the only way to be impure, and it always is one (the model's own consistency)
StaleIffImpure(st, c) == (Step(st, c).stale # {}) <=> ~PureStep(st, c)

AllCauses == <<"glyph.dottedCircle", "images.filter", "lookupsIndex.tuple", "lazy.failedLoad",
               "readCache.position", "lookupCache.index", "supported.lang", "lookups.capacity",
               "scratch.failedCall", "gdef.regionScalar", "images.negativeGlyph", "lookupCache.lastSubtable">>
CausesSeq(S) == SelectSeq(AllCauses, LAMBDA x : x \in S)
=============================================================================
