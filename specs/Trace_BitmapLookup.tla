------------------------- MODULE Trace_BitmapLookup -------------------------
(***************************************************************************)
(* Trace judge for embedded glyph images (impl -> spec, X03).  Judging     *)
(* style: Next is always enabled, a non-conforming event prints MISMATCH.  *)
(*   LoadFont    the image tables of a repository font as decoded by the   *)
(*               harness' independent readers:  has, ng, cblc, eblc (with  *)
(*               the whole data table when it is small: full), sbix, svg   *)
(*   SetFilter   Font::set_embedded_image_filter                           *)
(*   FontLookup  Font::lookup_glyph_image (image bytes reported by length) *)
(*   LocProbe    CBLCTable::find_strike + MatchingStrike::bitmap           *)
(*   SbixProbe   Sbix::find_strike + SbixStrike::read_glyph                *)
(* State: position, index of the font in force, image filter, the lazily   *)
(* loaded table selection.                                                 *)
(***************************************************************************)
EXTENDS BitmapLookup, Json, IOUtils

Rec == ndJsonDeserialize(IOEnv.TRACE)

VARIABLES l, li, filt, cache
tvars == <<l, li, filt, cache>>

ToSetOf(s) == {s[q] : q \in 1 .. Len(s)}

\* ---- judging a big data table by the shape of the answer (the bytes are not in the trace)
HdrLen(imf) == CASE imf \in {1, 2} -> 5 [] imf = 5 -> 0 [] imf \in {6, 7} -> 8 [] imf = 17 -> 9 [] imf = 18 -> 12 [] imf = 19 -> 4 [] OTHER -> 0

ShapeLowOK(loc, i, g, r) ==
  LET s == loc.strikes[i]  sub == s.subs[SubOf(s, g)]  lc == Locate(sub, g)  hd == HdrLen(sub.imf) IN
  IF lc.t = "absent" THEN r.r = "absent" /\ r.bd = s.bd
  ELSE IF lc.t = "err" \/ lc.o + lc.l > loc.datlen \/ lc.l < hd THEN r.r = "err"
  ELSE IF sub.imf \in {5, 19} /\ sub.ifmt \notin {2, 5} THEN r.r = "err"
  ELSE IF sub.imf \in {1, 2, 5, 6, 7} THEN r = LowRes("img", sub.imf, lc.o + hd, lc.l - hd, s.bd)
  ELSE IF sub.imf \in {17, 18, 19}
       THEN r.r = "err" \/ (r.r = "img" /\ r.imf = sub.imf /\ r.doff = lc.o + hd /\ r.dlen <= lc.l - hd /\ r.bd = s.bd)
  ELSE r.r \in {"img", "err"}

ShapeFontOK(loc, i, g, r) ==
  LET s == loc.strikes[i]  sub == s.subs[SubOf(s, g)]  lc == Locate(sub, g) IN
  IF lc.t = "absent" THEN r.r = "none"
  ELSE IF lc.t = "err" \/ lc.o + lc.l > loc.datlen THEN r.r = "err"
  ELSE r.r = "err" \/ (r.r = "img" /\ r.px = s.px /\ r.py = s.py
                       /\ (IF sub.imf >= 17 THEN r.kind = "png" /\ r.bd = 0 ELSE r.kind = "raw" /\ r.bd = s.bd))

ShapeOK(loc, g, t, maxbd, r, font) ==
  \E precise \in BOOLEAN :
    LET C == CblcCandidates(loc, g, maxbd, precise) IN
    IF C = {} THEN r.r = "none"
    ELSE \E i \in Best(CblcKeys(loc), C, t) : IF font THEN ShapeFontOK(loc, i, g, r) ELSE ShapeLowOK(loc, i, g, r)

\* ---- exact judging
ProjN(w) == [r |-> w.r, px |-> w.px, py |-> w.py, kind |-> w.kind, bd |-> w.bd, w |-> w.w, h |-> w.h, n |-> Len(w.data),
             mh |-> w.mh, mv |-> w.mv, org |-> w.org, tag |-> w.tag]

LocOf(f, sel) == IF sel = "cbdt" THEN f.cblc ELSE f.eblc

FontOK(f, sel, a, r) ==
  IF sel \in {"cbdt", "ebdt"} /\ ~LocOf(f, sel).full
  THEN ShapeOK(LocOf(f, sel), a.g, ClampPpem(a.ppem), a.maxbd, r, TRUE)
  ELSE r \in {ProjN(w) : w \in FontLookup(f, sel, a.g, a.ppem, a.maxbd)}

FontBug(f, sel, a, r) ==
  IF sel \in {"cbdt", "ebdt"} /\ ~LocOf(f, sel).full
  THEN LET loc == LocOf(f, sel)  i == CblcCodePick(loc, a.g, ClampPpem(a.ppem), a.maxbd) IN
       IF i # 0 /\ ShapeFontOK(loc, i, a.g, r) THEN "cblc-find" ELSE ""
  ELSE IF r = ProjN(FontCodeLookup(f, sel, a.g, a.ppem, a.maxbd)) THEN (IF sel = "sbix" THEN "sbix-find" ELSE "cblc-find") ELSE ""

LocOK(f, a, r) ==
  LET loc == IF a.t = "cbdt" THEN f.cblc ELSE f.eblc IN
  IF loc.full THEN r \in CblcLow(loc, a.g, a.ppem, a.maxbd) ELSE ShapeOK(loc, a.g, a.ppem, a.maxbd, r, FALSE)
LocBug(f, a, r) ==
  LET loc == IF a.t = "cbdt" THEN f.cblc ELSE f.eblc  i == CblcCodePick(loc, a.g, a.ppem, a.maxbd) IN
  IF loc.full THEN (IF r = CblcCodeLow(loc, a.g, a.ppem, a.maxbd) THEN "cblc-find" ELSE "")
  ELSE IF i # 0 /\ ShapeLowOK(loc, i, a.g, r) THEN "cblc-find" ELSE ""

Situation(K, C, w, t) == IF w = 0 \/ Best(K, C, t) = {} \/ w \in Best(K, C, t) THEN "" ELSE PickSituation(K, w, CHOOSE b \in Best(K, C, t) : TRUE, t)

Report(e, ok, bug, sit) ==
  IF ok THEN TRUE
  ELSE PrintT(<<"MISMATCH", ToJson([i |-> e.i, case |-> e.case, ev |-> e.ev, a |-> e.a, got |-> e.o.res, note |-> e.o.note,
                                    bug |-> bug, sit |-> sit])>>)

TInit == l = 1 /\ li = 0 /\ filt = DefaultFilter /\ cache = "unloaded"

TNext ==
  /\ l <= Len(Rec)
  /\ l' = l + 1
  /\ LET e == Rec[l] IN
     CASE e.ev = "LoadFont" ->
            /\ li' = l /\ filt' = DefaultFilter /\ cache' = "unloaded"
       [] e.ev = "SetFilter" ->
            /\ li' = li /\ filt' = ToSetOf(e.a.f)
            /\ cache' = IF ToSetOf(e.a.f) # filt THEN "unloaded" ELSE cache
       [] e.ev = "FontLookup" ->
            LET f == Rec[li].a
                sel == IF cache = "unloaded" THEN Select(ToSetOf(f.has), filt) ELSE cache
                loc == LocOf(f, sel)
                K == IF sel = "sbix" THEN SbixKeys(f.sbix) ELSE IF sel \in {"cbdt", "ebdt"} THEN CblcKeys(loc) ELSE <<>>
                C == IF sel = "sbix" THEN SbixCandidates(f.sbix, e.a.g) ELSE IF sel \in {"cbdt", "ebdt"} THEN CblcCandidates(loc, e.a.g, e.a.maxbd, FALSE) ELSE {}
                t == IF sel = "sbix" THEN e.a.ppem ELSE ClampPpem(e.a.ppem)
                w == IF sel = "sbix" THEN SbixCodePick(f.sbix, e.a.g, t) ELSE IF sel \in {"cbdt", "ebdt"} THEN CblcCodePick(loc, e.a.g, t, e.a.maxbd) ELSE 0
            IN /\ li' = li /\ filt' = filt /\ cache' = sel
               /\ Report(e, FontOK(f, sel, e.a, e.o.res), FontBug(f, sel, e.a, e.o.res), Situation(K, C, w, t))
       [] e.ev = "LocProbe" ->
            LET f == Rec[li].a
                loc == IF e.a.t = "cbdt" THEN f.cblc ELSE f.eblc
                C == CblcCandidates(loc, e.a.g, e.a.maxbd, FALSE) IN
            /\ UNCHANGED <<li, filt, cache>>
            /\ Report(e, LocOK(f, e.a, e.o.res), LocBug(f, e.a, e.o.res),
                      Situation(CblcKeys(loc), C, CblcCodePick(loc, e.a.g, e.a.ppem, e.a.maxbd), e.a.ppem))
       [] e.ev = "SbixProbe" ->
            LET f == Rec[li].a  C == SbixCandidates(f.sbix, e.a.g) IN
            /\ UNCHANGED <<li, filt, cache>>
            /\ Report(e, e.o.res \in SbixLow(f.sbix, e.a.g, e.a.ppem),
                      IF e.o.res = SbixCodeLow(f.sbix, e.a.g, e.a.ppem) THEN "sbix-find" ELSE "",
                      Situation(SbixKeys(f.sbix), C, SbixCodePick(f.sbix, e.a.g, e.a.ppem), e.a.ppem))
       [] e.ev = "TableReadFailed" ->
            /\ UNCHANGED <<li, filt, cache>>
            /\ PrintT(<<"MISMATCH", ToJson([i |-> e.i, case |-> e.case, ev |-> e.ev, a |-> e.a, got |-> <<>>, note |-> "", bug |-> "", sit |-> ""])>>)
       [] OTHER -> UNCHANGED <<li, filt, cache>> /\ PrintT(<<"UNMODELLED", e.ev>>)

TSpec == TInit /\ [][TNext]_tvars

AllConsumed == TLCGet("stats").diameter = Len(Rec) + 1
=============================================================================
