--------------------------- MODULE Trace_BitmapData ---------------------------
(***************************************************************************)
(* Trace judge for X09 (impl -> spec), judging style.  One event per glyph *)
(* looked up in a real font (repository fonts glyph by glyph; seeded       *)
(* random records built into synthesized fonts):                           *)
(*   Cb    a = [tbl, g, s (strike: px, py, bd, fl, ha, hd, va, vd),        *)
(*              sub (ifmt, imf, bm), rec (the glyph's record in EBDT /     *)
(*              CBDT as located by the harness' own EBLC reader), maxbd]   *)
(*   Sbix  a = [st (ppem, ppi, recs: the record of every glyph), g, maxbd] *)
(*   o = [res  (Font::lookup_glyph_image projected to BitmapData!Res),     *)
(*        low  (MatchingStrike::bitmap / SbixStrike::read_glyph projected  *)
(*              to BitmapData!Low / SLow), note, lnote]                    *)
(* The event conforms iff res is one of the conformant answers             *)
(* BitmapData!LookupAccept / SbixAccept, low is BitmapData!LowOf /         *)
(* SbixLowOf and the harness noted no inconsistency inside the value.  A   *)
(* non-conforming answer that equals a named reading of the code           *)
(* (BitmapData!CodeRaw) carries that name.                                 *)
(***************************************************************************)
EXTENDS BitmapData, Json, IOUtils

Rec == ndJsonDeserialize(IOEnv.TRACE)

VARIABLE l
tvars == <<l>>

LenClass(s, sub, rec) ==
  LET hd == Header(sub, rec)
      al == AlignOf(sub.imf)
  IN IF ~hd.ok THEN "nohdr"
     ELSE IF al \notin {"byte", "bit"} THEN al
     ELSE LET need == NeedBytes(al, hd.m.w, hd.m.h, s.bd)
              have == Len(rec) - hd.off
          IN al \o (IF have < need THEN "-short" ELSE IF have = need THEN "-exact" ELSE "-long")

ClassOf(x) == IF x.r = "img" THEN "img:" \o x.kind ELSE x.r

Verdict(e) ==
  IF e.ev = "Cb"
  THEN LET W  == LookupAccept(e.a.s, e.a.sub, e.a.rec, e.a.maxbd)
           lo == IF e.a.s.bd > e.a.maxbd THEN Low("none", 0, <<>>, <<>>, <<>>) ELSE LowOf(e.a.sub, e.a.rec)
           bugs == IF e.a.s.bd > e.a.maxbd THEN <<>> ELSE CodeRaw(e.a.s, e.a.sub, e.a.rec)
           fontOK == e.o.res \in W /\ (e.o.res.r = "img" => e.o.note = "")
           lowOK  == e.o.low = lo /\ (e.o.low.r = "img" => e.o.lnote = "")
       IN [known |-> TRUE, fontOK |-> fontOK, lowOK |-> lowOK,
           cls |-> LenClass(e.a.s, e.a.sub, e.a.rec),
           bug |-> IF fontOK THEN "" ELSE IF \E k \in DOMAIN bugs : bugs[k].res = e.o.res
                                          THEN bugs[CHOOSE k \in DOMAIN bugs : bugs[k].res = e.o.res].name ELSE "",
           want |-> {ClassOf(x) : x \in W}, wantlow |-> lo.r, imf |-> e.a.sub.imf, bd |-> e.a.s.bd]
  ELSE IF e.ev = "Sbix"
  THEN LET W  == SbixAccept(e.a.st, e.a.g)
           lo == SbixLowOf(e.a.st, e.a.g)
       IN [known |-> TRUE, fontOK |-> e.o.res \in W /\ (e.o.res.r = "img" => e.o.note = ""), lowOK |-> e.o.low = lo,
           cls |-> "sbix", bug |-> "", want |-> {ClassOf(x) : x \in W}, wantlow |-> lo.r, imf |-> 0, bd |-> 0]
  ELSE [known |-> FALSE]

TInit == l = 1
TNext == l <= Len(Rec) /\ l' = l + 1

Judged ==
  l <= Len(Rec) =>
     LET e == Rec[l]
         v == Verdict(e)
     IN IF ~v.known THEN PrintT(<<"UNMODELLED", ToJson([i |-> e.i, ev |-> e.ev])>>)
        ELSE /\ IF v.fontOK THEN TRUE
                ELSE PrintT(<<"MISMATCH", ToJson([i |-> e.i, case |-> e.case, ev |-> e.ev, api |-> "font", g |-> e.a.g, cls |-> v.cls,
                                                  imf |-> v.imf, bd |-> v.bd, want |-> v.want, got |-> e.o.res, note |-> e.o.note, bug |-> v.bug])>>)
             /\ IF v.lowOK THEN TRUE
                ELSE PrintT(<<"MISMATCH", ToJson([i |-> e.i, case |-> e.case, ev |-> e.ev, api |-> "low", g |-> e.a.g, cls |-> v.cls,
                                                  imf |-> v.imf, bd |-> v.bd, want |-> {v.wantlow}, got |-> e.o.low, note |-> e.o.lnote, bug |-> ""])>>)

TSpec == TInit /\ [][TNext]_tvars

AllConsumed == TLCGet("stats").diameter = Len(Rec) + 1
=============================================================================
