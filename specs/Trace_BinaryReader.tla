------------------------- MODULE Trace_BinaryReader -------------------------
(***************************************************************************)
(* Trace judge for the binary reader (impl -> spec).  Every recorded call  *)
(* of the real ReadScope / ReadCtxt / ReadArray is replayed through        *)
(* BinaryReader!Apply; the observation logged by the harness must be the   *)
(* one the specification prescribes (relationally for binary search).      *)
(* Judging style: Next is always enabled, a non-conforming event prints a  *)
(* MISMATCH line and the rest of the trace is still examined.  An "Init"   *)
(* event starts a new case (new root buffer).                              *)
(***************************************************************************)
EXTENDS BinaryReader, Json, IOUtils

Rec == ndJsonDeserialize(IOEnv.TRACE)

VARIABLES l, st
tvars == <<l, st>>

Conforms(e, r) ==
  IF e.a.op = "Search"
  THEN /\ SearchConforms(st, e.a.t, e.a.key, e.o)
       /\ e.o.v = <<>> /\ e.o.new = <<>> /\ e.o.rem = -1 /\ e.o.aux = <<>>
       /\ (e.o.ok => e.o.err = "")
  ELSE IF e.a.op = "ScopeEq" THEN ScopeEqConforms(st, e.a.t, e.a.a, e.o)
  ELSE e.o = r.obs

TInit == l = 1 /\ st = InitState(<<>>)

TNext ==
  /\ l <= Len(Rec)
  /\ l' = l + 1
  /\ LET e == Rec[l] IN
     IF e.ev = "Init"
     THEN st' = InitState(e.a.root)
     ELSE IF e.a.op \notin KnownOps
     THEN /\ st' = st
          /\ PrintT(<<"UNMODELLED", e.a.op>>)
     ELSE IF \/ e.a.t \notin DOMAIN st.objs
             \/ st.objs[e.a.t].kind # OpKind(e.a.op)
             \/ (e.a.op = "ScopeEq" /\ (e.a.a \notin DOMAIN st.objs \/ st.objs[e.a.a].kind # "scope"))
     \* the implementation created an object where the specification prescribes a failure, or an object
     \* of another kind (an earlier MISMATCH of this case): the rest of the case refers to objects the
     \* model does not have
     THEN /\ st' = st
          /\ PrintT(<<"MISMATCH", ToJson([i |-> e.i, case |-> e.case, o |-> e.a,
                                          want |-> [ok |-> FALSE, err |-> "no such object in the model", v |-> <<>>,
                                                    num |-> 0, cnt |-> 0, new |-> <<>>, rem |-> -1, touched |-> <<>>,
                                                    aux |-> <<>>],
                                          got |-> e.o])>>)
     ELSE LET r == Apply(st, e.a) IN
          /\ st' = r.st
          /\ IF Conforms(e, r) THEN TRUE
             ELSE PrintT(<<"MISMATCH", ToJson([i |-> e.i, case |-> e.case, o |-> e.a,
                                               want |-> r.obs, got |-> e.o])>>)

TSpec == TInit /\ [][TNext]_tvars

AllConsumed == TLCGet("stats").diameter = Len(Rec) + 1
=============================================================================
