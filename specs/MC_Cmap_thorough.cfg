CONSTANTS
  MaxSegs = 3
  Deep = TRUE
SPECIFICATION Spec
INVARIANTS DesignOK TablesOK EmitCase
CHECK_DEADLOCK FALSE
