------------------------------ MODULE Variation ------------------------------
(***************************************************************************)
(* C12 - instancing a variable font evaluates the OpenType variation       *)
(* model.  Pure operators, exact rational arithmetic (Fix!Q on Fix!Z big   *)
(* integers); every comparison is a cross multiplication.                  *)
(*                                                                         *)
(*  - region scalar: tent function per axis (start, peak, end; implied     *)
(*    start/end for a non-intermediate region), product over the axes      *)
(*  - packed point numbers and packed deltas, decoded from the serialized  *)
(*    bytes (all run encodings, one or two byte counts, "all points")      *)
(*  - shared versus private point numbers                                  *)
(*  - inferred deltas for un-referenced points (IUP), contour by contour   *)
(*  - value = default + sum over regions of scalar * delta                 *)
(*  - phantom points -> advance width and left side bearing                *)
(*  - item variation store (HVAR, MVAR) with or without delta-set index    *)
(*    map                                                                  *)
(* Eval evaluates a glyph (as split by the harness' container reader, the   *)
(* packed data undecoded) at a normalised coordinate tuple.  A glyph is    *)
(* judged by GlyphVerdict, a metric by MetricVerdict: every output number  *)
(* must be within one font unit of the exact value (Within1), and equal to *)
(* the default master at the default coordinates.  GlyphExpect gives the   *)
(* acceptable interval of every output number (used by MC_Variation for    *)
(* the CASE lines and by the judge to cross-check the transport).  The     *)
(* named alternatives (Dev_ names) are listed above the verdict operators. *)
(*                                                                         *)
(* Normalised coordinates and region coordinates are raw F2Dot14 integers; *)
(* point indices are 0-based as in the font, stored in TLA+ functions over *)
(* 0 .. n-1; byte sequences are 1-based TLA+ sequences.                    *)
(***************************************************************************)
EXTENDS Fix, FiniteSets, FiniteSetsExt, TLC

\* TLC evaluates a function constructor lazily (the body is re-evaluated at every application);
\* Fn(f) = f, evaluated once and kept as an explicit table.
Fn(f) == TLCEval(f)

QZero == QOfInt(0)
QOne  == QOfInt(1)

RECURSIVE P2(_)
P2(n) == IF n = 0 THEN 1 ELSE 2 * P2(n - 1)

\* ---- region scalars -----------------------------------------------------------------
\* one axis: coordinate c against (start, peak, end)
AxisScalar(c, s, p, e) ==
  IF p = 0 THEN QOne                                      \* the axis does not take part
  ELSE IF c < s \/ c > e THEN QZero
  ELSE IF c = p THEN QOne
  ELSE IF c < p THEN Q(ZOf(c - s), ZOf(p - s))
  ELSE Q(ZOf(e - c), ZOf(e - p))

ImpliedStart(p) == IF p < 0 THEN p ELSE 0
ImpliedEnd(p)   == IF p > 0 THEN p ELSE 0

\* a region is a sequence of <<start, peak, end>>, one per axis
RegionOfPeak(peak) == [k \in 1 .. Len(peak) |-> <<ImpliedStart(peak[k]), peak[k], ImpliedEnd(peak[k])>>]
RegionOf(peak, start, end) == [k \in 1 .. Len(peak) |-> <<start[k], peak[k], end[k]>>]

\* A region the specification gives a meaning to: start <= peak <= end and, if the peak is not
\* zero, start and end on the same side of zero.
RegionValid(r) ==
  \A k \in 1 .. Len(r) :
     /\ r[k][1] <= r[k][2] /\ r[k][2] <= r[k][3]
     /\ (r[k][2] # 0 => ~(r[k][1] < 0 /\ r[k][3] > 0))

RECURSIVE ScalarFrom(_, _, _)
ScalarFrom(coords, r, k) ==
  IF k > Len(r) THEN QOne
  ELSE LET a == AxisScalar(coords[k], r[k][1], r[k][2], r[k][3]) IN
       IF QIsZero(a) THEN QZero ELSE QMul(a, ScalarFrom(coords, r, k + 1))
RegionScalar(coords, r) == ScalarFrom(coords, r, 1)

\* ---- packed point numbers --------------------------------------------------------------
\* result: [all |-> BOOLEAN, pts |-> sequence of point numbers, next |-> position after the data]
RECURSIVE PtRun(_, _, _, _, _)
PtRun(b, pos, k, words, last) ==
  IF k = 0 THEN <<>>
  ELSE LET d == IF words THEN b[pos] * 256 + b[pos + 1] ELSE b[pos]
           v == last + d
       IN <<v>> \o PtRun(b, pos + (IF words THEN 2 ELSE 1), k - 1, words, v)

RECURSIVE PtRuns(_, _, _, _)
PtRuns(b, pos, need, acc) ==
  IF need <= 0 THEN [all |-> FALSE, pts |-> acc, next |-> pos]
  ELSE LET ctrl == b[pos]
           n == (ctrl % 128) + 1
           words == ctrl >= 128
           last == IF acc = <<>> THEN 0 ELSE acc[Len(acc)]
           run == PtRun(b, pos + 1, n, words, last)
       IN PtRuns(b, pos + 1 + n * (IF words THEN 2 ELSE 1), need - n, acc \o run)

DecodePoints(b, pos) ==
  LET c1 == b[pos] IN
  IF c1 = 0 THEN [all |-> TRUE, pts |-> <<>>, next |-> pos + 1]
  ELSE IF c1 < 128 THEN PtRuns(b, pos + 1, c1, <<>>)
  ELSE PtRuns(b, pos + 2, (c1 % 128) * 256 + b[pos + 1], <<>>)

\* ---- packed deltas ----------------------------------------------------------------------
S8(x)  == IF x >= 128 THEN x - 256 ELSE x
S16(x) == IF x >= 32768 THEN x - 65536 ELSE x

RECURSIVE DeltaRun(_, _, _, _)
DeltaRun(b, pos, k, kind) ==        \* kind: 0 zeros, 1 bytes, 2 words
  IF k = 0 THEN <<>>
  ELSE IF kind = 0 THEN <<0>> \o DeltaRun(b, pos, k - 1, 0)
  ELSE IF kind = 1 THEN <<S8(b[pos])>> \o DeltaRun(b, pos + 1, k - 1, 1)
  ELSE <<S16(b[pos] * 256 + b[pos + 1])>> \o DeltaRun(b, pos + 2, k - 1, 2)

RECURSIVE DeltaRuns(_, _, _, _)
DeltaRuns(b, pos, need, acc) ==
  IF need <= 0 THEN [ds |-> acc, next |-> pos]
  ELSE LET ctrl == b[pos]
           n == (ctrl % 64) + 1
           kind == IF ctrl >= 128 THEN 0 ELSE IF ctrl >= 64 THEN 2 ELSE 1
       IN DeltaRuns(b, pos + 1 + n * kind, need - n, acc \o DeltaRun(b, pos + 1, n, kind))

DecodeDeltas(b, pos, n) == DeltaRuns(b, pos, n, <<>>)

\* ---- one tuple variation of a glyph ---------------------------------------------------------
\* np = number of points including the four phantom points; shared = decoded shared point
\* numbers (or a record with all = FALSE, pts = <<>> when the glyph has none).
\* Result: explicit deltas as functions over 0 .. np-1.
\* Point numbers are cumulative sums of unsigned differences, hence non-decreasing: one walk over
\* the list finds, for every point i, the last position holding i (the last occurrence wins, as in
\* a map filled in list order) or 0.
RECURSIVE SkipTo(_, _, _, _)
SkipTo(pts, cnt, k, i) ==               \* largest k' >= k with pts[k+1 .. k'] all <= i
  IF k < cnt /\ pts[k + 1] <= i THEN SkipTo(pts, cnt, k + 1, i) ELSE k
RECURSIVE WalkPos(_, _, _, _, _)
WalkPos(pts, cnt, np, i, k) ==
  IF i = np THEN <<>>
  ELSE LET k2 == SkipTo(pts, cnt, k, i) IN
       <<IF k2 > k /\ pts[k2] = i THEN k2 ELSE 0>> \o WalkPos(pts, cnt, np, i + 1, k2)

TupleDeltas(data, private, shared, np) ==
  LET pn == IF private THEN DecodePoints(data, 1) ELSE [all |-> shared.all, pts |-> shared.pts, next |-> 1]
      cnt == IF pn.all THEN np ELSE Len(pn.pts)
      dd == DecodeDeltas(data, pn.next, 2 * cnt)
      \* position (1-based) in the delta arrays of point i
      wp == IF pn.all THEN <<>> ELSE WalkPos(pn.pts, cnt, np, 0, 0)
      pos == Fn([i \in 0 .. np - 1 |-> IF pn.all THEN i + 1 ELSE wp[i + 1]])
  IN [has |-> Fn([i \in 0 .. np - 1 |-> pos[i] # 0]),
      dx  |-> Fn([i \in 0 .. np - 1 |-> IF pos[i] = 0 THEN 0 ELSE dd.ds[pos[i]]]),
      dy  |-> Fn([i \in 0 .. np - 1 |-> IF pos[i] = 0 THEN 0 ELSE dd.ds[cnt + pos[i]]]),
      used |-> dd.next - 1, count |-> cnt]

\* ---- inferred deltas (IUP) --------------------------------------------------------------------
\* one direction: coordinates pc, tc, nc of the previous referenced, target and next referenced
\* point, deltas pd, nd of the two referenced points
InferAxis(pc, tc, nc, pd, nd) ==
  IF pc = nc THEN (IF pd = nd THEN QOfInt(pd) ELSE QZero)
  ELSE LET lo == IF pc < nc THEN pc ELSE nc
           hi == IF pc < nc THEN nc ELSE pc
           dlo == IF pc < nc THEN pd ELSE nd
           dhi == IF pc < nc THEN nd ELSE pd
       IN IF tc <= lo THEN QOfInt(dlo)
          ELSE IF tc >= hi THEN QOfInt(dhi)
          ELSE \* dlo + (tc - lo) * (dhi - dlo) / (hi - lo)
               Q(ZAdd(ZMul(ZOf(dlo), ZOf(hi - lo)), ZMul(ZOf(tc - lo), ZOf(dhi - dlo))), ZOf(hi - lo))

\* ends: sequence of the last point index of every contour.  Contour of point i:
ContourStart(ends, c) == IF c = 1 THEN 0 ELSE ends[c - 1] + 1
ContourOf(ends, i) == CHOOSE c \in 1 .. Len(ends) : ContourStart(ends, c) <= i /\ i <= ends[c]

\* delta of point i in one region, both directions, as rationals.
\* xs, ys: default coordinates (functions over 0 .. n-1), n = number of outline points.
\* E: the referenced points of the contour of i.
PointDeltaIn(xs, ys, td, i, E) ==
  IF E = {} THEN <<QZero, QZero>>
  ELSE IF Cardinality(E) = 1 THEN LET k == CHOOSE k \in E : TRUE IN <<QOfInt(td.dx[k]), QOfInt(td.dy[k])>>
  ELSE LET below == {k \in E : k < i}
           above == {k \in E : k > i}
           prev == IF below # {} THEN Max(below) ELSE Max(E)
           next == IF above # {} THEN Min(above) ELSE Min(E)
       IN <<InferAxis(xs[prev], xs[i], xs[next], td.dx[prev], td.dx[next]),
            InferAxis(ys[prev], ys[i], ys[next], td.dy[prev], td.dy[next])>>

PointDelta(simple, xs, ys, ends, n, td, i) ==
  IF td.has[i] THEN <<QOfInt(td.dx[i]), QOfInt(td.dy[i])>>
  ELSE IF ~simple \/ i >= n THEN <<QZero, QZero>>            \* components and phantom points: no inference
  ELSE LET c == ContourOf(ends, i) IN
       PointDeltaIn(xs, ys, td, i, {k \in ContourStart(ends, c) .. ends[c] : td.has[k]})

\* the same for all np points of the glyph (the referenced set of every contour computed once)
PointDeltas(simple, xs, ys, ends, n, np, td) ==
  LET cE == Fn([c \in 1 .. Len(ends) |-> {k \in ContourStart(ends, c) .. ends[c] : td.has[k]}]) IN
  Fn([i \in 0 .. np - 1 |->
     IF td.has[i] THEN <<QOfInt(td.dx[i]), QOfInt(td.dy[i])>>
     ELSE IF ~simple \/ i >= n THEN <<QZero, QZero>>
     ELSE PointDeltaIn(xs, ys, td, i, cE[ContourOf(ends, i)])])

\* rational arithmetic with the cheap cases taken first (same value as Fix!QAdd / Fix!QMul)
QAddS(a, b) == IF a.q = b.q THEN [p |-> ZAdd(a.p, b.p), q |-> a.q]
               ELSE IF a.q = One THEN [p |-> ZAdd(ZMul(a.p, b.q), b.p), q |-> b.q]
               ELSE IF b.q = One THEN [p |-> ZAdd(a.p, ZMul(b.p, a.q)), q |-> a.q]
               ELSE QAdd(a, b)
QMulS(a, b) == IF b.q = One THEN [p |-> ZMul(a.p, b.p), q |-> a.q]
               ELSE IF a.q = One THEN [p |-> ZMul(a.p, b.p), q |-> b.q]
               ELSE QMul(a, b)

\* ---- a glyph's variation data as recorded in an event -------------------------------------------
\* g.pts   sequence of <<x, y>> (outline points / component offsets), g.ends, g.kind
\* g.ser   the serialized data area of the glyph variation data, g.hasShared
\* g.tuples sequence of [peak, inter, start, end, private, size] in header order
NPts(g) == Len(g.pts)
XS(g) == Fn([i \in 0 .. NPts(g) - 1 |-> g.pts[i + 1][1]])
YS(g) == Fn([i \in 0 .. NPts(g) - 1 |-> g.pts[i + 1][2]])

SharedPts(g) == IF g.hasShared THEN DecodePoints(g.ser, 1) ELSE [all |-> FALSE, pts |-> <<>>, next |-> 1]

\* 1-based offset of the data of tuple k inside g.ser
RECURSIVE TupleStart(_, _, _)
TupleStart(g, k, first) == IF k = 1 THEN first ELSE TupleStart(g, k - 1, first) + g.tuples[k - 1].size

TupleData(g, k) ==
  LET s == TupleStart(g, k, SharedPts(g).next) IN SubSeq(g.ser, s, s + g.tuples[k].size - 1)

TupleRegion(t) == IF t.inter THEN RegionOf(t.peak, t.start, t.end) ELSE RegionOfPeak(t.peak)

\* Evaluation of a glyph at `coords`: exact coordinates of all np points (outline points or
\* component offsets, then the 4 phantom points), the scalar of every tuple and its decoded deltas.
\* phantom: sequence of 4 <<x, y>> default phantom points.
\* Result: [x, y |-> function 0..np-1 -> Q, scal |-> sequence of Q, tds |-> sequence]
Eval(g, phantom, coords) ==
  LET n == NPts(g)
      np == n + 4
      xs == XS(g) ys == YS(g)
      simple == g.kind = "simple"
      sh == SharedPts(g)
      NT == Len(g.tuples)
      scal == Fn([k \in 1 .. NT |-> RegionScalar(coords, TupleRegion(g.tuples[k]))])
      tds == Fn([k \in 1 .. NT |-> IF QIsZero(scal[k]) THEN <<>>
                                 ELSE TupleDeltas(TupleData(g, k), g.tuples[k].private, sh, np)])
      pds == Fn([k \in 1 .. NT |-> IF QIsZero(scal[k]) THEN <<>>
                                 ELSE PointDeltas(simple, xs, ys, g.ends, n, np, tds[k])])
      Def(i, d) == IF i < n THEN g.pts[i + 1][d] ELSE phantom[i - n + 1][d]
      RECURSIVE Acc(_, _, _, _)
      Acc(i, d, k, acc) ==
        IF k > NT THEN acc
        ELSE IF QIsZero(scal[k]) THEN Acc(i, d, k + 1, acc)
        ELSE LET pd == pds[k][i][d] IN
             Acc(i, d, k + 1, IF QIsZero(pd) THEN acc ELSE QAddS(acc, QMulS(scal[k], pd)))
  IN [x |-> Fn([i \in 0 .. np - 1 |-> Acc(i, 1, 1, QOfInt(Def(i, 1)))]),
      y |-> Fn([i \in 0 .. np - 1 |-> Acc(i, 2, 1, QOfInt(Def(i, 2)))]),
      scal |-> scal, tds |-> tds]

ExactPoints(g, phantom, coords) == Eval(g, phantom, coords)

\* |out - exact| <= 1
Within1(out, e) == ZLe(ZAbs(ZSub(ZMul(ZOf(out), e.q), e.p)), e.q)
QIsInt(e, v) == ZEq(e.p, ZMul(ZOf(v), e.q))
QLt0(e) == e.p.neg /\ ~ZIsZero(e.p)

\* floor of a rational known to lie in [-2^20, 2^20) (font units are 16-bit), by bisection
RECURSIVE FloorSearch(_, _, _)
FloorSearch(e, lo, hi) ==                 \* lo <= floor(e) < hi
  IF hi - lo = 1 THEN lo
  ELSE LET mid == (lo + hi) \div 2 IN
       IF ZLe(ZMul(ZOf(mid), e.q), e.p) THEN FloorSearch(e, mid, hi) ELSE FloorSearch(e, lo, mid)
QFloor(e) == IF e.q = One /\ ZFits(e.p) THEN ZToInt(e.p) ELSE FloorSearch(e, -1048576, 1048576)
\* the integers within one unit of e: <<lowest, highest>>
AcceptInterval(e) == LET f == QFloor(e) IN IF QIsInt(e, f) THEN <<f - 1, f + 1>> ELSE <<f, f + 1>>
\* iv = AcceptInterval(e), decided without searching for the floor (denominators are positive)
IntervalIs(e, iv) ==
  IF iv[2] - iv[1] = 2 THEN QIsInt(e, iv[1] + 1)
  ELSE iv[2] - iv[1] = 1 /\ ZLt(ZMul(ZOf(iv[1]), e.q), e.p) /\ ZLt(e.p, ZMul(ZOf(iv[2]), e.q))

\* ---- item variation store -----------------------------------------------------------------------
\* ivs = [regions |-> sequence of regions, subs |-> sequence of [ri |-> region indices (0-based),
\*        rows |-> sequence of delta rows]]
\* map = [present, fmt, count, data]: delta-set index map
MapEntry(map, i) ==
  LET j == IF i >= map.count THEN map.count - 1 ELSE i
      size == ((map.fmt \div 16) % 4) + 1
      bits == (map.fmt % 16) + 1
      RECURSIVE Val(_, _)
      Val(k, acc) == IF k > size THEN acc ELSE Val(k + 1, acc * 256 + map.data[j * size + k])
      v == Val(1, 0)
  IN [outer |-> v \div P2(bits), inner |-> v % P2(bits)]

EntryFor(map, gid) == IF map.present THEN MapEntry(map, gid) ELSE [outer |-> 0, inner |-> gid]

IvsDelta(ivs, entry, coords) ==
  LET sub == ivs.subs[entry.outer + 1]
      row == sub.rows[entry.inner + 1]
      RECURSIVE Sum(_, _)
      Sum(k, acc) ==
        IF k > Len(row) THEN acc
        ELSE LET s == RegionScalar(coords, ivs.regions[sub.ri[k] + 1]) IN
             Sum(k + 1, IF QIsZero(s) \/ row[k] = 0 THEN acc ELSE QAdd(acc, QMul(s, QOfInt(row[k]))))
  IN Sum(1, QZero)

\* ---- verdicts ---------------------------------------------------------------------------------------
\* Named choices where OpenType leaves the result open (any of the alternatives conforms):
\*  Dev_Rounding          every output number may be any integer within one unit of the exact value
\*                        (round half up / half away / truncation of the parts are all accepted).
\*  Dev_LsbFromOutline    without an HVAR left-side-bearing map the bearing is xMin - pp1.x; xMin may
\*                        be the exact minimum of the varied points or the xMin of the *written*
\*                        outline (rounded points, composite boxes from the rounded children).
\*  Dev_NegativeAdvance   an advance whose exact value is negative may be written as 0.
\*  Dev_CffLsbUnvaried    a CFF2 font without an HVAR lsb map keeps its side bearings.
\*  Dev_ClampToField      a metric outside the range of its field may be clamped to it.
\*  Dev_BoxRounding       every side of a glyph's header box may be one unit off the box of the written
\*                        outline (boxes of components rounded one by one).
\*  Dev_HeadBoxOrigin     the head box is the union of the glyph boxes, with or without the origin.

AllZero(coords) == \A k \in 1 .. Len(coords) : coords[k] = 0
PeakAllZero(r) == \A k \in 1 .. Len(r) : r[k][2] = 0

IvsJudged(ivs, naxes) ==
  /\ \A r \in 1 .. Len(ivs.regions) :
        Len(ivs.regions[r]) = naxes /\ RegionValid(ivs.regions[r]) /\ ~PeakAllZero(ivs.regions[r])
  /\ \A s \in 1 .. Len(ivs.subs) : \A k \in 1 .. Len(ivs.subs[s].ri) : ivs.subs[s].ri[k] < Len(ivs.regions)

EntryInRange(ivs, en) ==
  en.outer < Len(ivs.subs) /\ en.inner < Len(ivs.subs[en.outer + 1].rows)

\* is this glyph inside what the specification gives a meaning to?
GlyphJudged(g, a) ==
  LET na == Len(a.coords) IN
  /\ \A k \in 1 .. Len(g.tuples) :
        LET t == g.tuples[k] IN
        /\ Len(t.peak) = na
        /\ (t.inter => Len(t.start) = na /\ Len(t.end) = na)
        /\ RegionValid(TupleRegion(t)) /\ ~PeakAllZero(TupleRegion(t))
        /\ (t.private \/ g.hasShared)
  /\ a.hvar.present =>
        /\ IvsJudged(a.hvar.ivs, na)
        /\ (a.hvar.adv.present => a.hvar.adv.count > 0)
        /\ (a.hvar.lsb.present => a.hvar.lsb.count > 0)
        /\ EntryInRange(a.hvar.ivs, EntryFor(a.hvar.adv, a.gid))
        /\ (a.hvar.lsb.present => EntryInRange(a.hvar.ivs, EntryFor(a.hvar.lsb, a.gid)))

DefaultPhantom(a) ==
  LET pp1 == a.xmin - a.lsb IN <<<<pp1, 0>>, <<pp1 + a.adv, 0>>, <<0, 0>>, <<0, 0>>>>

\* are the points of this glyph varied at all?
Varied(a) == a.kind = "simple" \/ (a.kind = "composite" /\ a.plain)

ExactAdvance(a, n, ev) ==
  IF a.hvar.present THEN QAdd(QOfInt(a.adv), IvsDelta(a.hvar.ivs, EntryFor(a.hvar.adv, a.gid), a.coords))
  ELSE IF a.kind = "cff" THEN QOfInt(a.adv)
  ELSE QSub(ev.x[n + 1], ev.x[n])

LsbRule(a) == IF a.hvar.present /\ a.hvar.lsb.present THEN "map"
              ELSE IF a.kind = "cff" THEN "cff" ELSE "outline"

\* minimum of the exact x coordinates of the outline points (n > 0)
RECURSIVE QMinFrom(_, _, _, _)
QMinFrom(f, i, n, m) == IF i >= n THEN m ELSE QMinFrom(f, i + 1, n, IF QCmp(f[i], m) < 0 THEN f[i] ELSE m)

\* bad: set of <<clause, index, got, want>>
GlyphVerdict(g, a, o) ==
  LET n == NPts(g)
      ev == Eval(g, DefaultPhantom(a), a.coords)
      still == AllZero(a.coords)
      C(d, i) == IF d = 1 THEN ev.x[i] ELSE ev.y[i]
      shapeOK == o.kind = a.kind /\ Len(o.pts) = n /\ o.ends = a.ends /\ o.on
      shapeBad == IF shapeOK THEN {} ELSE {<<"shape", 0, <<o.kind, Len(o.pts)>>, <<a.kind, n>>>>}
      pointBad ==
        IF ~shapeOK THEN {}
        ELSE IF ~Varied(a) \/ still
        THEN {<<IF still THEN "default-point" ELSE "unvaried-point", 2 * i + d - 1, o.pts[i + 1][d], <<a.pts[i + 1][d]>>>> :
                 <<i, d>> \in {p \in (0 .. n - 1) \X {1, 2} : o.pts[p[1] + 1][p[2]] # a.pts[p[1] + 1][p[2]]}}
        ELSE {<<"point", 2 * i + d - 1, o.pts[i + 1][d], AcceptInterval(C(d, i))>> :
                 <<i, d>> \in {p \in (0 .. n - 1) \X {1, 2} : ~Within1(o.pts[p[1] + 1][p[2]], C(p[2], p[1]))}}
      adv == ExactAdvance(a, n, ev)
      \* a phantom point, or the distance of the two, beyond the int16 range is a class of its own
      OutI16(x) == QCmp(x, QOfInt(32767)) > 0 \/ QCmp(x, QOfInt(-32768)) < 0
      wide == IF OutI16(ev.x[n]) \/ OutI16(ev.x[n + 1]) \/ OutI16(QSub(ev.x[n + 1], ev.x[n])) THEN "-i16" ELSE ""
      advBad ==
        IF still THEN (IF o.adv = a.adv THEN {} ELSE {<<"default-adv", 0, o.adv, <<a.adv>>>>})
        ELSE IF Within1(o.adv, adv) \/ (QLt0(adv) /\ o.adv = 0) THEN {}
        ELSE {<<"adv-" \o (IF a.hvar.present THEN "hvar" ELSE "phantom") \o wide, 0, o.adv, AcceptInterval(adv)>>}
      rule == LsbRule(a)
      pp1 == ev.x[n]
      lsbBad ==
        IF still THEN (IF o.lsb = a.lsb THEN {} ELSE {<<"default-lsb", 0, o.lsb, <<a.lsb>>>>})
        ELSE IF rule = "map"
        THEN LET x == QAdd(QOfInt(a.lsb), IvsDelta(a.hvar.ivs, EntryFor(a.hvar.lsb, a.gid), a.coords)) IN
             IF Within1(o.lsb, x) THEN {} ELSE {<<"lsb-map", 0, o.lsb, AcceptInterval(x)>>}
        ELSE IF rule = "cff" THEN (IF o.lsb = a.lsb THEN {} ELSE {<<"lsb-cff", 0, o.lsb, <<a.lsb>>>>})
        ELSE LET fromOut == o.xminKnown /\ Within1(o.xmin - o.lsb, pp1)
                 exactKnown == a.kind = "empty" \/ (a.kind = "simple" /\ n > 0)
                 xm == IF a.kind = "empty" THEN QZero ELSE QMinFrom(ev.x, 1, n, ev.x[0])
                 fromExact == exactKnown /\ Within1(o.lsb, QSub(xm, pp1))
             IN IF fromOut \/ fromExact \/ (~o.xminKnown /\ ~exactKnown) THEN {}
                ELSE {<<"lsb-outline" \o wide, 0, o.lsb,
                        IF exactKnown THEN AcceptInterval(QSub(xm, pp1)) ELSE AcceptInterval(QSub(QOfInt(o.xmin), pp1))>>}
      \* header box of the written glyph against the box of the written outline (the harness flattens
      \* the output font: o.obox; <<>> = not derivable or nothing drawn).  Dev_BoxRounding: one unit
      \* per side; a glyph without variation data of its own may keep the source header (a.hbox).
      boxJudged == shapeOK /\ o.obox # <<>>
      boxBad ==
        IF ~boxJudged THEN {}
        ELSE IF o.hbox = <<>> THEN {<<"bbox", 0, <<>>, o.obox>>}
        ELSE IF a.kind = "simple" /\ Len(g.tuples) = 0 /\ o.hbox = a.hbox THEN {}
        ELSE {<<"bbox", k, o.hbox[k], <<o.obox[k] - 1, o.obox[k] + 1>>>> :
                 k \in {j \in 1 .. 4 : o.hbox[j] - o.obox[j] > 1 \/ o.obox[j] - o.hbox[j] > 1}}
      \* the font promises lsb = xMin (head.flags bit 1, kept by this glyph in the source) and does not
      \* move the side bearing point: the written side bearing is the written xMin
      relJudged == ~still /\ rule = "outline" /\ a.lsbAt0 /\ a.kind \in {"simple", "composite"} /\ shapeOK
                   /\ a.lsb = a.xmin /\ o.hbox # <<>> /\ QIsInt(pp1, 0)
      relBad == IF ~relJudged \/ o.lsb = o.hbox[1] THEN {} ELSE {<<"lsb-xmin", 0, o.lsb, <<o.hbox[1]>>>>}
      \* generated cases: the model's expectation (a.exp, computed by MC_Variation) is the acceptable
      \* interval of every number as evaluated here from the written bytes
      Val(j) == IF j <= 2 * n THEN (IF j % 2 = 1 THEN ev.x[(j - 1) \div 2] ELSE ev.y[(j - 1) \div 2])
                ELSE IF j = 2 * n + 1 THEN adv ELSE ev.x[n]
      transportOK == a.exp = <<>> \/ (Len(a.exp) = 2 * n + 2 /\ \A j \in 1 .. 2 * n + 2 : IntervalIs(Val(j), a.exp[j]))
      active == Cardinality({k \in 1 .. Len(g.tuples) : ~QIsZero(ev.scal[k])})
      \* points whose delta is inferred in some applicable tuple
      inferred == IF a.kind # "simple" THEN 0
                  ELSE Cardinality({i \in 0 .. n - 1 : \E k \in 1 .. Len(g.tuples) :
                                       ~QIsZero(ev.scal[k]) /\ ~ev.tds[k].has[i]})
      frac == IF still \/ ~Varied(a) THEN 0
              ELSE IF ~shapeOK THEN 0
              ELSE Cardinality({p \in (0 .. n - 1) \X {1, 2} : ~QIsInt(C(p[2], p[1]), o.pts[p[1] + 1][p[2]])})
  IN [bad |-> shapeBad \cup pointBad \cup advBad \cup lsbBad \cup boxBad \cup relBad,
      transportOK |-> transportOK,
      stat |-> [kind |-> a.kind, still |-> still, tuples |-> Len(g.tuples), active |-> active,
                inferred |-> inferred, frac |-> frac, n |-> n,
                hvar |-> IF ~a.hvar.present THEN "none" ELSE IF a.hvar.adv.present THEN "map" ELSE "direct",
                lsbrule |-> rule, varied |-> Varied(a),
                lsbJudged |-> (rule # "outline" \/ o.xminKnown \/ a.kind \in {"empty", "simple"}),
                boxJudged |-> boxJudged, relJudged |-> relJudged]]

\* The acceptable interval of every output number, as a flat sequence: x0, y0, x1, y1, ..., advance,
\* pp1.x.  Used to compare MC_Variation's expectation with the judge's evaluation of the font bytes.
GlyphExpect(g, a) ==
  LET n == NPts(g)
      ev == Eval(g, DefaultPhantom(a), a.coords)
  IN [j \in 1 .. 2 * n + 2 |->
        IF j <= 2 * n THEN AcceptInterval(IF j % 2 = 1 THEN ev.x[(j - 1) \div 2] ELSE ev.y[(j - 1) \div 2])
        ELSE IF j = 2 * n + 1 THEN AcceptInterval(ExactAdvance(a, n, ev))
        ELSE AcceptInterval(ev.x[n])]

\* a: [tag, present, base, coords, ivs, outer, inner, lo, hi]   (lo .. hi = range of the field;
\* present = FALSE: the MVAR table has no record for the tag, the metric does not vary)
MetricVerdict(a, value) ==
  LET x == QAdd(QOfInt(a.base), IvsDelta(a.ivs, [outer |-> a.outer, inner |-> a.inner], a.coords)) IN
  IF ~a.present THEN (IF value = a.base THEN {} ELSE {<<"metric-absent", 0, value, <<a.base>>>>})
  ELSE IF AllZero(a.coords) THEN (IF value = a.base THEN {} ELSE {<<"default-metric", 0, value, <<a.base>>>>})
  ELSE IF Within1(value, x) THEN {}
  ELSE IF (QCmp(x, QOfInt(a.lo)) < 0 /\ value = a.lo) \/ (QCmp(x, QOfInt(a.hi)) > 0 /\ value = a.hi) THEN {}
  ELSE {<<"metric", 0, value, AcceptInterval(x)>>}

\* ---- head.xMin .. yMax -------------------------------------------------------------------------------
\* head: <<xMin, yMin, xMax, yMax>> of the written head table; ubox: union of the header boxes of the
\* written glyphs that draw something (<<>>: none).  The head box is that union (OpenType: minimum /
\* maximum across all glyph bounding boxes); Dev_HeadBoxOrigin: the origin may be taken into the union.
HeadBoxBad(head, ubox) ==
  IF head = <<>> \/ ubox = <<>> THEN {}
  ELSE LET WithOrigin(k) == IF k <= 2 THEN (IF ubox[k] < 0 THEN ubox[k] ELSE 0) ELSE (IF ubox[k] > 0 THEN ubox[k] ELSE 0)
           badk == {k \in 1 .. 4 : head[k] # ubox[k] /\ head[k] # WithOrigin(k)}
       IN IF badk = {} THEN {} ELSE {<<"head-bbox", Min(badk), head, ubox>>}

\* ---- what a static instance may contain ----------------------------------------------------------
VariationTables == {"fvar", "gvar", "avar", "cvar", "HVAR", "VVAR", "MVAR"}
IsStatic(tags, isVariable) == ~isVariable /\ \A k \in 1 .. Len(tags) : tags[k] \notin VariationTables
=============================================================================
