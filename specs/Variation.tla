------------------------------ MODULE Variation ------------------------------
(***************************************************************************)
(* C12 - instancing a variable font evaluates the OpenType variation       *)
(* model.  Pure operators, exact rational arithmetic (Fix!Q on Fix!Z big   *)
(* integers); every comparison is a cross multiplication.                  *)
(*                                                                         *)
(*  - region scalar: tent function per axis (start, peak, end; implied     *)
(*    start/end for a non-intermediate region), product over the axes      *)
(*  - packed point numbers and packed deltas, decoded from the serialized  *)
(*    bytes (all run encodings, one or two byte counts, "all points")      *)
(*  - shared versus private point numbers                                  *)
(*  - inferred deltas for un-referenced points (IUP), contour by contour   *)
(*  - value = default + sum over regions of scalar * delta                 *)
(*  - phantom points -> advance width and left side bearing                *)
(*  - item variation store (HVAR, MVAR) with or without delta-set index    *)
(*    map                                                                  *)
(* A glyph is judged by GlyphVerdict / MetricsVerdict: every output number *)
(* must be within one font unit of the exact value, and equal to the       *)
(* default master at the default coordinates.                              *)
(*                                                                         *)
(* Normalised coordinates and region coordinates are raw F2Dot14 integers; *)
(* point indices are 0-based as in the font, stored in TLA+ functions over *)
(* 0 .. n-1; byte sequences are 1-based TLA+ sequences.                    *)
(***************************************************************************)
EXTENDS Fix, FiniteSets, FiniteSetsExt

QZero == QOfInt(0)
QOne  == QOfInt(1)

RECURSIVE P2(_)
P2(n) == IF n = 0 THEN 1 ELSE 2 * P2(n - 1)

\* ---- region scalars -----------------------------------------------------------------
\* one axis: coordinate c against (start, peak, end)
AxisScalar(c, s, p, e) ==
  IF p = 0 THEN QOne                                      \* the axis does not take part
  ELSE IF c < s \/ c > e THEN QZero
  ELSE IF c = p THEN QOne
  ELSE IF c < p THEN Q(ZOf(c - s), ZOf(p - s))
  ELSE Q(ZOf(e - c), ZOf(e - p))

ImpliedStart(p) == IF p < 0 THEN p ELSE 0
ImpliedEnd(p)   == IF p > 0 THEN p ELSE 0

\* a region is a sequence of <<start, peak, end>>, one per axis
RegionOfPeak(peak) == [k \in 1 .. Len(peak) |-> <<ImpliedStart(peak[k]), peak[k], ImpliedEnd(peak[k])>>]
RegionOf(peak, start, end) == [k \in 1 .. Len(peak) |-> <<start[k], peak[k], end[k]>>]

\* A region the specification gives a meaning to: start <= peak <= end and, if the peak is not
\* zero, start and end on the same side of zero.
RegionValid(r) ==
  \A k \in 1 .. Len(r) :
     /\ r[k][1] <= r[k][2] /\ r[k][2] <= r[k][3]
     /\ (r[k][2] # 0 => ~(r[k][1] < 0 /\ r[k][3] > 0))

RECURSIVE ScalarFrom(_, _, _)
ScalarFrom(coords, r, k) ==
  IF k > Len(r) THEN QOne
  ELSE LET a == AxisScalar(coords[k], r[k][1], r[k][2], r[k][3]) IN
       IF QIsZero(a) THEN QZero ELSE QMul(a, ScalarFrom(coords, r, k + 1))
RegionScalar(coords, r) == ScalarFrom(coords, r, 1)

\* ---- packed point numbers --------------------------------------------------------------
\* result: [all |-> BOOLEAN, pts |-> sequence of point numbers, next |-> position after the data]
RECURSIVE PtRun(_, _, _, _, _)
PtRun(b, pos, k, words, last) ==
  IF k = 0 THEN <<>>
  ELSE LET d == IF words THEN b[pos] * 256 + b[pos + 1] ELSE b[pos]
           v == last + d
       IN <<v>> \o PtRun(b, pos + (IF words THEN 2 ELSE 1), k - 1, words, v)

RECURSIVE PtRuns(_, _, _, _)
PtRuns(b, pos, need, acc) ==
  IF need <= 0 THEN [all |-> FALSE, pts |-> acc, next |-> pos]
  ELSE LET ctrl == b[pos]
           n == (ctrl % 128) + 1
           words == ctrl >= 128
           last == IF acc = <<>> THEN 0 ELSE acc[Len(acc)]
           run == PtRun(b, pos + 1, n, words, last)
       IN PtRuns(b, pos + 1 + n * (IF words THEN 2 ELSE 1), need - n, acc \o run)

DecodePoints(b, pos) ==
  LET c1 == b[pos] IN
  IF c1 = 0 THEN [all |-> TRUE, pts |-> <<>>, next |-> pos + 1]
  ELSE IF c1 < 128 THEN PtRuns(b, pos + 1, c1, <<>>)
  ELSE PtRuns(b, pos + 2, (c1 % 128) * 256 + b[pos + 1], <<>>)

\* ---- packed deltas ----------------------------------------------------------------------
S8(x)  == IF x >= 128 THEN x - 256 ELSE x
S16(x) == IF x >= 32768 THEN x - 65536 ELSE x

RECURSIVE DeltaRun(_, _, _, _)
DeltaRun(b, pos, k, kind) ==        \* kind: 0 zeros, 1 bytes, 2 words
  IF k = 0 THEN <<>>
  ELSE IF kind = 0 THEN <<0>> \o DeltaRun(b, pos, k - 1, 0)
  ELSE IF kind = 1 THEN <<S8(b[pos])>> \o DeltaRun(b, pos + 1, k - 1, 1)
  ELSE <<S16(b[pos] * 256 + b[pos + 1])>> \o DeltaRun(b, pos + 2, k - 1, 2)

RECURSIVE DeltaRuns(_, _, _, _)
DeltaRuns(b, pos, need, acc) ==
  IF need <= 0 THEN [ds |-> acc, next |-> pos]
  ELSE LET ctrl == b[pos]
           n == (ctrl % 64) + 1
           kind == IF ctrl >= 128 THEN 0 ELSE IF ctrl >= 64 THEN 2 ELSE 1
       IN DeltaRuns(b, pos + 1 + n * kind, need - n, acc \o DeltaRun(b, pos + 1, n, kind))

DecodeDeltas(b, pos, n) == DeltaRuns(b, pos, n, <<>>)

\* ---- one tuple variation of a glyph ---------------------------------------------------------
\* np = number of points including the four phantom points; shared = decoded shared point
\* numbers (or a record with all = FALSE, pts = <<>> when the glyph has none).
\* Result: explicit deltas as functions over 0 .. np-1.
TupleDeltas(data, private, shared, np) ==
  LET pn == IF private THEN DecodePoints(data, 1) ELSE [all |-> shared.all, pts |-> shared.pts, next |-> 1]
      cnt == IF pn.all THEN np ELSE Len(pn.pts)
      dd == DecodeDeltas(data, pn.next, 2 * cnt)
      \* position (1-based) in the delta arrays of point i: the last occurrence wins
      Where(i) == IF pn.all THEN i + 1
                  ELSE LET ks == {k \in 1 .. cnt : pn.pts[k] = i} IN IF ks = {} THEN 0 ELSE Max(ks)
      pos == [i \in 0 .. np - 1 |-> Where(i)]
  IN [has |-> [i \in 0 .. np - 1 |-> pos[i] # 0],
      dx  |-> [i \in 0 .. np - 1 |-> IF pos[i] = 0 THEN 0 ELSE dd.ds[pos[i]]],
      dy  |-> [i \in 0 .. np - 1 |-> IF pos[i] = 0 THEN 0 ELSE dd.ds[cnt + pos[i]]],
      used |-> dd.next - 1, count |-> cnt]

\* ---- inferred deltas (IUP) --------------------------------------------------------------------
\* one direction: coordinates pc, tc, nc of the previous referenced, target and next referenced
\* point, deltas pd, nd of the two referenced points
InferAxis(pc, tc, nc, pd, nd) ==
  IF pc = nc THEN (IF pd = nd THEN QOfInt(pd) ELSE QZero)
  ELSE LET lo == IF pc < nc THEN pc ELSE nc
           hi == IF pc < nc THEN nc ELSE pc
           dlo == IF pc < nc THEN pd ELSE nd
           dhi == IF pc < nc THEN nd ELSE pd
       IN IF tc <= lo THEN QOfInt(dlo)
          ELSE IF tc >= hi THEN QOfInt(dhi)
          ELSE \* dlo + (tc - lo) * (dhi - dlo) / (hi - lo)
               Q(ZAdd(ZMul(ZOf(dlo), ZOf(hi - lo)), ZMul(ZOf(tc - lo), ZOf(dhi - dlo))), ZOf(hi - lo))

\* ends: sequence of the last point index of every contour.  Contour of point i:
ContourStart(ends, c) == IF c = 1 THEN 0 ELSE ends[c - 1] + 1
ContourOf(ends, i) == CHOOSE c \in 1 .. Len(ends) : ContourStart(ends, c) <= i /\ i <= ends[c]

\* delta of point i in one region, both directions, as rationals.
\* xs, ys: default coordinates (functions over 0 .. n-1), n = number of outline points.
PointDelta(simple, xs, ys, ends, n, td, i) ==
  IF td.has[i] THEN <<QOfInt(td.dx[i]), QOfInt(td.dy[i])>>
  ELSE IF ~simple \/ i >= n THEN <<QZero, QZero>>            \* components and phantom points: no inference
  ELSE LET c == ContourOf(ends, i)
           E == {k \in ContourStart(ends, c) .. ends[c] : td.has[k]}
       IN IF E = {} THEN <<QZero, QZero>>
          ELSE IF Cardinality(E) = 1 THEN LET k == CHOOSE k \in E : TRUE IN <<QOfInt(td.dx[k]), QOfInt(td.dy[k])>>
          ELSE LET below == {k \in E : k < i}
                   above == {k \in E : k > i}
                   prev == IF below # {} THEN Max(below) ELSE Max(E)
                   next == IF above # {} THEN Min(above) ELSE Min(E)
               IN <<InferAxis(xs[prev], xs[i], xs[next], td.dx[prev], td.dx[next]),
                    InferAxis(ys[prev], ys[i], ys[next], td.dy[prev], td.dy[next])>>

\* ---- a glyph's variation data as recorded in an event -------------------------------------------
\* g.pts   sequence of <<x, y>> (outline points / component offsets), g.ends, g.kind
\* g.ser   the serialized data area of the glyph variation data, g.hasShared
\* g.tuples sequence of [peak, inter, start, end, private, size] in header order
NPts(g) == Len(g.pts)
XS(g) == [i \in 0 .. NPts(g) - 1 |-> g.pts[i + 1][1]]
YS(g) == [i \in 0 .. NPts(g) - 1 |-> g.pts[i + 1][2]]

SharedPts(g) == IF g.hasShared THEN DecodePoints(g.ser, 1) ELSE [all |-> FALSE, pts |-> <<>>, next |-> 1]

\* 1-based offset of the data of tuple k inside g.ser
RECURSIVE TupleStart(_, _, _)
TupleStart(g, k, first) == IF k = 1 THEN first ELSE TupleStart(g, k - 1, first) + g.tuples[k - 1].size

TupleData(g, k) ==
  LET s == TupleStart(g, k, SharedPts(g).next) IN SubSeq(g.ser, s, s + g.tuples[k].size - 1)

TupleRegion(t) == IF t.inter THEN RegionOf(t.peak, t.start, t.end) ELSE RegionOfPeak(t.peak)

\* exact coordinates of all np points (outline/components, then 4 phantom points) at `coords`.
\* phantom: sequence of 4 <<x, y>> default phantom points.
\* Result: [x |-> function 0..np-1 -> Q, y |-> ...]
ExactPoints(g, phantom, coords) ==
  LET n == NPts(g)
      np == n + 4
      xs == XS(g) ys == YS(g)
      simple == g.kind = "simple"
      sh == SharedPts(g)
      NT == Len(g.tuples)
      scal == [k \in 1 .. NT |-> RegionScalar(coords, TupleRegion(g.tuples[k]))]
      tds == [k \in 1 .. NT |-> IF QIsZero(scal[k]) THEN <<>>
                                 ELSE TupleDeltas(TupleData(g, k), g.tuples[k].private, sh, np)]
      Def(i, d) == IF i < n THEN g.pts[i + 1][d] ELSE phantom[i - n + 1][d]
      RECURSIVE Acc(_, _, _, _)
      Acc(i, d, k, acc) ==
        IF k > NT THEN acc
        ELSE IF QIsZero(scal[k]) THEN Acc(i, d, k + 1, acc)
        ELSE LET pd == PointDelta(simple, xs, ys, g.ends, n, tds[k], i)[d] IN
             Acc(i, d, k + 1, IF QIsZero(pd) THEN acc ELSE QAdd(acc, QMul(scal[k], pd)))
  IN [x |-> [i \in 0 .. np - 1 |-> Acc(i, 1, 1, QOfInt(Def(i, 1)))],
      y |-> [i \in 0 .. np - 1 |-> Acc(i, 2, 1, QOfInt(Def(i, 2)))]]

\* |out - exact| <= 1
Within1(out, e) == ZLe(ZAbs(ZSub(ZMul(ZOf(out), e.q), e.p)), e.q)
QIsInt(e, v) == ZEq(e.p, ZMul(ZOf(v), e.q))

\* ---- item variation store -----------------------------------------------------------------------
\* ivs = [regions |-> sequence of regions, subs |-> sequence of [ri |-> region indices (0-based),
\*        rows |-> sequence of delta rows]]
\* map = [present, fmt, count, data]: delta-set index map
MapEntry(map, i) ==
  LET j == IF i >= map.count THEN map.count - 1 ELSE i
      size == ((map.fmt \div 16) % 4) + 1
      bits == (map.fmt % 16) + 1
      RECURSIVE Val(_, _)
      Val(k, acc) == IF k > size THEN acc ELSE Val(k + 1, acc * 256 + map.data[j * size + k])
      v == Val(1, 0)
  IN [outer |-> v \div P2(bits), inner |-> v % P2(bits)]

EntryFor(map, gid) == IF map.present THEN MapEntry(map, gid) ELSE [outer |-> 0, inner |-> gid]

IvsDelta(ivs, entry, coords) ==
  LET sub == ivs.subs[entry.outer + 1]
      row == sub.rows[entry.inner + 1]
      RECURSIVE Sum(_, _)
      Sum(k, acc) ==
        IF k > Len(row) THEN acc
        ELSE LET s == RegionScalar(coords, ivs.regions[sub.ri[k] + 1]) IN
             Sum(k + 1, IF QIsZero(s) \/ row[k] = 0 THEN acc ELSE QAdd(acc, QMul(s, QOfInt(row[k]))))
  IN Sum(1, QZero)

\* ---- what a static instance may contain ----------------------------------------------------------
VariationTables == {"fvar", "gvar", "avar", "cvar", "HVAR", "VVAR", "MVAR"}
IsStatic(tags, isVariable) == ~isVariable /\ \A k \in 1 .. Len(tags) : tags[k] \notin VariationTables
=============================================================================
