CONSTANTS
  LenOf <- LenNone
  PairsFull = TRUE
  LongLens <- LongThorough
SPECIFICATION SSpec
INVARIANTS StepOK GlobalOK FinalOK Emit
CHECK_DEADLOCK FALSE
