------------------------------ MODULE MC_Gsub ------------------------------
(***************************************************************************)
(* Bounded exploration of Gsub and generator of replay cases (spec -> impl).*)
(*                                                                         *)
(* A case is (program template, input glyph string).  Init picks the case;  *)
(* the machine then executes the enabled lookups in order, ONE RUN POSITION *)
(* PER STEP (Gsub!StepFwd / StepRev = one iteration of the loop in          *)
(* gsub_apply_lookup).  Invariants checked on every state:                  *)
(*   CursorInRun, CharsConserved, FlagsSane, ProgramsWellFormed,            *)
(*   SmallStepIsDenotation (at the end: history = Gsub!GsubSteps),          *)
(* and Terminates: an Assert in Next that the measure strictly decreases.   *)
(* At the end of a case one CASE line is printed with the expected run      *)
(* after every lookup under each accepted reading (Dev_xxx), plus the runs of *)
(* the known non-conformant reading (used to classify mismatches only).     *)
(* One PROG line is printed per program (at its empty-string case).         *)
(***************************************************************************)
EXTENDS Gsub, Json, TLC

CONSTANT Tier                      \* "quick" or "thorough"

VARIABLES pi, inp, k, i, run, hist, tags, deleted
vars == <<pi, inp, k, i, run, hist, tags, deleted>>

Q(q, t) == IF Tier = "quick" THEN q ELSE t

NumGlyphs == 16

---------------------------------------------------------------------------
(* Encoders of abstract tables in either format *)
RECURSIVE RangesAcc(_, _, _)
RangesAcc(gs, n, acc) ==
  IF n > Len(gs) THEN acc
  ELSE IF acc # <<>> /\ acc[Len(acc)][2] + 1 = gs[n]
       THEN RangesAcc(gs, n + 1, [acc EXCEPT ![Len(acc)] = <<acc[Len(acc)][1], gs[n], acc[Len(acc)][3]>>])
       ELSE RangesAcc(gs, n + 1, Append(acc, <<gs[n], gs[n], n - 1>>))
Cov(f, gs) == IF f = 1 THEN [fmt |-> 1, glyphs |-> gs] ELSE [fmt |-> 2, ranges |-> RangesAcc(gs, 1, <<>>)]

\* class definition from a sequence of <<glyph, class>> pairs with ascending glyphs
RECURSIVE CdRanges(_, _, _)
CdRanges(ps, n, acc) ==
  IF n > Len(ps) THEN acc
  ELSE IF acc # <<>> /\ acc[Len(acc)][2] + 1 = ps[n][1] /\ acc[Len(acc)][3] = ps[n][2]
       THEN CdRanges(ps, n + 1, [acc EXCEPT ![Len(acc)] = <<acc[Len(acc)][1], ps[n][1], ps[n][2]>>])
       ELSE CdRanges(ps, n + 1, Append(acc, <<ps[n][1], ps[n][1], ps[n][2]>>))
Cd(f, ps) ==
  IF f = 2 THEN [fmt |-> 2, ranges |-> CdRanges(ps, 1, <<>>)]
  ELSE LET lo == ps[1][1]
           hi == ps[Len(ps)][1]
           At(g) == LET ks == {q \in 1 .. Len(ps) : ps[q][1] = g} IN IF ks = {} THEN 0 ELSE ps[MinOf(ks)][2]
       IN [fmt |-> 1, start |-> lo, classes |-> [q \in 1 .. hi - lo + 1 |-> At(lo + q - 1)]]

---------------------------------------------------------------------------
(* The glyph universe.  Input alphabet 1..6, outputs 7..15.                 *)
(*  1 A base   2 B base   3 L ligature   4 M1 mark att1 set0                *)
(*  5 M2 mark att2 set1   6 U unclassified                                  *)
(*  7 base  8 ligature  9 mark att1 set0  10 unclassified  11 base 12 base  *)
(*  13 mark att2 set1  14 ligature  15 unclassified                         *)
ClsPairs == << <<1,1>>, <<2,1>>, <<3,2>>, <<4,3>>, <<5,3>>, <<7,1>>, <<8,2>>, <<9,3>>,
               <<11,1>>, <<12,1>>, <<13,3>>, <<14,2>> >>
AttPairs == << <<4,1>>, <<5,2>>, <<9,1>>, <<13,2>> >>
GdefA == [cls |-> Cd(1, ClsPairs), att |-> Cd(1, AttPairs), sets |-> <<Cov(1, <<4, 9>>), Cov(2, <<5, 13>>)>>]
GdefB == [cls |-> Cd(2, ClsPairs), att |-> Cd(2, AttPairs), sets |-> <<Cov(2, <<4, 9>>), Cov(1, <<5, 13>>)>>]
GdefNone == [cls |-> NoCd, att |-> NoCd, sets |-> <<>>]
Gdef(v) == IF v = 1 THEN GdefA ELSE IF v = 2 THEN GdefB ELSE GdefNone

\* flag specifications <<flag, markFilteringSet>>
F0 == <<0, 0>>      FR == <<1, 0>>     FB == <<2, 0>>     FL == <<4, 0>>    FM == <<8, 0>>
FA1 == <<256, 0>>   FA2 == <<512, 0>>  FS0 == <<16, 0>>   FS1 == <<16, 1>>
FBM == <<10, 0>>    FLA1 == <<260, 0>> FMS == <<24, 1>>   FBS0 == <<18, 0>>  FMA == <<264, 0>>
\* markAttachmentType together with useMarkFilteringSet (Dev_MarkFilterPrecedence): set 0 = {4, 9} are the marks
\* of attachment class 1, set 1 = {5, 13} those of class 2, so FA1S1 / FA2S0 tell the three readings apart,
\* FA1S0 does not, and ignoreMarks (FMA1S1) supersedes both filters
FA1S1 == <<272, 1>>  FA2S0 == <<528, 0>>  FA1S0 == <<272, 0>>  FMA1S1 == <<280, 1>>  FBA1S1 == <<274, 1>>
FlagsCombo == <<FA1S1, FA2S0, FA1S0, FMA1S1, FBA1S1>>
FlagsAll  == <<F0, FR, FB, FL, FM, FA1, FA2, FS0, FS1, FBM, FLA1, FMS, FBS0, FMA>>
FlagsMain == <<F0, FM, FA1, FA2, FS0, FS1, FB, FL>>
FlagsCore == <<F0, FM, FA2, FS0>>

Lk(t, fl, subs) == [type |-> t, etype |-> 0, flag |-> fl[1], mfs |-> fl[2], subs |-> subs]
Ext(L) == [L EXCEPT !.type = 7, !.etype = L.type]
MaybeExt(b, L) == IF b THEN Ext(L) ELSE L

Feat(tag, ls) == [tag |-> tag, lookups |-> ls]
Req(tag, a) == [tag |-> tag, alt |-> a]

\* a program that applies lookup 0 only (further lookups are reached as nested lookups)
Prog(gd, lookups) ==
  [gdef |-> Gdef(gd), lookups |-> lookups, features |-> <<Feat("liga", <<0>>)>>, vars |-> <<>>,
   request |-> <<Req("liga", 0)>>, tuple |-> <<>>]
Entry(name, prog, alpha, maxlen) == [name |-> name, prog |-> prog, alpha |-> alpha, maxlen |-> maxlen]

\* sequence of all pairs / triples of two / three sequences
Pairs(A, B) == [n \in 1 .. Len(A) * Len(B) |-> <<A[((n - 1) \div Len(B)) + 1], B[((n - 1) % Len(B)) + 1]>>]
Triples(A, B, C) == LET ab == Pairs(A, B) IN
  [n \in 1 .. Len(ab) * Len(C) |-> <<ab[((n - 1) \div Len(C)) + 1][1], ab[((n - 1) \div Len(C)) + 1][2], C[((n - 1) % Len(C)) + 1]>>]
RECURSIVE Flatten(_)
Flatten(ss) == IF ss = <<>> THEN <<>> ELSE Head(ss) \o Flatten(Tail(ss))
Par(n) == 1 + (n % 2)                       \* alternate formats 1 / 2 by parity

---------------------------------------------------------------------------
(* F1 single substitution: every flag, both formats, both coverage formats  *)
SingleSub(f, cf) ==
  IF f = 1 THEN [fmt |-> 1, cov |-> Cov(cf, <<1, 3, 4, 5, 6>>), delta |-> 6]
  ELSE [fmt |-> 2, cov |-> Cov(cf, <<1, 3, 4, 5, 6>>), subst |-> <<7, 8, 5, 4, 10>>]
FamSingle ==
  LET ps == Triples(FlagsAll, <<1, 2>>, <<1, 2>>) IN
  [n \in 1 .. Len(ps) |->
     Entry("single", Prog(Par(n), <<MaybeExt(n % 3 = 0, Lk(1, ps[n][1], <<SingleSub(ps[n][2], ps[n][3])>>))>>),
           <<1, 2, 3, 4, 5, 6>>, Q(2, 3))]
\* subtable precedence, negative delta, an empty subtable list, a glyph covered by the second subtable only
FamSingleMisc ==
  << Entry("single-precedence",
           Prog(1, <<Lk(1, F0, << [fmt |-> 2, cov |-> Cov(1, <<1, 2>>), subst |-> <<7, 11>>],
                                 [fmt |-> 2, cov |-> Cov(2, <<2, 3>>), subst |-> <<12, 14>>],
                                 [fmt |-> 1, cov |-> Cov(1, <<1, 6>>), delta |-> 9] >>)>>),
           <<1, 2, 3, 6>>, Q(3, 4)),
     Entry("single-negative-delta",
           Prog(2, <<Lk(1, FM, << [fmt |-> 1, cov |-> Cov(2, <<2, 3, 4, 6>>), delta |-> -1] >>)>>),
           <<1, 2, 3, 4, 6>>, Q(3, 3)),
     Entry("single-no-subtables", Prog(1, <<Lk(1, F0, <<>>)>>), <<1, 2>>, 2),
     Entry("single-no-gdef", Prog(0, <<Lk(1, FBM, <<SingleSub(2, 2)>>)>>), <<1, 3, 4, 6>>, Q(3, 3)) >>

(* F2 multiple substitution: growth, deletion, length bookkeeping           *)
MultiSub(cf) == [fmt |-> 1, cov |-> Cov(cf, <<1, 2, 4, 6>>), seqs |-> << <<7, 9>>, <<>>, <<4, 4, 5>>, <<10>> >>]
FamMulti ==
  LET ps == Pairs(<<F0, FM, FS0, FS1, FB, FA1>>, <<1, 2>>) IN
  [n \in 1 .. Len(ps) |->
     Entry("multi", Prog(Par(n), <<MaybeExt(n % 4 = 0, Lk(2, ps[n][1], <<MultiSub(ps[n][2])>>))>>),
           <<1, 2, 4, 6>>, Q(3, 5))]
FamMultiMisc ==
  << Entry("multi-precedence",
           Prog(1, <<Lk(2, F0, << [fmt |-> 1, cov |-> Cov(1, <<2>>), seqs |-> << <<1, 1>> >>],
                                 [fmt |-> 1, cov |-> Cov(2, <<1, 2>>), seqs |-> << <<2, 7>>, <<8>> >>] >>)>>),
           <<1, 2, 6>>, Q(4, 5)) >>

(* F3 alternate substitution: requested alternate, out of range            *)
FamAlt ==
  LET ps == Pairs(<<0, 1, 2, 3>>, <<F0, FM>>) IN
  [n \in 1 .. Len(ps) |->
     Entry("alternate",
           [Prog(Par(n), <<Lk(3, ps[n][2], << [fmt |-> 1, cov |-> Cov(Par(n), <<1, 4>>), alts |-> << <<7, 11, 12>>, <<9>> >>],
                                              [fmt |-> 1, cov |-> Cov(1, <<1, 2>>), alts |-> << <<8>>, <<8, 14>> >>] >>)>>)
              EXCEPT !.request = <<Req("liga", ps[n][1])>>],
           <<1, 2, 4, 6>>, 3)]

(* F4 ligature substitution: skipping by every flag, set order, subtable    *)
(* order, one-component ligature, component positions of skipped marks      *)
LigSubA(cf) == [fmt |-> 1, cov |-> Cov(cf, <<1, 2>>),
                sets |-> << << [lig |-> 8, comps |-> <<2, 1>>], [lig |-> 14, comps |-> <<2>>] >>,
                            << [lig |-> 7, comps |-> <<1>>] >> >>]
LigSubB(cf) == [fmt |-> 1, cov |-> Cov(cf, <<1, 3, 4>>),
                sets |-> << << [lig |-> 12, comps |-> <<1>>] >>, << [lig |-> 14, comps |-> <<4>>] >>,
                            << [lig |-> 9, comps |-> <<5>>], [lig |-> 13, comps |-> <<>>] >> >>]
FamLig ==
  LET ps == Pairs(FlagsAll, <<1, 2>>) IN
  [n \in 1 .. Len(ps) |->
     Entry("ligature", Prog(Par(n \div 2), <<MaybeExt(n % 5 = 0, Lk(4, ps[n][1], <<LigSubA(ps[n][2]), LigSubB(3 - ps[n][2])>>))>>),
           <<1, 2, 3, 4, 5, 6>>, Q(3, 4))]
FamLigLong ==
  LET ps == FlagsMain IN
  [n \in 1 .. Len(ps) |->
     Entry("ligature-long", Prog(Par(n), <<Lk(4, ps[n], <<LigSubA(Par(n))>>)>>), <<1, 2, 4, 5>>, Q(5, 6))]

(* F5 context substitution, formats 1-3, nested single / ligature / multi   *)
Nest1(fl) == Lk(1, fl, << [fmt |-> 2, cov |-> Cov(1, <<1, 2, 4, 5, 6>>), subst |-> <<7, 11, 9, 13, 10>>] >>)
NestLig(fl) == Lk(4, fl, << [fmt |-> 1, cov |-> Cov(2, <<1, 2>>),
                             sets |-> << << [lig |-> 8, comps |-> <<2>>] >>, << [lig |-> 14, comps |-> <<1>>], [lig |-> 8, comps |-> <<2>>] >> >>] >>)
NestMulti == Lk(2, F0, << [fmt |-> 1, cov |-> Cov(1, <<1, 2, 4>>), seqs |-> << <<1, 6>>, <<>>, <<9, 9>> >>] >>)
\* input sequence A B (A = 1, B = 2), records recs
Ctx12(f, cf, recs) ==
  CASE f = 1 -> [fmt |-> 1, cov |-> Cov(cf, <<1, 6>>),
                 sets |-> << << [input |-> <<2, 2>>, recs |-> recs], [input |-> <<2>>, recs |-> recs] >>, <<>> >>]
    [] f = 2 -> [fmt |-> 2, cov |-> Cov(cf, <<1, 6>>), icd |-> Cd(cf, << <<1, 1>>, <<2, 2>>, <<4, 3>> >>),
                 sets |-> << <<>>, << [input |-> <<2, 2>>, recs |-> recs], [input |-> <<2>>, recs |-> recs] >>, <<>>, <<>> >>]
    [] f = 3 -> [fmt |-> 3, input |-> <<Cov(cf, <<1>>), Cov(3 - cf, <<2, 3>>)>>, recs |-> recs]
FamCtx ==
  LET recsets == << << <<0, 1>> >>, << <<1, 1>> >>, << <<1, 1>>, <<0, 1>> >>, << <<0, 2>> >>, << <<0, 3>>, <<1, 1>> >>,
                    << <<1, 3>>, <<1, 1>> >>, <<>>, << <<0, 2>>, <<1, 1>> >> >>
      ps == Triples(<<1, 2, 3>>, FlagsCore, recsets) IN
  [n \in 1 .. Len(ps) |->
     Entry("context",
           Prog(Par(n), <<MaybeExt(n % 4 = 1, Lk(5, ps[n][2], <<Ctx12(ps[n][1], Par(n \div 3), ps[n][3])>>)),
                          Nest1(F0), NestLig(ps[n][2]), NestMulti>>),
           <<1, 2, 4, 6>>, Q(4, 5))]

(* F6 chained context, formats 1-3: backtrack A|mark, input B B?, lookahead *)
Chain(f, cf, recs) ==
  CASE f = 1 -> [fmt |-> 1, cov |-> Cov(cf, <<2>>),
                 sets |-> << << [back |-> <<1>>, input |-> <<2>>, look |-> <<1>>, recs |-> recs],
                                [back |-> <<1, 2>>, input |-> <<1>>, look |-> <<>>, recs |-> recs],
                                [back |-> <<>>, input |-> <<1>>, look |-> <<1, 2>>, recs |-> recs] >> >>]
    [] f = 2 -> [fmt |-> 2, cov |-> Cov(cf, <<1, 2>>),
                 bcd |-> Cd(cf, << <<1, 1>>, <<2, 2>> >>), icd |-> Cd(3 - cf, << <<1, 2>>, <<2, 1>> >>),
                 lcd |-> Cd(cf, << <<1, 5>>, <<2, 1>>, <<4, 1>> >>),
                 sets |-> << <<>>,
                             << [back |-> <<1>>, input |-> <<1>>, look |-> <<5>>, recs |-> recs],
                                [back |-> <<1, 2>>, input |-> <<2>>, look |-> <<>>, recs |-> recs] >>,
                             << [back |-> <<>>, input |-> <<1>>, look |-> <<5, 1>>, recs |-> recs] >> >>]
    [] f = 3 -> [fmt |-> 3, back |-> <<Cov(cf, <<1, 4>>)>>, input |-> <<Cov(cf, <<2>>), Cov(3 - cf, <<1, 2>>)>>,
                 look |-> <<Cov(cf, <<1>>)>>, recs |-> recs]
FamChain ==
  LET recsets == << << <<0, 1>> >>, << <<1, 1>>, <<0, 2>> >>, << <<0, 2>> >>, << <<0, 3>> >> >>
      ps == Triples(<<1, 2, 3>>, <<F0, FM, FA1, FS0, FS1>>, recsets) IN
  [n \in 1 .. Len(ps) |->
     Entry("chain",
           Prog(Par(n), <<MaybeExt(n % 5 = 2, Lk(6, ps[n][2], <<Chain(ps[n][1], Par(n \div 2), ps[n][3])>>)),
                          Nest1(F0), NestLig(ps[n][2]), NestMulti>>),
           IF ps[n][2] \in {F0, FM} THEN <<1, 2, 4>> ELSE <<1, 2, 4, 5>>,
           IF ps[n][2] \in {F0, FM} THEN Q(5, 6) ELSE Q(4, 6))]

(* F7 interactions named by the property                                    *)
FamInteractions ==
  << \* a ligature skipping marks inside a chained context under a mark filtering set
     Entry("chain-ligature-marks-mfs",
           Prog(1, << Lk(6, FS0, << [fmt |-> 3, back |-> <<Cov(1, <<3, 6>>)>>, input |-> <<Cov(1, <<1>>), Cov(2, <<2>>)>>,
                                     look |-> <<Cov(1, <<1, 4>>)>>, recs |-> << <<0, 1>> >>] >>),
                      Lk(4, FS1, << [fmt |-> 1, cov |-> Cov(1, <<1>>), sets |-> << << [lig |-> 8, comps |-> <<2>>] >> >>] >>) >>),
           <<1, 2, 4, 5, 6>>, Q(5, 6)),
     \* a class based rule whose first glyph is class 0
     Entry("context-class0-first",
           Prog(2, << Lk(5, FM, << [fmt |-> 2, cov |-> Cov(2, <<1, 2, 6>>), icd |-> Cd(2, << <<2, 1>>, <<3, 2>> >>),
                                    sets |-> << << [input |-> <<1>>, recs |-> << <<0, 1>>, <<1, 1>> >>],
                                                   [input |-> <<0>>, recs |-> << <<1, 1>> >>] >>,
                                                << [input |-> <<0, 0>>, recs |-> << <<2, 1>> >>] >>, <<>> >>] >>),
                      Nest1(F0) >>),
           <<1, 2, 3, 4, 6>>, Q(4, 5)),
     \* an extension lookup nested in a context (itself an extension)
     Entry("context-extension-nested",
           Prog(1, << Ext(Lk(5, FA2, <<Ctx12(3, 2, << <<1, 1>> >>)>>)), Ext(Nest1(F0)) >>),
           <<1, 2, 3, 4, 5>>, Q(4, 5)),
     \* a multiple substitution with an empty sequence inside a context
     Entry("context-multi-empty",
           Prog(1, << Lk(5, FM, <<Ctx12(1, 1, << <<1, 1>>, <<1, 2>> >>)>>),
                      Lk(2, F0, << [fmt |-> 1, cov |-> Cov(1, <<2>>), seqs |-> << <<>> >>] >>),
                      Nest1(F0) >>),
           <<1, 2, 4, 6>>, Q(5, 6)),
     \* a record after a record that deleted the glyph at its sequence index: the index then denotes the glyph
     \* that moved up, or nothing at all when the deleted glyph was the last of the run
     Entry("context-deletes-then-indexes",
           Prog(1, << Lk(5, F0, << [fmt |-> 3, input |-> <<Cov(1, <<1, 2>>)>>, recs |-> << <<0, 1>>, <<0, 2>> >>] >>),
                      Lk(2, F0, << [fmt |-> 1, cov |-> Cov(1, <<1>>), seqs |-> << <<>> >>] >>),
                      Nest1(F0) >>),
           <<1, 2, 6>>, Q(4, 5)),
     \* nested deletions that remove more glyphs than the input sequence had
     Entry("context-deletes-twice",
           Prog(2, << Lk(5, FM, << [fmt |-> 3, input |-> <<Cov(2, <<1, 2>>)>>, recs |-> << <<0, 1>>, <<0, 1>> >>] >>),
                      Lk(2, F0, << [fmt |-> 1, cov |-> Cov(2, <<1, 2>>), seqs |-> << <<>>, <<>> >>] >>) >>),
           <<1, 2, 4, 6>>, Q(4, 5)),
     \* contexts nested in contexts, to the depth allsorts permits
     Entry("context-nested-depth",
           Prog(1, << Lk(5, F0, << [fmt |-> 3, input |-> <<Cov(1, <<1>>), Cov(1, <<1, 2>>)>>, recs |-> << <<1, 1>>, <<0, 3>> >>] >>),
                      Lk(6, FM, << [fmt |-> 3, back |-> <<Cov(1, <<1>>)>>, input |-> <<Cov(1, <<1, 2>>)>>, look |-> <<>>,
                                    recs |-> << <<0, 2>> >>] >>),
                      Lk(5, F0, << [fmt |-> 1, cov |-> Cov(1, <<1, 2>>),
                                    sets |-> << << [input |-> <<>>, recs |-> << <<0, 3>> >>] >>,
                                                << [input |-> <<4>>, recs |-> << <<1, 3>>, <<0, 3>> >>] >> >>] >>),
                      Nest1(F0) >>),
           <<1, 2, 4>>, Q(5, 6)),
     \* Dev_NestedSeqIdxFlag: the nested lookup's own flag would skip the glyph at the sequence index
     Entry("nested-own-flag",
           Prog(1, << Lk(5, F0, << [fmt |-> 3, input |-> <<Cov(1, <<1, 4>>), Cov(1, <<2, 4, 5>>)>>,
                                    recs |-> << <<1, 1>>, <<0, 2>> >>] >>),
                      Nest1(FM),
                      Lk(4, FM, << [fmt |-> 1, cov |-> Cov(1, <<1, 4>>),
                                    sets |-> << << [lig |-> 8, comps |-> <<2>>] >>, << [lig |-> 9, comps |-> <<2>>] >> >>] >>) >>),
           <<1, 2, 4, 5>>, Q(4, 5)),
     \* nested ligature that consumes glyphs beyond the matched input sequence
     Entry("context-ligature-beyond-input",
           Prog(1, << Lk(6, F0, << [fmt |-> 3, back |-> <<>>, input |-> <<Cov(1, <<1>>)>>, look |-> <<Cov(1, <<2>>)>>,
                                    recs |-> << <<0, 1>> >>] >>),
                      Lk(4, F0, << [fmt |-> 1, cov |-> Cov(1, <<1>>),
                                    sets |-> << << [lig |-> 8, comps |-> <<2, 2>>], [lig |-> 14, comps |-> <<2>>] >> >>] >>) >>),
           <<1, 2, 6>>, Q(5, 6)) >>

(* F8 reverse chaining single substitution                                  *)
Rev(cf) == [fmt |-> 1, cov |-> Cov(cf, <<1, 2, 4>>), back |-> <<Cov(cf, <<1, 7>>)>>,
            look |-> <<Cov(3 - cf, <<2, 11>>)>>, subst |-> <<7, 11, 9>>]
FamRev ==
  LET ps == Pairs(<<F0, FM, FA2, FS0, FS1, FB>>, <<1, 2>>) IN
  [n \in 1 .. Len(ps) |->
     Entry("reverse", Prog(Par(n), <<MaybeExt(n % 3 = 0, Lk(8, ps[n][1], <<Rev(ps[n][2])>>))>>),
           <<1, 2, 4, 5>>, Q(4, 5))]
FamRevMisc ==
  << Entry("reverse-lookahead-only",
           Prog(1, << Lk(8, FM, << [fmt |-> 1, cov |-> Cov(1, <<1>>), back |-> <<>>, look |-> <<Cov(1, <<1, 7>>), Cov(1, <<2>>)>>, subst |-> <<7>>],
                                   [fmt |-> 1, cov |-> Cov(2, <<1, 2>>), back |-> <<Cov(1, <<2>>), Cov(1, <<1>>)>>, look |-> <<>>, subst |-> <<12, 11>>] >>) >>),
           <<1, 2, 4>>, Q(5, 6)) >>

(* F9 several lookups: ordering across features, each lookup once,         *)
(* FeatureVariations                                                        *)
OrdLookups ==
  << Lk(1, F0, << [fmt |-> 2, cov |-> Cov(1, <<1>>), subst |-> <<2>>] >>),                     \* 0: A -> B
     Lk(1, F0, << [fmt |-> 2, cov |-> Cov(1, <<2>>), subst |-> <<6>>] >>),                     \* 1: B -> U
     Lk(4, F0, << [fmt |-> 1, cov |-> Cov(1, <<1, 2>>), sets |-> << << [lig |-> 8, comps |-> <<2>>] >>, << [lig |-> 14, comps |-> <<2>>] >> >>] >>),  \* 2
     Lk(2, F0, << [fmt |-> 1, cov |-> Cov(1, <<6>>), seqs |-> << <<1, 2>> >>] >>) >>            \* 3: U -> A B
\* tags known to FeatureMask (so that Features::Mask can request them), in alphabetical order as OpenType asks
OrdFeatures == << Feat("calt", <<2, 0>>), Feat("ccmp", <<1>>), Feat("liga", <<3, 1>>), Feat("rlig", <<>>) >>
OrdVars == << [conds |-> << <<0, 8192, 16384>>, <<1, -16384, 0>> >>, subst |-> << [fi |-> 0, lookups |-> <<3>>], [fi |-> 2, lookups |-> <<0>>] >>],
              [conds |-> << <<0, 4096, 16384>> >>, subst |-> << [fi |-> 1, lookups |-> <<2, 3>>] >>],
              [conds |-> <<>>, subst |-> <<>>] >>
FamOrder ==
  LET reqs == << <<Req("calt", 0)>>, <<Req("ccmp", 0), Req("calt", 0)>>, <<Req("liga", 0), Req("calt", 0), Req("ccmp", 0)>>,
                 <<Req("liga", 0)>>, <<Req("smcp", 0), Req("rlig", 0)>>, <<>> >>
      tuples == << <<>>, <<0, 0>>, <<8192, 0>>, <<8192, 1>>, <<4096, -16384>>, <<16384, -1>>, <<4095>>, <<8192>> >>
      ps == Pairs(reqs, tuples) IN
  [n \in 1 .. Len(ps) |->
     Entry("ordering",
           [gdef |-> Gdef(Par(n)), lookups |-> OrdLookups, features |-> OrdFeatures, vars |-> OrdVars,
            request |-> ps[n][1], tuple |-> ps[n][2]],
           <<1, 2, 6>>, Q(3, 4))]

(* F10 flags that set markAttachmentType AND useMarkFilteringSet, over the  *)
(* lookup types whose matching skips (cursor glyph, ligature components,    *)
(* chained context, reverse chaining)                                       *)
FamCombo ==
  LET fs == FlagsCombo IN
  Flatten([n \in 1 .. Len(fs) |->
    << Entry("combo-single", Prog(Par(n), <<Lk(1, fs[n], <<SingleSub(2, Par(n))>>)>>), <<1, 4, 5>>, Q(2, 3)),
       Entry("combo-ligature", Prog(Par(n + 1), <<MaybeExt(n % 2 = 0, Lk(4, fs[n], <<LigSubA(Par(n))>>))>>),
             <<1, 2, 4, 5>>, Q(4, 5)),
       Entry("combo-chain",
             Prog(Par(n), << Lk(6, fs[n], <<Chain(3, Par(n), << <<1, 1>>, <<0, 2>> >>)>>), Nest1(F0), NestLig(fs[n]), NestMulti >>),
             <<1, 2, 4, 5>>, Q(4, 5)),
       Entry("combo-reverse", Prog(Par(n + 1), <<Lk(8, fs[n], <<Rev(Par(n))>>)>>), <<1, 2, 4, 5>>, Q(4, 5)) >>])

(* F11 reverse chaining: two subtables (first match wins), two backtrack    *)
(* coverages that differ, two lookahead coverages, covered marks, outputs   *)
(* that later (= further left) positions see as lookahead                   *)
Rev2Subs(cf) ==
  << [fmt |-> 1, cov |-> Cov(cf, <<1, 4>>), back |-> <<Cov(cf, <<2>>), Cov(3 - cf, <<1>>)>>, look |-> <<>>, subst |-> <<7, 9>>],
     [fmt |-> 1, cov |-> Cov(3 - cf, <<1, 2, 4, 5>>), back |-> <<>>,
      look |-> <<Cov(cf, <<1, 2, 7>>), Cov(cf, <<2, 11>>)>>, subst |-> <<12, 11, 13, 9>>] >>
FamRev2 ==
  LET fs == FlagsMain \o <<FMS, FBS0, FA1S1>> IN
  [n \in 1 .. Len(fs) |->
     Entry("reverse-two-subtables", Prog(Par(n), <<MaybeExt(n % 4 = 0, Lk(8, fs[n], Rev2Subs(Par(n \div 2))))>>),
           <<1, 2, 4, 5>>, Q(4, 5))]

(* F12 several context subtables of different formats in one lookup: the    *)
(* first subtable with a matching rule wins, a matching rule without lookup *)
(* records (the type 5 / 6 form of `ignore sub`) wins too and consumes its  *)
(* input                                                                    *)
CtxSubs ==
  << [fmt |-> 3, input |-> <<Cov(1, <<1>>), Cov(2, <<2>>), Cov(1, <<2>>)>>, recs |-> <<>>],
     [fmt |-> 1, cov |-> Cov(2, <<1, 2>>),
      sets |-> << << [input |-> <<2>>, recs |-> << <<0, 1>> >>] >>, << [input |-> <<1>>, recs |-> <<>>], [input |-> <<1>>, recs |-> << <<1, 1>> >>] >> >>],
     [fmt |-> 2, cov |-> Cov(1, <<1, 2, 6>>), icd |-> Cd(2, << <<1, 1>>, <<2, 1>>, <<6, 2>> >>),
      sets |-> << <<>>, << [input |-> <<1>>, recs |-> << <<1, 1>> >>] >>, << [input |-> <<>>, recs |-> << <<0, 1>> >>] >> >>] >>
ChainSubs ==
  << [fmt |-> 3, back |-> <<>>, input |-> <<Cov(1, <<1>>)>>, look |-> <<Cov(2, <<2>>)>>, recs |-> <<>>],
     [fmt |-> 1, cov |-> Cov(1, <<1>>),
      sets |-> << << [back |-> <<2, 2>>, input |-> <<>>, look |-> <<>>, recs |-> <<>>],
                     [back |-> <<>>, input |-> <<>>, look |-> <<>>, recs |-> << <<0, 1>> >>] >> >>],
     [fmt |-> 2, cov |-> Cov(2, <<2, 6>>), bcd |-> Cd(1, << <<1, 1>>, <<7, 1>> >>), icd |-> [fmt |-> 2, ranges |-> <<>>], lcd |-> [fmt |-> 1, start |-> 3, classes |-> <<>>],
      sets |-> << << [back |-> <<1>>, input |-> <<>>, look |-> <<>>, recs |-> << <<0, 1>> >>],
                     [back |-> <<0>>, input |-> <<0>>, look |-> <<>>, recs |-> << <<1, 1>> >>] >> >>] >>
FamSubtables ==
  LET fs == <<F0, FM, FS1, FA1S1>> IN
  Flatten([n \in 1 .. Len(fs) |->
    << Entry("context-subtables", Prog(Par(n), << MaybeExt(n = 2, Lk(5, fs[n], CtxSubs)), Nest1(F0) >>), <<1, 2, 4, 6>>, Q(4, 5)),
       Entry("chain-subtables", Prog(Par(n + 1), << MaybeExt(n = 3, Lk(6, fs[n], ChainSubs)), Nest1(F0) >>), <<1, 2, 4, 6>>, Q(4, 5)) >>])

(* F13 successive ligations: the second lookup ligates ligatures the first  *)
(* formed; characters accumulate, skipped and trailing marks get the        *)
(* component position of the LAST ligation                                   *)
FamLigSucc ==
  LET fs == <<FM, FS0, FA1, FA2S0>> IN
  [n \in 1 .. Len(fs) |->
     Entry("ligature-successive",
           [Prog(Par(n), << Lk(4, fs[n], << [fmt |-> 1, cov |-> Cov(Par(n), <<1>>), sets |-> << << [lig |-> 8, comps |-> <<2>>] >> >>] >>),
                            MaybeExt(n = 2, Lk(4, fs[n], << [fmt |-> 1, cov |-> Cov(1, <<2, 8>>),
                                                  sets |-> << << [lig |-> 12, comps |-> <<8>>] >>,
                                                              << [lig |-> 3, comps |-> <<8, 1>>], [lig |-> 14, comps |-> <<1>>] >> >>] >>)) >>)
              EXCEPT !.features = <<Feat("liga", <<1, 0>>)>>],
           <<1, 2, 4, 5>>, Q(5, 6))]

(* F14 two / three lookups of ONE feature where the first inserts or deletes *)
(* glyphs that the context of the next spans                                *)
FamPipeline ==
  LET Multi == Lk(2, F0, << [fmt |-> 1, cov |-> Cov(1, <<1, 2, 6>>), seqs |-> << <<1, 4>>, <<>>, <<2, 1>> >>] >>)
      ChainL(fl) == Lk(6, fl, << [fmt |-> 3, back |-> <<Cov(1, <<1>>)>>, input |-> <<Cov(1, <<1, 2>>), Cov(2, <<1>>)>>, look |-> <<>>,
                                  recs |-> << <<1, 3>>, <<0, 4>> >>] >>)
      LigL(fl) == Lk(4, fl, << [fmt |-> 1, cov |-> Cov(2, <<1, 7>>), sets |-> << << [lig |-> 8, comps |-> <<7>>] >>, << [lig |-> 14, comps |-> <<1>>] >> >>] >>)
      RevL(fl) == Lk(8, fl, << [fmt |-> 1, cov |-> Cov(1, <<1, 4>>), back |-> <<>>, look |-> <<Cov(1, <<1, 7, 8>>)>>, subst |-> <<7, 9>>] >>)
      Del == Lk(2, F0, << [fmt |-> 1, cov |-> Cov(1, <<4>>), seqs |-> << <<>> >>] >>)
      fs == <<F0, FM, FS1>> IN
  Flatten([n \in 1 .. Len(fs) |->
    << Entry("pipeline-multi-chain-ligature",
             [Prog(Par(n), << Multi, ChainL(fs[n]), LigL(fs[n]), Nest1(F0), Del >>) EXCEPT !.features = <<Feat("liga", <<2, 0, 1>>)>>],
             <<1, 2, 6>>, Q(4, 5)),
       Entry("pipeline-multi-reverse-ligature",
             [Prog(Par(n + 1), << Multi, RevL(fs[n]), LigL(fs[n]) >>) EXCEPT !.features = <<Feat("liga", <<0, 1, 2>>)>>],
             <<1, 2, 6>>, Q(4, 5)) >>])

(* F15 alternate substitution requested through several features that share *)
(* lookups: the alternate index of the last enabled feature listing the      *)
(* lookup applies; extension around type 3                                  *)
FamAlt2 ==
  LET ls == << Lk(3, F0, << [fmt |-> 1, cov |-> Cov(1, <<1, 2>>), alts |-> << <<7, 11, 12>>, <<8, 14>> >>] >>),
               Ext(Lk(3, FM, << [fmt |-> 1, cov |-> Cov(2, <<1, 4, 7, 11>>), alts |-> << <<2, 6>>, <<9>>, <<10, 15, 1>>, <<2>> >>] >>)) >>
      fts == << Feat("aalt", <<0, 1>>), Feat("salt", <<1>>), Feat("ss01", <<0>>) >>
      reqs == << <<Req("aalt", 1)>>, <<Req("aalt", 2), Req("salt", 0)>>, <<Req("salt", 1), Req("aalt", 0)>>,
                 <<Req("ss01", 2), Req("aalt", 1)>>, <<Req("aalt", 1), Req("ss01", 0), Req("salt", 2)>>, <<Req("salt", 0), Req("ss01", 1)>> >> IN
  [n \in 1 .. Len(reqs) |->
     Entry("alternate-shared-lookups",
           [gdef |-> Gdef(Par(n)), lookups |-> ls, features |-> fts, vars |-> <<>>, request |-> reqs[n], tuple |-> <<>>],
           <<1, 2, 4>>, 3)]

(* F16 FeatureVariations: four records; a point range, two conditions on    *)
(* different axes, a condition on an axis the tuple does not have, records  *)
(* that substitute the same feature, a substitute without lookups           *)
OrdVars2 == << [conds |-> << <<0, 4096, 4096>> >>, subst |-> << [fi |-> 0, lookups |-> <<1>>] >>],
               [conds |-> << <<1, 0, 16384>>, <<0, -16384, 4096>> >>, subst |-> << [fi |-> 0, lookups |-> <<3>>], [fi |-> 2, lookups |-> <<2>>] >>],
               [conds |-> << <<2, 0, 0>> >>, subst |-> << [fi |-> 1, lookups |-> <<0>>] >>],
               [conds |-> << <<0, 4097, 16384>> >>, subst |-> << [fi |-> 1, lookups |-> <<>>], [fi |-> 3, lookups |-> <<0, 1>>] >>] >>
FamOrder2 ==
  LET reqs == << <<Req("calt", 0), Req("liga", 0)>>, <<Req("rlig", 0), Req("ccmp", 0), Req("calt", 0)>> >>
      tuples == << <<4096, 0>>, <<4095, 0>>, <<4097, 0>>, <<4096, -1>>, <<16384, 16384>>, <<-16384, 16384>>, <<0, 0, 0>>, <<4097>> >>
      ps == Pairs(reqs, tuples) IN
  [n \in 1 .. Len(ps) |->
     Entry("ordering-variations",
           [gdef |-> Gdef(Par(n)), lookups |-> OrdLookups, features |-> OrdFeatures, vars |-> OrdVars2,
            request |-> ps[n][1], tuple |-> ps[n][2]],
           <<1, 2, 6>>, Q(3, 4))]

Programs ==
  FamSingle \o FamSingleMisc \o FamMulti \o FamMultiMisc \o FamAlt \o FamLig \o FamLigLong \o FamCtx \o FamChain
  \o FamInteractions \o FamRev \o FamRevMisc \o FamOrder
  \o FamCombo \o FamRev2 \o FamSubtables \o FamLigSucc \o FamPipeline \o FamAlt2 \o FamOrder2

---------------------------------------------------------------------------
P == Programs[pi]
Order == ProgOrder(P.prog)
CtxStd == Ctx(P.prog, DevStd)
CurL == CtxStd.lookups[Order[k + 1][1] + 1]
StartCursor(kk, r) ==                                  \* cursor at the start of lookup number kk + 1
  IF kk < Len(Order) /\ IsReverse(CtxStd.lookups[Order[kk + 1][1] + 1]) THEN Len(r) ELSE 1

Strs(alpha, n) == UNION {[1 .. m -> SeqToSet(alpha)] : m \in 0 .. n}

Init ==
  /\ pi \in 1 .. Len(Programs)
  /\ inp \in Strs(Programs[pi].alpha, Programs[pi].maxlen)
  /\ k = 0
  /\ run = InitRun(inp)
  /\ i = StartCursor(0, run)
  /\ hist = <<>>
  /\ tags = {}
  /\ deleted = {}

Finished == k = Len(Order)

\* termination measure: lexicographic (lookups left, glyphs at or after the cursor) folded into one number
MeasureOf(kk, rr, ii) ==
  (Len(Order) - kk) * 1000
  + (IF kk = Len(Order) THEN 0
     ELSE IF IsReverse(CtxStd.lookups[Order[kk + 1][1] + 1]) THEN ii + 1 ELSE Len(rr) + 2 - ii)
Measure == MeasureOf(k, run, i)

\* one loop iteration of the current lookup, or the end of its loop
Next ==
  /\ ~Finished
  /\ UNCHANGED <<pi, inp>>
  /\ IF IsReverse(CurL)
     THEN IF i >= 1
          THEN LET s == StepRev(CtxStd, CurL, run, i) IN
               /\ run' = s.run /\ i' = s.i /\ tags' = tags \cup s.tags
               /\ UNCHANGED <<k, hist, deleted>>
          ELSE /\ k' = k + 1 /\ hist' = Append(hist, run) /\ i' = StartCursor(k + 1, run)
               /\ UNCHANGED <<run, tags, deleted>>
     ELSE IF i <= Len(run)
          THEN LET s == StepFwd(CtxStd, CurL, run, i, Order[k + 1][2]) IN
               /\ run' = s.run /\ i' = s.i /\ tags' = tags \cup s.tags
               /\ deleted' = deleted \cup (CharsOf(run) \ CharsOf(s.run))
               /\ UNCHANGED <<k, hist>>
          ELSE /\ k' = k + 1 /\ hist' = Append(hist, run) /\ i' = StartCursor(k + 1, run)
               /\ UNCHANGED <<run, tags, deleted>>
  \* Terminates: every step strictly decreases the measure (checked on every transition; a temporal
  \* PROPERTY [][Measure' < Measure]_vars states the same but costs TLC minutes on this model)
  /\ Assert(MeasureOf(k', run', i') < Measure, <<"measure does not decrease", pi, inp, k, i>>)

Spec == Init /\ [][Next]_vars

---------------------------------------------------------------------------
(* Design invariants *)
CursorInRun ==
  Finished \/ (IF IsReverse(CurL) THEN i \in 0 .. Len(run) ELSE i \in 1 .. Len(run) + 1)

\* characters vanish only with a glyph deleted by an empty multiple substitution ...
CharsConserved ==
  /\ CharsOf(run) \cup deleted = 1 .. Len(inp)
  /\ CharsOrdered(run)
\* ... which only programs that contain an empty sequence can do
DeletionOnlyByEmptySequence == deleted # {} => "multi-empty" \in tags \/ "nested-multi-empty" \in tags

FlagsSane ==
  \A q \in 1 .. Len(run) :
     /\ run[q].l \in {0, 1} /\ run[q].d \in {0, 1} /\ run[q].g \in 0 .. NumGlyphs - 1
     /\ (run[q].l = 1 => Len(run[q].c) >= 2)              \* a ligature carries all its components' characters
     /\ Len(run[q].c) >= 1

ProgramsWellFormed == (inp = <<>> /\ k = 0) => WFProgram(P.prog, NumGlyphs)

SmallStepIsDenotation == Finished => hist = GsubSteps(P.prog, DevStd, inp)

---------------------------------------------------------------------------
(* Generator *)
UsesMfs(prog) == \E q \in 1 .. Len(prog.lookups) : UseMfs(prog.lookups[q].flag)

RECURSIVE SeqOfSet(_)
SeqOfSet(S) == IF S = {} THEN <<>> ELSE LET x == CHOOSE y \in S : TRUE IN <<x>> \o SeqOfSet(S \ {x})

EmitCase ==
  Finished =>
    LET std == ObsSteps(P.prog.gdef, hist)
        \* the other conformant readings (Dev_NestedSeqIdxFlag, Dev_MarkFilterPrecedence) that give another result
        alts == {ObsSteps(P.prog.gdef, GsubSteps(P.prog, d, inp)) : d \in DevChoicesFor(P.prog) \ {DevStd}} \ {std}
        bug == IF UsesMfs(P.prog) THEN ObsSteps(P.prog.gdef, GsubSteps(P.prog, DevMfsBug, inp)) ELSE std
    IN PrintT(<<"CASE", ToJson([p |-> pi, in |-> inp, order |-> Order, steps |-> std,
                                alts |-> SeqOfSet(alts),
                                bugs |-> IF bug = std \/ bug \in alts THEN <<>> ELSE <<[name |-> "mfs-hides-non-marks", steps |-> bug]>>,
                                tags |-> tags])>>)

EmitProg ==
  (inp = <<>> /\ k = 0) =>
    PrintT(<<"PROG", ToJson([p |-> pi, name |-> P.name, n |-> NumGlyphs, prog |-> P.prog])>>)
=============================================================================
