CONSTANTS
  MaxAdds = 3
SPECIFICATION Spec
VIEW View
INVARIANTS WriterWellFormed WriterReadable EmitCase
CHECK_DEADLOCK FALSE
