------------------------- MODULE GposLayoutCommon -------------------------
(***************************************************************************)
(* Shared vocabulary of the GPOS specifications (C05): Coverage, ClassDef, *)
(* GDEF glyph classes and lookup-flag filtering, transcribed from the      *)
(* OpenType "Common Table Formats" chapter.  Self-contained on purpose     *)
(* (the GSUB check has its own LayoutCommon).                              *)
(*                                                                         *)
(* Abstract shapes (they are also the JSON shapes exchanged with the       *)
(* harness; glyph ids and all indices stored INSIDE data are 0-based,      *)
(* positions in a run are 1-based inside TLA+):                            *)
(*   gdef = [tab : {"full", "noclassdef", "absent"},                       *)
(*           cls : Seq(0..4), att : Seq(Nat), sets : Seq(Seq(gid))]        *)
(*          cls[g+1] = GDEF glyph class of g, att[g+1] = mark attach class *)
(*          tab = "full"       : GDEF table with a GlyphClassDef           *)
(*                "noclassdef" : GDEF table whose glyphClassDefOffset is   *)
(*                               NULL (att and sets are still encoded)     *)
(*                "absent"     : the font has no GDEF table (GDEF is       *)
(*                               optional)                                 *)
(*          Without a GlyphClassDef every glyph has class 0: no glyph is a *)
(*          mark, so no lookup flag can skip anything.  A glyph that a     *)
(*          GlyphClassDef does not list has class 0 as well.               *)
(*   cov  = [f : {1,2}, g : Seq(gid)]     coverage index = position - 1    *)
(*   cd   = [f : {1,2}, m : Seq(Nat)]     m[g+1] = class of glyph g        *)
(*   F    = [flag : 0..65535, mfs : Int]  lookup flag, mark filtering set  *)
(*          (mfs = -1 : the lookup has no MarkFilteringSet field)          *)
(***************************************************************************)
EXTENDS Integers, Sequences, FiniteSets, FiniteSetsExt

Bit(n, k) == (n \div (2 ^ k)) % 2 = 1

\* ---- lookup flag bits -----------------------------------------------------
FlagRTL(flag)        == Bit(flag, 0)
FlagIgnoreBase(flag) == Bit(flag, 1)
FlagIgnoreLig(flag)  == Bit(flag, 2)
FlagIgnoreMarks(flag)== Bit(flag, 3)
FlagUseSet(flag)     == Bit(flag, 4)
FlagAttachType(flag) == flag \div 256

\* ---- GDEF -----------------------------------------------------------------
HasClassDef(gdef) == gdef.tab = "full"
HasGdef(gdef)     == gdef.tab # "absent"
GClass(gdef, g)  == IF HasClassDef(gdef) /\ g + 1 <= Len(gdef.cls) THEN gdef.cls[g + 1] ELSE 0
GAttach(gdef, g) == IF HasGdef(gdef) /\ g + 1 <= Len(gdef.att) THEN gdef.att[g + 1] ELSE 0
InMarkSet(gdef, s, g) ==
  /\ HasGdef(gdef)
  /\ s >= 0 /\ s < Len(gdef.sets)
  /\ \E k \in 1 .. Len(gdef.sets[s + 1]) : gdef.sets[s + 1][k] = g
IsMarkGlyph(gdef, g) == GClass(gdef, g) = 3

\* A lookup with flag F "sees" glyph g (OpenType chapter 2, lookupFlag):
\*   ignoreBaseGlyphs / ignoreLigatures / ignoreMarks skip whole GDEF classes;
\*   markAttachmentType skips every MARK whose attachment class differs;
\*   useMarkFilteringSet skips every MARK that is not in the set.
\* Non-mark glyphs are never skipped by the two mark filters.
\* (IgnoreMarks supersedes both filters.  Programs setting both an attachment type and a
\*  filtering set are not generated: OpenType lets the set win, allsorts the attachment type.)
Sees(F, gdef, g) ==
  LET c == GClass(gdef, g) IN
  /\ ~(FlagIgnoreBase(F.flag) /\ c = 1)
  /\ ~(FlagIgnoreLig(F.flag) /\ c = 2)
  /\ IF c # 3 THEN TRUE
     ELSE IF FlagIgnoreMarks(F.flag) THEN FALSE
     ELSE IF FlagAttachType(F.flag) # 0 THEN GAttach(gdef, g) = FlagAttachType(F.flag)
     ELSE IF FlagUseSet(F.flag) /\ F.mfs >= 0 THEN InMarkSet(gdef, F.mfs, g)
     ELSE TRUE

FlagNone        == [flag |-> 0, mfs |-> -1]
FlagIgnoreMarksOnly == [flag |-> 8, mfs |-> -1]

\* ---- navigation in a run s (sequence of records with field g), 0 = "none" ----
NextSeen(F, gdef, s, i) ==
  LET js == {j \in (i + 1) .. Len(s) : Sees(F, gdef, s[j].g)} IN
  IF js = {} THEN 0 ELSE Min(js)

PrevSeen(F, gdef, s, i) ==
  LET js == {j \in 1 .. (i - 1) : Sees(F, gdef, s[j].g)} IN
  IF js = {} THEN 0 ELSE Max(js)

FirstSeen(F, gdef, s) == NextSeen(F, gdef, s, 0)

\* the n-th seen glyph after position i (n = 0 : i itself, whether seen or not)
RECURSIVE NthSeen(_, _, _, _, _)
NthSeen(F, gdef, s, i, n) ==
  IF n = 0 THEN i
  ELSE LET j == NextSeen(F, gdef, s, i) IN
       IF j = 0 THEN 0 ELSE NthSeen(F, gdef, s, j, n - 1)

\* ---- Coverage / ClassDef ---------------------------------------------------
\* coverage index (0-based) of glyph g, or -1
CovIdx(cov, g) ==
  LET ks == {k \in 1 .. Len(cov.g) : cov.g[k] = g} IN
  IF ks = {} THEN -1 ELSE Min(ks) - 1

Covered(cov, g) == CovIdx(cov, g) >= 0

ClassOf(cd, g) == IF g + 1 <= Len(cd.m) THEN cd.m[g + 1] ELSE 0

\* well-formedness of the encodable shapes
CovWF(cov) == /\ cov.f \in {1, 2}
              /\ \A k \in 1 .. (Len(cov.g) - 1) : cov.g[k] < cov.g[k + 1]
=============================================================================
