CONSTANTS
  CycleLen = 3
  ChainOver = 1
SPECIFICATION Spec
INVARIANTS Bounded Outcome Emit
CHECK_DEADLOCK FALSE
