CONSTANTS
  CycleLen = 3
  ChainOver = 1
  SizeExpLo = 7
  SizeExpHi = 8
SPECIFICATION Spec
INVARIANTS Bounded Outcome CntOK Emit
CHECK_DEADLOCK FALSE
