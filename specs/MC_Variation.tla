----------------------------- MODULE MC_Variation -----------------------------
(***************************************************************************)
(* Bounded check of Variation and generator of replay cases for C12.       *)
(*                                                                         *)
(* kind = "lemma-*": design lemmas on small universes, no output:          *)
(*   scalar   for every valid (start, peak, end) and coordinate on a small *)
(*            grid: 0 <= S <= 1, S = 1 at the peak, S = 0 outside and at   *)
(*            the open edges, monotone towards the peak, every step of one *)
(*            grid unit changes S by exactly 1/(peak-start) resp.          *)
(*            1/(end-peak) (linear, hence continuous at the edges); the    *)
(*            scalar of a region is the product over the axes; the implied *)
(*            region of a peak is valid.                                   *)
(*   iup      InferAxis is symmetric in its two neighbours and reduces to  *)
(*            copy (neighbours coincide, equal deltas), zero (coincide,    *)
(*            different deltas), nearest (target outside) and the linear   *)
(*            interpolation (target between); a contour with one           *)
(*            referenced point is shifted, one with none is untouched.     *)
(*   codec    Decode(Encode(x)) = x for packed point numbers and packed    *)
(*            deltas, every run style, and the decoder consumes exactly    *)
(*            the encoded bytes.                                           *)
(* kind = "font": an abstract variable font (1-2 axes, one simple glyph,   *)
(*   one composite glyph using it, two empty glyphs, tuple variations with *)
(*   abstract point lists and deltas, HVAR / MVAR variants).  TLC encodes  *)
(*   the tuple data with the encoders below, checks                        *)
(*     - the decoder returns the abstract deltas,                          *)
(*     - Instance(default coordinates) = default master exactly,           *)
(*     - at the peak of a lone region an explicit point moves by exactly   *)
(*       its delta,                                                        *)
(*   chooses the user coordinates (every start / peak / end of the font's  *)
(*   regions, the midpoints, the axis ends and values outside the axis     *)
(*   range), evaluates the model there and prints one CASE with all the    *)
(*   harness needs to write the font, plus the acceptable interval of      *)
(*   every output number.                                                  *)
(***************************************************************************)
EXTENDS Variation, Json, SequencesExt

CONSTANTS Tier         \* "quick" | "thorough"

VARIABLES c, done
vars == <<c, done>>

U == 16384
Hf == 8192
Qt == 4096

Thorough == Tier = "thorough"

\* ---- encoders --------------------------------------------------------------------------------
U8(v) == (v + 256) % 256
U16Bytes(v) == LET w == (v + 65536) % 65536 IN <<w \div 256, w % 256>>

\* one run of point-number differences
RECURSIVE PtRunBytes(_, _, _, _)
PtRunBytes(diffs, from, to, words) ==
  IF from > to THEN <<>>
  ELSE (IF words THEN U16Bytes(diffs[from]) ELSE <<diffs[from]>>) \o PtRunBytes(diffs, from + 1, to, words)

\* runs of at most `lim` numbers from position k; the first `headLen` numbers (if > 0) form a run of
\* their own with the other width
RECURSIVE PtRunsEnc(_, _, _, _, _)
PtRunsEnc(diffs, k, words, lim, headLen) ==
  IF k > Len(diffs) THEN <<>>
  ELSE LET isHead == k = 1 /\ headLen > 0
           w == IF isHead THEN ~words ELSE words
           n == IF isHead THEN headLen
                ELSE IF Len(diffs) - k + 1 > lim THEN lim ELSE Len(diffs) - k + 1
       IN <<(n - 1) + (IF w THEN 128 ELSE 0)>> \o PtRunBytes(diffs, k, k + n - 1, w)
          \o PtRunsEnc(diffs, k + n, words, lim, headLen)

PtStyles == {"b", "w", "s", "c2", "r2"}
\* "b" bytes, "w" words, "s" a first run of one byte number then words, "c2" two-byte count,
\* "r2" runs of two numbers
EncPoints(all, pts, style) ==
  IF all THEN <<0>>
  ELSE LET n == Len(pts)
           diffs == [k \in 1 .. n |-> IF k = 1 THEN pts[1] ELSE pts[k] - pts[k - 1]]
           wide == \E k \in 1 .. n : diffs[k] > 255
           count == IF style = "c2" \/ n >= 128 THEN <<128 + (n \div 256), n % 256>> ELSE <<n>>
       IN count \o
          (CASE style = "w" -> PtRunsEnc(diffs, 1, TRUE, 128, 0)
             [] style = "s" /\ n >= 2 /\ diffs[1] <= 255 -> PtRunsEnc(diffs, 1, TRUE, 128, 1)
             [] style = "r2" -> PtRunsEnc(diffs, 1, wide, 2, 0)
             [] OTHER -> PtRunsEnc(diffs, 1, wide, 128, 0))

DStyles == {"min", "w", "one", "nz", "w2"}
\* kind of the run a delta goes to: 0 zero run, 1 bytes, 2 words
DKind(v, style) ==
  IF style \in {"w", "w2"} THEN 2
  ELSE IF v = 0 /\ style # "nz" THEN 0
  ELSE IF v >= -128 /\ v <= 127 THEN 1 ELSE 2
DMax(style) == IF style = "one" THEN 1 ELSE IF style = "w2" THEN 2 ELSE 64

RECURSIVE DRunEnd(_, _, _, _, _)
DRunEnd(ds, k, j, kind, style) ==
  IF j + 1 <= Len(ds) /\ DKind(ds[j + 1], style) = kind /\ j + 1 - k + 1 <= DMax(style)
  THEN DRunEnd(ds, k, j + 1, kind, style) ELSE j

RECURSIVE DRunBytes(_, _, _, _)
DRunBytes(ds, from, to, kind) ==
  IF from > to \/ kind = 0 THEN <<>>
  ELSE (IF kind = 1 THEN <<U8(ds[from])>> ELSE U16Bytes(ds[from])) \o DRunBytes(ds, from + 1, to, kind)

RECURSIVE EncDeltasFrom(_, _, _)
EncDeltasFrom(ds, k, style) ==
  IF k > Len(ds) THEN <<>>
  ELSE LET kind == DKind(ds[k], style)
           j == DRunEnd(ds, k, k, kind, style)
       IN <<(j - k) + (IF kind = 0 THEN 128 ELSE IF kind = 2 THEN 64 ELSE 0)>>
          \o DRunBytes(ds, k, j, kind) \o EncDeltasFrom(ds, j + 1, style)
EncDeltas(ds, style) == EncDeltasFrom(ds, 1, style)

\* ---- abstract tuple variations ------------------------------------------------------------------
\* t = [peak, inter, start, end, embedded, private, all, pts, dx, dy, penc, denc]
\* (pts / all are ignored when the tuple uses the shared point numbers)
TupleBytes(t) ==
  (IF t.private THEN EncPoints(t.all, t.pts, t.penc) ELSE <<>>) \o EncDeltas(t.dx \o t.dy, t.denc)

\* gv = [shared |-> [present, all, pts, penc], tuples |-> sequence of t]
SharedBytes(gv) == IF gv.shared.present THEN EncPoints(gv.shared.all, gv.shared.pts, gv.shared.penc) ELSE <<>>

RECURSIVE ConcatData(_, _)
ConcatData(ts, k) == IF k > Len(ts) THEN <<>> ELSE TupleBytes(ts[k]) \o ConcatData(ts, k + 1)

\* the glyph variation data as the harness' reader will hand it to the judge
HeaderOf(t) == [peak |-> t.peak, inter |-> t.inter,
                start |-> IF t.inter THEN t.start ELSE <<>>, end |-> IF t.inter THEN t.end ELSE <<>>,
                private |-> t.private, size |-> Len(TupleBytes(t))]
GlyphRec(kind, pts, ends, gv) ==
  [pts |-> pts, ends |-> ends, kind |-> kind,
   ser |-> SharedBytes(gv) \o ConcatData(gv.tuples, 1), hasShared |-> gv.shared.present,
   tuples |-> [k \in 1 .. Len(gv.tuples) |-> HeaderOf(gv.tuples[k])]]

\* the point list a tuple refers to
PointsOf(gv, t, np) ==
  LET all == IF t.private THEN t.all ELSE gv.shared.all
      pts == IF t.private THEN t.pts ELSE gv.shared.pts
  IN IF all THEN [k \in 1 .. np |-> k - 1] ELSE pts

\* abstract deltas: functions over 0 .. np-1
AbstractTD(gv, t, np) ==
  LET P == PointsOf(gv, t, np)
      At(i) == LET ks == {k \in 1 .. Len(P) : P[k] = i} IN IF ks = {} THEN 0 ELSE Max(ks)
  IN [has |-> [i \in 0 .. np - 1 |-> At(i) # 0],
      dx  |-> [i \in 0 .. np - 1 |-> IF At(i) = 0 THEN 0 ELSE t.dx[At(i)]],
      dy  |-> [i \in 0 .. np - 1 |-> IF At(i) = 0 THEN 0 ELSE t.dy[At(i)]]]

NoVar == [shared |-> [present |-> FALSE, all |-> FALSE, pts |-> <<>>, penc |-> "b"], tuples |-> <<>>]

\* ---- the universe -----------------------------------------------------------------------------------
\* glyph shapes: points <<x, y, on>>, ends
Shapes ==
  [A |-> [pts |-> <<<<0, 0, TRUE>>, <<100, 0, TRUE>>, <<100, 80, FALSE>>, <<0, 80, TRUE>>>>, ends |-> <<3>>],
   \* two contours; the first has coincident x and y values among its points
   B |-> [pts |-> <<<<10, 10, TRUE>>, <<60, 10, TRUE>>, <<60, 60, TRUE>>,
                    <<20, 100, TRUE>>, <<70, 100, FALSE>>, <<45, 150, TRUE>>>>, ends |-> <<2, 5>>],
   \* point 3 lies outside the range of its neighbours in x, point 4 between them
   C |-> [pts |-> <<<<0, 0, TRUE>>, <<50, -20, TRUE>>, <<100, 0, TRUE>>, <<120, 60, FALSE>>, <<50, 30, TRUE>>>>,
          ends |-> <<4>>],
   \* coincident points and a negative side
   D |-> [pts |-> <<<<-30, 0, TRUE>>, <<-30, 0, TRUE>>, <<40, 0, TRUE>>, <<40, 90, TRUE>>, <<5, 45, FALSE>>,
                    <<-30, 90, TRUE>>>>, ends |-> <<5>>]]

\* large glyphs: runs longer than 64 deltas / 128 point numbers, two-byte counts
Poly(n1, n2, step) ==
  [pts |-> [k \in 1 .. n1 + n2 |->
              IF k <= n1 THEN <<step * (k - 1), (37 * k) % 101, k % 3 # 1>>
              ELSE <<5 + step * (k - n1 - 1), 200 + ((53 * k) % 89), k % 4 # 2>>],
   ends |-> <<n1 - 1, n1 + n2 - 1>>]
BigShapes == [E |-> Poly(20, 20, 10), F |-> Poly(70, 70, 3)]
ShapeOf(name) == IF name \in {"E", "F"} THEN BigShapes[name] ELSE Shapes[name]

XY(shape) == [k \in 1 .. Len(shape.pts) |-> <<shape.pts[k][1], shape.pts[k][2]>>]
XMin(shape) == Min({shape.pts[k][1] : k \in 1 .. Len(shape.pts)})

\* deltas by point index (0-based index + 1); long enough for 6 points + 4 phantom points
DxA == <<10, -20, 30, 7, -45, 60, 3, -8, 25, -14>>
DyA == <<-5, 40, 15, -33, 20, 0, 9, 70, -2, 11>>
\* word-sized values, zeros, the int8 boundaries
DxB == <<200, 0, -129, 127, 0, 0, -300, 128, -128, 1>>
DyB == <<0, 0, 0, 255, -1, 0, 513, 0, 0, -256>>
DeltaTables == [A |-> [dx |-> DxA, dy |-> DyA], B |-> [dx |-> DxB, dy |-> DyB]]
\* delta of point i (0-based) in table tb; beyond the tables a formula (every 7th value word-sized)
DX(tb, i) == IF tb \in {"A", "B"} /\ i < 10 THEN DeltaTables[tb].dx[i + 1]
             ELSE (IF i % 7 = 3 THEN 20 ELSE 1) * (((i * 29) % 61) - 30)
DY(tb, i) == IF tb \in {"A", "B"} /\ i < 10 THEN DeltaTables[tb].dy[i + 1]
             ELSE IF i % 5 = 0 THEN 0 ELSE ((i * 17) % 47) - 23

\* a tuple over the points S (a set of point indices, or "all") with deltas from table tb
Sorted(S) == SetToSortSeq(S, <)
MkTuple(region, embedded, private, all, S, tb, np, penc, denc) ==
  LET pts == IF all THEN [k \in 1 .. np |-> k - 1] ELSE Sorted(S)
  IN [peak |-> [k \in 1 .. Len(region) |-> region[k][2]],
      inter |-> region # RegionOfPeak([k \in 1 .. Len(region) |-> region[k][2]]),
      start |-> [k \in 1 .. Len(region) |-> region[k][1]],
      end |-> [k \in 1 .. Len(region) |-> region[k][3]],
      embedded |-> embedded, private |-> private, all |-> all, pts |-> IF all THEN <<>> ELSE pts,
      dx |-> [k \in 1 .. Len(pts) |-> DX(tb, pts[k])],
      dy |-> [k \in 1 .. Len(pts) |-> DY(tb, pts[k])],
      penc |-> penc, denc |-> denc]

\* regions of one axis
P1  == <<<<0, U, U>>>>                 \* peak +1
M1  == <<<<-U, -U, 0>>>>               \* peak -1
PH  == <<<<0, Hf, Hf>>>>               \* peak 0.5, implied region: nothing above the peak
I1  == <<<<0, Hf, U>>>>                \* intermediate 0 .. 0.5 .. 1
I2  == <<<<Hf, U, U>>>>                \* intermediate 0.5 .. 1 .. 1
I3  == <<<<Qt, Hf, 3 * Qt>>>>          \* intermediate 0.25 .. 0.5 .. 0.75
I4  == <<<<-U, -Hf, 0>>>>              \* intermediate on the negative side
I5  == <<<<-U, -U, -Hf>>>>
I6  == <<<<5461, 10923, U>>>>          \* thirds: scalars with denominators that are not powers of two
Regions1 == {P1, M1, PH, I1, I2, I3, I4, I5, I6}

\* regions of two axes
R2(a, b) == <<a[1], b[1]>>
Z0 == <<<<0, 0, 0>>>>                  \* the axis does not take part
Regions2 == {R2(P1, Z0), R2(Z0, P1), R2(P1, P1), R2(M1, P1), R2(I1, Z0), R2(I2, P1), R2(I3, I1), R2(Z0, M1),
             R2(I6, I3), R2(I4, I2)}

SubsetsUpTo(S, n) == {T \in SUBSET S : T # {} /\ Cardinality(T) <= n}

\* ---- HVAR / MVAR variants -------------------------------------------------------------------------
\* rows hold one delta per region; rows of "direct" are indexed by glyph id
NoHvar == [kind |-> "none", regions |-> <<>>, rows |-> <<>>, advMap |-> <<>>, lsbMap |-> <<>>]
HvarOf(kind, regions) ==
  LET nr == Len(regions)
      Row(base) == [k \in 1 .. nr |-> base + 17 * (k - 1) * (IF k % 2 = 0 THEN -1 ELSE 1)]
  IN CASE kind = "none" -> NoHvar
       [] kind = "direct" -> [kind |-> kind, regions |-> regions,
                              rows |-> <<Row(0), Row(40), Row(-25), Row(130)>>, advMap |-> <<>>, lsbMap |-> <<>>]
       \* the map is shorter than the glyph count: glyphs 2 and 3 use its last entry
       [] kind = "advmap" -> [kind |-> kind, regions |-> regions,
                              rows |-> <<Row(55), Row(0), Row(-200)>>, advMap |-> <<1, 0, 2>>, lsbMap |-> <<>>]
       [] kind = "bothmap" -> [kind |-> kind, regions |-> regions,
                               rows |-> <<Row(0), Row(64), Row(-9), Row(31)>>,
                               advMap |-> <<0, 1, 1, 0>>, lsbMap |-> <<0, 2, 3>>]

MapRec(m) == IF m = <<>> THEN [present |-> FALSE, fmt |-> 0, count |-> 0, data |-> <<>>]
             ELSE [present |-> TRUE, fmt |-> 3, count |-> Len(m), data |-> m]
HvarRec(h) ==
  IF h.kind = "none"
  THEN [present |-> FALSE, ivs |-> [regions |-> <<>>, subs |-> <<>>], adv |-> MapRec(<<>>), lsb |-> MapRec(<<>>)]
  ELSE [present |-> TRUE,
        ivs |-> [regions |-> h.regions,
                 subs |-> <<[ri |-> [k \in 1 .. Len(h.regions) |-> k - 1], rows |-> h.rows]>>],
        adv |-> MapRec(h.advMap), lsb |-> MapRec(h.lsbMap)]

NoMvar == [present |-> FALSE, regions |-> <<>>, rows |-> <<>>, tags |-> <<>>]
\* hcld (usWinDescent, unsigned, 200 in the generated fonts) is driven below zero
MvarTags == <<"xhgt", "hcld", "undo", "hasc", "strs", "hdsc", "hlgp", "hcla", "cpht", "stro", "unds", "hcrs">>
MvarOf(regions) ==
  LET nr == Len(regions)
      Row(j) == CASE j = 1 -> [k \in 1 .. nr |-> 33 * k]
                  [] j = 2 -> [k \in 1 .. nr |-> -301 - k]
                  [] j = 3 -> [k \in 1 .. nr |-> IF k = 1 THEN 7 ELSE 0]
                  [] j = 4 -> [k \in 1 .. nr |-> -15 * k]
                  [] j = 5 -> [k \in 1 .. nr |-> 129]
                  [] OTHER -> [k \in 1 .. nr |-> (IF (j + k) % 2 = 0 THEN 1 ELSE -1) * (11 * j + 3 * k)]
  IN [present |-> TRUE, regions |-> regions,
      rows |-> [j \in 1 .. Len(MvarTags) |-> Row(j)], tags |-> MvarTags]

\* ---- cases ----------------------------------------------------------------------------------------------
\* comps: offsets of the components of glyph 2 (all of them glyph 1); nhm: numberOfHMetrics (with 2,
\* glyphs 2 and 3 take the advance of glyph 1); cvar: the font also carries cvt / cvar; xf: the single
\* component is scaled by 0.5
MkCase(fam, naxes, shape, comps, metrics, long, g1, g2, g3, hvar, mvar) ==
  [kind |-> "font", fam |-> fam, naxes |-> naxes, shape |-> shape, comps |-> comps, metrics |-> metrics,
   long |-> long, g1 |-> g1, g2 |-> g2, g3 |-> g3, hvar |-> hvar, mvar |-> mvar,
   nhm |-> 4, cvar |-> FALSE, xf |-> FALSE]
Two(cx) == <<cx, <<cx[1] + 200, cx[2] - 50>>>>

NPof(shape) == Len(ShapeOf(shape).pts) + 4
StdMetrics(shape) == <<600, XMin(ShapeOf(shape)), 640, XMin(ShapeOf(shape)) + 20>>   \* lsb = xMin: pp1 = 0
OddMetrics(shape) == <<600, XMin(ShapeOf(shape)) - 7, 640, 33>>                      \* pp1 # 0

Private(ts) == [shared |-> [present |-> FALSE, all |-> FALSE, pts |-> <<>>, penc |-> "b"], tuples |-> ts]

\* composite glyph with nc components: points 0 .. nc-1 are the component offsets, then the phantom points
CompVar(region, tb, nc) == Private(<<MkTuple(region, TRUE, TRUE, TRUE, {}, tb, nc + 4, "b", "min")>>)
CompVarPts(region, S, tb, nc) == Private(<<MkTuple(region, TRUE, TRUE, FALSE, S, tb, nc + 4, "b", "min")>>)

\* IUP: one region, every non-empty set of referenced outline points, with and without the phantom points
IupShapes == IF Thorough THEN {"A", "B", "C", "D"} ELSE {"B", "C"}
IupCases ==
  UNION {
    LET n == Len(Shapes[sh].pts) IN
    {MkCase("iup", 1, sh, <<<<30, -10>>>>, StdMetrics(sh), FALSE,
            Private(<<MkTuple(P1, TRUE, TRUE, FALSE, S \cup ph, tb, n + 4, "b", "min")>>),
            NoVar, NoVar, NoHvar, NoMvar) :
       S \in SUBSET (0 .. n - 1), ph \in {{}, {n, n + 1}, {n + 3}}, tb \in (IF Thorough THEN {"A", "B"} ELSE {"A"})}
    : sh \in IupShapes}
IupOK(cs) == cs.g1.tuples[1].pts # <<>>

\* regions: sets of up to three tuples over regions of one axis, two point lists
RegionCases1 ==
  {MkCase("region1", 1, "A", Two(<<-15, 40>>), OddMetrics("A"), FALSE,
          Private([k \in 1 .. Cardinality(RS) |->
                     MkTuple(SetToSeq(RS)[k], k % 2 = 1, TRUE, k = 1, {1, 2, 4 + k}, IF k = 2 THEN "B" ELSE "A", 8, "b", "min")]),
          CompVar(SetToSeq(RS)[1], "A", 2), NoVar, hv, NoMvar) :
     RS \in SubsetsUpTo(Regions1, IF Thorough THEN 3 ELSE 2),
     hv \in {NoHvar}}

RegionCases2 ==
  {MkCase("region2", 2, "C", Two(<<25, 5>>), StdMetrics("C"), TRUE,
          Private([k \in 1 .. Cardinality(RS) |->
                     MkTuple(SetToSeq(RS)[k], k % 2 = 0, TRUE, k = 2, {0, 3, 5, 6}, IF k = 3 THEN "B" ELSE "A", 9, "b", "min")]),
          CompVarPts(SetToSeq(RS)[1], {1, 2, 3}, "B", 2), NoVar, NoHvar, NoMvar) :
     RS \in SubsetsUpTo(Regions2, IF Thorough THEN 3 ELSE 2)}

\* encodings: every point-number style x every delta style, private / shared / mixed point numbers,
\* embedded / shared peaks, short / long gvar offsets
EncCases ==
  {MkCase("enc", 1, "B", <<<<0, 0>>>>, StdMetrics("B"), long,
          [shared |-> [present |-> shared # "private", all |-> shared = "all", pts |-> <<0, 2, 4, 7>>, penc |-> penc],
           tuples |-> <<MkTuple(P1, emb, shared = "private", FALSE, {1, 2, 3, 5, 8}, tb, 10, penc, denc),
                        MkTuple(I1, ~emb, shared \in {"private", "mixed"}, shared = "mixed", {0, 5, 6}, "B", 10, penc, denc),
                        MkTuple(M1, emb, shared = "private", FALSE, {0, 9}, tb, 10, penc, denc)>>],
          CompVarPts(P1, {0, 2}, tb, 1), Private(<<MkTuple(P1, TRUE, TRUE, FALSE, {0, 1}, "A", 4, penc, denc)>>),
          NoHvar, NoMvar) :
     penc \in PtStyles, denc \in DStyles, shared \in {"private", "list", "all", "mixed"},
     emb \in BOOLEAN, long \in (IF Thorough THEN BOOLEAN ELSE {FALSE}), tb \in (IF Thorough THEN {"A", "B"} ELSE {"B"})}

\* a tuple that refers to the shared numbers needs them; its deltas follow the shared list
FixShared(cs) ==
  LET gv == cs.g1
      np == NPof(cs.shape)
      Fix1(t) == IF t.private THEN t
                 ELSE LET P == PointsOf(gv, t, np)
                      IN [t EXCEPT !.all = FALSE, !.pts = <<>>,
                                   !.dx = [k \in 1 .. Len(P) |-> DX("A", P[k])],
                                   !.dy = [k \in 1 .. Len(P) |-> DY("A", P[k])]]
  IN [cs EXCEPT !.g1.tuples = [k \in 1 .. Len(gv.tuples) |-> Fix1(gv.tuples[k])]]

\* metrics: HVAR absent / direct / with maps, MVAR, phantom point deltas, component offsets
MetricTuples(na, all, tb) ==
  Private(<<MkTuple(IF na = 1 THEN P1 ELSE R2(P1, Z0), TRUE, TRUE, all, {0, 2, 6, 7}, tb, 10, "b", "min"),
            MkTuple(IF na = 1 THEN I4 ELSE R2(I1, P1), TRUE, TRUE, FALSE, {3, 6, 7, 8}, "A", 10, "b", "min")>>)
MetricCases ==
  {[MkCase("metric", na, "D", IF comp = <<0, 0>> THEN <<comp>> ELSE Two(comp), met, FALSE,
           MetricTuples(na, all, tb),
           CompVar(IF na = 1 THEN P1 ELSE R2(P1, Z0), tb, IF comp = <<0, 0>> THEN 1 ELSE 2),
           Private(<<MkTuple(IF na = 1 THEN P1 ELSE R2(Z0, P1), TRUE, TRUE, TRUE, {}, "A", 4, "b", "min")>>),
           HvarOf(hk, IF na = 1 THEN <<P1, I4, I1>> ELSE <<R2(P1, Z0), R2(I1, P1), R2(Z0, M1)>>),
           IF mv THEN MvarOf(IF na = 1 THEN <<P1, M1>> ELSE <<R2(P1, P1), R2(Z0, M1)>>) ELSE NoMvar)
      EXCEPT !.nhm = IF all THEN 2 ELSE 4, !.cvar = mv, !.xf = (comp = <<0, 0>>)] :
     na \in {1, 2}, comp \in (IF Thorough THEN {<<0, 0>>, <<-120, 300>>} ELSE {<<-120, 300>>}),
     met \in {StdMetrics("D"), OddMetrics("D")},
     all \in BOOLEAN, tb \in (IF Thorough THEN {"A", "B"} ELSE {"A"}), hk \in {"none", "direct", "advmap", "bothmap"},
     mv \in BOOLEAN}
  \* one scaled component also in the quick tier
  \cup {[MkCase("metric", 1, "D", <<<<0, 0>>>>, StdMetrics("D"), FALSE, MetricTuples(1, FALSE, "A"),
                 CompVar(P1, "A", 1), NoVar, NoHvar, NoMvar) EXCEPT !.xf = TRUE]}

\* phantom points near the ends of the int16 range (advance 32767 is a legal uint16 advance):
\* pp2 = pp1 + advance, the varied phantom points and their difference leave the int16 range
ExtremeCases ==
  {MkCase("extreme", 1, "D", <<<<-120, 300>>>>, met, FALSE, MetricTuples(1, FALSE, "B"),
          CompVar(P1, "A", 1), NoVar, NoHvar, NoMvar) :
     met \in {<<32767, XMin(ShapeOf("D")) - 10, 640, 33>>,       \* pp1 = 10, pp2 = 32777
              <<600, 32767, 640, 33>>,                            \* pp1 = xMin - 32767
              <<32700, XMin(ShapeOf("D")) - 10, 640, 33>>,       \* varied: pp2 - pp1 > 32767
              <<32200, XMin(ShapeOf("D")) - 500, 640, 33>>}}     \* varied: pp2 > 32767 at the peak

\* long runs: more than 64 deltas per run, more than 128 point numbers (two-byte count), sparse lists
BigCases ==
  {MkCase("big", 1, "E", <<<<7, 7>>>>, OddMetrics("E"), TRUE,
          Private(<<MkTuple(P1, TRUE, TRUE, TRUE, {}, "F", 44, "b", denc),
                    MkTuple(I1, TRUE, TRUE, FALSE, {i \in 0 .. 43 : i % 2 = 0}, "F", 44, penc, "w")>>),
          CompVar(P1, "A", 1), NoVar, NoHvar, NoMvar) : denc \in {"min", "nz"}, penc \in {"b", "r2"}}
  \cup
  {MkCase("big", 1, "F", <<<<7, 7>>>>, StdMetrics("F"), TRUE,
          Private(<<MkTuple(P1, TRUE, TRUE, FALSE, 0 .. 143, "F", 144, penc, "nz"),
                    MkTuple(M1, TRUE, TRUE, TRUE, {}, "F", 144, "b", "w")>>),
          CompVar(P1, "A", 1), NoVar, NoHvar, NoMvar) : penc \in {"b", "w"}}
  \cup
  {MkCase("big", 1, "F", <<<<7, 7>>>>, StdMetrics("F"), FALSE,
          [shared |-> [present |-> TRUE, all |-> FALSE, pts |-> Sorted({i \in 0 .. 143 : i % 13 # 5}), penc |-> penc],
           tuples |-> <<MkTuple(P1, FALSE, FALSE, FALSE, {i \in 0 .. 143 : i % 13 # 5}, "F", 144, penc, "min"),
                        MkTuple(I2, FALSE, FALSE, FALSE, {i \in 0 .. 143 : i % 13 # 5}, "F", 144, penc, "one")>>],
          CompVar(P1, "A", 1), NoVar, NoHvar, NoMvar) : penc \in {"b", "s"}}

FontCases == BigCases \cup ExtremeCases \cup {cs \in IupCases : IupOK(cs)} \cup RegionCases1 \cup RegionCases2
             \cup {FixShared(cs) : cs \in EncCases} \cup MetricCases

\* ---- lemma universes ------------------------------------------------------------------------------------
G == -4 .. 4
ScalarLemmaCases == {[kind |-> "lemma-scalar", s |-> s, p |-> p, e |-> e] :
                        s \in G, p \in G, e \in G}
IupLemmaCases == {[kind |-> "lemma-iup", pc |-> pc, nc |-> nc] : pc \in -2 .. 2, nc \in -2 .. 2}
CodecAlphabet == {-300, -129, -128, -1, 0, 1, 127, 128}
CodecLemmaCases ==
  {[kind |-> "lemma-codec-d", ds |-> ds] : ds \in UNION {[1 .. n -> CodecAlphabet] : n \in 1 .. (IF Thorough THEN 4 ELSE 3)}}
  \cup {[kind |-> "lemma-codec-p", S |-> S] : S \in (SUBSET {0, 1, 2, 5, 255, 256, 300, 700}) \ {{}}}
  \cup {[kind |-> "lemma-codec-big", n |-> n] : n \in {64, 65, 127, 128, 129, 200}}

Cases == FontCases \cup ScalarLemmaCases \cup IupLemmaCases \cup CodecLemmaCases

---------------------------------------------------------------------------
Init == /\ c \in Cases
        /\ done = FALSE
Next == /\ ~done /\ done' = TRUE /\ UNCHANGED c
Spec == Init /\ [][Next]_vars

\* ---- lemma: scalar ------------------------------------------------------------------------------------------
QEq(a, b) == QCmp(a, b) = 0
ScalarLemma ==
  (done /\ c.kind = "lemma-scalar") =>
    LET s == c.s p == c.p e == c.e
        r == <<<<s, p, e>>>>
        A(x) == AxisScalar(x, s, p, e)
    IN (RegionValid(r) /\ p # 0) =>
       /\ \A x \in -5 .. 5 :
            /\ QLe(QZero, A(x)) /\ QLe(A(x), QOne)
            /\ (x = p => QEq(A(x), QOne))
            /\ (x < s \/ x > e => QIsZero(A(x)))
            /\ (x = s /\ s < p => QIsZero(A(x)))
            /\ (x = e /\ e > p => QIsZero(A(x)))
            /\ (QEq(A(x), QOne) => x = p)
            \* linear on both sides of the peak: equal steps
            /\ (s <= x /\ x < p => QEq(QSub(A(x + 1), A(x)), Q(ZOf(1), ZOf(p - s))))
            /\ (p <= x /\ x < e => QEq(QSub(A(x), A(x + 1)), Q(ZOf(1), ZOf(e - p))))
            \* product over the axes, an axis with peak 0 does not take part
            /\ QEq(RegionScalar(<<x, 3>>, <<<<s, p, e>>, <<0, 0, 0>>>>), A(x))
            /\ \A y \in {-1, 0, 1, 2, 3} :
                 QEq(RegionScalar(<<x, y>>, <<<<s, p, e>>, <<0, 2, 4>>>>), QMul(A(x), AxisScalar(y, 0, 2, 4)))
       \* the region implied by a peak
       /\ RegionValid(RegionOfPeak(<<p>>))
       /\ QEq(RegionScalar(<<p>>, RegionOfPeak(<<p>>)), QOne)
       /\ QIsZero(RegionScalar(<<0>>, RegionOfPeak(<<p>>)))
       /\ QIsZero(RegionScalar(<<-p>>, RegionOfPeak(<<p>>)))

\* ---- lemma: inferred deltas ---------------------------------------------------------------------------------
IupDeltas == {-3, 0, 2, 5}
IupLemma ==
  (done /\ c.kind = "lemma-iup") =>
    LET pc == c.pc nc == c.nc IN
    \A tc \in -3 .. 3, pd \in IupDeltas, nd \in IupDeltas :
      LET v == InferAxis(pc, tc, nc, pd, nd)
          lo == IF pc < nc THEN pc ELSE nc
          hi == IF pc < nc THEN nc ELSE pc
          dlo == IF pc < nc THEN pd ELSE nd
          dhi == IF pc < nc THEN nd ELSE pd
      IN /\ QEq(v, InferAxis(nc, tc, pc, nd, pd))                               \* symmetric
         /\ (pd = nd => QEq(v, QOfInt(pd)))                                     \* shift
         /\ (pc = nc /\ pd # nd => QIsZero(v))
         /\ (pc # nc /\ tc <= lo => QEq(v, QOfInt(dlo)))                        \* copy the nearer one
         /\ (pc # nc /\ tc >= hi => QEq(v, QOfInt(dhi)))
         /\ (pc # nc /\ lo < tc /\ tc < hi =>                                   \* interpolate
               /\ QEq(QMul(v, QOfInt(hi - lo)), QOfInt(dlo * (hi - tc) + dhi * (tc - lo)))
               /\ QLe(QOfInt(IF dlo < dhi THEN dlo ELSE dhi), v)
               /\ QLe(v, QOfInt(IF dlo < dhi THEN dhi ELSE dlo)))

\* ---- lemma: packed formats -----------------------------------------------------------------------------------
CodecLemma ==
  /\ (done /\ c.kind = "lemma-codec-d") =>
       \A st \in DStyles :
         LET b == EncDeltas(c.ds, st)
             r == DecodeDeltas(b \o <<99>>, 1, Len(c.ds))
         IN r.ds = c.ds /\ r.next = Len(b) + 1
  /\ (done /\ c.kind = "lemma-codec-p") =>
       \A st \in PtStyles :
         LET b == EncPoints(FALSE, Sorted(c.S), st)
             r == DecodePoints(b \o <<99>>, 1)
         IN ~r.all /\ r.pts = Sorted(c.S) /\ r.next = Len(b) + 1
  /\ (done /\ c.kind = "lemma-codec-big") =>
       LET pts == [k \in 1 .. c.n |-> 3 * (k - 1)]
           ds == [k \in 1 .. c.n |-> (k % 7) - 3]
           ws == [k \in 1 .. c.n |-> 1000 - k]
       IN /\ \A st \in PtStyles : DecodePoints(EncPoints(FALSE, pts, st), 1).pts = pts
          /\ \A st \in DStyles : DecodeDeltas(EncDeltas(ds, st), 1, c.n).ds = ds
          /\ \A st \in DStyles : DecodeDeltas(EncDeltas(ws, st), 1, c.n).ds = ws
          /\ DecodePoints(<<0>>, 1).all

\* ---- fonts: records as the judge will see them -----------------------------------------------------------------
Shape(cs) == ShapeOf(cs.shape)
G1(cs) == GlyphRec("simple", XY(Shape(cs)), Shape(cs).ends, cs.g1)
G2(cs) == GlyphRec("composite", cs.comps, <<>>, cs.g2)
G3(cs) == GlyphRec("empty", <<>>, <<>>, cs.g3)
G0(cs) == GlyphRec("empty", <<>>, <<>>, NoVar)

ARec(cs, gid, coords) ==
  LET xm == XMin(Shape(cs)) IN
  [gid |-> gid, coords |-> coords, hvar |-> HvarRec(cs.hvar), plain |-> TRUE,
   kind |-> CASE gid = 1 -> "simple" [] gid = 2 -> "composite" [] OTHER -> "empty",
   adv |-> CASE gid = 0 -> 400 [] gid = 1 -> cs.metrics[1]
             [] gid = 2 -> (IF cs.nhm = 2 THEN cs.metrics[1] ELSE cs.metrics[3])
             [] OTHER -> (IF cs.nhm = 2 THEN cs.metrics[1] ELSE 250),
   lsb |-> CASE gid = 1 -> cs.metrics[2] [] gid = 2 -> cs.metrics[4] [] OTHER -> 0,
   xmin |-> CASE gid = 1 -> xm
              [] gid = 2 -> (IF cs.xf THEN (xm \div 2) + cs.comps[1][1]
                             ELSE xm + Min({cs.comps[k][1] : k \in 1 .. Len(cs.comps)}))
              [] OTHER -> 0]

GRec(cs, gid) == CASE gid = 0 -> G0(cs) [] gid = 1 -> G1(cs) [] gid = 2 -> G2(cs) [] OTHER -> G3(cs)

\* ---- coordinates chosen by the model ------------------------------------------------------------------------------
TuplesOf(gv) == {gv.tuples[k] : k \in 1 .. Len(gv.tuples)}
CaseRegions(cs) ==
  {TupleRegion(HeaderOf(t)) : t \in TuplesOf(cs.g1) \cup TuplesOf(cs.g2) \cup TuplesOf(cs.g3)}
  \cup {cs.hvar.regions[k] : k \in 1 .. Len(cs.hvar.regions)}
  \cup {cs.mvar.regions[k] : k \in 1 .. Len(cs.mvar.regions)}

\* normalised probe values of axis k: every start / peak / end, the midpoints, the axis ends; "out"
\* values are user values beyond the axis range (they must clamp to the ends)
AxisMarks(cs, k) == UNION {{r[k][1], r[k][2], r[k][3]} : r \in CaseRegions(cs)} \cup {-U, 0, U}
Mids(S) == {(a + b) \div 2 : <<a, b>> \in {p \in S \X S : p[1] < p[2] /\ ~\E z \in S : p[1] < z /\ z < p[2]}}
AxisProbes(cs, k) == AxisMarks(cs, k) \cup Mids(AxisMarks(cs, k))

\* user values are raw 16.16 on axes -1 .. 0 .. +1: four times the normalised 2.14 value
Far == (3 * U) \div 2
UserTuples(cs) ==
  LET P1s == AxisProbes(cs, 1) \cup {-Far, Far} IN
  IF cs.naxes = 1 THEN {<<4 * v>> : v \in P1s}
  ELSE LET M2 == AxisMarks(cs, 2)
           few1 == AxisMarks(cs, 1) \cup {Hf \div 2, Far}
       IN {<<4 * v, 4 * w>> : v \in few1, w \in M2 \cup {-Far}}
          \cup {<<4 * v, 4 * w>> : v \in {0, U}, w \in AxisProbes(cs, 2)}
Clamp(v) == IF v < -U THEN -U ELSE IF v > U THEN U ELSE v
NormOf(user) == [k \in 1 .. Len(user) |-> Clamp(user[k] \div 4)]
UserSeq(cs) == SetToSeq(UserTuples(cs))

\* ---- invariants on fonts -----------------------------------------------------------------------------------------------
NPg(cs, gid) == Len(GRec(cs, gid).pts) + 4
GvOf(cs, gid) == CASE gid = 1 -> cs.g1 [] gid = 2 -> cs.g2 [] gid = 3 -> cs.g3 [] OTHER -> NoVar

\* the decoder returns the abstract deltas, and consumes exactly the tuple's bytes
DecodeOK(cs) ==
  \A gid \in 1 .. 3 :
    LET gv == GvOf(cs, gid)
        g == GRec(cs, gid)
        np == NPg(cs, gid)
    IN \A k \in 1 .. Len(gv.tuples) :
         LET td == TupleDeltas(TupleData(g, k), gv.tuples[k].private, SharedPts(g), np)
             ab == AbstractTD(gv, gv.tuples[k], np)
         IN td.has = ab.has /\ td.dx = ab.dx /\ td.dy = ab.dy /\ td.used = g.tuples[k].size

\* Instance(default) = default master, exactly
DefaultOK(cs) ==
  \A gid \in 0 .. 3 :
    LET g == GRec(cs, gid)
        a == ARec(cs, gid, [k \in 1 .. cs.naxes |-> 0])
        n == Len(g.pts)
        ev == Eval(g, DefaultPhantom(a), a.coords)
    IN /\ \A i \in 0 .. n - 1 : QIsInt(ev.x[i], g.pts[i + 1][1]) /\ QIsInt(ev.y[i], g.pts[i + 1][2])
       /\ QIsInt(ev.x[n], a.xmin - a.lsb) /\ QIsInt(ev.x[n + 1], a.xmin - a.lsb + a.adv)
       /\ QIsInt(ExactAdvance(a, n, ev), a.adv)
       /\ GlyphJudged(g, a)

\* at the peak of a region that is alone at that point, a referenced point moves by exactly its delta
PeakOK(cs) ==
  LET gv == cs.g1
      g == G1(cs)
      n == Len(g.pts)
  IN \A k \in 1 .. Len(gv.tuples) :
       LET t == gv.tuples[k]
           ev == Eval(g, DefaultPhantom(ARec(cs, 1, t.peak)), t.peak)
           alone == \A j \in 1 .. Len(gv.tuples) : j = k \/ QIsZero(ev.scal[j])
           ab == AbstractTD(gv, t, n + 4)
       IN alone => /\ QEq(ev.scal[k], QOne)
                   /\ \A i \in 0 .. n - 1 : ab.has[i] =>
                         /\ QIsInt(ev.x[i], g.pts[i + 1][1] + ab.dx[i])
                         /\ QIsInt(ev.y[i], g.pts[i + 1][2] + ab.dy[i])

FontOK == (done /\ c.kind = "font") => DecodeOK(c) /\ DefaultOK(c) /\ PeakOK(c)

\* ---- generator -------------------------------------------------------------------------------------------------------------
TupleJson(t) == [data |-> TupleBytes(t), peak |-> t.peak, embedded |-> t.embedded, inter |-> t.inter,
                 start |-> t.start, end |-> t.end, private |-> t.private]
GvJson(gv) == [hasShared |-> gv.shared.present, shared |-> SharedBytes(gv),
               tuples |-> [k \in 1 .. Len(gv.tuples) |-> TupleJson(gv.tuples[k])]]

Expect(cs, user) ==
  LET coords == NormOf(user) IN
  [gid \in 0 .. 3 |-> GlyphExpect(GRec(cs, gid), ARec(cs, gid, coords))]
\* as a sequence indexed by gid + 1
ExpectSeq(cs, user) == LET ex == Expect(cs, user) IN <<ex[0], ex[1], ex[2], ex[3]>>

EmitCase ==
  (done /\ c.kind = "font") =>
    LET us == UserSeq(c) IN
    PrintT(<<"CASE", ToJson([fam |-> c.fam, naxes |-> c.naxes, pts |-> Shape(c).pts, ends |-> Shape(c).ends,
                             comps |-> c.comps, long |-> c.long, metrics |-> c.metrics,
                             nhm |-> c.nhm, cvar |-> c.cvar, xf |-> c.xf,
                             \* phantom points beyond the int16 range: refusing the font is a conformant outcome
                             mayfail |-> c.fam = "extreme",
                             g1 |-> GvJson(c.g1), g2 |-> GvJson(c.g2), g3 |-> GvJson(c.g3),
                             hvar |-> c.hvar, mvar |-> c.mvar,
                             user |-> us, norm |-> [k \in 1 .. Len(us) |-> NormOf(us[k])],
                             expect |-> [k \in 1 .. Len(us) |-> ExpectSeq(c, us[k])]])>>)

\* one line per lemma state, for the vacuity counters of the driver
EmitLemma ==
  (done /\ c.kind # "font") => PrintT(<<"LEMMA", c.kind>>)
=============================================================================
