----------------------------- MODULE MC_Variation -----------------------------
(***************************************************************************)
(* Bounded check of Variation and generator of replay cases for C12.       *)
(*                                                                         *)
(* kind = "lemma-*": design lemmas on small universes, no output:          *)
(*   scalar   for every valid (start, peak, end) and coordinate on a small *)
(*            grid: 0 <= S <= 1, S = 1 at the peak, S = 0 outside and at   *)
(*            the open edges, monotone towards the peak, every step of one *)
(*            grid unit changes S by exactly 1/(peak-start) resp.          *)
(*            1/(end-peak) (linear, hence continuous at the edges); the    *)
(*            scalar of a region is the product over the axes; the implied *)
(*            region of a peak is valid.                                   *)
(*   iup      InferAxis is symmetric in its two neighbours and reduces to  *)
(*            copy (neighbours coincide, equal deltas), zero (coincide,    *)
(*            different deltas), nearest (target outside) and the linear   *)
(*            interpolation (target between); a contour with one           *)
(*            referenced point is shifted, one with none is untouched.     *)
(*   codec    Decode(Encode(x)) = x for packed point numbers and packed    *)
(*            deltas, every run style, and the decoder consumes exactly    *)
(*            the encoded bytes.                                           *)
(* kind = "font": an abstract variable font (1-2 axes, one simple glyph,   *)
(*   one composite glyph using it, two empty glyphs, tuple variations with *)
(*   abstract point lists and deltas, HVAR / MVAR variants).  TLC encodes  *)
(*   the tuple data with the encoders below, checks                        *)
(*     - the decoder returns the abstract deltas,                          *)
(*     - Instance(default coordinates) = default master exactly,           *)
(*     - at the peak of a lone region an explicit point moves by exactly   *)
(*       its delta,                                                        *)
(*   chooses the user coordinates (every start / peak / end of the font's  *)
(*   regions, the midpoints, the axis ends and values outside the axis     *)
(*   range), evaluates the model there and prints one CASE with all the    *)
(*   harness needs to write the font, plus the acceptable interval of      *)
(*   every output number.                                                  *)
(***************************************************************************)
EXTENDS Variation, Json, SequencesExt

CONSTANTS Tier         \* "quick" | "thorough"

VARIABLES c, done
vars == <<c, done>>

U == 16384
Hf == 8192
Qt == 4096

Thorough == Tier = "thorough"

\* ---- encoders --------------------------------------------------------------------------------
U8(v) == (v + 256) % 256
U16Bytes(v) == LET w == (v + 65536) % 65536 IN <<w \div 256, w % 256>>

\* one run of point-number differences
RECURSIVE PtRunBytes(_, _, _, _)
PtRunBytes(diffs, from, to, words) ==
  IF from > to THEN <<>>
  ELSE (IF words THEN U16Bytes(diffs[from]) ELSE <<diffs[from]>>) \o PtRunBytes(diffs, from + 1, to, words)

\* runs of at most `lim` numbers from position k; the first `headLen` numbers (if > 0) form a run of
\* their own with the other width
RECURSIVE PtRunsEnc(_, _, _, _, _)
PtRunsEnc(diffs, k, words, lim, headLen) ==
  IF k > Len(diffs) THEN <<>>
  ELSE LET isHead == k = 1 /\ headLen > 0
           w == IF isHead THEN ~words ELSE words
           n == IF isHead THEN headLen
                ELSE IF Len(diffs) - k + 1 > lim THEN lim ELSE Len(diffs) - k + 1
       IN <<(n - 1) + (IF w THEN 128 ELSE 0)>> \o PtRunBytes(diffs, k, k + n - 1, w)
          \o PtRunsEnc(diffs, k + n, words, lim, headLen)

PtStyles == {"b", "w", "s", "c2", "r2"}
\* "b" bytes, "w" words, "s" a first run of one byte number then words, "c2" two-byte count,
\* "r2" runs of two numbers
EncPoints(all, pts, style) ==
  IF all THEN <<0>>
  ELSE LET n == Len(pts)
           diffs == [k \in 1 .. n |-> IF k = 1 THEN pts[1] ELSE pts[k] - pts[k - 1]]
           wide == \E k \in 1 .. n : diffs[k] > 255
           count == IF style = "c2" \/ n >= 128 THEN <<128 + (n \div 256), n % 256>> ELSE <<n>>
       IN count \o
          (CASE style = "w" -> PtRunsEnc(diffs, 1, TRUE, 128, 0)
             [] style = "s" /\ n >= 2 /\ diffs[1] <= 255 -> PtRunsEnc(diffs, 1, TRUE, 128, 1)
             [] style = "r2" -> PtRunsEnc(diffs, 1, wide, 2, 0)
             [] OTHER -> PtRunsEnc(diffs, 1, wide, 128, 0))

DStyles == {"min", "w", "one", "nz", "w2"}
\* kind of the run a delta goes to: 0 zero run, 1 bytes, 2 words
DKind(v, style) ==
  IF style \in {"w", "w2"} THEN 2
  ELSE IF v = 0 /\ style # "nz" THEN 0
  ELSE IF v >= -128 /\ v <= 127 THEN 1 ELSE 2
DMax(style) == IF style = "one" THEN 1 ELSE IF style = "w2" THEN 2 ELSE 64

RECURSIVE DRunEnd(_, _, _, _, _)
DRunEnd(ds, k, j, kind, style) ==
  IF j + 1 <= Len(ds) /\ DKind(ds[j + 1], style) = kind /\ j + 1 - k + 1 <= DMax(style)
  THEN DRunEnd(ds, k, j + 1, kind, style) ELSE j

RECURSIVE DRunBytes(_, _, _, _)
DRunBytes(ds, from, to, kind) ==
  IF from > to \/ kind = 0 THEN <<>>
  ELSE (IF kind = 1 THEN <<U8(ds[from])>> ELSE U16Bytes(ds[from])) \o DRunBytes(ds, from + 1, to, kind)

RECURSIVE EncDeltasFrom(_, _, _)
EncDeltasFrom(ds, k, style) ==
  IF k > Len(ds) THEN <<>>
  ELSE LET kind == DKind(ds[k], style)
           j == DRunEnd(ds, k, k, kind, style)
       IN <<(j - k) + (IF kind = 0 THEN 128 ELSE IF kind = 2 THEN 64 ELSE 0)>>
          \o DRunBytes(ds, k, j, kind) \o EncDeltasFrom(ds, j + 1, style)
EncDeltas(ds, style) == EncDeltasFrom(ds, 1, style)

\* ---- abstract tuple variations ------------------------------------------------------------------
\* t = [peak, inter, start, end, embedded, private, all, pts, dx, dy, penc, denc]
\* (pts / all are ignored when the tuple uses the shared point numbers)
TupleBytes(t) ==
  (IF t.private THEN EncPoints(t.all, t.pts, t.penc) ELSE <<>>) \o EncDeltas(t.dx \o t.dy, t.denc)

\* gv = [shared |-> [present, all, pts, penc], tuples |-> sequence of t]
SharedBytes(gv) == IF gv.shared.present THEN EncPoints(gv.shared.all, gv.shared.pts, gv.shared.penc) ELSE <<>>

RECURSIVE ConcatData(_, _)
ConcatData(ts, k) == IF k > Len(ts) THEN <<>> ELSE TupleBytes(ts[k]) \o ConcatData(ts, k + 1)

\* the glyph variation data as the harness' reader will hand it to the judge
HeaderOf(t) == [peak |-> t.peak, inter |-> t.inter,
                start |-> IF t.inter THEN t.start ELSE <<>>, end |-> IF t.inter THEN t.end ELSE <<>>,
                private |-> t.private, size |-> Len(TupleBytes(t))]
GlyphRec(kind, pts, ends, gv) ==
  [pts |-> pts, ends |-> ends, kind |-> kind,
   ser |-> SharedBytes(gv) \o ConcatData(gv.tuples, 1), hasShared |-> gv.shared.present,
   tuples |-> [k \in 1 .. Len(gv.tuples) |-> HeaderOf(gv.tuples[k])]]

\* the point list a tuple refers to
PointsOf(gv, t, np) ==
  LET all == IF t.private THEN t.all ELSE gv.shared.all
      pts == IF t.private THEN t.pts ELSE gv.shared.pts
  IN IF all THEN [k \in 1 .. np |-> k - 1] ELSE pts

\* abstract deltas: functions over 0 .. np-1
AbstractTD(gv, t, np) ==
  LET P == PointsOf(gv, t, np)
      At(i) == LET ks == {k \in 1 .. Len(P) : P[k] = i} IN IF ks = {} THEN 0 ELSE Max(ks)
  IN [has |-> [i \in 0 .. np - 1 |-> At(i) # 0],
      dx  |-> [i \in 0 .. np - 1 |-> IF At(i) = 0 THEN 0 ELSE t.dx[At(i)]],
      dy  |-> [i \in 0 .. np - 1 |-> IF At(i) = 0 THEN 0 ELSE t.dy[At(i)]]]

NoVar == [shared |-> [present |-> FALSE, all |-> FALSE, pts |-> <<>>, penc |-> "b"], tuples |-> <<>>]

\* ---- the universe -----------------------------------------------------------------------------------
\* glyph shapes: points <<x, y, on>>, ends
Shapes ==
  [A |-> [pts |-> <<<<0, 0, TRUE>>, <<100, 0, TRUE>>, <<100, 80, FALSE>>, <<0, 80, TRUE>>>>, ends |-> <<3>>],
   \* two contours; the first has coincident x and y values among its points
   B |-> [pts |-> <<<<10, 10, TRUE>>, <<60, 10, TRUE>>, <<60, 60, TRUE>>,
                    <<20, 100, TRUE>>, <<70, 100, FALSE>>, <<45, 150, TRUE>>>>, ends |-> <<2, 5>>],
   \* point 3 lies outside the range of its neighbours in x, point 4 between them
   C |-> [pts |-> <<<<0, 0, TRUE>>, <<50, -20, TRUE>>, <<100, 0, TRUE>>, <<120, 60, FALSE>>, <<50, 30, TRUE>>>>,
          ends |-> <<4>>],
   \* coincident points and a negative side
   D |-> [pts |-> <<<<-30, 0, TRUE>>, <<-30, 0, TRUE>>, <<40, 0, TRUE>>, <<40, 90, TRUE>>, <<5, 45, FALSE>>,
                    <<-30, 90, TRUE>>>>, ends |-> <<5>>]]

\* large glyphs: runs longer than 64 deltas / 128 point numbers, two-byte counts
Poly(n1, n2, step) ==
  [pts |-> [k \in 1 .. n1 + n2 |->
              IF k <= n1 THEN <<step * (k - 1), (37 * k) % 101, k % 3 # 1>>
              ELSE <<5 + step * (k - n1 - 1), 200 + ((53 * k) % 89), k % 4 # 2>>],
   ends |-> <<n1 - 1, n1 + n2 - 1>>]
BigShapes == [E |-> Poly(20, 20, 10), F |-> Poly(70, 70, 3)]
ShapeOf(name) == IF name \in {"E", "F"} THEN BigShapes[name] ELSE Shapes[name]

XY(shape) == [k \in 1 .. Len(shape.pts) |-> <<shape.pts[k][1], shape.pts[k][2]>>]
XMin(shape) == Min({shape.pts[k][1] : k \in 1 .. Len(shape.pts)})

\* deltas by point index (0-based index + 1); long enough for 6 points + 4 phantom points
DxA == <<10, -20, 30, 7, -45, 60, 3, -8, 25, -14>>
DyA == <<-5, 40, 15, -33, 20, 0, 9, 70, -2, 11>>
\* word-sized values, zeros, the int8 boundaries
DxB == <<200, 0, -129, 127, 0, 0, -300, 128, -128, 1>>
DyB == <<0, 0, 0, 255, -1, 0, 513, 0, 0, -256>>
DeltaTables == [A |-> [dx |-> DxA, dy |-> DyA], B |-> [dx |-> DxB, dy |-> DyB]]
\* delta of point i (0-based) in table tb; beyond the tables a formula (every 7th value word-sized)
DX(tb, i) == IF tb \in {"A", "B"} /\ i < 10 THEN DeltaTables[tb].dx[i + 1]
             ELSE (IF i % 7 = 3 THEN 20 ELSE 1) * (((i * 29) % 61) - 30)
DY(tb, i) == IF tb \in {"A", "B"} /\ i < 10 THEN DeltaTables[tb].dy[i + 1]
             ELSE IF i % 5 = 0 THEN 0 ELSE ((i * 17) % 47) - 23

\* a tuple over the points S (a set of point indices, or "all") with deltas from table tb
Sorted(S) == SetToSortSeq(S, <)
MkTuple(region, embedded, private, all, S, tb, np, penc, denc) ==
  LET pts == IF all THEN [k \in 1 .. np |-> k - 1] ELSE Sorted(S)
  IN [peak |-> [k \in 1 .. Len(region) |-> region[k][2]],
      inter |-> region # RegionOfPeak([k \in 1 .. Len(region) |-> region[k][2]]),
      start |-> [k \in 1 .. Len(region) |-> region[k][1]],
      end |-> [k \in 1 .. Len(region) |-> region[k][3]],
      embedded |-> embedded, private |-> private, all |-> all, pts |-> IF all THEN <<>> ELSE pts,
      dx |-> [k \in 1 .. Len(pts) |-> DX(tb, pts[k])],
      dy |-> [k \in 1 .. Len(pts) |-> DY(tb, pts[k])],
      penc |-> penc, denc |-> denc]

\* regions of one axis
P1  == <<<<0, U, U>>>>                 \* peak +1
M1  == <<<<-U, -U, 0>>>>               \* peak -1
PH  == <<<<0, Hf, Hf>>>>               \* peak 0.5, implied region: nothing above the peak
I1  == <<<<0, Hf, U>>>>                \* intermediate 0 .. 0.5 .. 1
I2  == <<<<Hf, U, U>>>>                \* intermediate 0.5 .. 1 .. 1
I3  == <<<<Qt, Hf, 3 * Qt>>>>          \* intermediate 0.25 .. 0.5 .. 0.75
I4  == <<<<-U, -Hf, 0>>>>              \* intermediate on the negative side
I5  == <<<<-U, -U, -Hf>>>>
I6  == <<<<5461, 10923, U>>>>          \* thirds: scalars with denominators that are not powers of two
Regions1 == {P1, M1, PH, I1, I2, I3, I4, I5, I6}

\* regions of two axes
R2(a, b) == <<a[1], b[1]>>
Z0 == <<<<0, 0, 0>>>>                  \* the axis does not take part
Regions2 == {R2(P1, Z0), R2(Z0, P1), R2(P1, P1), R2(M1, P1), R2(I1, Z0), R2(I2, P1), R2(I3, I1), R2(Z0, M1),
             R2(I6, I3), R2(I4, I2)}

SubsetsUpTo(S, n) == {T \in SUBSET S : T # {} /\ Cardinality(T) <= n}

\* ---- HVAR / MVAR variants -------------------------------------------------------------------------
\* rows hold one delta per region; rows of "direct" are indexed by glyph id
NoHvar == [kind |-> "none", regions |-> <<>>, rows |-> <<>>, advMap |-> <<>>, lsbMap |-> <<>>]
HvarOf(kind, regions) ==
  LET nr == Len(regions)
      Row(base) == [k \in 1 .. nr |-> base + 17 * (k - 1) * (IF k % 2 = 0 THEN -1 ELSE 1)]
  IN CASE kind = "none" -> NoHvar
       [] kind = "direct" -> [kind |-> kind, regions |-> regions,
                              rows |-> <<Row(0), Row(40), Row(-25), Row(130)>>, advMap |-> <<>>, lsbMap |-> <<>>]
       \* the map is shorter than the glyph count: glyphs 2 and 3 use its last entry
       [] kind = "advmap" -> [kind |-> kind, regions |-> regions,
                              rows |-> <<Row(55), Row(0), Row(-200)>>, advMap |-> <<1, 0, 2>>, lsbMap |-> <<>>]
       [] kind = "bothmap" -> [kind |-> kind, regions |-> regions,
                               rows |-> <<Row(0), Row(64), Row(-9), Row(31)>>,
                               advMap |-> <<0, 1, 1, 0>>, lsbMap |-> <<0, 2, 3>>]

MapRec(m) == IF m = <<>> THEN [present |-> FALSE, fmt |-> 0, count |-> 0, data |-> <<>>]
             ELSE [present |-> TRUE, fmt |-> 3, count |-> Len(m), data |-> m]
HvarRec(h) ==
  IF h.kind = "none"
  THEN [present |-> FALSE, ivs |-> [regions |-> <<>>, subs |-> <<>>], adv |-> MapRec(<<>>), lsb |-> MapRec(<<>>)]
  ELSE [present |-> TRUE,
        ivs |-> [regions |-> h.regions,
                 subs |-> <<[ri |-> [k \in 1 .. Len(h.regions) |-> k - 1], rows |-> h.rows]>>],
        adv |-> MapRec(h.advMap), lsb |-> MapRec(h.lsbMap)]

NoMvar == [present |-> FALSE, regions |-> <<>>, rows |-> <<>>, tags |-> <<>>]
\* hcld (usWinDescent, unsigned, 200 in the generated fonts) is driven below zero
\* (every value tag of the MVAR chapter that lands in OS/2, hhea or post; the generated fonts have no vhea / gasp)
MvarTags == <<"xhgt", "hcld", "undo", "hasc", "strs", "hdsc", "hlgp", "hcla", "cpht", "stro", "unds", "hcrs",
              "hcrn", "hcof", "sbxs", "sbys", "sbxo", "sbyo", "spxs", "spys", "spxo", "spyo">>
MvarHalf == (Len(MvarTags) + 1) \div 2
MvarOf(regions) ==
  LET nr == Len(regions)
      Row(j) == CASE j = 1 -> [k \in 1 .. nr |-> 33 * k]
                  [] j = 2 -> [k \in 1 .. nr |-> -301 - k]
                  [] j = 3 -> [k \in 1 .. nr |-> IF k = 1 THEN 7 ELSE 0]
                  [] j = 4 -> [k \in 1 .. nr |-> -15 * k]
                  [] j = 5 -> [k \in 1 .. nr |-> 129]
                  [] OTHER -> [k \in 1 .. nr |-> (IF (j + k) % 2 = 0 THEN 1 ELSE -1) * (11 * j + 3 * k)]
  IN [present |-> TRUE, regions |-> regions,
      rows |-> [j \in 1 .. Len(MvarTags) |-> Row(j)], tags |-> MvarTags]

\* ---- cases ----------------------------------------------------------------------------------------------
\* comps: offsets of the components of glyph 2 (all of them glyph 1); nhm: numberOfHMetrics (with 2,
\* glyphs 2 and 3 take the advance of glyph 1); cvar: the font also carries cvt / cvar; xf: the single
\* component is scaled by 0.5
MkCase(fam, naxes, shape, comps, metrics, long, g1, g2, g3, hvar, mvar) ==
  [kind |-> "font", fam |-> fam, naxes |-> naxes, shape |-> shape, comps |-> comps, metrics |-> metrics,
   long |-> long, g1 |-> g1, g2 |-> g2, g3 |-> g3, hvar |-> hvar, mvar |-> mvar,
   nhm |-> 4, cvar |-> FALSE, xf |-> FALSE]
Two(cx) == <<cx, <<cx[1] + 200, cx[2] - 50>>>>

NPof(shape) == Len(ShapeOf(shape).pts) + 4
StdMetrics(shape) == <<600, XMin(ShapeOf(shape)), 640, XMin(ShapeOf(shape)) + 20>>   \* lsb = xMin: pp1 = 0
OddMetrics(shape) == <<600, XMin(ShapeOf(shape)) - 7, 640, 33>>                      \* pp1 # 0

Private(ts) == [shared |-> [present |-> FALSE, all |-> FALSE, pts |-> <<>>, penc |-> "b"], tuples |-> ts]

\* composite glyph with nc components: points 0 .. nc-1 are the component offsets, then the phantom points
CompVar(region, tb, nc) == Private(<<MkTuple(region, TRUE, TRUE, TRUE, {}, tb, nc + 4, "b", "min")>>)
CompVarPts(region, S, tb, nc) == Private(<<MkTuple(region, TRUE, TRUE, FALSE, S, tb, nc + 4, "b", "min")>>)

\* IUP: one region, every non-empty set of referenced outline points, with and without the phantom points
IupShapes == IF Thorough THEN {"A", "B", "C", "D"} ELSE {"B", "C"}
IupCases ==
  UNION {
    LET n == Len(Shapes[sh].pts) IN
    {MkCase("iup", 1, sh, <<<<30, -10>>>>, StdMetrics(sh), FALSE,
            Private(<<MkTuple(P1, TRUE, TRUE, FALSE, S \cup ph, tb, n + 4, "b", "min")>>),
            NoVar, NoVar, NoHvar, NoMvar) :
       S \in SUBSET (0 .. n - 1), ph \in {{}, {n, n + 1}, {n + 3}}, tb \in (IF Thorough THEN {"A", "B"} ELSE {"A"})}
    : sh \in IupShapes}
IupOK(cs) == cs.g1.tuples[1].pts # <<>>

\* regions: sets of up to three tuples over regions of one axis, two point lists
RegionCases1 ==
  {MkCase("region1", 1, "A", Two(<<-15, 40>>), OddMetrics("A"), FALSE,
          Private([k \in 1 .. Cardinality(RS) |->
                     MkTuple(SetToSeq(RS)[k], k % 2 = 1, TRUE, k = 1, {1, 2, 4 + k}, IF k = 2 THEN "B" ELSE "A", 8, "b", "min")]),
          CompVar(SetToSeq(RS)[1], "A", 2), NoVar, hv, NoMvar) :
     RS \in SubsetsUpTo(Regions1, IF Thorough THEN 3 ELSE 2),
     hv \in {NoHvar}}

RegionCases2 ==
  {MkCase("region2", 2, "C", Two(<<25, 5>>), StdMetrics("C"), TRUE,
          Private([k \in 1 .. Cardinality(RS) |->
                     MkTuple(SetToSeq(RS)[k], k % 2 = 0, TRUE, k = 2, {0, 3, 5, 6}, IF k = 3 THEN "B" ELSE "A", 9, "b", "min")]),
          CompVarPts(SetToSeq(RS)[1], {1, 2, 3}, "B", 2), NoVar, NoHvar, NoMvar) :
     RS \in SubsetsUpTo(Regions2, IF Thorough THEN 3 ELSE 2)}

\* encodings: every point-number style x every delta style, private / shared / mixed point numbers,
\* embedded / shared peaks, short / long gvar offsets
EncCases ==
  {MkCase("enc", 1, "B", <<<<0, 0>>>>, StdMetrics("B"), long,
          [shared |-> [present |-> shared # "private", all |-> shared = "all", pts |-> <<0, 2, 4, 7>>, penc |-> penc],
           tuples |-> <<MkTuple(P1, emb, shared = "private", FALSE, {1, 2, 3, 5, 8}, tb, 10, penc, denc),
                        MkTuple(I1, ~emb, shared \in {"private", "mixed"}, shared = "mixed", {0, 5, 6}, "B", 10, penc, denc),
                        MkTuple(M1, emb, shared = "private", FALSE, {0, 9}, tb, 10, penc, denc)>>],
          CompVarPts(P1, {0, 2}, tb, 1), Private(<<MkTuple(P1, TRUE, TRUE, FALSE, {0, 1}, "A", 4, penc, denc)>>),
          NoHvar, NoMvar) :
     penc \in PtStyles, denc \in DStyles, shared \in {"private", "list", "all", "mixed"},
     emb \in BOOLEAN, long \in (IF Thorough THEN BOOLEAN ELSE {FALSE}), tb \in (IF Thorough THEN {"A", "B"} ELSE {"B"})}

\* a tuple that refers to the shared numbers needs them; its deltas follow the shared list
FixShared(cs) ==
  LET gv == cs.g1
      np == NPof(cs.shape)
      Fix1(t) == IF t.private THEN t
                 ELSE LET P == PointsOf(gv, t, np)
                      IN [t EXCEPT !.all = FALSE, !.pts = <<>>,
                                   !.dx = [k \in 1 .. Len(P) |-> DX("A", P[k])],
                                   !.dy = [k \in 1 .. Len(P) |-> DY("A", P[k])]]
  IN [cs EXCEPT !.g1.tuples = [k \in 1 .. Len(gv.tuples) |-> Fix1(gv.tuples[k])]]

\* metrics: HVAR absent / direct / with maps, MVAR, phantom point deltas, component offsets
MetricTuples(na, all, tb) ==
  Private(<<MkTuple(IF na = 1 THEN P1 ELSE R2(P1, Z0), TRUE, TRUE, all, {0, 2, 6, 7}, tb, 10, "b", "min"),
            MkTuple(IF na = 1 THEN I4 ELSE R2(I1, P1), TRUE, TRUE, FALSE, {3, 6, 7, 8}, "A", 10, "b", "min")>>)
MetricCases ==
  {[MkCase("metric", na, "D", IF comp = <<0, 0>> THEN <<comp>> ELSE Two(comp), met, FALSE,
           MetricTuples(na, all, tb),
           CompVar(IF na = 1 THEN P1 ELSE R2(P1, Z0), tb, IF comp = <<0, 0>> THEN 1 ELSE 2),
           Private(<<MkTuple(IF na = 1 THEN P1 ELSE R2(Z0, P1), TRUE, TRUE, TRUE, {}, "A", 4, "b", "min")>>),
           HvarOf(hk, IF na = 1 THEN <<P1, I4, I1>> ELSE <<R2(P1, Z0), R2(I1, P1), R2(Z0, M1)>>),
           IF mv THEN MvarOf(IF na = 1 THEN <<P1, M1>> ELSE <<R2(P1, P1), R2(Z0, M1)>>) ELSE NoMvar)
      EXCEPT !.nhm = IF all THEN 2 ELSE 4, !.cvar = mv, !.xf = (comp = <<0, 0>>)] :
     na \in {1, 2}, comp \in (IF Thorough THEN {<<0, 0>>, <<-120, 300>>} ELSE {<<-120, 300>>}),
     met \in {StdMetrics("D"), OddMetrics("D")},
     all \in BOOLEAN, tb \in (IF Thorough THEN {"A", "B"} ELSE {"A"}), hk \in {"none", "direct", "advmap", "bothmap"},
     mv \in BOOLEAN}
  \* one scaled component also in the quick tier
  \cup {[MkCase("metric", 1, "D", <<<<0, 0>>>>, StdMetrics("D"), FALSE, MetricTuples(1, FALSE, "A"),
                 CompVar(P1, "A", 1), NoVar, NoHvar, NoMvar) EXCEPT !.xf = TRUE]}

\* phantom points near the ends of the int16 range (advance 32767 is a legal uint16 advance):
\* pp2 = pp1 + advance, the varied phantom points and their difference leave the int16 range
ExtremeCases ==
  {MkCase("extreme", 1, "D", <<<<-120, 300>>>>, met, FALSE, MetricTuples(1, FALSE, "B"),
          CompVar(P1, "A", 1), NoVar, NoHvar, NoMvar) :
     met \in {<<32767, XMin(ShapeOf("D")) - 10, 640, 33>>,       \* pp1 = 10, pp2 = 32777
              <<600, 32767, 640, 33>>,                            \* pp1 = xMin - 32767
              <<32700, XMin(ShapeOf("D")) - 10, 640, 33>>,       \* varied: pp2 - pp1 > 32767
              <<32200, XMin(ShapeOf("D")) - 500, 640, 33>>}}     \* varied: pp2 > 32767 at the peak

\* long runs: more than 64 deltas per run, more than 128 point numbers (two-byte count), sparse lists
BigCases ==
  {MkCase("big", 1, "E", <<<<7, 7>>>>, OddMetrics("E"), TRUE,
          Private(<<MkTuple(P1, TRUE, TRUE, TRUE, {}, "F", 44, "b", denc),
                    MkTuple(I1, TRUE, TRUE, FALSE, {i \in 0 .. 43 : i % 2 = 0}, "F", 44, penc, "w")>>),
          CompVar(P1, "A", 1), NoVar, NoHvar, NoMvar) : denc \in {"min", "nz"}, penc \in {"b", "r2"}}
  \cup
  {MkCase("big", 1, "F", <<<<7, 7>>>>, StdMetrics("F"), TRUE,
          Private(<<MkTuple(P1, TRUE, TRUE, FALSE, 0 .. 143, "F", 144, penc, "nz"),
                    MkTuple(M1, TRUE, TRUE, TRUE, {}, "F", 144, "b", "w")>>),
          CompVar(P1, "A", 1), NoVar, NoHvar, NoMvar) : penc \in {"b", "w"}}
  \cup
  {MkCase("big", 1, "F", <<<<7, 7>>>>, StdMetrics("F"), FALSE,
          [shared |-> [present |-> TRUE, all |-> FALSE, pts |-> Sorted({i \in 0 .. 143 : i % 13 # 5}), penc |-> penc],
           tuples |-> <<MkTuple(P1, FALSE, FALSE, FALSE, {i \in 0 .. 143 : i % 13 # 5}, "F", 144, penc, "min"),
                        MkTuple(I2, FALSE, FALSE, FALSE, {i \in 0 .. 143 : i % 13 # 5}, "F", 144, penc, "one")>>],
          CompVar(P1, "A", 1), NoVar, NoHvar, NoMvar) : penc \in {"b", "s"}}

FontCases == BigCases \cup ExtremeCases \cup {cs \in IupCases : IupOK(cs)} \cup RegionCases1 \cup RegionCases2
             \cup {FixShared(cs) : cs \in EncCases} \cup MetricCases

\* ---- lemma universes ------------------------------------------------------------------------------------
G == -4 .. 4
ScalarLemmaCases == {[kind |-> "lemma-scalar", s |-> s, p |-> p, e |-> e] :
                        s \in G, p \in G, e \in G}
IupLemmaCases == {[kind |-> "lemma-iup", pc |-> pc, nc |-> nc] : pc \in -2 .. 2, nc \in -2 .. 2}
CodecAlphabet == {-300, -129, -128, -1, 0, 1, 127, 128}
CodecLemmaCases ==
  {[kind |-> "lemma-codec-d", ds |-> ds] : ds \in UNION {[1 .. n -> CodecAlphabet] : n \in 1 .. (IF Thorough THEN 4 ELSE 3)}}
  \cup {[kind |-> "lemma-codec-p", S |-> S] : S \in (SUBSET {0, 1, 2, 5, 255, 256, 300, 700}) \ {{}}}
  \cup {[kind |-> "lemma-codec-big", n |-> n] : n \in {64, 65, 127, 128, 129, 200}}

---------------------------------------------------------------------------
\* (Cases, Init, Next and Spec are at the end of the module, after the generation-2 universes)

\* ---- lemma: scalar ------------------------------------------------------------------------------------------
QEq(a, b) == QCmp(a, b) = 0
ScalarLemma ==
  (done /\ c.kind = "lemma-scalar") =>
    LET s == c.s p == c.p e == c.e
        r == <<<<s, p, e>>>>
        A(x) == AxisScalar(x, s, p, e)
    IN (RegionValid(r) /\ p # 0) =>
       /\ \A x \in -5 .. 5 :
            /\ QLe(QZero, A(x)) /\ QLe(A(x), QOne)
            /\ (x = p => QEq(A(x), QOne))
            /\ (x < s \/ x > e => QIsZero(A(x)))
            /\ (x = s /\ s < p => QIsZero(A(x)))
            /\ (x = e /\ e > p => QIsZero(A(x)))
            /\ (QEq(A(x), QOne) => x = p)
            \* linear on both sides of the peak: equal steps
            /\ (s <= x /\ x < p => QEq(QSub(A(x + 1), A(x)), Q(ZOf(1), ZOf(p - s))))
            /\ (p <= x /\ x < e => QEq(QSub(A(x), A(x + 1)), Q(ZOf(1), ZOf(e - p))))
            \* product over the axes, an axis with peak 0 does not take part
            /\ QEq(RegionScalar(<<x, 3>>, <<<<s, p, e>>, <<0, 0, 0>>>>), A(x))
            /\ \A y \in {-1, 0, 1, 2, 3} :
                 QEq(RegionScalar(<<x, y>>, <<<<s, p, e>>, <<0, 2, 4>>>>), QMul(A(x), AxisScalar(y, 0, 2, 4)))
       \* the region implied by a peak
       /\ RegionValid(RegionOfPeak(<<p>>))
       /\ QEq(RegionScalar(<<p>>, RegionOfPeak(<<p>>)), QOne)
       /\ QIsZero(RegionScalar(<<0>>, RegionOfPeak(<<p>>)))
       /\ QIsZero(RegionScalar(<<-p>>, RegionOfPeak(<<p>>)))

\* ---- lemma: inferred deltas ---------------------------------------------------------------------------------
IupDeltas == {-3, 0, 2, 5}
IupLemma ==
  (done /\ c.kind = "lemma-iup") =>
    LET pc == c.pc nc == c.nc IN
    \A tc \in -3 .. 3, pd \in IupDeltas, nd \in IupDeltas :
      LET v == InferAxis(pc, tc, nc, pd, nd)
          lo == IF pc < nc THEN pc ELSE nc
          hi == IF pc < nc THEN nc ELSE pc
          dlo == IF pc < nc THEN pd ELSE nd
          dhi == IF pc < nc THEN nd ELSE pd
      IN /\ QEq(v, InferAxis(nc, tc, pc, nd, pd))                               \* symmetric
         /\ (pd = nd => QEq(v, QOfInt(pd)))                                     \* shift
         /\ (pc = nc /\ pd # nd => QIsZero(v))
         /\ (pc # nc /\ tc <= lo => QEq(v, QOfInt(dlo)))                        \* copy the nearer one
         /\ (pc # nc /\ tc >= hi => QEq(v, QOfInt(dhi)))
         /\ (pc # nc /\ lo < tc /\ tc < hi =>                                   \* interpolate
               /\ QEq(QMul(v, QOfInt(hi - lo)), QOfInt(dlo * (hi - tc) + dhi * (tc - lo)))
               /\ QLe(QOfInt(IF dlo < dhi THEN dlo ELSE dhi), v)
               /\ QLe(v, QOfInt(IF dlo < dhi THEN dhi ELSE dlo)))

\* ---- lemma: packed formats -----------------------------------------------------------------------------------
CodecLemma ==
  /\ (done /\ c.kind = "lemma-codec-d") =>
       \A st \in DStyles :
         LET b == EncDeltas(c.ds, st)
             r == DecodeDeltas(b \o <<99>>, 1, Len(c.ds))
         IN r.ds = c.ds /\ r.next = Len(b) + 1
  /\ (done /\ c.kind = "lemma-codec-p") =>
       \A st \in PtStyles :
         LET b == EncPoints(FALSE, Sorted(c.S), st)
             r == DecodePoints(b \o <<99>>, 1)
         IN ~r.all /\ r.pts = Sorted(c.S) /\ r.next = Len(b) + 1
  /\ (done /\ c.kind = "lemma-codec-big") =>
       LET pts == [k \in 1 .. c.n |-> 3 * (k - 1)]
           ds == [k \in 1 .. c.n |-> (k % 7) - 3]
           ws == [k \in 1 .. c.n |-> 1000 - k]
       IN /\ \A st \in PtStyles : DecodePoints(EncPoints(FALSE, pts, st), 1).pts = pts
          /\ \A st \in DStyles : DecodeDeltas(EncDeltas(ds, st), 1, c.n).ds = ds
          /\ \A st \in DStyles : DecodeDeltas(EncDeltas(ws, st), 1, c.n).ds = ws
          /\ DecodePoints(<<0>>, 1).all

\* ---- fonts: records as the judge will see them -----------------------------------------------------------------
Shape(cs) == ShapeOf(cs.shape)
G1(cs) == GlyphRec("simple", XY(Shape(cs)), Shape(cs).ends, cs.g1)
G2(cs) == GlyphRec("composite", cs.comps, <<>>, cs.g2)
G3(cs) == GlyphRec("empty", <<>>, <<>>, cs.g3)
G0(cs) == GlyphRec("empty", <<>>, <<>>, NoVar)

ARec(cs, gid, coords) ==
  LET xm == XMin(Shape(cs)) IN
  [gid |-> gid, coords |-> coords, hvar |-> HvarRec(cs.hvar), plain |-> TRUE,
   kind |-> CASE gid = 1 -> "simple" [] gid = 2 -> "composite" [] OTHER -> "empty",
   adv |-> CASE gid = 0 -> 400 [] gid = 1 -> cs.metrics[1]
             [] gid = 2 -> (IF cs.nhm = 2 THEN cs.metrics[1] ELSE cs.metrics[3])
             [] OTHER -> (IF cs.nhm = 2 THEN cs.metrics[1] ELSE 250),
   lsb |-> CASE gid = 1 -> cs.metrics[2] [] gid = 2 -> cs.metrics[4] [] OTHER -> 0,
   xmin |-> CASE gid = 1 -> xm
              [] gid = 2 -> (IF cs.xf THEN (xm \div 2) + cs.comps[1][1]
                             ELSE xm + Min({cs.comps[k][1] : k \in 1 .. Len(cs.comps)}))
              [] OTHER -> 0]

GRec(cs, gid) == CASE gid = 0 -> G0(cs) [] gid = 1 -> G1(cs) [] gid = 2 -> G2(cs) [] OTHER -> G3(cs)

\* ---- coordinates chosen by the model ------------------------------------------------------------------------------
TuplesOf(gv) == {gv.tuples[k] : k \in 1 .. Len(gv.tuples)}
CaseRegions(cs) ==
  {TupleRegion(HeaderOf(t)) : t \in TuplesOf(cs.g1) \cup TuplesOf(cs.g2) \cup TuplesOf(cs.g3)}
  \cup {cs.hvar.regions[k] : k \in 1 .. Len(cs.hvar.regions)}
  \cup {cs.mvar.regions[k] : k \in 1 .. Len(cs.mvar.regions)}

\* normalised probe values of axis k: every start / peak / end, the midpoints, the axis ends; "out"
\* values are user values beyond the axis range (they must clamp to the ends)
AxisMarks(cs, k) == UNION {{r[k][1], r[k][2], r[k][3]} : r \in CaseRegions(cs)} \cup {-U, 0, U}
Mids(S) == {(a + b) \div 2 : <<a, b>> \in {p \in S \X S : p[1] < p[2] /\ ~\E z \in S : p[1] < z /\ z < p[2]}}
AxisProbes(cs, k) == AxisMarks(cs, k) \cup Mids(AxisMarks(cs, k))

\* user values are raw 16.16 on axes -1 .. 0 .. +1: four times the normalised 2.14 value
Far == (3 * U) \div 2
UserTuples(cs) ==
  LET P1s == AxisProbes(cs, 1) \cup {-Far, Far} IN
  IF cs.naxes = 1 THEN {<<4 * v>> : v \in P1s}
  ELSE LET M2 == AxisMarks(cs, 2)
           few1 == AxisMarks(cs, 1) \cup {Hf \div 2, Far}
       IN {<<4 * v, 4 * w>> : v \in few1, w \in M2 \cup {-Far}}
          \cup {<<4 * v, 4 * w>> : v \in {0, U}, w \in AxisProbes(cs, 2)}
Clamp(v) == IF v < -U THEN -U ELSE IF v > U THEN U ELSE v
NormOf(user) == [k \in 1 .. Len(user) |-> Clamp(user[k] \div 4)]
UserSeq(cs) == SetToSeq(UserTuples(cs))

\* ---- invariants on fonts -----------------------------------------------------------------------------------------------
NPg(cs, gid) == Len(GRec(cs, gid).pts) + 4
GvOf(cs, gid) == CASE gid = 1 -> cs.g1 [] gid = 2 -> cs.g2 [] gid = 3 -> cs.g3 [] OTHER -> NoVar

\* the decoder returns the abstract deltas, and consumes exactly the tuple's bytes
DecodeOK(cs) ==
  \A gid \in 1 .. 3 :
    LET gv == GvOf(cs, gid)
        g == GRec(cs, gid)
        np == NPg(cs, gid)
    IN \A k \in 1 .. Len(gv.tuples) :
         LET td == TupleDeltas(TupleData(g, k), gv.tuples[k].private, SharedPts(g), np)
             ab == AbstractTD(gv, gv.tuples[k], np)
         IN td.has = ab.has /\ td.dx = ab.dx /\ td.dy = ab.dy /\ td.used = g.tuples[k].size

\* Instance(default) = default master, exactly
DefaultOK(cs) ==
  \A gid \in 0 .. 3 :
    LET g == GRec(cs, gid)
        a == ARec(cs, gid, [k \in 1 .. cs.naxes |-> 0])
        n == Len(g.pts)
        ev == Eval(g, DefaultPhantom(a), a.coords)
    IN /\ \A i \in 0 .. n - 1 : QIsInt(ev.x[i], g.pts[i + 1][1]) /\ QIsInt(ev.y[i], g.pts[i + 1][2])
       /\ QIsInt(ev.x[n], a.xmin - a.lsb) /\ QIsInt(ev.x[n + 1], a.xmin - a.lsb + a.adv)
       /\ QIsInt(ExactAdvance(a, n, ev), a.adv)
       /\ GlyphJudged(g, a)

\* at the peak of a region that is alone at that point, a referenced point moves by exactly its delta
PeakOK(cs) ==
  LET gv == cs.g1
      g == G1(cs)
      n == Len(g.pts)
  IN \A k \in 1 .. Len(gv.tuples) :
       LET t == gv.tuples[k]
           ev == Eval(g, DefaultPhantom(ARec(cs, 1, t.peak)), t.peak)
           alone == \A j \in 1 .. Len(gv.tuples) : j = k \/ QIsZero(ev.scal[j])
           ab == AbstractTD(gv, t, n + 4)
       IN alone => /\ QEq(ev.scal[k], QOne)
                   /\ \A i \in 0 .. n - 1 : ab.has[i] =>
                         /\ QIsInt(ev.x[i], g.pts[i + 1][1] + ab.dx[i])
                         /\ QIsInt(ev.y[i], g.pts[i + 1][2] + ab.dy[i])

FontOK == (done /\ c.kind = "font") => DecodeOK(c) /\ DefaultOK(c) /\ PeakOK(c)

\* ---- generator -------------------------------------------------------------------------------------------------------------
TupleJson(t) == [data |-> TupleBytes(t), peak |-> t.peak, embedded |-> t.embedded, inter |-> t.inter,
                 start |-> t.start, end |-> t.end, private |-> t.private]
GvJson(gv) == [hasShared |-> gv.shared.present, shared |-> SharedBytes(gv),
               tuples |-> [k \in 1 .. Len(gv.tuples) |-> TupleJson(gv.tuples[k])]]

Expect(cs, user) ==
  LET coords == NormOf(user) IN
  [gid \in 0 .. 3 |-> GlyphExpect(GRec(cs, gid), ARec(cs, gid, coords))]
\* as a sequence indexed by gid + 1
ExpectSeq(cs, user) == LET ex == Expect(cs, user) IN <<ex[0], ex[1], ex[2], ex[3]>>

EmitCase ==
  (done /\ c.kind = "font") =>
    LET us == UserSeq(c) IN
    PrintT(<<"CASE", ToJson([fam |-> c.fam, naxes |-> c.naxes, pts |-> Shape(c).pts, ends |-> Shape(c).ends,
                             comps |-> c.comps, long |-> c.long, metrics |-> c.metrics,
                             nhm |-> c.nhm, cvar |-> c.cvar, xf |-> c.xf,
                             \* phantom points beyond the int16 range: refusing the font is a conformant outcome
                             mayfail |-> c.fam = "extreme",
                             g1 |-> GvJson(c.g1), g2 |-> GvJson(c.g2), g3 |-> GvJson(c.g3),
                             hvar |-> c.hvar, mvar |-> c.mvar,
                             user |-> us, norm |-> [k \in 1 .. Len(us) |-> NormOf(us[k])],
                             expect |-> [k \in 1 .. Len(us) |-> ExpectSeq(c, us[k])]])>>)


\* =====================================================================================================
\* Generation 2 ("font2"): general fonts - any number of glyphs, composites of composites in any glyph
\* order, fvar axes with real ranges, avar segment maps, item variation stores with several sub-tables /
\* LONG_WORDS / arbitrary region index lists, delta-set index maps of every entry format, MVAR record
\* sizes and tag subsets, fvar layouts.  A case carries its own user tuples (design units); the
\* normalised tuple is computed here, with exact integer arithmetic, and bound to Normalize.tla (C13's
\* specification) by the invariant NormOK.
\* =====================================================================================================
NZ == INSTANCE Normalize

\* ---- normalisation (plain integers; every value chosen so that the exact result is a 2.14 integer) ----
DefN(ax, v) ==
  LET cl == IF v < ax[1] THEN ax[1] ELSE IF v > ax[3] THEN ax[3] ELSE v IN
  IF cl < ax[2] THEN -(((ax[2] - cl) * U) \div (ax[2] - ax[1]))
  ELSE IF cl > ax[2] THEN ((cl - ax[2]) * U) \div (ax[3] - ax[2])
  ELSE 0
AvarN(map, n) ==
  IF map = <<>> THEN n
  ELSE LET k == CHOOSE j \in 1 .. Len(map) - 1 : map[j][1] <= n /\ n <= map[j + 1][1] IN
       map[k][2] + ((n - map[k][1]) * (map[k + 1][2] - map[k][2])) \div (map[k + 1][1] - map[k][1])
MapOf(cs, k) == IF cs.avar.present THEN cs.avar.maps[k] ELSE <<>>
Norm2(cs, user) == [k \in 1 .. Len(cs.axes) |-> Clamp(AvarN(MapOf(cs, k), DefN(cs.axes[k], user[k])))]

\* tolerance granted to the tuple an implementation reports: max(1, steepest slope of the map), in units
RECURSIVE MaxSlopeUp(_, _)
MaxSlopeUp(map, k) ==
  IF k >= Len(map) THEN 1
  ELSE LET dt == map[k + 1][2] - map[k][2]
           df == map[k + 1][1] - map[k][1]
           sl == (dt + df - 1) \div df
           rest == MaxSlopeUp(map, k + 1)
       IN IF sl > rest THEN sl ELSE rest
NTol(cs) == [k \in 1 .. Len(cs.axes) |-> MaxSlopeUp(MapOf(cs, k), 1)]

\* the value computed above is the exact value of Normalize.tla (zero error), and conforms to it
NormOK(cs) ==
  \A user \in cs.users : \A k \in 1 .. Len(cs.axes) :
    LET ax == cs.axes[k]
        map == MapOf(cs, k)
        out == Norm2(cs, user)[k]
        n == NZ!DefNorm(ax, user[k])
    IN /\ NZ!ValidAxis(ax) /\ NZ!MapValid(U, map)
       /\ NZ!Verdict(U, ax, cs.avar.present, map, user[k], out) = ""
       /\ IF map = <<>> THEN ZEq(ZMul(ZOf(out), n.den), ZMul(ZOf(U), n.num))
          ELSE \E j \in 1 .. Len(map) - 1 :
                 /\ NZ!SegHolds(U, map, n, j)
                 /\ LET e == NZ!SegExact(U, map, n, j) IN ZEq(ZMul(ZOf(out), e.Q), e.P)

\* ---- glyphs ---------------------------------------------------------------------------------------------
\* pp1: x of the first phantom point of the default master (lsb = xMin - pp1; 0: the font keeps lsb = xMin)
GEmpty(gv, adv) == [kind |-> "empty", pts |-> <<>>, ends |-> <<>>, comps |-> <<>>, gv |-> gv, adv |-> adv, pp1 |-> 0]
GSimple(sh, gv, adv, pp1) == [kind |-> "simple", pts |-> ShapeOf(sh).pts, ends |-> ShapeOf(sh).ends, comps |-> <<>>,
                             gv |-> gv, adv |-> adv, pp1 |-> pp1]
\* comps: sequence of <<glyph id, x offset, y offset>>
GComp(comps, gv, adv, pp1) == [kind |-> "composite", pts |-> <<>>, ends |-> <<>>, comps |-> comps,
                              gv |-> gv, adv |-> adv, pp1 |-> pp1]

\* bounding box of the default master: <<xMin, yMin, xMax, yMax>>, <<>> when nothing is drawn
RECURSIVE DBox(_, _)
DBox(gl, gid) ==
  LET d == gl[gid + 1] IN
  IF d.kind = "simple"
  THEN LET K == 1 .. Len(d.pts) IN
       <<Min({d.pts[k][1] : k \in K}), Min({d.pts[k][2] : k \in K}), Max({d.pts[k][1] : k \in K}), Max({d.pts[k][2] : k \in K})>>
  ELSE IF d.kind = "composite"
  THEN LET CB(k) == DBox(gl, d.comps[k][1])
           bs == {<<CB(k)[1] + d.comps[k][2], CB(k)[2] + d.comps[k][3], CB(k)[3] + d.comps[k][2], CB(k)[4] + d.comps[k][3]>> :
                    k \in {j \in 1 .. Len(d.comps) : CB(j) # <<>>}}
       IN IF bs = {} THEN <<>>
          ELSE <<Min({b[1] : b \in bs}), Min({b[2] : b \in bs}), Max({b[3] : b \in bs}), Max({b[4] : b \in bs})>>
  ELSE <<>>

NG(cs) == Len(cs.glyphs)
G2Rec(cs, gid) ==
  LET d == cs.glyphs[gid + 1] IN
  GlyphRec(d.kind,
           IF d.kind = "simple" THEN [k \in 1 .. Len(d.pts) |-> <<d.pts[k][1], d.pts[k][2]>>]
           ELSE [k \in 1 .. Len(d.comps) |-> <<d.comps[k][2], d.comps[k][3]>>],
           d.ends, d.gv)

\* ---- item variation stores and index maps, general form -----------------------------------------------------
\* sub-table: [ri, rows, long (LONG_WORDS), words (number of leading word columns)]
\* map: [present, format (0: 16-bit count, 1: 32-bit count), fmt (entry format byte), entries <<outer, inner>>]
NoMap2 == [present |-> FALSE, format |-> 0, fmt |-> 0, entries |-> <<>>]
NoHvar2 == [present |-> FALSE, regions |-> <<>>, subs |-> <<>>, adv |-> NoMap2, lsb |-> NoMap2]
NoMvar2 == [present |-> FALSE, regions |-> <<>>, subs |-> <<>>, recs |-> <<>>, recSize |-> 8]

EntrySize(fmt) == ((fmt \div 16) % 4) + 1
EntryBits(fmt) == (fmt % 16) + 1
BytesBE(v, size) == [j \in 1 .. size |-> (v \div P2(8 * (size - j))) % 256]
EncMap(entries, fmt) ==
  FlattenSeq([k \in 1 .. Len(entries) |-> BytesBE(entries[k][1] * P2(EntryBits(fmt)) + entries[k][2], EntrySize(fmt))])
MapRec2(m) == IF ~m.present THEN MapRec(<<>>)
              ELSE [present |-> TRUE, fmt |-> m.fmt, count |-> Len(m.entries), data |-> EncMap(m.entries, m.fmt)]
IvsRec2(regions, subs) ==
  [regions |-> regions, subs |-> [k \in 1 .. Len(subs) |-> [ri |-> subs[k].ri, rows |-> subs[k].rows]]]
HvarRec2(h) ==
  IF ~h.present THEN HvarRec(NoHvar)
  ELSE [present |-> TRUE, ivs |-> IvsRec2(h.regions, h.subs), adv |-> MapRec2(h.adv), lsb |-> MapRec2(h.lsb)]

\* number of leading word columns a set of rows needs
WordsFor(rows) ==
  LET wide == {k \in 1 .. (IF rows = <<>> THEN 0 ELSE Len(rows[1])) : \E r \in 1 .. Len(rows) : rows[r][k] < -128 \/ rows[r][k] > 127}
  IN IF wide = {} THEN 0 ELSE Max(wide)
Sub(ri, rows) == [ri |-> ri, rows |-> rows, long |-> FALSE, words |-> WordsFor(rows)]
SubLong(ri, rows, words) == [ri |-> ri, rows |-> rows, long |-> TRUE, words |-> words]

\* the layout can hold the numbers: deltas fit their columns, map entries fit their format, indices exist
SubFits(sb, nregions) ==
  /\ \A k \in 1 .. Len(sb.ri) : sb.ri[k] < nregions
  /\ sb.words <= Len(sb.ri)
  /\ \A r \in 1 .. Len(sb.rows) :
       /\ Len(sb.rows[r]) = Len(sb.ri)
       /\ \A k \in 1 .. Len(sb.ri) :
            LET v == sb.rows[r][k] IN
            IF sb.long THEN (k <= sb.words \/ (v >= -32768 /\ v <= 32767))
            ELSE (v >= -32768 /\ v <= 32767) /\ (k <= sb.words \/ (v >= -128 /\ v <= 127))
MapFits(m, subs) ==
  ~m.present \/
  /\ Len(m.entries) > 0
  /\ EntryBits(m.fmt) <= 8 * EntrySize(m.fmt)
  /\ \A k \in 1 .. Len(m.entries) :
       LET en == m.entries[k] IN
       /\ en[2] < P2(EntryBits(m.fmt))
       /\ en[1] < P2(8 * EntrySize(m.fmt) - EntryBits(m.fmt)) /\ en[1] < 16384
       /\ en[1] < Len(subs) /\ en[2] < Len(subs[en[1] + 1].rows)
LayoutOK(cs) ==
  /\ cs.hvar.present =>
       /\ \A k \in 1 .. Len(cs.hvar.subs) : SubFits(cs.hvar.subs[k], Len(cs.hvar.regions))
       /\ MapFits(cs.hvar.adv, cs.hvar.subs) /\ MapFits(cs.hvar.lsb, cs.hvar.subs)
       /\ (~cs.hvar.adv.present => Len(cs.hvar.subs[1].rows) >= NG(cs))
  /\ cs.mvar.present =>
       /\ \A k \in 1 .. Len(cs.mvar.subs) : SubFits(cs.mvar.subs[k], Len(cs.mvar.regions))
       /\ cs.mvar.recSize >= 8
       /\ \A k \in 1 .. Len(cs.mvar.recs) :
            LET rc == cs.mvar.recs[k] IN rc.outer < Len(cs.mvar.subs) /\ rc.inner < Len(cs.mvar.subs[rc.outer + 1].rows)

A2Rec(cs, gid, coords) ==
  LET d == cs.glyphs[gid + 1]
      b == DBox(cs.glyphs, gid)
      xm == IF b = <<>> THEN 0 ELSE b[1]
  IN [gid |-> gid, coords |-> coords, hvar |-> HvarRec2(cs.hvar), plain |-> TRUE, kind |-> d.kind,
      adv |-> IF gid < cs.nhm THEN d.adv ELSE cs.glyphs[cs.nhm].adv,
      lsb |-> xm - d.pp1, xmin |-> xm]

\* ---- invariants on font2 cases -------------------------------------------------------------------------------
DecodeGlyphOK(gv, g, np) ==
  \A k \in 1 .. Len(gv.tuples) :
    LET td == TupleDeltas(TupleData(g, k), gv.tuples[k].private, SharedPts(g), np)
        ab == AbstractTD(gv, gv.tuples[k], np)
    IN td.has = ab.has /\ td.dx = ab.dx /\ td.dy = ab.dy /\ td.used = g.tuples[k].size

DefaultGlyphOK(g, a) ==
  LET n == Len(g.pts)
      ev == Eval(g, DefaultPhantom(a), a.coords)
  IN /\ \A i \in 0 .. n - 1 : QIsInt(ev.x[i], g.pts[i + 1][1]) /\ QIsInt(ev.y[i], g.pts[i + 1][2])
     /\ QIsInt(ev.x[n], a.xmin - a.lsb) /\ QIsInt(ev.x[n + 1], a.xmin - a.lsb + a.adv)
     /\ QIsInt(ExactAdvance(a, n, ev), a.adv)
     /\ GlyphJudged(g, a)

\* composites refer to existing glyphs, never (transitively) to themselves, and draw something
RECURSIVE Reaches(_, _, _, _)
Reaches(gl, from, to, fuel) ==
  fuel > 0 /\ gl[from + 1].kind = "composite" /\
  \E k \in 1 .. Len(gl[from + 1].comps) :
     LET ch == gl[from + 1].comps[k][1] IN ch = to \/ Reaches(gl, ch, to, fuel - 1)
TreeOK(cs) ==
  \A gid \in 0 .. NG(cs) - 1 :
    cs.glyphs[gid + 1].kind = "composite" =>
      /\ \A k \in 1 .. Len(cs.glyphs[gid + 1].comps) : cs.glyphs[gid + 1].comps[k][1] \in 0 .. NG(cs) - 1
      /\ ~Reaches(cs.glyphs, gid, gid, NG(cs))
      /\ DBox(cs.glyphs, gid) # <<>>

Font2OK(cs) ==
  /\ TreeOK(cs) /\ LayoutOK(cs) /\ NormOK(cs)
  /\ cs.nhm \in 1 .. NG(cs)
  /\ \A gid \in 0 .. NG(cs) - 1 :
       /\ DecodeGlyphOK(cs.glyphs[gid + 1].gv, G2Rec(cs, gid), Len(G2Rec(cs, gid).pts) + 4)
       /\ DefaultGlyphOK(G2Rec(cs, gid), A2Rec(cs, gid, [k \in 1 .. Len(cs.axes) |-> 0]))
FontOK2 == (done /\ c.kind = "font2") => Font2OK(c)

\* ---- universes --------------------------------------------------------------------------------------------------
Lay0 == [fvAxisSize |-> 20, fvOffset |-> 16, fvInst |-> 0, fvPsid |-> FALSE]
MkCase2(fam, var, axes, avar, glyphs, hvar, mvar, lay, users) ==
  [kind |-> "font2", fam |-> fam, var |-> var, axes |-> axes, avar |-> avar, glyphs |-> glyphs, long |-> FALSE,
   nhm |-> Len(glyphs), hvar |-> hvar, mvar |-> mvar, lay |-> lay, users |-> users]
NoAvar == [present |-> FALSE, maps |-> <<>>]

RowN(base, nr) == [k \in 1 .. nr |-> base + 17 * (k - 1) * (IF k % 2 = 0 THEN -1 ELSE 1)]
MvarRow(j, nr) == CASE j = 1 -> [k \in 1 .. nr |-> 33 * k]
                    [] j = 2 -> [k \in 1 .. nr |-> -301 - k]
                    [] j = 3 -> [k \in 1 .. nr |-> IF k = 1 THEN 7 ELSE 0]
                    [] j = 4 -> [k \in 1 .. nr |-> -15 * k]
                    [] j = 5 -> [k \in 1 .. nr |-> 129]
                    [] OTHER -> [k \in 1 .. nr |-> (IF (j + k) % 2 = 0 THEN 1 ELSE -1) * (11 * j + 3 * k)]
\* value records for the tags `tags` (a set); the delta row of a tag is fixed by its place in MvarTags
MvarRecs(tags) ==
  LET ks == {k \in 1 .. Len(MvarTags) : MvarTags[k] \in tags} IN
  [i \in 1 .. Cardinality(ks) |-> [tag |-> MvarTags[SetToSortSeq(ks, <)[i]], outer |-> 0, inner |-> SetToSortSeq(ks, <)[i] - 1]]
Mvar2(regions, tags, recSize) ==
  [present |-> TRUE, regions |-> regions,
   subs |-> <<Sub([k \in 1 .. Len(regions) |-> k - 1], [j \in 1 .. Len(MvarTags) |-> MvarRow(j, Len(regions))])>>,
   recs |-> MvarRecs(tags), recSize |-> recSize]
AllTags == {MvarTags[k] : k \in 1 .. Len(MvarTags)}

\* -- family "avar": 2 - 3 axes with real ranges, a segment map per axis, user tuples over the product of
\*    {min, between, default, between, max} per axis (plus values outside the range)
AxA == <<100, 400, 900>>
AxB == <<0, 0, 100>>                  \* default = minimum
AxC == <<-20, 0, 10>>
MarksOf(k) == CASE k = 1 -> {100, 250, 400, 650, 900} [] k = 2 -> {0, 25, 50, 100} [] OTHER -> {-20, -10, 0, 5, 10}
FewOf(k)   == CASE k = 1 -> {250, 400, 900} [] k = 2 -> {0, 50, 100} [] OTHER -> {-10, 0, 5}
MapId    == <<<<-U, -U>>, <<0, 0>>, <<U, U>>>>
MapBent  == <<<<-U, -U>>, <<-Hf, -12288>>, <<0, 0>>, <<Hf, Qt>>, <<U, U>>>>
MapSteep == <<<<-U, -U>>, <<-Hf, -2048>>, <<0, 0>>, <<Hf, 14336>>, <<U, U>>>>
MapMany  == <<<<-U, -U>>, <<-12288, -14336>>, <<-Hf, -Hf>>, <<-Qt, -2048>>, <<0, 0>>, <<Qt, 1024>>, <<Hf, Hf>>,
              <<12288, 15360>>, <<U, U>>>>
MapNamed(nm) == CASE nm = "id" -> MapId [] nm = "bent" -> MapBent [] nm = "steep" -> MapSteep
                  [] nm = "many" -> MapMany [] OTHER -> <<>>

R3(a, b, cc) == <<a[1], b[1], cc[1]>>
RegN(na, a, b, cc) == IF na = 2 THEN R2(a, b) ELSE R3(a, b, cc)
AvarGlyphs(na) ==
  LET g1 == [shared |-> [present |-> FALSE, all |-> FALSE, pts |-> <<>>, penc |-> "b"],
             tuples |-> <<MkTuple(RegN(na, P1, Z0, Z0), TRUE, TRUE, TRUE, {}, "A", 9, "b", "min"),
                          MkTuple(RegN(na, Z0, P1, Z0), FALSE, TRUE, FALSE, {0, 3, 5, 6}, "B", 9, "b", "min"),
                          MkTuple(RegN(na, I1, P1, Z0), TRUE, TRUE, FALSE, {1, 2, 4}, "A", 9, "b", "min"),
                          MkTuple(RegN(na, M1, Z0, I1), FALSE, TRUE, FALSE, {0, 2, 5, 6}, "B", 9, "b", "min")>>
                         \o (IF na = 2 THEN <<>>
                             ELSE <<MkTuple(R3(Z0, Z0, P1), TRUE, TRUE, FALSE, {1, 3, 4}, "B", 9, "w", "min"),
                                    MkTuple(R3(Z0, I1, M1), TRUE, TRUE, FALSE, {0, 4}, "A", 9, "b", "min")>>)]
  IN <<GEmpty(NoVar, 400),
       GSimple("C", g1, 600, 0),
       GComp(<<<<1, 25, 5>>, <<1, 225, -45>>>>, CompVar(RegN(na, Z0, P1, Z0), "A", 2), 640, -20),
       GEmpty(Private(<<MkTuple(RegN(na, P1, P1, Z0), TRUE, TRUE, TRUE, {}, "A", 4, "b", "min")>>), 250)>>
AvarHvar(na) ==
  [present |-> TRUE, regions |-> <<RegN(na, P1, Z0, Z0), RegN(na, I1, P1, Z0), RegN(na, Z0, P1, I1)>>,
   subs |-> <<Sub(<<0, 1, 2>>, <<RowN(0, 3), RowN(64, 3), RowN(-9, 3), RowN(31, 3)>>)>>,
   adv |-> [present |-> TRUE, format |-> 0, fmt |-> 3, entries |-> <<<<0, 0>>, <<0, 1>>, <<0, 1>>, <<0, 3>>>>],
   lsb |-> NoMap2]
AvarUsers(na, full, swap) ==
  IF na = 2 THEN {IF swap THEN <<b, a>> ELSE <<a, b>> : a \in MarksOf(1) \cup {50, 1000}, b \in MarksOf(2) \cup {130}}
  ELSE {<<a, b, cc>> : a \in (IF full THEN MarksOf(1) ELSE FewOf(1)), b \in (IF full THEN MarksOf(2) ELSE FewOf(2)),
                        cc \in (IF full THEN MarksOf(3) ELSE FewOf(3))}
\* swap (two axes only): the axis whose default is its minimum comes first
AvarCase(names, hv, full, swap) ==
  LET na == Len(names)
      \* longer fvar axis records, a gap before them and instance records: with the HVAR variants
      lay == IF hv THEN [fvAxisSize |-> 24, fvOffset |-> 20, fvInst |-> 2, fvPsid |-> TRUE] ELSE Lay0
  IN
  MkCase2("avar", "avar", IF na = 2 THEN (IF swap THEN <<AxB, AxA>> ELSE <<AxA, AxB>>) ELSE <<AxA, AxB, AxC>>,
          IF names[1] = "none" THEN NoAvar ELSE [present |-> TRUE, maps |-> [k \in 1 .. na |-> MapNamed(names[k])]],
          AvarGlyphs(na), IF hv THEN AvarHvar(na) ELSE NoHvar2,
          Mvar2(<<RegN(na, P1, P1, Z0), RegN(na, Z0, P1, Z0), RegN(na, M1, Z0, P1)>>, AllTags, 8), lay,
          AvarUsers(na, full, swap))
AvarNames2 == {<<"id", "bent">>, <<"bent", "id">>, <<"bent", "steep">>, <<"steep", "bent">>, <<"empty", "bent">>,
               <<"many", "steep">>, <<"none", "none">>}
AvarNames3 == {<<"id", "bent", "steep">>, <<"steep", "id", "bent">>, <<"bent", "steep", "id">>}
MapNames == {"id", "bent", "steep", "many", "empty"}
AvarCases ==
  IF Thorough
  THEN {AvarCase(<<a, b>>, hv, TRUE, sw) : a \in MapNames, b \in MapNames, hv \in BOOLEAN, sw \in BOOLEAN}
       \cup {AvarCase(<<"none", "none">>, hv, TRUE, sw) : hv \in BOOLEAN, sw \in BOOLEAN}
       \cup {AvarCase(nm, hv, TRUE, FALSE) : nm \in AvarNames3 \cup {<<"many", "many", "bent">>, <<"none", "none", "none">>},
                                             hv \in BOOLEAN}
  ELSE {AvarCase(nm, FALSE, FALSE, FALSE) : nm \in AvarNames2 \cup AvarNames3}
       \cup {AvarCase(<<"bent", "steep">>, TRUE, FALSE, FALSE), AvarCase(<<"many", "id", "steep">>, TRUE, FALSE, FALSE),
              AvarCase(<<"id", "bent">>, FALSE, FALSE, TRUE),
              AvarCase(<<"steep", "many">>, FALSE, FALSE, TRUE)}

\* user tuples on which a segment map of an earlier axis, applied to a later axis, would give another value
AvarSkew(cs) ==
  Cardinality({u \in cs.users : \E j \in 2 .. Len(cs.axes) : \E i \in 1 .. j - 1 :
                  /\ DefN(cs.axes[i], u[i]) = 0
                  /\ AvarN(MapOf(cs, i), DefN(cs.axes[j], u[j])) # AvarN(MapOf(cs, j), DefN(cs.axes[j], u[j]))})
\* which axes sit at the default: every pattern occurs
AvarPatterns(cs) == Cardinality({[k \in 1 .. Len(cs.axes) |-> Norm2(cs, u)[k] = 0] : u \in cs.users})

\* -- families "nest" and "lay": one axis 0 .. 50 .. 100
Ax1 == <<0, 50, 100>>
Users1 == {<<v>> : v \in {0, 25, 50, 75, 100, 130}}

\* family "nest": composites of composites, depth 3, in three glyph orders.  A, B simple; N = A + B;
\* P = N + A; R = P + B.  order[k] = name of glyph k - 1.
NestGlyphs(order, odd, rvar) ==
  LET pos(nm) == (CHOOSE k \in 1 .. Len(order) : order[k] = nm) - 1
      gvA == Private(<<MkTuple(P1, TRUE, TRUE, FALSE, {0, 1, 2, 3, 4}, "A", 9, "b", "min"),
                       MkTuple(M1, TRUE, TRUE, FALSE, {0, 2}, "B", 9, "b", "min")>>)
      gvB == Private(<<MkTuple(P1, FALSE, TRUE, FALSE, {0, 3}, "B", 8, "b", "min"),
                       MkTuple(I4, TRUE, TRUE, FALSE, {1, 2}, "A", 8, "b", "min")>>)
      Def(nm) == CASE nm = "0" -> GEmpty(NoVar, 400)
                   [] nm = "A" -> GSimple("C", gvA, 600, 0)
                   [] nm = "B" -> GSimple("A", gvB, 500, IF odd THEN -7 ELSE 0)
                   [] nm = "N" -> GComp(<<<<pos("A"), 10, 0>>, <<pos("B"), 200, -50>>>>, CompVarPts(P1, {0, 1}, "A", 2), 640, 0)
                   [] nm = "P" -> GComp(<<<<pos("N"), 0, 0>>, <<pos("A"), 400, 20>>>>,
                                        IF odd THEN CompVar(I1, "B", 2) ELSE CompVarPts(I1, {0}, "B", 2), 700, IF odd THEN 13 ELSE 0)
                   [] nm = "R" -> GComp(<<<<pos("P"), -50, 30>>, <<pos("B"), 0, 300>>>>,
                                        IF rvar THEN CompVarPts(M1, {1}, "A", 2) ELSE NoVar, 800, 0)
  IN [k \in 1 .. Len(order) |-> Def(order[k])]
NestOrders == [asc  |-> <<"0", "A", "B", "N", "P", "R">>,
               desc |-> <<"0", "R", "P", "N", "B", "A">>,
               mix  |-> <<"0", "P", "A", "R", "N", "B">>]
NestHvar(kind) ==
  IF kind = "none" THEN NoHvar2
  ELSE [present |-> TRUE, regions |-> <<P1, I4, I1>>,
        subs |-> <<Sub(<<0, 1, 2>>, <<RowN(0, 3), RowN(55, 3), RowN(-200, 3), RowN(31, 3)>>)>>,
        adv |-> [present |-> TRUE, format |-> 0, fmt |-> 3,
                 entries |-> <<<<0, 1>>, <<0, 0>>, <<0, 2>>, <<0, 3>>, <<0, 1>>, <<0, 2>>>>],
        lsb |-> IF kind = "advmap" THEN NoMap2
                ELSE [present |-> TRUE, format |-> 0, fmt |-> 3, entries |-> <<<<0, 0>>, <<0, 2>>, <<0, 3>>, <<0, 1>>>>]]
NestCase(ord, hk, odd, rvar) ==
  MkCase2("nest", ord, <<Ax1>>, NoAvar, NestGlyphs(NestOrders[ord], odd, rvar), NestHvar(hk), NoMvar2, Lay0, Users1)
NestCases ==
  IF Thorough
  THEN {[NestCase(ord, hk, odd, rvar) EXCEPT !.nhm = nh] : ord \in {"asc", "desc", "mix"}, hk \in {"none", "advmap", "bothmap"},
                                      odd \in BOOLEAN, rvar \in BOOLEAN, nh \in {3, 6}}
  ELSE {NestCase(ord, hk, FALSE, ord = "mix") : ord \in {"asc", "desc", "mix"}, hk \in {"none", "advmap", "bothmap"}}
       \cup {NestCase("mix", "none", TRUE, FALSE),
              \* numberOfHMetrics < numGlyphs: the last three glyphs take the advance of glyph 2
              [NestCase("desc", "none", FALSE, TRUE) EXCEPT !.nhm = 3], [NestCase("mix", "advmap", TRUE, TRUE) EXCEPT !.nhm = 3]}

\* composite components that are composites themselves, by direction of the reference
NestRefs(cs, fwd) ==
  Cardinality({<<gid, k>> \in (0 .. NG(cs) - 1) \X (1 .. 4) :
                 /\ cs.glyphs[gid + 1].kind = "composite" /\ k <= Len(cs.glyphs[gid + 1].comps)
                 /\ LET ch == cs.glyphs[gid + 1].comps[k][1] IN
                    cs.glyphs[ch + 1].kind = "composite" /\ (IF fwd THEN ch > gid ELSE ch < gid)})
RECURSIVE DepthOf(_, _)
DepthOf(gl, gid) ==
  IF gl[gid + 1].kind # "composite" THEN 0
  ELSE 1 + Max({DepthOf(gl, gl[gid + 1].comps[k][1]) : k \in 1 .. Len(gl[gid + 1].comps)})
NestDepth(cs) == Max({DepthOf(cs.glyphs, gid) : gid \in 0 .. NG(cs) - 1})

\* family "lay": table layouts the formats allow, one at a time around a base font (all of them at once
\* in the thorough tier)
LayGlyphs ==
  <<GEmpty(NoVar, 400),
    GSimple("D", MetricTuples(1, FALSE, "A"), 600, 0),
    GComp(<<<<1, -120, 300>>, <<1, 80, 250>>>>, CompVar(P1, "A", 2), 640, -20),
    GEmpty(Private(<<MkTuple(P1, TRUE, TRUE, TRUE, {}, "A", 4, "b", "min")>>), 250)>>
LayRegions == <<P1, I4, I1, M1>>
HRows == <<RowN(0, 3), RowN(40, 3), RowN(-25, 3), RowN(130, 3)>>
Map2(fmt, format, entries) == [present |-> TRUE, format |-> format, fmt |-> fmt, entries |-> entries]
\* one sub-table: plain / LONG_WORDS / region indices that are not 0 .. k-1
HvOne(kind) ==
  [present |-> TRUE, regions |-> LayRegions,
   subs |-> <<CASE kind = "long" -> SubLong(<<0, 1, 2>>, HRows, 1)
                [] kind = "long0" -> SubLong(<<0, 1, 2>>, HRows, 0)
                [] kind = "ri" -> Sub(<<3, 0, 2>>, HRows)
                [] kind = "ri1" -> Sub(<<2>>, <<<<5>>, <<-90>>, <<127>>, <<-128>>>>)
                [] OTHER -> Sub(<<0, 1, 2>>, HRows)>>,
   adv |-> NoMap2, lsb |-> NoMap2]
\* one sub-table with maps (outer index 0): every entry size
HvMap1(fmt, format, lsbToo) ==
  [HvOne("plain") EXCEPT !.adv = Map2(fmt, format, <<<<0, 2>>, <<0, 0>>, <<0, 3>>>>),
                         !.lsb = IF lsbToo THEN Map2(fmt, 0, <<<<0, 1>>, <<0, 3>>, <<0, 0>>, <<0, 2>>>>) ELSE NoMap2]
\* three sub-tables (the second with LONG_WORDS), maps that point across them
HvMulti(fmt, format, lsbToo) ==
  [present |-> TRUE, regions |-> LayRegions,
   subs |-> <<Sub(<<0, 1>>, <<RowN(12, 2), RowN(-300, 2)>>),
              SubLong(<<2>>, <<<<70>>, <<-45>>, <<1000>>>>, 1),
              Sub(<<1, 3, 0>>, <<RowN(-60, 3), RowN(25, 3)>>)>>,
   adv |-> Map2(fmt, format, <<<<1, 2>>, <<0, 1>>, <<2, 0>>, <<2, 1>>>>),
   lsb |-> IF lsbToo THEN Map2(fmt, 0, <<<<0, 0>>, <<2, 1>>, <<1, 0>>>>) ELSE NoMap2]
\* entry formats: (entry size - 1) * 16 + (inner bits - 1)
FmtsMulti == {3, 1, 23, 43, 63, 51, 17}      \* 1 byte 4 / 2 bits; 2 bytes 8 bits; 3 bytes 12; 4 bytes 16; 4 bytes 4; 2 bytes 2
LayMvarSets == [all |-> AllTags, ends |-> {"cpht", "xhgt"}, mid |-> {"hcrs", "hdsc", "strs"}, one |-> {"undo"}]
LayMvar(set, size) == Mvar2(<<P1, M1>>, LayMvarSets[set], size)
\* MVAR whose records point into two sub-tables
LayMvar2Subs(size) ==
  [present |-> TRUE, regions |-> <<P1, M1, I1>>,
   subs |-> <<Sub(<<0, 1>>, [j \in 1 .. MvarHalf |-> MvarRow(j, 2)]),
              SubLong(<<2, 0>>, [j \in 1 .. Len(MvarTags) - MvarHalf |-> MvarRow(j + MvarHalf, 2)], 1)>>,
   recs |-> [k \in 1 .. Len(MvarTags) |-> [tag |-> MvarTags[k], outer |-> (k - 1) \div MvarHalf, inner |-> (k - 1) % MvarHalf]],
   recSize |-> size]
LayCase(var, hvar, mvar, lay) == MkCase2("lay", var, <<Ax1>>, NoAvar, LayGlyphs, hvar, mvar, lay, Users1)
HvBase == HvMap1(3, 0, TRUE)
LayCases ==
  LET mv == {<<"all", 8>>, <<"all", 10>>, <<"all", 12>>, <<"ends", 12>>, <<"mid", 10>>, <<"one", 12>>, <<"mid", 8>>}
      mvT == {"all", "ends", "mid", "one"} \X {8, 10, 12, 16}
      lays == {[Lay0 EXCEPT !.fvAxisSize = 24], [Lay0 EXCEPT !.fvOffset = 20], [Lay0 EXCEPT !.fvInst = 2],
               [Lay0 EXCEPT !.fvInst = 3, !.fvPsid = TRUE],
               [fvAxisSize |-> 28, fvOffset |-> 24, fvInst |-> 2, fvPsid |-> TRUE]}
  IN {LayCase("mvar", HvBase, LayMvar(m[1], m[2]), Lay0) : m \in (IF Thorough THEN mvT ELSE mv)}
     \cup {LayCase("mvar2", HvBase, LayMvar2Subs(sz), Lay0) : sz \in (IF Thorough THEN {8, 10, 12} ELSE {10})}
     \cup {LayCase("hvone", HvOne(k), LayMvar("all", 8), Lay0) : k \in {"plain", "long", "long0", "ri", "ri1"}}
     \cup {LayCase("hvmap", HvMap1(f, fm, lt), NoMvar2, Lay0) :
             f \in {31, 3, 7}, fm \in (IF Thorough THEN {0, 1} ELSE {0}), lt \in (IF Thorough THEN BOOLEAN ELSE {TRUE})}
     \cup {LayCase("hvmulti", HvMulti(f, fm, lt), NoMvar2, Lay0) :
             f \in FmtsMulti, fm \in (IF Thorough THEN {0, 1} ELSE {0}), lt \in (IF Thorough THEN BOOLEAN ELSE {TRUE})}
     \cup {LayCase("hvmulti", HvMulti(3, 1, FALSE), NoMvar2, Lay0)}
     \cup {LayCase("fvar", HvBase, LayMvar("all", 8), l) : l \in lays}
     \cup (IF Thorough
           THEN {LayCase("all", HvMulti(f, 1, TRUE), LayMvar2Subs(sz), l) : f \in {1, 43}, sz \in {10, 12}, l \in lays}
           ELSE {LayCase("all", HvMulti(43, 1, TRUE), LayMvar2Subs(12), [fvAxisSize |-> 28, fvOffset |-> 24, fvInst |-> 2, fvPsid |-> TRUE])})

Font2Cases == AvarCases \cup NestCases \cup LayCases

\* ---- generator, font2 ------------------------------------------------------------------------------------------------
SubJson(sb) == [ri |-> sb.ri, rows |-> sb.rows, long |-> sb.long, words |-> sb.words]
MapJson(m) == [present |-> m.present, format |-> m.format, fmt |-> m.fmt, count |-> Len(m.entries),
               data |-> IF m.present THEN EncMap(m.entries, m.fmt) ELSE <<>>]
Glyph2Json(d) == [kind |-> d.kind, pts |-> d.pts, ends |-> d.ends, comps |-> d.comps, gv |-> GvJson(d.gv),
                  adv |-> d.adv, pp1 |-> d.pp1]
BoolN(b) == IF b THEN 1 ELSE 0
Vac2(cs) ==
  CASE cs.fam = "avar" ->
         [avar_fonts |-> BoolN(cs.avar.present), avar_skew_tuples |-> AvarSkew(cs),
          avar_all_default_patterns |-> BoolN(AvarPatterns(cs) = P2(Len(cs.axes))),
          avar_axes3 |-> BoolN(Len(cs.axes) = 3), avar_user_tuples |-> Cardinality(cs.users),
          avar_maps_knots0 |-> BoolN(cs.avar.present /\ \E k \in 1 .. Len(cs.axes) : Len(cs.avar.maps[k]) = 0),
          avar_maps_knots3 |-> BoolN(cs.avar.present /\ \E k \in 1 .. Len(cs.axes) : Len(cs.avar.maps[k]) = 3),
          avar_maps_knots9 |-> BoolN(cs.avar.present /\ \E k \in 1 .. Len(cs.axes) : Len(cs.avar.maps[k]) = 9),
          avar_with_hvar |-> BoolN(cs.hvar.present),
          avar_fvar_axis_size_gt20 |-> BoolN(cs.lay.fvAxisSize > 20 /\ Len(cs.axes) > 1)]
    [] cs.fam = "nest" ->
         [nest_forward_refs |-> NestRefs(cs, TRUE), nest_backward_refs |-> NestRefs(cs, FALSE),
          nest_depth3 |-> BoolN(NestDepth(cs) >= 3),
          nest_forward_no_hvar |-> BoolN(NestRefs(cs, TRUE) > 0 /\ ~cs.hvar.present),
          nest_forward_hvar_no_lsbmap |-> BoolN(NestRefs(cs, TRUE) > 0 /\ cs.hvar.present /\ ~cs.hvar.lsb.present),
          nest_forward_hvar_lsbmap |-> BoolN(NestRefs(cs, TRUE) > 0 /\ cs.hvar.present /\ cs.hvar.lsb.present),
          nest_short_hmtx |-> BoolN(cs.nhm < NG(cs)),
          nest_unvaried_composite |-> BoolN(\E k \in 1 .. NG(cs) : cs.glyphs[k].kind = "composite" /\ cs.glyphs[k].gv.tuples = <<>>)]
    [] OTHER ->
         [lay_mvar_rec8 |-> BoolN(cs.mvar.present /\ cs.mvar.recSize = 8),
          lay_mvar_rec10 |-> BoolN(cs.mvar.present /\ cs.mvar.recSize = 10),
          lay_mvar_rec12 |-> BoolN(cs.mvar.present /\ cs.mvar.recSize = 12),
          lay_mvar_big_several_records |-> BoolN(cs.mvar.present /\ cs.mvar.recSize > 8 /\ Len(cs.mvar.recs) > 1),
          lay_mvar_absent_tags |-> IF cs.mvar.present THEN Len(MvarTags) - Len(cs.mvar.recs) ELSE 0,
          lay_mvar_first_tag_absent |-> BoolN(cs.mvar.present /\ \A k \in 1 .. Len(cs.mvar.recs) : cs.mvar.recs[k].tag # "cpht"),
          lay_mvar_two_subs |-> BoolN(cs.mvar.present /\ Len(cs.mvar.subs) > 1),
          lay_hvar_long_words |-> BoolN(\E k \in 1 .. Len(cs.hvar.subs) : cs.hvar.subs[k].long),
          lay_hvar_ri_not_prefix |-> BoolN(\E k \in 1 .. Len(cs.hvar.subs) :
                                            cs.hvar.subs[k].ri # [j \in 1 .. Len(cs.hvar.subs[k].ri) |-> j - 1]),
          lay_hvar_several_subs |-> BoolN(Len(cs.hvar.subs) > 1),
          lay_map_entry1 |-> BoolN(cs.hvar.adv.present /\ EntrySize(cs.hvar.adv.fmt) = 1),
          lay_map_entry2 |-> BoolN(cs.hvar.adv.present /\ EntrySize(cs.hvar.adv.fmt) = 2),
          lay_map_entry3 |-> BoolN(cs.hvar.adv.present /\ EntrySize(cs.hvar.adv.fmt) = 3),
          lay_map_entry4 |-> BoolN(cs.hvar.adv.present /\ EntrySize(cs.hvar.adv.fmt) = 4),
          lay_map_format1 |-> BoolN(cs.hvar.adv.present /\ cs.hvar.adv.format = 1),
          lay_map_outer_nonzero |-> BoolN(cs.hvar.adv.present /\ \E k \in 1 .. Len(cs.hvar.adv.entries) : cs.hvar.adv.entries[k][1] > 0),
          lay_fvar_axis_size_gt20 |-> BoolN(cs.lay.fvAxisSize > 20),
          lay_fvar_instances |-> BoolN(cs.lay.fvInst > 0),
          lay_fvar_offset_gt16 |-> BoolN(cs.lay.fvOffset > 16)]

EmitCase2 ==
  (done /\ c.kind = "font2") =>
    LET us == SetToSeq(c.users)
        zero == [k \in 1 .. Len(c.axes) |-> 0]
    IN
    PrintT(<<"CASE", ToJson([fam |-> c.fam, var |-> c.var, gen |-> 2, naxes |-> Len(c.axes), axes |-> c.axes,
                             avar |-> c.avar, glyphs |-> [k \in 1 .. NG(c) |-> Glyph2Json(c.glyphs[k])],
                             boxes |-> [k \in 1 .. NG(c) |-> DBox(c.glyphs, k - 1)],
                             long |-> c.long, nhm |-> c.nhm, mayfail |-> FALSE, lay |-> c.lay,
                             hvar |-> [present |-> c.hvar.present, regions |-> c.hvar.regions,
                                       subs |-> [k \in 1 .. Len(c.hvar.subs) |-> SubJson(c.hvar.subs[k])],
                                       adv |-> MapJson(c.hvar.adv), lsb |-> MapJson(c.hvar.lsb)],
                             mvar |-> [present |-> c.mvar.present, regions |-> c.mvar.regions,
                                       subs |-> [k \in 1 .. Len(c.mvar.subs) |-> SubJson(c.mvar.subs[k])],
                                       recs |-> c.mvar.recs, recSize |-> c.mvar.recSize],
                             vac |-> Vac2(c),
                             user |-> us, norm |-> [k \in 1 .. Len(us) |-> Norm2(c, us[k])], ntol |-> NTol(c),
                             expect |-> [k \in 1 .. Len(us) |->
                                           [g \in 1 .. NG(c) |-> GlyphExpect(G2Rec(c, g - 1), A2Rec(c, g - 1, Norm2(c, us[k])))]]])>>)

\* one line per lemma state, for the vacuity counters of the driver
EmitLemma ==
  (done /\ c.kind \notin {"font", "font2"}) => PrintT(<<"LEMMA", c.kind>>)

---------------------------------------------------------------------------
\* Tier "gen2" (development only, MC_Variation_gen2.cfg): the generation-2 fonts of the quick tier alone
Cases == IF Tier = "gen2" THEN Font2Cases
         ELSE FontCases \cup Font2Cases \cup ScalarLemmaCases \cup IupLemmaCases \cup CodecLemmaCases

Init == /\ c \in Cases
        /\ done = FALSE
Next == /\ ~done /\ done' = TRUE /\ UNCHANGED c
Spec == Init /\ [][Next]_vars
=============================================================================
