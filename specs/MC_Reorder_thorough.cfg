CONSTANTS
  Tier = "thorough"
SPECIFICATION Spec
INVARIANTS Agree Permutes Design Emit
CHECK_DEADLOCK FALSE
