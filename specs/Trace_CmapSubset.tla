-------------------------- MODULE Trace_CmapSubset --------------------------
(***************************************************************************)
(* Trace judge for the subsetter's cmap (impl -> spec, C08).  Judging      *)
(* style: Next is always enabled, a non-conforming event prints a MISMATCH *)
(* line, the rest of the trace is still examined.                          *)
(*                                                                         *)
(*   Subset   one call of subset::subset / prince::subset on a real font:  *)
(*     a.enc, a.first   encoding of the source's selected subtable and     *)
(*                      OS/2.usFirstCharIndex (32 when absent)             *)
(*     a.target         "Unrestricted" | "MacRoman"                        *)
(*     a.ids            the glyph id list (0 first, no duplicates)         *)
(*     o.st             "ok" | "nocmap" | "badcmap:.." | "err:.." | "panic:.." *)
(*     o.out            [p, e, tab]: the written record as decoded by the  *)
(*                      harness' independent reader (vocabulary of Cmap)   *)
(*     o.probes         <<x, g, pos>>: character, the glyph the source's   *)
(*                      selected subtable gives it, the 0-based position   *)
(*                      of g in a.ids (-1: g = 0 or not listed)            *)
(*     o.font           aligned with o.probes: Font::lookup_glyph_index on *)
(*                      the subset font (-5: not looked up)                *)
(* The judge checks the position claims against a.ids, evaluates the       *)
(* written record with the readers of module Cmap (OutMap) and demands     *)
(* SubsetCmapOK's right-hand side (ExpectNew) for every probe, in both     *)
(* views.                                                                  *)
(***************************************************************************)
EXTENDS CmapSubset, Json, IOUtils

Rec == ndJsonDeserialize(IOEnv.TRACE)

VARIABLE l

\* at most n elements of a set of tuples, the smallest by first component
Few(S, n) == {x \in S : Cardinality({y \in S : y[1] < x[1]}) < n}

IdsOK(ids) == Len(ids) >= 1 /\ ids[1] = 0 /\ Cardinality(ToSet(ids)) = Len(ids)

\* the harness' claim "g is at position pos of ids" / "g is not listed"
PosOK(ids, idset, g, pos) ==
  IF pos >= 0 THEN pos < Len(ids) /\ ids[pos + 1] = g /\ g # 0
  ELSE g = 0 \/ g \notin idset

\* the source glyph of a probe under the currency reading v (a Mac Roman source knows code 0xDB
\* as one of U+00A4 / U+20AC; the harness reports the glyph of code 0xDB for both)
SrcG(e, pr, v) ==
  IF e.a.enc = "AppleRoman" /\ pr[1] \in MacCurrencyReadings /\ pr[1] # v THEN 0 ELSE pr[2]
Want(e, pr, v) == ExpectNew(e.a.target, pr[1], SrcG(e, pr, v) # 0 /\ pr[3] >= 0, pr[3])

NA == -5        \* o.font entry of a probe that was not looked up through Font

\* <<character, allowed glyphs, glyph in the subset font, view>>
SubBadV(e, v) ==
  LET rec == e.o.out IN
  {<<pr[1], Want(e, pr, v), OutMapV(rec, pr[1], v), "sub">> :
     pr \in {q \in ToSet(e.o.probes) : OutMapV(rec, q[1], v) \notin Want(e, q, v)}}
SubBad(e) ==
  LET a == SubBadV(e, 164) IN
  IF a = {} THEN {}
  ELSE LET b == SubBadV(e, 8364) IN IF Cardinality(b) < Cardinality(a) THEN b ELSE a

\* o.font is aligned with o.probes (the view is not taken for the currency characters)
FontBad(e) ==
  LET enc == EncodingOf(e.o.out) IN
  {<<e.o.probes[k][1], Want(e, e.o.probes[k], 164), e.o.font[k], "font">> :
     k \in {j \in 1 .. Len(e.o.probes) : /\ e.o.font[j] # NA
                                          /\ FontViewApplies(enc, e.o.probes[j][1])
                                          /\ e.o.font[j] \notin Want(e, e.o.probes[j], 164)}}

ClaimsBad(e) ==
  LET idset == ToSet(e.a.ids) IN
  {pr \in ToSet(e.o.probes) : ~PosOK(e.a.ids, idset, pr[2], pr[3])}

Class(b) ==
  LET want == b[2]  got == b[3] IN
  IF got < 0 THEN "unreadable-or-panic"
  ELSE IF \E w \in want : w > 255 /\ got = w % 256 THEN "gid-mod-256"
  ELSE IF got = 0 THEN "lost"
  ELSE IF want = {0} THEN "spurious"
  ELSE "wrong"

Report(e, bad) ==
  IF bad = {} THEN TRUE
  ELSE PrintT(<<"MISMATCH", ToJson([i |-> e.i, case |-> e.case, enc |-> e.a.enc, first |-> e.a.first,
                                    target |-> e.a.target,
                                    out |-> [p |-> e.o.out.p, e |-> e.o.out.e, fmt |-> e.o.out.tab.fmt],
                                    n |-> Cardinality(bad),
                                    classes |-> SetToSeq({<<b[4], Class(b), b[1]>> : b \in Few(bad, 40)}),
                                    bad |-> SetToSeq(Few(bad, 8))])>>)

Judge(e) ==
  IF ~IdsOK(e.a.ids) \/ ClaimsBad(e) # {} \/ (e.o.st = "ok" /\ Len(e.o.font) # Len(e.o.probes))
  THEN PrintT(<<"BADEVENT", ToJson([i |-> e.i, case |-> e.case, claims |-> SetToSeq(Few(ClaimsBad(e), 5))])>>)
  ELSE IF e.o.st = "ok" THEN Report(e, SubBad(e) \cup FontBad(e))
  ELSE IF SubSeq(e.o.st, 1, 4) = "err:" THEN PrintT(<<"FAILED", ToJson([i |-> e.i, case |-> e.case, st |-> e.o.st])>>)
  ELSE \* panic, no cmap, unreadable cmap: every probe that must map somewhere is lost
       PrintT(<<"MISMATCH", ToJson([i |-> e.i, case |-> e.case, enc |-> e.a.enc, first |-> e.a.first,
                                    target |-> e.a.target, out |-> [p |-> -1, e |-> -1, fmt |-> -1],
                                    n |-> Cardinality({pr \in ToSet(e.o.probes) : 0 \notin Want(e, pr, 164)}),
                                    classes |-> <<<<"call", e.o.st, -1>>>>, bad |-> <<>>])>>)

TInit == l = 1
TNext ==
  /\ l <= Len(Rec)
  /\ l' = l + 1
  /\ LET e == Rec[l] IN
     IF e.ev = "Subset" THEN Judge(e) ELSE PrintT(<<"UNMODELLED", e.ev>>)
TSpec == TInit /\ [][TNext]_l

AllConsumed == TLCGet("stats").diameter = Len(Rec) + 1
=============================================================================
