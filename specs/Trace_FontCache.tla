--------------------------- MODULE Trace_FontCache ---------------------------
(***************************************************************************)
(* Trace judge for C03 (impl -> spec), stateful.  Events of one case are   *)
(* the calls made on ONE Font object, in order; each carries `differs`:    *)
(* whether the value returned differed from the value the same call        *)
(* returns on a freshly loaded font (measured by the harness, by value).   *)
(* The judge replays the calls through FontCache!Step with the code's      *)
(* cache keys (CodeKeys = TRUE, HasFV = HasImages = TRUE: the most         *)
(* pessimistic font; no failed load is stored, ReadCache and lookup cache  *)
(* keyed by absolute position and by index, every change of the image      *)
(* filter forgets the selected image tables, cached_lookups is unbounded,  *)
(* no working state outlives a call and nothing that depends on the tuple  *)
(* is memoised, as the code does).  The "Init" event of a case carries the font         *)
(* descriptor (family, damaged tables, layout of the lookups whose parsing *)
(* is modelled, image tables).  Histories may be of any length: the        *)
(* model's caches are unbounded maps.                                      *)
(*   differs = FALSE                    : conforms (the property)          *)
(*   differs = TRUE and the model has a stale read : IMPURE line naming    *)
(*        the slot(s) - a violation of C03 explained by the cache model    *)
(*   differs = TRUE and the model reads nothing stale : MISMATCH - a       *)
(*        violation the cache model does not explain                       *)
(* A "probe" event is evaluated on the current state without advancing it. *)
(* An event may carry `obs`: what the FRESH font answered, in the model's  *)
(* vocabulary (strike family: size and bit depth of the bitmap found;      *)
(* pairs family: kerning per glyph).  It must be what the model's font     *)
(* semantics gives (UNBOUND otherwise: the model does not describe the     *)
(* font the harness built, or allsorts selects otherwise).                 *)
(***************************************************************************)
EXTENDS FontCache, Json, IOUtils, SequencesExt

Rec == ndJsonDeserialize(IOEnv.TRACE)
VARIABLES l, st
tvars == <<l, st>>

TInit == l = 1 /\ st = InitState

\* the descriptor as recorded (fam, damaged, lookups, imgs, sub and, for fonts of the var family, fv)
FontOf(e) == e.a.font

TNext ==
  /\ l <= Len(Rec)
  /\ l' = l + 1
  /\ LET e == Rec[l] IN
     IF e.ev = "Init" THEN st' = InitStateOf(FontOf(e))
     ELSE IF e.ev = "Repeat"
     THEN \* a pure operation (subset, instance, whole_font, decoding) run several times, in this
          \* and in another process: all runs must give the same bytes (digest + length)
          /\ st' = st
          /\ IF \A j, k \in 1 .. Len(e.o.digests) : e.o.digests[j] = e.o.digests[k] THEN TRUE
             ELSE PrintT(<<"MISMATCH", ToJson([i |-> e.i, case |-> e.case, call |-> e.a])>>)
     ELSE LET r == Step(st, e.a.call) IN
          /\ st' = IF e.a.probe THEN st ELSE r.st
          \* the fresh font's answer, where the harness reports it in the model's vocabulary, is the one the model's
          \* font semantics gives (strike selection, first sub-table that handles a pair)
          /\ IF "obs" \in DOMAIN e.o
             THEN IF e.o.obs = ModelObs(st, e.a.call) THEN TRUE
                  ELSE PrintT(<<"UNBOUND", ToJson([i |-> e.i, case |-> e.case, call |-> e.a.call, obs |-> e.o.obs,
                                                   model |-> ModelObs(st, e.a.call)])>>)
             ELSE TRUE
          /\ IF ~e.o.differs THEN TRUE
             ELSE IF r.stale # {}
                  THEN PrintT(<<"IMPURE", ToJson([i |-> e.i, case |-> e.case, call |-> e.a.call,
                                                  causes |-> CausesSeq(r.stale)])>>)
                  ELSE PrintT(<<"MISMATCH", ToJson([i |-> e.i, case |-> e.case, call |-> e.a.call])>>)

TSpec == TInit /\ [][TNext]_tvars
AllConsumed == TLCGet("stats").diameter = Len(Rec) + 1
=============================================================================
