CONSTANTS
  NG = 5
  MaxDeg = 2
  MaxEdges = 3
  NHMs <- NHMsMid
SPECIFICATION Spec
INVARIANTS DesignOK EmitCase
CHECK_DEADLOCK FALSE
