------------------------------- MODULE MC_Glyf -------------------------------
(***************************************************************************)
(* Bounded exploration of Glyf and generator of replay cases (C16).        *)
(*                                                                         *)
(* Generator pattern: Init picks one case of the bounded universe, the     *)
(* single step marks it done; the invariant checks the design properties   *)
(* of the specification on that case and prints one CASE line with the     *)
(* glyph records (real glyf bytes, produced by the Encode operators) and the   *)
(* commands the specification prescribes.  The harness puts the records    *)
(* into a glyf/loca pair, drives allsorts' outline visitor and logs what   *)
(* it delivered; Trace_Glyf judges the log (spec -> impl).                 *)
(*                                                                         *)
(* Universe                                                                *)
(*   simple glyphs:  every on/off pattern of contours of 1..5 points, one  *)
(*     to three contours (four contours of two points), coordinates whose  *)
(*     deltas cover zero / one byte +- / 255,256 boundary / two bytes on   *)
(*     both axes, points at the corners of the signed 16-bit range, eight  *)
(*     encodings of the same points (short, same, zero deltas written as   *)
(*     short 0 with either sign or as words, repeat runs: none / maximal - *)
(*     spanning contours - / count 0 / split, OVERLAP_SIMPLE on the first  *)
(*     flag), with and without instructions;                               *)
(*   records with numberOfContours = 0 (header + 0..n instruction bytes),  *)
(*     visited themselves and as components;                               *)
(*   composites: trees of depth 1..3 over two leaves (consecutive          *)
(*     off-curve points, an all-off-curve contour), every transform kind   *)
(*     (none, scale, x/y scale, two-by-two: rotation, shear, symmetric,    *)
(*     general; negative and >1 factors), byte and word offsets, extra     *)
(*     flag bits; SCALED_COMPONENT_OFFSET under every diagonal matrix      *)
(*     (alone, with UNSCALED_COMPONENT_OFFSET, under a parent transform,   *)
(*     on a composite child); components placed by point numbers (byte    *)
(*     and word numbers, six matrices, on a point of the first or of the   *)
(*     second component, the moved component simple or composite, under a  *)
(*     parent transform); WE_HAVE_INSTRUCTIONS on the first / last         *)
(*     component; chains up to the nesting bound and beyond; cycles.       *)
(***************************************************************************)
EXTENDS Glyf, Json, TLC

CONSTANTS LongNs,         \* point counts of the long single-flag contours (repeat-count byte boundary 255/256)
          L1, L2, L3,     \* contour lengths used for glyphs of one, two, three contours
          Variants,       \* coordinate variants
          TK2, TK3,       \* indices (into TKs) of the transforms used at the levels of depth-2 / depth-3 trees
          ZeroInstr,      \* instruction lengths of the records with numberOfContours = 0
          L4              \* contour lengths of the glyphs of four contours

VARIABLES cs, done
vars == <<cs, done>>

---------------------------------------------------------------------------
\* ---- simple glyphs ----------------------------------------------------------
AllPats(L) == UNION {[1 .. n -> BOOLEAN] : n \in L}

Modes == <<
  [short |-> TRUE,  same |-> TRUE,  zero |-> "word",   rep |-> "max",   ovl |-> FALSE],
  [short |-> FALSE, same |-> FALSE, zero |-> "word",   rep |-> "none",  ovl |-> FALSE],
  [short |-> TRUE,  same |-> FALSE, zero |-> "short+", rep |-> "split", ovl |-> FALSE],
  [short |-> TRUE,  same |-> FALSE, zero |-> "short-", rep |-> "zero",  ovl |-> FALSE],
  [short |-> FALSE, same |-> TRUE,  zero |-> "word",   rep |-> "max",   ovl |-> FALSE],
  [short |-> TRUE,  same |-> TRUE,  zero |-> "word",   rep |-> "none",  ovl |-> FALSE],
  \* OVERLAP_SIMPLE on the first flag (it breaks the first repeat run, nothing else)
  [short |-> TRUE,  same |-> TRUE,  zero |-> "word",   rep |-> "max",   ovl |-> TRUE],
  [short |-> FALSE, same |-> FALSE, zero |-> "word",   rep |-> "split", ovl |-> TRUE] >>
BaseModes == 1 .. 6
OvlModes == {7, 8}

PalX == <<0, 5, -7, 300, -400, 255, -255, 256, -256, 0, 1, -1>>
PalY == <<9, 0, -300, 0, 6, -255, 400, -1, 255, -8, 0, 256>>
DX(k, v) == PalX[((5 * k + 3 * v) % 12) + 1]
DY(k, v) == LET d == PalY[((7 * k + v) % 12) + 1] IN IF d = 0 /\ DX(k, v) = 0 THEN 11 ELSE d
\* variant 9: up to four points at the corners of the signed 16-bit range (every delta still fits a word)
ExtX == <<-32768, -1, 32766, 32767>>
ExtY == <<32767, 0, -32767, -32768>>
RECURSIVE AbsX(_, _), AbsY(_, _)
AbsX(k, v) == IF v = 9 THEN ExtX[k] ELSE IF k = 0 THEN 0 ELSE AbsX(k - 1, v) + DX(k, v)
AbsY(k, v) == IF v = 9 THEN ExtY[k] ELSE IF k = 0 THEN 0 ELSE AbsY(k - 1, v) + DY(k, v)

Before(pats, i) == Len(Flatten(SubSeq(pats, 1, i - 1), 1))
ContoursOf(pats, v) ==
  [i \in 1 .. Len(pats) |->
     [j \in 1 .. Len(pats[i]) |-> [x |-> AbsX(Before(pats, i) + j, v), y |-> AbsY(Before(pats, i) + j, v),
                                   on |-> pats[i][j]]]]
InstrOf(v) == IF v = 1 THEN <<176, 1, 45>> ELSE <<>>

---------------------------------------------------------------------------
\* ---- composites -------------------------------------------------------------
LeafA == << <<[x |-> 0, y |-> 0, on |-> TRUE], [x |-> 40, y |-> 80, on |-> FALSE],
              [x |-> 120, y |-> 80, on |-> FALSE], [x |-> 160, y |-> 0, on |-> TRUE]>> >>
LeafB == << <<[x |-> 8, y |-> 8, on |-> FALSE], [x |-> 72, y |-> 8, on |-> FALSE], [x |-> 40, y |-> 64, on |-> FALSE]>>,
            <<[x |-> 200, y |-> -16, on |-> FALSE], [x |-> 240, y |-> 40, on |-> TRUE], [x |-> 208, y |-> 48, on |-> TRUE]>> >>

Offs == << [words |-> FALSE, a1 |-> 0, a2 |-> 0], [words |-> FALSE, a1 |-> 10, a2 |-> -20],
           [words |-> FALSE, a1 |-> -128, a2 |-> 127], [words |-> TRUE, a1 |-> 300, a2 |-> -200],
           [words |-> TRUE, a1 |-> 5, a2 |-> 6] >>
Mats == << [kind |-> "none",  xx |-> 16384,  yx |-> 0,      xy |-> 0,      yy |-> 16384],
           [kind |-> "scale", xx |-> 8192,   yx |-> 0,      xy |-> 0,      yy |-> 8192],
           [kind |-> "scale", xx |-> -16384, yx |-> 0,      xy |-> 0,      yy |-> -16384],
           [kind |-> "scale", xx |-> 24576,  yx |-> 0,      xy |-> 0,      yy |-> 24576],
           [kind |-> "xy",    xx |-> 8192,   yx |-> 0,      xy |-> 0,      yy |-> -20480],
           [kind |-> "xy",    xx |-> -28672, yx |-> 0,      xy |-> 0,      yy |-> 4096],
           [kind |-> "2x2",   xx |-> 0,      yx |-> 16384,  xy |-> -16384, yy |-> 0],
           [kind |-> "2x2",   xx |-> 16384,  yx |-> 0,      xy |-> 4096,   yy |-> 16384],
           [kind |-> "2x2",   xx |-> 8192,   yx |-> 4096,   xy |-> 4096,   yy |-> 8192],
           [kind |-> "2x2",   xx |-> 8192,   yx |-> -4096,  xy |-> 12288,  yy |-> -16384] >>
Extras == <<0, 516, 5120>>     \* ROUND_XY_TO_GRID + USE_MY_METRICS; UNSCALED_COMPONENT_OFFSET + OVERLAP_COMPOUND

\* transform + offset + extra flags, numbered 1 .. 50 (extra bits vary with the index)
TKs == [t \in 1 .. (Len(Offs) * Len(Mats)) |->
          LET o == Offs[((t - 1) % Len(Offs)) + 1]
              m == Mats[((t - 1) \div Len(Offs)) + 1]
          IN [words |-> o.words, pts |-> FALSE, a1 |-> o.a1, a2 |-> o.a2, kind |-> m.kind,
              xx |-> m.xx, yx |-> m.yx, xy |-> m.xy, yy |-> m.yy, extra |-> Extras[(t % 3) + 1]]]
AllTK == 1 .. Len(TKs)
C(t, g) == [gid |-> g] @@ TKs[t]
Plain(g, dx) == [gid |-> g, words |-> FALSE, pts |-> FALSE, a1 |-> dx, a2 |-> 0, kind |-> "none",
                 xx |-> 16384, yx |-> 0, xy |-> 0, yy |-> 16384, extra |-> 0]

\* a composite case: defs[k] = component list of glyph 2 + k; root = the last one
CompDefs ==
       {<< <<C(t, 1)>> >> : t \in AllTK}                                               \* depth 1
  \cup {<< <<C(t, 2)>> >> : t \in AllTK}
  \cup {<< <<C(t, 1), C(u, 2)>> >> : t \in TK2, u \in TK2}
  \cup {<< <<C(t, 0), C(u, 1)>> >> : t \in {1, 2}, u \in {2, 17}}                      \* an empty component
  \cup {<< <<C(t, 1)>>, <<C(u, 3)>> >> : t \in AllTK, u \in TK2}                       \* depth 2
  \cup {<< <<C(t, 1)>>, <<C(u, 3)>> >> : t \in TK2, u \in AllTK}
  \cup {<< <<C(t, 2)>>, <<C(u, 1), C(w, 3)>> >> : t \in TK3, u \in TK3, w \in TK2}
  \cup {<< <<C(t, 1)>>, <<C(u, 3)>>, <<C(w, 4)>> >> : t \in TK3, u \in TK3, w \in TK3} \* depth 3
  \cup {<< <<C(t, 1), C(u, 2)>>, <<C(u, 3), C(t, 1)>>, <<C(w, 4), C(w, 3)>> >> : t \in TK3, u \in TK3, w \in {2, 17}}
  \cup {[k \in 1 .. n |-> <<Plain(k + 1 - (IF k = 1 THEN 1 ELSE 0), k)>>] : n \in {MaxDepth - 1, MaxDepth, MaxDepth + 1, MaxDepth + 2}}
                                                                                      \* chains: glyph 3 -> 1, 4 -> 3, ...
  \cup {<< <<Plain(3, 7)>> >>, << <<Plain(4, 7)>>, <<Plain(3, 1)>> >>,                 \* cycles
         << <<Plain(1, 1), Plain(3, 2)>> >>}

\* ---- offsets that are scaled, components placed by point numbers, composites with instructions -------------
\* t = 5 * (matrix - 1) + offset: matrices 2 .. 6 are diagonal (scale, x/y scale), offsets 2 .. 5 are not zero
TKDiag == {t \in 6 .. 30 : (t - 1) % 5 # 0}
Sc(t, g)     == [C(t, g) EXCEPT !.extra = SCALED_OFFSET]
ScBoth(t, g) == [C(t, g) EXCEPT !.extra = SCALED_OFFSET + UNSCALED_OFFSET]
In(t, g)     == [C(t, g) EXCEPT !.extra = HAVE_INSTR]
\* component g under the matrix of TKs[u], its point q put on point p of what the composite holds so far
An(u, g, p, q, w) == [C(u, g) EXCEPT !.pts = TRUE, !.a1 = p, !.a2 = q, !.words = w, !.extra = 0]
AnMats == {1, 6, 11, 21, 31, 46}        \* none, scale 1/2, scale -1, x/y scale, rotation, general two-by-two
AnPQ == {<<0, 0>>, <<3, 5>>, <<2, 3>>}  \* LeafA has points 0 .. 3, LeafB 0 .. 5

ScaledDefs ==
       {<< <<Sc(t, 1)>> >> : t \in TKDiag \cup {2, 4}}
  \cup {<< <<ScBoth(t, 1)>> >> : t \in {7, 14, 23}}
  \cup {<< <<Sc(t, 2), Sc(u, 1)>> >> : t \in {9, 28}, u \in {13, 20}}
  \cup {<< <<Sc(t, 1)>>, <<C(u, 3)>> >> : t \in {8, 14, 29}, u \in TK3}          \* under a parent transform
  \cup {<< <<C(u, 1)>>, <<Sc(t, 3)>> >> : t \in {8, 14, 29}, u \in TK3}          \* on a composite child
AnchorDefs ==
       {<< <<C(t, 1), An(u, 2, pq[1], pq[2], w)>> >> : t \in {1, 2, 9}, u \in AnMats, pq \in AnPQ, w \in BOOLEAN}
  \cup {<< <<C(1, 1), An(1, 2, 3, 0, FALSE), An(u, 1, 9, 3, FALSE)>> >> : u \in AnMats}   \* on a point of the 2nd component
  \cup {<< <<C(t, 1)>>, <<C(1, 2), An(u, 3, 4, 1, FALSE)>> >> : t \in {2, 9}, u \in AnMats}   \* the moved component is a composite
  \cup {<< <<C(1, 1), An(u, 2, pq[1], pq[2], FALSE)>>, <<C(t, 3)>> >> : t \in TK3, u \in {1, 6, 46}, pq \in AnPQ}
InstrDefs ==
       {<< <<In(t, 1)>> >> : t \in {1, 12, 33}}
  \cup {<< <<In(t, 1), C(u, 2)>> >> : t \in {4, 33}, u \in {2, 17}}
  \cup {<< <<C(t, 1), In(u, 2)>> >> : t \in {4, 33}, u \in {2, 17}}
CInstr == <<176, 1, 45, 0, 2>>

\* ---- records with numberOfContours = 0 (glyph 2 of a "zero" case): a header, instructions, no point -------
ZInstr(n) == [k \in 1 .. n |-> IF k % 2 = 0 THEN 1 ELSE 0]
ZeroDefs ==
       {<<>>}                                                                          \* visited itself
  \cup {<< <<C(t, 2)>> >> : t \in {1, 12}}                                             \* the only component
  \cup {<< <<C(t, 2), C(u, 1)>> >> : t \in {1, 12}, u \in {2, 17}}
  \cup {<< <<C(u, 1), C(t, 2)>> >> : t \in {1, 12}, u \in {2, 17}}
  \cup {<< <<C(t, 2)>>, <<C(u, 3), C(t, 1)>> >> : t \in {2}, u \in {17, 33}}

NoMode == [short |-> FALSE, same |-> FALSE, zero |-> "word", rep |-> "none", ovl |-> FALSE]
SimpleCase(p, v, m) == [kind |-> "simple", pats |-> p, v |-> v, mode |-> m, defs |-> <<>>]
\* Init draws a case through nested quantifiers (IsCase) instead of cs \in (one big union set): TLC then
\* enumerates the initial states one by one and never has to build and normalise a set of ~10^5 nested
\* records (single-threaded; the thorough tier did not get past it within 40 minutes).
IsCase(x) ==
  \/ \E p \in AllPats(L1), v \in Variants, m \in BaseModes : x = SimpleCase(<<p>>, v, m)
  \/ \E p \in AllPats(L2), q \in AllPats(L2), v \in Variants, m \in BaseModes : x = SimpleCase(<<p, q>>, v, m)
  \/ \E p \in AllPats(L3), q \in AllPats(L3), r \in AllPats(L3), v \in Variants, m \in BaseModes :
        x = SimpleCase(<<p, q, r>>, v, m)
  \* OVERLAP_SIMPLE on the first flag
  \/ \E p \in AllPats(L1), v \in Variants, m \in OvlModes : x = SimpleCase(<<p>>, v, m)
  \/ \E p \in AllPats(L3), q \in AllPats(L3), m \in OvlModes : x = SimpleCase(<<p, q>>, 0, m)
  \* points at the corners of the coordinate range
  \/ \E p \in AllPats({2, 4}), m \in {1, 2, 6} : x = SimpleCase(<<p>>, 9, m)
  \* four contours
  \/ \E p \in AllPats(L4), q \in AllPats(L4), r \in AllPats(L4), t \in AllPats(L4), m \in {1, 3} :
        x = SimpleCase(<<p, q, r, t>>, 2, m)
  \/ \E d \in CompDefs \cup ScaledDefs \cup AnchorDefs \cup InstrDefs :
        x = [kind |-> "composite", pats |-> <<>>, v |-> 0, mode |-> 0, defs |-> d]
  \/ \E d \in ZeroDefs, n \in ZeroInstr : x = [kind |-> "zero", pats |-> <<>>, v |-> n, mode |-> 0, defs |-> d]
  \* one contour of n on-curve points that all carry the same flag byte: the repeat count reaches 255 and the
  \* run has to be split (v = n; modes 1 and 3: maximal runs / first flag plain then a repeated one)
  \/ \E n \in LongNs, m \in {1, 3} : x = [kind |-> "long", pats |-> <<>>, v |-> n, mode |-> m, defs |-> <<>>]

LongContour(n) == << [j \in 1 .. n |-> [x |-> j, y |-> 2 * j, on |-> TRUE]] >>

---------------------------------------------------------------------------
\* ---- the glyph table of a case ------------------------------------------------
GlyphsOf(c) ==
  IF c.kind = "simple"
  THEN << [gid |-> 0, rec |-> <<>>],
          [gid |-> 1, rec |-> EncodeSimple(ContoursOf(c.pats, c.v), Modes[c.mode], InstrOf(c.v))] >>
  ELSE IF c.kind = "long"
  THEN << [gid |-> 0, rec |-> <<>>],
          [gid |-> 1, rec |-> EncodeSimple(LongContour(c.v), Modes[c.mode], <<>>)] >>
  ELSE << [gid |-> 0, rec |-> <<>>],
          [gid |-> 1, rec |-> EncodeSimple(LeafA, Modes[1], <<>>)],
          [gid |-> 2, rec |-> IF c.kind = "zero" THEN EncodeSimple(<<>>, Modes[2], ZInstr(c.v))
                              ELSE EncodeSimple(LeafB, Modes[3], <<>>)] >>
       \o [k \in 1 .. Len(c.defs) |-> [gid |-> 2 + k, rec |-> EncodeComposite(c.defs[k], CInstr)]]
RootOf(c) == IF c.kind \in {"simple", "long"} THEN 1 ELSE 2 + Len(c.defs)
NumOf(c) == Len(GlyphsOf(c))

Result(c) == Outline(GlyphsOf(c), NumOf(c), RootOf(c), 0, NoDev)

---------------------------------------------------------------------------
\* ---- design invariants ----------------------------------------------------------
\* (1) the parsers invert the encoders
RoundTripOK(c) ==
  IF c.kind = "simple"
  THEN LET G == ParseGlyph(GlyphsOf(c)[2].rec) IN
       G.kind = "simple" /\ G.contours = ContoursOf(c.pats, c.v)
  ELSE IF c.kind = "long"
  THEN LET G == ParseGlyph(GlyphsOf(c)[2].rec) IN
       /\ G.kind = "simple" /\ G.contours = LongContour(c.v)
       \* the flag array really uses a repeat count of 255 when the run is long enough
       /\ (c.v >= 257 => \E k \in 1 .. Len(GlyphsOf(c)[2].rec) - 1 :
                            GlyphsOf(c)[2].rec[k + 1] = 255 /\ Bit(GlyphsOf(c)[2].rec[k], REPEAT))
  ELSE /\ (c.kind = "zero" =>
            LET G == ParseGlyph(GlyphsOf(c)[3].rec) IN
            /\ Len(GlyphsOf(c)[3].rec) = 12 + c.v
            /\ G.kind = "simple" /\ G.contours = <<>>
            \* visited itself or only through components: nothing of it is drawn
            /\ Result(c).st = "ok"
            /\ (c.defs = <<>> => Result(c).cs = <<>>))
       /\ \A k \in 1 .. Len(c.defs) :
         LET G == ParseGlyph(GlyphsOf(c)[3 + k].rec) IN
         /\ G.kind = "composite" /\ Len(G.comps) = Len(c.defs[k])
         /\ \A j \in 1 .. Len(c.defs[k]) :
              LET a == c.defs[k][j]  b == G.comps[j] IN
              /\ b.gid = a.gid /\ b.a1 = a.a1 /\ b.a2 = a.a2
              /\ b.xx = a.xx /\ b.yy = a.yy /\ b.xy = a.xy /\ b.yx = a.yx
              /\ b.flags = CompFlags(a, j < Len(c.defs[k]))

\* (2) the walker: what the property says about one contour
Rotations(s) == {[k \in 1 .. Len(s) |-> s[((k + r - 1) % Len(s)) + 1]] : r \in 0 .. (Len(s) - 1)}
SelectSeqB(s, Test(_)) == SelectSeq(s, Test)
IsOff(p) == ~p.on
IsOn(p) == p.on
ImpliedPoints(c) == {Mid(c[i], Nxt(c, i)) : i \in {j \in 1 .. Len(c) : ~c[j].on /\ ~Nxt(c, j).on}}
ExplicitOn(c) == {c[i] : i \in {j \in 1 .. Len(c) : c[j].on}}
XY(p) == <<p.x, p.y>>

WalkOK(c, W) ==
  LET n      == Len(W)
      quads  == SelectSeq(W, LAMBDA w : w[1] = 3)
      offs   == SelectSeq(c, IsOff)
      ends   == [k \in 1 .. (n - 1) |-> <<W[k][4], W[k][5]>>]          \* move target, then every segment end
      onXY   == {XY(p) : p \in ExplicitOn(c) \cup ImpliedPoints(c)}
      ctrl   == [k \in 1 .. Len(quads) |-> <<quads[k][2], quads[k][3]>>]
      offXY  == [k \in 1 .. Len(offs) |-> XY(offs[k])]
  IN /\ n >= 2 /\ W[1][1] = 1 /\ W[n][1] = 5                             \* one move_to ... close
     /\ \A k \in 2 .. (n - 1) : W[k][1] \in {2, 3}
     /\ \A k \in 1 .. (n - 1) : ends[k] \in onXY                         \* pen positions are on the curve
     /\ (offs = <<>> => ctrl = <<>>)
     /\ (offs # <<>> => ctrl \in Rotations(offXY))                       \* every off-curve point is a control once, in order
     \* all points touched, in drawing order, are the expanded cycle from the start on (the start
     \* is repeated at the end when the last edge is drawn explicitly)
     /\ LET touched == Flatten([k \in 1 .. (n - 1) |-> IF W[k][1] = 3 THEN <<<<W[k][2], W[k][3]>>, <<W[k][4], W[k][5]>>>>
                                                                     ELSE <<<<W[k][4], W[k][5]>>>>], 1)
            E == Expand(c)
        IN \E r \in Rotations([k \in 1 .. Len(E) |-> XY(E[k])]) : touched = r \/ touched = Append(r, r[1])
     \* explicit on-curve points are visited in order (as pen positions, cyclically)
     /\ LET ons  == SelectSeq(c, IsOn)
            seen == SelectSeq(ends, LAMBDA e : e \in {XY(p) : p \in ExplicitOn(c)})
        IN  \/ ons = <<>> /\ seen = <<>>
            \/ ons # <<>> /\ \E r \in Rotations([k \in 1 .. Len(ons) |-> XY(ons[k])]) :
                               seen = r \/ seen = Append(r, r[1])

\* distinct coordinates are needed for the order clauses to be meaningful
Distinct(c) == \A i, j \in 1 .. Len(c) : i # j => XY(c[i]) # XY(c[j])

ContourOK(c) ==
  /\ Walk(c) \in ValidWalks(c)
  /\ \A W \in ValidWalks(c) : Distinct(c) => WalkOK(c, W)
  \* implied points: exactly one between each pair of consecutive off-curve points
  /\ Len(Expand(c)) = Len(c) + Cardinality({i \in 1 .. Len(c) : ~c[i].on /\ ~Nxt(c, i).on})

\* (3) composites: a chain  root -> ... -> leaf  equals the leaf under the single composed affine map
\* flat map: matrix raw F2Dot14-like (may exceed the F2Dot14 range), offset in fine units
FlatOf(c) == [xx |-> c.xx, xy |-> c.xy, yx |-> c.yx, yy |-> c.yy, ox |-> c.a1 * FU, oy |-> c.a2 * FU]
MulBig(v, a) == (v \div FU) * a + ((v % FU) * a) \div FU
MatMul(o, i) ==  \* component o applied after the flat map i (exact for the generated values)
  [xx |-> (o.xx * i.xx + o.xy * i.yx) \div FU, xy |-> (o.xx * i.xy + o.xy * i.yy) \div FU,
   yx |-> (o.yx * i.xx + o.yy * i.yx) \div FU, yy |-> (o.yx * i.xy + o.yy * i.yy) \div FU,
   ox |-> MulBig(i.ox, o.xx) + MulBig(i.oy, o.xy) + o.a1 * FU,
   oy |-> MulBig(i.ox, o.yx) + MulBig(i.oy, o.yy) + o.a2 * FU]
ApplyFlat(m, p) == [x |-> MulBig(p.x, m.xx) + MulBig(p.y, m.xy) + m.ox,
                    y |-> MulBig(p.x, m.yx) + MulBig(p.y, m.yy) + m.oy, on |-> p.on]
IsChain(c) == /\ c.kind = "composite"
              /\ \A k \in 1 .. Len(c.defs) : Len(c.defs[k]) = 1
              /\ \A k \in 1 .. Len(c.defs) : ~c.defs[k][1].pts /\ ~Bit(c.defs[k][1].extra, SCALED_OFFSET)
              /\ c.defs[1][1].gid \in {1, 2}
              /\ \A k \in 2 .. Len(c.defs) : c.defs[k][1].gid = 1 + k
RECURSIVE ChainMap(_, _)
ChainMap(defs, k) == IF k = 1 THEN FlatOf(defs[1][1]) ELSE MatMul(defs[k][1], ChainMap(defs, k - 1))
ChainOK(c) ==
  IsChain(c) /\ Len(c.defs) <= 3 =>
    LET r    == Result(c)
        leaf == IF c.defs[1][1].gid = 1 THEN LeafA ELSE LeafB
        m    == ChainMap(c.defs, Len(c.defs))
    IN /\ r.st = "ok"
       /\ r.cs = [i \in 1 .. Len(leaf) |-> [j \in 1 .. Len(leaf[i]) |-> ApplyFlat(m, ToFine(leaf[i])[j])]]

\* (4) nesting bound, cycles, contour counts
DepthOK(c) ==
  c.kind \in {"composite", "zero"} /\ c.defs # <<>> =>
    LET r == Result(c) IN
    /\ (IsChain(c) => (r.st = "ok") = (Len(c.defs) <= MaxDepth))
    /\ r.st \in {"ok", "err"}
    /\ (r.st = "ok" => TracesOutline(r, RefCommands(r.cs)))

\* (5) a scaled offset: the single component is the leaf moved by the offset and then put under the matrix
LeafOf(g) == IF g = 1 THEN LeafA ELSE LeafB
ScaledOK(c) ==
  c.kind = "composite" /\ Len(c.defs) = 1 /\ Len(c.defs[1]) = 1 /\ c.defs[1][1].extra = SCALED_OFFSET =>
    LET d == c.defs[1][1]  leaf == LeafOf(d.gid)  r == Result(c) IN
    /\ r.st = "ok"
    /\ r.cs = [i \in 1 .. Len(leaf) |-> [j \in 1 .. Len(leaf[i]) |->
                 [x |-> MulF((leaf[i][j].x + d.a1) * FU, d.xx), y |-> MulF((leaf[i][j].y + d.a2) * FU, d.yy),
                  on |-> leaf[i][j].on]]]
    \* the two readings of a scaled offset differ only where a factor is negative
    /\ LET h == Outline(GlyphsOf(c), NumOf(c), RootOf(c), 0, [NoDev EXCEPT !.hypot = TRUE]) IN
       (h.cs = r.cs) = ((d.xx >= 0 \/ d.a1 = 0) /\ (d.yy >= 0 \/ d.a2 = 0))

\* (6) point numbers: in the delivered outline the two named points coincide
NPts(g) == Len(FlatPts(LeafOf(g)))
RECURSIVE PtsBefore(_, _)
PtsBefore(comps, j) == IF j = 1 THEN 0 ELSE PtsBefore(comps, j - 1) + NPts(comps[j - 1].gid)
AnchorOK(c) ==
  c.kind = "composite" /\ Len(c.defs) = 1 /\ (\A j \in 1 .. Len(c.defs[1]) : c.defs[1][j].gid \in {1, 2}) =>
    \A j \in 1 .. Len(c.defs[1]) :
      c.defs[1][j].pts =>
        LET d == c.defs[1][j]  r == Result(c)  P == FlatPts(r.cs) IN
        /\ r.st = "ok"
        /\ P[d.a1 + 1].x = P[PtsBefore(c.defs[1], j) + d.a2 + 1].x
        /\ P[d.a1 + 1].y = P[PtsBefore(c.defs[1], j) + d.a2 + 1].y

DesignOK ==
  done =>
    /\ ScaledOK(cs)
    /\ AnchorOK(cs)
    /\ RoundTripOK(cs)
    /\ (cs.kind = "simple" => \A c \in {ToFine(ContoursOf(cs.pats, cs.v)[i]) : i \in 1 .. Len(cs.pats)} : ContourOK(c))
    /\ (cs.kind \in {"simple", "long"} => LET r == Result(cs) IN
                              r.st = "ok" /\ r.exact /\ TracesOutline(r, RefCommands(r.cs)))
    /\ ChainOK(cs)
    /\ DepthOK(cs)

\* ---- generator -----------------------------------------------------------------
Describe(c) ==
  IF c.kind = "simple"
  THEN [kind |-> "simple", pats |-> c.pats, v |-> c.v, mode |-> Modes[c.mode], defs |-> <<>>]
  ELSE IF c.kind = "long"
  THEN [kind |-> "long", pats |-> <<>>, v |-> c.v, mode |-> Modes[c.mode], defs |-> <<>>]
  ELSE [kind |-> c.kind, pats |-> <<>>, v |-> c.v, mode |-> NoMode, defs |-> c.defs]

EmitCase ==
  done =>
    LET r == Result(cs)
        \* what the named readings of Outline would deliver (for the driver's planted self-check events)
        special == cs.kind = "composite" /\ \E k \in 1 .. Len(cs.defs) : \E j \in 1 .. Len(cs.defs[k]) :
                      cs.defs[k][j].pts \/ cs.defs[k][j].extra = SCALED_OFFSET
        Under(dev) == IF ~special THEN <<>>
                      ELSE LET q == Outline(GlyphsOf(cs), NumOf(cs), RootOf(cs), 0, dev) IN
                           IF q.st = "ok" THEN RefCommands(q.cs) ELSE <<>>
    IN
    PrintT(<<"CASE", ToJson([abs |-> Describe(cs), glyphs |-> GlyphsOf(cs), n |-> NumOf(cs), root |-> RootOf(cs),
                             st |-> r.st, exact |-> r.exact,
                             exp |-> IF r.st = "ok" THEN RefCommands(r.cs) ELSE <<>>,
                             hyp |-> Under([NoDev EXCEPT !.hypot = TRUE]),
                             unsc |-> Under([NoDev EXCEPT !.unscaled = TRUE]),
                             noanc |-> Under([NoDev EXCEPT !.noAnchor = TRUE])])>>)

Init == IsCase(cs) /\ done = FALSE
Next == ~done /\ done' = TRUE /\ cs' = cs
Spec == Init /\ [][Next]_vars

\* ---- constants for the configurations ---------------------------------------------
LongQuick == {255, 256, 257, 258}
LongThorough == {2, 255, 256, 257, 258, 259, 511, 512, 513, 514, 515, 770}
L1All == 1 .. 5
L2Quick == 1 .. 3
L2Thorough == 1 .. 5
L3Quick == 1 .. 2
L3Thorough == 1 .. 3
VariantsAll == 0 .. 2
TK2Quick == {1, 7, 12, 18, 24, 30, 33, 39, 44, 50}
TK2Thorough == 1 .. 50
TK3Quick == {2, 14, 28, 32, 49}
TK3Thorough == {2, 9, 14, 20, 23, 28, 32, 36, 41, 45, 49}
ZeroInstrQuick == {0, 1, 4, 6, 10}
ZeroInstrThorough == 0 .. 16
L4Quick == {2}
L4Thorough == 1 .. 2
=============================================================================
