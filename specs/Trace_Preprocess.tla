-------------------------- MODULE Trace_Preprocess --------------------------
(***************************************************************************)
(* Trace judge for text preprocessing (impl -> spec), judging style.       *)
(* One event per call of allsorts::scripts::preprocess_text:               *)
(*    a = [tag, in]   o = [out, panic, mg, mgpanic]                        *)
(* (mg: the unicodes of the glyphs Font::map_glyphs returned for the same  *)
(* text and tag - the observation point the property names)                *)
(* The event conforms iff                                                  *)
(*   - no clause of the relational property fails on (in, out)             *)
(*     (Preprocess!RelFailures: content, bases, insertions, runs, stable / *)
(*     amtra / identity / sorted), and                                     *)
(*   - out is the result of the script's documented pipeline under one of  *)
(*     the readings of the named deviations ("function").                  *)
(*   - mg, with variation selectors set aside, is that same documented     *)
(*     result with variation selectors set aside ("mapglyphs").            *)
(* A call that panicked does not conform ("panic", "mgpanic"): every code  *)
(* point sequence is inside the property's quantifier.                     *)
(* An event that conforms only under a "dev" reading is reported as DEV    *)
(* (an observation, not a violation).  The class table is the file named   *)
(* by env C17_MCC (allsorts' own table; its values are constrained by      *)
(* ModifiedCcc.tla / MC_ModifiedCcc, see Preprocess).                      *)
(***************************************************************************)
EXTENDS Preprocess, SequencesExt

Rec == ndJsonDeserialize(IOEnv.TRACE)

VARIABLE l
tvars == <<l>>

Failures(e) ==
  IF e.o.panic # "" THEN {"panic"}
  ELSE LET wants == {Expected(e.a.tag, r, e.a.in) : r \in Readings(e.a.tag)} IN
       RelFailures(e.a.tag, e.a.in, e.o.out) \cup (IF e.o.out \in wants THEN {} ELSE {"function"})
       \cup (IF e.o.mgpanic # "" THEN {"mgpanic"}
             ELSE IF NoVS(e.o.mg) \in {NoVS(w) : w \in wants} THEN {} ELSE {"mapglyphs"})

TInit == l = 1

TNext ==
  /\ l <= Len(Rec)
  /\ l' = l + 1
  /\ LET e == Rec[l]
         f == Failures(e)
         want == Expected(e.a.tag, "doc", e.a.in)
     IN IF f = {}
        THEN IF e.o.out = want THEN TRUE
             ELSE PrintT(<<"DEV", ToJson([i |-> e.i, case |-> e.case, tag |-> e.a.tag, in |-> e.a.in,
                                          want |-> want, got |-> e.o.out])>>)
        ELSE PrintT(<<"MISMATCH", ToJson([i |-> e.i, case |-> e.case, tag |-> e.a.tag,
                                          family |-> Family(e.a.tag), fails |-> SetToSeq(f),
                                          in |-> e.a.in, want |-> want, got |-> e.o.out,
                                          panic |-> e.o.panic, mg |-> e.o.mg, mgpanic |-> e.o.mgpanic])>>)

TSpec == TInit /\ [][TNext]_tvars

AllConsumed == TLCGet("stats").diameter = Len(Rec) + 1
=============================================================================
