CONSTANTS
  Tier = "thorough"
SPECIFICATION Spec
INVARIANT CaseInv
CHECK_DEADLOCK FALSE
