----------------------------- MODULE Trace_Sfnt -----------------------------
(***************************************************************************)
(* Trace judge for containers (impl -> spec), at the abstract level of     *)
(* Sfnt!RoundTrip: a "Container" event describes what the harness wrapped  *)
(* (kind, members with their directories, digest of every stored table);   *)
(* the following Load / Provider / Query events carry what allsorts        *)
(* answered.  Each answer must be the one the container semantics          *)
(* prescribes: the first directory record with the tag selects the stored  *)
(* table, an absent tag is none, a member beyond the end of a collection   *)
(* is an error, a bare sfnt / WOFF answers with its single font.           *)
(***************************************************************************)
EXTENDS Integers, Sequences, FiniteSets, FiniteSetsExt, TLC, Json, IOUtils

Rec == ndJsonDeserialize(IOEnv.TRACE)

VARIABLES l, cont
tvars == <<l, cont>>

NoCont == [kind |-> "", members |-> <<>>, digests |-> <<>>]

HasMember(c, i) == IF c.kind = "ttc" THEN i < Len(c.members) ELSE Len(c.members) >= 1
MemberOf(c, i)  == IF c.kind = "ttc" THEN c.members[i + 1] ELSE c.members[1]

ExpLoad(c) == [ok |-> TRUE, kind |-> c.kind]

ExpProvider(c, i) ==
  IF HasMember(c, i)
  THEN LET m == MemberOf(c, i) IN
       [ok |-> TRUE, flavor |-> m.flavor, tags |-> [k \in 1 .. Len(m.dir) |-> m.dir[k].tag]]
  ELSE [ok |-> FALSE, flavor |-> <<>>, tags |-> <<>>]

ExpQuery(c, i, tag) ==
  LET m  == MemberOf(c, i)
      ks == {k \in 1 .. Len(m.dir) : m.dir[k].tag = tag} IN
  IF ks = {} THEN [ok |-> TRUE, some |-> FALSE, digest |-> <<>>, has |-> FALSE]
  ELSE [ok |-> TRUE, some |-> TRUE, digest |-> c.digests[m.dir[Min(ks)].tid], has |-> TRUE]

Expected(e) ==
  CASE e.ev = "Load"     -> ExpLoad(cont)
    [] e.ev = "Provider" -> ExpProvider(cont, e.a.member)
    [] e.ev = "Query"    -> ExpQuery(cont, e.a.member, e.a.tag)

TInit == l = 1 /\ cont = NoCont

TNext ==
  /\ l <= Len(Rec)
  /\ l' = l + 1
  /\ LET e == Rec[l] IN
     IF e.ev = "Container"
     THEN cont' = [kind |-> e.a.kind, members |-> e.a.members, digests |-> e.a.digests]
     ELSE /\ cont' = cont
          /\ IF e.ev \notin {"Load", "Provider", "Query"} THEN PrintT(<<"UNMODELLED", e.ev>>)
             ELSE IF e.o = Expected(e) THEN TRUE
             ELSE PrintT(<<"MISMATCH", ToJson([i |-> e.i, case |-> e.case, ev |-> e.ev, a |-> e.a,
                                               want |-> Expected(e), got |-> e.o])>>)

TSpec == TInit /\ [][TNext]_tvars
AllConsumed == TLCGet("stats").diameter = Len(Rec) + 1
=============================================================================
