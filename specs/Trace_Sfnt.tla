----------------------------- MODULE Trace_Sfnt -----------------------------
(***************************************************************************)
(* Trace judge for containers (impl -> spec), at the abstract level of     *)
(* Sfnt!RoundTrip: a "Container" event describes what the harness wrapped  *)
(* (kind, members with their directories, digest of every stored table);   *)
(* the following Load / Provider / Query events carry what allsorts        *)
(* answered.  Each answer must be the one the container semantics          *)
(* prescribes: the first directory record with the tag selects the stored  *)
(* table, an absent tag is none, a member beyond the end of a collection   *)
(* is an error, a bare sfnt / WOFF answers with its single font.           *)
(***************************************************************************)
EXTENDS Integers, Sequences, FiniteSets, FiniteSetsExt, TLC, Json, IOUtils

Rec == ndJsonDeserialize(IOEnv.TRACE)

VARIABLES l, cont
tvars == <<l, cont>>

NoCont == [kind |-> "", members |-> <<>>, digests |-> <<>>]

HasMember(c, i) == IF c.kind = "ttc" THEN i < Len(c.members) ELSE Len(c.members) >= 1
MemberOf(c, i)  == IF c.kind = "ttc" THEN c.members[i + 1] ELSE c.members[1]

ExpLoad(c) == [ok |-> TRUE, kind |-> c.kind]

ExpProvider(c, i) ==
  IF HasMember(c, i)
  THEN LET m == MemberOf(c, i) IN
       [ok |-> TRUE, flavor |-> m.flavor, tags |-> [k \in 1 .. Len(m.dir) |-> m.dir[k].tag]]
  ELSE [ok |-> FALSE, flavor |-> <<>>, tags |-> <<>>]

\* A query can only follow a Provider(i) that succeeded.  When the container has no such member (the
\* implementation handed out a font for an index beyond the end of the collection) no answer conforms:
\* the expectation carries a field that no observation has, so the comparison is FALSE, never an error.
ExpQuery(c, i, tag) ==
  IF ~HasMember(c, i)
  THEN [ok |-> FALSE, some |-> FALSE, digest |-> <<>>, has |-> FALSE, member |-> "beyond the end"]
  ELSE
  LET m  == MemberOf(c, i)
      ks == {k \in 1 .. Len(m.dir) : m.dir[k].tag = tag} IN
  IF ks = {} THEN [ok |-> TRUE, some |-> FALSE, digest |-> <<>>, has |-> FALSE]
  ELSE [ok |-> TRUE, some |-> TRUE, digest |-> c.digests[m.dir[Min(ks)].tid], has |-> TRUE]

\* Total over every event the harness can write: the shape of an event (fields and their types) is fixed by
\* the harness, the values are whatever the implementation returned.  Records with different field sets
\* (e.g. an observation carrying "panic") compare FALSE.
Expected(e) ==
  CASE e.ev = "Load"     -> ExpLoad(cont)
    [] e.ev = "Provider" -> ExpProvider(cont, e.a.member)
    [] e.ev = "Query"    -> ExpQuery(cont, e.a.member, e.a.tag)
    [] OTHER             -> [ok |-> FALSE, unmodelled |-> e.ev]

TInit == l = 1 /\ cont = NoCont

TNext ==
  /\ l <= Len(Rec)
  /\ l' = l + 1
  /\ LET e == Rec[l] IN
     IF e.ev = "Container"
     THEN cont' = [kind |-> e.a.kind, members |-> e.a.members, digests |-> e.a.digests]
     ELSE /\ cont' = cont
          /\ IF e.ev \notin {"Load", "Provider", "Query"} THEN PrintT(<<"UNMODELLED", e.ev>>)
             ELSE IF e.o = Expected(e) THEN TRUE
             ELSE PrintT(<<"MISMATCH", ToJson([i |-> e.i, case |-> e.case, ev |-> e.ev, a |-> e.a,
                                               want |-> Expected(e), got |-> e.o])>>)

TSpec == TInit /\ [][TNext]_tvars
AllConsumed == TLCGet("stats").diameter = Len(Rec) + 1
=============================================================================
