CONSTANTS
  Thorough = TRUE
SPECIFICATION Spec
INVARIANTS CodecOK EmitCase
CHECK_DEADLOCK FALSE
