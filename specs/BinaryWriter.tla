--------------------------- MODULE BinaryWriter ---------------------------
(***************************************************************************)
(* Specification of allsorts' binary writer (src/binary/write.rs): the     *)
(* WriteBuffer machine.  Property C15 (and the byte level of C09).         *)
(*                                                                         *)
(* State: the buffer (a byte sequence that only grows at its end) and the  *)
(* placeholders handed out so far (a window [off, off+len) of the buffer   *)
(* that may be filled in later, exactly once).                             *)
(*                                                                         *)
(* One operation per public method, at the grain of the code:              *)
(*   W    T::write(ctxt, val)      typed big-endian write (U8 I8 U16Be     *)
(*                                 I16Be U24Be U32Be I32Be I64Be)          *)
(*   WB   write_bytes(bytes)       WZ  write_zeros(n)                      *)
(*   PH   placeholder::<T>()       RS  reserve::<T>(n)                     *)
(*   WPT  write_placeholder(p, val)  for a typed placeholder               *)
(*   WPC  write_placeholder(p, &val) for a reservation; val is a composite *)
(*        value: a sequence of parts, each written with one primitive      *)
(*        call (typed write, write_bytes, write_zeros) - this is how       *)
(*        IndexU16 and Dict values reach a reservation in cff.rs           *)
(*                                                                         *)
(* Width rule (the property's last sentence): a value is written into a    *)
(* field only if it fits; otherwise the call is refused with an error and  *)
(* nothing outside the field changes:                                      *)
(*   U24Be with a value above 0xFFFFFF         -> Err BadValue             *)
(*   a composite of total size > reservation   -> Err PlaceholderMismatch  *)
(* Typed placeholders always fit (the type system fixes the width).        *)
(*                                                                         *)
(* Numbers: values of widths 1,2,3 and i32 are integers; u32 and i64 are   *)
(* big-endian byte tuples (TLC integers are 32 bit).                       *)
(*                                                                         *)
(* The reader semantics is BinaryReader (C14): WriteThenRead composes the  *)
(* two machines.                                                           *)
(***************************************************************************)
EXTENDS Integers, Sequences, FiniteSets, SequencesExt, TLC

R == INSTANCE BinaryReader WITH HUGE <- 1000000

---------------------------------------------------------------------------
\* Types.  b-kinds carry their value as a byte tuple.
WSizeOf(ty) ==
  CASE ty = "u8" -> 1 [] ty = "i8" -> 1 [] ty = "u16" -> 2 [] ty = "i16" -> 2
    [] ty = "u24" -> 3 [] ty = "i32" -> 4 [] ty = "u32" -> 4 [] ty = "i64" -> 8

WTypes == {"u8", "i8", "u16", "i16", "u24", "i32", "u32", "i64"}
IsBytesTy(ty) == ty \in {"u32", "i64"}

Pow2(k) == CASE k = 8 -> 256 [] k = 16 -> 65536 [] k = 24 -> 16777216
Lo(ty) == CASE ty = "u8" -> 0 [] ty = "i8" -> -128 [] ty = "u16" -> 0 [] ty = "i16" -> -32768
            [] ty = "u24" -> 0 [] ty = "i32" -> -2147483647 - 1
Hi(ty) == CASE ty = "u8" -> 255 [] ty = "i8" -> 127 [] ty = "u16" -> 65535 [] ty = "i16" -> 32767
            [] ty = "u24" -> 16777215 [] ty = "i32" -> 2147483647

\* Does the value fit the field?  (For the Rust-typed widths the host type already
\* guarantees it; only U24Be takes a wider host type, u32.)
Fits(ty, val) ==
  IF IsBytesTy(ty) THEN Len(val) = WSizeOf(ty) /\ \A i \in 1 .. Len(val) : val[i] \in 0 .. 255
  ELSE val >= Lo(ty) /\ val <= Hi(ty)

\* Big-endian two's complement image.
BE1(x) == <<x>>
BE2(x) == <<x \div 256, x % 256>>
BE3(x) == <<x \div 65536, (x \div 256) % 256, x % 256>>
\* i32: floor division keeps the sign in the first byte: -1 \div 16777216 = -1 -> 255
BE4s(x) == <<(x \div 16777216) % 256, (x \div 65536) % 256, (x \div 256) % 256, x % 256>>
EncInt(ty, val) ==
  CASE ty = "u8"  -> BE1(val)
    [] ty = "i8"  -> BE1(val % 256)
    [] ty = "u16" -> BE2(val)
    [] ty = "i16" -> BE2(val % 65536)
    [] ty = "u24" -> BE3(val)
    [] ty = "i32" -> BE4s(val)
EncVal(ty, val) == IF IsBytesTy(ty) THEN val ELSE EncInt(ty, val)

\* inverse, for the widths whose value is an integer
DecInt(ty, bs) ==
  CASE ty = "u8"  -> bs[1]
    [] ty = "i8"  -> IF bs[1] >= 128 THEN bs[1] - 256 ELSE bs[1]
    [] ty = "u16" -> bs[1] * 256 + bs[2]
    [] ty = "i16" -> LET u == bs[1] * 256 + bs[2] IN IF u >= 32768 THEN u - 65536 ELSE u
    [] ty = "u24" -> bs[1] * 65536 + bs[2] * 256 + bs[3]
    [] ty = "i32" -> LET hi == IF bs[1] >= 128 THEN bs[1] - 256 ELSE bs[1] IN
                     hi * 16777216 + bs[2] * 65536 + bs[3] * 256 + bs[4]
DecVal(ty, bs) == IF IsBytesTy(ty) THEN bs ELSE DecInt(ty, bs)

Zeros(n) == [i \in 1 .. n |-> 0]

---------------------------------------------------------------------------
\* State and observations.
\*   buf : bytes written so far
\*   phs : placeholders in creation order: [off, len, ty ("" for a reservation), used]
WInit == [buf |-> <<>>, phs |-> <<>>]

\* Observation of one call:  res "Ok" | "BadValue" | "PlaceholderMismatch",
\* the whole buffer after the call, and bytes_written() after the call.
WObs(res, st) == [res |-> res, buf |-> st.buf, len |-> Len(st.buf)]

WKeep(st, res)  == [st |-> st, obs |-> WObs(res, st)]
WStep(st2)      == [st |-> st2, obs |-> WObs("Ok", st2)]

Append2(st, bs) == [st EXCEPT !.buf = st.buf \o bs]

DoW(st, ty, val) ==
  IF Fits(ty, val) THEN WStep(Append2(st, EncVal(ty, val))) ELSE WKeep(st, "BadValue")

DoWB(st, bs) == WStep(Append2(st, bs))
DoWZ(st, n)  == WStep(Append2(st, Zeros(n)))

NewPh(st, ty, n) ==
  [st EXCEPT !.buf = st.buf \o Zeros(n),
             !.phs = Append(st.phs, [off |-> Len(st.buf), len |-> n, ty |-> ty, used |-> FALSE])]
DoPH(st, ty) == WStep(NewPh(st, ty, WSizeOf(ty)))
DoRS(st, n)  == WStep(NewPh(st, "", n))

\* Replace bytes [off, off+Len(bs)) of the buffer.
Patch(buf, off, bs) ==
  [i \in 1 .. Len(buf) |-> IF i > off /\ i <= off + Len(bs) THEN bs[i - off] ELSE buf[i]]

\* write_placeholder on a typed placeholder: the value has the placeholder's type.
DoWPT(st, k, val) ==
  LET p == st.phs[k] IN
  IF ~Fits(p.ty, val) THEN WKeep([st EXCEPT !.phs[k].used = TRUE], "BadValue")
  ELSE WStep([st EXCEPT !.buf = Patch(st.buf, p.off, EncVal(p.ty, val)), !.phs[k].used = TRUE])

\* Composite values: parts  [p |-> "u8"|"u16"|..., v |-> val]  typed write
\*                          [p |-> "b", v |-> bytes]           write_bytes
\*                          [p |-> "z", v |-> n]               write_zeros
PartFits(pt)  == IF pt.p \in {"b", "z"} THEN TRUE ELSE Fits(pt.p, pt.v)
PartBytes(pt) == CASE pt.p = "b" -> pt.v [] pt.p = "z" -> Zeros(pt.v) [] OTHER -> EncVal(pt.p, pt.v)
RECURSIVE CompBytes(_)
CompBytes(parts) == IF parts = <<>> THEN <<>> ELSE PartBytes(Head(parts)) \o CompBytes(Tail(parts))

\* write_placeholder on a reservation of len bytes.
\*   fits  -> the image of the value replaces the first bytes of the reservation
\*   not   -> Err PlaceholderMismatch; bytes outside the reservation are untouched, the
\*            reservation itself is unspecified afterwards (Dev_PartialOnErr: parts that
\*            fitted may already have been copied)
DoWPC(st, k, parts) ==
  LET p == st.phs[k]  bs == CompBytes(parts) IN
  IF \E i \in 1 .. Len(parts) : ~PartFits(parts[i])
  THEN WKeep([st EXCEPT !.phs[k].used = TRUE], "BadValue")
  ELSE IF Len(bs) > p.len
  THEN WKeep([st EXCEPT !.phs[k].used = TRUE], "PlaceholderMismatch")
  ELSE WStep([st EXCEPT !.buf = Patch(st.buf, p.off, bs), !.phs[k].used = TRUE])

\* Operations as data: [op, ty, k, v]
WOp(op, ty, k, v) == [op |-> op, ty |-> ty, k |-> k, v |-> v]

WApply(st, o) ==
  CASE o.op = "W"   -> DoW(st, o.ty, o.v)
    [] o.op = "WB"  -> DoWB(st, o.v)
    [] o.op = "WZ"  -> DoWZ(st, o.k)
    [] o.op = "PH"  -> DoPH(st, o.ty)
    [] o.op = "RS"  -> DoRS(st, o.k)
    [] o.op = "WPT" -> DoWPT(st, o.k, o.v)
    [] o.op = "WPC" -> DoWPC(st, o.k, o.v)

\* The operation is offered by the state (placeholders are consumed by their one write:
\* Rust ownership makes a second write_placeholder a compile error).
WEnabled(st, o) ==
  CASE o.op \in {"WPT", "WPC"} ->
         /\ o.k \in 1 .. Len(st.phs) /\ ~st.phs[o.k].used
         /\ (o.op = "WPT") = (st.phs[o.k].ty # "")
    [] OTHER -> TRUE

\* Where an Err leaves the buffer unspecified (only inside the failed reservation).
Dev_PartialOnErr(st, o) ==
  IF o.op = "WPC" THEN LET p == st.phs[o.k] IN (p.off + 1) .. (p.off + p.len) ELSE {}

---------------------------------------------------------------------------
\* Invariants of the design.

\* the buffer only grows, and only at its end, except inside the placeholder being filled
GrowsAtEnd(pre, post, o) ==
  /\ Len(post.buf) >= Len(pre.buf)
  /\ \A i \in 1 .. Len(pre.buf) :
        post.buf[i] # pre.buf[i] =>
          /\ o.op \in {"WPT", "WPC"}
          /\ i > pre.phs[o.k].off /\ i <= pre.phs[o.k].off + pre.phs[o.k].len

\* every placeholder lies inside the buffer and placeholders do not overlap
PhInBuf(st) ==
  /\ \A k \in 1 .. Len(st.phs) : st.phs[k].off + st.phs[k].len <= Len(st.buf)
  /\ \A j, k \in 1 .. Len(st.phs) :
        j < k => st.phs[j].off + st.phs[j].len <= st.phs[k].off

\* a refused call changes nothing (outside Dev_PartialOnErr) and is refused only for width
Refusal(pre, post, o, obs) ==
  obs.res # "Ok" =>
    /\ post.buf = pre.buf
    /\ \/ o.op = "W" /\ ~Fits(o.ty, o.v)
       \/ o.op = "WPT" /\ ~Fits(pre.phs[o.k].ty, o.v)
       \/ o.op = "WPC" /\ (Len(CompBytes(o.v)) > pre.phs[o.k].len
                            \/ \E i \in 1 .. Len(o.v) : ~PartFits(o.v[i]))

\* never truncated: an accepted typed write decodes to the value that was given
NeverTruncated(pre, post, o, obs) ==
  (o.op = "W" /\ obs.res = "Ok") =>
     DecVal(o.ty, SubSeq(post.buf, Len(pre.buf) + 1, Len(post.buf))) = o.v

\* WriteThenRead: reading back, with the reader of BinaryReader.tla, what an accepted write
\* appended gives the value and consumes exactly the bytes written.
ReadBack(buf, from, ty) ==
  LET s0 == R!InitState(buf)
      s1 == R!Apply(s0, R!Op("Offset", 1, "", from, 0, <<>>)).st
      s2 == R!Apply(s1, R!Op("Ctxt", 2, "", 0, 0, <<>>)).st
  IN R!Apply(s2, R!Op("ReadT", 3, ty, 0, 0, <<>>)).obs

\* what the harness observes when it reads an accepted write back with the real reader
NoRb == [v |-> <<>>, rem |-> -1]
RbOf(pre, post, o, obs) ==
  IF obs.res # "Ok" THEN NoRb
  ELSE IF o.op = "W" THEN LET r == ReadBack(post.buf, Len(pre.buf), o.ty) IN [v |-> r.v, rem |-> r.rem]
  ELSE IF o.op = "WPT" THEN LET r == ReadBack(post.buf, pre.phs[o.k].off, pre.phs[o.k].ty) IN
                            [v |-> r.v, rem |-> r.rem]
  ELSE NoRb

WriteThenRead(pre, post, o, obs) ==
  /\ (o.op = "W" /\ obs.res = "Ok") =>
        LET rb == ReadBack(post.buf, Len(pre.buf), o.ty) IN
        /\ rb.ok /\ rb.v = EncVal(o.ty, o.v) /\ rb.rem = 0
        /\ (~IsBytesTy(o.ty) /\ WSizeOf(o.ty) <= 3 => rb.num = o.v)
  /\ (o.op = "WPT" /\ obs.res = "Ok") =>
        LET p == pre.phs[o.k]
            rb == ReadBack(post.buf, p.off, p.ty) IN
        rb.ok /\ rb.v = EncVal(p.ty, o.v) /\ rb.rem = Len(post.buf) - p.off - p.len
=============================================================================
