CONSTANTS
  Thorough = TRUE
SPECIFICATION Spec
INVARIANTS RoundTripOK NoOtherData EmitCase
CHECK_DEADLOCK FALSE
