--------------------------- MODULE MC_FaultModel ---------------------------
(***************************************************************************)
(* Three kinds of cases in one bounded model (Init picks the case, one     *)
(* step marks it done, the invariants check it and print it).              *)
(*                                                                         *)
(* t = "gen":  the abstract fault sequences of property C01, by (kind,     *)
(*     role, value class, level): every sequence of at most MaxSeq faults, *)
(*     and (Triples) every sequence of three faults on directory / header  *)
(*     fields over a reduced value alphabet.  One CASE line per sequence;  *)
(*     the harness instantiates each on the concrete fields of the         *)
(*     repository fonts and crosses it with the entry point groups.        *)
(*                                                                         *)
(* t = "file": three model files (bare sfnt, collection, WOFF with one     *)
(*     zlib-wrapped table) written by Sfnt.tla's writers, every concrete   *)
(*     fault sequence up to the bound applied with FaultModel!ApplySeq.    *)
(*     TLC checks the model's own lemmas on each: the file never grows,    *)
(*     the expectation function is total, the view the judge works from    *)
(*     gives the same expectation as Sfnt.tla's reader on the whole file,  *)
(*     a range past the end is an error for that table, a fault on one     *)
(*     record's offset / length / checksum leaves every other table as it  *)
(*     was, and the intact file loads with every table Ok.  Each prints a  *)
(*     FILE line (base file, concrete faults, resulting bytes, view) that  *)
(*     the harness replays: its own fault application and view cutting     *)
(*     must reproduce bytes and view (JSON equality) before allsorts is    *)
(*     run on the bytes and the observation handed to Trace_FaultModel.    *)
(*                                                                         *)
(* t = "val":  value class vectors (old bytes, file length, table length   *)
(*     -> new bytes) binding the harness' value classes to NewValue.       *)
(***************************************************************************)
EXTENDS FaultModel, Json

CONSTANTS MaxSeq, Triples, FilePairs,     \* FilePairs: "none" | "reduced" | "full"
          ReducedPairVC                  \* value classes of the reduced pair alphabet

VARIABLES c, done
vars == <<c, done>>

---------------------------------------------------------------------------
\* abstract alphabet
A(k, role, vc, level, where, mode) == [k |-> k, role |-> role, vc |-> vc, level |-> level, where |-> where, mode |-> mode]

\* reference classes exist for offset and index fields only (FaultModel!ClassApplies)
AbsSingles ==
       {x \in {A("Overwrite", r, v, l, "", "") : r \in Roles, v \in ValueClasses, l \in Levels} : ClassApplies(x.vc, x.role)}
  \cup {A("Truncate", r, "", l, w, "") : r \in Roles, l \in Levels, w \in TruncWhere}
  \cup {A("RemoveTable", "", "", "dir", "", "")}
  \cup {A("ShrinkLength", "length", "", "dir", "", m) : m \in ShrinkModes}
  \cup {A("SwapTables", "offset", "", "dir", "", "")}

ReducedVC == {"zero", "max", "hi80", "inc", "filelen", "self"}
AbsDirReduced ==
       {x \in {A("Overwrite", r, v, "dir", "", "") : r \in Roles, v \in ReducedVC} : ClassApplies(x.vc, x.role)}
  \cup {A("Truncate", r, "", "dir", w, "") : r \in Roles, w \in TruncWhere}
  \cup {A("RemoveTable", "", "", "dir", "", "")}
  \cup {A("ShrinkLength", "length", "", "dir", "", m) : m \in ShrinkModes}
  \cup {A("SwapTables", "offset", "", "dir", "", "")}

---------------------------------------------------------------------------
\* model files
TagA == <<97, 97, 97, 97>>
TagB == <<98, 98, 98, 98>>
Tables == <<<<1, 2, 3>>, <<9, 8, 7, 6, 5>>>>
Dir2   == <<[tag |-> TagA, tid |-> 1], [tag |-> TagB, tid |-> 2]>>
Dir1   == <<[tag |-> TagB, tid |-> 2]>>
Gaps   == <<0, 1>>

BaseFile(kind) ==
  CASE kind = "sfnt" -> S!WriteSfnt(Tables, [flavor |-> S!MagicTTF, dir |-> Dir2], <<1, 2>>, Gaps)
    [] kind = "ttc"  -> S!WriteTtc(Tables, <<[flavor |-> S!MagicTTF, dir |-> Dir2], [flavor |-> S!MagicOTTO, dir |-> Dir1]>>, <<2, 1>>, Gaps, 1)
    [] kind = "woff" -> S!WriteWoff(Tables, [flavor |-> S!MagicOTTO, dir |-> Dir2], <<1, 2>>, Gaps, {2})
Kinds == {"sfnt", "ttc", "woff"}

\* fields of the model files: [off, w, role, level, rec, tlen, sv, pv]
\*   sv / pv (offset fields): offset of the structure that contains the field / of that structure's
\*   parent, -1 = none.  A directory record sits in its directory (sv = where the directory starts:
\*   the table would be the directory itself), the directory of a collection member or of a WOFF file
\*   hangs off the file header (pv = 0); a member offset of the collection header sits in that header.
FdR(off, w, role, level, rec, tlen, sv, pv) == [off |-> off, w |-> w, role |-> role, level |-> level, rec |-> rec, tlen |-> tlen, sv |-> sv, pv |-> pv]
Fd(off, w, role, level, rec, tlen) == FdR(off, w, role, level, rec, tlen, -1, -1)

SfntDirFields(at, n, flen, r0, par) ==
       {Fd(at, 4, "version", "dir", 0, flen), Fd(at + 4, 2, "count", "dir", 0, flen), Fd(at + 6, 2, "value", "dir", 0, flen)}
  \cup UNION {{Fd(at + 12 + 16 * k, 4, "index", "dir", r0 + k + 1, flen), Fd(at + 12 + 16 * k + 4, 4, "value", "dir", r0 + k + 1, flen),
               FdR(at + 12 + 16 * k + 8, 4, "offset", "dir", r0 + k + 1, flen, at, par), Fd(at + 12 + 16 * k + 12, 4, "length", "dir", r0 + k + 1, flen)} :
              k \in 0 .. (n - 1)}

FieldsOf(kind) ==
  LET bs == BaseFile(kind)  flen == Len(bs) IN
  CASE kind = "sfnt" ->
         SfntDirFields(0, 2, flen, 0, -1)
         \cup {Fd(S!Rd32(bs, 12 + 8), 2, "value", "table", 0, 3), Fd(S!Rd32(bs, 28 + 8) + 1, 1, "count", "table", 0, 5)}
    [] kind = "ttc" ->
         {Fd(0, 4, "version", "dir", 0, flen), Fd(4, 2, "version", "dir", 0, flen), Fd(8, 4, "count", "dir", 0, flen),
          FdR(12, 4, "offset", "dir", 0, flen, 0, -1), FdR(16, 4, "offset", "dir", 0, flen, 0, -1)}
         \cup SfntDirFields(S!Rd32(bs, 12), 2, flen, 0, 0)
         \cup {Fd(S!Rd32(bs, 16) + 4, 2, "count", "dir", 0, flen)}
    [] kind = "woff" ->
         {Fd(0, 4, "version", "dir", 0, flen), Fd(4, 4, "version", "dir", 0, flen), Fd(8, 4, "length", "dir", 0, flen),
          Fd(12, 2, "count", "dir", 0, flen), Fd(14, 2, "value", "dir", 0, flen), Fd(16, 4, "length", "dir", 0, flen)}
         \cup UNION {{Fd(44 + 20 * k, 4, "index", "dir", k + 1, flen), FdR(44 + 20 * k + 4, 4, "offset", "dir", k + 1, flen, 44, 0),
                      Fd(44 + 20 * k + 8, 4, "length", "dir", k + 1, flen), Fd(44 + 20 * k + 12, 4, "length", "dir", k + 1, flen)} :
                     k \in 0 .. 1}
         \cup {Fd(S!Rd32(bs, 64 + 4), 1, "version", "table", 0, 16), Fd(S!Rd32(bs, 64 + 4) + 3, 2, "length", "table", 0, 16)}

\* directory records of the model files: [rec (offset), size, cnt, idx, n, offField, lenField]
RecsOf(kind) ==
  LET bs == BaseFile(kind) IN
  CASE kind = "sfnt" -> {[rec |-> 12 + 16 * k, size |-> 16, cnt |-> 4, idx |-> k, n |-> 2, offField |-> 12 + 16 * k + 8, lenField |-> 12 + 16 * k + 12] : k \in 0 .. 1}
    [] kind = "ttc"  -> LET at == S!Rd32(bs, 12) IN
                        {[rec |-> at + 12 + 16 * k, size |-> 16, cnt |-> at + 4, idx |-> k, n |-> 2, offField |-> at + 12 + 16 * k + 8, lenField |-> at + 12 + 16 * k + 12] : k \in 0 .. 1}
    [] kind = "woff" -> {[rec |-> 44 + 20 * k, size |-> 20, cnt |-> 12, idx |-> k, n |-> 2, offField |-> 44 + 20 * k + 4, lenField |-> 44 + 20 * k + 8] : k \in 0 .. 1}

\* concrete faults; `rec` and `role` are kept for the non-interference lemma
Ov(f, vc)  == [k |-> "Overwrite", off |-> f.off, w |-> f.w, vc |-> vc, tlen |-> f.tlen, rec |-> f.rec, role |-> f.role, sv |-> f.sv, pv |-> f.pv]
FaultsOf(kind) ==
  LET fs == FieldsOf(kind)  rs == RecsOf(kind) IN
       {x \in {Ov(f, vc) : f \in fs, vc \in ValueClasses} : ClassApplies(x.vc, x.role) /\ HasRef(x.vc, x.sv, x.pv)}
  \cup {[k |-> "Truncate", at |-> f.off] : f \in fs} \cup {[k |-> "Truncate", at |-> f.off + 1] : f \in fs}
  \cup {[k |-> "RemoveTable", rec |-> r.rec, size |-> r.size, cnt |-> r.cnt, idx |-> r.idx, n |-> r.n] : r \in rs}
  \cup {[k |-> "ShrinkLength", off |-> r.lenField, mode |-> m] : r \in rs, m \in ShrinkModes}
  \cup {[k |-> "SwapTables", a |-> r.offField, b |-> q.offField] : r \in {x \in rs : x.idx = 0}, q \in {x \in rs : x.idx = 1}}

\* a smaller alphabet for pairs: directory-level overwrites with the extreme classes, the structural
\* faults, truncation at every eighth byte
ReducedFaultsOf(kind) ==
  {f \in FaultsOf(kind) : \/ f.k \in {"RemoveTable", "ShrinkLength", "SwapTables"}
                          \/ (f.k = "Overwrite" /\ f.vc \in ReducedPairVC /\ (f.rec > 0 \/ f.role = "count" \/ f.role = "offset"))
                          \/ (f.k = "Truncate" /\ f.at % 8 = 0)}

Olds ==  {<<0>>, <<255>>, <<127>>, <<128>>, <<0, 0>>, <<255, 255>>, <<127, 255>>, <<0, 255>>, <<128, 0>>,
                                   <<1, 2, 3>>, <<255, 255, 255>>, <<0, 0, 0, 0>>, <<255, 255, 255, 255>>, <<127, 255, 255, 255>>,
                                   <<128, 0, 0, 0>>, <<0, 1, 255, 255>>, <<0, 0, 0, 0, 0, 0, 0, 0>>, <<0, 0, 0, 0, 255, 255, 255, 255>>,
                                   <<255, 255, 255, 255, 255, 255, 255, 255>>}
ValCases ==
       {[t |-> "val", vc |-> vc, old |-> old, flen |-> fl, tlen |-> tl, sv |-> 0, pv |-> 0] :
          vc \in ByteClasses, old \in Olds, fl \in {0, 53, 65536, 16909060}, tl \in {0, 255, 70000}}
  \cup {[t |-> "val", vc |-> vc, old |-> old, flen |-> 53, tlen |-> 255, sv |-> sv, pv |-> pv] :
          vc \in RefClasses, old \in Olds, sv \in {0, 5, 300, 70000, 16909060}, pv \in {0, 44, 65535, 65536}}

\* Cases are reached in two steps so that TLC's workers share the work: Init picks a root (the first
\* fault of a sequence, or a value class), Next completes it.
AbsTail(a) ==
       {<<a>>}
  \cup (IF MaxSeq >= 2 THEN {<<a, b>> : b \in AbsSingles} ELSE {})
  \cup (IF Triples /\ a \in AbsDirReduced THEN {<<a, b, d>> : b \in AbsDirReduced, d \in AbsDirReduced} ELSE {})

PairSet(kd) ==
  CASE FilePairs = "none"    -> {}
    [] FilePairs = "reduced" -> ReducedFaultsOf(kd)
    [] FilePairs = "full"    -> IF kd = "sfnt" THEN FaultsOf(kd) ELSE ReducedFaultsOf(kd)

Roots ==
       {[t |-> "gen-root", first |-> a] : a \in AbsSingles}
  \cup {[t |-> "file-intact", kind |-> kd] : kd \in Kinds}
  \cup UNION {{[t |-> "file-root", kind |-> kd, first |-> f] : f \in FaultsOf(kd)} : kd \in Kinds}
  \cup {[t |-> "val-root", vc |-> vc] : vc \in ValueClasses}

Expand(r) ==
  CASE r.t = "gen-root"    -> {[t |-> "gen", seq |-> sq] : sq \in AbsTail(r.first)}
    [] r.t = "file-intact" -> {[t |-> "file", kind |-> r.kind, seq |-> <<>>]}
    [] r.t = "file-root"   -> {[t |-> "file", kind |-> r.kind, seq |-> <<r.first>>]}
                              \cup (IF r.first \in PairSet(r.kind)
                                    THEN {[t |-> "file", kind |-> r.kind, seq |-> <<r.first, g>>] : g \in PairSet(r.kind)} ELSE {})
    [] r.t = "val-root"    -> {x \in ValCases : x.vc = r.vc}

Init == c \in Roots /\ done = FALSE
Next == ~done /\ done' = TRUE /\ c' \in Expand(c)
Spec == Init /\ [][Next]_vars

---------------------------------------------------------------------------
\* the model's own lemmas, checked on every file case (one evaluation of the faulted file, its view
\* and its expectation per case; Assert names the lemma that fails)
LemmasAndEmit ==
  done =>
    CASE c.t = "gen"  -> PrintT(<<"CASE", ToJson(c)>>)
      [] c.t = "val"  -> PrintT(<<"VAL", ToJson([vc |-> c.vc, old |-> c.old, flen |-> c.flen, tlen |-> c.tlen, sv |-> c.sv, pv |-> c.pv,
                                                  new |-> NewValue(c.vc, c.old, c.flen, c.tlen, c.sv, c.pv)])>>)
      [] c.t = "file" ->
           LET base == BaseFile(c.kind)
               bs   == ApplySeq(base, c.seq)
               v    == ViewOf(bs)
               e    == ContainerExpect(v)
           IN /\ Assert(Len(bs) <= Len(base), "LemmaBounded")
              /\ Assert(ExpectTotal(e), "LemmaTotal")
              /\ Assert(ViewSuffices(bs), "LemmaView")
              /\ Assert(\A k \in 1 .. Len(e.font.tabs) :
                           LET x == e.font.tabs[k] IN
                           (x.len # 0 /\ x.off # S!HUGE /\ x.len # S!HUGE /\ x.off + x.len > Len(bs)) => x.st = "Err",
                        "LemmaPastEof")
              /\ Assert(c.seq = <<>> =>
                           /\ e.read = "Ok" /\ e.kind = c.kind /\ e.prov[1] = "Ok"
                           /\ Len(e.font.tabs) = 2 /\ \A k \in 1 .. 2 : e.font.tabs[k].st \in {"Ok", "Inflate"},
                        "LemmaIntact")
              \* a single overwrite of the offset / length / checksum of record r leaves every other table as it was
              /\ Assert((Len(c.seq) = 1 /\ c.seq[1].k = "Overwrite" /\ c.seq[1].rec > 0 /\ c.seq[1].role \in {"offset", "length", "value"}) =>
                           LET e0 == ContainerExpect(ViewOf(base)) IN
                           /\ e.read = "Ok" /\ Len(e.font.tabs) = Len(e0.font.tabs)
                           /\ \A k \in 1 .. Len(e0.font.tabs) : k # c.seq[1].rec => e.font.tabs[k] = e0.font.tabs[k],
                        "LemmaNonInterference")
              \* a single reference-class overwrite makes the field read as the reference (the bytes of sv / pv), and a
              \* directory record whose offset is its own directory names the bytes of that directory
              /\ Assert((Len(c.seq) = 1 /\ c.seq[1].k = "Overwrite" /\ c.seq[1].vc \in RefClasses) =>
                           LET f == c.seq[1]  n == IF f.vc = "self" THEN f.sv ELSE f.pv IN
                           /\ n >= 0 /\ Window(bs, f.off, f.w) = BytesOf(n, f.w)
                           /\ (f.rec > 0 /\ e.read = "Ok" /\ f.rec <= Len(e.font.tabs)) => e.font.tabs[f.rec].off = n,
                        "LemmaRef")
              /\ PrintT(<<"FILE", ToJson([kind |-> c.kind, base |-> base, seq |-> c.seq, bytes |-> bs, view |-> v])>>)

Sanity ==
  /\ NewValue("dec", <<0, 0>>, 0, 0, -1, -1) = <<255, 255>>
  /\ NewValue("dbl", <<128, 1>>, 0, 0, -1, -1) = <<0, 2>>
  /\ NewValue("filelen", <<9, 9>>, 65537, 0, -1, -1) = <<0, 1>>
  /\ NewValue("self", <<9, 9>>, 0, 0, 258, -1) = <<1, 2>>
  /\ NewValue("parent", <<9>>, 0, 0, 7, 300) = <<44>>
  /\ ClassApplies("self", "offset") /\ ~ClassApplies("parent", "count") /\ ClassApplies("max", "count")
  /\ ~HasRef("self", -1, 3) /\ HasRef("zero", -1, -1)
  /\ Half(<<1, 0, 0, 1>>) = <<0, 128, 0, 0>>
  /\ ~Safe("Panic") /\ ~Safe("Timeout") /\ Safe("Err")
=============================================================================
