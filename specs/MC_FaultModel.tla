--------------------------- MODULE MC_FaultModel ---------------------------
(***************************************************************************)
(* Three kinds of cases in one bounded model (Init picks the case, one     *)
(* step marks it done, the invariants check it and print it).              *)
(*                                                                         *)
(* t = "gen":  the abstract fault sequences of property C01, by (kind,     *)
(*     role, value class, level): every sequence of at most MaxSeq faults, *)
(*     and (Triples) every sequence of three faults on directory / header  *)
(*     fields over a reduced value alphabet.  One CASE line per sequence;  *)
(*     the harness instantiates each on the concrete fields of the         *)
(*     repository fonts and crosses it with the entry point groups.        *)
(*                                                                         *)
(* t = "file": three model files (bare sfnt, collection, WOFF with one     *)
(*     zlib-wrapped table) written by Sfnt.tla's writers, every concrete   *)
(*     fault sequence up to the bound applied with FaultModel!ApplySeq.    *)
(*     TLC checks the model's own lemmas on each: the file never grows,    *)
(*     the expectation function is total, the view the judge works from    *)
(*     gives the same expectation as Sfnt.tla's reader on the whole file,  *)
(*     a range past the end is an error for that table, a fault on one     *)
(*     record's offset / length / checksum leaves every other table as it  *)
(*     was, and the intact file loads with every table Ok.  Each prints a  *)
(*     FILE line (base file, concrete faults, resulting bytes, view) that  *)
(*     the harness replays: its own fault application and view cutting     *)
(*     must reproduce bytes and view (JSON equality) before allsorts is    *)
(*     run on the bytes and the observation handed to Trace_FaultModel.    *)
(*                                                                         *)
(* t = "fill": buffer-filling content: for every form in which a Type 2    *)
(*     operator of variable arity takes its operands and both interpreters *)
(*     (CFF: 48 operands, CFF2: 513) the count that fills the stack        *)
(*     (FaultModel!FillCount, lemma FillHolds); one FILL line each.  The   *)
(*     harness builds its stack-filling glyphs from a table that must be   *)
(*     these lines (JSON equality, both directions).                       *)
(*                                                                         *)
(* t = "val":  value class vectors (old bytes, file length, table length,  *)
(*     references, implied value, bytes of the previous / next element ->  *)
(*     new bytes)                                                          *)
(*     binding the harness' value classes to NewValue.                     *)
(***************************************************************************)
EXTENDS FaultModel, Json, Bitwise

CONSTANTS MaxSeq, Triples, FilePairs,     \* FilePairs: "none" | "reduced" | "full"
          ReducedPairVC                  \* value classes of the reduced pair alphabet

VARIABLES c, done
vars == <<c, done>>

---------------------------------------------------------------------------
\* abstract alphabet
A(k, role, vc, level, where, mode) == [k |-> k, role |-> role, vc |-> vc, level |-> level, where |-> where, mode |-> mode]

\* reference classes exist for offset and index fields only (FaultModel!ClassApplies)
AbsSingles ==
       {x \in {A("Overwrite", r, v, l, "", "") : r \in Roles, v \in ValueClasses, l \in Levels} : ClassApplies(x.vc, x.role)}
  \cup {A("Truncate", r, "", l, w, "") : r \in Roles, l \in Levels, w \in TruncWhere}
  \cup {A("RemoveTable", "", "", "dir", "", "")}
  \cup {A("ShrinkLength", "length", "", "dir", "", m) : m \in ShrinkModes}
  \cup {A("SwapTables", "offset", "", "dir", "", "")}

ReducedVC == {"zero", "max", "hi80", "inc", "filelen", "self", "eqnext"}
AbsDirReduced ==
       {x \in {A("Overwrite", r, v, "dir", "", "") : r \in Roles, v \in ReducedVC} : ClassApplies(x.vc, x.role)}
  \cup {A("Truncate", r, "", "dir", w, "") : r \in Roles, w \in TruncWhere}
  \cup {A("RemoveTable", "", "", "dir", "", "")}
  \cup {A("ShrinkLength", "length", "", "dir", "", m) : m \in ShrinkModes}
  \cup {A("SwapTables", "offset", "", "dir", "", "")}

---------------------------------------------------------------------------
\* model files
TagA == <<97, 97, 97, 97>>
TagB == <<98, 98, 98, 98>>
Tables == <<<<1, 2, 3>>, <<9, 8, 7, 6, 5>>>>
Dir2   == <<[tag |-> TagA, tid |-> 1], [tag |-> TagB, tid |-> 2]>>
Dir1   == <<[tag |-> TagB, tid |-> 2]>>
Gaps   == <<0, 1>>

BaseFile(kind) ==
  CASE kind = "sfnt" -> S!WriteSfnt(Tables, [flavor |-> S!MagicTTF, dir |-> Dir2], <<1, 2>>, Gaps)
    [] kind = "ttc"  -> S!WriteTtc(Tables, <<[flavor |-> S!MagicTTF, dir |-> Dir2], [flavor |-> S!MagicOTTO, dir |-> Dir1]>>, <<2, 1>>, Gaps, 1)
    [] kind = "woff" -> S!WriteWoff(Tables, [flavor |-> S!MagicOTTO, dir |-> Dir2], <<1, 2>>, Gaps, {2})
Kinds == {"sfnt", "ttc", "woff"}

\* fields of the model files: [off, w, role, level, rec, tlen, sv, pv, dv, po, no]
\*   sv / pv (offset fields): offset of the structure that contains the field / of that structure's
\*   parent, -1 = none.  A directory record sits in its directory (sv = where the directory starts:
\*   the table would be the directory itself), the directory of a collection member or of a WOFF file
\*   hangs off the file header (pv = 0); a member offset of the collection header sits in that header.
\*   po / no (fields that are elements of an array): position of the same member of the previous / next
\*   record (directory records, member offsets of the collection header), -1 = none.
\*   dv (size / count fields): the value the rest of the file implies for the field, -1 = none.  The length of
\*   a directory record is implied by the table it names (Len(Tables[tid]): known to the writer of the model
\*   files, not read from the field), the length field of the WOFF header by the file, the count / length
\*   fields inside the model tables by the bytes that follow them.
FdD(off, w, role, level, rec, tlen, sv, pv, dv, po, no) == [off |-> off, w |-> w, role |-> role, level |-> level, rec |-> rec, tlen |-> tlen, sv |-> sv, pv |-> pv, dv |-> dv, po |-> po, no |-> no]
FdS(off, w, role, level, rec, tlen, sv, pv, po, no) == FdD(off, w, role, level, rec, tlen, sv, pv, -1, po, no)
FdR(off, w, role, level, rec, tlen, sv, pv) == FdS(off, w, role, level, rec, tlen, sv, pv, -1, -1)
Fd(off, w, role, level, rec, tlen) == FdR(off, w, role, level, rec, tlen, -1, -1)
FdV(off, w, role, level, rec, tlen, dv) == FdD(off, w, role, level, rec, tlen, -1, -1, dv, -1, -1)
\* member at `off` of record k of n records of `size` bytes
Po(off, k, size)    == IF k > 0 THEN off - size ELSE -1
No(off, k, n, size) == IF k < n - 1 THEN off + size ELSE -1

\* the directory of the model files names table k + 1 in record k (Dir2)
SfntDirFields(at, n, flen, r0, par) ==
       {Fd(at, 4, "version", "dir", 0, flen), FdV(at + 4, 2, "count", "dir", 0, flen, n), Fd(at + 6, 2, "value", "dir", 0, flen)}
  \cup UNION {LET M(o, role, sv, pv, dv) == FdD(at + 12 + 16 * k + o, 4, role, "dir", r0 + k + 1, flen, sv, pv, dv,
                                                Po(at + 12 + 16 * k + o, k, 16), No(at + 12 + 16 * k + o, k, n, 16))
              IN {M(0, "index", -1, -1, -1), M(4, "value", -1, -1, -1), M(8, "offset", at, par, -1), M(12, "length", -1, -1, Len(Tables[k + 1]))} :
              k \in 0 .. (n - 1)}

FieldsOf(kind) ==
  LET bs == BaseFile(kind)  flen == Len(bs) IN
  CASE kind = "sfnt" ->
         SfntDirFields(0, 2, flen, 0, -1)
         \cup {Fd(S!Rd32(bs, 12 + 8), 2, "value", "table", 0, 3), FdV(S!Rd32(bs, 28 + 8) + 1, 1, "count", "table", 0, 5, 3)}
    [] kind = "ttc" ->
         {Fd(0, 4, "version", "dir", 0, flen), Fd(4, 2, "version", "dir", 0, flen), Fd(8, 4, "count", "dir", 0, flen),
          FdS(12, 4, "offset", "dir", 0, flen, 0, -1, -1, 16), FdS(16, 4, "offset", "dir", 0, flen, 0, -1, 12, -1)}
         \cup SfntDirFields(S!Rd32(bs, 12), 2, flen, 0, 0)
         \cup {Fd(S!Rd32(bs, 16) + 4, 2, "count", "dir", 0, flen)}
    [] kind = "woff" ->
         {Fd(0, 4, "version", "dir", 0, flen), Fd(4, 4, "version", "dir", 0, flen), FdV(8, 4, "length", "dir", 0, flen, flen),
          FdV(12, 2, "count", "dir", 0, flen, 2), Fd(14, 2, "value", "dir", 0, flen), Fd(16, 4, "length", "dir", 0, flen)}
         \cup UNION {LET M(o, role, sv, pv, dv) == FdD(44 + 20 * k + o, 4, role, "dir", k + 1, flen, sv, pv, dv,
                                                       Po(44 + 20 * k + o, k, 20), No(44 + 20 * k + o, k, 2, 20))
                     IN {M(0, "index", -1, -1, -1), M(4, "offset", 44, 0, -1), M(8, "length", -1, -1, -1), M(12, "length", -1, -1, Len(Tables[k + 1]))} :
                     k \in 0 .. 1}
         \cup {Fd(S!Rd32(bs, 64 + 4), 1, "version", "table", 0, 16), FdV(S!Rd32(bs, 64 + 4) + 3, 2, "length", "table", 0, 16, 11)}

\* directory records of the model files: [rec (offset), size, cnt, idx, n, offField, lenField]
RecsOf(kind) ==
  LET bs == BaseFile(kind) IN
  CASE kind = "sfnt" -> {[rec |-> 12 + 16 * k, size |-> 16, cnt |-> 4, idx |-> k, n |-> 2, offField |-> 12 + 16 * k + 8, lenField |-> 12 + 16 * k + 12] : k \in 0 .. 1}
    [] kind = "ttc"  -> LET at == S!Rd32(bs, 12) IN
                        {[rec |-> at + 12 + 16 * k, size |-> 16, cnt |-> at + 4, idx |-> k, n |-> 2, offField |-> at + 12 + 16 * k + 8, lenField |-> at + 12 + 16 * k + 12] : k \in 0 .. 1}
    [] kind = "woff" -> {[rec |-> 44 + 20 * k, size |-> 20, cnt |-> 12, idx |-> k, n |-> 2, offField |-> 44 + 20 * k + 4, lenField |-> 44 + 20 * k + 8] : k \in 0 .. 1}

\* concrete faults; `rec` and `role` are kept for the non-interference lemma
Ov(f, vc)  == [k |-> "Overwrite", off |-> f.off, w |-> f.w, vc |-> vc, tlen |-> f.tlen, rec |-> f.rec, role |-> f.role, sv |-> f.sv, pv |-> f.pv,
               dv |-> f.dv, po |-> f.po, no |-> f.no]
\* a relational class is instantiated on a field that has that sibling
HasSib(vc, po, no) == (vc \in PrevClasses => po >= 0) /\ (vc \in NextClasses => no >= 0)
FaultsOf(kind) ==
  LET fs == FieldsOf(kind)  rs == RecsOf(kind) IN
       {x \in {Ov(f, vc) : f \in fs, vc \in ValueClasses} : ClassApplies(x.vc, x.role) /\ HasRef(x.vc, x.sv, x.pv) /\ HasDer(x.vc, x.dv) /\ HasBit(x.vc, x.w) /\ HasSib(x.vc, x.po, x.no)}
  \cup {[k |-> "Truncate", at |-> f.off] : f \in fs} \cup {[k |-> "Truncate", at |-> f.off + 1] : f \in fs}
  \cup {[k |-> "RemoveTable", rec |-> r.rec, size |-> r.size, cnt |-> r.cnt, idx |-> r.idx, n |-> r.n] : r \in rs}
  \cup {[k |-> "ShrinkLength", off |-> r.lenField, mode |-> m] : r \in rs, m \in ShrinkModes}
  \cup {[k |-> "SwapTables", a |-> r.offField, b |-> q.offField] : r \in {x \in rs : x.idx = 0}, q \in {x \in rs : x.idx = 1}}

\* a smaller alphabet for pairs: directory-level overwrites with the extreme classes, the structural
\* faults, truncation at every eighth byte
ReducedFaultsOf(kind) ==
  {f \in FaultsOf(kind) : \/ f.k \in {"RemoveTable", "ShrinkLength", "SwapTables"}
                          \/ (f.k = "Overwrite" /\ f.vc \in ReducedPairVC /\ (f.rec > 0 \/ f.role = "count" \/ f.role = "offset"))
                          \/ (f.k = "Truncate" /\ f.at % 8 = 0)}

Olds ==  {<<0>>, <<255>>, <<127>>, <<128>>, <<0, 0>>, <<255, 255>>, <<127, 255>>, <<0, 255>>, <<128, 0>>,
                                   <<1, 2, 3>>, <<255, 255, 255>>, <<0, 0, 0, 0>>, <<255, 255, 255, 255>>, <<127, 255, 255, 255>>,
                                   <<128, 0, 0, 0>>, <<0, 1, 255, 255>>, <<0, 0, 0, 0, 0, 0, 0, 0>>, <<0, 0, 0, 0, 255, 255, 255, 255>>,
                                   <<255, 255, 255, 255, 255, 255, 255, 255>>}
\* relational classes: the siblings are every pair of byte strings of Olds that have the width of the field
ValCases ==
       {[t |-> "val", vc |-> vc, old |-> old, flen |-> fl, tlen |-> tl, sv |-> 0, pv |-> 0, dv |-> -1, pb |-> <<>>, nb |-> <<>>] :
          vc \in ByteClasses, old \in Olds, fl \in {0, 53, 65536, 16909060}, tl \in {0, 255, 70000}}
  \cup {[t |-> "val", vc |-> vc, old |-> old, flen |-> 53, tlen |-> 255, sv |-> sv, pv |-> pv, dv |-> -1, pb |-> <<>>, nb |-> <<>>] :
          vc \in RefClasses, old \in Olds, sv \in {0, 5, 300, 70000, 16909060}, pv \in {0, 44, 65535, 65536}}
  \cup {[t |-> "val", vc |-> vc, old |-> old, flen |-> 53, tlen |-> 255, sv |-> -1, pv |-> -1, dv |-> dv, pb |-> <<>>, nb |-> <<>>] :
          vc \in DerClasses, old \in Olds, dv \in {1, 2, 5, 8, 255, 256, 257, 65535, 65536, 70001, 16909060}}
  \cup {x \in {[t |-> "val", vc |-> vc, old |-> old, flen |-> 53, tlen |-> 255, sv |-> -1, pv |-> -1, dv |-> -1, pb |-> <<>>, nb |-> <<>>] :
                 vc \in BitClasses, old \in Olds} : HasBit(x.vc, Len(x.old))}
  \cup UNION {{[t |-> "val", vc |-> vc, old |-> old, flen |-> 53, tlen |-> 255, sv |-> -1, pv |-> -1, dv |-> -1, pb |-> pb, nb |-> nb] :
                 vc \in RelClasses, pb \in {x \in Olds : Len(x) = Len(old)}, nb \in {x \in Olds : Len(x) = Len(old)}} : old \in Olds}

\* Cases are reached in two steps so that TLC's workers share the work: Init picks a root (the first
\* fault of a sequence, or a value class), Next completes it.
AbsTail(a) ==
       {<<a>>}
  \cup (IF MaxSeq >= 2 THEN {<<a, b>> : b \in AbsSingles} ELSE {})
  \cup (IF Triples /\ a \in AbsDirReduced THEN {<<a, b, d>> : b \in AbsDirReduced, d \in AbsDirReduced} ELSE {})

PairSet(kd) ==
  CASE FilePairs = "none"    -> {}
    [] FilePairs = "reduced" -> ReducedFaultsOf(kd)
    [] FilePairs = "full"    -> IF kd = "sfnt" THEN FaultsOf(kd) ELSE ReducedFaultsOf(kd)

Roots ==
       {[t |-> "gen-root", first |-> a] : a \in AbsSingles}
  \cup {[t |-> "file-intact", kind |-> kd] : kd \in Kinds}
  \cup UNION {{[t |-> "file-root", kind |-> kd, first |-> f] : f \in FaultsOf(kd)} : kd \in Kinds}
  \cup {[t |-> "val-root", vc |-> vc] : vc \in ValueClasses}
  \cup {[t |-> "fill-root", ip |-> ip] : ip \in Interpreters}

Expand(r) ==
  CASE r.t = "gen-root"    -> {[t |-> "gen", seq |-> sq] : sq \in AbsTail(r.first)}
    [] r.t = "file-intact" -> {[t |-> "file", kind |-> r.kind, seq |-> <<>>]}
    [] r.t = "file-root"   -> {[t |-> "file", kind |-> r.kind, seq |-> <<r.first>>]}
                              \cup (IF r.first \in PairSet(r.kind)
                                    THEN {[t |-> "file", kind |-> r.kind, seq |-> <<r.first, g>>] : g \in PairSet(r.kind)} ELSE {})
    [] r.t = "val-root"    -> {x \in ValCases : x.vc = r.vc}
    [] r.t = "fill-root"   -> {[t |-> "fill", ip |-> r.ip, f |-> f] : f \in OperatorForms(r.ip)}

Init == c \in Roots /\ done = FALSE
Next == ~done /\ done' = TRUE /\ c' \in Expand(c)
Spec == Init /\ [][Next]_vars

---------------------------------------------------------------------------
\* what a relational class promises about the new value `new` of a field of width w, stated on the
\* relation itself and not on the way NewValue computes it: new and the sibling are equal; one step
\* apart (in the arithmetic of the field's width); their sum is exactly 2^(8w) (wraps to zero) or
\* exactly 2^(8w-1) (one above the largest signed number of that width)
RelHolds(vc, w, new, pb, nb) ==
  LET s == IF vc \in PrevClasses THEN pb ELSE nb IN
  /\ Len(new) = w /\ Len(s) = w
  /\ CASE vc \in {"eqprev", "eqnext"}         -> new = s
        [] vc \in {"prev+1", "next+1"}         -> Dec(new) = s /\ AddC(s, BytesOf(1, w), 0) = new
        [] vc \in {"prev-1", "next-1"}         -> Inc(new) = s /\ AddC(new, BytesOf(1, w), 0) = s
        [] vc \in {"uwrap-prev", "uwrap-next"} -> AddC(new, s, 0) = Zeros(w) /\ (s # Zeros(w) => new # Zeros(w))
        [] vc \in {"swrap-prev", "swrap-next"} -> AddC(new, s, 0) = Hi80(w)

\* what a derived class promises about the new value `new` of a field of width w for which the other fields imply
\* dv, stated on the relation and not on the way NewValue computes it (in the arithmetic of the field's width):
\* new + 1 = dv; new + new = dv or new + new + 1 = dv
DerHolds(vc, w, new, dv) ==
  /\ Len(new) = w
  /\ CASE vc = "der-1"    -> Inc(new) = BytesOf(dv, w)
        [] vc = "der-half" -> Dbl(new) = BytesOf(dv, w) \/ Inc(Dbl(new)) = BytesOf(dv, w)

\* what a bit class promises about the new value `new` of a field that held `old`, stated with the bitwise
\* exclusive-or of the Bitwise module and not with the arithmetic of FlipBit: old XOR new has exactly the bit
\* the class names - in the byte that holds it the XOR is that power of two (counted by halving), in every
\* other byte it is zero - so exactly one bit differs, and toggling again gives the old value back
RECURSIVE Log2(_)
Log2(n) == IF n <= 1 THEN 0 ELSE 1 + Log2(n \div 2)
BitHolds(vc, old, new) ==
  LET w == Len(old)  n == BitNo(vc)  pos == w - (n \div 8) IN
  /\ Len(new) = w /\ n < 8 * w
  /\ \A k \in 1 .. w : IF k = pos THEN LET x == old[k] ^^ new[k] IN x > 0 /\ (x & (x - 1)) = 0 /\ Log2(x) = n % 8
                                   ELSE old[k] ^^ new[k] = 0
  /\ NewValue(vc, new, 0, 0, -1, -1, -1, <<>>, <<>>) = old

---------------------------------------------------------------------------
\* the model's own lemmas, checked on every file case (one evaluation of the faulted file, its view
\* and its expectation per case; Assert names the lemma that fails)
LemmasAndEmit ==
  done =>
    CASE c.t = "gen"  -> PrintT(<<"CASE", ToJson(c)>>)
      [] c.t = "val"  -> /\ Assert(c.vc \in RelClasses => RelHolds(c.vc, Len(c.old), NewValue(c.vc, c.old, c.flen, c.tlen, c.sv, c.pv, c.dv, c.pb, c.nb), c.pb, c.nb), "LemmaRelValue")
                         /\ Assert(c.vc \in DerClasses => DerHolds(c.vc, Len(c.old), NewValue(c.vc, c.old, c.flen, c.tlen, c.sv, c.pv, c.dv, c.pb, c.nb), c.dv), "LemmaDerValue")
                         /\ Assert(c.vc \in BitClasses => BitHolds(c.vc, c.old, NewValue(c.vc, c.old, c.flen, c.tlen, c.sv, c.pv, c.dv, c.pb, c.nb)), "LemmaBitValue")
                         /\ Assert(c.vc = "half" => LET n == NewValue(c.vc, c.old, c.flen, c.tlen, c.sv, c.pv, c.dv, c.pb, c.nb) IN
                                                     (Dbl(n) = c.old \/ Inc(Dbl(n)) = c.old) /\ n[1] < 128, "LemmaHalfValue")
                         /\ PrintT(<<"VAL", ToJson([vc |-> c.vc, old |-> c.old, flen |-> c.flen, tlen |-> c.tlen, sv |-> c.sv, pv |-> c.pv, dv |-> c.dv,
                                                     pb |-> c.pb, nb |-> c.nb,
                                                     new |-> NewValue(c.vc, c.old, c.flen, c.tlen, c.sv, c.pv, c.dv, c.pb, c.nb)])>>)
      [] c.t = "fill" -> LET lim == BufferLimit(c.ip)  k == FillCount(c.f, lim) IN
                         /\ Assert(FillHolds(c.f, lim, k) /\ ~Overfills(lim, k + c.f.room) /\ Overfills(lim, lim + 1), "LemmaFill")
                         /\ PrintT(<<"FILL", ToJson([ip |-> c.ip, op |-> c.f.op, m |-> c.f.m, rems |-> c.f.rems, room |-> c.f.room,
                                                      limit |-> lim, count |-> k])>>)
      [] c.t = "file" ->
           LET base == BaseFile(c.kind)
               bs   == ApplySeq(base, c.seq)
               v    == ViewOf(bs)
               e    == ContainerExpect(v)
           IN /\ Assert(Len(bs) <= Len(base), "LemmaBounded")
              /\ Assert(ExpectTotal(e), "LemmaTotal")
              /\ Assert(ViewSuffices(bs), "LemmaView")
              /\ Assert(\A k \in 1 .. Len(e.font.tabs) :
                           LET x == e.font.tabs[k] IN
                           (x.len # 0 /\ x.off # S!HUGE /\ x.len # S!HUGE /\ x.off + x.len > Len(bs)) => x.st = "Err",
                        "LemmaPastEof")
              /\ Assert(c.seq = <<>> =>
                           /\ e.read = "Ok" /\ e.kind = c.kind /\ e.prov[1] = "Ok"
                           /\ Len(e.font.tabs) = 2 /\ \A k \in 1 .. 2 : e.font.tabs[k].st \in {"Ok", "Inflate"},
                        "LemmaIntact")
              \* a single overwrite of the offset / length / checksum of record r leaves every other table as it was
              /\ Assert((Len(c.seq) = 1 /\ c.seq[1].k = "Overwrite" /\ c.seq[1].rec > 0 /\ c.seq[1].role \in {"offset", "length", "value"}) =>
                           LET e0 == ContainerExpect(ViewOf(base)) IN
                           /\ e.read = "Ok" /\ Len(e.font.tabs) = Len(e0.font.tabs)
                           /\ \A k \in 1 .. Len(e0.font.tabs) : k # c.seq[1].rec => e.font.tabs[k] = e0.font.tabs[k],
                        "LemmaNonInterference")
              \* a single reference-class overwrite makes the field read as the reference (the bytes of sv / pv), and a
              \* directory record whose offset is its own directory names the bytes of that directory
              /\ Assert((Len(c.seq) = 1 /\ c.seq[1].k = "Overwrite" /\ c.seq[1].vc \in RefClasses) =>
                           LET f == c.seq[1]  n == IF f.vc = "self" THEN f.sv ELSE f.pv IN
                           /\ n >= 0 /\ Window(bs, f.off, f.w) = BytesOf(n, f.w)
                           /\ (f.rec > 0 /\ e.read = "Ok" /\ f.rec <= Len(e.font.tabs)) => e.font.tabs[f.rec].off = n,
                        "LemmaRef")
              \* a single relational-class overwrite puts the field into the promised relation with its sibling as the
              \* sibling stands in the file; two directory records made to share a tag leave exactly the first of them
              \* reachable by that tag; a record whose offset / length is its neighbour's names the bytes its neighbour starts at
              /\ Assert((Len(c.seq) = 1 /\ c.seq[1].k = "Overwrite" /\ c.seq[1].vc \in RelClasses) =>
                           LET f  == c.seq[1]
                               sp == IF f.vc \in PrevClasses THEN f.po ELSE f.no
                               q  == IF f.vc \in PrevClasses THEN f.rec - 1 ELSE f.rec + 1        \* the sibling record
                               e0 == ContainerExpect(ViewOf(base))
                           IN /\ sp >= 0 /\ Window(bs, sp, f.w) = Window(base, sp, f.w)
                              /\ RelHolds(f.vc, f.w, Window(bs, f.off, f.w), Sibling(bs, f.po, f.w), Sibling(bs, f.no, f.w))
                              /\ (f.rec > 0 /\ e.read = "Ok" /\ e0.read = "Ok" /\ Len(e.font.tabs) = Len(e0.font.tabs) /\ q >= 1 /\ q <= Len(e.font.tabs)
                                   /\ f.rec <= Len(e.font.tabs)) =>
                                    /\ (f.role = "offset" /\ f.vc \in {"eqprev", "eqnext"}) => e.font.tabs[f.rec].off = e0.font.tabs[q].off
                                    /\ (f.role = "index" /\ f.vc \in {"eqprev", "eqnext"}) =>
                                          /\ e.font.tags[f.rec] = e.font.tags[q]
                                          /\ e.font.tabs[IF q < f.rec THEN q ELSE f.rec].first
                                          /\ ~e.font.tabs[IF q < f.rec THEN f.rec ELSE q].first,
                        "LemmaRel")
              \* a single derived-class overwrite makes the field disagree with the value the rest of the file implies in the
              \* promised way; a directory record of a bare font / collection member whose length is one less than its table's
              \* still names a range inside the file: the table is Ok and one byte shorter (the consumer is handed less data
              \* than the table's own fields ask for - that is the point of the class)
              /\ Assert((Len(c.seq) = 1 /\ c.seq[1].k = "Overwrite" /\ c.seq[1].vc \in DerClasses) =>
                           LET f == c.seq[1] IN
                           /\ f.dv >= 1 /\ DerHolds(f.vc, f.w, Window(bs, f.off, f.w), f.dv)
                           /\ (f.rec > 0 /\ f.role = "length" /\ c.kind # "woff" /\ e.read = "Ok" /\ f.rec <= Len(e.font.tabs)) =>
                                 /\ e.font.tabs[f.rec].st = "Ok"
                                 /\ e.font.tabs[f.rec].len = (IF f.vc = "der-1" THEN f.dv - 1 ELSE f.dv \div 2),
                        "LemmaDer")
              \* a single bit-class overwrite leaves every byte of the file but one as it was and toggles the named bit there
              /\ Assert((Len(c.seq) = 1 /\ c.seq[1].k = "Overwrite" /\ c.seq[1].vc \in BitClasses) =>
                           LET f == c.seq[1]  at == f.off + f.w - (BitNo(f.vc) \div 8) IN
                           /\ Len(bs) = Len(base) /\ HasBit(f.vc, f.w)
                           /\ BitHolds(f.vc, Window(base, f.off, f.w), Window(bs, f.off, f.w))
                           /\ \A q \in 1 .. Len(bs) : q # at => bs[q] = base[q],
                        "LemmaBit")
              /\ PrintT(<<"FILE", ToJson([kind |-> c.kind, base |-> base, seq |-> c.seq, bytes |-> bs, view |-> v])>>)

Sanity ==
  /\ NewValue("dec", <<0, 0>>, 0, 0, -1, -1, -1, <<>>, <<>>) = <<255, 255>>
  /\ NewValue("dbl", <<128, 1>>, 0, 0, -1, -1, -1, <<>>, <<>>) = <<0, 2>>
  /\ NewValue("filelen", <<9, 9>>, 65537, 0, -1, -1, -1, <<>>, <<>>) = <<0, 1>>
  /\ NewValue("self", <<9, 9>>, 0, 0, 258, -1, -1, <<>>, <<>>) = <<1, 2>>
  /\ NewValue("parent", <<9>>, 0, 0, 7, 300, -1, <<>>, <<>>) = <<44>>
  /\ NewValue("eqprev", <<9, 9>>, 0, 0, -1, -1, -1, <<1, 2>>, <<3, 4>>) = <<1, 2>>
  /\ NewValue("eqnext", <<9, 9>>, 0, 0, -1, -1, -1, <<1, 2>>, <<3, 4>>) = <<3, 4>>
  /\ NewValue("prev+1", <<9, 9>>, 0, 0, -1, -1, -1, <<1, 255>>, <<3, 4>>) = <<2, 0>>
  /\ NewValue("next-1", <<9, 9>>, 0, 0, -1, -1, -1, <<1, 2>>, <<3, 0>>) = <<2, 255>>
  /\ NewValue("prev-1", <<9>>, 0, 0, -1, -1, -1, <<0>>, <<3>>) = <<255>>
  /\ NewValue("next+1", <<9>>, 0, 0, -1, -1, -1, <<0>>, <<255>>) = <<0>>
  /\ NewValue("uwrap-next", <<9, 9>>, 0, 0, -1, -1, -1, <<>>, <<0, 5>>) = <<255, 251>>
  /\ NewValue("uwrap-prev", <<9, 9>>, 0, 0, -1, -1, -1, <<0, 0>>, <<>>) = <<0, 0>>
  /\ NewValue("swrap-prev", <<9, 9>>, 0, 0, -1, -1, -1, <<0, 5>>, <<>>) = <<127, 251>>       \* 0x7ffb + 5 = 0x8000
  /\ NewValue("swrap-next", <<9, 9>>, 0, 0, -1, -1, -1, <<>>, <<255, 156>>) = <<128, 100>>   \* -32668 + (-100) = -32768
  /\ HasRel("eqprev", 2, <<1, 2>>, <<>>) /\ ~HasRel("eqnext", 2, <<1, 2>>, <<>>) /\ HasRel("max", 2, <<>>, <<>>)
  /\ ClassApplies("eqnext", "value") /\ ~ClassApplies("eqnext", "version") /\ ~ClassApplies("self", "value")
  /\ PrevClasses \cap NextClasses = {} /\ Cardinality(RelClasses) = 10
  /\ ClassApplies("self", "offset") /\ ~ClassApplies("parent", "count") /\ ClassApplies("max", "count")
  /\ ~HasRef("self", -1, 3) /\ HasRef("zero", -1, -1)
  /\ Half(<<1, 0, 0, 1>>) = <<0, 128, 0, 0>>
  /\ NewValue("half", <<1, 1>>, 0, 0, -1, -1, -1, <<>>, <<>>) = <<0, 128>>
  /\ NewValue("der-1", <<9, 9>>, 0, 0, -1, -1, 256, <<>>, <<>>) = <<0, 255>>
  /\ NewValue("der-half", <<9>>, 0, 0, -1, -1, 9, <<>>, <<>>) = <<4>>
  /\ NewValue("der-1", <<9>>, 0, 0, -1, -1, 65537, <<>>, <<>>) = <<0>>
  /\ HasDer("der-1", 1) /\ ~HasDer("der-1", 0) /\ ~HasDer("der-half", -1) /\ HasDer("dec", -1)
  /\ ClassApplies("der-1", "length") /\ ClassApplies("der-half", "count") /\ ClassApplies("der-1", "offset") /\ ~ClassApplies("der-1", "index") /\ ClassApplies("half", "version")
  /\ NewValue("bit0", <<0, 4>>, 0, 0, -1, -1, -1, <<>>, <<>>) = <<0, 5>>
  /\ NewValue("bit3", <<0, 12>>, 0, 0, -1, -1, -1, <<>>, <<>>) = <<0, 4>>            \* cmap format 12 -> 4
  /\ NewValue("bit15", <<0, 1>>, 0, 0, -1, -1, -1, <<>>, <<>>) = <<128, 1>>
  /\ NewValue("bit6", <<3>>, 0, 0, -1, -1, -1, <<>>, <<>>) = <<67>>                 \* WOFF2 hmtx entry: transform version 0 -> 1
  /\ NewValue("bit8", <<1, 2, 3, 4>>, 0, 0, -1, -1, -1, <<>>, <<>>) = <<1, 2, 2, 4>>
  /\ HasBit("bit7", 1) /\ ~HasBit("bit8", 1) /\ HasBit("bit15", 2) /\ HasBit("max", 1)
  /\ ClassApplies("bit3", "version") /\ ~ClassApplies("bit3", "value") /\ ~ClassApplies("bit0", "count")
  /\ BitHolds("bit9", <<255, 255>>, <<253, 255>>) /\ ~BitHolds("bit9", <<255, 255>>, <<252, 255>>) /\ ~BitHolds("bit9", <<255, 255>>, <<255, 253>>)
  /\ Cardinality(BitClasses) = 16 /\ \A b \in BitClasses : BitNo(b) \in 0 .. 15
  /\ Cardinality(ValueClasses) = 42
  /\ ~Safe("Panic") /\ ~Safe("Timeout") /\ Safe("Err")
=============================================================================
