CONSTANTS
  SeqLen = 3
SPECIFICATION Spec
INVARIANTS PutOnlyWhenEmpty CacheHoldsPlain Filled Emit
CHECK_DEADLOCK FALSE
