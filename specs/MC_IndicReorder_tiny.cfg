CONSTANTS
  Tier = "tiny"
SPECIFICATION Spec
INVARIANTS SearchInv AtEnd
CHECK_DEADLOCK FALSE
