CONSTANTS
  CodeKeys = FALSE
  HasFV = TRUE
  HasImages = TRUE
  StoreFailed = FALSE
  PosKeyMode = "abs"
  IdxKeyMode = "abs"
  ImgKeepMode = "none"
  LookupsCap = 0
  MaxDepth = 4
  MaxDepthDmg = 3
  MaxDepthCollide = 3
  Families = {"intact", "dmg", "collide", "img", "fill", "scopes"}
  ImgCounts = {2, 3}
  ImgFilterMode = "own"
  MaxImgFilters = 3
  FillKeys = 150
  FillLangs = 100
  FillLookups = 150
  MaxDepthScopes = 2
SPECIFICATION Spec
VIEW View
INVARIANTS AllPure ModelExact
CHECK_DEADLOCK FALSE
