CONSTANTS
  CodeKeys = FALSE
  HasFV = TRUE
  HasImages = TRUE
  StoreFailed = FALSE
  PosKeyMode = "abs"
  IdxKeyMode = "abs"
  MaxDepth = 4
  MaxDepthDmg = 3
  MaxDepthCollide = 3
  Families = {"intact", "dmg", "collide"}
SPECIFICATION Spec
VIEW View
INVARIANTS AllPure ModelExact
CHECK_DEADLOCK FALSE
