CONSTANTS
  CodeKeys = FALSE
  HasFV = TRUE
  HasImages = TRUE
  MaxDepth = 4
SPECIFICATION Spec
VIEW View
INVARIANTS AllPure ModelExact
CHECK_DEADLOCK FALSE
