--------------------------- MODULE MC_Preprocess ---------------------------
(***************************************************************************)
(* Bounded exhaustive exploration of Preprocess and generator of replay    *)
(* cases (spec -> impl).                                                   *)
(*                                                                         *)
(* Init picks a script tag and a reading of the named deviations; Extend   *)
(* builds EVERY string up to the script's length bound over the alphabet of *)
(* nine real code points (one representative per abstract class: base,     *)
(* marks of the classes the rules distinguish, the characters the          *)
(* script's decompositions mention, a class-0 mark / joiner).  Each Next   *)
(* step performs ONE primitive rearrangement (one stage of the script's    *)
(* pipeline).  Invariants:                                                 *)
(*   StepOK    the primitive just taken satisfies Preprocess!StageOK       *)
(*   GlobalOK  content and bases are preserved w.r.t. the ORIGINAL input   *)
(*   FinalOK   the finished text is related to the input by the property   *)
(*             (RelFailures = {}), and stepping agrees with Expected       *)
(*   Emit      prints one CASE per finished "doc" state: input, expected   *)
(*             output, alternative outputs allowed by Dev_* readings,      *)
(*             stages that changed the text (vacuity counters)             *)
(* The class table is read from the file named by env C17_MCC, which the   *)
(* driver dumps from allsorts before TLC starts; its values are checked    *)
(* against ModifiedCcc.tla by MC_ModifiedCcc (a separate, earlier step).   *)
(***************************************************************************)
EXTENDS Preprocess, SequencesExt

CONSTANT LenOf          \* tag -> longest string explored

VARIABLES tag,    \* script tag handed to preprocess_text
          alpha,  \* name of the alphabet the input is drawn from
          rd,     \* reading of the named deviations
          inp,    \* the input text
          k,      \* -1 while the input is being built, then the number of stages performed
          prev, cur,   \* text before / after the last stage
          chg     \* stages that changed the text (vacuity counters)
vars == <<tag, alpha, rd, inp, k, prev, cur, chg>>

\* ---- alphabets: nine code points per script tag ------------------------------
Alpha ==
  [ arab |-> {\h0628, \h0651, \h064E, \h0650, \h0654, \h06E3, \h0653, \h065C, \h034F},
    \* beh, shadda(33), fatha(30), kasra(32), hamza above(230 MCM), small low seen(220 MCM),
    \* maddah(230), dot below(220), CGJ(class-0 mark)
    arb2 |-> {\h0628, \h0651, \h0670, \h0655, \h0658, \h06DC, \h0656, \h0301, \h200D},
    \* second Arabic alphabet: superscript alef(35), hamza below(220 MCM), noon ghunna(230 MCM),
    \* small high seen(230 MCM), subscript alef(220), Latin acute(230), ZWJ
    syrc |-> {\h0712, \h0730, \h0731, \h0711, \h0651, \h0654, \h034F, \h0743, \h0744},
    latn |-> {\h0061, \h0301, \h0323, \h0327, \h0334, \h035C, \h0345, \h200D, \hFE0F},
    hebr |-> {\h05D1, \h05BC, \h05B8, \h05B0, \h05C1, \h05BF, \h0591, \h05AB, \h200D},
    thai |-> {\h0E01, \h0E33, \h0E49, \h0E48, \h0E38, \h0E3A, \h0E4D, \h0E34, \h0E32},
    lao  |-> {\h0E81, \h0EB3, \h0EC9, \h0EC8, \h0EB8, \h0EBA, \h0ECD, \h0EB4, \h0EB2},
    deva |-> {\h0915, \h0930, \h094D, \h093C, \h0905, \h093E, \h0907, \h0946, \h200D},
    beng |-> {\h0995, \h09AF, \h09BC, \h09CD, \h09CB, \h09CC, \h0985, \h09BE, \h09DF},
    guru |-> {\h0A15, \h0A3C, \h0A4D, \h0A05, \h0A3E, \h0A72, \h0A3F, \h0A73, \h0A41},
    gujr |-> {\h0A95, \h0ABC, \h0ACD, \h0A85, \h0ABE, \h0AC5, \h0AC8, \h200C, \h25CC},
    orya |-> {\h0B15, \h0B3C, \h0B4D, \h0B48, \h0B4B, \h0B4C, \h0B05, \h0B3E, \h0B57},
    taml |-> {\h0B95, \h0BCD, \h0BCA, \h0BCB, \h0BCC, \h0BC6, \h0BBE, \h0BD7, \h200D},
    telu |-> {\h0C15, \h0C4D, \h0C48, \h0C12, \h0C55, \h0C56, \h0C4C, \h0C46, \h0C3F},
    knda |-> {\h0C95, \h0CB0, \h0CCD, \h200D, \h0CBC, \h0CCB, \h0CC0, \h0C89, \h0CBE},
    mlym |-> {\h0D15, \h0D4D, \h0D4A, \h0D4B, \h0D4C, \h0D12, \h0D3E, \h0D57, \h0D07},
    sinh |-> {\h0D9A, \h0DCA, \h0DDD, \h0DDC, \h0DDA, \h0DDE, \h0D91, \h0DD9, \h0D85},
    khmr |-> {\h1780, \h17D2, \h17BE, \h17C4, \h17C1, \h17C6, \h17DD, \h17C5, \h17CB},
    mymr |-> {\h1000, \h1037, \h1039, \h103A, \h102B, \h1031, \h200D, \h0301, \h0323} ]

\* the alphabet names that are not script tags themselves
TagOf(a) == CASE a = "arb2" -> "arab" [] a = "lao" -> "lao " [] OTHER -> a

Init ==
  \E a \in DOMAIN Alpha : \E r \in Readings(TagOf(a)) :
     /\ tag = TagOf(a) /\ alpha = a /\ rd = r
     /\ inp = <<>> /\ k = -1 /\ prev = <<>> /\ cur = <<>> /\ chg = {}

\* building the input: every string over the alphabet up to the bound (a tree, so that TLC's
\* workers share the enumeration)
Extend ==
  /\ k = -1 /\ Len(inp) < LenOf[alpha]
  /\ \E c \in Alpha[alpha] : inp' = Append(inp, c)
  /\ UNCHANGED <<tag, alpha, rd, k, prev, cur, chg>>
Start ==
  /\ k = -1
  /\ k' = 0 /\ prev' = inp /\ cur' = inp
  /\ UNCHANGED <<tag, alpha, rd, inp, chg>>
\* one primitive rearrangement
Stage ==
  /\ k >= 0 /\ k < Len(Stages(tag))
  /\ k' = k + 1
  /\ prev' = cur
  /\ cur' = ApplyStage(Stages(tag)[k + 1], rd, cur)
  /\ chg' = IF cur' # cur THEN chg \cup {Stages(tag)[k + 1]} ELSE chg
  /\ UNCHANGED <<tag, alpha, rd, inp>>

Next == Extend \/ Start \/ Stage
Spec == Init /\ [][Next]_vars

---------------------------------------------------------------------------
StepOK   == k > 0 => StageOK(tag, Stages(tag)[k], prev, cur)
GlobalOK == k > 0 => ContentRel(Family(tag), inp, cur) /\ SkeletonRel(Family(tag), inp, cur)
Done     == k = Len(Stages(tag))
FinalOK  == Done => /\ RelFailures(tag, inp, cur) = {}
                    /\ cur = Expected(tag, rd, inp)

Alts == IF Cardinality(Readings(tag)) = 1 THEN {} ELSE {Expected(tag, r, inp) : r \in Readings(tag)} \ {cur}

Emit ==
  (Done /\ rd = "doc") =>
     \* expm / altm: what Font::map_glyphs must show as the unicodes of its glyphs (variation
     \* selectors are consumed by glyph mapping); gen: the generator the text comes from
     LET alts == SetToSeq(Alts) IN
     PrintT(<<"CASE", ToJson([tag |-> tag, gen |-> alpha, in |-> inp, exp |-> cur, expm |-> NoVS(cur),
                              alt |-> alts, altm |-> [i \in DOMAIN alts |-> NoVS(alts[i])],
                              ch |-> SetToSeq(chg)])>>)

\* ---- bounds -------------------------------------------------------------------
LenQuick    == [a \in DOMAIN Alpha |-> 4]
LenThorough == [a \in DOMAIN Alpha |-> 5]
=============================================================================
