------------------------- MODULE MC_PreprocessSweep -------------------------
(***************************************************************************)
(* Second generator for C17 (spec -> impl): SWEEPS.                        *)
(*                                                                         *)
(* MC_Preprocess enumerates every string up to a length bound over nine    *)
(* representative code points per alphabet.  That leaves the question      *)
(* "and every OTHER character of the script?" to random sampling.  This    *)
(* module answers it by exhaustion in the other direction: short fixed     *)
(* shapes, with one or two positions running over WHOLE Unicode blocks (or *)
(* over all 934 combining marks), and long mark runs at the sizes where    *)
(* sorting algorithms switch strategy.  The state machine, the primitive   *)
(* steps and all four invariants (StepOK, GlobalOK, FinalOK, Emit) are     *)
(* those of MC_Preprocess; only Init differs.  `alpha` carries the name of *)
(* the sweep (printed as `gen` in the CASE line, counted by the driver).   *)
(*                                                                         *)
(*  pairs    Indic tag t: <<a, b>>, a over Block(t), b over the dependent   *)
(*           vowel / sign columns of the block (thorough: whole block):    *)
(*           a dotted circle between EXACTLY the prohibited pairs          *)
(*  xpairs   every tag x every prohibited pair of every script, in three   *)
(*           contexts (the table is not keyed by script; non-Indic tags    *)
(*           must not insert anything)                                     *)
(*  reph     Indic tag t: RA HALANT c, c over the Devanagari block          *)
(*  single   every tag t: B c, B ACUTE c, each followed by nothing, a      *)
(*           nukta, U+0C55; c over Block(t) and over every character a     *)
(*           decomposition of ANY script mentions (mixed-script runs):     *)
(*           exactly the documented vowels are split, in every script      *)
(*  am       thai / lao: B c AM, B c TONE AM, B TONE c AM; c over the Thai   *)
(*           and the Lao block, AM both SARA AMs: the nikhahit passes       *)
(*           exactly the above-base marks                                  *)
(*  amtones  thai / lao: B t1..tn AM, n = 4..6, and B x t1..tn AM t, n =    *)
(*           1..3, x a preceding non-mark (SARA AA, SARA E, space, AM)     *)
(*  marks    arab, syrc, latn: six shapes with m over all 934 marks: the   *)
(*           modifier combining marks and the shaddas are exactly those    *)
(*           of UTR #53, and only under the Arabic tag                     *)
(*  yan      Indic tag t: YA c NUKTA, YA NUKTA c, c YA NUKTA, c over the     *)
(*           Bengali block (recomposition only under `beng`, only of the   *)
(*           adjacent pair after sorting)                                  *)
(*  raswap   Indic tag t: five shapes around RA HALANT ZWJ, c over the      *)
(*           Kannada block and the joiners                                 *)
(*  long     B m1 .. mL (and B run B run), L at the boundary sizes of the  *)
(*           sorting routines (insertion sort up to 20, small-sort         *)
(*           networks up to 32 / 64, ...), the run a fixed interleaving of *)
(*           five marks of the script two pairs of which share a class     *)
(***************************************************************************)
EXTENDS MC_Preprocess

CONSTANTS PairsFull,     \* BOOLEAN: second member of `pairs` runs over the whole block
          LongLens       \* lengths of the long mark runs

Block(t) ==
  CASE t = "deva" -> \h0900 .. \h097F  [] t = "beng" -> \h0980 .. \h09FF
    [] t = "guru" -> \h0A00 .. \h0A7F  [] t = "gujr" -> \h0A80 .. \h0AFF
    [] t = "orya" -> \h0B00 .. \h0B7F  [] t = "taml" -> \h0B80 .. \h0BFF
    [] t = "telu" -> \h0C00 .. \h0C7F  [] t = "knda" -> \h0C80 .. \h0CFF
    [] t = "mlym" -> \h0D00 .. \h0D7F  [] t = "sinh" -> \h0D80 .. \h0DFF
    [] t = "thai" -> \h0E00 .. \h0E7F  [] t = "lao " -> \h0E80 .. \h0EFF
    [] t = "khmr" -> \h1780 .. \h17FF
    [] t \in {"mymr", "mym2"} -> \h1000 .. \h109F
    [] t = "arab" -> (\h0600 .. \h06FF) \cup (\h0870 .. \h08FF)
    [] t = "syrc" -> \h0700 .. \h074F
    [] t = "hebr" -> \h0590 .. \h05FF
    [] t = "tibt" -> \h0F00 .. \h0FFF
    [] OTHER      -> \h0300 .. \h036F            \* latn, grek, cyrl, DFLT: combining diacritics

\* the columns of an ISCII-derived block (and of Sinhala) that hold signs and dependent vowels
PairSecond(t) == IF PairsFull THEN Block(t) ELSE {c \in Block(t) : (c % 128) \in (58 .. 99)}

AllTags == {"arab", "syrc", "latn", "grek", "cyrl", "hebr", "thai", "lao ", "khmr", "mymr", "mym2",
            "DFLT", "tibt"} \cup IndicTags

BaseOf(t) ==
  CASE t = "deva" -> \h0915 [] t = "beng" -> \h0995 [] t = "guru" -> \h0A15 [] t = "gujr" -> \h0A95
    [] t = "orya" -> \h0B15 [] t = "taml" -> \h0B95 [] t = "telu" -> \h0C15 [] t = "knda" -> \h0C95
    [] t = "mlym" -> \h0D15 [] t = "sinh" -> \h0D9A [] t = "thai" -> \h0E01 [] t = "lao " -> \h0E81
    [] t = "khmr" -> \h1780 [] t \in {"mymr", "mym2"} -> \h1000 [] t = "arab" -> \h0628
    [] t = "syrc" -> \h0712 [] t = "hebr" -> \h05D1 [] t = "tibt" -> \h0F40 [] t = "grek" -> \h03B1
    [] t = "cyrl" -> \h0430 [] OTHER -> \h0061

\* every character some decomposition / recomposition / swap / insertion rule mentions
Specials == SplitMatras \cup AmSet \cup KhmerSplit \cup Nikhahits
            \cup {Yya, Ya, Nukta, KhmerE, DC, ZWJ, \h200C, KRa, KHalant, \h0E32, \h0EB2}

Acute == \h0301   DevaNukta == \h093C   TeluLen == \h0C55
ThaiTones == <<\h0E48, \h0E49, \h0E34>>
LaoTones  == <<\h0EC8, \h0EC9, \h0EB4>>
TonesOf(t) == IF t = "thai" THEN ThaiTones ELSE LaoTones
AmOf(t)    == IF t = "thai" THEN \h0E33 ELSE \h0EB3

\* five marks per script; [1] and [3], [2] and [4] share a combining class
LongMarks(t) ==
  CASE t = "latn" -> <<\h0301, \h0323, \h0300, \h0316, \h0327>>
    [] t = "syrc" -> <<\h0730, \h0731, \h0732, \h0734, \h0711>>
    [] t = "arab" -> <<\h0653, \h064E, \h0654, \h0618, \h0651>>
    [] t = "hebr" -> <<\h0592, \h0591, \h0593, \h0596, \h05BC>>
    [] t = "thai" -> <<\h0E49, \h0E38, \h0E48, \h0E39, \h0E3A>>
    [] t = "deva" -> <<\h0951, \h093C, \h0953, \h094D, \h0952>>
    [] t = "khmr" -> <<\h17DD, \h0323, \h0301, \h0316, \h17D2>>
    [] t = "tibt" -> <<\h0F72, \h0F74, \h0F7A, \h0F71, \h0F80>>
LongTags == {"latn", "syrc", "arab", "hebr", "thai", "deva", "khmr", "tibt"}
LongRun(t, n, step) == [i \in 1 .. n |-> LongMarks(t)[((i * step) % 5) + 1]]

SInit ==
  /\ k = -1 /\ prev = <<>> /\ cur = <<>> /\ chg = {}
  /\ \E t \in AllTags :
       /\ tag = t
       /\ \E r \in Readings(t) : rd = r
       /\ \/ /\ t \in IndicTags /\ alpha = "pairs"
             /\ \E a \in Block(t) : \E b \in PairSecond(t) : inp = <<a, b>>
          \/ /\ alpha = "xpairs"
             /\ \E p \in VowelPairs :
                  inp \in {<<p[1], p[2]>>, <<p[1], p[2], p[2]>>, <<p[1], p[1], p[2]>>,
                           <<BaseOf(t), p[1], p[2], DevaNukta>>}
          \/ /\ t \in IndicTags /\ alpha = "reph"
             /\ \E c \in Block("deva") :
                  inp \in {<<RephRa, RephHalant, c>>, <<c, RephHalant, RephI>>,
                           <<RephRa, RephHalant, RephI, c>>}
          \/ /\ alpha = "single"
             /\ \E c \in Block(t) \cup Specials :
                  \E pre \in {<<BaseOf(t)>>, <<BaseOf(t), Acute>>} :
                    \E post \in {<<>>, <<DevaNukta>>, <<TeluLen>>} : inp = pre \o <<c>> \o post
          \/ /\ t \in {"thai", "lao "} /\ alpha = "am"
             /\ \E c \in Block("thai") \cup Block("lao ") : \E am \in AmSet :
                  inp \in {<<BaseOf(t), c, am>>, <<BaseOf(t), c, TonesOf(t)[1], am>>,
                           <<BaseOf(t), TonesOf(t)[2], c, am>>}
          \/ /\ t \in {"thai", "lao "} /\ alpha = "amtones"
             /\ \/ \E n \in 4 .. 6 : \E f \in [1 .. n -> 1 .. 3] :
                     inp = <<BaseOf(t)>> \o [i \in 1 .. n |-> TonesOf(t)[f[i]]] \o <<AmOf(t)>>
                \/ \E n \in 1 .. 3 : \E f \in [1 .. n -> 1 .. 3] :
                     \E x \in {\h0E32, \h0E40, \h0020, \h0E33, \h0EB3, \h0EC0} :
                       inp = <<BaseOf(t), x>> \o [i \in 1 .. n |-> TonesOf(t)[f[i]]]
                               \o <<AmOf(t), TonesOf(t)[1]>>
          \/ /\ t \in {"arab", "syrc", "latn"} /\ alpha = "marks"
             /\ \E m \in MarkSet :
                  inp \in {<<BaseOf(t), \h064E, m>>, <<BaseOf(t), m, \h064E>>, <<BaseOf(t), \h0653, m>>,
                           <<BaseOf(t), \h065C, m>>, <<BaseOf(t), m, \h0651>>, <<BaseOf(t), \h0654, m>>}
          \/ /\ t \in IndicTags /\ alpha = "yan"
             /\ \E c \in Block("beng") :
                  inp \in {<<Ya, c, Nukta>>, <<Ya, Nukta, c>>, <<c, Ya, Nukta>>, <<Ya, c, Nukta, Nukta>>}
          \/ /\ t \in IndicTags /\ alpha = "raswap"
             /\ \E c \in Block("knda") \cup {ZWJ, \h200C} :
                  inp \in {<<KRa, KHalant, c>>, <<KRa, c, ZWJ>>, <<c, KHalant, ZWJ>>,
                           <<c, KRa, KHalant, ZWJ>>, <<KRa, KHalant, ZWJ, c>>}
          \/ /\ t \in LongTags /\ alpha = "long"
             /\ \E n \in LongLens : \E step \in 1 .. 3 :
                  LET run == LongRun(t, n, step) IN
                  inp \in {<<BaseOf(t)>> \o run,
                           <<BaseOf(t)>> \o run \o <<BaseOf(t)>> \o LongRun(t, n + 1, step)}
                        \cup (IF t = "thai" THEN {<<BaseOf(t)>> \o run \o <<\h0E33>>} ELSE {})

SNext == Start \/ Stage
SSpec == SInit /\ [][SNext]_vars

LongQuick    == {19, 20, 21, 22, 32, 33, 50, 65}
LongThorough == {1, 2, 19, 20, 21, 22, 31, 32, 33, 34, 48, 50, 63, 64, 65, 66, 100, 129, 200}
LenNone      == [a \in {} |-> 0]
=============================================================================
