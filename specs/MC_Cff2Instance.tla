--------------------------- MODULE MC_Cff2Instance ---------------------------
(***************************************************************************)
(* C12, CFF2 part: bounded check of Cff2Instance and generator of CFF2     *)
(* variable fonts ("generation 3", CASE field gen = 3, family cff2).       *)
(*                                                                         *)
(* An abstract CFF2 variable font:                                         *)
(*   regions   the VariationRegionList (1 or 2 axes)                       *)
(*   ivds      the ItemVariationData sub-tables: region index lists of     *)
(*             DIFFERING lengths (k = 0, 1, 2, 3, 4), not prefixes of the  *)
(*             region list, two of the same length over other regions      *)
(*   fds       Font DICTs: the vsindex entry of the Private DICT (-1: no   *)
(*             entry, or any ItemVariationData) and its local subroutines  *)
(*   sel       FDSelect (format 0 / 3; round robin or blocks of glyphs)    *)
(*   gsubrs    global subroutines (one per region count; called from       *)
(*             glyphs whose ItemVariationData differ)                      *)
(*   glyphs    abstract charstrings: an optional vsindex and items         *)
(*               op    a path / move / hint operator whose arguments are   *)
(*                     MASTER values [d default, ds one delta per region   *)
(*                     of the ItemVariationData in effect], and how they   *)
(*                     are blended: one blend for all (n = m), one blend   *)
(*                     per argument (n = 1), plain first argument + blend, *)
(*                     two blends, or no blend                             *)
(*               call  callsubr / callgsubr                                *)
(* The ItemVariationData in effect (EffIvd) is stated here once more, on   *)
(* the abstract font: the glyph's own vsindex, else the vsindex entry of   *)
(* the Private DICT of its Font DICT, else 0.                              *)
(*                                                                         *)
(* Design check (CffCase), for every font, glyph and tuple: the charstring *)
(* machine T2 run on the encoded bytes at the tuple                        *)
(*   - halts "done" with the commands of the default master's shape,       *)
(*   - every coordinate is  D_0 + SUM_j S_j * D_j  where D_0 / D_j are the *)
(*     coordinates of the SAME program with every argument replaced by its *)
(*     default / its delta for region j (the path operators are linear),   *)
(*     and S_j is Variation!RegionScalar of region j of EffIvd at the      *)
(*     tuple - exact rationals; equal when the machine says it was exact,  *)
(*     else  0 <= exact - machine < steps  (units of 2^-16),               *)
(*   - at the default tuple the commands are D_0.                          *)
(* That is the property's formula applied point-wise: the CFF2 blend       *)
(* machine realises the variation model of Variation.tla.                  *)
(* The same state prints one CASE with the bytes, the user tuples, the     *)
(* normalised tuples and the commands expected per tuple and glyph.        *)
(***************************************************************************)
EXTENDS Cff2Instance, Json, SequencesExt

CONSTANTS Tier         \* "quick" | "thorough"

VARIABLES c, done
vars == <<c, done>>

U == 16384
Hf == 8192
Qt == 4096
Far == 24576
ONE == 65536
Thorough == Tier = "thorough"

\* ---- bytes -------------------------------------------------------------------------------------
Num(v) == T2!EncNum(v, T2!MinForm(v))          \* v scaled by 65536
NumI(n) == Num(n * ONE)

Arg(d, ds) == [d |-> d, ds |-> ds]
OpItem(op, args, style, mask) == [t |-> "op", op |-> op, args |-> args, style |-> style, mask |-> mask,
                                  g |-> FALSE, i |-> 0]
CallItem(g, i) == [t |-> "call", op |-> "", args |-> <<>>, style |-> "", mask |-> <<>>, g |-> g, i |-> i]

\* arguments from .. to of an operator in one blend: defaults, then k deltas per argument, then n
BlendGroup(args, from, to) ==
  FlattenSeq([i \in 1 .. to - from + 1 |-> Num(args[from + i - 1].d)])
  \o FlattenSeq([i \in 1 .. to - from + 1 |->
                   FlattenSeq([j \in 1 .. Len(args[from + i - 1].ds) |-> Num(args[from + i - 1].ds[j])])])
  \o NumI(to - from + 1) \o <<16>>

EncArgs(args, style) ==
  LET m == Len(args) IN
  CASE style = "plain" -> FlattenSeq([i \in 1 .. m |-> Num(args[i].d)])
    [] style = "all"   -> BlendGroup(args, 1, m)
    [] style = "each"  -> FlattenSeq([i \in 1 .. m |-> BlendGroup(args, i, i)])
    [] style = "tail"  -> Num(args[1].d) \o BlendGroup(args, 2, m)
    [] style = "split" -> BlendGroup(args, 1, m \div 2) \o BlendGroup(args, m \div 2 + 1, m)

ItemBytes(it) ==
  IF it.t = "op" THEN EncArgs(it.args, it.style) \o T2!OpCode(it.op) \o it.mask
  ELSE NumI(it.i - 107) \o (IF it.g THEN <<29>> ELSE <<10>>)
ProgBytes(items) == FlattenSeq([i \in 1 .. Len(items) |-> ItemBytes(items[i])])
GlyphBytes(g) == (IF g.vs >= 0 THEN NumI(g.vs) \o <<15>> ELSE <<>>) \o ProgBytes(g.items)

\* ---- the linear components of a program ------------------------------------------------------------
\* component 0: every argument its default; component j: every argument its delta for region j
PlainItem(it, j) ==
  [it EXCEPT !.args = [i \in 1 .. Len(it.args) |-> Arg(IF j = 0 THEN it.args[i].d ELSE it.args[i].ds[j], <<>>)],
             !.style = "plain"]
Inline(items, ls, gs) ==
  FlattenSeq([i \in 1 .. Len(items) |->
                IF items[i].t = "call" THEN (IF items[i].g THEN gs[items[i].i + 1] ELSE ls[items[i].i + 1])
                ELSE <<items[i]>>])
Component(flat, j) == ProgBytes([i \in 1 .. Len(flat) |-> PlainItem(flat[i], j)])

StaticFC == [kind |-> "cff2", nG |-> 0, nL |-> 0, gsubrs |-> <<>>, lsubrs |-> <<>>, comps |-> <<>>, seacOk |-> FALSE,
             charset |-> NoCharset, nGlyphs |-> 0, regions |-> <<>>, tuple |-> <<>>, dvs |-> 0]

\* ---- the abstract font -------------------------------------------------------------------------------
NG(cs) == Len(cs.glyphs)
FdOf(cs, gi) == cs.sel[gi]                                     \* gi 1-based, Font DICT 0-based
FdDvs(cs) == [f \in 1 .. Len(cs.fds) |-> cs.fds[f].dvs]
DvsEff(cs, fd) == IF cs.fds[fd + 1].dvs < 0 THEN 0 ELSE cs.fds[fd + 1].dvs
EffIvd(cs, gi) == IF cs.glyphs[gi].vs >= 0 THEN cs.glyphs[gi].vs ELSE DvsEff(cs, FdOf(cs, gi))
KOf(cs, ivd) == Len(cs.ivds[ivd + 1])
RegionsOf(cs) == [v \in 1 .. Len(cs.ivds) |-> [j \in 1 .. Len(cs.ivds[v]) |-> cs.regions[cs.ivds[v][j] + 1]]]
SubrTable(progs) == [i \in 1 .. Len(progs) |-> [i |-> i - 1, b |-> ProgBytes(progs[i])]]

\* everything but the tuple, evaluated once per glyph (TLC re-evaluates a function constructor at every application)
VarFC0(cs, gi) ==
  TLCEval([kind |-> "cff2", nG |-> Len(cs.gsubrs), nL |-> Len(cs.fds[FdOf(cs, gi) + 1].lsubrs),
           gsubrs |-> SubrTable(cs.gsubrs), lsubrs |-> SubrTable(cs.fds[FdOf(cs, gi) + 1].lsubrs),
           comps |-> <<>>, seacOk |-> FALSE, charset |-> NoCharset, nGlyphs |-> 0,
           regions |-> RegionsOf(cs), tuple |-> <<>>, dvs |-> PrivateVsindex(FdDvs(cs), FdOf(cs, gi))])
WithTuple(fc0, norm) == [fc0 EXCEPT !.tuple = norm]

HasBlend(items) == \E i \in 1 .. Len(items) : items[i].t = "op" /\ items[i].style # "plain"
GlyphBlends(cs, gi) == HasBlend(Inline(cs.glyphs[gi].items, cs.fds[FdOf(cs, gi) + 1].lsubrs, cs.gsubrs))

\* every argument of the glyph's (inlined) program has one delta per region of the ItemVariationData in effect
ShapeOK(cs) ==
  \A gi \in 1 .. NG(cs) :
    /\ EffIvd(cs, gi) < Len(cs.ivds)
    /\ \A it \in ToSet(Inline(cs.glyphs[gi].items, cs.fds[FdOf(cs, gi) + 1].lsubrs, cs.gsubrs)) :
         it.t = "op" /\ \A i \in 1 .. Len(it.args) : Len(it.args[i].ds) = KOf(cs, EffIvd(cs, gi))

\* ---- the binding check ---------------------------------------------------------------------------------
Clamp(v) == IF v < -U THEN -U ELSE IF v > U THEN U ELSE v
NormOf(user) == [k \in 1 .. Len(user) |-> Clamp(user[k] \div 4)]

RECURSIVE ExactFrom(_, _, _, _, _, _)
ExactFrom(scal, D, ci, pi, j, acc) ==          \* D: function over 0 .. k of command lists
  IF j > Len(scal) THEN acc
  ELSE ExactFrom(scal, D, ci, pi, j + 1,
                 IF QIsZero(scal[j]) THEN acc ELSE QAdd(acc, QMul(scal[j], QOfInt(D[j][ci].p[pi]))))
Exact(scal, D, ci, pi) == ExactFrom(scal, D, ci, pi, 1, QOfInt(D[0][ci].p[pi]))

CoordOK(v, e, m, steps) ==
  IF ~m.fuzzy THEN QCmp(e, QOfInt(v)) = 0
  ELSE QLe(QOfInt(v), e) /\ QCmp(e, QOfInt(v + (IF steps < 1 THEN 1 ELSE steps))) < 0

\* The same check in plain integers where the numbers allow it (TLC: 50x faster than the limb arithmetic of Fix):
\* a scalar of Variation!RegionScalar as a reduced fraction <<p, q>>, <<-1, 0>> if it does not fit
RECURSIVE Gcd(_, _)
Gcd(a, b) == IF b = 0 THEN a ELSE Gcd(b, a % b)
ScalInt(sq) ==
  IF QIsZero(sq) THEN <<0, 1>>
  ELSE IF ~(ZFits(sq.p) /\ ZFits(sq.q)) THEN <<-1, 0>>
  ELSE LET p == ZToInt(sq.p) q == ZToInt(sq.q) g == Gcd(p, q) IN
       IF q \div g > 32768 THEN <<-1, 0>> ELSE <<p \div g, q \div g>>
\* d * p / q for 0 <= p <= q <= 32768: [v, ex] the floor and whether it is the exact value
ProdInt(d, s) == LET a == d \div s[2] r == d % s[2] IN [v |-> a * s[1] + (r * s[1]) \div s[2], ex |-> (r * s[1]) % s[2] = 0]
RECURSIVE ExactIntFrom(_, _, _, _, _, _)
ExactIntFrom(si, D, ci, pi, j, acc) ==          \* acc = [v, ex]
  IF j > Len(si) THEN acc
  ELSE IF si[j][1] = 0 THEN ExactIntFrom(si, D, ci, pi, j + 1, acc)
  ELSE LET pr == ProdInt(D[j][ci].p[pi], si[j]) IN
       ExactIntFrom(si, D, ci, pi, j + 1, [v |-> acc.v + pr.v, ex |-> acc.ex /\ pr.ex])
CoordOKInt(v, x) == x.ex /\ x.v = v

\* rr = CffRun of the encoded glyph at norm; D its linear components; scal the exact scalars
BindOK(rr, D, scal, si, still) ==
  LET m == rr.m
      ints == ~m.fuzzy /\ \A j \in 1 .. Len(si) : si[j][2] > 0 IN
  /\ m.halt = "done"
  /\ CmdKinds(m.cmds) = CmdKinds(D[0])
  /\ \A ci \in 1 .. Len(m.cmds) :
       /\ Len(m.cmds[ci].p) = Len(D[0][ci].p)
       /\ \A pi \in 1 .. Len(m.cmds[ci].p) :
            IF ints THEN CoordOKInt(m.cmds[ci].p[pi], ExactIntFrom(si, D, ci, pi, 1, [v |-> D[0][ci].p[pi], ex |-> TRUE]))
            ELSE CoordOK(m.cmds[ci].p[pi], Exact(scal, D, ci, pi), m, rr.steps)
  /\ (still => m.cmds = D[0])

Components(cs, gi) ==
  LET flat == Inline(cs.glyphs[gi].items, cs.fds[FdOf(cs, gi) + 1].lsubrs, cs.gsubrs)
      k == KOf(cs, EffIvd(cs, gi))
  IN TLCEval([j \in 0 .. k |-> T2!Interp(StaticFC, Component(flat, j)).cmds])
Scalars(cs, ivd, norm) ==
  TLCEval([j \in 1 .. KOf(cs, ivd) |-> RegionScalar(norm, cs.regions[cs.ivds[ivd + 1][j] + 1])])

\* one (glyph, tuple): [ok, cmds, fuzzy, moved]
ScalInts(scal) == TLCEval([j \in 1 .. Len(scal) |-> ScalInt(scal[j])])
GlyphAtWith(rr, D, scal, still) ==
  [ok |-> BindOK(rr, D, scal, ScalInts(scal), still), cmds |-> rr.m.cmds, fuzzy |-> rr.m.fuzzy, moved |-> rr.m.cmds # D[0],
   stems |-> rr.m.nStems]
GlyphAt(cs, gi, norm, code, D, fc0) ==
  GlyphAtWith(CffRun(WithTuple(fc0, norm), code), D, Scalars(cs, EffIvd(cs, gi), norm), CffStill(norm))

UserSeq(cs) == SetToSeq(cs.users)
\* results: [g |-> [u |-> GlyphAt]]
GlyphResults(cs, gi, code, D, us, fc0) == [u \in 1 .. Len(us) |-> GlyphAt(cs, gi, NormOf(us[u]), code, D, fc0)]
Results(cs, us) ==
  TLCEval([gi \in 1 .. NG(cs) |-> GlyphResults(cs, gi, TLCEval(GlyphBytes(cs.glyphs[gi])), Components(cs, gi), us, VarFC0(cs, gi))])

\* ---- universe ---------------------------------------------------------------------------------------------
Z0 == <<0, 0, 0>>
P1 == <<0, U, U>>
M1 == <<-U, -U, 0>>
I1 == <<0, Hf, U>>
I2 == <<Hf, U, U>>
I6 == <<5461, 10923, U>>           \* thirds: scalars that are not dyadic (the machine floors, fuzzy)

Lay(nm) ==
  CASE nm = "A" -> [naxes |-> 2, regions |-> << <<P1, Z0>>, <<Z0, P1>> >>, ivds |-> << <<0>>, <<1>> >>]
    [] nm = "B" -> [naxes |-> 2, regions |-> << <<P1, Z0>>, <<Z0, P1>>, <<P1, P1>> >>,
                    ivds |-> << <<0, 1, 2>>, <<1>> >>]
    [] nm = "C" -> [naxes |-> 2, regions |-> << <<P1, Z0>>, <<Z0, P1>>, <<P1, P1>>, <<I1, Z0>>, <<M1, I2>> >>,
                    ivds |-> << <<0>>, <<1, 2>>, <<>>, <<3, 0, 2, 1>>, <<4, 1>> >>]
    [] nm = "T" -> [naxes |-> 1, regions |-> << <<P1>>, <<I1>>, <<I6>>, <<M1>>, <<I2>> >>,
                    ivds |-> << <<0>>, <<2, 1>>, <<3, 0>>, <<2>> >>]

FdConf(nm, nI) ==
  CASE nm = "d0" -> <<-1>>
    [] nm = "d1" -> <<1>>
    [] nm = "two" -> <<-1, 1>>
    [] nm = "rev" -> <<nI - 1, 0>>
    [] nm = "three" -> <<1, 0, nI - 1>>

\* shapes: <<operator, default arguments (units), varied, mask bytes>>
Shape(n) ==
  CASE n = 1 -> << <<"rmoveto", <<100, 0>>, TRUE, <<>>>>, <<"rlineto", <<0, 400>>, TRUE, <<>>>>,
                   <<"rlineto", <<300, 0>>, TRUE, <<>>>>, <<"rlineto", <<0, -400>>, FALSE, <<>>>> >>
    [] n = 2 -> << <<"rmoveto", <<50, -20>>, TRUE, <<>>>>,
                   <<"rlineto", <<10, 500, 200, 30, -40, -510>>, TRUE, <<>>>> >>
    [] n = 3 -> << <<"hmoveto", <<80>>, TRUE, <<>>>>, <<"hlineto", <<200, 300, -150>>, TRUE, <<>>>>,
                   <<"vlineto", <<-120, -50>>, TRUE, <<>>>> >>
    [] n = 4 -> << <<"vmoveto", <<-30>>, TRUE, <<>>>>, <<"rrcurveto", <<10, 100, 50, 60, 80, -20>>, TRUE, <<>>>>,
                   <<"hhcurveto", <<5, 40, 30, -60, 70>>, TRUE, <<>>>>, <<"rlineto", <<-200, -115>>, FALSE, <<>>>> >>
    [] n = 5 -> << <<"hstemhm", <<0, 50, 400, 60>>, TRUE, <<>>>>, <<"rmoveto", <<120, 10>>, TRUE, <<>>>>,
                   <<"hintmask", <<>>, FALSE, <<192>>>>, <<"rlineto", <<1200, 5, -600, 700>>, TRUE, <<>>>> >>
    [] n = 6 -> << <<"rmoveto", <<10, 20>>, TRUE, <<>>>>, <<"rlineto", <<100, 0, 0, 100>>, TRUE, <<>>>>,
                   <<"rmoveto", <<300, -50>>, TRUE, <<>>>>, <<"rlineto", <<-80, 10, 20, 90>>, TRUE, <<>>>> >>
    [] n = 7 -> << <<"rmoveto", <<0, 0>>, TRUE, <<>>>>, <<"vhcurveto", <<30, 40, 50, 60, 10>>, TRUE, <<>>>>,
                   <<"rcurveline", <<10, 20, 30, 40, 50, 60, -70, -80>>, TRUE, <<>>>>,
                   <<"hflex", <<20, 30, 15, 40, 40, 30, 20>>, TRUE, <<>>>> >>
NShapes == 7
Styles == <<"all", "each", "tail", "split">>

\* delta of argument i for region j, in units (zero, one / two / three byte numbers, both signs)
Dl(i, j) ==
  LET v == ((i * 37 + j * 101) % 61) - 30 IN
  IF v % 7 = 0 THEN 0 ELSE IF i % 11 = 3 THEN v * 30 ELSE v * 5

\* frac: the first argument of every operator is a 16.16 number with a fraction, so is its first delta
MkItems(shape, k, style, seed, frac) ==
  [oi \in 1 .. Len(shape) |->
     LET e == shape[oi]
         m == Len(e[2])
         var == e[3] /\ m > 0
         st == IF ~var THEN "plain" ELSE IF m < 2 /\ style \in {"tail", "split"} THEN "all" ELSE style
     IN OpItem(e[1],
               [i \in 1 .. m |->
                  Arg(e[2][i] * ONE + (IF frac /\ i = 1 THEN 32768 ELSE 0),
                      [j \in 1 .. k |-> IF ~var \/ (st = "tail" /\ i = 1) THEN 0
                                        ELSE Dl(seed + 10 * oi + i, j) * ONE + (IF frac /\ i = 1 /\ j = 1 THEN 16384 ELSE 0)])],
               st, e[4])]

Kinds == <<"inh", "exp", "plain", "lsub", "gsub">>

\* a subroutine that draws is called after the first moveto
MovePos(items) == CHOOSE i \in 1 .. Len(items) : items[i].op \in {"rmoveto", "hmoveto", "vmoveto"}
                                                  /\ \A j \in 1 .. i - 1 : items[j].op \notin {"rmoveto", "hmoveto", "vmoveto"}
InsertAfter(items, p, it) == [i \in 1 .. Len(items) + 1 |-> IF i <= p THEN items[i] ELSE IF i = p + 1 THEN it ELSE items[i - 1]]

Distinct(seq) == SetToSortSeq({seq[i] : i \in 1 .. Len(seq)}, <)
KsOf(L) == Distinct([v \in 1 .. Len(L.ivds) |-> Len(L.ivds[v])])
PosOf(seq, v) == CHOOSE i \in 1 .. Len(seq) : seq[i] = v

LsubrItems(k, seed) == MkItems(<< <<"rlineto", <<-35, 60>>, TRUE, <<>>>> >>, k, "all", seed, FALSE)
GsubrItems(k, seed) == MkItems(<< <<"rlineto", <<45, -25, 15, 75>>, TRUE, <<>>>> >>, k, "each", seed, FALSE)

MkFont(lay, fdc, selFmt, selStyle, rot) ==
  LET L == Lay(lay)
      nI == Len(L.ivds)
      dvs == FdConf(fdc, nI)
      nFD == Len(dvs)
      ng == 1 + 5 * nFD
      Eff(f) == IF dvs[f + 1] < 0 THEN 0 ELSE dvs[f + 1]
      KI(v) == Len(L.ivds[v + 1])
      ks == KsOf(L)
      sel == [gi \in 1 .. ng |-> IF selStyle = "rr" THEN (gi - 1) % nFD ELSE ((gi - 1) * nFD) \div ng]
      kindOf(gi) == IF gi = 1 THEN "plain"
                    ELSE IF selStyle = "rr" THEN Kinds[(((gi - 2) \div nFD) % 5) + 1] ELSE Kinds[((gi - 2) % 5) + 1]
      expVs(gi) == (Eff(sel[gi]) + 1 + rot) % nI
      \* the gsub glyph of an odd rotation selects its ItemVariationData itself
      vsOf(gi) == IF kindOf(gi) = "exp" \/ (kindOf(gi) = "gsub" /\ rot % 2 = 1) THEN expVs(gi) ELSE -1
      ivdOf(gi) == IF vsOf(gi) >= 0 THEN vsOf(gi) ELSE Eff(sel[gi])
      body(gi) == MkItems(Shape(((gi + rot) % NShapes) + 1), IF kindOf(gi) = "plain" THEN 0 ELSE KI(ivdOf(gi)),
                          Styles[((gi + rot) % 4) + 1], 7 * gi + rot, (gi + rot) % 5 = 0)
      plainBody(gi) == [i \in 1 .. Len(body(gi)) |-> PlainItem(body(gi)[i], 0)]
      items(gi) ==
        CASE kindOf(gi) = "plain" -> [i \in 1 .. Len(plainBody(gi)) |->
                                        [plainBody(gi)[i] EXCEPT !.args = [a \in 1 .. Len(@) |-> Arg(@[a].d, [j \in 1 .. KI(ivdOf(gi)) |-> 0])]]]
          [] kindOf(gi) = "lsub" -> InsertAfter(body(gi), MovePos(body(gi)), CallItem(FALSE, 0))
          [] kindOf(gi) = "gsub" -> InsertAfter(body(gi), MovePos(body(gi)) + (IF MovePos(body(gi)) < Len(body(gi)) THEN 1 ELSE 0),
                                                CallItem(TRUE, PosOf(ks, KI(ivdOf(gi))) - 1))
          [] OTHER -> body(gi)
  IN [kind |-> "cff2font", fam |-> "cff2", var |-> lay \o "/" \o fdc, lay |-> lay, naxes |-> L.naxes,
      regions |-> L.regions, ivds |-> L.ivds,
      fds |-> [f \in 1 .. nFD |-> [dvs |-> dvs[f], lsubrs |-> <<LsubrItems(KI(Eff(f - 1)), 100 + f)>>]],
      sel |-> sel, selFmt |-> selFmt, gsubrs |-> [g \in 1 .. Len(ks) |-> GsubrItems(ks[g], 200 + g)],
      glyphs |-> [gi \in 1 .. ng |-> [vs |-> vsOf(gi), kind |-> kindOf(gi), items |-> items(gi)]],
      users |-> IF L.naxes = 2
                THEN {<<4 * a, 4 * b>> : a \in {0, Hf, U}, b \in {0, Hf, U}} \cup {<<-4 * U, 4 * U>>, <<4 * Far, 0>>, <<4 * Qt, -4 * Hf>>}
                     \cup (IF Thorough THEN {<<4 * a, 4 * b>> : a \in {-U, Qt, 12288}, b \in {-Hf, Qt, U, Far}} ELSE {})
                ELSE {<<4 * a>> : a \in {0, Qt, 5461, 7000, Hf, 10923, U, -U, -Hf, Far}}
                     \cup (IF Thorough THEN {<<4 * a>> : a \in {1, 5460, 5462, 7000, 12288, 16383, -1, -Far}} ELSE {})]

Lays == <<"A", "B", "C", "T">>
FdConfs == <<"d0", "d1", "two", "rev", "three">>
SelForms == {<<0, "rr">>, <<3, "blk">>, <<3, "rr">>, <<0, "blk">>}
\* quick: one font per layout and Font DICT configuration (FDSelect form and rotation vary with them);
\* thorough: every FDSelect form and four rotations of shapes / blend styles / explicit vsindex choices
IsCase(x) ==
  \E li \in 1 .. Len(Lays), fi \in 1 .. Len(FdConfs) :
     IF Thorough
     THEN \E rot \in 0 .. 3, sf \in SelForms :
            /\ (Len(FdConf(FdConfs[fi], 2)) = 1 => sf = <<0, "rr">>)
            /\ x = MkFont(Lays[li], FdConfs[fi], sf[1], sf[2], rot)
     ELSE x = MkFont(Lays[li], FdConfs[fi], IF fi % 2 = 1 THEN 0 ELSE 3, IF fi % 2 = 1 THEN "rr" ELSE "blk", (li + fi) % 2)

\* ---- vacuity counters, computed by TLC for every font -----------------------------------------------------
BoolN(b) == IF b THEN 1 ELSE 0
RECURSIVE SumSeq(_, _)
SumSeq(s, i) == IF i > Len(s) THEN 0 ELSE s[i] + SumSeq(s, i + 1)
Count(S) == Cardinality(S)
InheritNonZero(cs, gi) == cs.glyphs[gi].vs < 0 /\ DvsEff(cs, FdOf(cs, gi)) > 0 /\ GlyphBlends(cs, gi)
ScalarsDifferWith(sa, sb) == Len(sa) # Len(sb) \/ \E j \in 1 .. Len(sa) : QCmp(sa[j], sb[j]) # 0
ScalarsDiffer(cs, a, b, norm) == ScalarsDifferWith(Scalars(cs, a, norm), Scalars(cs, b, norm))
Calls(cs, gi, global) == \E it \in ToSet(cs.glyphs[gi].items) : it.t = "call" /\ it.g = global
Vac(cs, us, res) ==
  LET G == 1 .. NG(cs)
      inh == {gi \in G : InheritNonZero(cs, gi)}
      gs == {gi \in G : Calls(cs, gi, TRUE)}
  IN [cff_fonts |-> 1,
      cff_glyphs |-> NG(cs),
      cff_inherit_nonzero_glyphs |-> Count(inh),
      cff_inherit_zero_entry_glyphs |-> Count({gi \in G : cs.glyphs[gi].vs < 0 /\ cs.fds[FdOf(cs, gi) + 1].dvs = 0 /\ GlyphBlends(cs, gi)}),
      cff_inherit_no_entry_glyphs |-> Count({gi \in G : cs.glyphs[gi].vs < 0 /\ cs.fds[FdOf(cs, gi) + 1].dvs < 0 /\ GlyphBlends(cs, gi)}),
      cff_explicit_glyphs |-> Count({gi \in G : cs.glyphs[gi].vs >= 0}),
      cff_explicit_overrides_private |-> Count({gi \in G : cs.glyphs[gi].vs >= 0 /\ cs.glyphs[gi].vs # DvsEff(cs, FdOf(cs, gi))}),
      \* a reader that took ItemVariationData 0 for an inheriting glyph: other region count / same count, other scalars
      cff_wrong_ivd_other_k |-> Count({gi \in inh : KOf(cs, EffIvd(cs, gi)) # KOf(cs, 0)}),
      cff_wrong_ivd_same_k_tuples |-> Count({<<gi, u>> \in inh \X (1 .. Len(us)) :
                                               KOf(cs, EffIvd(cs, gi)) = KOf(cs, 0)
                                               /\ ScalarsDiffer(cs, EffIvd(cs, gi), 0, NormOf(us[u]))}),
      cff_k0_blend_glyphs |-> Count({gi \in G : GlyphBlends(cs, gi) /\ KOf(cs, EffIvd(cs, gi)) = 0}),
      cff_k_ge3_glyphs |-> Count({gi \in G : GlyphBlends(cs, gi) /\ KOf(cs, EffIvd(cs, gi)) >= 3}),
      cff_differing_k_fonts |-> BoolN(Cardinality({Len(cs.ivds[v]) : v \in 1 .. Len(cs.ivds)}) > 1),
      cff_ivd_not_prefix |-> BoolN(\E v \in 1 .. Len(cs.ivds) : \E j \in 1 .. Len(cs.ivds[v]) : cs.ivds[v][j] # j - 1),
      cff_fd_gt1 |-> BoolN(Len(cs.fds) > 1),
      cff_fdselect0 |-> BoolN(Len(cs.fds) > 1 /\ cs.selFmt = 0),
      cff_fdselect3 |-> BoolN(Len(cs.fds) > 1 /\ cs.selFmt = 3),
      cff_lsubr_glyphs |-> Count({gi \in G : Calls(cs, gi, FALSE)}),
      cff_gsubr_glyphs |-> Count(gs),
      cff_gsubr_shared_by_ivds |-> BoolN(\E a \in gs, b \in gs : EffIvd(cs, a) # EffIvd(cs, b)
                                            /\ KOf(cs, EffIvd(cs, a)) = KOf(cs, EffIvd(cs, b))),
      cff_fuzzy_results |-> SumSeq([gi \in G |-> SumSeq([u \in 1 .. Len(us) |-> BoolN(res[gi][u].fuzzy)], 1)], 1),
      cff_moved_results |-> SumSeq([gi \in G |-> SumSeq([u \in 1 .. Len(us) |-> BoolN(res[gi][u].moved)], 1)], 1),
      cff_results |-> NG(cs) * Len(us),
      cff_one_axis |-> BoolN(cs.naxes = 1),
      cff_hint_glyphs |-> Count({gi \in G : \E it \in ToSet(cs.glyphs[gi].items) : it.op = "hintmask"}),
      cff_fraction_glyphs |-> Count({gi \in G : \E it \in ToSet(cs.glyphs[gi].items) :
                                       it.t = "op" /\ \E i \in 1 .. Len(it.args) : it.args[i].d % ONE # 0})]

\* ---- the state's check and its CASE ------------------------------------------------------------------------
AllOK(cs, us, res) == \A gi \in 1 .. NG(cs) : \A u \in 1 .. Len(us) : res[gi][u].ok

CaseJson(cs, us, res) ==
  [kind |-> cs.kind, gen |-> 3, fam |-> cs.fam, var |-> cs.var, naxes |-> cs.naxes,
   regions |-> cs.regions, ivds |-> cs.ivds,
   fds |-> [f \in 1 .. Len(cs.fds) |-> [dvs |-> cs.fds[f].dvs,
                                        lsubrs |-> [i \in 1 .. Len(cs.fds[f].lsubrs) |-> ProgBytes(cs.fds[f].lsubrs[i])]]],
   sel |-> cs.sel, selFmt |-> cs.selFmt,
   gsubrs |-> [i \in 1 .. Len(cs.gsubrs) |-> ProgBytes(cs.gsubrs[i])],
   glyphs |-> [gi \in 1 .. NG(cs) |-> GlyphBytes(cs.glyphs[gi])],
   kinds |-> [gi \in 1 .. NG(cs) |-> cs.glyphs[gi].kind],
   effIvd |-> [gi \in 1 .. NG(cs) |-> EffIvd(cs, gi)],
   stems |-> [gi \in 1 .. NG(cs) |-> res[gi][1].stems],
   user |-> us, norm |-> [u \in 1 .. Len(us) |-> NormOf(us[u])],
   expect |-> [u \in 1 .. Len(us) |-> [gi \in 1 .. NG(cs) |-> res[gi][u].cmds]],
   vac |-> Vac(cs, us, res)]

CheckAndEmit(cs, us, res) ==
  /\ ShapeOK(cs)
  /\ AllOK(cs, us, res)
  /\ PrintT(<<"CASE", ToJson(CaseJson(cs, us, res))>>)
CaseOf(cs, us) == CheckAndEmit(cs, us, Results(cs, us))

CffCase == (done /\ c.kind = "cff2font") => CaseOf(c, UserSeq(c))

Init == IsCase(c) /\ done = FALSE
Next == /\ ~done /\ done' = TRUE /\ UNCHANGED c
Spec == Init /\ [][Next]_vars
=============================================================================
