CONSTANTS
  Tier = "gen2"
SPECIFICATION Spec
INVARIANTS ScalarLemma IupLemma CodecLemma FontOK FontOK2 EmitCase EmitCase2 EmitLemma
CHECK_DEADLOCK FALSE
