-------------------------- MODULE MC_BinaryReader --------------------------
(***************************************************************************)
(* Bounded exhaustive exploration of BinaryReader and generator of replay  *)
(* cases.                                                                  *)
(*                                                                         *)
(* Reader objects are immutable values apart from a context's cursor, and  *)
(* an operation on one object never affects another.  A state is therefore *)
(* characterised by ONE object (the focus) over a root buffer; `st.objs`   *)
(* only remembers how the focus was derived, so that a script can be       *)
(* replayed.  VIEW hides that history: TLC visits every distinct           *)
(* (root, object) pair once, by a shortest derivation.  For every such     *)
(* state the invariant                                                     *)
(*   - checks the design properties on EVERY operation the state offers    *)
(*   - prints one CASE line: derivation path and the fan of all operations *)
(*     with the observation the specification prescribes for each.         *)
(* The harness replays each CASE on the real reader (spec -> impl).        *)
(*                                                                         *)
(* Two families of roots.  Small roots (<= 16 bytes) are explored with the *)
(* full universe of operations, types and arguments to depth MaxObjs.      *)
(* Wide roots hold arrays of the widest element types (4-tuples of four    *)
(* different field sizes: 15 bytes, two elements with a stride of 16);     *)
(* they are explored to depth MaxObjsWide with the composite types whose   *)
(* fields all differ in size.                                              *)
(*                                                                         *)
(* Every case starts by reading the root through the per-type ReadCache    *)
(* (PrimeOps): a later cached read through a window whose base is 0 must   *)
(* find that value, through any other window it must decode its own bytes. *)
(***************************************************************************)
EXTENDS BinaryReader, Json

CONSTANTS Roots,        \* set of root buffers
          MaxObjs,      \* bound on the derivation depth (objects created along one path), small roots
          MaxObjsWide,  \* same for wide roots
          Deep          \* BOOLEAN: the larger argument / type universes on wide roots (thorough tier)

VARIABLES st, focus, path

vars == <<st, focus, path>>

Wide == Len(st.root) > 16

\* ---- argument universes, relative to the object at hand -------------------
OffArgs(len)  == {k \in {0, 1, 2, len - 1, len, len + 1, HUGE} : k >= 0}
LenArgs(len)  == {k \in {0, 1, 2, 3, len - 1, len, len + 1, HUGE} : k >= 0}
CntArgs       == IF Wide THEN (IF Deep THEN {0, 1, 2, 3, HUGE} ELSE {0, 1, 2, HUGE}) ELSE {0, 1, 2, 3, 5, HUGE}
IdxArgs(n)    == {k \in {0, 1, n - 1, n, n + 1, HUGE} : k >= 0}
MethodTypes   == IF Wide /\ ~Deep THEN {"u8"} ELSE {"u8","i8","u16","i16","u32","i32","u64","i64"}
TraitTypes    == IF Wide /\ ~Deep THEN AllDiffTypes ELSE AllTypes
ArrTypes      == IF Wide THEN AllDiffTypes \cup (IF Deep THEN {"u8", "u24", "u16x3", "i64"} ELSE {})
                 ELSE {"u8","i16","u24","u32","u8u16","u16x3","nt16","u64","p24","t124","ts132","ntt412"}
StrideTypes   == IF Wide THEN {"p24","p81","t481","q1248","q8124","ntq4182","n21x84"}
                              \cup (IF Deep THEN {"u8u16", "t248", "t812", "q2481", "q4812", "ts132"} ELSE {})
                 ELSE {"u8","u16","u8u16","t124"}
Strides(ty)   == IF Wide THEN {SizeOf(ty) - 1, SizeOf(ty), SizeOf(ty) + 1} \cup (IF Deep THEN {SizeOf(ty) + 3} ELSE {})
                 ELSE {0, 1, 2, 3, 4, SizeOf(ty) + 1}
CacheTypes    == IF Wide THEN {"u8u16","q1248","ntq4182"} ELSE {"u8","u16","u8u16","ntt412"}
DepSizes      == {0, 1, 2, 3}
DepVSizes     == {0, 1, 2}         \* the validating dependent type
DepTTypes     == IF Wide THEN {"p81", "q1248"} ELSE {"u8", "u32", "t124"}    \* read_array_dep::<T>(n, ())
EmptyTypes    == IF Wide THEN {"q1248", "ts132"} ELSE {"u8", "u24", "u8u16"} \* ReadArray::<T>::empty()
Nibbles       == {0, 1, 2, 9, 15}
NoKey         == <<>>

\* A ReadArray<T> is read back under the element type it was created with ("dep": the
\* harness's own ReadFixedSizeDep type whose size is an argument).
TyOf(t) == LET ks == {k \in 1 .. Len(path) : path[k].made = t} IN
           IF ks = {} THEN "" ELSE path[CHOOSE k \in ks : TRUE].o.ty
\* the operation that made object t ("" for the root)
MadeBy(t) == LET ks == {k \in 1 .. Len(path) : path[k].made = t} IN
             IF ks = {} THEN "" ELSE path[CHOOSE k \in ks : TRUE].o.op

\* the scopes among the objects made so far (for ==)
ScopesOf == {u \in DOMAIN st.objs : st.objs[u].kind = "scope"}

ScopeOps(t, s) ==
       {Op("Offset", t, "", k, 0, NoKey) : k \in OffArgs(s.len)}
  \cup {Op("OffsetLength", t, "", k, n, NoKey) : k \in OffArgs(s.len), n \in LenArgs(s.len)}
  \cup {Op("Ctxt", t, "", 0, 0, NoKey)}
  \cup {Op("ScopeRead", t, ty, 0, 0, NoKey) : ty \in TraitTypes}
  \cup {Op("ReadCache", t, ty, 0, 0, NoKey) : ty \in CacheTypes}
  \cup {Op("ScopeEq", t, "", u, 0, NoKey) : u \in {x \in ScopesOf : ScopeEqKnown(st, t, x)}}
  \cup {Op("ScopeOwned", t, "", 0, 0, NoKey)}
  \cup {Op("ScopeReadDep", t, "", n, 0, NoKey) : n \in {k \in {0, 1, s.len - 1, s.len, s.len + 1, HUGE} : k >= 0}}
  \cup (IF t = 1 THEN {Op("EmptyArray", t, ty, 0, 0, NoKey) : ty \in EmptyTypes} ELSE {})

CtxtOps(t, c) ==
       {Op("ReadM", t, ty, 0, 0, NoKey) : ty \in MethodTypes}
  \cup {Op("ReadT", t, ty, 0, 0, NoKey) : ty \in TraitTypes}
  \cup {Op("ReadB", t, ty, 0, 0, NoKey) : ty \in TraitTypes}
  \cup {Op("Check", t, "", cond, which, NoKey) : cond \in {0, 1}, which \in {0, 1, 2}}
  \cup {Op("ReadArrayDepT", t, ty, n, 0, NoKey) : ty \in DepTTypes, n \in CntArgs}
  \cup {Op("ReadScope", t, "", n, 0, NoKey) : n \in LenArgs(c.len - c.off)}
  \cup {Op("ReadSlice", t, "", n, 0, NoKey) : n \in LenArgs(c.len - c.off)}
  \cup {Op("ReadDep", t, "", n, 0, NoKey) : n \in {0, 1, c.len - c.off, c.len - c.off + 1, HUGE}}
  \cup {Op("ReadArray", t, ty, n, 0, NoKey) : ty \in ArrTypes, n \in CntArgs}
  \cup UNION {{Op("ReadArrayStride", t, ty, n, s, NoKey) : n \in CntArgs, s \in Strides(ty)} : ty \in StrideTypes}
  \cup {Op("ReadArrayUpto", t, ty, n, 0, NoKey) : ty \in ArrTypes, n \in CntArgs}
  \* (a zero-size element type with a HUGE count is a legal, endless array: not generated)
  \cup {Op("ReadArrayDep", t, "dep", p[1], p[2], NoKey) :
            p \in {q \in CntArgs \X DepSizes : q[2] > 0 \/ ~IsHuge(q[1])}}
  \cup (IF Wide THEN {} ELSE
        {Op("ReadArrayDep", t, "depv", p[1], p[2], NoKey) :
            p \in {q \in CntArgs \X DepVSizes : q[2] > 0 \/ ~IsHuge(q[1])}})
  \cup {Op("ReadUntilNibble", t, "", x, 0, NoKey) : x \in Nibbles}
  \cup {Op("CtxtScope", t, "", 0, 0, NoKey), Op("CtxtClone", t, "", 0, 0, NoKey), Op("BytesAvailable", t, "", 0, 0, NoKey)}

\* keys for binary search: every element, and neighbours of the first and last element
KeysOf(a) ==
  LET els == {ItemBytes(st, a, i) : i \in 0 .. (a.n - 1)} IN
  els \cup {[k \in 1 .. a.size |-> 0], [k \in 1 .. a.size |-> 255]}
      \cup {[k \in 1 .. a.size |-> IF k = a.size THEN (e[k] + 1) % 256 ELSE e[k]] : e \in els}

\* A search has one conforming answer iff the array is sorted and the key occurs at most once.
SearchDeterministic(a, key) ==
  IsSortedArr(st, a) /\ Cardinality(SearchOk(st, a, key)) <= 1

ArrayOps(t, a) ==
  LET ty == TyOf(t) IN
       {Op("Len", t, ty, 0, 0, NoKey)}
  \cup {Op(nm, t, ty, i, 0, NoKey) : nm \in {"GetItem", "ReadItem", "CowGetItem", "CowReadItem",
                                               "OwnGetItem", "OwnReadItem"}, i \in IdxArgs(a.n)}
  \cup {Op("Last", t, ty, 0, 0, NoKey)}
  \cup {Op(nm, t, ty, 0, 0, NoKey) : nm \in {"Iter", "IntoIter", "ToVec", "IterRes", "ReadToVec", "CowIter", "OwnIter"}}
  \cup {Op(nm, t, "", i, 0, NoKey) : nm \in {"CheckIndex", "CowCheckIndex", "OwnCheckIndex"}, i \in IdxArgs(a.n)}
  \cup {Op("Search", t, ty, 0, 0, key) : key \in {k \in KeysOf(a) : SearchDeterministic(a, k)}}

\* A dependent-size array (created by ReadArrayDep) is read with the harness type "dep";
\* it supports the ReadFixedSizeDep part of the API only.
DepArrayOps(t, a) ==
  LET ty == TyOf(t) IN
       {Op("Len", t, ty, 0, 0, NoKey)}
  \cup {Op("ReadItem", t, ty, i, 0, NoKey) : i \in IdxArgs(a.n) \cup {k \in {2, 3} : k < a.n}}
  \cup {Op("IterRes", t, ty, 0, 0, NoKey), Op("ReadToVec", t, ty, 0, 0, NoKey)}
  \cup {Op("CheckIndex", t, "", i, 0, NoKey) : i \in IdxArgs(a.n)}

IsDep(t) == IsDepTy(TyOf(t))

OpsAt(t) ==
  LET x == st.objs[t] IN
  CASE x.kind = "scope" -> ScopeOps(t, x)
    [] x.kind = "ctxt"  -> CtxtOps(t, x)
    [] x.kind = "array" -> IF IsDep(t) THEN DepArrayOps(t, x) ELSE ArrayOps(t, x)

ApplyX(s, o) == Apply(s, o)

---------------------------------------------------------------------------
\* Every case starts with the root read through the caches.
PrimeTypes(root) == IF Len(root) > 16 THEN <<"u8u16", "q1248", "ntq4182">> ELSE <<"u8", "u16", "u8u16", "ntt412">>
RECURSIVE Primed(_, _, _, _)
Primed(s, tys, k, acc) ==
  IF k > Len(tys) THEN [st |-> s, path |-> acc]
  ELSE LET o == Op("ReadCache", 1, tys[k], 0, 0, NoKey)
           r == Apply(s, o) IN
       Primed(r.st, tys, k + 1, Append(acc, [o |-> o, exp |-> r.obs, made |-> 0]))

Init == /\ \E r \in Roots : LET p == Primed(InitState(r), PrimeTypes(r), 1, <<>>) IN st = p.st /\ path = p.path
        /\ focus = 1

\* One step: apply an operation to the focus; continue with the moved context or the new object.
Step(o) ==
  LET r == ApplyX(st, o) IN
  /\ r.st.objs # st.objs                         \* queries, failures and cached reads are self-loops
  /\ Len(r.st.objs) <= (IF Wide THEN MaxObjsWide ELSE MaxObjs)
  /\ st' = r.st
  /\ \/ /\ Len(r.st.objs) > Len(st.objs)         \* focus on the new object
        /\ focus' = Len(r.st.objs)
        /\ path' = Append(path, [o |-> o, exp |-> r.obs, made |-> Len(r.st.objs)])
     \/ /\ r.st.objs[focus] # st.objs[focus]     \* stay with the context whose cursor moved
        /\ focus' = focus
        /\ path' = Append(path, [o |-> o, exp |-> r.obs,
                                 made |-> IF Len(r.st.objs) > Len(st.objs) THEN Len(r.st.objs) ELSE 0])

Next == \E o \in OpsAt(focus) : Step(o)

Spec == Init /\ [][Next]_vars

\* (an array made by ReadArray::empty() is kept apart from the empty arrays read from a context)
View == <<st.root, st.objs[focus], TyOf(focus), MadeBy(focus) = "EmptyArray">>

---------------------------------------------------------------------------
\* Design invariants, checked on every operation offered by every reachable state.
TransOK(o) ==
  LET r == ApplyX(st, o) IN
  /\ WindowInRoot(r.st) /\ CursorInWindow(r.st) /\ ArrayExact(r.st)
  /\ TouchedInWindow(st, o, r.obs)
  /\ FailNoEffect(st, r.st, r.obs)
  /\ ReadExact(st, r.st, o, r.obs)
  /\ DerivedInside(st, r.st, o, r.obs)
  /\ PositionKept(st, r.st, o, r.obs)
  /\ CacheLocated(st, o, r.obs)
  /\ (o.op = "Search" => SearchConforms(st, o.t, o.key, r.obs))
  \* any HUGE argument that matters can only fail or yield nothing
  /\ (o.op \in {"ReadScope", "ReadSlice", "ReadDep", "ScopeReadDep", "GetItem", "ReadItem", "CowGetItem", "CowReadItem",
                "OwnGetItem", "OwnReadItem", "CheckIndex", "CowCheckIndex", "OwnCheckIndex"} /\ IsHuge(o.a)) => ~r.obs.ok

\* SIZE is the sum of the field sizes and the field-wise decoding is the window, for every type at
\* every position of the root
TypesOK == \A ty \in AllTypes : \A p \in 0 .. Len(st.root) : FieldwiseExact(st, ty, p)

DesignOK == (\A o \in OpsAt(focus) : TransOK(o)) /\ (focus = 1 => TypesOK)

\* Generator: one line per distinct state.  To keep the output small a record is printed without the
\* fields that have their default value (the harness puts them back before comparing).
ObsDefault == [ok |-> FALSE, err |-> "", v |-> <<>>, num |-> 0, cnt |-> 0, new |-> <<>>, rem |-> -1,
               touched |-> <<>>, aux |-> <<>>]
OpDefault  == [op |-> "", t |-> 0, ty |-> "", a |-> 0, b |-> 0, key |-> <<>>]
Slim(r, dflt) == [k \in {f \in DOMAIN r : r[f] # dflt[f]} |-> r[k]]
SlimStep(o, exp) == [o |-> Slim(o, OpDefault), exp |-> Slim(exp, ObsDefault)]
Fan == {SlimStep(o, ApplyX(st, o).obs) : o \in OpsAt(focus)}
EmitCase ==
  PrintT(<<"CASE", ToJson([root |-> st.root,
                           path |-> [k \in 1 .. Len(path) |-> SlimStep(path[k].o, path[k].exp)],
                           focus |-> focus,
                           fan |-> SetToSeq(Fan)])>>)


\* ---- constants for the configurations --------------------------------------
Pat(n, b) == [i \in 1 .. n |-> (b + 16 * i + i) % 256]    \* position-identifying bytes
Inc(n, d) == [i \in 1 .. n |-> d * i]                      \* strictly increasing: every array over it is sorted
\* extreme values of every width: I64 / I32 / I16 / I8 minimum and maximum, U24 with the top bit set
Bounds == <<128, 0, 0, 0, 0, 0, 0, 0, 127, 255, 255, 255, 255, 255, 255, 255>>
RootsQuick    == {<<>>, <<17>>, Pat(5, 0), Pat(9, 128), Inc(36, 7), Bounds}
Dup(n, k)  == [i \in 1 .. n |-> (i - 1) \div k]            \* non-decreasing with runs of k equal bytes
RootsThorough == {<<>>, <<17>>, Pat(3, 0), Pat(5, 0), Pat(9, 128), Pat(12, 0),
                  <<3, 1, 2, 2, 3, 1, 0, 16, 1, 250>>, <<255, 255, 128, 0, 127, 255, 0, 0>>,
                  Inc(36, 7), Pat(40, 128), Dup(33, 5), Inc(32, 7), Pat(47, 3), Bounds}
=============================================================================
