-------------------------- MODULE MC_BinaryReader --------------------------
(***************************************************************************)
(* Bounded exhaustive exploration of BinaryReader and generator of replay  *)
(* cases.                                                                  *)
(*                                                                         *)
(* Reader objects are immutable values apart from a context's cursor, and  *)
(* an operation on one object never affects another.  A state is therefore *)
(* characterised by ONE object (the focus) over a root buffer; `st.objs`   *)
(* only remembers how the focus was derived, so that a script can be       *)
(* replayed.  VIEW hides that history: TLC visits every distinct           *)
(* (root, object) pair once, by a shortest derivation.  For every such     *)
(* state the invariant                                                     *)
(*   - checks the design properties on EVERY operation the state offers    *)
(*   - prints one CASE line: derivation path and the fan of all operations *)
(*     with the observation the specification prescribes for each.         *)
(* The harness replays each CASE on the real reader (spec -> impl).        *)
(***************************************************************************)
EXTENDS BinaryReader, Json

CONSTANTS Roots,        \* set of root buffers
          MaxObjs       \* bound on the derivation depth (objects created along one path)

VARIABLES st, focus, path

vars == <<st, focus, path>>

\* ---- argument universes, relative to the object at hand -------------------
Uniq(S) == S                      \* (sets are already duplicate free)
OffArgs(len)  == {k \in {0, 1, 2, len - 1, len, len + 1, HUGE} : k >= 0}
LenArgs(len)  == {k \in {0, 1, 2, 3, len - 1, len, len + 1, HUGE} : k >= 0}
CntArgs       == {0, 1, 2, 3, 5, HUGE}
IdxArgs(n)    == {k \in {0, 1, n - 1, n, n + 1, HUGE} : k >= 0}
MethodTypes   == {"u8","i8","u16","i16","u32","i32","u64","i64"}
TraitTypes    == AllTypes
ArrTypes      == {"u8","i16","u24","u32","u8u16","u16x3","nt16","u64"}
StrideTypes   == {"u8","u16","u8u16"}
Strides       == {0, 1, 2, 3, 4}
DepSizes      == {0, 1, 2, 3}
Nibbles       == {0, 1, 2, 9, 15}
NoKey         == <<>>

\* A ReadArray<T> is read back under the element type it was created with ("dep": the
\* harness's own ReadFixedSizeDep type whose size is an argument).
TyOf(t) == LET ks == {k \in 1 .. Len(path) : path[k].made = t} IN
           IF ks = {} THEN "" ELSE path[CHOOSE k \in ks : TRUE].o.ty

ScopeOps(t, s) ==
       {Op("Offset", t, "", k, 0, NoKey) : k \in OffArgs(s.len)}
  \cup {Op("OffsetLength", t, "", k, n, NoKey) : k \in OffArgs(s.len), n \in LenArgs(s.len)}
  \cup {Op("Ctxt", t, "", 0, 0, NoKey)}
  \cup {Op("ScopeRead", t, ty, 0, 0, NoKey) : ty \in TraitTypes}

CtxtOps(t, c) ==
       {Op("ReadM", t, ty, 0, 0, NoKey) : ty \in MethodTypes}
  \cup {Op("ReadT", t, ty, 0, 0, NoKey) : ty \in TraitTypes}
  \cup {Op("ReadScope", t, "", n, 0, NoKey) : n \in LenArgs(c.len - c.off)}
  \cup {Op("ReadSlice", t, "", n, 0, NoKey) : n \in LenArgs(c.len - c.off)}
  \cup {Op("ReadArray", t, ty, n, 0, NoKey) : ty \in ArrTypes, n \in CntArgs}
  \cup {Op("ReadArrayStride", t, ty, n, s, NoKey) : ty \in StrideTypes, n \in CntArgs, s \in Strides}
  \cup {Op("ReadArrayUpto", t, ty, n, 0, NoKey) : ty \in ArrTypes, n \in CntArgs}
  \* (a zero-size element type with a HUGE count is a legal, endless array: not generated)
  \cup {Op("ReadArrayDep", t, "dep", p[1], p[2], NoKey) :
            p \in {q \in CntArgs \X DepSizes : q[2] > 0 \/ ~IsHuge(q[1])}}
  \cup {Op("ReadUntilNibble", t, "", x, 0, NoKey) : x \in Nibbles}
  \cup {Op("CtxtScope", t, "", 0, 0, NoKey), Op("BytesAvailable", t, "", 0, 0, NoKey)}

\* keys for binary search: every element, and neighbours of the first and last element
KeysOf(a) ==
  LET els == {ItemBytes(st, a, i) : i \in 0 .. (a.n - 1)} IN
  els \cup {[k \in 1 .. a.size |-> 0], [k \in 1 .. a.size |-> 255]}
      \cup {[k \in 1 .. a.size |-> IF k = a.size THEN (e[k] + 1) % 256 ELSE e[k]] : e \in els}

\* A search has one conforming answer iff the array is sorted and the key occurs at most once.
SearchDeterministic(a, key) ==
  IsSortedArr(st, a) /\ Cardinality(SearchOk(st, a, key)) <= 1

ArrayOps(t, a) ==
  LET ElemTypes(x) == {TyOf(t)} IN
       {Op("Len", t, "", 0, 0, NoKey)}
  \cup {Op(nm, t, ty, i, 0, NoKey) : nm \in {"GetItem", "ReadItem", "CowGetItem", "CowReadItem"},
                                      ty \in ElemTypes(a), i \in IdxArgs(a.n)}
  \cup {Op("Last", t, ty, 0, 0, NoKey) : ty \in ElemTypes(a)}
  \cup {Op(nm, t, ty, 0, 0, NoKey) : nm \in {"Iter", "ToVec", "IterRes", "CowIter"}, ty \in ElemTypes(a)}
  \cup {Op("CheckIndex", t, "", i, 0, NoKey) : i \in IdxArgs(a.n)}
  \cup {Op("Search", t, ty, 0, 0, key) : ty \in ElemTypes(a),
                                         key \in {k \in KeysOf(a) : SearchDeterministic(a, k)}}

\* A dependent-size array (created by ReadArrayDep) is read with the harness type "dep";
\* it supports the ReadFixedSizeDep part of the API only.
DepArrayOps(t, a) ==
       {Op("Len", t, "", 0, 0, NoKey)}
  \cup {Op("ReadItem", t, "dep", i, 0, NoKey) : i \in IdxArgs(a.n)}
  \cup {Op("IterRes", t, "dep", 0, 0, NoKey)}
  \cup {Op("CheckIndex", t, "", i, 0, NoKey) : i \in IdxArgs(a.n)}

IsDep(t) == TyOf(t) = "dep"

OpsAt(t) ==
  LET x == st.objs[t] IN
  CASE x.kind = "scope" -> ScopeOps(t, x)
    [] x.kind = "ctxt"  -> CtxtOps(t, x)
    [] x.kind = "array" -> IF IsDep(t) THEN DepArrayOps(t, x) ELSE ArrayOps(t, x)

ApplyX(s, o) == Apply(s, o)

---------------------------------------------------------------------------
Init == /\ \E r \in Roots : st = InitState(r)
        /\ focus = 1
        /\ path = <<>>

\* One step: apply an operation to the focus; continue with the moved context or the new object.
Step(o) ==
  LET r == ApplyX(st, o) IN
  /\ r.st # st                                   \* queries and failures are self-loops
  /\ Len(r.st.objs) <= MaxObjs
  /\ st' = r.st
  /\ \/ /\ Len(r.st.objs) > Len(st.objs)         \* focus on the new object
        /\ focus' = Len(r.st.objs)
        /\ path' = Append(path, [o |-> o, exp |-> r.obs, made |-> Len(r.st.objs)])
     \/ /\ r.st.objs[focus] # st.objs[focus]     \* stay with the context whose cursor moved
        /\ focus' = focus
        /\ path' = Append(path, [o |-> o, exp |-> r.obs,
                                 made |-> IF Len(r.st.objs) > Len(st.objs) THEN Len(r.st.objs) ELSE 0])

Next == \E o \in OpsAt(focus) : Step(o)

Spec == Init /\ [][Next]_vars

View == <<st.root, st.objs[focus], TyOf(focus)>>

---------------------------------------------------------------------------
\* Design invariants, checked on every operation offered by every reachable state.
TransOK(o) ==
  LET r == ApplyX(st, o) IN
  /\ WindowInRoot(r.st) /\ CursorInWindow(r.st) /\ ArrayExact(r.st)
  /\ TouchedInWindow(st, o, r.obs)
  /\ FailNoEffect(st, r.st, r.obs)
  /\ ReadExact(st, r.st, o, r.obs)
  /\ DerivedInside(st, r.st, o, r.obs)
  /\ (o.op = "Search" => SearchConforms(st, o.t, o.key, r.obs))
  \* any HUGE argument that matters can only fail or yield nothing
  /\ (o.op \in {"ReadScope", "ReadSlice", "GetItem", "ReadItem", "CowGetItem", "CowReadItem",
                "CheckIndex"} /\ IsHuge(o.a)) => ~r.obs.ok

DesignOK == \A o \in OpsAt(focus) : TransOK(o)

\* Vacuity guards: TLC reports these as violated if the model never reaches the situation.
\* (They are checked the other way round by the driver through the CASE statistics.)

\* Generator: one line per distinct state.
Fan == {[o |-> o, exp |-> ApplyX(st, o).obs] : o \in OpsAt(focus)}
EmitCase ==
  PrintT(<<"CASE", ToJson([root |-> st.root,
                           path |-> [k \in 1 .. Len(path) |-> [o |-> path[k].o, exp |-> path[k].exp]],
                           focus |-> focus,
                           fan |-> SetToSeq(Fan)])>>)


\* ---- constants for the configurations --------------------------------------
Pat(n, b) == [i \in 1 .. n |-> (b + 16 * i + i) % 256]    \* position-identifying bytes
RootsQuick    == {<<>>, <<17>>, Pat(5, 0), Pat(9, 128)}
RootsThorough == {<<>>, <<17>>, Pat(3, 0), Pat(5, 0), Pat(9, 128), Pat(12, 0),
                  <<3, 1, 2, 2, 3, 1, 0, 16, 1, 250>>, <<255, 255, 128, 0, 127, 255, 0, 0>>}
=============================================================================
