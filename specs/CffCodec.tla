------------------------------ MODULE CffCodec ------------------------------
(***************************************************************************)
(* Encoders, decoders and normalisations of the CFF / CFF2 structures      *)
(* allsorts parses and serialises (property C15), written from Adobe       *)
(* Technical Note #5176 and the OpenType CFF2 / ItemVariationStore specs:  *)
(*   DICT operands (integers of 1 / 2 / 3 / 5 bytes, real numbers as       *)
(*   nibble strings, offsets), operators, DICTs with their defaults,       *)
(*   INDEX with its offset size, charsets 0-2, encodings 0-1,              *)
(*   FDSelect 0 / 3, item variation store.                                 *)
(*                                                                         *)
(* Freedom the format leaves to a writer (and the property with it):       *)
(*   Dev_IntEncoding  an integer may be written in any form that holds it  *)
(*   Dev_OffSize      an INDEX may use any offSize that holds its last     *)
(*                    offset                                               *)
(*   Dev_IvsLayout    the sub-tables of an item variation store may be     *)
(*                    placed anywhere after the header                     *)
(* so allsorts' bytes are judged by DECODING them with this module         *)
(* (DecDict, DecIndex, DecIVS), not by comparing them with Enc.            *)
(***************************************************************************)
EXTENDS TableCodec

\* ---- operands ------------------------------------------------------------------
IntSize(v) == IF v >= -107 /\ v <= 107 THEN 1
              ELSE IF (v >= 108 /\ v <= 1131) \/ (v >= -1131 /\ v <= -108) THEN 2
              ELSE IF v >= -32768 /\ v <= 32767 THEN 3 ELSE 5
\* the shortest form (Table 3 of TN 5176)
EncIntOp(v) ==
  CASE IntSize(v) = 1 -> <<v + 139>>
    [] IntSize(v) = 2 -> IF v > 0 THEN LET w == v - 108 IN <<(w \div 256) + 247, w % 256>>
                                  ELSE LET w == -v - 108 IN <<(w \div 256) + 251, w % 256>>
    [] IntSize(v) = 3 -> <<28>> \o I16(v)
    [] IntSize(v) = 5 -> <<29>> \o I32(v)
\* a chosen form: 1, 2 as above where they apply; 3 and 5 are the fixed-width forms
EncIntForm(v, form) ==
  IF form = 5 THEN <<29>> \o I32(v) ELSE IF form = 3 THEN <<28>> \o I16(v) ELSE EncIntOp(v)
Dev_IntEncoding(v) == {IntSize(v)} \cup (IF IntSize(v) <= 3 THEN {3} ELSE {}) \cup {5}

\* a real number is its nibble string, kept as bytes: every byte but the last is free of the
\* end nibble 0xF, the last byte has it (in either half or both)
HasF(b) == b \div 16 = 15 \/ b % 16 = 15
RealOk(bs) == /\ Len(bs) >= 1 /\ IsBytes(bs) /\ HasF(bs[Len(bs)])
              /\ \A i \in 1 .. (Len(bs) - 1) : ~HasF(bs[i])

\* operand: [t |-> "i" | "o" | "r", v |-> integer or nibble bytes]
\* ("o": an integer that is an offset; always written in the 5-byte form so that the size of
\*  the DICT does not depend on where things end up)
OperandOk(a) == IF a.t = "r" THEN RealOk(a.v) ELSE a.v >= -2147483647 - 1 /\ a.v <= 2147483647
EncOperand(a) == CASE a.t = "i" -> EncIntOp(a.v) [] a.t = "o" -> <<29>> \o I32(a.v) [] a.t = "r" -> <<30>> \o a.v
\* operator codes: one byte b, or 12 b written here as 3072 + b
EncOperator(op) == IF op >= 3072 THEN <<12, op - 3072>> ELSE <<op>>

\* token at position at (0-based): [t |-> "op" | "i" | "r" | "bad" | "eof", v, n |-> size]
FirstF(bs, at) == LET c == {i \in (at + 1) .. Len(bs) : HasF(bs[i])} IN
                  IF c = {} THEN 0 ELSE CHOOSE i \in c : \A j \in c : i <= j
Tok(bs, at) ==
  IF at >= Len(bs) THEN [t |-> "eof", v |-> 0, n |-> 0] ELSE
  LET b0 == bs[at + 1]  left == Len(bs) - at IN
  IF b0 = 12 THEN (IF left < 2 THEN [t |-> "bad", v |-> 0, n |-> 0] ELSE [t |-> "op", v |-> 3072 + bs[at + 2], n |-> 2])
  ELSE IF b0 <= 24 THEN [t |-> "op", v |-> b0, n |-> 1]
  ELSE IF b0 = 28 THEN (IF left < 3 THEN [t |-> "bad", v |-> 0, n |-> 0] ELSE [t |-> "i", v |-> RI16(bs, at + 1), n |-> 3])
  ELSE IF b0 = 29 THEN (IF left < 5 THEN [t |-> "bad", v |-> 0, n |-> 0] ELSE [t |-> "i", v |-> RI32(bs, at + 1), n |-> 5])
  ELSE IF b0 = 30 THEN (LET e == FirstF(bs, at + 1) IN
                        IF e = 0 THEN [t |-> "bad", v |-> 0, n |-> 0]
                        ELSE [t |-> "r", v |-> SubSeq(bs, at + 2, e), n |-> e - at])
  ELSE IF b0 >= 32 /\ b0 <= 246 THEN [t |-> "i", v |-> b0 - 139, n |-> 1]
  ELSE IF b0 >= 247 /\ b0 <= 250 THEN (IF left < 2 THEN [t |-> "bad", v |-> 0, n |-> 0]
                                      ELSE [t |-> "i", v |-> (b0 - 247) * 256 + bs[at + 2] + 108, n |-> 2])
  ELSE IF b0 >= 251 /\ b0 <= 254 THEN (IF left < 2 THEN [t |-> "bad", v |-> 0, n |-> 0]
                                      ELSE [t |-> "i", v |-> -((b0 - 251) * 256) - bs[at + 2] - 108, n |-> 2])
  ELSE [t |-> "bad", v |-> 0, n |-> 0]

\* ---- DICT ------------------------------------------------------------------------
\* [kind, entries: [op, args: operand*]*]   kind: "top" | "priv" | "font" | "top2" | "priv2"
OpCharset == 15  OpEncoding == 16  OpCharStrings == 17  OpPrivate == 18  OpSubrs == 19
OpVStore == 24   OpFDArray == 3108  OpFDSelect == 3109
I(v) == [t |-> "i", v |-> v]
O(v) == [t |-> "o", v |-> v]
Rl(bs) == [t |-> "r", v |-> bs]
Real0001 == Rl(<<10, 0, 31>>)                      \* .001
FontMatrixDefault == <<Real0001, I(0), I(0), Real0001, I(0), I(0)>>
DictDefault(kind, op) ==       \* <<>> stands for "no default" (no operator takes zero operands)
  CASE kind = "top" ->
         (CASE op \in {3073, 3074, 3077, 3080, 3103, 3104, 3105} -> <<I(0)>>
            [] op = 3075 -> <<I(-100)>> [] op = 3076 -> <<I(50)>> [] op = 3078 -> <<I(2)>>
            [] op = 3079 -> FontMatrixDefault [] op = 5 -> <<I(0), I(0), I(0), I(0)>>
            [] op \in {15, 16} -> <<O(0)>> [] op = 3106 -> <<I(8720)>> [] OTHER -> <<>>)
    [] kind = "priv" ->
         (CASE op = 3081 -> <<Rl(<<10, 3, 150, 37, 255>>)>> [] op = 3082 -> <<I(7)>> [] op = 3083 -> <<I(1)>>
            [] op \in {3086, 3089, 3091, 3080, 20, 21} -> <<I(0)>>
            [] op = 3090 -> <<Rl(<<10, 6, 255>>)>> [] OTHER -> <<>>)
    [] kind = "top2" -> (IF op = 3079 THEN FontMatrixDefault ELSE <<>>)
    [] kind = "priv2" ->
         (CASE op = 3081 -> <<Rl(<<10, 3, 150, 37, 255>>)>> [] op = 3082 -> <<I(7)>> [] op = 3083 -> <<I(1)>>
            [] op \in {3089, 22} -> <<I(0)>> [] op = 3090 -> <<Rl(<<10, 6, 255>>)>> [] OTHER -> <<>>)
    [] OTHER -> <<>>

\* operands of the operators that locate other structures are offsets (reader's view)
AsOffsets(op, args) ==
  IF /\ op \in {OpCharset, OpCharStrings, OpSubrs, OpFDArray, OpFDSelect, OpVStore}
     /\ Len(args) = 1 /\ args[1].t = "i" THEN <<O(args[1].v)>>
  ELSE IF op = OpEncoding /\ Len(args) = 1 /\ args[1].t = "i" /\ args[1].v > 1 THEN <<O(args[1].v)>>
  ELSE IF op = OpPrivate /\ Len(args) = 2 /\ args[1].t = "i" /\ args[2].t = "i" THEN <<O(args[1].v), O(args[2].v)>>
  ELSE args
ReadNormDict(es) == MapS(es, LAMBDA e : [op |-> e.op, args |-> AsOffsets(e.op, e.args)])

\* equal up to the integer / offset tag
SameArgs(a, b) == /\ Len(a) = Len(b)
                  /\ \A i \in 1 .. Len(a) : IF a[i].t = "r" \/ b[i].t = "r" THEN a[i].t = b[i].t /\ a[i].v = b[i].v
                                            ELSE a[i].v = b[i].v
\* equality of operand lists / entry lists that never compares a number with a nibble string
\* (TLC raises an error when asked whether 0 = <<255>>)
ArgsEq(a, b) == Len(a) = Len(b) /\ \A i \in 1 .. Len(a) : a[i].t = b[i].t /\ a[i].v = b[i].v
EntriesEq(x, y) == Len(x) = Len(y) /\ \A i \in 1 .. Len(x) : x[i].op = y[i].op /\ ArgsEq(x[i].args, y[i].args)
IsDefault(kind, e) == DictDefault(kind, e.op) # <<>> /\ SameArgs(e.args, DictDefault(kind, e.op))
\* declared normalisation: entries equal to their defaults are omitted
NormDict(kind, es) == SelectSeq(es, LAMBDA e : ~IsDefault(kind, e))

DictOk(es) == \A i \in 1 .. Len(es) : /\ Len(es[i].args) <= 48
                                      /\ \A j \in 1 .. Len(es[i].args) : OperandOk(es[i].args[j])
EncDict(es) == CatMap(es, LAMBDA e : CatMap(e.args, EncOperand) \o EncOperator(e.op))
\* the same with a chosen integer form per entry (what other writers may have produced)
EncDictForm(es, form) ==
  CatMap(es, LAMBDA e : CatMap(e.args, LAMBDA a : IF a.t = "r" THEN EncOperand(a) ELSE EncIntForm(a.v, form))
                        \o EncOperator(e.op))

\* operands from position `at` up to the next operator (or the end / a malformed token); the recursion over
\* the entries is separate from the one over the operands of an entry, so that its depth is the number of
\* entries (a 64 KiB DICT has thousands of operands)
RECURSIVE DecOperands(_, _, _)
DecOperands(bs, at, acc) ==
  LET k == Tok(bs, at) IN
  IF k.t = "i" THEN DecOperands(bs, at + k.n, Append(acc, I(k.v)))
  ELSE IF k.t = "r" THEN DecOperands(bs, at + k.n, Append(acc, Rl(k.v)))
  ELSE [args |-> acc, at |-> at, k |-> k]
RECURSIVE DecDictFrom(_, _)
DecDictFrom(bs, at) ==
  LET r == DecOperands(bs, at, <<>>) IN
  CASE r.k.t = "eof" -> IF r.args = <<>> THEN <<>> ELSE <<[op |-> -1, args |-> r.args]>>      \* dangling operands
    [] r.k.t = "bad" -> <<[op |-> -2, args |-> r.args]>>
    [] r.k.t = "op"  -> <<[op |-> r.k.v, args |-> AsOffsets(r.k.v, r.args)]>> \o DecDictFrom(bs, r.at + r.k.n)
DecDict(bs) == DecDictFrom(bs, 0)

\* a writer may keep a default-valued entry, never invent or reorder entries
RECURSIVE IsSubSeq(_, _)
IsSubSeq(a, b) == IF a = <<>> THEN TRUE ELSE IF b = <<>> THEN FALSE
                  ELSE IF a[1].op = b[1].op /\ ArgsEq(a[1].args, b[1].args) THEN IsSubSeq(Tail(a), Tail(b))
                  ELSE IsSubSeq(a, Tail(b))
DictWrittenOk(kind, read, written) ==
  /\ EntriesEq(NormDict(kind, written), NormDict(kind, read))
  /\ IsSubSeq(written, read)

\* ---- INDEX -------------------------------------------------------------------------
\* objects are byte strings; count is 16 bit (CFF) or 32 bit (CFF2)
MinOffSize(last) == IF last <= 255 THEN 1 ELSE IF last <= 65535 THEN 2 ELSE IF last <= 16777215 THEN 3 ELSE 4
Dev_OffSize(last) == MinOffSize(last) .. 4
IndexOffsets(lens) == [i \in 1 .. (Len(lens) + 1) |-> 1 + SumSeq(SubSeq(lens, 1, i - 1))]
EncOff(sz, x) == CASE sz = 1 -> U8(x) [] sz = 2 -> U16(x) [] sz = 3 -> U24(x) [] sz = 4 -> U32(x)
EncIndex(objs, sz, c32) ==
  (IF c32 THEN U32(Len(objs)) ELSE U16(Len(objs)))
  \o (IF objs = <<>> THEN <<>>
      ELSE U8(sz) \o CatMap(IndexOffsets(MapS(objs, Len)), LAMBDA x : EncOff(sz, x)) \o Cat(objs))
ROff(bs, at, sz) == CASE sz = 1 -> RU8(bs, at) [] sz = 2 -> RU16(bs, at) [] sz = 3 -> RU24(bs, at) [] sz = 4 -> RU32(bs, at)
\* [ok, objs, size]
DecIndex(bs, c32) ==
  LET h == IF c32 THEN 4 ELSE 2
      n == IF c32 THEN RU32(bs, 0) ELSE RU16(bs, 0) IN
  IF n = 0 THEN [ok |-> TRUE, objs |-> <<>>, size |-> h, offSize |-> 0]
  ELSE LET sz == bs[h + 1]
           offs == [i \in 1 .. (n + 1) |-> ROff(bs, h + 1 + sz * (i - 1), sz)]
           d == h + 1 + sz * (n + 1) IN
       IF sz \notin 1 .. 4 \/ offs[1] # 1 \/ (\E i \in 1 .. n : offs[i + 1] < offs[i]) \/ d + offs[n + 1] - 1 > Len(bs)
       THEN [ok |-> FALSE, objs |-> <<>>, size |-> 0, offSize |-> sz]
       ELSE [ok |-> TRUE, objs |-> [i \in 1 .. n |-> RB(bs, d + offs[i] - 1, offs[i + 1] - offs[i])],
             size |-> d + offs[n + 1] - 1, offSize |-> sz]
IndexRefuse(objs, c32) == ~c32 /\ Len(objs) > 65535

\* ---- charset: [fmt 0, sids] | [fmt 1 | 2, ranges <<first, nLeft>>*] -------------------
CharsetCovered(v) == IF v.fmt = 0 THEN Len(v.sids) ELSE SumSeq(MapS(v.ranges, LAMBDA r : r[2] + 1))
CharsetInFormat(v) ==
  CASE v.fmt = 0 -> \A i \in 1 .. Len(v.sids) : IsU16(v.sids[i])
    [] v.fmt = 1 -> \A i \in 1 .. Len(v.ranges) : IsU16(v.ranges[i][1]) /\ IsU8(v.ranges[i][2])
    [] v.fmt = 2 -> \A i \in 1 .. Len(v.ranges) : IsU16(v.ranges[i][1]) /\ IsU16(v.ranges[i][2])
EncCharset(v) ==
  CASE v.fmt = 0 -> <<0>> \o CatMap(v.sids, U16)
    [] v.fmt = 1 -> <<1>> \o CatMap(v.ranges, LAMBDA r : U16(r[1]) \o U8(r[2]))
    [] v.fmt = 2 -> <<2>> \o CatMap(v.ranges, LAMBDA r : U16(r[1]) \o U16(r[2]))
RECURSIVE DecRanges(_, _, _, _)
DecRanges(bs, at, need, wide) ==    \* ranges until `need` glyphs are covered
  IF need <= 0 THEN <<>>
  ELSE LET nl == IF wide THEN RU16(bs, at + 2) ELSE RU8(bs, at + 2) IN
       <<<<RU16(bs, at), nl>>>> \o DecRanges(bs, at + (IF wide THEN 4 ELSE 3), need - (nl + 1), wide)
DecCharset(bs, nglyphs) ==
  CASE bs[1] = 0 -> [fmt |-> 0, sids |-> ArrU16(bs, 1, nglyphs - 1)]
    [] bs[1] = 1 -> [fmt |-> 1, ranges |-> DecRanges(bs, 1, nglyphs - 1, FALSE)]
    [] bs[1] = 2 -> [fmt |-> 2, ranges |-> DecRanges(bs, 1, nglyphs - 1, TRUE)]

\* ---- encoding: [fmt 0, codes] | [fmt 1, ranges <<first, nLeft>>*] ----------------------
EncodingInFormat(v) ==
  IF v.fmt = 0 THEN IsBytes(v.codes) ELSE \A i \in 1 .. Len(v.ranges) : IsU8(v.ranges[i][1]) /\ IsU8(v.ranges[i][2])
EncodingN(v) == IF v.fmt = 0 THEN Len(v.codes) ELSE Len(v.ranges)
EncodingRefuse(v) == EncodingN(v) > 255
EncEncoding(v) ==
  IF v.fmt = 0 THEN <<0, Len(v.codes)>> \o v.codes
  ELSE <<1, Len(v.ranges)>> \o CatMap(v.ranges, LAMBDA r : <<r[1], r[2]>>)
DecEncoding(bs) ==
  IF bs[1] = 0 THEN [fmt |-> 0, codes |-> RB(bs, 2, bs[2])]
  ELSE [fmt |-> 1, ranges |-> [i \in 1 .. bs[2] |-> <<bs[2 * i + 1], bs[2 * i + 2]>>]]

\* ---- FDSelect: [fmt 0, fds] | [fmt 3, ranges <<first, fd>>*, sentinel] -------------------
FdSelectInFormat(v) ==
  IF v.fmt = 0 THEN IsBytes(v.fds)
  ELSE IsU16(v.sentinel) /\ \A i \in 1 .. Len(v.ranges) : IsU16(v.ranges[i][1]) /\ IsU8(v.ranges[i][2])
FdSelectRefuse(v) == v.fmt = 3 /\ Len(v.ranges) > 65535
EncFdSelect(v) ==
  IF v.fmt = 0 THEN <<0>> \o v.fds
  ELSE <<3>> \o U16(Len(v.ranges)) \o CatMap(v.ranges, LAMBDA r : U16(r[1]) \o U8(r[2])) \o U16(v.sentinel)
DecFdSelect(bs, nglyphs) ==
  IF bs[1] = 0 THEN [fmt |-> 0, fds |-> RB(bs, 1, nglyphs)]
  ELSE LET n == RU16(bs, 1) IN
       [fmt |-> 3, ranges |-> [i \in 1 .. n |-> <<RU16(bs, 3 * i), RU8(bs, 3 * i + 2)>>],
        sentinel |-> RU16(bs, 3 + 3 * n)]

\* ---- item variation store -----------------------------------------------------------
\* [axes, regions: (<<start, peak, end>>*)*, data: [items, wdc, ris, deltas]*]
\* wdc: bit 15 LONG_WORDS, low 15 bits wordDeltaCount
IvsRowLen(d) == LET w == d.wdc % 32768  base == Len(d.ris) + w IN IF d.wdc >= 32768 THEN 2 * base ELSE base
IvsInFormat(v) ==
  /\ IsU16(v.axes) /\ Len(v.regions) < 32768
  /\ \A i \in 1 .. Len(v.regions) : /\ Len(v.regions[i]) = v.axes
                                    /\ \A j \in 1 .. v.axes : \A c \in 1 .. 3 : IsI16(v.regions[i][j][c])
  /\ \A i \in 1 .. Len(v.data) : LET d == v.data[i] IN
        /\ IsU16(d.items) /\ IsU16(d.wdc) /\ \A j \in 1 .. Len(d.ris) : IsU16(d.ris[j])
        /\ IsBytes(d.deltas) /\ Len(d.deltas) = d.items * IvsRowLen(d)
IvsRefuse(v) == Len(v.data) > 65535 \/ \E i \in 1 .. Len(v.data) : Len(v.data[i].ris) > 65535
EncIvsRegions(v) ==
  U16(v.axes) \o U16(Len(v.regions))
  \o CatMap(v.regions, LAMBDA r : CatMap(r, LAMBDA a : I16(a[1]) \o I16(a[2]) \o I16(a[3])))
EncIvsData(d) == U16(d.items) \o U16(d.wdc) \o U16(Len(d.ris)) \o CatMap(d.ris, U16) \o d.deltas
\* canonical layout: header, region list, data sub-tables in order
EncIVS(v) ==
  LET hdr == 8 + 4 * Len(v.data)
      rl  == EncIvsRegions(v)
      ds  == MapS(v.data, EncIvsData)
      off(i) == hdr + Len(rl) + SumSeq([j \in 1 .. (i - 1) |-> Len(ds[j])]) IN
  U16(1) \o U32(hdr) \o U16(Len(v.data)) \o Cat([i \in 1 .. Len(ds) |-> U32(off(i))]) \o rl \o Cat(ds)
\* [ok, v]: follows the offsets wherever they point (Dev_IvsLayout)
DecIVS(bs) ==
  IF Len(bs) < 8 \/ RU16(bs, 0) # 1 \/ bs[3] >= 128 THEN [ok |-> FALSE, v |-> <<>>]
  ELSE LET ro == RU32(bs, 2)  n == RU16(bs, 6) IN
  IF Len(bs) < 8 + 4 * n \/ ro + 4 > Len(bs) \/ (\E i \in 1 .. n : bs[8 + 4 * (i - 1) + 1] >= 128)
  THEN [ok |-> FALSE, v |-> <<>>]
  ELSE LET ax == RU16(bs, ro)  nr == RU16(bs, ro + 2)
           offs == [i \in 1 .. n |-> RU32(bs, 8 + 4 * (i - 1))] IN
  IF ro + 4 + 6 * ax * nr > Len(bs) \/ (\E i \in 1 .. n : offs[i] + 6 > Len(bs)) THEN [ok |-> FALSE, v |-> <<>>]
  ELSE LET dat(i) == LET a == offs[i]  nri == RU16(bs, a + 4) IN
                     [items |-> RU16(bs, a), wdc |-> RU16(bs, a + 2), ris |-> ArrU16(bs, a + 6, nri)] IN
  IF \E i \in 1 .. n : offs[i] + 6 + 2 * RU16(bs, offs[i] + 4) > Len(bs) THEN [ok |-> FALSE, v |-> <<>>]
  ELSE LET full(i) == LET d == dat(i)  a == offs[i] + 6 + 2 * Len(d.ris)
                          dl == d.items * IvsRowLen([wdc |-> d.wdc, ris |-> d.ris]) IN
                      [items |-> d.items, wdc |-> d.wdc, ris |-> d.ris,
                       deltas |-> IF a + dl > Len(bs) THEN <<-1>> ELSE RB(bs, a, dl)] IN
  [ok |-> TRUE,
   v |-> [axes |-> ax,
          regions |-> [r \in 1 .. nr |-> [j \in 1 .. ax |-> LET a == ro + 4 + 6 * (ax * (r - 1) + (j - 1)) IN
                                             <<RI16(bs, a), RI16(bs, a + 2), RI16(bs, a + 4)>>]],
          data |-> [i \in 1 .. n |-> full(i)]]]

\* ---- a whole CFF table (one font) ------------------------------------------------------
\* The CFF writer is a two-pass writer: it reserves the Top DICT INDEX from a size computed in advance
\* (the offSize of that INDEX depends on the length of the Top DICT data), writes String INDEX, Global
\* Subr INDEX, CharStrings, charset, Private DICTs, Font DICT INDEX behind the reservation and fills the
\* reservation last, with the offsets it learned on the way.  The table as a value:
\*   [hdr, lay, names, top, strs, gs, cs, sids, priv, hasLs, ls, fds, fdsel]
\*   lay                     : which of the layouts of EncCff the bytes have (not part of what is read)
\*   hdr                     : [minor, offSize, pad] - the header is major = 1, minor, hdrSize, offSize followed by
\*                             hdrSize - 4 bytes a reader of version 1 does not know and skips (pad); the Name
\*                             INDEX starts at hdrSize, every offset of the table counts from the start of the header
\*   names, strs, gs, cs, ls : byte strings (objects of the Name / String / Global Subr / CharStrings /
\*                             Local Subr INDEX)
\*   top, priv               : DICT entries WITHOUT the entries that locate other structures
\*   sids                    : <<>> = predefined charset 0 (ISOAdobe), else the format 0 charset
\*   hasLs                   : the Private DICT has a Subrs entry (ls may be empty all the same)
\*   fds                     : <<>> for a name-keyed font; CID-keyed: [fd, priv, hasLs, ls] per Font DICT
\*                             (then top starts with ROS and sids are the CIDs), fdsel one fd per glyph
\* Dev_CffLayout: where the structures lie is the writer's business; DecCff follows the offsets.  The
\* encoder below is ONE layout (the order of TN 5176's example); every offset is written in the five-byte
\* form so that no size depends on an offset.
\* -- the header.  hdrSize is a LENGTH that travels with the bytes it counts: a writer that does not emit the bytes
\* it skipped must not announce them (Normalise drops them: NormHdr); one that keeps them is as good (Dev_HdrPad).
HdrOk(h) == IsU8(h.minor) /\ h.offSize \in 1 .. 4 /\ IsBytes(h.pad) /\ Len(h.pad) <= 251
HdrLen(h) == 4 + Len(h.pad)
EncHdr(h) == <<1, h.minor, HdrLen(h), h.offSize>> \o h.pad
NormHdr(h) == [h EXCEPT !.pad = <<>>]
HdrWrittenOk(read, written) == /\ written.minor = read.minor /\ written.offSize = read.offSize
                               /\ (written.pad = <<>> \/ written.pad = read.pad)
Hdr4 == [minor |-> 0, offSize |-> 1, pad |-> <<>>]

OffsetOps == {OpCharset, OpEncoding, OpCharStrings, OpPrivate, OpSubrs, OpFDArray, OpFDSelect}
NonOffsetEntries(es) == SelectSeq(es, LAMBDA e : e.op \notin OffsetOps)
DE(op, args) == [op |-> op, args |-> args]
IndexData(objs) == SumSeq(MapS(objs, Len))
IndexBytes(objs) == EncIndex(objs, IF objs = <<>> THEN 1 ELSE MinOffSize(1 + IndexData(objs)), FALSE)
IndexLen(objs) == IF objs = <<>> THEN 2 ELSE 3 + MinOffSize(1 + IndexData(objs)) * (Len(objs) + 1) + IndexData(objs)

PrivDictBytes(p, hasLs) ==
  LET body == EncDict(p) IN IF hasLs THEN body \o EncOperand(O(Len(body) + 6)) \o EncOperator(OpSubrs) ELSE body
PrivBlock(p, hasLs, ls) == PrivDictBytes(p, hasLs) \o (IF hasLs THEN IndexBytes(ls) ELSE <<>>)
CharsetBytes(sids) == IF sids = <<>> THEN <<>> ELSE EncCharset([fmt |-> 0, sids |-> sids])

TopEntries(v, charsetOff, csOff, a, b) ==      \* a, b: Private (size, offset)  or  FDArray, FDSelect offsets
  v.top \o (IF v.sids = <<>> THEN <<>> ELSE <<DE(OpCharset, <<O(charsetOff)>>)>>)
  \o <<DE(OpCharStrings, <<O(csOff)>>)>>
  \o (IF v.fds = <<>> THEN <<DE(OpPrivate, <<O(a), O(b)>>)>>
      ELSE <<DE(OpFDArray, <<O(a)>>), DE(OpFDSelect, <<O(b)>>)>>)
TopDictLen(v) == Len(EncDict(TopEntries(v, 0, 0, 0, 0)))
FdEntries(f, size, off) == f.fd \o <<DE(OpPrivate, <<O(size), O(off)>>)>>

\* v.lay = 0: the order of TN 5176's example, nothing between the structures.  v.lay = 1 (Dev_CffLayout on the side of
\* the SOURCE: a reader must follow the offsets): the structures the DICTs locate in the opposite order - Private
\* DICT(s) before the charset before the CharStrings, the Font DICT INDEX first - with three unreferenced bytes before,
\* between and behind them.
LayGap == <<201, 202, 203>>
EncCff(v) ==
  LET tl     == TopDictLen(v)
      topLen == 3 + 2 * MinOffSize(tl + 1) + tl
      nameI  == IndexBytes(v.names)  strI == IndexBytes(v.strs)  gsI == IndexBytes(v.gs)  csI == IndexBytes(v.cs)
      chs    == CharsetBytes(v.sids)
      hdr    == EncHdr(v.hdr)
      alt    == v.lay = 1
      g      == LayGap
      base   == Len(hdr) + Len(nameI) + topLen + Len(strI) + Len(gsI) IN
  IF v.fds = <<>>
  THEN LET pb    == PrivBlock(v.priv, v.hasLs, v.ls)
           pOff  == IF alt THEN base + 3 ELSE base + Len(csI) + Len(chs)
           chOff == IF alt THEN base + 3 + Len(pb) + 3 ELSE base + Len(csI)
           csOff == IF alt THEN base + 3 + Len(pb) + 3 + Len(chs) + 3 ELSE base
           top   == EncDict(TopEntries(v, chOff, csOff, Len(PrivDictBytes(v.priv, v.hasLs)), pOff)) IN
       hdr \o nameI \o IndexBytes(<<top>>) \o strI \o gsI
       \o (IF alt THEN g \o pb \o g \o chs \o g \o csI \o g ELSE csI \o chs \o pb)
  ELSE LET fdsel  == EncFdSelect([fmt |-> 0, fds |-> v.fdsel])
           blocks == [i \in 1 .. Len(v.fds) |-> PrivBlock(v.fds[i].priv, v.fds[i].hasLs, v.fds[i].ls)]
           bl     == SumSeq(MapS(blocks, Len))
           fddLen == IndexLen([i \in 1 .. Len(v.fds) |-> EncDict(FdEntries(v.fds[i], 0, 0))])
           fdaOff == IF alt THEN base + 3 ELSE base + Len(csI) + Len(chs) + Len(fdsel) + bl
           bOff   == IF alt THEN base + 3 + fddLen + 3 ELSE base + Len(csI) + Len(chs) + Len(fdsel)
           fsOff  == IF alt THEN bOff + bl + 3 ELSE base + Len(csI) + Len(chs)
           chOff  == IF alt THEN fsOff + Len(fdsel) + 3 ELSE base + Len(csI)
           csOff  == IF alt THEN chOff + Len(chs) + 3 ELSE base
           pOff   == Pref(MapS(blocks, Len), 1, bOff)
           fdd    == [i \in 1 .. Len(v.fds) |->
                        EncDict(FdEntries(v.fds[i], Len(PrivDictBytes(v.fds[i].priv, v.fds[i].hasLs)), pOff[i]))]
           top    == EncDict(TopEntries(v, chOff, csOff, fdaOff, fsOff)) IN
       hdr \o nameI \o IndexBytes(<<top>>) \o strI \o gsI
       \o (IF alt THEN g \o IndexBytes(fdd) \o g \o Cat(blocks) \o g \o fdsel \o g \o chs \o g \o csI \o g
           ELSE csI \o chs \o fdsel \o Cat(blocks) \o IndexBytes(fdd))

\* -- decoding by following the structure
IndexAt(bs, at) == IF at < 0 \/ at + 2 > Len(bs) THEN [ok |-> FALSE, objs |-> <<>>, size |-> 0, offSize |-> 0]
                   ELSE DecIndex(SubSeq(bs, at + 1, Len(bs)), FALSE)
DictArgs(es, op) == LET ks == {i \in 1 .. Len(es) : es[i].op = op} IN
                    IF ks = {} THEN <<>> ELSE es[CHOOSE i \in ks : \A j \in ks : i <= j].args
DictWellFormed(es) == \A i \in 1 .. Len(es) : es[i].op >= 0
\* a Private DICT at (size, off) with its local subroutines: [ok, priv, hasLs, ls]
PrivAt(bs, size, off) ==
  IF size < 0 \/ off < 0 \/ off + size > Len(bs) THEN [ok |-> FALSE, priv |-> <<>>, hasLs |-> FALSE, ls |-> <<>>]
  ELSE LET es == DecDict(RB(bs, off, size))  sa == DictArgs(es, OpSubrs) IN
       IF ~DictWellFormed(es) THEN [ok |-> FALSE, priv |-> <<>>, hasLs |-> FALSE, ls |-> <<>>]
       ELSE IF sa = <<>> THEN [ok |-> TRUE, priv |-> NonOffsetEntries(es), hasLs |-> FALSE, ls |-> <<>>]
       ELSE LET li == IndexAt(bs, off + sa[1].v) IN
            [ok |-> li.ok, priv |-> NonOffsetEntries(es), hasLs |-> TRUE, ls |-> li.objs]
CffBad == [ok |-> FALSE, v |-> <<>>, topLen |-> -1, topOffSize |-> -1]
DecCff(bs) ==
  IF Len(bs) < 4 THEN CffBad ELSE
  IF bs[1] # 1 \/ bs[3] < 4 \/ bs[3] > Len(bs) \/ bs[4] \notin 1 .. 4 THEN CffBad ELSE      \* what a reader of version 1 accepts
  LET hd == [minor |-> bs[2], offSize |-> bs[4], pad |-> SubSeq(bs, 5, bs[3])]
      i1 == IndexAt(bs, bs[3]) IN IF ~i1.ok THEN CffBad ELSE
  LET a2 == bs[3] + i1.size  i2 == IndexAt(bs, a2) IN IF ~i2.ok \/ Len(i2.objs) # 1 THEN CffBad ELSE
  LET a3 == a2 + i2.size  i3 == IndexAt(bs, a3) IN IF ~i3.ok THEN CffBad ELSE
  LET a4 == a3 + i3.size  i4 == IndexAt(bs, a4) IN IF ~i4.ok THEN CffBad ELSE
  LET top == DecDict(i2.objs[1]) IN IF ~DictWellFormed(top) \/ DictArgs(top, OpCharStrings) = <<>> THEN CffBad ELSE
  LET cs == IndexAt(bs, DictArgs(top, OpCharStrings)[1].v) IN IF ~cs.ok THEN CffBad ELSE
  LET n    == Len(cs.objs)
      cha  == DictArgs(top, OpCharset)
      sids == IF cha = <<>> \/ cha[1].v <= 2 THEN <<>>
              ELSE IF cha[1].v >= Len(bs) \/ bs[cha[1].v + 1] # 0 THEN <<-1>>         \* the writers at hand keep format 0
              ELSE DecCharset(SubSeq(bs, cha[1].v + 1, Len(bs)), n).sids
      pa   == DictArgs(top, OpPrivate)
      fa   == DictArgs(top, OpFDArray)
      fsa  == DictArgs(top, OpFDSelect) IN
  IF fa = <<>>
  THEN IF Len(pa) # 2 THEN CffBad ELSE
       LET p == PrivAt(bs, pa[1].v, pa[2].v) IN IF ~p.ok THEN CffBad ELSE
       [ok |-> TRUE, topLen |-> Len(i2.objs[1]), topOffSize |-> i2.offSize,
        v |-> [hdr |-> hd, names |-> i1.objs, top |-> NonOffsetEntries(top), strs |-> i3.objs, gs |-> i4.objs, cs |-> cs.objs,
               sids |-> sids, priv |-> p.priv, hasLs |-> p.hasLs, ls |-> p.ls, fds |-> <<>>, fdsel |-> <<>>]]
  ELSE IF fsa = <<>> THEN CffBad ELSE
       LET fda == IndexAt(bs, fa[1].v) IN IF ~fda.ok THEN CffBad ELSE
       LET fdd == [i \in 1 .. Len(fda.objs) |-> DecDict(fda.objs[i])] IN
       IF \E i \in 1 .. Len(fdd) : ~DictWellFormed(fdd[i]) \/ Len(DictArgs(fdd[i], OpPrivate)) # 2 THEN CffBad ELSE
       LET ps == [i \in 1 .. Len(fdd) |-> PrivAt(bs, DictArgs(fdd[i], OpPrivate)[1].v, DictArgs(fdd[i], OpPrivate)[2].v)] IN
       IF \E i \in 1 .. Len(ps) : ~ps[i].ok THEN CffBad ELSE
       [ok |-> TRUE, topLen |-> Len(i2.objs[1]), topOffSize |-> i2.offSize,
        v |-> [hdr |-> hd, names |-> i1.objs, top |-> NonOffsetEntries(top), strs |-> i3.objs, gs |-> i4.objs, cs |-> cs.objs,
               sids |-> sids, priv |-> <<>>, hasLs |-> FALSE, ls |-> <<>>,
               fds |-> [i \in 1 .. Len(fdd) |-> [fd |-> NonOffsetEntries(fdd[i]), priv |-> ps[i].priv,
                                                 hasLs |-> ps[i].hasLs, ls |-> ps[i].ls]],
               fdsel |-> IF fsa[1].v >= Len(bs) \/ bs[fsa[1].v + 1] # 0 THEN <<-1>>
                         ELSE DecFdSelect(SubSeq(bs, fsa[1].v + 1, Len(bs)), n).fds]]

\* equality of two table values: DICTs up to the declared normalisation (entries equal to their
\* defaults may be dropped), everything else exactly
DictSame(kind, a, b) == EntriesEq(NormDict(kind, a), NormDict(kind, b))
CffEq(a, b) ==
  /\ a.hdr.minor = b.hdr.minor /\ a.hdr.offSize = b.hdr.offSize           \* the skipped bytes: HdrWrittenOk
  /\ a.names = b.names /\ a.strs = b.strs /\ a.gs = b.gs /\ a.cs = b.cs /\ a.sids = b.sids
  /\ DictSame("top", a.top, b.top) /\ DictSame("priv", a.priv, b.priv)
  /\ a.hasLs = b.hasLs /\ a.ls = b.ls /\ a.fdsel = b.fdsel
  /\ Len(a.fds) = Len(b.fds)
  /\ \A i \in 1 .. Len(a.fds) : /\ DictSame("font", a.fds[i].fd, b.fds[i].fd) /\ DictSame("priv", a.fds[i].priv, b.fds[i].priv)
                                /\ a.fds[i].hasLs = b.fds[i].hasLs /\ a.fds[i].ls = b.fds[i].ls

\* what a reader reports of a table without shipping it: per object (length, first byte, last byte,
\* byte sum mod 65521); per DICT the operators of its non-locating entries; the strings the Top DICT's
\* SID operands (version, Notice, FullName, FamilyName, Weight) resolve to
BytesFact(o) == IF o = <<>> THEN <<0, 0, 0, 0>> ELSE <<Len(o), o[1], o[Len(o)], SumSeq(o) % 65521>>
FactsOf(objs) == MapS(objs, BytesFact)
OpsOf(es) == MapS(es, LAMBDA e : e.op)
SidOps == {0, 1, 2, 3, 4}
SidFact(v, sid) == IF sid < 391 THEN <<-1, 0, 0, 0>>
                   ELSE IF sid - 390 <= Len(v.strs) THEN BytesFact(v.strs[sid - 390]) ELSE <<-2, 0, 0, 0>>
CffFacts(v) ==
  LET nt == NormDict("top", v.top) IN
  [hdr |-> <<1, v.hdr.minor, v.hdr.offSize>>,
   names |-> FactsOf(v.names), strs |-> FactsOf(v.strs), gs |-> FactsOf(v.gs), cs |-> FactsOf(v.cs),
   sids |-> v.sids, topops |-> OpsOf(nt),
   sidstr |-> MapS(SelectSeq(nt, LAMBDA e : e.op \in SidOps /\ Len(e.args) = 1 /\ e.args[1].t = "i"),
                   LAMBDA e : SidFact(v, e.args[1].v)),
   privs |-> IF v.fds = <<>> THEN <<[ops |-> OpsOf(NormDict("priv", v.priv)), hasLs |-> v.hasLs, ls |-> FactsOf(v.ls)]>>
             ELSE [i \in 1 .. Len(v.fds) |-> [ops |-> OpsOf(NormDict("priv", v.fds[i].priv)), hasLs |-> v.fds[i].hasLs,
                                              ls |-> FactsOf(v.fds[i].ls)]],
   fdops |-> [i \in 1 .. Len(v.fds) |-> OpsOf(NormDict("font", v.fds[i].fd))],
   fdsel |-> v.fdsel]

---------------------------------------------------------------------------
\* ---- the parts of an item variation store on their own -----------------------------------
\* ItemVariationData: [items, wdc, ris, deltas] (EncIvsData); the only layout there is
DecIvsData(bs) ==
  IF Len(bs) < 6 THEN [ok |-> FALSE, v |-> <<>>, size |-> 0]
  ELSE LET n == RU16(bs, 4)  w == RU16(bs, 2) IN
  IF 6 + 2 * n > Len(bs) THEN [ok |-> FALSE, v |-> <<>>, size |-> 0]
  ELSE LET ris == ArrU16(bs, 6, n)
           dl  == RU16(bs, 0) * IvsRowLen([wdc |-> w, ris |-> ris]) IN
  IF 6 + 2 * n + dl > Len(bs) THEN [ok |-> FALSE, v |-> <<>>, size |-> 0]
  ELSE [ok |-> TRUE, size |-> 6 + 2 * n + dl,
        v |-> [items |-> RU16(bs, 0), wdc |-> w, ris |-> ris, deltas |-> RB(bs, 6 + 2 * n, dl)]]
\* rows a reader can hand out: one per item (rows of length zero are indistinguishable: any index has one)
IvdRows(d, probes) == IF IvsRowLen(d) = 0 THEN probes ELSE d.items
\* VariationRegionList: [axes, regions]
DecIvsRegions(bs) ==
  LET ax == RU16(bs, 0)  nr == RU16(bs, 2) IN
  [axes |-> ax,
   regions |-> [r \in 1 .. nr |-> [j \in 1 .. ax |-> LET a == 4 + 6 * (ax * (r - 1) + (j - 1)) IN
                                      <<RI16(bs, a), RI16(bs, a + 2), RI16(bs, a + 4)>>]]]

CffKinds == {"cffint", "dict", "index", "charset", "encoding", "fdselect", "ivs", "ivd", "ivr", "cfft"}
=============================================================================
