------------------------------ MODULE CffCodec ------------------------------
(***************************************************************************)
(* Encoders, decoders and normalisations of the CFF / CFF2 structures      *)
(* allsorts parses and serialises (property C15), written from Adobe       *)
(* Technical Note #5176 and the OpenType CFF2 / ItemVariationStore specs:  *)
(*   DICT operands (integers of 1 / 2 / 3 / 5 bytes, real numbers as       *)
(*   nibble strings, offsets), operators, DICTs with their defaults,       *)
(*   INDEX with its offset size, charsets 0-2, encodings 0-1,              *)
(*   FDSelect 0 / 3, item variation store.                                 *)
(*                                                                         *)
(* Freedom the format leaves to a writer (and the property with it):       *)
(*   Dev_IntEncoding  an integer may be written in any form that holds it  *)
(*   Dev_OffSize      an INDEX may use any offSize that holds its last     *)
(*                    offset                                               *)
(*   Dev_IvsLayout    the sub-tables of an item variation store may be     *)
(*                    placed anywhere after the header                     *)
(* so allsorts' bytes are judged by DECODING them with this module         *)
(* (DecDict, DecIndex, DecIVS), not by comparing them with Enc.            *)
(***************************************************************************)
EXTENDS TableCodec

\* ---- operands ------------------------------------------------------------------
IntSize(v) == IF v >= -107 /\ v <= 107 THEN 1
              ELSE IF (v >= 108 /\ v <= 1131) \/ (v >= -1131 /\ v <= -108) THEN 2
              ELSE IF v >= -32768 /\ v <= 32767 THEN 3 ELSE 5
\* the shortest form (Table 3 of TN 5176)
EncIntOp(v) ==
  CASE IntSize(v) = 1 -> <<v + 139>>
    [] IntSize(v) = 2 -> IF v > 0 THEN LET w == v - 108 IN <<(w \div 256) + 247, w % 256>>
                                  ELSE LET w == -v - 108 IN <<(w \div 256) + 251, w % 256>>
    [] IntSize(v) = 3 -> <<28>> \o I16(v)
    [] IntSize(v) = 5 -> <<29>> \o I32(v)
\* a chosen form: 1, 2 as above where they apply; 3 and 5 are the fixed-width forms
EncIntForm(v, form) ==
  IF form = 5 THEN <<29>> \o I32(v) ELSE IF form = 3 THEN <<28>> \o I16(v) ELSE EncIntOp(v)
Dev_IntEncoding(v) == {IntSize(v)} \cup (IF IntSize(v) <= 3 THEN {3} ELSE {}) \cup {5}

\* a real number is its nibble string, kept as bytes: every byte but the last is free of the
\* end nibble 0xF, the last byte has it (in either half or both)
HasF(b) == b \div 16 = 15 \/ b % 16 = 15
RealOk(bs) == /\ Len(bs) >= 1 /\ IsBytes(bs) /\ HasF(bs[Len(bs)])
              /\ \A i \in 1 .. (Len(bs) - 1) : ~HasF(bs[i])

\* operand: [t |-> "i" | "o" | "r", v |-> integer or nibble bytes]
\* ("o": an integer that is an offset; always written in the 5-byte form so that the size of
\*  the DICT does not depend on where things end up)
OperandOk(a) == IF a.t = "r" THEN RealOk(a.v) ELSE a.v >= -2147483647 - 1 /\ a.v <= 2147483647
EncOperand(a) == CASE a.t = "i" -> EncIntOp(a.v) [] a.t = "o" -> <<29>> \o I32(a.v) [] a.t = "r" -> <<30>> \o a.v
\* operator codes: one byte b, or 12 b written here as 3072 + b
EncOperator(op) == IF op >= 3072 THEN <<12, op - 3072>> ELSE <<op>>

\* token at position at (0-based): [t |-> "op" | "i" | "r" | "bad" | "eof", v, n |-> size]
FirstF(bs, at) == LET c == {i \in (at + 1) .. Len(bs) : HasF(bs[i])} IN
                  IF c = {} THEN 0 ELSE CHOOSE i \in c : \A j \in c : i <= j
Tok(bs, at) ==
  IF at >= Len(bs) THEN [t |-> "eof", v |-> 0, n |-> 0] ELSE
  LET b0 == bs[at + 1]  left == Len(bs) - at IN
  IF b0 = 12 THEN (IF left < 2 THEN [t |-> "bad", v |-> 0, n |-> 0] ELSE [t |-> "op", v |-> 3072 + bs[at + 2], n |-> 2])
  ELSE IF b0 <= 24 THEN [t |-> "op", v |-> b0, n |-> 1]
  ELSE IF b0 = 28 THEN (IF left < 3 THEN [t |-> "bad", v |-> 0, n |-> 0] ELSE [t |-> "i", v |-> RI16(bs, at + 1), n |-> 3])
  ELSE IF b0 = 29 THEN (IF left < 5 THEN [t |-> "bad", v |-> 0, n |-> 0] ELSE [t |-> "i", v |-> RI32(bs, at + 1), n |-> 5])
  ELSE IF b0 = 30 THEN (LET e == FirstF(bs, at + 1) IN
                        IF e = 0 THEN [t |-> "bad", v |-> 0, n |-> 0]
                        ELSE [t |-> "r", v |-> SubSeq(bs, at + 2, e), n |-> e - at])
  ELSE IF b0 >= 32 /\ b0 <= 246 THEN [t |-> "i", v |-> b0 - 139, n |-> 1]
  ELSE IF b0 >= 247 /\ b0 <= 250 THEN (IF left < 2 THEN [t |-> "bad", v |-> 0, n |-> 0]
                                      ELSE [t |-> "i", v |-> (b0 - 247) * 256 + bs[at + 2] + 108, n |-> 2])
  ELSE IF b0 >= 251 /\ b0 <= 254 THEN (IF left < 2 THEN [t |-> "bad", v |-> 0, n |-> 0]
                                      ELSE [t |-> "i", v |-> -((b0 - 251) * 256) - bs[at + 2] - 108, n |-> 2])
  ELSE [t |-> "bad", v |-> 0, n |-> 0]

\* ---- DICT ------------------------------------------------------------------------
\* [kind, entries: [op, args: operand*]*]   kind: "top" | "priv" | "font" | "top2" | "priv2"
OpCharset == 15  OpEncoding == 16  OpCharStrings == 17  OpPrivate == 18  OpSubrs == 19
OpVStore == 24   OpFDArray == 3108  OpFDSelect == 3109
I(v) == [t |-> "i", v |-> v]
O(v) == [t |-> "o", v |-> v]
Rl(bs) == [t |-> "r", v |-> bs]
Real0001 == Rl(<<10, 0, 31>>)                      \* .001
FontMatrixDefault == <<Real0001, I(0), I(0), Real0001, I(0), I(0)>>
DictDefault(kind, op) ==       \* <<>> stands for "no default" (no operator takes zero operands)
  CASE kind = "top" ->
         (CASE op \in {3073, 3074, 3077, 3080, 3103, 3104, 3105} -> <<I(0)>>
            [] op = 3075 -> <<I(-100)>> [] op = 3076 -> <<I(50)>> [] op = 3078 -> <<I(2)>>
            [] op = 3079 -> FontMatrixDefault [] op = 5 -> <<I(0), I(0), I(0), I(0)>>
            [] op \in {15, 16} -> <<O(0)>> [] op = 3106 -> <<I(8720)>> [] OTHER -> <<>>)
    [] kind = "priv" ->
         (CASE op = 3081 -> <<Rl(<<10, 3, 150, 37, 255>>)>> [] op = 3082 -> <<I(7)>> [] op = 3083 -> <<I(1)>>
            [] op \in {3086, 3089, 3091, 3080, 20, 21} -> <<I(0)>>
            [] op = 3090 -> <<Rl(<<10, 6, 255>>)>> [] OTHER -> <<>>)
    [] kind = "top2" -> (IF op = 3079 THEN FontMatrixDefault ELSE <<>>)
    [] kind = "priv2" ->
         (CASE op = 3081 -> <<Rl(<<10, 3, 150, 37, 255>>)>> [] op = 3082 -> <<I(7)>> [] op = 3083 -> <<I(1)>>
            [] op \in {3089, 22} -> <<I(0)>> [] op = 3090 -> <<Rl(<<10, 6, 255>>)>> [] OTHER -> <<>>)
    [] OTHER -> <<>>

\* operands of the operators that locate other structures are offsets (reader's view)
AsOffsets(op, args) ==
  IF /\ op \in {OpCharset, OpCharStrings, OpSubrs, OpFDArray, OpFDSelect, OpVStore}
     /\ Len(args) = 1 /\ args[1].t = "i" THEN <<O(args[1].v)>>
  ELSE IF op = OpEncoding /\ Len(args) = 1 /\ args[1].t = "i" /\ args[1].v > 1 THEN <<O(args[1].v)>>
  ELSE IF op = OpPrivate /\ Len(args) = 2 /\ args[1].t = "i" /\ args[2].t = "i" THEN <<O(args[1].v), O(args[2].v)>>
  ELSE args
ReadNormDict(es) == MapS(es, LAMBDA e : [op |-> e.op, args |-> AsOffsets(e.op, e.args)])

\* equal up to the integer / offset tag
SameArgs(a, b) == /\ Len(a) = Len(b)
                  /\ \A i \in 1 .. Len(a) : IF a[i].t = "r" \/ b[i].t = "r" THEN a[i].t = b[i].t /\ a[i].v = b[i].v
                                            ELSE a[i].v = b[i].v
\* equality of operand lists / entry lists that never compares a number with a nibble string
\* (TLC raises an error when asked whether 0 = <<255>>)
ArgsEq(a, b) == Len(a) = Len(b) /\ \A i \in 1 .. Len(a) : a[i].t = b[i].t /\ a[i].v = b[i].v
EntriesEq(x, y) == Len(x) = Len(y) /\ \A i \in 1 .. Len(x) : x[i].op = y[i].op /\ ArgsEq(x[i].args, y[i].args)
IsDefault(kind, e) == DictDefault(kind, e.op) # <<>> /\ SameArgs(e.args, DictDefault(kind, e.op))
\* declared normalisation: entries equal to their defaults are omitted
NormDict(kind, es) == SelectSeq(es, LAMBDA e : ~IsDefault(kind, e))

DictOk(es) == \A i \in 1 .. Len(es) : /\ Len(es[i].args) <= 48
                                      /\ \A j \in 1 .. Len(es[i].args) : OperandOk(es[i].args[j])
EncDict(es) == CatMap(es, LAMBDA e : CatMap(e.args, EncOperand) \o EncOperator(e.op))
\* the same with a chosen integer form per entry (what other writers may have produced)
EncDictForm(es, form) ==
  CatMap(es, LAMBDA e : CatMap(e.args, LAMBDA a : IF a.t = "r" THEN EncOperand(a) ELSE EncIntForm(a.v, form))
                        \o EncOperator(e.op))

RECURSIVE DecDictFrom(_, _, _)
DecDictFrom(bs, at, acc) ==       \* acc: operands collected for the next operator
  LET k == Tok(bs, at) IN
  CASE k.t = "eof" -> IF acc = <<>> THEN <<>> ELSE <<[op |-> -1, args |-> acc]>>      \* dangling operands
    [] k.t = "bad" -> <<[op |-> -2, args |-> acc]>>
    [] k.t = "op"  -> <<[op |-> k.v, args |-> AsOffsets(k.v, acc)]>> \o DecDictFrom(bs, at + k.n, <<>>)
    [] k.t = "i"   -> DecDictFrom(bs, at + k.n, Append(acc, I(k.v)))
    [] k.t = "r"   -> DecDictFrom(bs, at + k.n, Append(acc, Rl(k.v)))
DecDict(bs) == DecDictFrom(bs, 0, <<>>)

\* a writer may keep a default-valued entry, never invent or reorder entries
RECURSIVE IsSubSeq(_, _)
IsSubSeq(a, b) == IF a = <<>> THEN TRUE ELSE IF b = <<>> THEN FALSE
                  ELSE IF a[1].op = b[1].op /\ ArgsEq(a[1].args, b[1].args) THEN IsSubSeq(Tail(a), Tail(b))
                  ELSE IsSubSeq(a, Tail(b))
DictWrittenOk(kind, read, written) ==
  /\ EntriesEq(NormDict(kind, written), NormDict(kind, read))
  /\ IsSubSeq(written, read)

\* ---- INDEX -------------------------------------------------------------------------
\* objects are byte strings; count is 16 bit (CFF) or 32 bit (CFF2)
MinOffSize(last) == IF last <= 255 THEN 1 ELSE IF last <= 65535 THEN 2 ELSE IF last <= 16777215 THEN 3 ELSE 4
Dev_OffSize(last) == MinOffSize(last) .. 4
IndexOffsets(lens) == [i \in 1 .. (Len(lens) + 1) |-> 1 + SumSeq(SubSeq(lens, 1, i - 1))]
EncOff(sz, x) == CASE sz = 1 -> U8(x) [] sz = 2 -> U16(x) [] sz = 3 -> U24(x) [] sz = 4 -> U32(x)
EncIndex(objs, sz, c32) ==
  (IF c32 THEN U32(Len(objs)) ELSE U16(Len(objs)))
  \o (IF objs = <<>> THEN <<>>
      ELSE U8(sz) \o CatMap(IndexOffsets(MapS(objs, Len)), LAMBDA x : EncOff(sz, x)) \o Cat(objs))
ROff(bs, at, sz) == CASE sz = 1 -> RU8(bs, at) [] sz = 2 -> RU16(bs, at) [] sz = 3 -> RU24(bs, at) [] sz = 4 -> RU32(bs, at)
\* [ok, objs, size]
DecIndex(bs, c32) ==
  LET h == IF c32 THEN 4 ELSE 2
      n == IF c32 THEN RU32(bs, 0) ELSE RU16(bs, 0) IN
  IF n = 0 THEN [ok |-> TRUE, objs |-> <<>>, size |-> h, offSize |-> 0]
  ELSE LET sz == bs[h + 1]
           offs == [i \in 1 .. (n + 1) |-> ROff(bs, h + 1 + sz * (i - 1), sz)]
           d == h + 1 + sz * (n + 1) IN
       IF sz \notin 1 .. 4 \/ offs[1] # 1 \/ (\E i \in 1 .. n : offs[i + 1] < offs[i]) \/ d + offs[n + 1] - 1 > Len(bs)
       THEN [ok |-> FALSE, objs |-> <<>>, size |-> 0, offSize |-> sz]
       ELSE [ok |-> TRUE, objs |-> [i \in 1 .. n |-> RB(bs, d + offs[i] - 1, offs[i + 1] - offs[i])],
             size |-> d + offs[n + 1] - 1, offSize |-> sz]
IndexRefuse(objs, c32) == ~c32 /\ Len(objs) > 65535

\* ---- charset: [fmt 0, sids] | [fmt 1 | 2, ranges <<first, nLeft>>*] -------------------
CharsetCovered(v) == IF v.fmt = 0 THEN Len(v.sids) ELSE SumSeq(MapS(v.ranges, LAMBDA r : r[2] + 1))
CharsetInFormat(v) ==
  CASE v.fmt = 0 -> \A i \in 1 .. Len(v.sids) : IsU16(v.sids[i])
    [] v.fmt = 1 -> \A i \in 1 .. Len(v.ranges) : IsU16(v.ranges[i][1]) /\ IsU8(v.ranges[i][2])
    [] v.fmt = 2 -> \A i \in 1 .. Len(v.ranges) : IsU16(v.ranges[i][1]) /\ IsU16(v.ranges[i][2])
EncCharset(v) ==
  CASE v.fmt = 0 -> <<0>> \o CatMap(v.sids, U16)
    [] v.fmt = 1 -> <<1>> \o CatMap(v.ranges, LAMBDA r : U16(r[1]) \o U8(r[2]))
    [] v.fmt = 2 -> <<2>> \o CatMap(v.ranges, LAMBDA r : U16(r[1]) \o U16(r[2]))
RECURSIVE DecRanges(_, _, _, _)
DecRanges(bs, at, need, wide) ==    \* ranges until `need` glyphs are covered
  IF need <= 0 THEN <<>>
  ELSE LET nl == IF wide THEN RU16(bs, at + 2) ELSE RU8(bs, at + 2) IN
       <<<<RU16(bs, at), nl>>>> \o DecRanges(bs, at + (IF wide THEN 4 ELSE 3), need - (nl + 1), wide)
DecCharset(bs, nglyphs) ==
  CASE bs[1] = 0 -> [fmt |-> 0, sids |-> ArrU16(bs, 1, nglyphs - 1)]
    [] bs[1] = 1 -> [fmt |-> 1, ranges |-> DecRanges(bs, 1, nglyphs - 1, FALSE)]
    [] bs[1] = 2 -> [fmt |-> 2, ranges |-> DecRanges(bs, 1, nglyphs - 1, TRUE)]

\* ---- encoding: [fmt 0, codes] | [fmt 1, ranges <<first, nLeft>>*] ----------------------
EncodingInFormat(v) ==
  IF v.fmt = 0 THEN IsBytes(v.codes) ELSE \A i \in 1 .. Len(v.ranges) : IsU8(v.ranges[i][1]) /\ IsU8(v.ranges[i][2])
EncodingN(v) == IF v.fmt = 0 THEN Len(v.codes) ELSE Len(v.ranges)
EncodingRefuse(v) == EncodingN(v) > 255
EncEncoding(v) ==
  IF v.fmt = 0 THEN <<0, Len(v.codes)>> \o v.codes
  ELSE <<1, Len(v.ranges)>> \o CatMap(v.ranges, LAMBDA r : <<r[1], r[2]>>)
DecEncoding(bs) ==
  IF bs[1] = 0 THEN [fmt |-> 0, codes |-> RB(bs, 2, bs[2])]
  ELSE [fmt |-> 1, ranges |-> [i \in 1 .. bs[2] |-> <<bs[2 * i + 1], bs[2 * i + 2]>>]]

\* ---- FDSelect: [fmt 0, fds] | [fmt 3, ranges <<first, fd>>*, sentinel] -------------------
FdSelectInFormat(v) ==
  IF v.fmt = 0 THEN IsBytes(v.fds)
  ELSE IsU16(v.sentinel) /\ \A i \in 1 .. Len(v.ranges) : IsU16(v.ranges[i][1]) /\ IsU8(v.ranges[i][2])
FdSelectRefuse(v) == v.fmt = 3 /\ Len(v.ranges) > 65535
EncFdSelect(v) ==
  IF v.fmt = 0 THEN <<0>> \o v.fds
  ELSE <<3>> \o U16(Len(v.ranges)) \o CatMap(v.ranges, LAMBDA r : U16(r[1]) \o U8(r[2])) \o U16(v.sentinel)
DecFdSelect(bs, nglyphs) ==
  IF bs[1] = 0 THEN [fmt |-> 0, fds |-> RB(bs, 1, nglyphs)]
  ELSE LET n == RU16(bs, 1) IN
       [fmt |-> 3, ranges |-> [i \in 1 .. n |-> <<RU16(bs, 3 * i), RU8(bs, 3 * i + 2)>>],
        sentinel |-> RU16(bs, 3 + 3 * n)]

\* ---- item variation store -----------------------------------------------------------
\* [axes, regions: (<<start, peak, end>>*)*, data: [items, wdc, ris, deltas]*]
\* wdc: bit 15 LONG_WORDS, low 15 bits wordDeltaCount
IvsRowLen(d) == LET w == d.wdc % 32768  base == Len(d.ris) + w IN IF d.wdc >= 32768 THEN 2 * base ELSE base
IvsInFormat(v) ==
  /\ IsU16(v.axes) /\ Len(v.regions) < 32768
  /\ \A i \in 1 .. Len(v.regions) : /\ Len(v.regions[i]) = v.axes
                                    /\ \A j \in 1 .. v.axes : \A c \in 1 .. 3 : IsI16(v.regions[i][j][c])
  /\ \A i \in 1 .. Len(v.data) : LET d == v.data[i] IN
        /\ IsU16(d.items) /\ IsU16(d.wdc) /\ \A j \in 1 .. Len(d.ris) : IsU16(d.ris[j])
        /\ IsBytes(d.deltas) /\ Len(d.deltas) = d.items * IvsRowLen(d)
IvsRefuse(v) == Len(v.data) > 65535 \/ \E i \in 1 .. Len(v.data) : Len(v.data[i].ris) > 65535
EncIvsRegions(v) ==
  U16(v.axes) \o U16(Len(v.regions))
  \o CatMap(v.regions, LAMBDA r : CatMap(r, LAMBDA a : I16(a[1]) \o I16(a[2]) \o I16(a[3])))
EncIvsData(d) == U16(d.items) \o U16(d.wdc) \o U16(Len(d.ris)) \o CatMap(d.ris, U16) \o d.deltas
\* canonical layout: header, region list, data sub-tables in order
EncIVS(v) ==
  LET hdr == 8 + 4 * Len(v.data)
      rl  == EncIvsRegions(v)
      ds  == MapS(v.data, EncIvsData)
      off(i) == hdr + Len(rl) + SumSeq([j \in 1 .. (i - 1) |-> Len(ds[j])]) IN
  U16(1) \o U32(hdr) \o U16(Len(v.data)) \o Cat([i \in 1 .. Len(ds) |-> U32(off(i))]) \o rl \o Cat(ds)
\* [ok, v]: follows the offsets wherever they point (Dev_IvsLayout)
DecIVS(bs) ==
  IF Len(bs) < 8 \/ RU16(bs, 0) # 1 \/ bs[3] >= 128 THEN [ok |-> FALSE, v |-> <<>>]
  ELSE LET ro == RU32(bs, 2)  n == RU16(bs, 6) IN
  IF Len(bs) < 8 + 4 * n \/ ro + 4 > Len(bs) \/ (\E i \in 1 .. n : bs[8 + 4 * (i - 1) + 1] >= 128)
  THEN [ok |-> FALSE, v |-> <<>>]
  ELSE LET ax == RU16(bs, ro)  nr == RU16(bs, ro + 2)
           offs == [i \in 1 .. n |-> RU32(bs, 8 + 4 * (i - 1))] IN
  IF ro + 4 + 6 * ax * nr > Len(bs) \/ (\E i \in 1 .. n : offs[i] + 6 > Len(bs)) THEN [ok |-> FALSE, v |-> <<>>]
  ELSE LET dat(i) == LET a == offs[i]  nri == RU16(bs, a + 4) IN
                     [items |-> RU16(bs, a), wdc |-> RU16(bs, a + 2), ris |-> ArrU16(bs, a + 6, nri)] IN
  IF \E i \in 1 .. n : offs[i] + 6 + 2 * RU16(bs, offs[i] + 4) > Len(bs) THEN [ok |-> FALSE, v |-> <<>>]
  ELSE LET full(i) == LET d == dat(i)  a == offs[i] + 6 + 2 * Len(d.ris)
                          dl == d.items * IvsRowLen([wdc |-> d.wdc, ris |-> d.ris]) IN
                      [items |-> d.items, wdc |-> d.wdc, ris |-> d.ris,
                       deltas |-> IF a + dl > Len(bs) THEN <<-1>> ELSE RB(bs, a, dl)] IN
  [ok |-> TRUE,
   v |-> [axes |-> ax,
          regions |-> [r \in 1 .. nr |-> [j \in 1 .. ax |-> LET a == ro + 4 + 6 * (ax * (r - 1) + (j - 1)) IN
                                             <<RI16(bs, a), RI16(bs, a + 2), RI16(bs, a + 4)>>]],
          data |-> [i \in 1 .. n |-> full(i)]]]

---------------------------------------------------------------------------
CffKinds == {"cffint", "dict", "index", "charset", "encoding", "fdselect", "ivs"}
=============================================================================
