CONSTANTS
  FontList <- FontListThorough
  MaxLen <- MaxLenThorough
  ShortLen = 2
  Core <- CoreThorough
  Alphabet <- AlphabetThorough
  SeqFonts <- SeqFontsThorough
  SeqOps <- SeqOpsAll
  MaxOps = 3
  NotRequiredTables <- NrtThorough
SPECIFICATION Spec
INVARIANTS SmallStepIsClosedForm Lemmas FontsWellFormed Emit
CHECK_DEADLOCK FALSE
