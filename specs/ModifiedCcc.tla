----------------------------- MODULE ModifiedCcc -----------------------------
(***************************************************************************)
(* C17 - the MODIFIED combining class: the table                           *)
(*        canonical combining class (ccc) -> modified combining class      *)
(* that "stably by (modified) combining class" in the property refers to.  *)
(*                                                                         *)
(* Sources (the derivation is: identity, except the exceptions below).     *)
(*  [A] allsorts src/unicode/mcc.rs, doc comment of ModifiedCombiningClass:*)
(*      "An enumeration of the Unicode Canonical_Combining_Class values    *)
(*      (UAX #44, Table 15), with the following modifications:             *)
(*      Remove: CCC84, CCC91, CCC103.  Add: CCC3, CCC4, CCC5."             *)
(*      and the comments inside MODIFIED_COMBINING_CLASS:                  *)
(*      Hebrew  "Reordered in accordance with the SBL Hebrew Font User     *)
(*               Manual" (sbl-site.org/Fonts/SBLHebrewUserManual1.5x.pdf); *)
(*      Telugu  "Map CCC84 and CCC91 to the otherwise unassigned CCC4 and  *)
(*               CCC5 values. If left as-is, the Telugu length marks       *)
(*               U+0C55 and U+0C56 have the undesirable effect of being    *)
(*               reordered after a Halant.";                               *)
(*      Thai    "Map CCC103 to the otherwise unassigned CCC3 value. If     *)
(*               left as-is, the Thai marks U+0E38 and U+0E39 have the     *)
(*               undesirable effect of being reordered after a Phinthu."   *)
(*  [B] HarfBuzz src/hb-unicode.hh, HB_MODIFIED_COMBINING_CLASS_CCC* and   *)
(*      src/hb-unicode.cc, _hb_modified_combining_class[256] - the table   *)
(*      the OpenType shaping documents describe.  Its Hebrew block         *)
(*      (sheva 22, hataf segol 15, hataf patah 16, hataf qamats 17,        *)
(*      hiriq 23, tsere 18, segol 19, patah 20, qamats 21, holam 14,       *)
(*      qubuts 24, dagesh 12, meteg 25, rafe 13, shin dot 10, sin dot 11,  *)
(*      point varika 26), its Telugu entries (84 -> 4, 91 -> 5), its Thai  *)
(*      entries (103 -> 3, 107 -> 107) and its Lao entries (118 -> 118,    *)
(*      122 -> 122) are the ones written down here.                        *)
(*      HarfBuzz additionally permutes Arabic (shadda 33 -> 27, 27..32 ->  *)
(*      28..33) and Tibetan (130 -> 132, 132 -> 131); allsorts does NOT:   *)
(*      it follows UTR #53 for Arabic (canonical order first, shadda and   *)
(*      the modifier marks moved afterwards - Preprocess!MoveShadda /      *)
(*      MoveMCM) and documents no Tibetan change.  [A] is the table the    *)
(*      property is about, so Arabic 27..35, Syriac 36 and Tibetan 129,    *)
(*      130, 132 are identities here.                                      *)
(*  [C] UAX #44 Table 15 / DerivedCombiningClass.txt (Unicode 16.0) for    *)
(*      the set of canonical classes that characters actually have; it is  *)
(*      also the value set of the enum of the crate                        *)
(*      unicode-canonical-combining-class 1.0.0 that allsorts and the      *)
(*      harness read canonical classes from.                               *)
(*                                                                         *)
(* A modified value is DOCUMENTED for the canonical classes of [C] only.   *)
(* For the remaining numbers (2..5, 37..83, 85..90, ..., 200, 204, ...: no *)
(* character has them) the sources disagree and say nothing normative:     *)
(* HarfBuzz keeps them, allsorts' array holds NotReordered.  Mcc is the    *)
(* identity there (Dev_UnassignedClass) and nothing is compared; should a  *)
(* later Unicode version give such a class to a character the check        *)
(* reports it as an observation, not as a violation.                       *)
(*                                                                         *)
(* The lemmas are ASSUMEs: TLC evaluates them whenever a model that        *)
(* extends this module is loaded (MC_ModifiedCcc), before anything else.   *)
(***************************************************************************)
EXTENDS Integers, Sequences, FiniteSets

Classes == 0 .. 255

\* ---- [C] canonical classes in use -----------------------------------------------
\* 0 Not_Reordered, 1 Overlay, 6 Han_Reading, 7 Nukta, 8 Kana_Voicing, 9 Virama, 202 Attached_Below,
\* 214 Attached_Above, 216 Attached_Above_Right, 218 Below_Left, 220 Below, 222 Below_Right, 224 Left,
\* 226 Right, 228 Above_Left, 230 Above, 232 Above_Right, 233 Double_Below, 234 Double_Above,
\* 240 Iota_Subscript
Named   == {0, 1, 6, 7, 8, 9, 202, 214, 216, 218, 220, 222, 224, 226, 228, 230, 232, 233, 234, 240}
\* fixed position classes, by the script whose marks carry them
Hebrew  == 10 .. 26
Arabic  == 27 .. 35
Syriac  == {36}
Telugu  == {84, 91}          \* U+0C55 LENGTH MARK, U+0C56 AI LENGTH MARK
Thai    == {103, 107}        \* U+0E38 SARA U / U+0E39 SARA UU; U+0E48..U+0E4B tone marks
Lao     == {118, 122}        \* U+0EB8 / U+0EB9; U+0EC8..U+0ECB
Tibetan == {129, 130, 132}   \* U+0F71 AA; U+0F72, U+0F7A.. vowel signs; U+0F74 U
Scripts == {Hebrew, Arabic, Syriac, Telugu, Thai, Lao, Tibetan}
FixedPosition == UNION Scripts
Documented    == Named \cup FixedPosition

\* ---- the exceptions ---------------------------------------------------------------
\* Hebrew, as the map of [A]/[B]: entry c - 9 is the modified class of canonical class c
\*             ccc 10  11  12  13  14  15  16  17  18  19  20  21  22  23  24  25  26
HebrewMap == <<    22, 15, 16, 17, 23, 18, 19, 20, 21, 14, 24, 12, 25, 13, 10, 11, 26>>
\* Hebrew, a second time, as the rendering order the SBL Hebrew manual asks for (canonical classes,
\* first to last): shin dot, sin dot, dagesh, rafe, holam, hataf segol, hataf patah, hataf qamats,
\* tsere, segol, patah, qamats, sheva, hiriq, qubuts, meteg, point varika - consonant modifiers in
\* front of the vowels, meteg behind them.  L_HebrewOrder ties the two transcriptions together.
HebrewOrder == <<24, 25, 21, 23, 19, 11, 12, 13, 15, 16, 17, 18, 10, 14, 20, 22, 26>>

Moved == {84, 91, 103}       \* "Remove: CCC84, CCC91, CCC103"
Added == {3, 4, 5}           \* "Add: CCC3, CCC4, CCC5"

Mcc == [c \in Classes |->
          IF c \in Hebrew THEN HebrewMap[c - 9]
          ELSE IF c = 84  THEN 4
          ELSE IF c = 91  THEN 5
          ELSE IF c = 103 THEN 3
          ELSE c]                                  \* identity (Dev_UnassignedClass outside Documented)

Exceptional == {c \in Documented : Mcc[c] # c}     \* 16 Hebrew classes (26 stays) + 84, 91, 103
ScriptOf(c) ==
  CASE c \in Hebrew -> "Hebrew" [] c \in Arabic -> "Arabic" [] c \in Syriac -> "Syriac"
    [] c \in Telugu -> "Telugu" [] c \in Thai -> "Thai"     [] c \in Lao -> "Lao"
    [] c \in Tibetan -> "Tibetan" [] c \in Named -> "generic" [] OTHER -> "unassigned"

---------------------------------------------------------------------------
\* ---- lemmas (checked by TLC) -------------------------------------------------------
\* the mapping is a function on 0..255 with values in 0..255
L_Function == Mcc \in [Classes -> Classes]
\* starters stay starters and non-starters stay non-starters (on all of 0..255)
L_Zero == \A c \in Classes : (Mcc[c] = 0) <=> (c = 0)
\* no two canonical classes that characters have are ever merged - in particular not two classes
\* of one script block - so marks of different canonical classes never become "equal" for the
\* stable sort ...
L_Injective == \A a, b \in Documented : a # b => Mcc[a] # Mcc[b]
L_InjectiveInScript == \A S \in Scripts : \A a, b \in S \cup Named : a # b => Mcc[a] # Mcc[b]
\* ... the only coincidences are with the three unassigned numbers the moved classes borrow
L_Borrowed == \A a \in Documented : \A b \in Classes \ Documented : Mcc[a] = Mcc[b] => (a \in Moved /\ b \in Added)
\* the value set is the one the enum documents: canonical values, minus the removed, plus the added
L_Image == {Mcc[c] : c \in Documented} = (Documented \ Moved) \cup Added
\* everything but Hebrew and the three moved classes is left alone
L_IdentityElsewhere == \A c \in Documented \ (Hebrew \cup Moved) : Mcc[c] = c
\* Hebrew is a permutation of its own block, and it is the SBL order
L_HebrewPermutation == /\ Len(HebrewMap) = 17 /\ Len(HebrewOrder) = 17
                       /\ {Mcc[c] : c \in Hebrew} = Hebrew
                       /\ {HebrewOrder[i] : i \in 1 .. 17} = Hebrew
L_HebrewOrder == \A i \in 1 .. 17 : Mcc[HebrewOrder[i]] = 9 + i
\* inside every script block but Hebrew the relative order of the canonical classes is kept
\* (this is the lemma the swap 84 -> 5, 91 -> 4 breaks)
L_OrderInScript == \A S \in Scripts \ {Hebrew} : \A a, b \in S : a < b => Mcc[a] < Mcc[b]
\* the stated purpose of the moved classes: the Telugu length marks and Thai SARA U / UU sort in
\* front of nukta (7) and halant / phinthu (9), and in front of the tone marks
L_Purpose == /\ Mcc[84] < Mcc[91] /\ Mcc[91] < Mcc[7] /\ Mcc[7] < Mcc[9]
             /\ Mcc[103] < Mcc[9] /\ Mcc[103] < Mcc[107]
\* where the order of two classes IS changed on purpose: both Hebrew, or the larger one was moved
L_Inversions == \A a, b \in Documented :
                   (a < b /\ Mcc[a] > Mcc[b]) => ((a \in Hebrew /\ b \in Hebrew) \/ b \in Moved)
L_Counts == /\ Cardinality(Documented) = 56 /\ Cardinality(Exceptional) = 19
            /\ Documented \cap Added = {} /\ Moved \subseteq Documented

ASSUME L_Function
ASSUME L_Zero
ASSUME L_Injective
ASSUME L_InjectiveInScript
ASSUME L_Borrowed
ASSUME L_Image
ASSUME L_IdentityElsewhere
ASSUME L_HebrewPermutation
ASSUME L_HebrewOrder
ASSUME L_OrderInScript
ASSUME L_Purpose
ASSUME L_Inversions
ASSUME L_Counts
=============================================================================
