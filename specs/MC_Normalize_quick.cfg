CONSTANTS
  FB = 4
  MaxExtra = 2
  SmallVals <- SmallValsQuick
  RealAxes <- RealAxesQuickW
  RealMaps <- RealMapsQuick
  GenLevel = 1
  GenFroms <- GenFromsQuick
  GenTos <- GenTosQuick
  GenAxes <- GenAxesQuick
  RealAxes2 <- RealAxes2Quick
  RealMaps2 <- RealMaps2Quick
  LayAxes <- LayAxesQuick
  LayMaps <- LayMapsQuick
  Layouts <- LayoutsQuick
SPECIFICATION Spec
INVARIANTS DesignOK RealOK LayoutOK EmitCase EmitStat
CHECK_DEADLOCK FALSE
