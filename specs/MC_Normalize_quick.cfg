CONSTANTS
  FB = 4
  MaxExtra = 2
  SmallVals <- SmallValsQuick
  RealAxes <- RealAxesQuickW
  RealMaps <- RealMapsQuick
SPECIFICATION Spec
INVARIANTS DesignOK RealOK EmitCase EmitStat
CHECK_DEADLOCK FALSE
