CONSTANTS
  FB = 4
  MaxExtra = 2
  SmallVals <- SmallValsQuick
  RealAxes <- RealAxesQuick
  RealMaps <- RealMapsQuick
SPECIFICATION Spec
INVARIANTS DesignOK RealOK EmitCase EmitStat
CHECK_DEADLOCK FALSE
