------------------------------ MODULE BitmapData ------------------------------
(***************************************************************************)
(* X09 (extra): decoding of embedded bitmap glyph DATA into Bitmap values. *)
(*                                                                         *)
(* What is specified (sources: OpenType chapters EBLC, EBDT, CBDT, sbix;   *)
(* the rustdoc of allsorts::bitmap::{BitmapGlyph, EmbeddedBitmap,          *)
(* EmbeddedMetrics, BitmapMetrics, OriginOffset}):                         *)
(*                                                                         *)
(*  1. bit level.  A glyph image is h rows of w pixels of d bits.  In a    *)
(*     BIT-ALIGNED record (formats 2, 5, 7) the rows follow each other     *)
(*     without padding: bit i of row r is bit r*w*d + i of the stream.  In *)
(*     a BYTE-ALIGNED record (formats 1, 6) every row starts on a byte:    *)
(*     bit i of row r is bit r*8*ceil(w*d/8) + i.  allsorts hands out      *)
(*     "raw pixel data" = rows padded to bytes.  Two definitions:          *)
(*       RowStep / Run    small-step machine, ONE ROW per step (position   *)
(*                        in the stream, rows produced so far, run / done  *)
(*                        / eof)                                           *)
(*       RowsClosed       closed form, every output byte straight from the *)
(*                        pixel equation above                             *)
(*     MC_BitmapData checks on every machine state that they agree, plus   *)
(*     Pack (the inverse), the size lemmas and the swizzle lemmas.         *)
(*  2. record level.  Header kind (small / big metrics in the record,      *)
(*     metrics of the index sub-table for image formats 5 and 19), the     *)
(*     alignment, the size the image must have (ByteAlignedSize /          *)
(*     BitAlignedSize) and the three length classes: exact, short (no      *)
(*     image can be formed: an error), long (trailing bytes are not part   *)
(*     of the image).  PNG formats 17 / 18 / 19 carry their length;        *)
(*     component formats 8 / 9 carry EbdtComponent records.                *)
(*  3. metrics.  BigGlyphMetrics give both directions; SmallGlyphMetrics   *)
(*     give ONE direction named by the strike's flags.  origin offset y =  *)
(*     bearingY - height (bearing = distance to the TOP edge, allsorts     *)
(*     documents the offset to the BOTTOM edge); line ascender / descender *)
(*     from the strike's SbitLineMetrics of the same direction.            *)
(*  4. sbix glyph data: originOffsetX / Y, graphicType, data; 'dupe'.      *)
(*                                                                         *)
(* Named nondeterminism (every conformant reading accepted):               *)
(*   Dev_TrailingKept      byte-aligned data longer than the image: the    *)
(*                         bitmap's data may keep the trailing bytes (the  *)
(*                         image is a prefix; rows are addressed by        *)
(*                         r * bytes-per-row)                              *)
(*   Dev_PadBitsKept       byte-aligned rows: the pad bits of the font are *)
(*                         passed through or cleared                       *)
(*   Dev_BothDirections    strike flags with BOTH direction bits: small    *)
(*                         metrics may be taken as either direction        *)
(* Followed as allsorts documents / FreeType does:                         *)
(*   Dev_UnflaggedHorizontal   no direction bit: horizontal                *)
(*   Dev_OwnMetricsWin         a record with its own metrics under an      *)
(*                             index sub-table of format 2 / 5 keeps them  *)
(*   Dev_ComponentsNotImplemented   formats 8 / 9: the components are      *)
(*                             exposed by MatchingStrike::bitmap, the      *)
(*                             BitmapGlyph conversion is an error          *)
(*   Dev_VerticalSameFormula   vertical origin offset y = vertBearingY -   *)
(*                             height as well                              *)
(*   Dev_SbixDepthIgnored, Dev_DupeOneLevel                                *)
(* NON-conformant readings of the code (never accepted, only used to NAME  *)
(* a mismatch): CodeRaw.                                                   *)
(***************************************************************************)
EXTENDS Integers, Sequences, FiniteSets, TLC

CeilDiv(a, b) == (a + b - 1) \div b
Min2(a, b) == IF a <= b THEN a ELSE b
I8(x)  == IF x >= 128 THEN x - 256 ELSE x
I16(x) == IF x >= 32768 THEN x - 65536 ELSE x
U16At(b, at) == 256 * b[at] + b[at + 1]
Huge == 2147483647
U32At(b, at) == IF b[at] >= 128 THEN Huge ELSE ((b[at] * 256 + b[at + 1]) * 256 + b[at + 2]) * 256 + b[at + 3]

Depths == {1, 2, 4, 8, 32}

---------------------------------------------------------------------------
\* 1. bits

\* bytes <-> bit sequences, most significant bit first
BitsOf(bytes) == [q \in 1 .. 8 * Len(bytes) |-> (bytes[((q - 1) \div 8) + 1] \div (2 ^ (7 - ((q - 1) % 8)))) % 2]
ByteOfBits(bs) == \* up to 8 bits, left-justified, zero bits on the right
  LET v[k \in 0 .. 8] == IF k = 0 THEN 0 ELSE 2 * v[k - 1] + (IF k <= Len(bs) THEN bs[k] ELSE 0) IN v[8]
BytesOfBits(bits) ==
  [q \in 1 .. CeilDiv(Len(bits), 8) |-> ByteOfBits(SubSeq(bits, 8 * (q - 1) + 1, Min2(8 * q, Len(bits))))]

RowBits(w, d)  == w * d
RowBytes(w, d) == CeilDiv(w * d, 8)
PadBits(w, d)  == 8 * RowBytes(w, d) - w * d
\* the size an image of each alignment MUST have (EBDT: formats 1 / 6 vs 2 / 5 / 7)
ByteAlignedSize(w, h, d) == h * RowBytes(w, d)
BitAlignedSize(w, h, d)  == CeilDiv(w * h * d, 8)
\* distance in bits between the starts of consecutive rows
Stride(align, w, d) == IF align = "bit" THEN w * d ELSE 8 * RowBytes(w, d)
NeedBytes(align, w, h, d) == IF align = "bit" THEN BitAlignedSize(w, h, d) ELSE ByteAlignedSize(w, h, d)

\* closed form: bit i of row r (both 0-based) of an image whose rows are `stride` bits apart
PixBit(bits, stride, r, i) == bits[r * stride + i + 1]
\* rows padded to bytes: byte k of row r collects pixel bits 8k .. 8k+7 of the row, zero beyond w*d
RowsClosed(bits, stride, w, h, d) ==
  LET rb == RowBytes(w, d) IN
  [q \in 1 .. h * rb |->
     LET r == (q - 1) \div rb
         k == (q - 1) % rb
         b(j) == IF 8 * k + j < w * d THEN PixBit(bits, stride, r, 8 * k + j) ELSE 0
     IN 128 * b(0) + 64 * b(1) + 32 * b(2) + 16 * b(3) + 8 * b(4) + 4 * b(5) + 2 * b(6) + b(7)]

\* small-step machine: one row per step
M0 == [row |-> 0, pos |-> 0, out |-> <<>>, st |-> "run"]
RowStep(m, bits, stride, w, h, d) ==
  IF m.st # "run" THEN m
  ELSE IF m.row = h THEN [m EXCEPT !.st = "done"]
  ELSE IF m.pos + w * d > Len(bits) THEN [m EXCEPT !.st = "eof"]
  ELSE [row |-> m.row + 1, pos |-> m.pos + stride,
        out |-> m.out \o BytesOfBits(SubSeq(bits, m.pos + 1, m.pos + w * d)), st |-> "run"]
RECURSIVE Run(_, _, _, _, _, _)
Run(m, bits, stride, w, h, d) == IF m.st # "run" THEN m ELSE Run(RowStep(m, bits, stride, w, h, d), bits, stride, w, h, d)

\* inverse: rows padded to bytes -> the unpadded bit stream (padded to a byte at the very end only)
PackBits(rows, w, h, d) ==
  [q \in 1 .. h * w * d |-> LET r == (q - 1) \div (w * d)
                                i == (q - 1) % (w * d)
                                at == r * 8 * RowBytes(w, d) + i
                            IN (rows[(at \div 8) + 1] \div (2 ^ (7 - (at % 8)))) % 2]
Pack(rows, w, h, d) == BytesOfBits(PackBits(rows, w, h, d))

\* pad bits of byte-aligned rows cleared
ClearPad(rows, w, h, d) == RowsClosed(BitsOf(rows), 8 * RowBytes(w, d), w, h, d)

\* 32-bit pixels are stored B, G, R, A and handed out R, G, B, A
Swizzle(data) == [q \in 1 .. Len(data) |-> CASE (q - 1) % 4 = 0 -> data[q + 2] [] (q - 1) % 4 = 2 -> data[q - 2] [] OTHER -> data[q]]

\* ---- lemmas (ASSUMEd over bounded ranges by MC_BitmapData)
SizeLemma(w, h, d) ==
  /\ BitAlignedSize(w, h, d) <= ByteAlignedSize(w, h, d)
  /\ ByteAlignedSize(w, h, d) - BitAlignedSize(w, h, d) = (h * PadBits(w, d)) \div 8
  /\ (PadBits(w, d) = 0 \/ h <= 1) => BitAlignedSize(w, h, d) = ByteAlignedSize(w, h, d)
  /\ PadBits(w, d) \in 0 .. 7
  /\ (d \in {8, 32}) => PadBits(w, d) = 0

---------------------------------------------------------------------------
\* 2. glyph bitmap data records (EBDT / CBDT)

HdrOf(imf) == CASE imf \in {1, 2, 8, 17} -> "small" [] imf \in {6, 7, 9, 18} -> "big" [] imf \in {5, 19} -> "index" [] OTHER -> "unknown"
AlignOf(imf) == CASE imf \in {1, 6} -> "byte" [] imf \in {2, 5, 7} -> "bit" [] imf \in {8, 9} -> "comp" [] imf \in {17, 18, 19} -> "png" [] OTHER -> "unknown"
HdrLen(k) == CASE k = "small" -> 5 [] k = "big" -> 8 [] OTHER -> 0
HasIndexMetrics(ifmt) == ifmt \in {2, 5}

SmallAt(b, at) == [k |-> "small", h |-> b[at], w |-> b[at + 1], bx |-> I8(b[at + 2]), by |-> I8(b[at + 3]), adv |-> b[at + 4]]
BigAt(b, at) == [k |-> "big", h |-> b[at], w |-> b[at + 1], hbx |-> I8(b[at + 2]), hby |-> I8(b[at + 3]), hadv |-> b[at + 4],
                 vbx |-> I8(b[at + 5]), vby |-> I8(b[at + 6]), vadv |-> b[at + 7]]
BigOfRec(bm) == [k |-> "big", h |-> bm.h, w |-> bm.w, hbx |-> bm.hbx, hby |-> bm.hby, hadv |-> bm.hadv,
                 vbx |-> bm.vbx, vby |-> bm.vby, vadv |-> bm.vadv]
MetSeq(m) == IF m.k = "small" THEN <<m.h, m.w, m.bx, m.by, m.adv>>
             ELSE <<m.h, m.w, m.hbx, m.hby, m.hadv, m.vbx, m.vby, m.vadv>>

\* the metrics that apply and where the data starts: [ok, m, off]
\*   sub = [ifmt, imf, bm] (bm: the BigGlyphMetrics of an index sub-table of format 2 / 5)
Header(sub, rec) ==
  LET k == HdrOf(sub.imf) IN
  CASE k = "small" -> IF Len(rec) < 5 THEN [ok |-> FALSE] ELSE [ok |-> TRUE, m |-> SmallAt(rec, 1), off |-> 5]
    [] k = "big"   -> IF Len(rec) < 8 THEN [ok |-> FALSE] ELSE [ok |-> TRUE, m |-> BigAt(rec, 1), off |-> 8]
    [] k = "index" -> IF ~HasIndexMetrics(sub.ifmt) THEN [ok |-> FALSE] ELSE [ok |-> TRUE, m |-> BigOfRec(sub.bm), off |-> 0]
    [] OTHER -> [ok |-> FALSE]

\* what follows the header: [ok, data (image bytes / PNG bytes), comps]
Body(sub, rec, off) ==
  LET al == AlignOf(sub.imf)
      L  == Len(rec)
  IN CASE al \in {"byte", "bit"} -> [ok |-> TRUE, data |-> SubSeq(rec, off + 1, L), comps |-> <<>>]
       [] al = "png" ->
            IF L < off + 4 THEN [ok |-> FALSE]
            ELSE LET n == U32At(rec, off + 1) IN
                 IF n > L - off - 4 THEN [ok |-> FALSE]
                 ELSE [ok |-> TRUE, data |-> SubSeq(rec, off + 5, off + 4 + n), comps |-> <<>>]
       [] al = "comp" ->
            \* format 8: small metrics, one pad byte, uint16 numComponents; format 9: big metrics, numComponents
            LET at == IF sub.imf = 8 THEN off + 2 ELSE off + 1 IN
            IF L < at + 1 THEN [ok |-> FALSE]
            ELSE LET n == U16At(rec, at) IN
                 IF L < at + 1 + 4 * n THEN [ok |-> FALSE]
                 ELSE [ok |-> TRUE, data |-> <<>>,
                       comps |-> [j \in 1 .. n |-> <<U16At(rec, at + 2 + 4 * (j - 1)), I8(rec[at + 4 + 4 * (j - 1)]), I8(rec[at + 5 + 4 * (j - 1)])>>]]
       [] OTHER -> [ok |-> FALSE]

\* MatchingStrike::bitmap as observable: image format, raw metrics, data bytes, components
Low(r, imf, met, data, comps) == [r |-> r, imf |-> imf, met |-> met, data |-> data, comps |-> comps]
LowErr == Low("err", 0, <<>>, <<>>, <<>>)
LowOf(sub, rec) ==
  LET hd == Header(sub, rec) IN
  IF ~hd.ok THEN LowErr
  ELSE LET bd == Body(sub, rec, hd.off) IN
       IF ~bd.ok THEN LowErr ELSE Low("img", sub.imf, MetSeq(hd.m), bd.data, bd.comps)

---------------------------------------------------------------------------
\* 3. metrics and results

\* <<origin offset x, origin offset y (to the BOTTOM edge), advance, line ascender, line descender>>
DirRec(bx, by, h, adv, asc, desc) == <<bx, by - h, adv, asc, desc>>
Bit0(fl) == fl % 2 = 1
Bit1(fl) == (fl \div 2) % 2 = 1
SmallDirs(fl) == IF Bit0(fl) /\ Bit1(fl) THEN {"h", "v"}          \* Dev_BothDirections
                 ELSE IF Bit1(fl) THEN {"v"} ELSE {"h"}             \* Dev_UnflaggedHorizontal
\* set of <<horizontal, vertical>> metrics (<<>> = absent); s = strike [px, py, bd, fl, ha, hd, va, vd]
MetricsOf(s, m) ==
  IF m.k = "small"
  THEN {IF dir = "h" THEN <<DirRec(m.bx, m.by, m.h, m.adv, s.ha, s.hd), <<>> >>
                     ELSE << <<>>, DirRec(m.bx, m.by, m.h, m.adv, s.va, s.vd)>> : dir \in SmallDirs(s.fl)}
  ELSE {<<DirRec(m.hbx, m.hby, m.h, m.hadv, s.ha, s.hd), DirRec(m.vbx, m.vby, m.h, m.vadv, s.va, s.vd)>>}

Res(r, px, py, kind, bd, w, h, data, mh, mv, org, tag) ==
  [r |-> r, px |-> px, py |-> py, kind |-> kind, bd |-> bd, w |-> w, h |-> h,
   data |-> data, mh |-> mh, mv |-> mv, org |-> org, tag |-> tag]
ResNone == Res("none", -1, -1, "", 0, 0, 0, <<>>, <<>>, <<>>, <<>>, <<>>)
ResErr  == Res("err",  -1, -1, "", 0, 0, 0, <<>>, <<>>, <<>>, <<>>, <<>>)

\* the pixel rows (sets of acceptable byte sequences) of a raw record, {} = no image can be formed
RawRows(al, bd, w, h, data) ==
  LET need == NeedBytes(al, w, h, bd) IN
  IF Len(data) < need THEN {}
  ELSE LET img   == SubSeq(data, 1, need)
           trail == SubSeq(data, need + 1, Len(data))
           fin(x) == IF bd = 32 THEN Swizzle(x) ELSE x
       IN IF al = "bit"
          THEN {fin(RowsClosed(BitsOf(img), w * bd, w, h, bd))}
          ELSE LET rows == {img, ClearPad(img, w, h, bd)}               \* Dev_PadBitsKept
               IN {fin(x) : x \in rows} \cup
                  (IF trail # <<>> /\ (bd # 32 \/ Len(data) % 4 = 0)    \* Dev_TrailingKept
                   THEN {fin(x \o trail) : x \in rows} ELSE {})

\* all conformant answers of the BitmapGlyph conversion for one located record of strike s
GlyphAccept(s, sub, rec) ==
  LET hd == Header(sub, rec) IN
  IF ~hd.ok THEN {ResErr}
  ELSE LET bd == Body(sub, rec, hd.off)
           al == AlignOf(sub.imf)
           m  == hd.m
       IN IF ~bd.ok THEN {ResErr}
          ELSE IF al = "comp" THEN {ResErr}                             \* Dev_ComponentsNotImplemented
          ELSE IF al = "png"
               THEN {Res("img", s.px, s.py, "png", 0, 0, 0, bd.data, mm[1], mm[2], <<>>, <<>>) : mm \in MetricsOf(s, m)}
          ELSE LET R == RawRows(al, s.bd, m.w, m.h, bd.data) IN
               IF R = {} THEN {ResErr}
               ELSE {Res("img", s.px, s.py, "raw", s.bd, m.w, m.h, x, mm[1], mm[2], <<>>, <<>>) : x \in R, mm \in MetricsOf(s, m)}

\* Font::lookup_glyph_image on a font with ONE strike holding the glyph: the caller's maximum bit
\* depth filters the strike (BitDepth filtering), then the record is converted
LookupAccept(s, sub, rec, maxbd) == IF s.bd > maxbd THEN {ResNone} ELSE GlyphAccept(s, sub, rec)

\* NON-conformant: the readings of the code as of this writing, to name a mismatch.
\* byte-aligned records hand out ALL bytes after the header whatever the image needs, and a 32-bit
\* record whose byte count is no multiple of 4 is an error even when the image is complete
CodeRaw(s, sub, rec) ==
  LET hd == Header(sub, rec) IN
  IF ~hd.ok \/ AlignOf(sub.imf) # "byte" THEN <<>>
  ELSE LET data == SubSeq(rec, hd.off + 1, Len(rec))
           need == ByteAlignedSize(hd.m.w, hd.m.h, s.bd)
           mm   == CHOOSE x \in MetricsOf(s, hd.m) : (x[1] # <<>> \/ SmallDirs(s.fl) = {"v"})
       IN IF Len(data) < need
          THEN IF s.bd = 32 /\ Len(data) % 4 # 0 THEN <<>>
               ELSE << [name |-> "short-byte-aligned-image-accepted",
                        res |-> Res("img", s.px, s.py, "raw", s.bd, hd.m.w, hd.m.h, IF s.bd = 32 THEN Swizzle(data) ELSE data,
                                    mm[1], mm[2], <<>>, <<>>)] >>
          ELSE IF s.bd = 32 /\ Len(data) % 4 # 0
               THEN << [name |-> "long-byte-aligned-bd32-image-rejected", res |-> ResErr] >>
               ELSE <<>>

---------------------------------------------------------------------------
\* 4. sbix glyph data

TagDupe == <<100, 117, 112, 101>>
TagPng  == <<112, 110, 103, 32>>
TagJpg  == <<106, 112, 103, 32>>
TagTiff == <<116, 105, 102, 102>>
TagMask == <<109, 97, 115, 107>>
TagFlip == <<102, 108, 105, 112>>
KindOfTag(tg) == CASE tg = TagPng -> "png" [] tg = TagJpg -> "jpg" [] tg = TagTiff -> "tiff" [] OTHER -> "other"

\* one glyph record: int16 originOffsetX, int16 originOffsetY, Tag graphicType, data
SbixParse(rec) == [ox |-> I16(U16At(rec, 1)), oy |-> I16(U16At(rec, 3)), tag |-> SubSeq(rec, 5, 8), data |-> SubSeq(rec, 9, Len(rec))]
SLow(r, ppem, ppi, ox, oy, tag, data) == [r |-> r, ppem |-> ppem, ppi |-> ppi, ox |-> ox, oy |-> oy, tag |-> tag, data |-> data]
\* SbixStrike::read_glyph of a strike [ppem, ppi, recs] (recs[g + 1] = the record of glyph g, <<>> = no data)
SbixLowOf(st, g) ==
  IF g >= Len(st.recs) THEN SLow("none", 0, 0, 0, 0, <<>>, <<>>)
  ELSE LET rec == st.recs[g + 1] IN
       IF rec = <<>> THEN SLow("none", 0, 0, 0, 0, <<>>, <<>>)
       ELSE IF Len(rec) < 8 THEN SLow("err", 0, 0, 0, 0, <<>>, <<>>)
       ELSE LET p == SbixParse(rec) IN SLow("img", st.ppem, st.ppi, p.ox, p.oy, p.tag, p.data)

SbixImg(st, p) ==
  LET kind == KindOfTag(p.tag) IN
  Res("img", st.ppem, st.ppem, kind, 0, 0, 0, p.data, <<>>, <<>>, <<p.ox, p.oy>>, IF kind = "other" THEN p.tag ELSE <<>>)

\* Font::lookup_glyph_image on a font whose sbix table has the ONE strike st
SbixAccept(st, g) ==
  LET lo == SbixLowOf(st, g) IN
  IF lo.r = "none" THEN {ResNone}
  ELSE IF lo.r = "err" THEN {ResErr}
  ELSE IF lo.tag # TagDupe THEN {SbixImg(st, SbixParse(st.recs[g + 1]))}
  ELSE IF Len(lo.data) < 2 THEN {ResErr}
  ELSE LET t  == U16At(lo.data, 1)
           l2 == SbixLowOf(st, t)
       IN IF l2.r = "none" THEN {ResNone}
          ELSE IF l2.r = "err" THEN {ResErr}
          ELSE IF l2.tag = TagDupe THEN {ResNone}                       \* Dev_DupeOneLevel
          ELSE {SbixImg(st, SbixParse(st.recs[t + 1]))}
=============================================================================
