--------------------------- MODULE BinaryReader ---------------------------
(***************************************************************************)
(* Specification of allsorts' binary reader (src/binary/read.rs): scopes,  *)
(* contexts (cursors) and arrays over one root buffer.  Property C14.      *)
(*                                                                         *)
(* The reader is sequential and deterministic, so its semantics is given   *)
(* as one pure operator  Apply(st, o)  that maps a state and an operation  *)
(* to the next state and the observation the operation must produce.  The  *)
(* model checker explores  st' = Apply(st, o).st  for every operation the  *)
(* state offers (MC_BinaryReader), the trace judge replays recorded        *)
(* operations through the very same operator (Trace_BinaryReader).         *)
(*                                                                         *)
(* One action per public method, at the grain of the code:                 *)
(*   ReadScope : offset, offset_length, ctxt, read::<T>, read_cache::<T>,  *)
(*               read_dep::<D>, == (PartialEq), ReadScopeOwned round trip, *)
(*               ReadArray::empty()                                        *)
(*   ReadCtxt  : read_u8..read_i64be, read::<T>, read_slice, read_scope,   *)
(*               read_dep, read_array, read_array_stride,                  *)
(*               read_array_upto_hack, read_array_dep, read_until_nibble,  *)
(*               scope, clone, bytes_available, check / check_index /      *)
(*               check_version, <T as ReadBinary>::read,                   *)
(*               read_array_dep::<T>(n, ()) for ReadUnchecked T            *)
(*   ReadArray : len/is_empty, get_item, read_item, last, iter/to_vec/     *)
(*               IntoIterator (+ size_hint), iter_res/read_to_vec,         *)
(*               binary_search_by, check_index; ReadArrayCow Borrowed and  *)
(*               Owned: len, get_item, read_item, iter, check_index        *)
(*                                                                         *)
(* Numbers.  Values are *byte sequences* (the big-endian image of what was *)
(* read), so no 32-bit limit of TLC is met; for widths <= 3 the numeric    *)
(* value with sign extension is specified as well.  A usize argument above *)
(* LIMIT is represented by HUGE: "larger than any buffer".                 *)
(***************************************************************************)
EXTENDS Integers, Sequences, FiniteSets, SequencesExt, FiniteSetsExt, TLC

CONSTANT HUGE            \* a number larger than any buffer length / index used

---------------------------------------------------------------------------
\* Element types.  A ReadUnchecked type is a primitive or is built from primitives by the
\* tuple impls (arity 2, 3, 4, nestable) and the ReadFrom blanket impl (a newtype has the
\* encoding of its ReadType).  It is characterised by the *sequence of its primitive fields*:
\*   SIZE  = the sum of the field sizes            (impl ReadUnchecked for (T1, .., Tn))
\*   value = the fields decoded one after the other (read_unchecked reads T1, then T2, ...)
\* The harness binds each name to a concrete Rust type.
PrimSize(p) ==
  CASE p = "u8"  -> 1   [] p = "i8"  -> 1
    [] p = "u16" -> 2   [] p = "i16" -> 2
    [] p = "u24" -> 3
    [] p = "u32" -> 4   [] p = "i32" -> 4
    [] p = "u64" -> 8   [] p = "i64" -> 8

PrimTypes == {"u8","i8","u16","i16","u24","u32","i32","u64","i64"}

Composite ==
  [ u8u16   |-> <<"u8","u16">>,                  \* (U8, U16Be)
    u16x3   |-> <<"u16","u16","u16">>,           \* (U16Be, U16Be, U16Be)
    u8x4    |-> <<"u8","u8","u8","u8">>,         \* (U8, U8, U8, U8)
    nt16    |-> <<"u16">>,                       \* ReadFrom newtype over U16Be
    nt32p   |-> <<"u16","u16">>,                 \* ReadFrom newtype over (U16Be, U16Be)
    \* tuples whose fields ALL differ in size; over the rotations every position of every
    \* arity holds every size of {1, 2, 4, 8} once
    p24     |-> <<"u16","u32">>,                 \* (U16Be, U32Be)
    p48     |-> <<"u32","u64">>,                 \* (U32Be, U64Be)
    p81     |-> <<"u64","u8">>,                  \* (U64Be, U8)
    t124    |-> <<"u8","u16","u32">>,            \* (U8, U16Be, U32Be)
    t248    |-> <<"u16","u32","u64">>,
    t481    |-> <<"u32","u64","u8">>,
    t812    |-> <<"u64","u8","u16">>,
    q1248   |-> <<"u8","u16","u32","u64">>,      \* (U8, U16Be, U32Be, U64Be)
    q2481   |-> <<"u16","u32","u64","u8">>,
    q4812   |-> <<"u32","u64","u8","u16">>,
    q8124   |-> <<"u64","u8","u16","u32">>,
    ts132   |-> <<"i8","u24","i16">>,            \* (I8, U24Be, I16Be)
    n21x84  |-> <<"u16","u8","u64","u32">>,      \* ((U16Be, U8), (U64Be, U32Be))   nested
    ntq4182 |-> <<"u32","u8","u64","u16">>,      \* newtype over (U32Be, U8, U64Be, U16Be)
    ntt412  |-> <<"u32","u8","u16">> ]           \* newtype over (U32Be, U8, U16Be)

CompositeTypes == DOMAIN Composite
AllTypes == PrimTypes \cup CompositeTypes
\* composite types whose fields all differ in size
AllDiffTypes == {"u8u16","p24","p48","p81","t124","t248","t481","t812","q1248","q2481","q4812","q8124",
                 "ts132","n21x84","ntq4182","ntt412"}

FieldsOf(ty) == IF ty \in CompositeTypes THEN Composite[ty] ELSE <<ty>>

SumSizes(F) == FoldLeft(LAMBDA acc, p : acc + PrimSize(p), 0, F)
SizeTab == TLCEval([ty \in AllTypes |-> SumSizes(FieldsOf(ty))])
SizeOf(ty) == SizeTab[ty]

\* offset of field j inside the encoding = the sizes of the fields before it
FieldOff(F, j) == SumSizes(SubSeq(F, 1, j - 1))

Signed(ty) == ty \in {"i8", "i16", "i32", "i64"}
Numeric(ty) == ty \in {"u8", "i8", "u16", "i16", "u24"}

---------------------------------------------------------------------------
\* HUGE-aware arithmetic (HUGE absorbs; HUGE * 0 = 0 as in the integers).
IsHuge(x) == x >= HUGE
Mul(a, b) == IF a = 0 \/ b = 0 THEN 0
             ELSE IF IsHuge(a) \/ IsHuge(b) THEN HUGE
             ELSE IF a * b >= HUGE THEN HUGE ELSE a * b
Add(a, b) == IF IsHuge(a) \/ IsHuge(b) THEN HUGE
             ELSE IF a + b >= HUGE THEN HUGE ELSE a + b
Min2(a, b) == IF a <= b THEN a ELSE b

\* What the harness can tell about a position: exact up to ObsLimit, "huge" beyond (the harness
\* logs every usize above ObsLimit as HUGE, so the two sides agree whatever the concrete value).
ObsLimit == 30000
BaseObs(b) == IF b > ObsLimit THEN HUGE ELSE b

---------------------------------------------------------------------------
\* Objects.  One record shape for all three kinds keeps TLC's fingerprints simple.
\*   scope : window [lo, lo+len) of the root (0-based lo), and its *base*
\*   ctxt  : window + cursor off (0 <= off <= len), base of its scope
\*   array : window of n*stride bytes, n elements of `size` bytes every `stride` bytes
\* An empty window has no position: lo is canonically 0 when len = 0.
\* base is ReadScope.base: the position the scope claims to have, base(new(..)) = 0,
\* base(s.offset(k)) = base(s) + k (saturating).  It is what ReadCache keys on and part of
\* PartialEq.  For a window derived from the root by offset / offset_length / read_scope /
\* ctxt().scope() it equals lo (design invariant PositionKept); a scope the *caller* makes with
\* ReadScope::new from a slice (read_slice, read_until_nibble, read_dep) restarts at 0; an empty
\* window keeps a base although it has no lo.
\* For an array the base of its scope shows only to a ReadBinaryDep element type (which is handed a
\* context); arrays of ReadUnchecked elements carry base 0.
Obj(kind, lo, len, off, n, stride, size, base) ==
  [kind |-> kind, lo |-> IF len = 0 THEN 0 ELSE lo, len |-> len, off |-> off,
   n |-> n, stride |-> stride, size |-> size, base |-> base]
Scope(lo, len, base)             == Obj("scope", lo, len, 0, 0, 0, 0, base)
Ctxt(lo, len, off, base)         == Obj("ctxt", lo, len, off, 0, 0, 0, base)
Array(lo, n, stride, size, base) == Obj("array", lo, Mul(n, stride), 0, n, stride, size, base)

\* cache: what one ReadCache per element type holds - entries [ty, base, v, num]
InitState(root) == [root |-> root, objs |-> <<Scope(0, Len(root), 0)>>, cache |-> {}]

\* Bytes [lo+a, lo+a+k) of the root as a sequence, and their 0-based indices.
Bytes(st, lo, k)   == SubSeq(st.root, lo + 1, lo + k)
Idx(lo, k)         == IF k = 0 THEN {} ELSE lo .. (lo + k - 1)
SortedSeq(S)       == SetToSortSeq(S, LAMBDA a, b : a < b)

\* Numeric value of <= 3 big-endian bytes, sign-extended when asked.
RECURSIVE BEu(_)
BEu(bs) == IF bs = <<>> THEN 0 ELSE BEu(Front(bs)) * 256 + Last(bs)
Pow256(k) == CASE k = 1 -> 256 [] k = 2 -> 65536 [] k = 3 -> 16777216
BE(bs, signed) == LET u == BEu(bs) IN
                  IF signed /\ bs[1] >= 128 THEN u - Pow256(Len(bs)) ELSE u

---------------------------------------------------------------------------
\* Observations.  Every operation yields the same record shape:
\*   ok      : the call returned Ok / Some / a plain value
\*   err     : "" | "Eof" | "BadOffset" | "BadIndex" | "BadValue" | "None"
\*   v       : bytes of the value(s) returned (concatenated for iteration), big-endian
\*   num     : numeric value for widths <= 3 (0 otherwise)
\*   cnt     : a count result (len, number of items iterated, search index, 0/1 for booleans)
\*   new     : <<lo, len, base, eq>> of the scope/context created, <<-1, -1, n, -1>> for an array, or <<>>
\*             (eq = 1: the scope compares equal to an independently built scope of that base and bytes)
\*   rem     : bytes left after the cursor of the target context after the call (-1: n/a)
\*   touched : sorted root indices read through the unchecked primitives
\*   aux     : further integers an operation exposes (is_empty, size_hint, item bases ...), else <<>>
Obs(ok, err, v, num, cnt, new, rem, touched) ==
  [ok |-> ok, err |-> err, v |-> v, num |-> num, cnt |-> cnt, new |-> new, rem |-> rem,
   touched |-> SortedSeq(touched), aux |-> <<>>]
WithAux(obs, aux) == [obs EXCEPT !.aux = aux]
\* the window of a new scope/context is observable (data() pointer and length) and so is its base
\* (Debug output, PartialEq, ReadCache); of a new array only the element count is (its window shows
\* in what its elements touch)
NewOf(o) == IF o.kind = "array" THEN <<-1, -1, o.n, -1>> ELSE <<o.lo, o.len, BaseObs(o.base), 1>>

Rem(c) == c.len - c.off

\* Result of an operation that leaves every existing object unchanged.
Keep(st, obs) == [st |-> st, obs |-> obs]
\* ... that appends a new object.
Push(st, o, obs) == [st |-> [st EXCEPT !.objs = Append(@, o)], obs |-> obs]
\* ... that replaces the target (a context whose cursor moved) and maybe appends.
Move(st, t, c, obs) == [st |-> [st EXCEPT !.objs[t] = c], obs |-> obs]
MovePush(st, t, c, o, obs) ==
  [st |-> [st EXCEPT !.objs = Append([@ EXCEPT ![t] = c], o)], obs |-> obs]

Fail(st, t, err) ==      \* no effect: state unchanged, nothing touched
  LET x == st.objs[t] IN
  Keep(st, Obs(FALSE, err, <<>>, 0, 0, <<>>, IF x.kind = "ctxt" THEN Rem(x) ELSE -1, {}))

---------------------------------------------------------------------------
\* ReadScope

\* offset(k): the suffix window, empty when k is beyond the end.  Infallible.  base += k.
DoOffset(st, t, k) ==
  LET s == st.objs[t]
      b == Add(s.base, k)
      o == IF ~IsHuge(k) /\ k <= s.len THEN Scope(s.lo + k, s.len - k, b) ELSE Scope(0, 0, b)
  IN Push(st, o, Obs(TRUE, "", <<>>, 0, 0, NewOf(o), -1, {}))

\* The rule of offset_length, shared with read_scope:
\*   offset inside the window, or a zero length  -> window must hold `n` bytes from k
OffLenResult(len, k, n) ==
  IF (~IsHuge(k) /\ k < len) \/ n = 0
  THEN LET avail == IF ~IsHuge(k) /\ k <= len THEN len - k ELSE 0 IN
       IF ~IsHuge(n) /\ n <= avail THEN "Ok" ELSE "Eof"
  ELSE "BadOffset"

\* the window offset_length(k, n) yields on a window (lo, len, base) when OffLenResult is Ok
SubScope(lo, len, base, k, n) ==
  IF ~IsHuge(k) /\ k <= len THEN Scope(lo + k, n, Add(base, k)) ELSE Scope(0, 0, Add(base, k))

DoOffsetLength(st, t, k, n) ==
  LET s == st.objs[t]  r == OffLenResult(s.len, k, n) IN
  IF r = "Ok"
  THEN LET o == SubScope(s.lo, s.len, s.base, k, n) IN
       Push(st, o, Obs(TRUE, "", <<>>, 0, 0, NewOf(o), -1, {}))
  ELSE Fail(st, t, r)

DoCtxt(st, t) ==
  LET s == st.objs[t]  o == Ctxt(s.lo, s.len, 0, s.base) IN
  Push(st, o, Obs(TRUE, "", <<>>, 0, 0, NewOf(o), -1, {}))

\* Decoding of one element of type ty at absolute position p (must be inside the window):
\* field by field, each field at the offset given by the sizes of the fields before it.
DecodeAt(st, ty, p) ==
  LET F == FieldsOf(ty) IN
  FlattenSeq([j \in 1 .. Len(F) |-> Bytes(st, p + FieldOff(F, j), PrimSize(F[j]))])

ValObs(st, ty, p, new, rem) ==
  LET k == SizeOf(ty)  bs == DecodeAt(st, ty, p) IN
  Obs(TRUE, "", bs, IF Numeric(ty) THEN BE(bs, Signed(ty)) ELSE 0, 0, new, rem, Idx(p, k))

\* scope.read::<T>() : a fresh context, one read, context dropped.
DoScopeRead(st, t, ty) ==
  LET s == st.objs[t] IN
  IF SizeOf(ty) <= s.len THEN Keep(st, ValObs(st, ty, s.lo, <<>>, -1)) ELSE Fail(st, t, "Eof")

\* scope.read_cache::<T>(cache): the value stored under the scope's base if there is one
\* (nothing is read then), else read::<T>() whose success is stored under the base.
CacheHits(st, ty, b) == {e \in st.cache : e.ty = ty /\ e.base = b}
DoReadCache(st, t, ty) ==
  LET s == st.objs[t]  hits == CacheHits(st, ty, s.base) IN
  IF hits # {}
  THEN LET e == CHOOSE e \in hits : TRUE IN
       Keep(st, Obs(TRUE, "", e.v, e.num, 0, <<>>, -1, {}))
  ELSE IF SizeOf(ty) <= s.len
  THEN LET obs == ValObs(st, ty, s.lo, <<>>, -1) IN
       [st |-> [st EXCEPT !.cache = @ \cup {[ty |-> ty, base |-> s.base, v |-> obs.v, num |-> obs.num]}],
        obs |-> obs]
  ELSE Fail(st, t, "Eof")

\* scope == other (derived PartialEq): same base and the same bytes (contents, not addresses).
\* Dev_HugeBaseEq: two bases beyond HUGE are both just "huge" to the model (the arguments that led
\* there were logged as HUGE); whether they are the same number is not known, so for two different
\* objects with huge bases and equal bytes either answer conforms.
ScopeEqKnown(st, t, u) == t = u \/ ~(IsHuge(st.objs[t].base) /\ IsHuge(st.objs[u].base))
DoScopeEq(st, t, u) ==
  LET s == st.objs[t]  x == st.objs[u]
      eq == s.base = x.base /\ Bytes(st, s.lo, s.len) = Bytes(st, x.lo, x.len) IN
  Keep(st, Obs(TRUE, "", <<>>, 0, IF eq THEN 1 ELSE 0, <<>>, -1, {}))
ScopeEqConforms(st, t, u, o) ==
  LET want == DoScopeEq(st, t, u).obs IN
  IF ScopeEqKnown(st, t, u) \/ want.cnt = 0 THEN o = want
  ELSE o.cnt \in {0, 1} /\ o = [want EXCEPT !.cnt = o.cnt]

\* ReadScopeOwned::new(scope).scope(): a copy with the same base and bytes (cnt: it compares equal).
DoScopeOwned(st, t) ==
  LET s == st.objs[t] IN
  Keep(st, Obs(TRUE, "", <<>>, 0, 1, <<-1, s.len, BaseObs(s.base), 1>>, -1, {}))

\* scope.read_dep::<Dep>(n): a fresh context, the harness's dependent type reads n bytes from it as a
\* slice and reports what it was handed: aux = <<base of the context's scope, bytes the context offers>>.
DoScopeReadDep(st, t, n) ==
  LET s == st.objs[t] IN
  IF ~IsHuge(n) /\ n <= s.len
  THEN Keep(st, WithAux(Obs(TRUE, "", Bytes(st, s.lo, n), 0, 0, <<>>, -1, {}), <<BaseObs(s.base), s.len>>))
  ELSE Fail(st, t, "Eof")

\* ReadArray::<T>::empty(): an array of no elements over no bytes (an associated function: the target
\* object is not used).  Every array operation applies to it.
DoEmptyArray(st, t, ty) ==
  LET a == Array(0, 0, SizeOf(ty), SizeOf(ty), 0) IN
  Push(st, a, Obs(TRUE, "", <<>>, 0, 0, NewOf(a), -1, {}))

---------------------------------------------------------------------------
\* ReadCtxt

\* read_u8 ... read_i64be and read::<T>(): value at the cursor, cursor += SIZE; or Eof, no effect.
DoRead(st, t, ty) ==
  LET c == st.objs[t]  k == SizeOf(ty) IN
  IF c.off + k <= c.len
  THEN LET c2 == [c EXCEPT !.off = c.off + k] IN
       Move(st, t, c2, ValObs(st, ty, c.lo + c.off, <<>>, Rem(c2)))
  ELSE Fail(st, t, "Eof")

\* read_scope(n) / read_slice(n): the next n bytes as a window.  Every failure is Eof.
\* (At the very end of the window offset_length answers BadOffset for n > 0; read_scope
\* reports that as Eof too.)  read_scope's window has base + cursor; a slice has no base: the
\* harness wraps it with ReadScope::new, base 0.
DoReadScope(st, t, n, slice) ==
  LET c == st.objs[t] IN
  IF OffLenResult(c.len, c.off, n) = "Ok"
  THEN LET o  == Scope(c.lo + c.off, n, IF slice THEN 0 ELSE Add(c.base, c.off))
           c2 == [c EXCEPT !.off = c.off + n] IN
       MovePush(st, t, c2, o,
                Obs(TRUE, "", IF slice THEN Bytes(st, c.lo + c.off, n) ELSE <<>>, 0, 0,
                    NewOf(o), Rem(c2), {}))
  ELSE Fail(st, t, "Eof")

\* ctxt.read_dep::<Dep>(n): n bytes as a slice (= read_slice) read by the harness's dependent type, which
\* also reports what it was handed: aux = <<base of ctxt.scope(), bytes left before the read>>.
DoReadDep(st, t, n) ==
  LET c == st.objs[t]  r == DoReadScope(st, t, n, TRUE) IN
  IF r.obs.ok THEN [r EXCEPT !.obs = WithAux(@, <<BaseObs(Add(c.base, c.off)), Rem(c)>>)] ELSE r

\* ctxt.check(cond) / check_index(cond) / check_version(cond): the named error when the condition is
\* false; the context is not used.
DoCheck(st, t, cond, which) ==
  IF cond = 1 THEN Keep(st, Obs(TRUE, "", <<>>, 0, 0, <<>>, Rem(st.objs[t]), {}))
  ELSE Fail(st, t, CASE which = 0 -> "BadValue" [] which = 1 -> "BadIndex" [] OTHER -> "BadVersion")

\* read_array::<T>(n), read_array_stride::<T>(n, stride), read_array_dep::<D>(n, size):
\* n*stride bytes are consumed; an argument that makes n*stride exceed what is left
\* (in particular any HUGE product) is Eof with no effect.
DoReadArrayGen(st, t, n, stride, size, dep) ==
  LET c == st.objs[t]  bytes == Mul(n, stride) IN
  IF OffLenResult(c.len, c.off, bytes) = "Ok"
  THEN LET a  == Array(c.lo + c.off, n, stride, size, IF dep THEN Add(c.base, c.off) ELSE 0)
           c2 == [c EXCEPT !.off = c.off + bytes] IN
       MovePush(st, t, c2, a, Obs(TRUE, "", <<>>, 0, n, NewOf(a), Rem(c2), {}))
  ELSE Fail(st, t, "Eof")

DoReadArray(st, t, ty, n) == DoReadArrayGen(st, t, n, SizeOf(ty), SizeOf(ty), FALSE)

DoReadArrayStride(st, t, ty, n, stride) ==
  IF SizeOf(ty) > stride THEN Fail(st, t, "BadValue")
  ELSE DoReadArrayGen(st, t, n, stride, SizeOf(ty), FALSE)

\* read_array_upto_hack::<T>(n): as many of the n elements as fit.
DoReadArrayUpto(st, t, ty, n) ==
  LET c == st.objs[t]  fit == (c.len - c.off) \div SizeOf(ty) IN
  DoReadArray(st, t, ty, IF IsHuge(n) THEN fit ELSE Min2(n, fit))

\* read_until_nibble(x): bytes up to and including the first byte having x as a nibble.
HasNibble(b, x) == (b \div 16) = x \/ (b % 16) = x
DoReadUntilNibble(st, t, x) ==
  LET c    == st.objs[t]
      cand == {k \in 1 .. (c.len - c.off) : HasNibble(st.root[c.lo + c.off + k], x)} IN
  IF cand = {} THEN Fail(st, t, "Eof") ELSE DoReadScope(st, t, Min(cand), TRUE)

\* ctxt.scope(): the window from the cursor to the end, = scope.offset(cursor).
DoCtxtScope(st, t) ==
  LET c == st.objs[t]  o == Scope(c.lo + c.off, c.len - c.off, Add(c.base, c.off)) IN
  Push(st, o, Obs(TRUE, "", <<>>, 0, 0, NewOf(o), Rem(c), {}))

\* ctxt.clone(): an independent context over the same window with the same cursor (what the clone
\* offers is observed through its scope(): the window from the cursor on).
DoCtxtClone(st, t) ==
  LET c == st.objs[t]  rest == Scope(c.lo + c.off, c.len - c.off, Add(c.base, c.off)) IN
  Push(st, c, Obs(TRUE, "", <<>>, 0, 0, NewOf(rest), Rem(c), {}))

DoBytesAvailable(st, t) ==
  LET c == st.objs[t] IN
  Keep(st, Obs(TRUE, "", <<>>, 0, IF c.off < c.len THEN 1 ELSE 0, <<>>, Rem(c), {}))

---------------------------------------------------------------------------
\* ReadArray.  Element i (0-based) occupies `size` bytes at lo + i*stride.
ItemPos(a, i)   == a.lo + i * a.stride
ItemBytes(st, a, i) == Bytes(st, ItemPos(a, i), a.size)
ItemIdx(a, i)   == Idx(ItemPos(a, i), a.size)
\* base of the context a ReadBinaryDep element i is read from (offset_length(i * stride, size))
ItemBase(a, i)  == BaseObs(Add(a.base, i * a.stride))
B01(b) == IF b THEN 1 ELSE 0
IsDepTy(ty) == ty \in {"dep", "depv"}

\* len / is_empty, also through ReadArrayCow::Borrowed (aux = <<is_empty, cow len, cow is_empty>>)
DoLen(st, t, ty) ==
  LET a == st.objs[t] IN
  Keep(st, WithAux(Obs(TRUE, "", <<>>, 0, a.n, <<>>, -1, {}),
                   IF IsDepTy(ty) THEN <<B01(a.n = 0)>> ELSE <<B01(a.n = 0), a.n, B01(a.n = 0)>>))

\* get_item / read_item / ReadArrayCow::{get_item, read_item}
\* Element types "dep" / "depv" are the harness's ReadFixedSizeDep types: `size` bytes returned as a
\* slice (read with read_slice, so nothing goes through the unchecked primitives) together with what
\* the element was handed (aux = <<base of its context, bytes its context offers>>: an element sees
\* exactly its own `size` bytes).  "depv" validates: an element whose first byte is odd is refused
\* with BadValue (an element's own parse error, which read_item / iter_res / read_to_vec pass on).
\* own: ReadArrayCow::Owned(array.to_vec()) - the vector is made before the operation, the
\* operation itself reads nothing.
ItemFails(st, a, i, ty) == ty = "depv" /\ a.size > 0 /\ ItemBytes(st, a, i)[1] % 2 = 1
DoItemGen(st, t, ty, i, errName, own) ==
  LET a == st.objs[t] IN
  IF ~IsHuge(i) /\ i < a.n
  THEN IF IsDepTy(ty)
       THEN IF ItemFails(st, a, i, ty) THEN Fail(st, t, "BadValue")
            ELSE Keep(st, WithAux(Obs(TRUE, "", ItemBytes(st, a, i), 0, 0, <<>>, -1, {}),
                                  <<ItemBase(a, i), a.size>>))
       ELSE LET o == ValObs(st, ty, ItemPos(a, i), <<>>, -1) IN
            Keep(st, IF own THEN [o EXCEPT !.touched = <<>>] ELSE o)
  ELSE Fail(st, t, errName)
DoItem(st, t, ty, i, errName) == DoItemGen(st, t, ty, i, errName, FALSE)

DoLast(st, t, ty) ==
  LET a == st.objs[t] IN
  IF a.n = 0 THEN Fail(st, t, "None") ELSE DoItem(st, t, ty, a.n - 1, "None")

\* the elements i .. n-1 whose index is in S, one after the other
RECURSIVE ConcatSel(_, _, _, _)
ConcatSel(st, a, i, S) ==
  IF i = a.n THEN <<>>
  ELSE (IF i \in S THEN ItemBytes(st, a, i) ELSE <<>>) \o ConcatSel(st, a, i + 1, S)

\* iter / to_vec / iter_res / read_to_vec / IntoIterator: exactly elements 0..n-1, in order.
\* hint: what the iterator announces - <<lower, upper>> of size_hint on the fresh iterator
\* (ReadArrayIter, also its ExactSizeIterator::len), and again after the first next() and after the
\* last one for the index-counting iterators (iter_res, ReadArrayCow::iter).  Every iterator, once it
\* has answered None, answers None again (last entry 1).
\* own: ReadArrayCow::Owned(to_vec()).iter() - nothing is read by the iteration itself; aux = len, is_empty.
\* Dependent element types: iter_res yields one result per element - the accepted elements in order
\* (v, cnt), aux continues with the number and the indices of the refused ones, then base and offered
\* bytes of every accepted one; read_to_vec fails with the first refusal.
Pred0(n) == IF n = 0 THEN 0 ELSE n - 1
DoIter(st, t, ty, hint) ==
  LET a == st.objs[t]
      all  == 0 .. (a.n - 1)
      bad  == IF ty = "depv" THEN {i \in all : ItemFails(st, a, i, ty)} ELSE {}
      good == all \ bad
      aux == CASE hint = "fresh" -> <<a.n, a.n, a.n, 1>>
               [] hint = "step"  -> <<a.n, a.n, Pred0(a.n), Pred0(a.n), 0, 0, 1>>
               [] hint = "own"   -> <<a.n, B01(a.n = 0), a.n, a.n, Pred0(a.n), Pred0(a.n), 0, 0, 1>>
               [] OTHER          -> <<>>
      gs  == SortedSeq(good)
      dep == IF IsDepTy(ty) /\ hint = "step"
             THEN <<Cardinality(bad)>> \o SortedSeq(bad) \o [k \in 1 .. Len(gs) |-> ItemBase(a, gs[k])]
                                       \o [k \in 1 .. Len(gs) |-> a.size]
             ELSE <<>>
  IN
  IF hint = "" /\ bad # {} THEN Fail(st, t, "BadValue")
  ELSE
  Keep(st, WithAux(Obs(TRUE, "", ConcatSel(st, a, 0, good), 0, Cardinality(good), <<>>, -1,
                       IF IsDepTy(ty) \/ hint = "own" THEN {} ELSE UNION {ItemIdx(a, i) : i \in all}),
                   aux \o dep))

DoCheckIndex(st, t, i) ==
  LET a == st.objs[t] IN
  IF ~IsHuge(i) /\ i < a.n THEN Keep(st, Obs(TRUE, "", <<>>, 0, 0, <<>>, -1, {}))
  ELSE Fail(st, t, "BadIndex")

\* binary_search_by(|x| x.cmp(key)) on elements compared as byte strings (= unsigned
\* big-endian order).  Relational: any answer allowed by the contract is accepted.
RECURSIVE SeqLess(_, _)
SeqLess(x, y) == IF x = <<>> THEN y # <<>>
                 ELSE IF y = <<>> THEN FALSE
                 ELSE IF x[1] # y[1] THEN x[1] < y[1] ELSE SeqLess(Tail(x), Tail(y))
IsSortedArr(st, a) ==
  \A i \in 0 .. (a.n - 2) : ~SeqLess(ItemBytes(st, a, i + 1), ItemBytes(st, a, i))
SearchOk(st, a, key)  == {i \in 0 .. (a.n - 1) : ItemBytes(st, a, i) = key}
SearchErr(st, a, key) ==
  IF IsSortedArr(st, a)
  THEN IF SearchOk(st, a, key) # {} THEN {}
       ELSE {Cardinality({i \in 0 .. (a.n - 1) : SeqLess(ItemBytes(st, a, i), key)})}
  ELSE 0 .. a.n
\* obs.ok /\ cnt \in SearchOk, or ~obs.ok /\ err = "NotFound" /\ cnt \in SearchErr;
\* touched is a subset of the element bytes.
SearchConforms(st, t, key, o) ==
  LET a == st.objs[t] IN
  /\ IF o.ok THEN o.cnt \in SearchOk(st, a, key)
             ELSE o.err = "NotFound" /\ o.cnt \in SearchErr(st, a, key)
  /\ \A k \in 1 .. Len(o.touched) :
        o.touched[k] \in UNION {ItemIdx(a, i) : i \in 0 .. (a.n - 1)}
\* Deterministic answer when the array is sorted and free of duplicates of the key.
DoSearch(st, t, key) ==
  LET a == st.objs[t]  oks == SearchOk(st, a, key) IN
  IF oks # {} THEN Keep(st, Obs(TRUE, "", <<>>, 0, Min(oks), <<>>, -1, {}))
  ELSE Keep(st, Obs(FALSE, "NotFound", <<>>, 0, Min(SearchErr(st, a, key)), <<>>, -1, {}))

---------------------------------------------------------------------------
\* Operations as data:  [op, t, ty, a, b, key]
Op(op, t, ty, a, b, key) == [op |-> op, t |-> t, ty |-> ty, a |-> a, b |-> b, key |-> key]

Apply(st, o) ==
  CASE o.op = "Offset"          -> DoOffset(st, o.t, o.a)
    [] o.op = "OffsetLength"    -> DoOffsetLength(st, o.t, o.a, o.b)
    [] o.op = "Ctxt"            -> DoCtxt(st, o.t)
    [] o.op = "ScopeRead"       -> DoScopeRead(st, o.t, o.ty)
    [] o.op = "ReadCache"       -> DoReadCache(st, o.t, o.ty)
    [] o.op = "ScopeEq"         -> DoScopeEq(st, o.t, o.a)      \* a: the other scope (object number)
    [] o.op = "ScopeOwned"      -> DoScopeOwned(st, o.t)
    [] o.op = "ScopeReadDep"    -> DoScopeReadDep(st, o.t, o.a)
    [] o.op = "EmptyArray"      -> DoEmptyArray(st, o.t, o.ty)
    [] o.op = "ReadB"           -> DoRead(st, o.t, o.ty)        \* <T as ReadBinary>::read(&mut ctxt)
    [] o.op = "Check"           -> DoCheck(st, o.t, o.a, o.b)   \* a: the condition (0/1), b: check / check_index / check_version
    [] o.op = "ReadArrayDepT"   -> DoReadArray(st, o.t, o.ty, o.a)   \* read_array_dep::<T>(n, ()), T: ReadUnchecked
    [] o.op = "ReadM"           -> DoRead(st, o.t, o.ty)        \* read_u8 ... read_i64be
    [] o.op = "ReadT"           -> DoRead(st, o.t, o.ty)        \* read::<T>()
    [] o.op = "ReadScope"       -> DoReadScope(st, o.t, o.a, FALSE)
    [] o.op = "ReadSlice"       -> DoReadScope(st, o.t, o.a, TRUE)
    [] o.op = "ReadDep"         -> DoReadDep(st, o.t, o.a)
    [] o.op = "ReadArray"       -> DoReadArray(st, o.t, o.ty, o.a)
    [] o.op = "ReadArrayStride" -> DoReadArrayStride(st, o.t, o.ty, o.a, o.b)
    [] o.op = "ReadArrayUpto"   -> DoReadArrayUpto(st, o.t, o.ty, o.a)
    [] o.op = "ReadArrayDep"    -> DoReadArrayGen(st, o.t, o.a, o.b, o.b, TRUE)
    [] o.op = "ReadUntilNibble" -> DoReadUntilNibble(st, o.t, o.a)
    [] o.op = "CtxtScope"       -> DoCtxtScope(st, o.t)
    [] o.op = "CtxtClone"       -> DoCtxtClone(st, o.t)
    [] o.op = "BytesAvailable"  -> DoBytesAvailable(st, o.t)
    [] o.op = "Len"             -> DoLen(st, o.t, o.ty)
    [] o.op = "GetItem"         -> DoItem(st, o.t, o.ty, o.a, "None")
    [] o.op = "ReadItem"        -> DoItem(st, o.t, o.ty, o.a, "BadIndex")
    [] o.op = "CowGetItem"      -> DoItem(st, o.t, o.ty, o.a, "None")
    [] o.op = "CowReadItem"     -> DoItem(st, o.t, o.ty, o.a, "BadIndex")
    [] o.op = "OwnGetItem"      -> DoItemGen(st, o.t, o.ty, o.a, "None", TRUE)
    [] o.op = "OwnReadItem"     -> DoItemGen(st, o.t, o.ty, o.a, "BadIndex", TRUE)
    [] o.op = "Last"            -> DoLast(st, o.t, o.ty)
    [] o.op = "Iter"            -> DoIter(st, o.t, o.ty, "fresh")
    [] o.op = "IntoIter"        -> DoIter(st, o.t, o.ty, "fresh")
    [] o.op = "ToVec"           -> DoIter(st, o.t, o.ty, "")
    [] o.op = "IterRes"         -> DoIter(st, o.t, o.ty, "step")
    [] o.op = "ReadToVec"       -> DoIter(st, o.t, o.ty, "")
    [] o.op = "CowIter"         -> DoIter(st, o.t, o.ty, "step")
    [] o.op = "OwnIter"         -> DoIter(st, o.t, o.ty, "own")
    [] o.op = "CheckIndex"      -> DoCheckIndex(st, o.t, o.a)
    [] o.op = "CowCheckIndex"   -> DoCheckIndex(st, o.t, o.a)
    [] o.op = "OwnCheckIndex"   -> DoCheckIndex(st, o.t, o.a)
    [] o.op = "Search"          -> DoSearch(st, o.t, o.key)

KnownOps == {"Offset","OffsetLength","Ctxt","ScopeRead","ReadCache","ScopeEq","ScopeOwned","ScopeReadDep","EmptyArray",
             "ReadM","ReadT","ReadB","Check","ReadArrayDepT","ReadScope","ReadSlice","ReadDep",
             "ReadArray","ReadArrayStride","ReadArrayUpto","ReadArrayDep","ReadUntilNibble",
             "CtxtScope","CtxtClone","BytesAvailable","Len","GetItem","ReadItem","CowGetItem","CowReadItem",
             "OwnGetItem","OwnReadItem","Last","Iter","IntoIter","ToVec","IterRes","ReadToVec","CowIter",
             "OwnIter","CheckIndex","CowCheckIndex","OwnCheckIndex","Search"}

\* which kind of object an operation applies to (the judge refuses an event on another kind)
OpKind(op) ==
  IF op \in {"Offset","OffsetLength","Ctxt","ScopeRead","ReadCache","ScopeEq","ScopeOwned","ScopeReadDep","EmptyArray"} THEN "scope"
  ELSE IF op \in {"ReadM","ReadT","ReadB","Check","ReadArrayDepT","ReadScope","ReadSlice","ReadDep","ReadArray","ReadArrayStride","ReadArrayUpto",
                  "ReadArrayDep","ReadUntilNibble","CtxtScope","CtxtClone","BytesAvailable"} THEN "ctxt"
  ELSE "array"

---------------------------------------------------------------------------
\* Invariants of the design (checked by TLC on every reachable state).

WindowOf(x) == Idx(x.lo, x.len)
RootIdx(st) == Idx(0, Len(st.root))

\* every window lies inside the root buffer
WindowInRoot(st)   == \A t \in DOMAIN st.objs : WindowOf(st.objs[t]) \subseteq RootIdx(st)
\* every cursor lies inside its window
CursorInWindow(st) == \A t \in DOMAIN st.objs :
                        st.objs[t].kind = "ctxt" => st.objs[t].off \in 0 .. st.objs[t].len
\* an array's window holds exactly its n strided elements and each element fits its stride
ArrayExact(st)     == \A t \in DOMAIN st.objs :
                        LET a == st.objs[t] IN
                        a.kind = "array" => /\ a.len = a.n * a.stride
                                            /\ a.size <= a.stride \/ a.n = 0 \/ a.stride = a.size
                                            /\ \A i \in 0 .. (a.n - 1) : ItemIdx(a, i) \subseteq WindowOf(a)

\* the last operation touched only bytes of the window of the object it was applied to
TouchedInWindow(pre, o, obs) ==
  \A k \in 1 .. Len(obs.touched) : obs.touched[k] \in WindowOf(pre.objs[o.t])
\* a failing operation has no effect
FailNoEffect(pre, post, obs) == ~obs.ok => post = pre /\ obs.touched = <<>>
\* a successful cursor read returns the bytes at the old cursor and advances by exactly SIZE
ReadExact(pre, post, o, obs) ==
  (o.op \in {"ReadM", "ReadT", "ReadB"} /\ obs.ok) =>
     LET c == pre.objs[o.t]  c2 == post.objs[o.t] IN
     /\ obs.v = Bytes(pre, c.lo + c.off, SizeOf(o.ty))
     /\ c2.off = c.off + SizeOf(o.ty)
     /\ post.objs = [pre.objs EXCEPT ![o.t] = c2]
\* a window derived from an object lies inside that object's window (from the cursor on)
DerivedInside(pre, post, o, obs) ==
  (obs.ok /\ Len(post.objs) > Len(pre.objs)) =>
     LET x == pre.objs[o.t]  y == post.objs[Len(post.objs)] IN
     IF o.op = "CtxtClone" THEN y = x       \* a clone: same window, same cursor
     ELSE WindowOf(y) \subseteq IF x.kind = "ctxt" THEN Idx(x.lo + x.off, x.len - x.off) ELSE WindowOf(x)

\* the field-wise decoding of a type is the SIZE bytes at the position, and SIZE is the sum of the fields
FieldwiseExact(st, ty, p) ==
  /\ SizeOf(ty) = SumSizes(FieldsOf(ty))
  /\ (p + SizeOf(ty) <= Len(st.root) => DecodeAt(st, ty, p) = Bytes(st, p, SizeOf(ty)))

\* a positioned object: its base is where its window starts in the root
Positioned(x) == x.len = 0 \/ x.base = x.lo
\* a window carved by the reader out of a positioned object is positioned (a slice re-wrapped by the
\* caller is not: it restarts at base 0)
PositionKept(pre, post, o, obs) ==
  (obs.ok /\ Len(post.objs) > Len(pre.objs) /\ Positioned(pre.objs[o.t])
   /\ o.op \notin {"ReadSlice", "ReadDep", "ReadUntilNibble"}) =>
     LET y == post.objs[Len(post.objs)] IN y.kind = "array" \/ Positioned(y)
\* a cached read through a positioned scope, over a cache filled through positioned scopes, returns
\* the value located at the start of that scope (what the base-keyed cache relies on)
CacheLocated(pre, o, obs) ==
  (o.op = "ReadCache" /\ obs.ok /\ pre.objs[o.t].len > 0 /\ Positioned(pre.objs[o.t])
   /\ \A e \in pre.cache : e.v = DecodeAt(pre, e.ty, e.base)) =>
     obs.v = DecodeAt(pre, o.ty, pre.objs[o.t].lo)

=============================================================================
