--------------------------- MODULE BinaryReader ---------------------------
(***************************************************************************)
(* Specification of allsorts' binary reader (src/binary/read.rs): scopes,  *)
(* contexts (cursors) and arrays over one root buffer.  Property C14.      *)
(*                                                                         *)
(* The reader is sequential and deterministic, so its semantics is given   *)
(* as one pure operator  Apply(st, o)  that maps a state and an operation  *)
(* to the next state and the observation the operation must produce.  The  *)
(* model checker explores  st' = Apply(st, o).st  for every operation the  *)
(* state offers (MC_BinaryReader), the trace judge replays recorded        *)
(* operations through the very same operator (Trace_BinaryReader).         *)
(*                                                                         *)
(* One action per public method, at the grain of the code:                 *)
(*   ReadScope : offset, offset_length, ctxt, read::<T>                    *)
(*   ReadCtxt  : read_u8..read_i64be, read::<T>, read_slice, read_scope,   *)
(*               read_array, read_array_stride, read_array_upto_hack,      *)
(*               read_array_dep, read_until_nibble, scope, bytes_available *)
(*   ReadArray : len, get_item, read_item, last, iter/to_vec,              *)
(*               iter_res/read_to_vec, binary_search_by, check_index       *)
(*                                                                         *)
(* Numbers.  Values are *byte sequences* (the big-endian image of what was *)
(* read), so no 32-bit limit of TLC is met; for widths <= 3 the numeric    *)
(* value with sign extension is specified as well.  A usize argument above *)
(* LIMIT is represented by HUGE: "larger than any buffer".                 *)
(***************************************************************************)
EXTENDS Integers, Sequences, FiniteSets, SequencesExt, FiniteSetsExt, TLC

CONSTANT HUGE            \* a number larger than any buffer length / index used

---------------------------------------------------------------------------
\* Element types: every ReadUnchecked type is characterised by its SIZE.
\* The harness binds each name to a concrete Rust type.
SizeOf(ty) ==
  CASE ty = "u8"     -> 1   [] ty = "i8"    -> 1
    [] ty = "u16"    -> 2   [] ty = "i16"   -> 2
    [] ty = "u24"    -> 3
    [] ty = "u32"    -> 4   [] ty = "i32"   -> 4
    [] ty = "u64"    -> 8   [] ty = "i64"   -> 8
    [] ty = "u8u16"  -> 3   \* (U8, U16Be)
    [] ty = "u16x3"  -> 6   \* (U16Be, U16Be, U16Be)
    [] ty = "u8x4"   -> 4   \* (U8, U8, U8, U8)
    [] ty = "nt16"   -> 2   \* a ReadFrom newtype over U16Be
    [] ty = "nt32p"  -> 4   \* a ReadFrom newtype over (U16Be, U16Be)

Signed(ty) == ty \in {"i8", "i16", "i32", "i64"}
Numeric(ty) == ty \in {"u8", "i8", "u16", "i16", "u24"}

AllTypes == {"u8","i8","u16","i16","u24","u32","i32","u64","i64","u8u16","u16x3","u8x4","nt16","nt32p"}

---------------------------------------------------------------------------
\* HUGE-aware arithmetic (HUGE absorbs; HUGE * 0 = 0 as in the integers).
IsHuge(x) == x >= HUGE
Mul(a, b) == IF a = 0 \/ b = 0 THEN 0
             ELSE IF IsHuge(a) \/ IsHuge(b) THEN HUGE
             ELSE IF a * b >= HUGE THEN HUGE ELSE a * b
Add(a, b) == IF IsHuge(a) \/ IsHuge(b) THEN HUGE
             ELSE IF a + b >= HUGE THEN HUGE ELSE a + b
Min2(a, b) == IF a <= b THEN a ELSE b

---------------------------------------------------------------------------
\* Objects.  One record shape for all three kinds keeps TLC's fingerprints simple.
\*   scope : window [lo, lo+len) of the root (0-based lo)
\*   ctxt  : window + cursor off (0 <= off <= len)
\*   array : window of n*stride bytes, n elements of `size` bytes every `stride` bytes
\* An empty window has no position: lo is canonically 0 when len = 0.
Obj(kind, lo, len, off, n, stride, size) ==
  [kind |-> kind, lo |-> IF len = 0 THEN 0 ELSE lo, len |-> len, off |-> off,
   n |-> n, stride |-> stride, size |-> size]
Scope(lo, len)                == Obj("scope", lo, len, 0, 0, 0, 0)
Ctxt(lo, len, off)            == Obj("ctxt", lo, len, off, 0, 0, 0)
Array(lo, n, stride, size)    == Obj("array", lo, Mul(n, stride), 0, n, stride, size)

InitState(root) == [root |-> root, objs |-> <<Scope(0, Len(root))>>]

\* Bytes [lo+a, lo+a+k) of the root as a sequence, and their 0-based indices.
Bytes(st, lo, k)   == SubSeq(st.root, lo + 1, lo + k)
Idx(lo, k)         == IF k = 0 THEN {} ELSE lo .. (lo + k - 1)
SortedSeq(S)       == SetToSortSeq(S, LAMBDA a, b : a < b)

\* Numeric value of <= 3 big-endian bytes, sign-extended when asked.
RECURSIVE BEu(_)
BEu(bs) == IF bs = <<>> THEN 0 ELSE BEu(Front(bs)) * 256 + Last(bs)
Pow256(k) == CASE k = 1 -> 256 [] k = 2 -> 65536 [] k = 3 -> 16777216
BE(bs, signed) == LET u == BEu(bs) IN
                  IF signed /\ bs[1] >= 128 THEN u - Pow256(Len(bs)) ELSE u

---------------------------------------------------------------------------
\* Observations.  Every operation yields the same record shape:
\*   ok      : the call returned Ok / Some / a plain value
\*   err     : "" | "Eof" | "BadOffset" | "BadIndex" | "BadValue" | "None"
\*   v       : bytes of the value(s) returned (concatenated for iteration), big-endian
\*   num     : numeric value for widths <= 3 (0 otherwise)
\*   cnt     : a count result (len, number of items iterated, search index, 0/1 for booleans)
\*   new     : <<lo, len, 0, 0>> of the scope/context created, <<-1, -1, n, -1>> for an array, or <<>>
\*   rem     : bytes left after the cursor of the target context after the call (-1: n/a)
\*   touched : sorted root indices read through the unchecked primitives
Obs(ok, err, v, num, cnt, new, rem, touched) ==
  [ok |-> ok, err |-> err, v |-> v, num |-> num, cnt |-> cnt, new |-> new, rem |-> rem,
   touched |-> SortedSeq(touched)]
\* the window of a new scope/context is observable (data() pointer and length); of a new array
\* only the element count is (its window shows in what its elements touch)
NewOf(o) == IF o.kind = "array" THEN <<-1, -1, o.n, -1>> ELSE <<o.lo, o.len, 0, 0>>

Rem(c) == c.len - c.off

\* Result of an operation that leaves every existing object unchanged.
Keep(st, obs) == [st |-> st, obs |-> obs]
\* ... that appends a new object.
Push(st, o, obs) == [st |-> [st EXCEPT !.objs = Append(@, o)], obs |-> obs]
\* ... that replaces the target (a context whose cursor moved) and maybe appends.
Move(st, t, c, obs) == [st |-> [st EXCEPT !.objs[t] = c], obs |-> obs]
MovePush(st, t, c, o, obs) ==
  [st |-> [st EXCEPT !.objs = Append([@ EXCEPT ![t] = c], o)], obs |-> obs]

Fail(st, t, err) ==      \* no effect: state unchanged, nothing touched
  LET x == st.objs[t] IN
  Keep(st, Obs(FALSE, err, <<>>, 0, 0, <<>>, IF x.kind = "ctxt" THEN Rem(x) ELSE -1, {}))

---------------------------------------------------------------------------
\* ReadScope

\* offset(k): the suffix window, empty when k is beyond the end.  Infallible.
DoOffset(st, t, k) ==
  LET s == st.objs[t]
      o == IF ~IsHuge(k) /\ k <= s.len THEN Scope(s.lo + k, s.len - k) ELSE Scope(0, 0)
  IN Push(st, o, Obs(TRUE, "", <<>>, 0, 0, NewOf(o), -1, {}))

\* The rule of offset_length, shared with read_scope:
\*   offset inside the window, or a zero length  -> window must hold `n` bytes from k
OffLenResult(len, k, n) ==
  IF (~IsHuge(k) /\ k < len) \/ n = 0
  THEN LET avail == IF ~IsHuge(k) /\ k <= len THEN len - k ELSE 0 IN
       IF ~IsHuge(n) /\ n <= avail THEN "Ok" ELSE "Eof"
  ELSE "BadOffset"

DoOffsetLength(st, t, k, n) ==
  LET s == st.objs[t]  r == OffLenResult(s.len, k, n) IN
  IF r = "Ok"
  THEN LET o == Scope(s.lo + k, n) IN Push(st, o, Obs(TRUE, "", <<>>, 0, 0, NewOf(o), -1, {}))
  ELSE Fail(st, t, r)

DoCtxt(st, t) ==
  LET s == st.objs[t]  o == Ctxt(s.lo, s.len, 0) IN
  Push(st, o, Obs(TRUE, "", <<>>, 0, 0, NewOf(o), -1, {}))

\* Decoding of one element of type ty at absolute position p (must be inside the window).
ValObs(st, ty, p, new, rem) ==
  LET k == SizeOf(ty)  bs == Bytes(st, p, k) IN
  Obs(TRUE, "", bs, IF Numeric(ty) THEN BE(bs, Signed(ty)) ELSE 0, 0, new, rem, Idx(p, k))

\* scope.read::<T>() : a fresh context, one read, context dropped.
DoScopeRead(st, t, ty) ==
  LET s == st.objs[t] IN
  IF SizeOf(ty) <= s.len THEN Keep(st, ValObs(st, ty, s.lo, <<>>, -1)) ELSE Fail(st, t, "Eof")

---------------------------------------------------------------------------
\* ReadCtxt

\* read_u8 ... read_i64be and read::<T>(): value at the cursor, cursor += SIZE; or Eof, no effect.
DoRead(st, t, ty) ==
  LET c == st.objs[t]  k == SizeOf(ty) IN
  IF c.off + k <= c.len
  THEN LET c2 == [c EXCEPT !.off = c.off + k] IN
       Move(st, t, c2, ValObs(st, ty, c.lo + c.off, <<>>, Rem(c2)))
  ELSE Fail(st, t, "Eof")

\* read_scope(n) / read_slice(n): the next n bytes as a window.  Every failure is Eof.
\* (At the very end of the window offset_length answers BadOffset for n > 0; read_scope
\* reports that as Eof too.)
DoReadScope(st, t, n, slice) ==
  LET c == st.objs[t] IN
  IF OffLenResult(c.len, c.off, n) = "Ok"
  THEN LET o  == Scope(c.lo + c.off, n)
           c2 == [c EXCEPT !.off = c.off + n] IN
       MovePush(st, t, c2, o,
                Obs(TRUE, "", IF slice THEN Bytes(st, c.lo + c.off, n) ELSE <<>>, 0, 0,
                    NewOf(o), Rem(c2), {}))
  ELSE Fail(st, t, "Eof")

\* read_array::<T>(n), read_array_stride::<T>(n, stride), read_array_dep::<D>(n, size):
\* n*stride bytes are consumed; an argument that makes n*stride exceed what is left
\* (in particular any HUGE product) is Eof with no effect.
DoReadArrayGen(st, t, n, stride, size) ==
  LET c == st.objs[t]  bytes == Mul(n, stride) IN
  IF OffLenResult(c.len, c.off, bytes) = "Ok"
  THEN LET a  == Array(c.lo + c.off, n, stride, size)
           c2 == [c EXCEPT !.off = c.off + bytes] IN
       MovePush(st, t, c2, a, Obs(TRUE, "", <<>>, 0, n, NewOf(a), Rem(c2), {}))
  ELSE Fail(st, t, "Eof")

DoReadArray(st, t, ty, n) == DoReadArrayGen(st, t, n, SizeOf(ty), SizeOf(ty))

DoReadArrayStride(st, t, ty, n, stride) ==
  IF SizeOf(ty) > stride THEN Fail(st, t, "BadValue")
  ELSE DoReadArrayGen(st, t, n, stride, SizeOf(ty))

\* read_array_upto_hack::<T>(n): as many of the n elements as fit.
DoReadArrayUpto(st, t, ty, n) ==
  LET c == st.objs[t]  fit == (c.len - c.off) \div SizeOf(ty) IN
  DoReadArray(st, t, ty, IF IsHuge(n) THEN fit ELSE Min2(n, fit))

\* read_until_nibble(x): bytes up to and including the first byte having x as a nibble.
HasNibble(b, x) == (b \div 16) = x \/ (b % 16) = x
DoReadUntilNibble(st, t, x) ==
  LET c    == st.objs[t]
      cand == {k \in 1 .. (c.len - c.off) : HasNibble(st.root[c.lo + c.off + k], x)} IN
  IF cand = {} THEN Fail(st, t, "Eof") ELSE DoReadScope(st, t, Min(cand), TRUE)

\* ctxt.scope(): the window from the cursor to the end.
DoCtxtScope(st, t) ==
  LET c == st.objs[t]  o == Scope(c.lo + c.off, c.len - c.off) IN
  Push(st, o, Obs(TRUE, "", <<>>, 0, 0, NewOf(o), Rem(c), {}))

DoBytesAvailable(st, t) ==
  LET c == st.objs[t] IN
  Keep(st, Obs(TRUE, "", <<>>, 0, IF c.off < c.len THEN 1 ELSE 0, <<>>, Rem(c), {}))

---------------------------------------------------------------------------
\* ReadArray.  Element i (0-based) occupies `size` bytes at lo + i*stride.
ItemPos(a, i)   == a.lo + i * a.stride
ItemBytes(st, a, i) == Bytes(st, ItemPos(a, i), a.size)
ItemIdx(a, i)   == Idx(ItemPos(a, i), a.size)

DoLen(st, t) ==
  Keep(st, Obs(TRUE, "", <<>>, 0, st.objs[t].n, <<>>, -1, {}))

\* get_item / read_item / ReadArrayCow::{get_item, read_item}
\* Element type "dep" is the harness's ReadFixedSizeDep type: `size` bytes returned as a slice
\* (read with read_slice, so nothing goes through the unchecked primitives).
DoItem(st, t, ty, i, errName) ==
  LET a == st.objs[t] IN
  IF ~IsHuge(i) /\ i < a.n
  THEN IF ty = "dep"
       THEN Keep(st, Obs(TRUE, "", ItemBytes(st, a, i), 0, 0, <<>>, -1, {}))
       ELSE Keep(st, ValObs(st, ty, ItemPos(a, i), <<>>, -1))
  ELSE Fail(st, t, errName)

DoLast(st, t, ty) ==
  LET a == st.objs[t] IN
  IF a.n = 0 THEN Fail(st, t, "None") ELSE DoItem(st, t, ty, a.n - 1, "None")

RECURSIVE Concat(_, _, _)
Concat(st, a, i) == IF i = a.n THEN <<>> ELSE ItemBytes(st, a, i) \o Concat(st, a, i + 1)

\* iter / to_vec / iter_res / read_to_vec / IntoIterator: exactly elements 0..n-1, in order.
DoIter(st, t, ty) ==
  LET a == st.objs[t] IN
  Keep(st, Obs(TRUE, "", Concat(st, a, 0), 0, a.n, <<>>, -1,
               IF ty = "dep" THEN {} ELSE UNION {ItemIdx(a, i) : i \in 0 .. (a.n - 1)}))

DoCheckIndex(st, t, i) ==
  LET a == st.objs[t] IN
  IF ~IsHuge(i) /\ i < a.n THEN Keep(st, Obs(TRUE, "", <<>>, 0, 0, <<>>, -1, {}))
  ELSE Fail(st, t, "BadIndex")

\* binary_search_by(|x| x.cmp(key)) on elements compared as byte strings (= unsigned
\* big-endian order).  Relational: any answer allowed by the contract is accepted.
RECURSIVE SeqLess(_, _)
SeqLess(x, y) == IF x = <<>> THEN y # <<>>
                 ELSE IF y = <<>> THEN FALSE
                 ELSE IF x[1] # y[1] THEN x[1] < y[1] ELSE SeqLess(Tail(x), Tail(y))
IsSortedArr(st, a) ==
  \A i \in 0 .. (a.n - 2) : ~SeqLess(ItemBytes(st, a, i + 1), ItemBytes(st, a, i))
SearchOk(st, a, key)  == {i \in 0 .. (a.n - 1) : ItemBytes(st, a, i) = key}
SearchErr(st, a, key) ==
  IF IsSortedArr(st, a)
  THEN IF SearchOk(st, a, key) # {} THEN {}
       ELSE {Cardinality({i \in 0 .. (a.n - 1) : SeqLess(ItemBytes(st, a, i), key)})}
  ELSE 0 .. a.n
\* obs.ok /\ cnt \in SearchOk, or ~obs.ok /\ err = "NotFound" /\ cnt \in SearchErr;
\* touched is a subset of the element bytes.
SearchConforms(st, t, key, o) ==
  LET a == st.objs[t] IN
  /\ IF o.ok THEN o.cnt \in SearchOk(st, a, key)
             ELSE o.err = "NotFound" /\ o.cnt \in SearchErr(st, a, key)
  /\ \A k \in 1 .. Len(o.touched) :
        o.touched[k] \in UNION {ItemIdx(a, i) : i \in 0 .. (a.n - 1)}
\* Deterministic answer when the array is sorted and free of duplicates of the key.
DoSearch(st, t, key) ==
  LET a == st.objs[t]  oks == SearchOk(st, a, key) IN
  IF oks # {} THEN Keep(st, Obs(TRUE, "", <<>>, 0, Min(oks), <<>>, -1, {}))
  ELSE Keep(st, Obs(FALSE, "NotFound", <<>>, 0, Min(SearchErr(st, a, key)), <<>>, -1, {}))

---------------------------------------------------------------------------
\* Operations as data:  [op, t, ty, a, b, key]
Op(op, t, ty, a, b, key) == [op |-> op, t |-> t, ty |-> ty, a |-> a, b |-> b, key |-> key]

Apply(st, o) ==
  CASE o.op = "Offset"          -> DoOffset(st, o.t, o.a)
    [] o.op = "OffsetLength"    -> DoOffsetLength(st, o.t, o.a, o.b)
    [] o.op = "Ctxt"            -> DoCtxt(st, o.t)
    [] o.op = "ScopeRead"       -> DoScopeRead(st, o.t, o.ty)
    [] o.op = "ReadM"           -> DoRead(st, o.t, o.ty)        \* read_u8 ... read_i64be
    [] o.op = "ReadT"           -> DoRead(st, o.t, o.ty)        \* read::<T>()
    [] o.op = "ReadScope"       -> DoReadScope(st, o.t, o.a, FALSE)
    [] o.op = "ReadSlice"       -> DoReadScope(st, o.t, o.a, TRUE)
    [] o.op = "ReadArray"       -> DoReadArray(st, o.t, o.ty, o.a)
    [] o.op = "ReadArrayStride" -> DoReadArrayStride(st, o.t, o.ty, o.a, o.b)
    [] o.op = "ReadArrayUpto"   -> DoReadArrayUpto(st, o.t, o.ty, o.a)
    [] o.op = "ReadArrayDep"    -> DoReadArrayGen(st, o.t, o.a, o.b, o.b)
    [] o.op = "ReadUntilNibble" -> DoReadUntilNibble(st, o.t, o.a)
    [] o.op = "CtxtScope"       -> DoCtxtScope(st, o.t)
    [] o.op = "BytesAvailable"  -> DoBytesAvailable(st, o.t)
    [] o.op = "Len"             -> DoLen(st, o.t)
    [] o.op = "GetItem"         -> DoItem(st, o.t, o.ty, o.a, "None")
    [] o.op = "ReadItem"        -> DoItem(st, o.t, o.ty, o.a, "BadIndex")
    [] o.op = "CowGetItem"      -> DoItem(st, o.t, o.ty, o.a, "None")
    [] o.op = "CowReadItem"     -> DoItem(st, o.t, o.ty, o.a, "BadIndex")
    [] o.op = "Last"            -> DoLast(st, o.t, o.ty)
    [] o.op = "Iter"            -> DoIter(st, o.t, o.ty)
    [] o.op = "ToVec"           -> DoIter(st, o.t, o.ty)
    [] o.op = "IterRes"         -> DoIter(st, o.t, o.ty)
    [] o.op = "CowIter"         -> DoIter(st, o.t, o.ty)
    [] o.op = "CheckIndex"      -> DoCheckIndex(st, o.t, o.a)
    [] o.op = "Search"          -> DoSearch(st, o.t, o.key)

KnownOps == {"Offset","OffsetLength","Ctxt","ScopeRead","ReadM","ReadT","ReadScope","ReadSlice",
             "ReadArray","ReadArrayStride","ReadArrayUpto","ReadArrayDep","ReadUntilNibble",
             "CtxtScope","BytesAvailable","Len","GetItem","ReadItem","CowGetItem","CowReadItem",
             "Last","Iter","ToVec","IterRes","CowIter","CheckIndex","Search"}

---------------------------------------------------------------------------
\* Invariants of the design (checked by TLC on every reachable state).

WindowOf(x) == Idx(x.lo, x.len)
RootIdx(st) == Idx(0, Len(st.root))

\* every window lies inside the root buffer
WindowInRoot(st)   == \A t \in DOMAIN st.objs : WindowOf(st.objs[t]) \subseteq RootIdx(st)
\* every cursor lies inside its window
CursorInWindow(st) == \A t \in DOMAIN st.objs :
                        st.objs[t].kind = "ctxt" => st.objs[t].off \in 0 .. st.objs[t].len
\* an array's window holds exactly its n strided elements and each element fits its stride
ArrayExact(st)     == \A t \in DOMAIN st.objs :
                        LET a == st.objs[t] IN
                        a.kind = "array" => /\ a.len = a.n * a.stride
                                            /\ a.size <= a.stride \/ a.n = 0 \/ a.stride = a.size
                                            /\ \A i \in 0 .. (a.n - 1) : ItemIdx(a, i) \subseteq WindowOf(a)

\* the last operation touched only bytes of the window of the object it was applied to
TouchedInWindow(pre, o, obs) ==
  \A k \in 1 .. Len(obs.touched) : obs.touched[k] \in WindowOf(pre.objs[o.t])
\* a failing operation has no effect
FailNoEffect(pre, post, obs) == ~obs.ok => post = pre /\ obs.touched = <<>>
\* a successful cursor read returns the bytes at the old cursor and advances by exactly SIZE
ReadExact(pre, post, o, obs) ==
  (o.op \in {"ReadM", "ReadT"} /\ obs.ok) =>
     LET c == pre.objs[o.t]  c2 == post.objs[o.t] IN
     /\ obs.v = Bytes(pre, c.lo + c.off, SizeOf(o.ty))
     /\ c2.off = c.off + SizeOf(o.ty)
     /\ post.objs = [pre.objs EXCEPT ![o.t] = c2]
\* a window derived from an object lies inside that object's window (from the cursor on)
DerivedInside(pre, post, o, obs) ==
  (obs.ok /\ Len(post.objs) > Len(pre.objs)) =>
     LET x == pre.objs[o.t]  y == post.objs[Len(post.objs)] IN
     WindowOf(y) \subseteq IF x.kind = "ctxt" THEN Idx(x.lo + x.off, x.len - x.off) ELSE WindowOf(x)

=============================================================================
