--------------------------------- MODULE Fix ---------------------------------
(***************************************************************************)
(* Exact integer and rational arithmetic for the fixed-point properties    *)
(* (C13 normalisation, C12 variation model).                               *)
(*                                                                         *)
(* TLC integers are 32-bit and overflow is an error, while the exact       *)
(* judgement of a 16.16 computation needs products of three or four 32-bit *)
(* numbers.  Numbers are therefore carried as sign + magnitude, the        *)
(* magnitude being a little-endian sequence of limbs in base B = 2^14      *)
(* (one limb = the fraction of an F2Dot14).  A limb product is < 2^28 and  *)
(* a column of at most 7 of them plus a carry stays below 2^31, so every   *)
(* operator below is exact as long as one of the two factors of a product  *)
(* has at most 7 limbs (98 bits) - far above anything the specs build.     *)
(*                                                                         *)
(* No division is ever needed: comparisons of rationals are done by cross  *)
(* multiplication, so no rounding enters a verdict.                        *)
(***************************************************************************)
EXTENDS Integers, Sequences

B == 16384

\* ---- magnitudes ------------------------------------------------------------
RECURSIVE MagOfNat(_)
MagOfNat(n) == IF n = 0 THEN <<>> ELSE <<n % B>> \o MagOfNat(n \div B)

RECURSIVE Trim(_)
Trim(m) == IF m = <<>> THEN m
           ELSE IF m[Len(m)] = 0 THEN Trim(SubSeq(m, 1, Len(m) - 1)) ELSE m

Limb(m, i) == IF i <= Len(m) THEN m[i] ELSE 0

RECURSIVE MagCmpFrom(_, _, _)
MagCmpFrom(a, b, i) ==
  IF i = 0 THEN 0
  ELSE IF Limb(a, i) < Limb(b, i) THEN -1
  ELSE IF Limb(a, i) > Limb(b, i) THEN 1
  ELSE MagCmpFrom(a, b, i - 1)

MagCmp(a, b) == MagCmpFrom(a, b, IF Len(a) > Len(b) THEN Len(a) ELSE Len(b))

RECURSIVE AddAt(_, _, _, _, _)
AddAt(a, b, i, n, c) ==
  IF i > n THEN (IF c = 0 THEN <<>> ELSE <<c>>)
  ELSE LET s == Limb(a, i) + Limb(b, i) + c IN <<s % B>> \o AddAt(a, b, i + 1, n, s \div B)

MagAdd(a, b) == AddAt(a, b, 1, IF Len(a) > Len(b) THEN Len(a) ELSE Len(b), 0)

RECURSIVE SubAt(_, _, _, _, _)
SubAt(a, b, i, n, br) ==
  IF i > n THEN <<>>
  ELSE LET s == Limb(a, i) - Limb(b, i) - br IN
       <<s % B>> \o SubAt(a, b, i + 1, n, IF s < 0 THEN 1 ELSE 0)

\* requires a >= b
MagSub(a, b) == Trim(SubAt(a, b, 1, Len(a), 0))

\* column k (1-based) of the schoolbook product: sum of a[i] * b[k + 1 - i]
RECURSIVE ColSum(_, _, _, _, _)
ColSum(a, b, k, i, hi) ==
  IF i > hi THEN 0 ELSE a[i] * b[k + 1 - i] + ColSum(a, b, k, i + 1, hi)

Col(a, b, k) ==
  LET lo == IF k + 1 - Len(b) > 1 THEN k + 1 - Len(b) ELSE 1
      hi == IF k < Len(a) THEN k ELSE Len(a)
  IN ColSum(a, b, k, lo, hi)

RECURSIVE MulAt(_, _, _, _, _)
MulAt(a, b, k, n, c) ==
  IF k > n THEN MagOfNat(c)
  ELSE LET s == Col(a, b, k) + c IN <<s % B>> \o MulAt(a, b, k + 1, n, s \div B)

MagMul(a, b) ==
  IF a = <<>> \/ b = <<>> THEN <<>> ELSE Trim(MulAt(a, b, 1, Len(a) + Len(b) - 1, 0))

\* ---- signed integers ---------------------------------------------------------
Zero == [neg |-> FALSE, mag |-> <<>>]
One  == [neg |-> FALSE, mag |-> <<1>>]

\* any TLC integer, including -2^31
ZOf(x) == IF x >= 0 THEN [neg |-> FALSE, mag |-> MagOfNat(x)]
          ELSE [neg |-> TRUE, mag |-> MagAdd(MagOfNat(-(x + 1)), <<1>>)]

ZIsZero(a) == a.mag = <<>>
ZNeg(a) == IF a.mag = <<>> THEN a ELSE [neg |-> ~a.neg, mag |-> a.mag]
ZAbs(a) == [neg |-> FALSE, mag |-> a.mag]
ZSign(a) == IF a.mag = <<>> THEN 0 ELSE IF a.neg THEN -1 ELSE 1

ZAdd(a, b) ==
  IF a.neg = b.neg THEN [neg |-> a.neg, mag |-> MagAdd(a.mag, b.mag)]
  ELSE LET c == MagCmp(a.mag, b.mag) IN
       IF c = 0 THEN Zero
       ELSE IF c > 0 THEN [neg |-> a.neg, mag |-> MagSub(a.mag, b.mag)]
       ELSE [neg |-> b.neg, mag |-> MagSub(b.mag, a.mag)]

ZSub(a, b) == ZAdd(a, ZNeg(b))

ZMul(a, b) ==
  IF a.mag = <<>> \/ b.mag = <<>> THEN Zero
  ELSE [neg |-> a.neg # b.neg, mag |-> MagMul(a.mag, b.mag)]

ZCmp(a, b) ==
  IF a.neg # b.neg THEN (IF a.neg THEN -1 ELSE 1)
  ELSE IF a.neg THEN MagCmp(b.mag, a.mag) ELSE MagCmp(a.mag, b.mag)

ZLe(a, b) == ZCmp(a, b) <= 0
ZLt(a, b) == ZCmp(a, b) < 0
ZEq(a, b) == ZCmp(a, b) = 0
ZMax(a, b) == IF ZCmp(a, b) >= 0 THEN a ELSE b
ZMin(a, b) == IF ZCmp(a, b) <= 0 THEN a ELSE b

\* a * 2^14
ZShl14(a) == IF a.mag = <<>> THEN a ELSE [neg |-> a.neg, mag |-> <<0>> \o a.mag]

\* floor(a / 2^14)
ZFloorShr14(a) ==
  IF a.mag = <<>> THEN a
  ELSE IF ~a.neg THEN [neg |-> FALSE, mag |-> SubSeq(a.mag, 2, Len(a.mag))]
  ELSE LET m == MagAdd(a.mag, <<B - 1>>)             \* -floor: ceil(m / B)
           q == SubSeq(m, 2, Len(m))
       IN IF q = <<>> THEN Zero ELSE [neg |-> TRUE, mag |-> q]

\* back to a TLC integer; the caller guarantees |a| < 2^31 (or a = -2^31)
RECURSIVE MagToNat(_, _)
MagToNat(m, i) == IF i > Len(m) THEN 0 ELSE m[i] + B * MagToNat(m, i + 1)
ZFits(a) == \/ Len(a.mag) <= 2
            \/ Len(a.mag) = 3 /\ a.mag[3] <= 7                   \* < 2^31
            \/ a.neg /\ a.mag = <<0, 0, 8>>                      \* -2^31
ZToInt(a) == IF a.neg /\ a.mag = <<0, 0, 8>> THEN -2147483647 - 1
             ELSE IF a.neg THEN -MagToNat(a.mag, 1) ELSE MagToNat(a.mag, 1)

\* ---- rationals p/q with q > 0 (not reduced) ------------------------------------
Q(p, q) == [p |-> p, q |-> q]
QOfInt(x) == [p |-> ZOf(x), q |-> One]
QOfZ(z) == [p |-> z, q |-> One]
QAdd(a, b) == [p |-> ZAdd(ZMul(a.p, b.q), ZMul(b.p, a.q)), q |-> ZMul(a.q, b.q)]
QSub(a, b) == [p |-> ZSub(ZMul(a.p, b.q), ZMul(b.p, a.q)), q |-> ZMul(a.q, b.q)]
QMul(a, b) == [p |-> ZMul(a.p, b.p), q |-> ZMul(a.q, b.q)]
QCmp(a, b) == ZCmp(ZMul(a.p, b.q), ZMul(b.p, a.q))
QLe(a, b) == QCmp(a, b) <= 0
QIsZero(a) == ZIsZero(a.p)
QAbs(a) == [p |-> ZAbs(a.p), q |-> a.q]
\* a / b for b # 0
QDiv(a, b) == IF b.p.neg THEN [p |-> ZNeg(ZMul(a.p, b.q)), q |-> ZMul(a.q, ZAbs(b.p))]
              ELSE [p |-> ZMul(a.p, b.q), q |-> ZMul(a.q, b.p)]

\* ---- plain-integer helpers (small values only) ----------------------------------
\* division truncating toward zero, as Rust's `/` on integers
TruncDiv(a, b) ==
  LET q == (IF a < 0 THEN -a ELSE a) \div (IF b < 0 THEN -b ELSE b) IN
  IF (a < 0) = (b < 0) THEN q ELSE -q

Pow2(n) == CASE n = 0 -> 1 [] n = 1 -> 2 [] n = 2 -> 4 [] n = 3 -> 8 [] n = 4 -> 16 [] n = 5 -> 32
             [] n = 6 -> 64 [] n = 7 -> 128 [] n = 8 -> 256 [] n = 10 -> 1024 [] n = 12 -> 4096
             [] n = 14 -> 16384 [] n = 16 -> 65536
=============================================================================
