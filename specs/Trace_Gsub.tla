---------------------------- MODULE Trace_Gsub ----------------------------
(***************************************************************************)
(* Trace judge for glyph substitution (impl -> spec), C04.                  *)
(* A recorded trace is a sequence of                                        *)
(*   "Prog"  events: a.prog = an abstract substitution program (random, or  *)
(*           extracted from a repository font by an independent GSUB        *)
(*           reader), a.n = number of glyphs, o.err = what loading the      *)
(*           encoded tables with allsorts' readers said ("" = fine);        *)
(*   "Apply" events: a.in = input glyph string, a.route = the entry point   *)
(*           driven (gsub::apply with Features::Custom / Features::Mask,    *)
(*           Font::shape), o.run = the projected run allsorts returned      *)
(*           (glyph, characters, LIGATURE, MULTI_SUBST_DUP,                 *)
(*           liga_component_pos on marks), o.err = error / panic text.      *)
(* An Apply event refers to the latest Prog event (same `case`).  The judge *)
(* recomputes the denotation: the run must be Gsub!GsubDenote of the        *)
(* program under one of the conformant readings (DevChoicesFor).  A run that   *)
(* equals the known NON-conformant reading (mark filtering set hides        *)
(* non-mark glyphs) is reported with that name, to give the finding a       *)
(* stable key.  Judging style: Next is always enabled, a non-conforming     *)
(* event prints a MISMATCH line, the rest of the trace is still examined.   *)
(***************************************************************************)
EXTENDS Gsub, Json, IOUtils, TLC

Rec == ndJsonDeserialize(IOEnv.TRACE)

VARIABLES l,      \* next event
          pl,     \* index of the latest Prog event (0 = none yet)
          wf      \* is that program inside the modelled fragment (Gsub!WFProgram) and loaded?

\* branches of the specification that name a situation in which allsorts is known to panic
CauseTags == {"context-shrunk-below-zero", "nested-index-past-run-end"}

\* causes: such branches taken by the standard reading; bugcauses: taken by the known non-conformant reading
\* (a run that allsorts steers into a panic site only because of the mark-filtering-set defect)
Report(e, stage, want, got, bug, causes, bugcauses) ==
  PrintT(<<"MISMATCH", ToJson([i |-> e.i, case |-> e.case, stage |-> stage, want |-> want, got |-> got, bug |-> bug,
                               causes |-> causes, bugcauses |-> bugcauses])>>)

Unmodelled(e, why) == PrintT(<<"UNMODELLED", ToJson([i |-> e.i, case |-> e.case, why |-> why])>>)

\* which part of Gsub!WFProgram fails (for the evidence: why a real font is outside the model)
WhyNotWF(prog, n) ==
  IF ~WFGdef(prog.gdef) THEN "gdef"
  ELSE IF ~WFFeatures(prog.features, prog.vars, prog.tuple, prog.request, Len(prog.lookups)) THEN "features"
  ELSE LET bad == {li \in 0 .. Len(prog.lookups) - 1 : ~WFLookup(prog, li, n)}
           li == MinOf(bad)
           L == prog.lookups[li + 1] IN
       IF ~WFFlag(prog.gdef, L) THEN "lookup-flag"
       ELSE IF CtxDepth(prog.lookups, li, 5) > RecursionLimit + 1 THEN "context-nesting-depth"
       ELSE "lookup-type-" \o ToString(EffType(L))

JudgeProg(e) ==
  IF ~WFProgram(e.a.prog, e.a.n) THEN Unmodelled(e, "program outside Gsub!WFProgram: " \o WhyNotWF(e.a.prog, e.a.n))
  ELSE IF e.o.err # "" THEN Report(e, "load", "Ok", e.o.err, "", {}, {})
  ELSE TRUE

JudgeApply(e) ==
  LET prog == Rec[pl].a.prog
      outs == {ObsRun(prog.gdef, GsubDenote(prog, dev, e.a.in)) : dev \in DevChoicesFor(prog)}
      std  == ObsRun(prog.gdef, GsubDenote(prog, DevStd, e.a.in))
      bug  == IF e.o.err = "" /\ e.o.run = ObsRun(prog.gdef, GsubDenote(prog, DevMfsBug, e.a.in))
              THEN "mfs-hides-non-marks" ELSE ""
      n    == Rec[pl].a.n
  IN IF \E o \in outs : \E k \in 1 .. Len(o) : o[k].g >= n
     THEN Unmodelled(e, "a substitution yields a glyph id outside the font")
     ELSE IF e.o.err # "" THEN Report(e, e.a.route, std, e.o.err, "", GsubTags(prog, DevStd, e.a.in) \cap CauseTags,
                                     IF \E q \in 1 .. Len(prog.lookups) : UseMfs(prog.lookups[q].flag)
                                     THEN GsubTags(prog, DevMfsBug, e.a.in) \cap CauseTags ELSE {})
     ELSE IF e.o.run \in outs THEN TRUE
     ELSE Report(e, e.a.route, std, e.o.run, bug, {}, {})

TInit == l = 1 /\ pl = 0 /\ wf = FALSE

TNext ==
  /\ l <= Len(Rec)
  /\ l' = l + 1
  /\ LET e == Rec[l] IN
     IF e.ev = "Prog"
     THEN /\ pl' = l
          /\ wf' = (WFProgram(e.a.prog, e.a.n) /\ e.o.err = "")
          /\ JudgeProg(e)
     ELSE /\ UNCHANGED <<pl, wf>>
          /\ IF e.ev = "Apply"
             THEN IF pl = 0 \/ Rec[pl].case # e.case THEN Unmodelled(e, "Apply without a program")
                  ELSE IF ~wf THEN TRUE       \* reported once, at the Prog event
                  ELSE JudgeApply(e)
             ELSE Unmodelled(e, e.ev)

TSpec == TInit /\ [][TNext]_<<l, pl, wf>>

AllConsumed == TLCGet("stats").diameter = Len(Rec) + 1
=============================================================================
