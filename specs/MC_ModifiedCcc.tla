--------------------------- MODULE MC_ModifiedCcc ---------------------------
(***************************************************************************)
(* Generator for the table comparison of C17 (spec -> impl).               *)
(*                                                                         *)
(* One state per canonical combining class n in 0..255.  Loading the model *)
(* makes TLC evaluate the lemmas of ModifiedCcc (its ASSUMEs); ClassOK     *)
(* repeats the per-class ones as an invariant; Emit prints one CASE per    *)
(* class: the modified class the specification prescribes, whether that    *)
(* value is documented (only then is it compared) and whether it is one of *)
(* the exceptions to the identity.  The harness (c17_preprocess classes)   *)
(* calls allsorts::unicode::mcc::modified_combining_class on EVERY code    *)
(* point whose canonical class (crate unicode-canonical-combining-class)   *)
(* is n and compares the answer with `want` by plain equality.             *)
(***************************************************************************)
EXTENDS ModifiedCcc, TLC, Json

VARIABLE n
Init == n \in Classes
Next == UNCHANGED n
Spec == Init /\ [][Next]_n

ClassOK == /\ Mcc[n] \in Classes
           /\ (Mcc[n] = 0) <=> (n = 0)
           /\ n \in Documented => \A m \in Documented \ {n} : Mcc[m] # Mcc[n]

Emit == PrintT(<<"CASE", ToJson([ccc |-> n, want |-> Mcc[n], documented |-> n \in Documented,
                                 exceptional |-> n \in Exceptional, script |-> ScriptOf(n)])>>)
=============================================================================
