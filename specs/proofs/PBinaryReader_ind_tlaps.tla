---------------------- MODULE PBinaryReader_ind_tlaps ----------------------
(* TLAPS: the invariant IndInv of the one-object reader machine of PBinaryReader_apa.tla is inductive    *)
(* (WindowInRoot, CursorInWindow, ArrayExact of BinaryReader.tla for a root of ANY length) and holds     *)
(* initially; a failing step changes nothing.                                                           *)
EXTENDS PBinaryReader_apa, TLAPS
ASSUME HugeNat == HUGE \in Nat /\ HUGE >= 1

THEOREM InitInd == Init => IndInv
  BY HugeNat, SMT DEF Init, IndInv, Strides

THEOREM StepInd == IndInv /\ Next => IndInv'
<1> SUFFICES ASSUME IndInv, Next PROVE IndInv'
    OBVIOUS
<1> USE HugeNat DEF IndInv, Strides, Become, Fail, Win, IsHuge
<1>1. CASE DoOffset        BY <1>1, SMT DEF Next, DoOffset, OffsetWin
<1>2. CASE DoOffsetLength  BY <1>2, SMT DEF Next, DoOffsetLength, OffLenResult, SubScopeWin
<1>3. CASE DoCtxt          BY <1>3, SMT DEF Next, DoCtxt
<1>4. CASE DoRead          BY <1>4, SMT DEF Next, DoRead
<1>5. CASE DoReadScope     BY <1>5, SMT DEF Next, DoReadScope, OffLenResult, ReadScopeWin
<1>6. CASE DoCtxtScope     BY <1>6, SMT DEF Next, DoCtxtScope, CtxtScopeWin
<1>7. CASE DoReadArray     BY <1>7, SMT DEF Next, DoReadArray, OffLenResult, ArrayWin, Mul
<1>8. CASE UNCHANGED <<kind, lo, len, off, cnt, stride, failed>>  BY <1>8, SMT DEF Next
<1> QED BY <1>1, <1>2, <1>3, <1>4, <1>5, <1>6, <1>7, <1>8 DEF Next

THEOREM FailNoEffectThm == IndInv /\ Next => FailNoEffect
  BY SMT DEF IndInv, Next, FailNoEffect, DoOffset, DoOffsetLength, DoCtxt, DoRead, DoReadScope, DoCtxtScope,
             DoReadArray, Become, Fail
=============================================================================
