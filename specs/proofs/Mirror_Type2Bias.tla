--------------------------- MODULE Mirror_Type2Bias ---------------------------
(* X04 mirror check 6b (TLC): PType2Bias next to Type2.tla (Bias) and CffCodec.tla (IntSize).  Op_call's index *)
(* expression is quoted in PType2Bias, not executed here (it needs a whole interpreter state).               *)
EXTENDS PType2Bias, Sequences, TLC, Json, IOUtils
L == INSTANCE Type2
C == INSTANCE CffCodec
VARIABLE i
Rec == ndJsonDeserialize(IOEnv.ARGS)
Report(e, what, want, got) ==
  PrintT(<<"MISMATCH", ToJson([i |-> e.i, plant |-> e.plant, what |-> what, want |-> want, got |-> got])>>)
Eq(e, what, want, got) == IF want = got THEN TRUE ELSE Report(e, what, want, got)
Check(e) ==
  /\ Eq(e, "Bias", L!Bias(IF e.plant = 1 THEN e.cnt + 1 ELSE e.cnt), Bias(e.cnt))
  /\ Eq(e, "IntSize", C!IntSize(e.n), IntSize(e.n))
  /\ Eq(e, "SubrIndex", e.n + L!Bias(e.cnt), SubrIndex(e.n, e.cnt))
  /\ Eq(e, "IndexOk", ~(e.n + L!Bias(e.cnt) < 0 \/ e.n + L!Bias(e.cnt) >= e.cnt), IndexOk(e.n, e.cnt))
MInit == i = 1
MNext == i <= Len(Rec) /\ Check(Rec[i]) /\ i' = i + 1
MSpec == MInit /\ [][MNext]_i
=============================================================================
