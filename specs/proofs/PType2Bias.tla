----------------------------- MODULE PType2Bias -----------------------------
(***************************************************************************)
(* X04 proof module 6b - the subroutine bias of Type 2 charstrings         *)
(* (TN 5177 section 4.7 / TN 5176 section 16) as specified in              *)
(* specs/Type2.tla:  Bias(count)  and its use in Op_call                   *)
(*     idx == v \div ONE + Bias(cnt)      IF idx < 0 \/ idx >= cnt THEN Fail(m, "BadSubrIndex")  *)
(* MC_Type2 runs with a handful of subroutine counts; here: ALL counts.    *)
(***************************************************************************)
EXTENDS Integers
\* ---- quoted from Type2.tla:
\*   Bias(count) == IF count < 1240 THEN 107 ELSE IF count < 33900 THEN 1131 ELSE 32768
Bias(count) == IF count < 1240 THEN 107 ELSE IF count < 33900 THEN 1131 ELSE 32768
\* the index Op_call computes for an integer operand n, and its acceptance
SubrIndex(n, cnt) == n + Bias(cnt)
IndexOk(n, cnt) == ~(SubrIndex(n, cnt) < 0 \/ SubrIndex(n, cnt) >= cnt)
\* size of the shortest charstring encoding of the operand n (CffCodec!IntSize; 3 = the 28 form)
IntSize(v) == IF v >= -107 /\ v <= 107 THEN 1
              ELSE IF (v >= 108 /\ v <= 1131) \/ (v >= -1131 /\ v <= -108) THEN 2
              ELSE IF v >= -32768 /\ v <= 32767 THEN 3 ELSE 5
=============================================================================
