-------------------------- MODULE PWoff2B128_tlaps --------------------------
(* TLAPS theorems over PWoff2B128 - closed formulas over all limbs / bytes, SMT back end.              *)
EXTENDS PWoff2B128, TLAPS

LimbS == 0 .. 65535
ByteS == 0 .. 255

THEOREM PushExact ==
  \A hi \in LimbS, lo \in LimbS, s \in 0 .. 127 :
    LET a2 == B128Push(<<hi, lo>>, s) IN
    /\ hi < 512 => a2[1] \in LimbS /\ a2[2] \in LimbS /\ NatOf(a2) = NatOf(<<hi, lo>>) * 128 + s
    /\ (hi >= 512) = (NatOf(<<hi, lo>>) * 128 + s >= Two32)
  BY SMT DEF B128Push, NatOf, Two32, LimbS

THEOREM SeptetsExact ==
  \A hi \in LimbS, lo \in LimbS :
    LET q == B128Septets(<<hi, lo>>) IN
    /\ q[1] \in 0 .. 15 /\ q[2] \in 0 .. 127 /\ q[3] \in 0 .. 127 /\ q[4] \in 0 .. 127 /\ q[5] \in 0 .. 127
    /\ q[1] * 268435456 + q[2] * 2097152 + q[3] * 16384 + q[4] * 128 + q[5] = NatOf(<<hi, lo>>)
  BY SMT DEF B128Septets, NatOf, LimbS
=============================================================================
