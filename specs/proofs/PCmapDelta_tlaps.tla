-------------------------- MODULE PCmapDelta_tlaps --------------------------
(* TLAPS theorems over PCmapDelta (SMT back end).                                                       *)
EXTENDS PCmapDelta, TLAPS
U16S == 0 .. 65535
I16S == -32768 .. 32767

LEMMA Two32Val == Two32 = 4294967296
  BY SMT DEF Two32

THEOREM DeltaForms ==
  \A c \in U16S, d \in I16S :
    /\ Mod16(c + d) \in U16S
    /\ Mod16(c + d) = WrapAdd16(c, U16OfI16(d))
    /\ Mod16(c + d) = ByCases(c, d)
    /\ U16OfI16(d) \in U16S /\ ToI16(U16OfI16(d)) = d
  BY SMT DEF U16S, I16S, Mod16, WrapAdd16, U16OfI16, ByCases, ToI16

THEOREM DeltaAnd16 ==
  \A c \in U16S, d \in I16S : Mod16(c + d) = And16I32(c + d)
<1> SUFFICES ASSUME NEW c \in U16S, NEW d \in I16S PROVE Mod16(c + d) = And16I32(c + d)
    OBVIOUS
<1> DEFINE x == c + d
<1> DEFINE pat == IF x < 0 THEN x + 4294967296 ELSE x
<1>1. And16I32(x) = pat - (pat \div 65536) * 65536
    BY Two32Val DEF And16I32
<1>2. Mod16(x) = pat - (pat \div 65536) * 65536
    BY SMT DEF Mod16, U16S, I16S
<1> QED BY <1>1, <1>2

THEOREM DeltaInverse ==
  \A c \in U16S, g \in U16S : ToI16(g - c) \in I16S /\ Mod16(c + ToI16(g - c)) = g
  BY SMT DEF U16S, I16S, Mod16, ToI16

THEOREM DeltaUnique ==
  \A c \in U16S, g \in U16S, d \in I16S : (Mod16(c + d) = g) <=> (d = ToI16(g - c))
<1> SUFFICES ASSUME NEW c \in U16S, NEW g \in U16S, NEW d \in I16S
             PROVE (Mod16(c + d) = g) <=> (d = ToI16(g - c))
    OBVIOUS
<1>1. Mod16(c + d) = ByCases(c, d)
    BY DeltaForms
<1>2. ToI16(g - c) = IF g - c >= 32768 THEN g - c - 65536 ELSE IF g - c < -32768 THEN g - c + 65536 ELSE g - c
    BY SMT DEF U16S, ToI16
<1> QED BY <1>1, <1>2, SMT DEF ByCases, U16S, I16S

THEOREM DeltaConsecutive ==
  \A c \in 0 .. 65534, d \in I16S : Mod16((c + 1) + d) = Mod16(Mod16(c + d) + 1)
  BY SMT DEF I16S, Mod16

THEOREM ToI16Any ==
  \A x \in Int : ToI16(x) \in I16S /\ Mod16(ToI16(x)) = Mod16(x) /\ (x \in I16S => ToI16(x) = x)
  BY SMT DEF I16S, Mod16, ToI16
=============================================================================
