-------------------------- MODULE PType2Bias_tlaps --------------------------
(* TLAPS theorems over PType2Bias (SMT back end).                                                       *)
EXTENDS PType2Bias, TLAPS
THEOREM Reach ==
  \A cnt \in 0 .. 65536, i \in Nat, n \in Int :
    i < cnt =>
      /\ i - Bias(cnt) \in -32768 .. 32767 /\ SubrIndex(i - Bias(cnt), cnt) = i /\ IndexOk(i - Bias(cnt), cnt)
      /\ (SubrIndex(n, cnt) = i) <=> (n = i - Bias(cnt))
      /\ (cnt < 1240 => IntSize(i - Bias(cnt)) <= 2)
      /\ (cnt < 33900 => i - Bias(cnt) >= -1131)
  BY SMT DEF Bias, SubrIndex, IndexOk, IntSize
THEOREM IndexRange ==
  \A cnt \in Nat, n \in -32768 .. 32767 :
    /\ SubrIndex(n, cnt) >= -32661 /\ SubrIndex(n, cnt) <= 65535
    /\ IndexOk(n, cnt) <=> (SubrIndex(n, cnt) >= 0 /\ SubrIndex(n, cnt) < cnt)
  BY SMT DEF Bias, SubrIndex, IndexOk
THEOREM BiasShape ==
  \A cnt \in Nat, i \in Nat :
    /\ Bias(cnt) \in {107, 1131, 32768} /\ Bias(cnt) <= Bias(cnt + i)
    /\ (Bias(cnt) = 107) <=> (cnt <= 1239)
    /\ (Bias(cnt) = 32768) <=> (cnt >= 33900)
  BY SMT DEF Bias
=============================================================================
