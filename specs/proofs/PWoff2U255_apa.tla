--------------------------- MODULE PWoff2U255_apa ---------------------------
(* Apalache obligations over PWoff2U255 (Init => Inv, unbounded SMT integers in the stated ranges).   *)
EXTENDS PWoff2U255

VARIABLES
  \* @type: Int;
  v,
  \* @type: Int;
  n,
  \* @type: Int;
  c,
  \* @type: Int;
  x,
  \* @type: Int;
  y,
  \* @type: Int;
  g1,
  \* @type: Int;
  g2
\* @type: <<Int, Int, Int, Int, Int, Int, Int>>;
vars == <<v, n, c, x, y, g1, g2>>

Init ==
  /\ v \in Int /\ n \in Int /\ c \in Int /\ x \in Int /\ y \in Int /\ g1 \in Int /\ g2 \in Int
  /\ v >= 0 /\ v <= 65535 /\ n >= 0 /\ Byte(c) /\ Byte(x) /\ Byte(y) /\ Byte(g1) /\ Byte(g2)
Next == UNCHANGED vars

\* U1: every form allowed for v (for ALL v in 0 .. 65535) is a string of 1..3 bytes that decodes to v and is
\*     consumed entirely, whatever bytes follow it (g1, g2); with fewer bytes than its length it is refused;
\*     the word form is always allowed
RoundTrip ==
  /\ "c253" \in Forms255(v)
  /\ \A f \in AllForms : f \in Forms255(v) =>
       LET e == Enc255Form(v, f)
           b2 == IF e[1] >= 2 THEN e[3] ELSE g1
           b3 == IF e[1] >= 3 THEN e[4] ELSE g2
       IN /\ e[1] >= 1 /\ e[1] <= 3 /\ Byte(e[2]) /\ Byte(e[3]) /\ Byte(e[4])
          /\ n >= e[1] => Dec255(n, e[2], b2, b3) = [ok |-> TRUE, v |-> v, used |-> e[1]]
          /\ n < e[1] => ~Dec255(n, e[2], b2, b3).ok
\* U2: the decoder on ALL strings: a success returns a value in 0 .. 65535, uses 1..3 of the n bytes, and the bytes
\*     it used are one of the allowed forms of that value (nothing else decodes to it)
DecodeExact ==
  LET r == Dec255(n, c, x, y) IN
  /\ r.ok => /\ r.v >= 0 /\ r.v <= 65535 /\ r.used >= 1 /\ r.used <= 3 /\ r.used <= n
             /\ \E f \in AllForms : /\ f \in Forms255(r.v)
                                    /\ LET e == Enc255Form(r.v, f) IN
                                       /\ e[1] = r.used /\ e[2] = c
                                       /\ (r.used >= 2 => e[3] = x) /\ (r.used >= 3 => e[4] = y)
  /\ ~r.ok => r = U255Fail /\ (n = 0 \/ (c = 253 /\ n < 3) \/ (c \in {254, 255} /\ n < 2))
\* U3: the number of forms: values 506 .. 508 have three, 253 .. 505 and 509 .. 761 two, 0 .. 252 two, the rest one
FormCount ==
  /\ (v < 253 => Forms255(v) = {"one", "c253"})
  /\ (v >= 253 /\ v < 506 => Forms255(v) = {"c255", "c253"})
  /\ (v >= 506 /\ v < 509 => Forms255(v) = {"c255", "c254", "c253"})
  /\ (v >= 509 /\ v < 762 => Forms255(v) = {"c254", "c253"})
  /\ (v >= 762 => Forms255(v) = {"c253"})
\* planted FALSE lemma: the decoder never returns 65535
PlantedFalse == Dec255(n, c, x, y).ok => Dec255(n, c, x, y).v <= 65534
=============================================================================
