--------------------------- MODULE Mirror_Woff2B128 ---------------------------
(* X04 mirror check 2 (TLC): PWoff2B128 next to the library module Woff2.tla on sampled arguments      *)
(* (IOEnv.ARGS, ndjson): U32Of, NatOf, B128Push, B128Septets, DecB128 vs DecB128At on real byte         *)
(* sequences at an offset, EncCases / EncLen / EncByte vs EncB128, and the library's own B128RoundTrip. *)
(* A record with plant = 1 is compared with one byte less available and MUST be reported.               *)
EXTENDS PWoff2B128, Sequences, TLC, Json, IOUtils
L == INSTANCE Woff2
VARIABLE i
Rec == ndJsonDeserialize(IOEnv.ARGS)
Report(e, what, want, got) ==
  PrintT(<<"MISMATCH", ToJson([i |-> e.i, plant |-> e.plant, what |-> what, want |-> want, got |-> got])>>)
Eq(e, what, want, got) == IF want = got THEN TRUE ELSE Report(e, what, want, got)
Min2(a, b) == IF a <= b THEN a ELSE b

Check(e) ==
  LET v == <<e.hi, e.lo>>  b == e.b                         \* b: 7 bytes
      str == e.pad \o SubSeq(b, 1, Min2(e.n, 7))            \* the n bytes that exist, after some padding
      q == B128Septets(v)  enc == EncCases(q)
      lenc == L!EncB128(v)
  IN
  /\ Eq(e, "U32Of", L!U32Of(e.x), U32Of(e.x))
  /\ e.hi < 32768 => Eq(e, "NatOf", L!NatOf(v), NatOf(v))
  /\ e.hi < 512 => Eq(e, "B128Push", L!B128Push(v, e.s), B128Push(v, e.s))
  /\ Eq(e, "B128Fail", L!B128Fail, B128Fail)
  /\ Eq(e, "B128Septets", L!B128Septets(v), q)
  /\ Eq(e, "DecB128", L!DecB128At(str, Len(e.pad)), DecB128(IF e.plant = 1 THEN e.n - 1 ELSE e.n, b[1], b[2], b[3], b[4], b[5]))
  /\ Eq(e, "EncLen", Len(lenc), EncLen(v))
  /\ Eq(e, "EncCases.len", Len(lenc), enc[1])
  /\ Eq(e, "EncCases.bytes", lenc, SubSeq(<<enc[2], enc[3], enc[4], enc[5], enc[6]>>, 1, enc[1]))
  /\ \A k \in 1 .. 5 : Eq(e, "EncByte", IF k <= Len(lenc) THEN lenc[k] ELSE 0, EncByte(v, k))
  /\ Eq(e, "StripLen", Len(L!StripZeros(q)), StripLen(q))
  /\ Eq(e, "B128RoundTrip", L!B128RoundTrip(v), TRUE)
  /\ Eq(e, "DecB128.enc", L!DecB128At(lenc \o e.pad, 0), DecB128(enc[1] + Len(e.pad), enc[2], enc[3], enc[4], enc[5], enc[6]))

MInit == i = 1
MNext == i <= Len(Rec) /\ Check(Rec[i]) /\ i' = i + 1
MSpec == MInit /\ [][MNext]_i
=============================================================================
