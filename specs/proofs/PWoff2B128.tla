----------------------------- MODULE PWoff2B128 -----------------------------
(***************************************************************************)
(* X04 proof module 2 - WOFF2 UIntBase128 (section 6.1.1) as specified in  *)
(* specs/Woff2.tla: U32Of, NatOf, B128Push, B128Fail, B128Step / DecB128At,*)
(* B128Septets, StripZeros / EncB128.                                      *)
(*                                                                         *)
(* The non-recursive operators are restated with the library's text.  The  *)
(* recursive ones are unrolled to the depth the format allows (a           *)
(* UIntBase128 has at most 5 bytes): a byte string is the five integers    *)
(* b1..b5 plus the number n of bytes that exist (Has(s, at + i, 1) of the  *)
(* library is  i < n).  MC_Woff2 checks B128RoundTrip on a few hundred     *)
(* values; here the lemmas are proved for ALL 2^32 values and ALL byte     *)
(* strings.                                                                *)
(***************************************************************************)
EXTENDS Integers

\* ---- quoted from Woff2.tla -------------------------------------------------
\*   U32Of(n) == <<n \div 65536, n % 65536>>                \* 0 <= n < 2^31
\*   NatOf(v) == v[1] * 65536 + v[2]                        \* only for v[1] < 32768
\*   B128Push(acc, septet) ==
\*     <<((acc[1] * 128) % 65536) + ((acc[2] * 128) \div 65536), ((acc[2] * 128) % 65536) + septet>>
\*   B128Fail == [ok |-> FALSE, hi |-> 0, lo |-> 0, used |-> 0]
\* @type: Int => <<Int, Int>>;
U32Of(n) == <<n \div 65536, n % 65536>>
\* @type: <<Int, Int>> => Int;
NatOf(v) == v[1] * 65536 + v[2]
\* @type: (<<Int, Int>>, Int) => <<Int, Int>>;
B128Push(acc, septet) ==
  <<((acc[1] * 128) % 65536) + ((acc[2] * 128) \div 65536), ((acc[2] * 128) % 65536) + septet>>
\* @type: { ok: Bool, hi: Int, lo: Int, used: Int };
B128Fail == [ok |-> FALSE, hi |-> 0, lo |-> 0, used |-> 0]

\*   RECURSIVE B128Step(_, _, _, _)
\*   B128Step(s, at, i, acc) ==
\*     IF i = 5 \/ ~Has(s, at + i, 1) THEN B128Fail
\*     ELSE LET b == s[at + i + 1] IN
\*          IF i = 0 /\ b = 128 THEN B128Fail
\*          ELSE IF acc[1] >= 512 THEN B128Fail              \* acc & 0xFE000000 # 0
\*          ELSE LET a2 == B128Push(acc, b % 128) IN
\*               IF b < 128 THEN [ok |-> TRUE, hi |-> a2[1], lo |-> a2[2], used |-> i + 1]
\*               ELSE B128Step(s, at, i + 1, a2)
\*   DecB128At(s, at) == B128Step(s, at, 0, <<0, 0>>)
\* Unrolled: StepI(i, n, b, acc, rest) is the body of B128Step at index i < 5 on byte b, `rest` being
\* the value of the recursive call B128Step(s, at, i + 1, a2).
\* @type: (Int, Int, Int, <<Int, Int>>, <<Int, Int>> => { ok: Bool, hi: Int, lo: Int, used: Int }) => { ok: Bool, hi: Int, lo: Int, used: Int };
StepI(i, n, b, acc, Rest(_)) ==
  IF i = 5 \/ ~(i < n) THEN B128Fail
  ELSE IF i = 0 /\ b = 128 THEN B128Fail
       ELSE IF acc[1] >= 512 THEN B128Fail
       ELSE LET a2 == B128Push(acc, b % 128) IN
            IF b < 128 THEN [ok |-> TRUE, hi |-> a2[1], lo |-> a2[2], used |-> i + 1]
            ELSE Rest(a2)
\* @type: (Int, Int, Int, Int, Int, Int) => { ok: Bool, hi: Int, lo: Int, used: Int };
DecB128(n, b1, b2, b3, b4, b5) ==
  LET S5(acc) == B128Fail                                   \* i = 5
      S4(acc) == StepI(4, n, b5, acc, S5)
      S3(acc) == StepI(3, n, b4, acc, S4)
      S2(acc) == StepI(2, n, b3, acc, S3)
      S1(acc) == StepI(1, n, b2, acc, S2)
  IN StepI(0, n, b1, <<0, 0>>, S1)

\*   B128Septets(v) == <<v[1] \div 4096, (v[1] \div 32) % 128, (v[1] % 32) * 4 + v[2] \div 16384,
\*                       (v[2] \div 128) % 128, v[2] % 128>>
\* @type: <<Int, Int>> => <<Int, Int, Int, Int, Int>>;
B128Septets(v) == <<v[1] \div 4096, (v[1] \div 32) % 128, (v[1] % 32) * 4 + v[2] \div 16384,
                    (v[2] \div 128) % 128, v[2] % 128>>

\*   StripZeros(s) == IF Len(s) > 1 /\ s[1] = 0 THEN StripZeros(Tail(s)) ELSE s
\*   EncB128(v) == LET q == StripZeros(B128Septets(v)) IN
\*                 [k \in 1 .. Len(q) |-> IF k < Len(q) THEN q[k] + 128 ELSE q[k]]
\* Unrolled: the length left by StripZeros, and byte k of the encoding of length len (0 beyond the end).
\* @type: <<Int, Int, Int, Int, Int>> => Int;
StripLen(q) == IF q[1] # 0 THEN 5 ELSE IF q[2] # 0 THEN 4 ELSE IF q[3] # 0 THEN 3 ELSE IF q[4] # 0 THEN 2 ELSE 1
\* @type: (<<Int, Int, Int, Int, Int>>, Int) => Int;
Sept(q, j) == CASE j = 1 -> q[1] [] j = 2 -> q[2] [] j = 3 -> q[3] [] j = 4 -> q[4] [] OTHER -> q[5]
\* @type: (<<Int, Int>>, Int) => Int;
EncByte(v, k) ==
  LET q == B128Septets(v)  len == StripLen(q) IN
  IF k > len THEN 0 ELSE Sept(q, 5 - len + k) + (IF k < len THEN 128 ELSE 0)
\* @type: <<Int, Int>> => Int;
EncLen(v) == StripLen(B128Septets(v))

\* StripZeros and the continuation bits by cases: <<length, byte 1, .., byte 5>> (0 beyond the length)
\* @type: <<Int, Int, Int, Int, Int>> => <<Int, Int, Int, Int, Int, Int>>;
EncCases(q) ==
  IF q[1] # 0 THEN <<5, q[1] + 128, q[2] + 128, q[3] + 128, q[4] + 128, q[5]>>
  ELSE IF q[2] # 0 THEN <<4, q[2] + 128, q[3] + 128, q[4] + 128, q[5], 0>>
  ELSE IF q[3] # 0 THEN <<3, q[3] + 128, q[4] + 128, q[5], 0, 0>>
  ELSE IF q[4] # 0 THEN <<2, q[4] + 128, q[5], 0, 0, 0>>
  ELSE <<1, q[5], 0, 0, 0, 0>>

\* ---- the mathematics the lemmas compare with
\* index of the first byte without the continuation bit among b1..b5 (6: none)
Term(b1, b2, b3, b4, b5) ==
  IF b1 < 128 THEN 1 ELSE IF b2 < 128 THEN 2 ELSE IF b3 < 128 THEN 3 ELSE IF b4 < 128 THEN 4 ELSE IF b5 < 128 THEN 5 ELSE 6
\* the base-128 number written by the first t bytes
MathVal(t, b1, b2, b3, b4, b5) ==
  CASE t = 1 -> b1 % 128
    [] t = 2 -> (b1 % 128) * 128 + (b2 % 128)
    [] t = 3 -> (b1 % 128) * 16384 + (b2 % 128) * 128 + (b3 % 128)
    [] t = 4 -> (b1 % 128) * 2097152 + (b2 % 128) * 16384 + (b3 % 128) * 128 + (b4 % 128)
    [] OTHER -> (b1 % 128) * 268435456 + (b2 % 128) * 2097152 + (b3 % 128) * 16384 + (b4 % 128) * 128 + (b5 % 128)
\* @type: (Int, Int) => <<Int, Int>>;
Pair(a, b) == <<a, b>>
Two32 == 65536 * 65536            \* 4294967296 (TLC cannot read a literal this big)
Byte(b) == b >= 0 /\ b <= 255
Limb(x) == x >= 0 /\ x <= 65535
=============================================================================
