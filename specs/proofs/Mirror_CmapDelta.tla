--------------------------- MODULE Mirror_CmapDelta ---------------------------
(* X04 mirror check 5 (TLC): PCmapDelta next to Cmap.tla (Mod16, Seg4Glyph with idRangeOffset 0, Map4 on a   *)
(* one-segment table) and CmapSubset.tla (ToI16).                                                           *)
EXTENDS PCmapDelta, Sequences, TLC, Json, IOUtils
L == INSTANCE Cmap
S == INSTANCE CmapSubset WITH FixFmt0 <- FALSE, FixSymInv <- FALSE
VARIABLE i
Rec == ndJsonDeserialize(IOEnv.ARGS)
Report(e, what, want, got) ==
  PrintT(<<"MISMATCH", ToJson([i |-> e.i, plant |-> e.plant, what |-> what, want |-> want, got |-> got])>>)
Eq(e, what, want, got) == IF want = got THEN TRUE ELSE Report(e, what, want, got)
Check(e) ==
  LET t == [fmt |-> 4, segs |-> <<[s |-> e.c, e |-> e.c, delta |-> e.d, ro |-> 0],
                                  [s |-> 65535, e |-> 65535, delta |-> 1, ro |-> 0]>>, gia |-> <<>>] IN
  /\ Eq(e, "Mod16", L!Mod16(e.x), Mod16(e.x))
  /\ Eq(e, "ToI16", S!ToI16(e.x), ToI16(e.x))
  /\ Eq(e, "Seg4Glyph", L!Seg4Glyph(t, 1, e.c), Mod16(e.c + (IF e.plant = 1 THEN e.d + 1 ELSE e.d)))
  /\ e.c < 65535 => Eq(e, "Map4", L!Map4(t, e.c), ByCases(e.c, e.d))
  /\ Eq(e, "WrapAdd16", L!Mod16(e.c + e.d), WrapAdd16(e.c, U16OfI16(e.d)))
  /\ Eq(e, "delta.written", L!Mod16(e.c + S!ToI16(e.g - (e.c % 65536))), e.g)
MInit == i = 1
MNext == i <= Len(Rec) /\ Check(Rec[i]) /\ i' = i + 1
MSpec == MInit /\ [][MNext]_i
=============================================================================
