----------------------- MODULE PBinaryReader_planted -----------------------
(* A FALSE statement: OffLenOkInside without the "n = 0" escape (offset_length(k > len, 0) is Ok).  *)
(* The driver requires tlapm to FAIL on this module (the prover does not accept everything).        *)
EXTENDS PBinaryReader, TLAPS
ASSUME HugeNat == HUGE \in Nat /\ HUGE >= 1
THEOREM PlantedFalse ==
  \A len, k, n \in Nat : (len < HUGE /\ OffLenResult(len, k, n) = "Ok") => k + n <= len
  BY HugeNat, SMT DEF OffLenResult, IsHuge
=============================================================================
