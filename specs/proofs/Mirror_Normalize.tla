--------------------------- MODULE Mirror_Normalize ---------------------------
(* X04 mirror check 8 (TLC): PNormalize next to Normalize.tla / Fix.tla: TruncDiv, Pow2, Clamp, FixOne, FixDivFB, *)
(* ValidAxis, RefDefault at every FB of the library's Pow2 (the library's plain-integer procedure overflows    *)
(* TLC's 32 bits for wide axes: the samples keep |value - default| * 2^FB below 2^31).                        *)
EXTENDS PNormalize, Sequences, TLC, Json, IOUtils
L == INSTANCE Normalize
VARIABLE i
Rec == ndJsonDeserialize(IOEnv.ARGS)
Report(e, what, want, got) ==
  PrintT(<<"MISMATCH", ToJson([i |-> e.i, plant |-> e.plant, what |-> what, want |-> want, got |-> got])>>)
Eq(e, what, want, got) == IF want = got THEN TRUE ELSE Report(e, what, want, got)
Check(e) ==
  LET ax == <<e.mn, e.df, e.mx>> IN
  /\ Eq(e, "TruncDiv", L!TruncDiv(e.a, e.b), TruncDiv(e.a, e.b))
  /\ Eq(e, "Pow2", L!Pow2(e.fb), Pow2(e.fb))
  /\ Eq(e, "FixOne", L!FixOne(e.fb), FixOne(e.fb))
  /\ Eq(e, "Clamp", L!Clamp(e.a, e.mn, e.mx), Clamp(e.a, e.mn, e.mx))
  /\ Eq(e, "ValidAxis", L!ValidAxis(ax), ValidAxis(ax))
  /\ Eq(e, "FixDivFB", L!FixDivFB(e.fb, e.sa, e.sb), FixDivFB(e.fb, e.sa, e.sb))
  /\ Eq(e, "RefDefault", L!RefDefault(e.fb, ax, IF e.plant = 1 THEN e.v + 1 ELSE e.v), RefDefault(e.fb, ax, e.v))
  /\ Eq(e, "RefRaw.clamped", L!RefDefault(e.fb, ax, e.v), Clamp(RefRaw(e.fb, ax, e.v), -FixOne(e.fb), FixOne(e.fb)))
MInit == i = 1
MNext == i <= Len(Rec) /\ Check(Rec[i]) /\ i' = i + 1
MSpec == MInit /\ [][MNext]_i
=============================================================================
