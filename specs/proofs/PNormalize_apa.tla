--------------------------- MODULE PNormalize_apa ---------------------------
(* Apalache obligations over PNormalize at FB = 16 (Init => Inv; ALL 32-bit axes and values).           *)
EXTENDS PNormalize
VARIABLES
  \* @type: Int;
  mn,
  \* @type: Int;
  df,
  \* @type: Int;
  mx,
  \* @type: Int;
  v,
  \* @type: Int;
  w
\* @type: <<Int, Int, Int, Int, Int>>;
vars == <<mn, df, mx, v, w>>
Init ==
  /\ mn \in Int /\ df \in Int /\ mx \in Int /\ v \in Int /\ w \in Int
  /\ IsI32(mn) /\ IsI32(df) /\ IsI32(mx) /\ IsI32(v) /\ IsI32(w)
  /\ ValidAxis(Axis(mn, df, mx))
Next == UNCHANGED vars
One == 65536
N(x) == RefDefault(16, Axis(mn, df, mx), x)
\* N1: the result lies in [-1, 1] (the final clamp) - and already did before the clamp: for a valid axis the
\*     quotient itself is within [-1, 1], the clamp is the identity
Range ==
  /\ N(v) >= -One /\ N(v) <= One
  /\ RefRaw(16, Axis(mn, df, mx), v) = N(v)
\* N2: exact end points and sign: default -> 0, at or below min (< default) -> -1, at or above max (> default) -> +1,
\*     strictly between -> strictly inside or 0 on the side of the value
Endpoints ==
  /\ (v = df => N(v) = 0)
  /\ (v <= mn /\ mn < df => N(v) = -One)
  /\ (v >= mx /\ mx > df => N(v) = One)
  /\ (v < df => N(v) <= 0) /\ (v > df => N(v) >= 0)
  /\ (mn < v /\ v < df => N(v) > -One) /\ (df < v /\ v < mx => N(v) < One)
\* N3: monotone (non-decreasing) in the user value
Monotone == v <= w => N(v) <= N(w)
\* planted FALSE lemma: strictly monotone inside the axis range
PlantedFalse == (mn <= v /\ v < w /\ w <= mx) => N(v) < N(w)
=============================================================================
