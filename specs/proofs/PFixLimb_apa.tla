---------------------------- MODULE PFixLimb_apa ----------------------------
(* Apalache obligations over PFixLimb (Init => Inv, unbounded SMT integers in the stated ranges).       *)
EXTENDS PFixLimb
VARIABLES
  \* @type: Int;
  a1,
  \* @type: Int;
  a2,
  \* @type: Int;
  a3,
  \* @type: Int;
  b1,
  \* @type: Int;
  b2,
  \* @type: Int;
  b3,
  \* @type: Int;
  c,
  \* @type: Int;
  col,
  \* @type: Int;
  p11,
  \* @type: Int;
  p12,
  \* @type: Int;
  p21,
  \* @type: Int;
  p22
\* @type: <<Int, Int, Int, Int, Int, Int, Int, Int, Int, Int, Int, Int>>;
vars == <<a1, a2, a3, b1, b2, b3, c, col, p11, p12, p21, p22>>
Init ==
  /\ a1 \in Int /\ a2 \in Int /\ a3 \in Int /\ b1 \in Int /\ b2 \in Int /\ b3 \in Int /\ c \in Int /\ col \in Int
  /\ p11 \in Int /\ p12 \in Int /\ p21 \in Int /\ p22 \in Int
  /\ IsLimb(a1) /\ IsLimb(a2) /\ IsLimb(a3) /\ IsLimb(b1) /\ IsLimb(b2) /\ IsLimb(b3)
  /\ c >= 0 /\ col >= 0
  /\ p11 >= 0 /\ p11 <= MaxProd /\ p12 >= 0 /\ p12 <= MaxProd /\ p21 >= 0 /\ p21 <= MaxProd /\ p22 >= 0 /\ p22 <= MaxProd
Next == UNCHANGED vars

\* F1: one position of AddAt / SubAt is exact and carry / borrow stay in {0, 1} (the inductive carry bound)
AddSubStep ==
  c <= 1 =>
    /\ LET t == AddStep(a1, b1, c) IN IsLimb(t[1]) /\ t[2] \in {0, 1} /\ t[1] + B * t[2] = a1 + b1 + c
    /\ LET t == SubStep(a1, b1, c) IN IsLimb(t[1]) /\ t[2] \in {0, 1} /\ t[1] - B * t[2] = a1 - b1 - c
\* F2: one column of MulAt: for a column of at most 7 limb products and a carry within the inductive bound, the sum
\*     stays a TLC integer (< 2^31), digit + B * carry is the sum, and the carry out is within the bound again
MulStepBound ==
  (col <= MaxCols * MaxProd /\ c <= CarryMax) =>
    LET t == MulStep(col, c) IN
    /\ col + c <= TlcMax /\ MaxProd < 268435456
    /\ IsLimb(t[1]) /\ t[2] >= 0 /\ t[2] <= CarryMax /\ t[1] + B * t[2] = col + c
\* F3: 3-limb sum and difference (values below 2^42) are exact
AddSub3 ==
  /\ LET r == Add3(a1, a2, a3, b1, b2, b3) IN
     /\ IsLimb(r[1]) /\ IsLimb(r[2]) /\ IsLimb(r[3]) /\ r[4] \in {0, 1}
     /\ Val4(r) = Val3(a1, a2, a3) + Val3(b1, b2, b3)
  /\ Val3(a1, a2, a3) >= Val3(b1, b2, b3) =>
       LET r == Sub3(a1, a2, a3, b1, b2, b3) IN
       /\ IsLimb(r[1]) /\ IsLimb(r[2]) /\ IsLimb(r[3]) /\ r[4] = 0
       /\ Val3(r[1], r[2], r[3]) = Val3(a1, a2, a3) - Val3(b1, b2, b3)
  /\ (Val3(a1, a2, a3) < Val3(b1, b2, b3)) = (Sub3(a1, a2, a3, b1, b2, b3)[4] = 1)
\* F4: the 2 x 2 product on GIVEN partial products p_ij (any numbers up to (B-1)^2): limbs in range, the last carry is
\*     one limb, and the value is p11 + B (p12 + p21) + B^2 p22 - the carry propagation is exact (linear)
Mul3ColsExact ==
  LET r == Mul3Cols(p11, p12 + p21, p22) IN
  /\ IsLimb(r[1]) /\ IsLimb(r[2]) /\ IsLimb(r[3]) /\ IsLimb(r[4])
  /\ Val4(r) = p11 + B * (p12 + p21) + B * B * p22
\* F5 (nonlinear): with the partial products themselves, MulAt on two 2-limb magnitudes is the product of the values
Mul2x2Exact ==
  LET r == Mul2x2(a1, a2, b1, b2) IN
  /\ IsLimb(r[1]) /\ IsLimb(r[2]) /\ IsLimb(r[3]) /\ IsLimb(r[4])
  /\ Val4(r) = Val2(a1, a2) * Val2(b1, b2)
\* F5': only the nonlinear ingredient of F5: limb products are within MaxProd and the product of the values is the
\*      polynomial in them (F4 + F5' give F5)
ProductPolynomial ==
  /\ a1 * b1 >= 0 /\ a1 * b1 <= MaxProd
  /\ Val2(a1, a2) * Val2(b1, b2) = a1 * b1 + B * (a1 * b2 + a2 * b1) + B * B * (a2 * b2)
\* planted FALSE lemma: nine products per column still fit (eight would: 8 * MaxProd + CarryMax = 2147336200)
PlantedFalse == (col <= 9 * MaxProd /\ c <= CarryMax) => col + c <= TlcMax
=============================================================================
