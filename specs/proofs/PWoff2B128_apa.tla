--------------------------- MODULE PWoff2B128_apa ---------------------------
(* Apalache obligations over PWoff2B128: every lemma is Init => Inv over unbounded SMT integers       *)
(* constrained to the stated ranges (all 2^32 values, all strings of <= 5 bytes out of n present).    *)
EXTENDS PWoff2B128

VARIABLES
  \* @type: Int;
  hi,
  \* @type: Int;
  lo,
  \* @type: Int;
  s,
  \* @type: Int;
  n,
  \* @type: Int;
  b1,
  \* @type: Int;
  b2,
  \* @type: Int;
  b3,
  \* @type: Int;
  b4,
  \* @type: Int;
  b5,
  \* @type: Int;
  m,
  \* @type: Int;
  c1,
  \* @type: Int;
  c2,
  \* @type: Int;
  c3,
  \* @type: Int;
  c4,
  \* @type: Int;
  c5,
  \* @type: Int;
  q1,
  \* @type: Int;
  q2,
  \* @type: Int;
  q3,
  \* @type: Int;
  q4,
  \* @type: Int;
  q5

\* @type: <<Int, Int, Int, Int, Int, Int, Int, Int, Int, Int, Int, Int, Int, Int, Int, Int, Int, Int, Int, Int>>;
vars == <<hi, lo, s, n, b1, b2, b3, b4, b5, m, c1, c2, c3, c4, c5, q1, q2, q3, q4, q5>>

Init ==
  /\ hi \in Int /\ lo \in Int /\ s \in Int /\ n \in Int /\ m \in Int
  /\ b1 \in Int /\ b2 \in Int /\ b3 \in Int /\ b4 \in Int /\ b5 \in Int
  /\ c1 \in Int /\ c2 \in Int /\ c3 \in Int /\ c4 \in Int /\ c5 \in Int
  /\ Limb(hi) /\ Limb(lo) /\ s >= 0 /\ s <= 127 /\ n >= 0 /\ m >= 0
  /\ Byte(b1) /\ Byte(b2) /\ Byte(b3) /\ Byte(b4) /\ Byte(b5)
  /\ Byte(c1) /\ Byte(c2) /\ Byte(c3) /\ Byte(c4) /\ Byte(c5)
  /\ q1 \in Int /\ q2 \in Int /\ q3 \in Int /\ q4 \in Int /\ q5 \in Int
\* ANY five septets (4 + 7 + 7 + 7 + 7 bits) and the limbs of the number they write
SeptetTie ==
  /\ q1 >= 0 /\ q1 <= 15 /\ q2 >= 0 /\ q2 <= 127 /\ q3 >= 0 /\ q3 <= 127 /\ q4 >= 0 /\ q4 <= 127 /\ q5 >= 0 /\ q5 <= 127
  /\ q1 * 268435456 + q2 * 2097152 + q3 * 16384 + q4 * 128 + q5 = hi * 65536 + lo
InitQ == Init /\ SeptetTie
\* the septets ARE those of the library's encoder; SeptetTie is then redundant (it is lemma SeptetsExact, proved from
\* Init alone) and only spares the solver the reasoning about \div and %: InitEnc and Init /\ (q = B128Septets(..))
\* have the same states
InitEnc ==
  /\ Init
  /\ LET q == B128Septets(Pair(hi, lo)) IN q1 = q[1] /\ q2 = q[2] /\ q3 = q[3] /\ q4 = q[4] /\ q5 = q[5]
  /\ SeptetTie
Next == UNCHANGED vars

\* B1: B128Push is acc * 128 + septet on limb pairs whenever the library lets it run (acc[1] < 512, i.e.
\*     acc < 2^25), and the guard acc[1] >= 512 is exactly "acc * 128 + septet does not fit 32 bits"
PushExact ==
  LET a2 == B128Push(Pair(hi, lo), s) IN
  /\ hi < 512 => Limb(a2[1]) /\ Limb(a2[2]) /\ NatOf(a2) = NatOf(Pair(hi, lo)) * 128 + s
  /\ (hi >= 512) = (NatOf(Pair(hi, lo)) * 128 + s >= Two32)
\* B2: the five septets are the base-128 digits of the value (4 + 7 + 7 + 7 + 7 bits)
SeptetsExact ==
  LET q == B128Septets(Pair(hi, lo)) IN
  /\ q[1] >= 0 /\ q[1] <= 15
  /\ q[2] >= 0 /\ q[2] <= 127 /\ q[3] >= 0 /\ q[3] <= 127 /\ q[4] >= 0 /\ q[4] <= 127 /\ q[5] >= 0 /\ q[5] <= 127
  /\ q[1] * 268435456 + q[2] * 2097152 + q[3] * 16384 + q[4] * 128 + q[5] = NatOf(Pair(hi, lo))
\* B3: Decode(Encode(v)) = v for ALL v < 2^32, whatever bytes follow the encoding (b1..b5 are garbage here:
\*     position k holds the encoding's byte k up to its length and garbage after it); the encoding has 1..5
\*     bytes, no leading 0x80, is minimal (a shorter string cannot hold v) and all of it is consumed
RoundTrip ==
  LET v == Pair(hi, lo)  len == EncLen(v)
      E(k, g) == IF k <= len THEN EncByte(v, k) ELSE g
  IN
  /\ len >= 1 /\ len <= 5 /\ EncByte(v, 1) # 128
  /\ Byte(EncByte(v, 1)) /\ Byte(EncByte(v, 2)) /\ Byte(EncByte(v, 3)) /\ Byte(EncByte(v, 4)) /\ Byte(EncByte(v, 5))
  /\ n >= len => DecB128(n, E(1, b1), E(2, b2), E(3, b3), E(4, b4), E(5, b5))
                   = [ok |-> TRUE, hi |-> hi, lo |-> lo, used |-> len]
  /\ n < len => ~DecB128(n, E(1, b1), E(2, b2), E(3, b3), E(4, b4), E(5, b5)).ok
  /\ (len = 1 \/ NatOf(v) >= (IF len = 2 THEN 128 ELSE IF len = 3 THEN 16384 ELSE IF len = 4 THEN 2097152 ELSE 268435456))
\* B4: the decoder on ALL byte strings: it accepts iff the first byte is not 0x80, a byte without the
\*     continuation bit occurs among the first min(n, 5) bytes and the base-128 number up to it is < 2^32;
\*     then it returns that number (as limbs) and the number of bytes up to the terminator
DecodeExact ==
  LET r == DecB128(n, b1, b2, b3, b4, b5)
      t == Term(b1, b2, b3, b4, b5)
      good == b1 # 128 /\ t <= 5 /\ t <= n /\ MathVal(t, b1, b2, b3, b4, b5) < Two32
  IN
  /\ r.ok = good
  /\ good => r.used = t /\ Limb(r.hi) /\ Limb(r.lo) /\ r.hi * 65536 + r.lo = MathVal(t, b1, b2, b3, b4, b5)
  /\ ~good => r = B128Fail
\* B5: the accepted strings are canonical: two accepted strings (of n resp. m existing bytes) with the same value have
\*     the same length and the same bytes up to it - the leading-0x80 rule is all it takes, a later 0x80 is a zero
\*     digit in the middle
Injective ==
  LET r == DecB128(n, b1, b2, b3, b4, b5)  q == DecB128(m, c1, c2, c3, c4, c5) IN
  (r.ok /\ q.ok /\ r.hi = q.hi /\ r.lo = q.lo) =>
     /\ r.used = q.used
     /\ b1 = c1
     /\ (r.used >= 2 => b2 = c2) /\ (r.used >= 3 => b3 = c3) /\ (r.used >= 4 => b4 = c4) /\ (r.used >= 5 => b5 = c5)
\* planted FALSE lemma: an accepted string has at most 4 bytes
PlantedFalse == DecB128(n, b1, b2, b3, b4, b5).ok => DecB128(n, b1, b2, b3, b4, b5).used <= 4
\* B3 on septets: the string written from ANY five septets by EncB128's rule (strip leading zero septets, set the
\* continuation bit on all but the last) decodes to the number the septets write, whatever follows it
\* @type: (<<Int, Int, Int, Int, Int>>, Int) => Int;
EncByteQ(q, k) ==
  LET len == StripLen(q) IN IF k > len THEN 0 ELSE Sept(q, 5 - len + k) + (IF k < len THEN 128 ELSE 0)
\* @type: (Int, Int, Int, Int, Int) => <<Int, Int, Int, Int, Int>>;
Q5(a, b, c, d, e) == <<a, b, c, d, e>>
RoundTripQ ==
  LET q == Q5(q1, q2, q3, q4, q5)  len == StripLen(q)
      E(k, g) == IF k <= len THEN EncByteQ(q, k) ELSE g
  IN
  /\ len >= 1 /\ len <= 5 /\ EncByteQ(q, 1) # 128
  /\ Byte(EncByteQ(q, 1)) /\ Byte(EncByteQ(q, 2)) /\ Byte(EncByteQ(q, 3)) /\ Byte(EncByteQ(q, 4)) /\ Byte(EncByteQ(q, 5))
  /\ n >= len => DecB128(n, E(1, b1), E(2, b2), E(3, b3), E(4, b4), E(5, b5))
                   = [ok |-> TRUE, hi |-> hi, lo |-> lo, used |-> len]
  /\ n < len => ~DecB128(n, E(1, b1), E(2, b2), E(3, b3), E(4, b4), E(5, b5)).ok
  /\ (len = 1 \/ hi * 65536 + lo >= (IF len = 2 THEN 128 ELSE IF len = 3 THEN 16384 ELSE IF len = 4 THEN 2097152 ELSE 268435456))
\* the same, one length at a time, the bytes written out
\* @type: ({ ok: Bool, hi: Int, lo: Int, used: Int }, Int, Int, Int) => Bool;
OkIs(r, h, l, u) == r.ok /\ r.hi = h /\ r.lo = l /\ r.used = u
RT5 == (q1 # 0 /\ n >= 5) => OkIs(DecB128(n, q1 + 128, q2 + 128, q3 + 128, q4 + 128, q5), hi, lo, 5)
RT4 == (q1 = 0 /\ q2 # 0 /\ n >= 4) => OkIs(DecB128(n, q2 + 128, q3 + 128, q4 + 128, q5, b5), hi, lo, 4)
RT3 == (q1 = 0 /\ q2 = 0 /\ q3 # 0 /\ n >= 3) => OkIs(DecB128(n, q3 + 128, q4 + 128, q5, b4, b5), hi, lo, 3)
RT2 == (q1 = 0 /\ q2 = 0 /\ q3 = 0 /\ q4 # 0 /\ n >= 2) => OkIs(DecB128(n, q4 + 128, q5, b3, b4, b5), hi, lo, 2)
RT1 == (q1 = 0 /\ q2 = 0 /\ q3 = 0 /\ q4 = 0 /\ n >= 1) => OkIs(DecB128(n, q5, b2, b3, b4, b5), hi, lo, 1)
\* RoundTripQ with the length as a bound numeral L (one-point rule: L = StripLen(q)); EncByteL(q, L, k) then folds to
\* the explicit bytes of RT1 .. RT5
\* @type: (<<Int, Int, Int, Int, Int>>, Int, Int) => Int;
EncByteL(q, L, k) == IF k > L THEN 0 ELSE Sept(q, 5 - L + k) + (IF k < L THEN 128 ELSE 0)
RoundTripL ==
  LET q == Q5(q1, q2, q3, q4, q5) IN
  /\ StripLen(q) \in 1 .. 5
  /\ \A L \in 1 .. 5 : L = StripLen(q) =>
       LET E(k, g) == IF k <= L THEN EncByteL(q, L, k) ELSE g IN
       /\ EncByteL(q, L, 1) # 128 /\ EncByteQ(q, 1) = EncByteL(q, L, 1)
       /\ \A k \in 1 .. 5 : Byte(EncByteL(q, L, k)) /\ EncByteQ(q, k) = EncByteL(q, L, k)
       /\ n >= L => OkIs(DecB128(n, E(1, b1), E(2, b2), E(3, b3), E(4, b4), E(5, b5)), hi, lo, L)
       /\ n < L => ~DecB128(n, E(1, b1), E(2, b2), E(3, b3), E(4, b4), E(5, b5)).ok
       /\ (L = 1 \/ hi * 65536 + lo >= (IF L = 2 THEN 128 ELSE IF L = 3 THEN 16384 ELSE IF L = 4 THEN 2097152 ELSE 268435456))
RoundTripC ==
  LET e == EncCases(Q5(q1, q2, q3, q4, q5))
      G(k, x, g) == IF k <= e[1] THEN x ELSE g
      r == DecB128(n, e[2], G(2, e[3], b2), G(3, e[4], b3), G(4, e[5], b4), G(5, e[6], b5))
  IN
  /\ e[1] >= 1 /\ e[1] <= 5 /\ e[2] # 128
  /\ Byte(e[2]) /\ Byte(e[3]) /\ Byte(e[4]) /\ Byte(e[5]) /\ Byte(e[6])
  /\ n >= e[1] => OkIs(r, hi, lo, e[1])
  /\ n < e[1] => ~r.ok
\* RoundTripC one encoding length at a time (RoundTripC is their conjunction, the length being one of 1 .. 5)
RTC(k) ==
  LET e == EncCases(Q5(q1, q2, q3, q4, q5))
      G(j, x, g) == IF j <= e[1] THEN x ELSE g
      r == DecB128(n, e[2], G(2, e[3], b2), G(3, e[4], b3), G(4, e[5], b4), G(5, e[6], b5))
  IN
  e[1] = k =>
    /\ e[2] # 128 /\ Byte(e[2]) /\ Byte(e[3]) /\ Byte(e[4]) /\ Byte(e[5]) /\ Byte(e[6])
    /\ n >= k => OkIs(r, hi, lo, k)
    /\ n < k => ~r.ok
    /\ (k = 1 \/ hi * 65536 + lo >= (IF k = 2 THEN 128 ELSE IF k = 3 THEN 16384 ELSE IF k = 4 THEN 2097152 ELSE 268435456))
RTC1 == RTC(1)
RTC2 == RTC(2)
RTC3 == RTC(3)
RTC4 == RTC(4)
RTC5 == RTC(5)
RTCLen == EncCases(Q5(q1, q2, q3, q4, q5))[1] \in 1 .. 5
\* NOT discharged as single queries (Apalache / Z3 time out after 300 - 900 s on each; see notes/X04.md): RoundTrip,
\* RoundTripQ, RoundTripL, RoundTripC above.  What IS discharged: RT1 .. RT5 from InitQ (any septets) and RTCLen,
\* RTC1 .. RTC5 from InitEnc (the encoder's septets); RoundTripC is the conjunction of RTC1 .. RTC5 given RTCLen.
=============================================================================
