--------------------------- MODULE PCmapDelta_apa ---------------------------
(* Apalache obligations over PCmapDelta (Init => Inv, unbounded SMT integers in the stated ranges).   *)
EXTENDS PCmapDelta
VARIABLES
  \* @type: Int;
  c,
  \* @type: Int;
  d,
  \* @type: Int;
  g,
  \* @type: Int;
  x
\* @type: <<Int, Int, Int, Int>>;
vars == <<c, d, g, x>>
Init == c \in Int /\ d \in Int /\ g \in Int /\ x \in Int /\ U16(c) /\ I16(d) /\ U16(g)
Next == UNCHANGED vars

\* D1: for ALL codes c and ALL signed deltas d the specification's (c + d) mod 65536 is a u16 and equals the code's
\*     masked i32 sum, the u16 wrapping add of the stored unsigned field, and the case formula
DeltaForms ==
  /\ U16(Mod16(c + d))
  /\ Mod16(c + d) = And16I32(c + d)
  /\ Mod16(c + d) = WrapAdd16(c, U16OfI16(d))
  /\ Mod16(c + d) = ByCases(c, d)
  /\ U16(U16OfI16(d)) /\ ToI16(U16OfI16(d)) = d
\* D2: the delta the subsetter writes maps the code to the wanted glyph, and is the ONLY signed 16-bit delta doing so
DeltaInverse ==
  /\ I16(ToI16(g - c)) /\ Mod16(c + ToI16(g - c)) = g
  /\ (Mod16(c + d) = g) = (d = ToI16(g - c))
\* D3: a whole segment: glyphs of consecutive codes are consecutive modulo 65536 (what lets one delta serve a range)
DeltaConsecutive ==
  c < 65535 => Mod16((c + 1) + d) = Mod16(Mod16(c + d) + 1)
\* D4: ToI16 on ANY integer is the signed reading of its low 16 bits
ToI16Any == I16(ToI16(x)) /\ Mod16(ToI16(x)) = Mod16(x) /\ (I16(x) => ToI16(x) = x)
\* planted FALSE lemma: no wrap is ever needed
PlantedFalse == Mod16(c + d) = c + d
=============================================================================
