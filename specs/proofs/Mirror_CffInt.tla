----------------------------- MODULE Mirror_CffInt -----------------------------
(* X04 mirror check 6a (TLC): PCffInt next to CffCodec.tla / TableCodec.tla / BinaryWriter.tla: BE2, BE4s, I16, *)
(* I32, RI16, RI32, IntSize, EncIntOp, EncIntForm, Dev_IntEncoding (as byte sequences) and Tok on real byte    *)
(* sequences at an offset.                                                                                   *)
EXTENDS PCffInt, Sequences, TLC, Json, IOUtils
L == INSTANCE CffCodec
VARIABLE i
Rec == ndJsonDeserialize(IOEnv.ARGS)
Report(e, what, want, got) ==
  PrintT(<<"MISMATCH", ToJson([i |-> e.i, plant |-> e.plant, what |-> what, want |-> want, got |-> got])>>)
Eq(e, what, want, got) == IF want = got THEN TRUE ELSE Report(e, what, want, got)
Min2(a, b) == IF a <= b THEN a ELSE b
AsSeq(p) == SubSeq(<<p[2], p[3], p[4], p[5], p[6]>>, 1, p[1])
Check(e) ==
  LET b == e.b                                              \* 6 bytes
      str == e.pad \o SubSeq(b, 1, Min2(e.left, 6))
      lt == L!Tok(str, Len(e.pad))
      pt == TokInt(IF e.plant = 1 THEN e.left - 1 ELSE e.left, b[1], b[2], b[3], b[4], b[5])
      four == <<b[2], b[3], b[4], b[5]>>
  IN
  /\ Eq(e, "BE2", L!BE2(e.u), BE2(e.u))
  /\ Eq(e, "I16", L!I16(e.h), I16(e.h))
  /\ Eq(e, "I32", L!I32(e.v), I32(e.v))
  /\ Eq(e, "BE4s", L!BE4s(e.v), BE4s(e.v))
  /\ Eq(e, "RI16", L!RI16(four, 1), RI16(b[3], b[4]))
  /\ Eq(e, "RI32", L!RI32(<<0>> \o four, 1), RI32(b[2], b[3], b[4], b[5]))
  /\ Eq(e, "IntSize", L!IntSize(e.v), IntSize(e.v))
  /\ Eq(e, "EncIntOp", L!EncIntOp(e.v), AsSeq(EncIntOp(e.v)))
  /\ Eq(e, "Dev_IntEncoding", L!Dev_IntEncoding(e.v), Dev_IntEncoding(e.v))
  /\ \A f \in Dev_IntEncoding(e.v) : Eq(e, "EncIntForm", L!EncIntForm(e.v, f), AsSeq(EncIntForm(e.v, f)))
  /\ IF lt.t \in {"i", "bad"} /\ b[1] > 24 /\ b[1] # 30 THEN Eq(e, "Tok", lt, pt)      \* an integer token or a refused one
     ELSE Eq(e, "Tok.other", "other", pt.t)
  /\ LET enc == L!EncIntOp(e.v) IN
     Eq(e, "Tok.EncIntOp", L!Tok(enc \o e.pad, 0),
        LET p == EncIntOp(e.v) IN TokInt(p[1] + Len(e.pad), p[2], p[3], p[4], p[5], p[6]))
MInit == i = 1
MNext == i <= Len(Rec) /\ Check(Rec[i]) /\ i' = i + 1
MSpec == MInit /\ [][MNext]_i
=============================================================================
