------------------------------- MODULE PCffInt -------------------------------
(***************************************************************************)
(* X04 proof module 6a - the integer operand encodings of CFF DICTs and    *)
(* Type 2 charstrings (TN 5176 Table 3) as specified in specs/CffCodec.tla *)
(* (IntSize, EncIntOp, EncIntForm, Dev_IntEncoding, the integer branches   *)
(* of Tok) over specs/TableCodec.tla (I16, I32, RI16, RI32) and            *)
(* specs/BinaryWriter.tla (BE2, BE4s, DecInt "i32").  A byte string is the *)
(* integers b0..b4 plus the number `left` of bytes that exist; an encoding *)
(* is the tuple <<length, b0, .., b4>>.  MC_TableCodec checks the law on   *)
(* boundary-heavy value sets; here: ALL 2^32 integers, ALL byte strings.   *)
(***************************************************************************)
EXTENDS Integers

\* ---- quoted from BinaryWriter.tla / TableCodec.tla ---------------------------
\*   BE2(x) == <<x \div 256, x % 256>>
\*   BE4s(x) == <<(x \div 16777216) % 256, (x \div 65536) % 256, (x \div 256) % 256, x % 256>>
\*   I16(x) == BE2(x % 65536)          I32(x) == BE4s(x)
\*   RU16(bs, at) == bs[at + 1] * 256 + bs[at + 2]
\*   RI16(bs, at) == LET u == RU16(bs, at) IN IF u >= 32768 THEN u - 65536 ELSE u
\*   DecInt("i32", bs) == LET hi == IF bs[1] >= 128 THEN bs[1] - 256 ELSE bs[1] IN
\*                        hi * 16777216 + bs[2] * 65536 + bs[3] * 256 + bs[4]
\* @type: Int => <<Int, Int>>;
BE2(x) == <<x \div 256, x % 256>>
\* @type: Int => <<Int, Int, Int, Int>>;
BE4s(x) == <<(x \div 16777216) % 256, (x \div 65536) % 256, (x \div 256) % 256, x % 256>>
\* @type: Int => <<Int, Int>>;
I16(x) == BE2(x % 65536)
\* @type: Int => <<Int, Int, Int, Int>>;
I32(x) == BE4s(x)
RI16(b1, b2) == LET u == b1 * 256 + b2 IN IF u >= 32768 THEN u - 65536 ELSE u
RI32(b1, b2, b3, b4) == LET hi == IF b1 >= 128 THEN b1 - 256 ELSE b1 IN
                        hi * 16777216 + b2 * 65536 + b3 * 256 + b4

\* ---- quoted from CffCodec.tla ("operands") ------------------------------------
\*   IntSize(v) == IF v >= -107 /\ v <= 107 THEN 1
\*                 ELSE IF (v >= 108 /\ v <= 1131) \/ (v >= -1131 /\ v <= -108) THEN 2
\*                 ELSE IF v >= -32768 /\ v <= 32767 THEN 3 ELSE 5
\*   EncIntOp(v) ==
\*     CASE IntSize(v) = 1 -> <<v + 139>>
\*       [] IntSize(v) = 2 -> IF v > 0 THEN LET w == v - 108 IN <<(w \div 256) + 247, w % 256>>
\*                                     ELSE LET w == -v - 108 IN <<(w \div 256) + 251, w % 256>>
\*       [] IntSize(v) = 3 -> <<28>> \o I16(v)
\*       [] IntSize(v) = 5 -> <<29>> \o I32(v)
\*   EncIntForm(v, form) ==
\*     IF form = 5 THEN <<29>> \o I32(v) ELSE IF form = 3 THEN <<28>> \o I16(v) ELSE EncIntOp(v)
\*   Dev_IntEncoding(v) == {IntSize(v)} \cup (IF IntSize(v) <= 3 THEN {3} ELSE {}) \cup {5}
IntSize(v) == IF v >= -107 /\ v <= 107 THEN 1
              ELSE IF (v >= 108 /\ v <= 1131) \/ (v >= -1131 /\ v <= -108) THEN 2
              ELSE IF v >= -32768 /\ v <= 32767 THEN 3 ELSE 5
\* <<length, b0, b1, b2, b3, b4>> (0 beyond the length)
\* @type: Int => <<Int, Int, Int, Int, Int, Int>>;
Enc3(v) == <<3, 28, I16(v)[1], I16(v)[2], 0, 0>>
\* @type: Int => <<Int, Int, Int, Int, Int, Int>>;
Enc5(v) == <<5, 29, I32(v)[1], I32(v)[2], I32(v)[3], I32(v)[4]>>
\* @type: Int => <<Int, Int, Int, Int, Int, Int>>;
EncIntOp(v) ==
  CASE IntSize(v) = 1 -> <<1, v + 139, 0, 0, 0, 0>>
    [] IntSize(v) = 2 -> IF v > 0 THEN LET w == v - 108 IN <<2, (w \div 256) + 247, w % 256, 0, 0, 0>>
                                  ELSE LET w == -v - 108 IN <<2, (w \div 256) + 251, w % 256, 0, 0, 0>>
    [] IntSize(v) = 3 -> Enc3(v)
    [] OTHER          -> Enc5(v)
\* @type: (Int, Int) => <<Int, Int, Int, Int, Int, Int>>;
EncIntForm(v, form) == IF form = 5 THEN Enc5(v) ELSE IF form = 3 THEN Enc3(v) ELSE EncIntOp(v)
\* @type: Int => Set(Int);
Dev_IntEncoding(v) == {IntSize(v)} \cup (IF IntSize(v) <= 3 THEN {3} ELSE {}) \cup {5}

\*   Tok(bs, at) (integer branches; b0 == bs[at + 1], left == Len(bs) - at):
\*     ELSE IF b0 = 28 THEN (IF left < 3 THEN [t |-> "bad", v |-> 0, n |-> 0] ELSE [t |-> "i", v |-> RI16(bs, at + 1), n |-> 3])
\*     ELSE IF b0 = 29 THEN (IF left < 5 THEN [t |-> "bad", ..] ELSE [t |-> "i", v |-> RI32(bs, at + 1), n |-> 5])
\*     ELSE IF b0 >= 32 /\ b0 <= 246 THEN [t |-> "i", v |-> b0 - 139, n |-> 1]
\*     ELSE IF b0 >= 247 /\ b0 <= 250 THEN (IF left < 2 THEN [t |-> "bad", ..]
\*                                         ELSE [t |-> "i", v |-> (b0 - 247) * 256 + bs[at + 2] + 108, n |-> 2])
\*     ELSE IF b0 >= 251 /\ b0 <= 254 THEN (IF left < 2 THEN [t |-> "bad", ..]
\*                                         ELSE [t |-> "i", v |-> -((b0 - 251) * 256) - bs[at + 2] - 108, n |-> 2])
\*     ELSE [t |-> "bad", v |-> 0, n |-> 0]
\* ("other": an operator, a real number or end of data - not an integer token)
\* @type: { t: Str, v: Int, n: Int };
TokBad == [t |-> "bad", v |-> 0, n |-> 0]
\* @type: (Int, Int, Int, Int, Int, Int) => { t: Str, v: Int, n: Int };
TokInt(left, b0, b1, b2, b3, b4) ==
  IF left <= 0 \/ b0 <= 24 \/ b0 = 30 THEN [t |-> "other", v |-> 0, n |-> 0]
  ELSE IF b0 = 28 THEN (IF left < 3 THEN TokBad ELSE [t |-> "i", v |-> RI16(b1, b2), n |-> 3])
  ELSE IF b0 = 29 THEN (IF left < 5 THEN TokBad ELSE [t |-> "i", v |-> RI32(b1, b2, b3, b4), n |-> 5])
  ELSE IF b0 >= 32 /\ b0 <= 246 THEN [t |-> "i", v |-> b0 - 139, n |-> 1]
  ELSE IF b0 >= 247 /\ b0 <= 250 THEN (IF left < 2 THEN TokBad
                                      ELSE [t |-> "i", v |-> (b0 - 247) * 256 + b1 + 108, n |-> 2])
  ELSE IF b0 >= 251 /\ b0 <= 254 THEN (IF left < 2 THEN TokBad
                                      ELSE [t |-> "i", v |-> -((b0 - 251) * 256) - b1 - 108, n |-> 2])
  ELSE TokBad

Byte(b) == b >= 0 /\ b <= 255
IsI32(v) == v >= -2147483647 - 1 /\ v <= 2147483647
=============================================================================
