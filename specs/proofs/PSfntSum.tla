------------------------------ MODULE PSfntSum ------------------------------
(***************************************************************************)
(* X04 proof module 4 - 32-bit checksum arithmetic on 16-bit limb pairs as *)
(* specified in specs/SfntWrite.tla (L32, Add32, Sub32, Less32, Sum32,     *)
(* Magic, the word of WordSum, AdjustmentOK).  TLC integers are 32-bit, so *)
(* the library carries a u32 as <<hi16, lo16>>; the lemmas relate the limb *)
(* operators to the mathematical value  hi * 65536 + lo  for ALL limbs     *)
(* (MC_SfntWrite meets a few hundred sums).                                *)
(***************************************************************************)
EXTENDS Integers

\* ---- quoted from SfntWrite.tla ("32-bit arithmetic on limb pairs") --------
\*   L32(hi, lo)  == <<hi, lo>>
\*   Add32(a, b)  == LET lo == a[2] + b[2]  hi == a[1] + b[1] + (lo \div 65536) IN <<hi % 65536, lo % 65536>>
\*   Sub32(a, b)  == LET lo == a[2] - b[2]
\*                       borrow == IF lo < 0 THEN 1 ELSE 0
\*                       hi == a[1] - b[1] - borrow
\*                   IN <<hi % 65536, lo % 65536>>          \* % floors: negative values wrap correctly
\*   Less32(a, b) == a[1] < b[1] \/ (a[1] = b[1] /\ a[2] < b[2])
\*   Sum32(s) == IF s = <<>> THEN <<0, 0>> ELSE Add32(s[1], Sum32(Tail(s)))
\*   Magic == <<45488, 44986>>                 \* 0xB1B0AFBA
\* @type: (Int, Int) => <<Int, Int>>;
L32(hi, lo)  == <<hi, lo>>
\* @type: (<<Int, Int>>, <<Int, Int>>) => <<Int, Int>>;
Add32(a, b)  == LET lo == a[2] + b[2]  hi == a[1] + b[1] + (lo \div 65536) IN <<hi % 65536, lo % 65536>>
\* @type: (<<Int, Int>>, <<Int, Int>>) => <<Int, Int>>;
Sub32(a, b)  == LET lo == a[2] - b[2]
                    borrow == IF lo < 0 THEN 1 ELSE 0
                    hi == a[1] - b[1] - borrow
                IN <<hi % 65536, lo % 65536>>
\* @type: (<<Int, Int>>, <<Int, Int>>) => Bool;
Less32(a, b) == a[1] < b[1] \/ (a[1] = b[1] /\ a[2] < b[2])
\* @type: <<Int, Int>>;
Magic == <<45488, 44986>>

\* the word WordSum adds for four bytes:  <<b[1] * 256 + b[2], b[3] * 256 + b[4]>>
\* @type: (Int, Int, Int, Int) => <<Int, Int>>;
Word(b1, b2, b3, b4) == <<b1 * 256 + b2, b3 * 256 + b4>>

\*   AdjustmentOK(p) == HasHead(p) =>
\*        /\ p.totalSum = Magic
\*        /\ p.headAdj = Sub32(Magic, Add32(p.dirSum, Sum32([k \in 1 .. Len(p.records) |-> p.records[k].measured])))
\* with the sum of the table checksums as an argument:
\* @type: (<<Int, Int>>, <<Int, Int>>, <<Int, Int>>, <<Int, Int>>) => Bool;
AdjOK(totalSum, headAdj, dirSum, tablesSum) ==
  /\ totalSum = Magic
  /\ headAdj = Sub32(Magic, Add32(dirSum, tablesSum))

\* ---- the mathematics
\* @type: <<Int, Int>> => Int;
Val(a) == a[1] * 65536 + a[2]
Two32 == 65536 * 65536            \* 4294967296 (TLC cannot read a literal this big)
Limb(x) == x >= 0 /\ x <= 65535
\* @type: <<Int, Int>> => Bool;
IsU32(a) == Limb(a[1]) /\ Limb(a[2])
Byte(b) == b >= 0 /\ b <= 255
=============================================================================
