---------------------------- MODULE PSfntSum_apa ----------------------------
(* Apalache obligations over PSfntSum.                                                                  *)
(* Part A: Init => Inv over all limbs.  Part B: Sum32 over a sequence of ANY length as a machine that   *)
(* adds one element per step, with the mathematical sum as a ghost variable; the invariant is inductive.*)
EXTENDS PSfntSum
VARIABLES
  \* @type: Int;
  ah,
  \* @type: Int;
  al,
  \* @type: Int;
  bh,
  \* @type: Int;
  bl,
  \* @type: Int;
  b1,
  \* @type: Int;
  b2,
  \* @type: Int;
  b3,
  \* @type: Int;
  b4,
  \* @type: <<Int, Int>>;
  acc,        \* Part B: Sum32 of the elements taken so far
  \* @type: Int;
  math        \* Part B: their mathematical sum (unbounded)
A == L32(ah, al)
B == L32(bh, bl)
Init ==
  /\ ah \in Int /\ al \in Int /\ bh \in Int /\ bl \in Int /\ b1 \in Int /\ b2 \in Int /\ b3 \in Int /\ b4 \in Int
  /\ Limb(ah) /\ Limb(al) /\ Limb(bh) /\ Limb(bl) /\ Byte(b1) /\ Byte(b2) /\ Byte(b3) /\ Byte(b4)
  /\ acc = L32(0, 0) /\ math = 0
Stutter == UNCHANGED <<ah, al, bh, bl, b1, b2, b3, b4, acc, math>>

\* S1: Add32 / Sub32 are addition / subtraction modulo 2^32 on ALL limb pairs and return limb pairs;
\*     Less32 is < on the values; the value determines the pair
AddSubExact ==
  /\ IsU32(Add32(A, B)) /\ Val(Add32(A, B)) = (Val(A) + Val(B)) % Two32
  /\ IsU32(Sub32(A, B)) /\ Val(Sub32(A, B)) = (Val(A) - Val(B)) % Two32
  /\ Less32(A, B) = (Val(A) < Val(B))
  /\ (Val(A) = Val(B)) = (A = B)
  /\ Add32(A, B) = Add32(B, A) /\ Add32(A, L32(0, 0)) = A
\* S2: the checksum adjustment: adj = Magic - s (mod 2^32) is the ONE u32 that makes the total Magic; its value is
\*     0xB1B0AFBA - Val(s) modulo 2^32 with 0xB1B0AFBA = 2981146554
AdjustIff ==
  /\ Val(Magic) = 2981146554
  /\ Add32(A, Sub32(Magic, A)) = Magic
  /\ (Add32(A, B) = Magic) = (B = Sub32(Magic, A))
  /\ Val(Sub32(Magic, A)) = (2981146554 - Val(A)) % Two32
  /\ Sub32(Add32(A, B), B) = A /\ Add32(Sub32(A, B), B) = A
\* S3: the big-endian word of four bytes
WordExact ==
  IsU32(Word(b1, b2, b3, b4)) /\ Val(Word(b1, b2, b3, b4)) = b1 * 16777216 + b2 * 65536 + b3 * 256 + b4
\* planted FALSE lemma: no carry out of the high limb
PlantedFalse == Val(Add32(A, B)) = Val(A) + Val(B)

\* ---- Part B.  Sum32(s) = Add32(s[1], Sum32(Tail(s))): one step adds ANY element in front.
SumInv == IsU32(acc) /\ math >= 0 /\ Val(acc) = math % Two32
SumInit ==
  /\ ah \in Int /\ al \in Int /\ bh \in Int /\ bl \in Int /\ b1 \in Int /\ b2 \in Int /\ b3 \in Int /\ b4 \in Int
  /\ math \in Int /\ acc = L32(bh, bl)
  /\ SumInv
SumNext ==
  /\ ah' \in Int /\ al' \in Int /\ Limb(ah') /\ Limb(al')
  /\ acc' = Add32(L32(ah', al'), acc)
  /\ math' = math + Val(L32(ah', al'))
  /\ UNCHANGED <<bh, bl, b1, b2, b3, b4>>
\* planted FALSE step claim
PlantedFalseStep == Val(acc') >= Val(acc)
=============================================================================
