------------------------- MODULE Mirror_BinaryReader -------------------------
(***************************************************************************)
(* X04 mirror check 1 (TLC): binds PBinaryReader / PBinaryReader_apa to    *)
(* the library module BinaryReader.tla.  For every sampled record of       *)
(* IOEnv.ARGS (ndjson written by lib/props/x04.py from the seed)           *)
(*   - every operator of PBinaryReader is evaluated next to the operator   *)
(*     of BinaryReader it quotes (same name, or the Do* operator whose     *)
(*     window arithmetic it restates) and the results must be equal;       *)
(*   - the library's Apply is executed on the sampled object and operation *)
(*     and the pair (object before, object after) - for operations with    *)
(*     two results both the moved context and the new object - must be a   *)
(*     step of PBinaryReader_apa!Next, the transition relation whose       *)
(*     invariant was proved inductive.                                     *)
(* A record with plant = 1 is compared against a deliberately shifted      *)
(* library call and MUST be reported (self-check of the comparison).        *)
(***************************************************************************)
EXTENDS PBinaryReader_apa, Sequences, TLC, Json, IOUtils

L == INSTANCE BinaryReader          \* HUGE <- HUGE

VARIABLES i, phase
mvars == <<vars, i, phase>>

Rec == ndJsonDeserialize(IOEnv.ARGS)

Report(e, what, want, got) ==
  PrintT(<<"MISMATCH", ToJson([i |-> e.i, plant |-> e.plant, what |-> what, want |-> want, got |-> got])>>)
Eq(e, what, want, got) == IF want = got THEN TRUE ELSE Report(e, what, want, got)

\* the sampled object as a library object over a root of e.root zero bytes
LObj(e) == L!Obj(e.kind, e.lo, e.len, e.off, e.cnt, e.stride, e.size, e.lo)
LSt(e)  == [root |-> [j \in 1 .. e.root |-> 0], objs |-> <<LObj(e)>>, cache |-> {}]
LOp(e)  == L!Op(e.op, 1, e.ty, e.a, e.b, <<>>)
WinOf(o) == <<o.lo, o.len>>

\* ---- operator by operator
FunOK(e) ==
  LET st == LSt(e)  a == e.a  b == e.b IN
  /\ Eq(e, "IsHuge", L!IsHuge(a), IsHuge(a))
  /\ Eq(e, "Mul", L!Mul(e.m1, e.m2), Mul(e.m1, e.m2))
  /\ Eq(e, "Add", L!Add(a, b), Add(a, b))
  /\ Eq(e, "Min2", L!Min2(a, b), Min2(a, b))
  /\ Eq(e, "OffLenResult", L!OffLenResult(e.len, a, IF e.plant = 1 THEN b + 1 ELSE b), OffLenResult(e.len, a, b))
  /\ (a < HUGE /\ b < HUGE) => Eq(e, "ExactOffLen", L!OffLenResult(e.len, a, b), ExactOffLen(e.len, a, b))
  /\ Eq(e, "OffLenResult.Cap", L!OffLenResult(e.len, a, b), OffLenResult(e.len, Cap(a), Cap(b)))
  /\ Eq(e, "SubScopeWin", WinOf(L!SubScope(e.lo, e.len, e.lo, a, b)), SubScopeWin(e.lo, e.len, a, b))
  /\ e.kind = "scope" =>
       /\ Eq(e, "OffsetWin", WinOf(L!DoOffset(st, 1, a).st.objs[2]), OffsetWin(e.lo, e.len, a))
       /\ LET r == L!DoOffsetLength(st, 1, a, b) IN
          /\ Eq(e, "DoOffsetLength.ok", r.obs.ok, OffLenResult(e.len, a, b) = "Ok")
          /\ r.obs.ok => Eq(e, "DoOffsetLength.win", WinOf(r.st.objs[2]), SubScopeWin(e.lo, e.len, a, b))
          /\ ~r.obs.ok => Eq(e, "DoOffsetLength.err", r.obs.err, OffLenResult(e.len, a, b))
  /\ e.kind = "ctxt" =>
       /\ Eq(e, "CtxtScopeWin", WinOf(L!DoCtxtScope(st, 1).st.objs[2]), CtxtScopeWin(e.lo, e.len, e.off))
       /\ LET r == L!DoReadScope(st, 1, b, FALSE) IN
          /\ Eq(e, "DoReadScope.ok", r.obs.ok, OffLenResult(e.len, e.off, b) = "Ok")
          /\ r.obs.ok => /\ Eq(e, "ReadScopeWin", WinOf(r.st.objs[2]), ReadScopeWin(e.lo, e.off, b))
                         /\ Eq(e, "DoReadScope.off", r.st.objs[1].off, e.off + b)
       /\ LET r == L!DoReadArrayGen(st, 1, e.m1, e.s, e.s, FALSE) IN
          /\ Eq(e, "DoReadArrayGen.ok", r.obs.ok, OffLenResult(e.len, e.off, Mul(e.m1, e.s)) = "Ok")
          /\ r.obs.ok => /\ Eq(e, "ArrayWin", WinOf(r.st.objs[2]), ArrayWin(e.lo, e.off, e.m1, e.s))
                         /\ Eq(e, "DoReadArrayGen.off", r.st.objs[1].off, e.off + Mul(e.m1, e.s))
                         /\ Eq(e, "DoReadArrayGen.n", r.st.objs[2].n, e.m1)
       /\ LET r == L!DoReadArrayUpto(st, 1, e.ty, a) IN
          /\ Eq(e, "UptoCount.ok", r.obs.ok, TRUE)
          /\ r.obs.ok => Eq(e, "UptoCount", r.st.objs[2].n, UptoCount(e.len, e.off, L!SizeOf(e.ty), a))
  /\ e.kind = "array" =>
       /\ Eq(e, "ItemPos", L!ItemPos(LObj(e), e.m2), ItemPos(e.lo, e.stride, e.m2))
       /\ Eq(e, "ArrayLen", LObj(e).len, e.cnt * e.stride)

\* ---- the transition relation.  Phase "load": the machine's variables become the sampled object (and the
\* operator checks run).  Phase "apply": the variables become what the LIBRARY's Apply yields, and that pair of
\* states must satisfy PBinaryReader_apa!Next.
Applicable(e) ==
  \/ e.kind = "scope" /\ e.op \in {"Offset", "OffsetLength", "Ctxt"}
  \/ e.kind = "ctxt" /\ e.op \in {"ReadT", "ReadScope", "ReadSlice", "ReadArray", "ReadArrayDep", "CtxtScope"}

\* arguments as PBinaryReader_apa names them
KArg(e) == IF e.op \in {"Offset", "OffsetLength"} THEN e.a ELSE 0
NArg(e) == CASE e.op = "OffsetLength" -> e.b
             [] e.op = "ReadT" -> L!SizeOf(e.ty)
             [] e.op \in {"ReadScope", "ReadSlice", "ReadArray", "ReadArrayDep"} -> e.a
             [] OTHER -> 0

SetTo(o, e, fl) ==
  /\ root' = root /\ kind' = o.kind /\ lo' = o.lo /\ len' = o.len /\ off' = o.off /\ cnt' = o.n
  /\ stride' = o.stride /\ k' = KArg(e) /\ n' = NArg(e) /\ failed' = fl

MInit ==
  /\ i = 1 /\ phase = "load"
  /\ root = 0 /\ kind = "scope" /\ lo = 0 /\ len = 0 /\ off = 0 /\ cnt = 0 /\ stride = 0 /\ k = 0 /\ n = 0
  /\ failed = FALSE

Load ==
  /\ phase = "load" /\ i <= Len(Rec)
  /\ LET e == Rec[i] IN
     /\ FunOK(e)
     /\ root' = e.root /\ kind' = e.kind /\ lo' = (IF e.len = 0 THEN 0 ELSE e.lo) /\ len' = e.len /\ off' = e.off
     /\ cnt' = e.cnt /\ stride' = e.stride /\ k' = 0 /\ n' = 0 /\ failed' = FALSE
     /\ IF IndInv' THEN TRUE ELSE Report(e, "sample outside IndInv", TRUE, FALSE)
     /\ IF Applicable(e) THEN phase' = "apply" /\ i' = i ELSE phase' = "load" /\ i' = i + 1

\* which: 1 = continue with the target object (moved context / unchanged), 2 = with the object created
ApplyStep(which) ==
  /\ phase = "apply"
  /\ LET e == Rec[i]  r == L!Apply(LSt(e), LOp(e)) IN
     /\ which <= Len(r.st.objs)
     /\ SetTo(r.st.objs[which], e, ~r.obs.ok)
     /\ IF Next THEN TRUE ELSE Report(e, "not a step of PBinaryReader_apa!Next",
                                      [op |-> e.op, obj |-> which], [ok |-> r.obs.ok, post |-> r.st.objs[which]])
     /\ IF IndInv' THEN TRUE ELSE Report(e, "library result outside IndInv", TRUE, FALSE)
  /\ phase' = "load" /\ i' = i + 1

MNext == Load \/ ApplyStep(1) \/ ApplyStep(2)
MSpec == MInit /\ [][MNext]_mvars
=============================================================================
