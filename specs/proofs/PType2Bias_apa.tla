--------------------------- MODULE PType2Bias_apa ---------------------------
(* Apalache obligations over PType2Bias (Init => Inv; ALL counts of a 16-bit or 32-bit INDEX, ALL operands). *)
EXTENDS PType2Bias
VARIABLES
  \* @type: Int;
  cnt,
  \* @type: Int;
  i,
  \* @type: Int;
  n
\* @type: <<Int, Int, Int>>;
vars == <<cnt, i, n>>
Init == cnt \in Nat /\ i \in Nat /\ n \in Int
Next == UNCHANGED vars
\* T1: every subroutine of an INDEX of up to 65536 entries can be called with a 16-bit operand (the 28 form or
\*     shorter), exactly one operand calls it, and the thresholds are what makes the SHORT forms suffice: below 1240
\*     subroutines every call fits the 1- and 2-byte forms, and 1240 / 33900 are the largest such bounds
Reach ==
  (cnt <= 65536 /\ i < cnt) =>
     LET op == i - Bias(cnt) IN
     /\ op >= -32768 /\ op <= 32767 /\ SubrIndex(op, cnt) = i /\ IndexOk(op, cnt)
     /\ (SubrIndex(n, cnt) = i) = (n = op)
     /\ (cnt < 1240 => IntSize(op) <= 2)
     /\ (cnt < 33900 => op >= -1131)
\* T2: the acceptance test is exact and never needs more than 17 bits: for a 16-bit operand and ANY count the index
\*     lies in -32661 .. 65535, and it is accepted iff it names an existing subroutine
IndexRange ==
  (n >= -32768 /\ n <= 32767) =>
     /\ SubrIndex(n, cnt) >= -32661 /\ SubrIndex(n, cnt) <= 65535
     /\ IndexOk(n, cnt) = (SubrIndex(n, cnt) >= 0 /\ SubrIndex(n, cnt) < cnt)
     /\ (IndexOk(n, cnt) => n >= -Bias(cnt) /\ n < cnt - Bias(cnt))
\* T3: the bias only grows with the count and takes three values
BiasShape ==
  /\ Bias(cnt) \in {107, 1131, 32768} /\ Bias(cnt) <= Bias(cnt + i)
  /\ (Bias(cnt) = 107) = (cnt <= 1239) /\ (Bias(cnt) = 32768) = (cnt >= 33900)
\* T4: the thresholds are tight: with 1240 subroutines under bias 107 the last one needs operand 1132 (a 3-byte form),
\*     with 33900 under bias 1131 the last one needs 32768 (no 16-bit operand)
Tight == (1240 - 1) - 107 = 1132 /\ IntSize(1132) = 3 /\ (33900 - 1) - 1131 = 32768 /\ IntSize(32768) = 5
\* planted FALSE lemma: a 16-bit operand reaches every subroutine of an INDEX of 65537 entries
PlantedFalse == (cnt <= 65537 /\ i < cnt) => i - Bias(cnt) <= 32767
=============================================================================
