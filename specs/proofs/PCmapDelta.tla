----------------------------- MODULE PCmapDelta -----------------------------
(***************************************************************************)
(* X04 proof module 5 - the idDelta arithmetic of cmap format 4 (and the   *)
(* format 2 sub-headers) as specified in specs/Cmap.tla (Mod16, used by    *)
(* Seg4Glyph: Mod16(c + sg.delta), Mod16(v + sg.delta)) and written by     *)
(* specs/CmapSubset.tla (ToI16: delta |-> ToI16(sg.gids[1] - (sg.s % 65536))).*)
(* idDelta is a signed 16-bit number; allsorts computes                    *)
(*   ((i32::from(ch) + i32::from(id_delta)) & 0xFFFF) as u16               *)
(* (src/tables/cmap.rs), OpenType says "modulo 65536".  MC_Cmap checks a   *)
(* handful of deltas; here: ALL codes 0..65535 and ALL deltas.             *)
(***************************************************************************)
EXTENDS Integers

\* ---- quoted from Cmap.tla:        Mod16(x) == x % 65536
Mod16(x) == x % 65536
\* ---- quoted from CmapSubset.tla:  ToI16(x) == LET m == x % 65536 IN IF m >= 32768 THEN m - 65536 ELSE m
ToI16(x) == LET m == x % 65536 IN IF m >= 32768 THEN m - 65536 ELSE m

\* ---- the formulations the lemmas compare with
\* the idDelta field as the unsigned 16-bit number stored in the font
U16OfI16(d) == IF d < 0 THEN d + 65536 ELSE d
\* u16 wrapping_add of the code and the stored field
WrapAdd16(c, du) == IF c + du >= 65536 THEN c + du - 65536 ELSE c + du
\* x & 0xFFFF on a two's complement i32: the low 16 bits of the 32-bit pattern of x
Two32 == 65536 * 65536            \* 4294967296 (TLC cannot read a literal this big)
And16I32(x) == LET pat == IF x < 0 THEN x + Two32 ELSE x IN pat - (pat \div 65536) * 65536
\* "as u16" after the mask is the identity; by cases on the plain sum
ByCases(c, d) == IF c + d < 0 THEN c + d + 65536 ELSE IF c + d > 65535 THEN c + d - 65536 ELSE c + d

U16(x) == x >= 0 /\ x <= 65535
I16(x) == x >= -32768 /\ x <= 32767
=============================================================================
