----------------------------- MODULE PCffInt_apa -----------------------------
(* Apalache obligations over PCffInt (Init => Inv, unbounded SMT integers in the stated ranges).        *)
EXTENDS PCffInt
VARIABLES
  \* @type: Int;
  v,
  \* @type: Int;
  left,
  \* @type: Int;
  b0,
  \* @type: Int;
  b1,
  \* @type: Int;
  b2,
  \* @type: Int;
  b3,
  \* @type: Int;
  b4,
  \* @type: Int;
  s1,      \* signed base-256 digits of v (s1 the signed top digit)
  \* @type: Int;
  d2,
  \* @type: Int;
  d3,
  \* @type: Int;
  d4
\* @type: <<Int, Int, Int, Int, Int, Int, Int, Int, Int, Int, Int>>;
vars == <<v, left, b0, b1, b2, b3, b4, s1, d2, d3, d4>>
Init ==
  /\ v \in Int /\ left \in Int /\ b0 \in Int /\ b1 \in Int /\ b2 \in Int /\ b3 \in Int /\ b4 \in Int
  /\ IsI32(v) /\ left >= 0 /\ Byte(b0) /\ Byte(b1) /\ Byte(b2) /\ Byte(b3) /\ Byte(b4)
  /\ s1 \in Int /\ d2 \in Int /\ d3 \in Int /\ d4 \in Int
Next == UNCHANGED vars

\* The digits of v by repeated division of the REMAINDER (each step one division by a numeral).  DigitsTie is proved
\* from InitD0; InitD adds it as a redundant conjunct (same states, for every v) that spares the solver relating
\* v \div 16777216, v \div 65536 and v \div 256 to each other in the 5-byte lemmas.
InitD0 ==
  /\ Init
  /\ s1 = v \div 16777216
  /\ d2 = (v % 16777216) \div 65536
  /\ d3 = ((v % 16777216) % 65536) \div 256
  /\ d4 = ((v % 16777216) % 65536) % 256
DigitsTie ==
  /\ s1 >= -128 /\ s1 <= 127 /\ Byte(d2) /\ Byte(d3) /\ Byte(d4)
  /\ v = s1 * 16777216 + d2 * 65536 + d3 * 256 + d4
InitD == InitD0 /\ DigitsTie
\* BE4s writes exactly these digits (the top one as a byte)
BE4sDigits == BE4s(v) = <<IF s1 < 0 THEN s1 + 256 ELSE s1, d2, d3, d4>>

\* e followed by garbage g1..g4 where the encoding ends
\* @type: (<<Int, Int, Int, Int, Int, Int>>, Int) => { t: Str, v: Int, n: Int };
TokOfEnc(e, lf) ==
  TokInt(lf, e[2], IF e[1] >= 2 THEN e[3] ELSE b1, IF e[1] >= 3 THEN e[4] ELSE b2,
         IF e[1] >= 4 THEN e[5] ELSE b3, IF e[1] >= 5 THEN e[6] ELSE b4)
\* @type: (<<Int, Int, Int, Int, Int, Int>>, Int) => Bool;
GoodEnc(e, size) ==
  /\ e[1] = size /\ Byte(e[2]) /\ Byte(e[3]) /\ Byte(e[4]) /\ Byte(e[5]) /\ Byte(e[6])
  /\ left >= size => TokOfEnc(e, left) = [t |-> "i", v |-> v, n |-> size]
  /\ left < size => TokOfEnc(e, left).t # "i"

\* C1: Dec(Enc(v)) = v for ALL 32-bit integers in the shortest form (five ranges), whatever follows the encoding
RoundTrip == GoodEnc(EncIntOp(v), IntSize(v))
\* (the same, one range at a time: RoundTrip is the conjunction of the four, IntSize(v) being one of 1, 2, 3, 5)
RoundTripAt(k) == IntSize(v) = k => GoodEnc(EncIntOp(v), k)
RoundTrip1 == RoundTripAt(1)
RoundTrip2 == RoundTripAt(2)
RoundTrip3 == RoundTripAt(3)
RoundTrip5 == RoundTripAt(5)
IntSizeRange == IntSize(v) \in {1, 2, 3, 5}
Form3 == IntSize(v) <= 3 => GoodEnc(Enc3(v), 3)
Form5 == GoodEnc(Enc5(v), 5)
\* C2: ... and in every form a writer may choose (Dev_IntEncoding)
RoundTripForms == \A form \in {1, 2, 3, 5} : form \in Dev_IntEncoding(v) => GoodEnc(EncIntForm(v, form), form)
\* C3: the tokenizer on ALL byte strings: an integer token has a 32-bit value in the range of its form, fits in the
\*     bytes that exist, and a 1- or 2-byte token is the shortest form of its value, byte for byte
DecodeExact ==
  LET k == TokInt(left, b0, b1, b2, b3, b4) IN
  k.t = "i" =>
    /\ IsI32(k.v) /\ k.n \in {1, 2, 3, 5} /\ k.n <= left
    /\ (k.n = 1 => IntSize(k.v) = 1 /\ EncIntOp(k.v)[2] = b0)
    /\ (k.n = 2 => IntSize(k.v) = 2 /\ EncIntOp(k.v)[2] = b0 /\ EncIntOp(k.v)[3] = b1)
    /\ (k.n = 3 => k.v >= -32768 /\ k.v <= 32767 /\ Enc3(k.v)[3] = b1 /\ Enc3(k.v)[4] = b2)
    /\ (k.n = 5 => Enc5(k.v)[3] = b1 /\ Enc5(k.v)[4] = b2 /\ Enc5(k.v)[5] = b3 /\ Enc5(k.v)[6] = b4)
\* (the same, one token size at a time)
DecodeAt(sz) ==
  LET k == TokInt(left, b0, b1, b2, b3, b4) IN
  (k.t = "i" /\ k.n = sz) =>
    /\ IsI32(k.v) /\ sz <= left
    /\ (sz = 1 => IntSize(k.v) = 1 /\ EncIntOp(k.v)[2] = b0)
    /\ (sz = 2 => IntSize(k.v) = 2 /\ EncIntOp(k.v)[2] = b0 /\ EncIntOp(k.v)[3] = b1)
    /\ (sz = 3 => k.v >= -32768 /\ k.v <= 32767 /\ Enc3(k.v)[3] = b1 /\ Enc3(k.v)[4] = b2)
    /\ (sz = 5 => Enc5(k.v)[3] = b1 /\ Enc5(k.v)[4] = b2 /\ Enc5(k.v)[5] = b3 /\ Enc5(k.v)[6] = b4)
Decode1 == DecodeAt(1)
Decode2 == DecodeAt(2)
Decode3 == DecodeAt(3)
Decode5 == DecodeAt(5)
DecodeSizes == LET k == TokInt(left, b0, b1, b2, b3, b4) IN k.t = "i" => k.n \in {1, 2, 3, 5}
\* NOT discharged as single queries (time-outs of 200 - 250 s): RoundTrip, RoundTripForms, DecodeExact.  Discharged
\* instead: IntSizeRange + RoundTrip1/2/3 (+ RoundTrip5 from InitD), Form3, Form5 (InitD) - whose conjunction is
\* RoundTrip and RoundTripForms by the definitions of IntSize and Dev_IntEncoding - and DecodeSizes + Decode1/2/3/5.
\* planted FALSE lemma: the 2-byte forms reach 1132
PlantedFalse == (v = 1132) => IntSize(v) = 2 \/ TokOfEnc(EncIntOp(v), 5).n = 2
=============================================================================
