--------------------------- MODULE PSfntSum_tlaps ---------------------------
(* TLAPS theorems over PSfntSum (SMT back end), limbs as explicit integers.                             *)
EXTENDS PSfntSum, TLAPS
LimbS == 0 .. 65535

\* (Add32 / Sub32 exactness is NOT proved here: tlapm's SMT encoding does not get through "(al + bl) \div 65536 \in {0, 1}"
\* within its time limit; those lemmas are discharged by Apalache only - PSfntSum_apa!AddSubExact.)

THEOREM LessExact ==
  \A ah \in LimbS, al \in LimbS, bh \in LimbS, bl \in LimbS :
    Less32(<<ah, al>>, <<bh, bl>>) <=> (ah * 65536 + al < bh * 65536 + bl)
  BY SMT DEF Less32, LimbS

THEOREM AdjustTotal ==
  \A ah \in LimbS, al \in LimbS : Add32(<<ah, al>>, Sub32(Magic, <<ah, al>>)) = Magic
  BY SMT DEF Add32, Sub32, Magic, LimbS
=============================================================================
