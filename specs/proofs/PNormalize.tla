----------------------------- MODULE PNormalize -----------------------------
(***************************************************************************)
(* X04 proof module 8 - default normalisation in 16.16 fixed point as      *)
(* specified in specs/Normalize.tla Part 2 (Clamp, FixOne, FixDivFB,       *)
(* RefDefault) over specs/Fix.tla (TruncDiv, Pow2), instantiated at        *)
(* FB = 16, the real Fixed type (MC_Normalize explores a scaled-down fixed *)
(* point exhaustively; the full-width procedure is only sampled).          *)
(* Proved for ALL 32-bit axis records min <= def <= max and ALL 32-bit     *)
(* user values: range, exact end points, sign, monotonicity.               *)
(* The division is by a VARIABLE (max - def, def - min): nonlinear.        *)
(***************************************************************************)
EXTENDS Integers

\* ---- quoted from Fix.tla
\*   TruncDiv(a, b) ==
\*     LET q == (IF a < 0 THEN -a ELSE a) \div (IF b < 0 THEN -b ELSE b) IN
\*     IF (a < 0) = (b < 0) THEN q ELSE -q
\*   Pow2(n) == CASE n = 0 -> 1 [] ... [] n = 16 -> 65536
TruncDiv(a, b) ==
  LET q == (IF a < 0 THEN -a ELSE a) \div (IF b < 0 THEN -b ELSE b) IN
  IF (a < 0) = (b < 0) THEN q ELSE -q
Pow2(n) == CASE n = 0 -> 1 [] n = 1 -> 2 [] n = 2 -> 4 [] n = 3 -> 8 [] n = 4 -> 16 [] n = 5 -> 32
             [] n = 6 -> 64 [] n = 7 -> 128 [] n = 8 -> 256 [] n = 10 -> 1024 [] n = 12 -> 4096
             [] n = 14 -> 16384 [] OTHER -> 65536

\* ---- quoted from Normalize.tla
\*   AMin(ax) == ax[1]   ADef(ax) == ax[2]   AMax(ax) == ax[3]
\*   ValidAxis(ax) == AMin(ax) <= ADef(ax) /\ ADef(ax) <= AMax(ax)
\*   Clamp(x, lo, hi) == IF x < lo THEN lo ELSE IF x > hi THEN hi ELSE x
\*   FixOne(FB) == Pow2(FB)
\*   FixDivFB(FB, a, b) == IF b = 0 THEN 2147483647 ELSE TruncDiv(a * Pow2(FB), b)
\*   RefDefault(FB, ax, v) ==
\*     LET c == Clamp(v, AMin(ax), AMax(ax))
\*         r == IF c < ADef(ax) THEN FixDivFB(FB, -(ADef(ax) - c), ADef(ax) - AMin(ax))
\*              ELSE IF c > ADef(ax) THEN FixDivFB(FB, c - ADef(ax), AMax(ax) - ADef(ax))
\*              ELSE 0
\*     IN Clamp(r, -FixOne(FB), FixOne(FB))
\* @type: <<Int, Int, Int>> => Int;
AMin(ax) == ax[1]
\* @type: <<Int, Int, Int>> => Int;
ADef(ax) == ax[2]
\* @type: <<Int, Int, Int>> => Int;
AMax(ax) == ax[3]
\* @type: <<Int, Int, Int>> => Bool;
ValidAxis(ax) == AMin(ax) <= ADef(ax) /\ ADef(ax) <= AMax(ax)
Clamp(x, lo, hi) == IF x < lo THEN lo ELSE IF x > hi THEN hi ELSE x
FixOne(FB) == Pow2(FB)
FixDivFB(FB, a, b) == IF b = 0 THEN 2147483647 ELSE TruncDiv(a * Pow2(FB), b)
\* the value before the final clamp
\* @type: (Int, <<Int, Int, Int>>, Int) => Int;
RefRaw(FB, ax, v) ==
  LET c == Clamp(v, AMin(ax), AMax(ax)) IN
  IF c < ADef(ax) THEN FixDivFB(FB, -(ADef(ax) - c), ADef(ax) - AMin(ax))
  ELSE IF c > ADef(ax) THEN FixDivFB(FB, c - ADef(ax), AMax(ax) - ADef(ax))
  ELSE 0
\* @type: (Int, <<Int, Int, Int>>, Int) => Int;
RefDefault(FB, ax, v) == Clamp(RefRaw(FB, ax, v), -FixOne(FB), FixOne(FB))

\* @type: (Int, Int, Int) => <<Int, Int, Int>>;
Axis(mn, df, mx) == <<mn, df, mx>>
IsI32(x) == x >= -2147483647 - 1 /\ x <= 2147483647
=============================================================================
