----------------------------- MODULE PWoff2U255 -----------------------------
(***************************************************************************)
(* X04 proof module 3 - WOFF2 255UInt16 (section 6.1.2) as specified in    *)
(* specs/Woff2.tla: U16B, U16At, Dec255At, Forms255, Enc255Form.           *)
(* A byte string is the integers c, x, y (the code byte and the two that   *)
(* may follow) plus the number n of bytes that exist from the position on  *)
(* (Has(s, at + 1, k) of the library is  k + 1 <= n); an encoding is the   *)
(* tuple <<length, b1, b2, b3>>.  MC_Woff2 checks U255RoundTrip on a few   *)
(* hundred values; here: ALL 65536 values, ALL forms, ALL byte strings.    *)
(***************************************************************************)
EXTENDS Integers

\* ---- quoted from Woff2.tla -------------------------------------------------
\*   U16B(v) == <<v \div 256, v % 256>>
\*   U16At(s, at) == s[at + 1] * 256 + s[at + 2]
\*   U255Fail == [ok |-> FALSE, v |-> 0, used |-> 0]
\*   Dec255At(s, at) ==
\*     IF ~Has(s, at, 1) THEN U255Fail
\*     ELSE LET c == s[at + 1] IN
\*          CASE c = 253 -> IF Has(s, at + 1, 2) THEN [ok |-> TRUE, v |-> U16At(s, at + 1), used |-> 3] ELSE U255Fail
\*            [] c = 255 -> IF Has(s, at + 1, 1) THEN [ok |-> TRUE, v |-> s[at + 2] + 253, used |-> 2] ELSE U255Fail
\*            [] c = 254 -> IF Has(s, at + 1, 1) THEN [ok |-> TRUE, v |-> s[at + 2] + 506, used |-> 2] ELSE U255Fail
\*            [] OTHER   -> [ok |-> TRUE, v |-> c, used |-> 1]
\* @type: Int => <<Int, Int>>;
U16B(v) == <<v \div 256, v % 256>>
U16Of(x, y) == x * 256 + y
\* @type: { ok: Bool, v: Int, used: Int };
U255Fail == [ok |-> FALSE, v |-> 0, used |-> 0]
\* @type: (Int, Int, Int, Int) => { ok: Bool, v: Int, used: Int };
Dec255(n, c, x, y) ==
  IF ~(1 <= n) THEN U255Fail
  ELSE CASE c = 253 -> IF 3 <= n THEN [ok |-> TRUE, v |-> U16Of(x, y), used |-> 3] ELSE U255Fail
         [] c = 255 -> IF 2 <= n THEN [ok |-> TRUE, v |-> x + 253, used |-> 2] ELSE U255Fail
         [] c = 254 -> IF 2 <= n THEN [ok |-> TRUE, v |-> x + 506, used |-> 2] ELSE U255Fail
         [] OTHER   -> [ok |-> TRUE, v |-> c, used |-> 1]

\*   Forms255(v) == (IF v < 253 THEN {"one"} ELSE {})
\*             \cup (IF v >= 253 /\ v < 509 THEN {"c255"} ELSE {})
\*             \cup (IF v >= 506 /\ v < 762 THEN {"c254"} ELSE {})
\*             \cup {"c253"}
\*   Enc255Form(v, f) == CASE f = "one"  -> <<v>>
\*                         [] f = "c255" -> <<255, v - 253>>
\*                         [] f = "c254" -> <<254, v - 506>>
\*                         [] f = "c253" -> <<253>> \o U16B(v)
\* @type: Int => Set(Str);
Forms255(v) == (IF v < 253 THEN {"one"} ELSE {})
          \cup (IF v >= 253 /\ v < 509 THEN {"c255"} ELSE {})
          \cup (IF v >= 506 /\ v < 762 THEN {"c254"} ELSE {})
          \cup {"c253"}
\* <<length, b1, b2, b3>> (0 beyond the length)
\* @type: (Int, Str) => <<Int, Int, Int, Int>>;
Enc255Form(v, f) == CASE f = "one"  -> <<1, v, 0, 0>>
                      [] f = "c255" -> <<2, 255, v - 253, 0>>
                      [] f = "c254" -> <<2, 254, v - 506, 0>>
                      [] OTHER      -> <<3, 253, U16B(v)[1], U16B(v)[2]>>
AllForms == {"one", "c255", "c254", "c253"}
Byte(b) == b >= 0 /\ b <= 255
=============================================================================
