--------------------------- MODULE PBinaryReader ---------------------------
(***************************************************************************)
(* X04 proof module 1 - the WINDOW ARITHMETIC of specs/BinaryReader.tla.   *)
(*                                                                         *)
(* This module restates, with the same names and the same text, the        *)
(* non-recursive integer operators that BinaryReader.tla uses to decide    *)
(* offset / offset_length / read_scope / read_array / read_array_upto_hack *)
(* and array element positions.  Nothing here mentions byte sequences: a   *)
(* reader object is reduced to the integers <<lo, len, off, n, stride>>.   *)
(* TLC checks BinaryReader.tla on buffers of <= 47 bytes; the lemmas about *)
(* these operators are proved here for ALL naturals (PBinaryReader_apa.tla *)
(* with Apalache, PBinaryReader_tlaps.tla with TLAPS).  The driver         *)
(* (lib/props/x04.py) binds this module to the library module by a TLC     *)
(* "mirror check" (Mirror_BinaryReader.tla): every operator below is       *)
(* evaluated next to BinaryReader!<same name> on sampled arguments and the *)
(* results must be equal.                                                  *)
(*                                                                         *)
(* HUGE is a CONSTANT here as in the library; the proofs hold for EVERY    *)
(* HUGE >= 1 (MC_BinaryReader uses 1 000 000, the trace judge 2^30).       *)
(***************************************************************************)
EXTENDS Integers

CONSTANT
  \* @type: Int;
  HUGE

\* ---- quoted from BinaryReader.tla ("HUGE-aware arithmetic") ---------------
\*   IsHuge(x) == x >= HUGE
\*   Mul(a, b) == IF a = 0 \/ b = 0 THEN 0
\*                ELSE IF IsHuge(a) \/ IsHuge(b) THEN HUGE
\*                ELSE IF a * b >= HUGE THEN HUGE ELSE a * b
\*   Add(a, b) == IF IsHuge(a) \/ IsHuge(b) THEN HUGE
\*                ELSE IF a + b >= HUGE THEN HUGE ELSE a + b
\*   Min2(a, b) == IF a <= b THEN a ELSE b
IsHuge(x) == x >= HUGE
Mul(a, b) == IF a = 0 \/ b = 0 THEN 0
             ELSE IF IsHuge(a) \/ IsHuge(b) THEN HUGE
             ELSE IF a * b >= HUGE THEN HUGE ELSE a * b
Add(a, b) == IF IsHuge(a) \/ IsHuge(b) THEN HUGE
             ELSE IF a + b >= HUGE THEN HUGE ELSE a + b
Min2(a, b) == IF a <= b THEN a ELSE b

\* ---- quoted from BinaryReader.tla ("The rule of offset_length, shared with read_scope")
\*   OffLenResult(len, k, n) ==
\*     IF (~IsHuge(k) /\ k < len) \/ n = 0
\*     THEN LET avail == IF ~IsHuge(k) /\ k <= len THEN len - k ELSE 0 IN
\*          IF ~IsHuge(n) /\ n <= avail THEN "Ok" ELSE "Eof"
\*     ELSE "BadOffset"
OffLenResult(len, k, n) ==
  IF (~IsHuge(k) /\ k < len) \/ n = 0
  THEN LET avail == IF ~IsHuge(k) /\ k <= len THEN len - k ELSE 0 IN
       IF ~IsHuge(n) /\ n <= avail THEN "Ok" ELSE "Eof"
  ELSE "BadOffset"

\* ---- windows.  BinaryReader.tla builds records with Obj(..); the integer part is:
\*   Obj(kind, lo, len, ..) == [.. lo |-> IF len = 0 THEN 0 ELSE lo, len |-> len ..]
\*   DoOffset:  o == IF ~IsHuge(k) /\ k <= s.len THEN Scope(s.lo + k, s.len - k, b) ELSE Scope(0, 0, b)
\*   SubScope(lo, len, base, k, n) ==
\*     IF ~IsHuge(k) /\ k <= len THEN Scope(lo + k, n, Add(base, k)) ELSE Scope(0, 0, Add(base, k))
\*   DoReadScope: o == Scope(c.lo + c.off, n, ..)      c2 == [c EXCEPT !.off = c.off + n]
\*   DoReadArrayGen: bytes == Mul(n, stride)  a == Array(c.lo + c.off, n, stride, ..)   c2.off = c.off + bytes
\*   Array(lo, n, stride, size, base) == Obj("array", lo, Mul(n, stride), 0, n, stride, size, base)
\*   DoCtxtScope: o == Scope(c.lo + c.off, c.len - c.off, ..)
\*   DoReadArrayUpto: fit == (c.len - c.off) \div SizeOf(ty)   n' == IF IsHuge(n) THEN fit ELSE Min2(n, fit)
\*   ItemPos(a, i) == a.lo + i * a.stride
\* A window is the pair <<lo, len>> with the canonical lo = 0 of an empty window.
\* @type: (Int, Int) => <<Int, Int>>;
Win(lo, len) == <<IF len = 0 THEN 0 ELSE lo, len>>

\* @type: (Int, Int, Int) => <<Int, Int>>;
OffsetWin(lo, len, k) == IF ~IsHuge(k) /\ k <= len THEN Win(lo + k, len - k) ELSE Win(0, 0)
\* @type: (Int, Int, Int, Int) => <<Int, Int>>;
SubScopeWin(lo, len, k, n) == IF ~IsHuge(k) /\ k <= len THEN Win(lo + k, n) ELSE Win(0, 0)
\* @type: (Int, Int, Int) => <<Int, Int>>;
ReadScopeWin(lo, off, n) == Win(lo + off, n)
\* @type: (Int, Int, Int, Int) => <<Int, Int>>;
ArrayWin(lo, off, n, stride) == Win(lo + off, Mul(n, stride))
\* @type: (Int, Int, Int) => <<Int, Int>>;
CtxtScopeWin(lo, len, off) == Win(lo + off, len - off)
UptoCount(len, off, size, n) ==
  LET fit == (len - off) \div size IN IF IsHuge(n) THEN fit ELSE Min2(n, fit)
ItemPos(lo, stride, i) == lo + i * stride

\* ---- the exact rule, with no HUGE (what src/binary/read.rs computes on usize with checked
\* arithmetic: offset_length fails unless the offset is inside the window or the length is 0,
\* then needs `n` bytes from k)
ExactOffLen(len, k, n) ==
  IF k < len \/ n = 0
  THEN (IF n <= (IF k <= len THEN len - k ELSE 0) THEN "Ok" ELSE "Eof")
  ELSE "BadOffset"
\* what the harness logs for a usize argument: exact below HUGE, the sentinel HUGE from there on
Cap(x) == IF x >= HUGE THEN HUGE ELSE x

\* [a, a + n) is inside [b, b + m); an empty window is inside anything
\* @type: (<<Int, Int>>, <<Int, Int>>) => Bool;
Inside(w, v) == w[2] = 0 \/ (v[1] <= w[1] /\ w[1] + w[2] <= v[1] + v[2])

\* element sizes / strides for which the array lemmas are proved (every SIZE of BinaryReader!AllTypes
\* is in 1 .. 15; strides up to 32)
Strides == 1 .. 32
=============================================================================
