--------------------------- MODULE PFixLimb_tlaps ---------------------------
(* TLAPS theorems over PFixLimb (SMT back end): the nonlinear ingredient and the carry bound.            *)
EXTENDS PFixLimb, TLAPS
LimbS == 0 .. 16383
THEOREM ProductPolynomial ==
  \A a1 \in LimbS, a2 \in LimbS, b1 \in LimbS, b2 \in LimbS :
    Val2(a1, a2) * Val2(b1, b2) = a1 * b1 + B * (a1 * b2 + a2 * b1) + B * B * (a2 * b2)
  BY SMT DEF Val2, B, LimbS
THEOREM CarryBound ==
  /\ MaxProd = 268402689 /\ MaxProd < 268435456
  /\ MaxCols * MaxProd + CarryMax <= TlcMax
  BY SMT DEF MaxProd, MaxCols, CarryMax, TlcMax, B
=============================================================================
