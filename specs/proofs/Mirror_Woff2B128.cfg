SPECIFICATION MSpec
CHECK_DEADLOCK FALSE
