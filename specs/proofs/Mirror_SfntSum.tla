---------------------------- MODULE Mirror_SfntSum ----------------------------
(* X04 mirror check 4 (TLC): PSfntSum next to SfntWrite.tla: L32, Add32, Sub32, Less32, Magic, Sum32 as the  *)
(* fold of Add32 the inductive proof steps through, the word of WordSum, and AdjustmentOK on a projection.   *)
EXTENDS PSfntSum, Sequences, TLC, Json, IOUtils
L == INSTANCE SfntWrite
VARIABLE i
Rec == ndJsonDeserialize(IOEnv.ARGS)
Report(e, what, want, got) ==
  PrintT(<<"MISMATCH", ToJson([i |-> e.i, plant |-> e.plant, what |-> what, want |-> want, got |-> got])>>)
Eq(e, what, want, got) == IF want = got THEN TRUE ELSE Report(e, what, want, got)
Check(e) ==
  LET a == e.a  b == e.b  c == e.c  w == e.w
      tables == Add32(b, Add32(c, <<0, 0>>))
      proj(adj, total) == [records |-> <<[tag |-> L!HeadTag, measured |-> b], [tag |-> <<28524, 25441>>, measured |-> c]>>,
                           totalSum |-> total, headAdj |-> adj, dirSum |-> a]
      adjGood == Sub32(Magic, Add32(a, tables))
  IN
  /\ Eq(e, "L32", L!L32(a[1], a[2]), L32(a[1], a[2]))
  /\ Eq(e, "Add32", L!Add32(a, IF e.plant = 1 THEN <<b[1], (b[2] + 1) % 65536>> ELSE b), Add32(a, b))
  /\ Eq(e, "Sub32", L!Sub32(a, b), Sub32(a, b))
  /\ Eq(e, "Less32", L!Less32(a, b), Less32(a, b))
  /\ Eq(e, "Magic", L!Magic, Magic)
  /\ Eq(e, "Sum32", L!Sum32(<<a, b, c>>), Add32(a, Add32(b, Add32(c, <<0, 0>>))))
  /\ Eq(e, "Word", L!WordSum(w), Word(w[1], w[2], w[3], w[4]))
  /\ Eq(e, "WordSum8", L!WordSum(w \o <<a[1] % 256, b[1] % 256>>),
        Add32(Word(w[1], w[2], w[3], w[4]), Word(a[1] % 256, b[1] % 256, 0, 0)))
  /\ Eq(e, "AdjustmentOK.good", L!AdjustmentOK(proj(adjGood, Magic)), AdjOK(Magic, adjGood, a, tables))
  /\ Eq(e, "AdjustmentOK.any", L!AdjustmentOK(proj(c, Magic)), AdjOK(Magic, c, a, tables))
  /\ Eq(e, "AdjustmentOK.total", L!AdjustmentOK(proj(adjGood, c)), AdjOK(c, adjGood, a, tables))
MInit == i = 1
MNext == i <= Len(Rec) /\ Check(Rec[i]) /\ i' = i + 1
MSpec == MInit /\ [][MNext]_i
=============================================================================
