CONSTANTS
  HUGE = 1000000
SPECIFICATION MSpec
CHECK_DEADLOCK FALSE
