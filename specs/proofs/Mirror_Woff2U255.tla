--------------------------- MODULE Mirror_Woff2U255 ---------------------------
(* X04 mirror check 3 (TLC): PWoff2U255 next to Woff2.tla: U16B, U255Fail, Dec255 vs Dec255At on real byte   *)
(* sequences at an offset, Forms255, Enc255Form (as sequences) and the library's own U255RoundTrip.         *)
EXTENDS PWoff2U255, Sequences, TLC, Json, IOUtils
L == INSTANCE Woff2
VARIABLE i
Rec == ndJsonDeserialize(IOEnv.ARGS)
Report(e, what, want, got) ==
  PrintT(<<"MISMATCH", ToJson([i |-> e.i, plant |-> e.plant, what |-> what, want |-> want, got |-> got])>>)
Eq(e, what, want, got) == IF want = got THEN TRUE ELSE Report(e, what, want, got)
Min2(a, b) == IF a <= b THEN a ELSE b
Check(e) ==
  LET str == e.pad \o SubSeq(<<e.c, e.x, e.y, 7, 9>>, 1, Min2(e.n, 5)) IN
  /\ Eq(e, "U16B", L!U16B(e.v), U16B(e.v))
  /\ Eq(e, "U16Of", L!U16At(<<1, e.x, e.y>>, 1), U16Of(e.x, e.y))
  /\ Eq(e, "U255Fail", L!U255Fail, U255Fail)
  /\ Eq(e, "Dec255", L!Dec255At(str, Len(e.pad)), Dec255(IF e.plant = 1 THEN e.n - 1 ELSE e.n, e.c, e.x, e.y))
  /\ Eq(e, "Forms255", L!Forms255(e.v), Forms255(e.v))
  /\ \A f \in Forms255(e.v) :
        LET p == Enc255Form(e.v, f) IN Eq(e, "Enc255Form", L!Enc255Form(e.v, f), SubSeq(<<p[2], p[3], p[4]>>, 1, p[1]))
  /\ Eq(e, "AllForms", (L!Forms255(e.v) \subseteq AllForms), TRUE)
  /\ Eq(e, "U255RoundTrip", L!U255RoundTrip(e.v), TRUE)
MInit == i = 1
MNext == i <= Len(Rec) /\ Check(Rec[i]) /\ i' = i + 1
MSpec == MInit /\ [][MNext]_i
=============================================================================
