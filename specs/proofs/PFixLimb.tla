------------------------------ MODULE PFixLimb ------------------------------
(***************************************************************************)
(* X04 proof module 7 - the limb arithmetic of specs/Fix.tla (big integers *)
(* as little-endian limbs in base B = 2^14: AddAt / MagAdd, SubAt / MagSub,*)
(* Col / MulAt / MagMul).  The recursive operators are restated as their   *)
(* one-position STEP (exactly the LET of the library) and unrolled for the *)
(* 2 x 2 limb product and the 3-limb sum / difference.  Fix.tla's header   *)
(* claims "a limb product is < 2^28 and a column of at most 7 of them plus *)
(* a carry stays below 2^31"; MC_Normalize / MC_Variation exercise it on a *)
(* bounded set.  Proved here for ALL limbs:                                *)
(*   - the steps are exact (digit + B * carry = column sum) and the carry  *)
(*     bounds are inductive, so no column ever exceeds TLC's 2^31 - 1;     *)
(*   - the unrolled 2 x 2 product equals the polynomial in the partial     *)
(*     products (linear), and - with the partial products a_i * b_j        *)
(*     themselves, a nonlinear obligation - the product of the two values. *)
(* NOT proved: MagMul for more than 2 x 2 limbs, Trim, the sign handling   *)
(* of ZAdd / ZMul, the rationals.                                          *)
(***************************************************************************)
EXTENDS Integers

\* ---- quoted from Fix.tla
\*   B == 16384
\*   AddAt(a, b, i, n, c) == IF i > n THEN (IF c = 0 THEN <<>> ELSE <<c>>)
\*     ELSE LET s == Limb(a, i) + Limb(b, i) + c IN <<s % B>> \o AddAt(a, b, i + 1, n, s \div B)
\*   SubAt(a, b, i, n, br) == IF i > n THEN <<>>
\*     ELSE LET s == Limb(a, i) - Limb(b, i) - br IN
\*          <<s % B>> \o SubAt(a, b, i + 1, n, IF s < 0 THEN 1 ELSE 0)
\*   ColSum(a, b, k, i, hi) == IF i > hi THEN 0 ELSE a[i] * b[k + 1 - i] + ColSum(a, b, k, i + 1, hi)
\*   MulAt(a, b, k, n, c) == IF k > n THEN MagOfNat(c)
\*     ELSE LET s == Col(a, b, k) + c IN <<s % B>> \o MulAt(a, b, k + 1, n, s \div B)
\*   MagOfNat(n) == IF n = 0 THEN <<>> ELSE <<n % B>> \o MagOfNat(n \div B)
B == 16384

\* one position of AddAt: <<digit, carry out>>
\* @type: (Int, Int, Int) => <<Int, Int>>;
AddStep(x, y, c) == LET s == x + y + c IN <<s % B, s \div B>>
\* one position of SubAt: <<digit, borrow out>>
\* @type: (Int, Int, Int) => <<Int, Int>>;
SubStep(x, y, br) == LET s == x - y - br IN <<s % B, IF s < 0 THEN 1 ELSE 0>>
\* one column of MulAt: <<digit, carry out>>
\* @type: (Int, Int) => <<Int, Int>>;
MulStep(col, c) == LET s == col + c IN <<s % B, s \div B>>

\* MagAdd of two 3-limb magnitudes, AddAt(a, b, 1, 3, 0) unrolled: <<r1, r2, r3, r4>> (r4 = 0: no fourth limb)
\* @type: (Int, Int, Int, Int, Int, Int) => <<Int, Int, Int, Int>>;
Add3(a1, a2, a3, b1, b2, b3) ==
  LET t1 == AddStep(a1, b1, 0)  t2 == AddStep(a2, b2, t1[2])  t3 == AddStep(a3, b3, t2[2]) IN
  <<t1[1], t2[1], t3[1], t3[2]>>
\* SubAt(a, b, 1, 3, 0) unrolled (requires a >= b): <<r1, r2, r3, final borrow>>
\* @type: (Int, Int, Int, Int, Int, Int) => <<Int, Int, Int, Int>>;
Sub3(a1, a2, a3, b1, b2, b3) ==
  LET t1 == SubStep(a1, b1, 0)  t2 == SubStep(a2, b2, t1[2])  t3 == SubStep(a3, b3, t2[2]) IN
  <<t1[1], t2[1], t3[1], t3[2]>>
\* MulAt(<<a1, a2>>, <<b1, b2>>, 1, 3, 0) unrolled on the column sums  Col 1 = a1 b1, Col 2 = a1 b2 + a2 b1,
\* Col 3 = a2 b2:  <<r1, r2, r3, r4>>  (MagOfNat of the last carry is the one limb r4, or nothing when it is 0)
\* @type: (Int, Int, Int) => <<Int, Int, Int, Int>>;
Mul3Cols(col1, col2, col3) ==
  LET t1 == MulStep(col1, 0)  t2 == MulStep(col2, t1[2])  t3 == MulStep(col3, t2[2]) IN
  <<t1[1], t2[1], t3[1], t3[2]>>
\* @type: (Int, Int, Int, Int) => <<Int, Int, Int, Int>>;
Mul2x2(a1, a2, b1, b2) == Mul3Cols(a1 * b1, a1 * b2 + a2 * b1, a2 * b2)

\* ---- the mathematics
IsLimb(x) == x >= 0 /\ x <= B - 1
Val2(a1, a2) == a1 + B * a2
Val3(a1, a2, a3) == a1 + B * a2 + B * B * a3
\* @type: <<Int, Int, Int, Int>> => Int;
Val4(r) == r[1] + B * r[2] + B * B * r[3] + B * B * B * r[4]
MaxProd == (B - 1) * (B - 1)          \* 268402689 < 2^28
MaxCols == 7                          \* "one of the two factors has at most 7 limbs"
CarryMax == MaxCols * B               \* inductive bound of the carry between columns
TlcMax == 2147483647
=============================================================================
