------------------------- MODULE PBinaryReader_apa -------------------------
(***************************************************************************)
(* Apalache obligations over PBinaryReader (unbounded integers, any HUGE). *)
(*                                                                         *)
(* Part A: lemmas as state invariants of a one-state system whose initial  *)
(*   state is ANY tuple of naturals (checked with --length=0: Init => Inv  *)
(*   is one SMT query over unbounded integers).                            *)
(* Part B: the reader as a transition system on ONE object (as             *)
(*   MC_BinaryReader does: an operation on an object never affects         *)
(*   another) over a root of ANY length; IndInv is shown inductive         *)
(*   (--init=IndInit --inv=IndInv --length=1) and to hold initially.       *)
(***************************************************************************)
EXTENDS PBinaryReader

VARIABLES
  \* @type: Int;
  root,      \* length of the root buffer
  \* @type: Str;
  kind,      \* "scope" | "ctxt" | "array"
  \* @type: Int;
  lo,
  \* @type: Int;
  len,
  \* @type: Int;
  off,
  \* @type: Int;
  cnt,       \* array: number of elements
  \* @type: Int;
  stride,
  \* @type: Int;
  k,         \* free arguments of the lemma part
  \* @type: Int;
  n,
  \* @type: Bool;
  failed     \* the last operation failed

vars == <<root, kind, lo, len, off, cnt, stride, k, n, failed>>

CInit == HUGE \in Nat /\ HUGE >= 1

\* ---------------------------------------------------------------- Part A
LemmaInit ==
  /\ root \in Nat /\ lo \in Nat /\ len \in Nat /\ off \in Nat /\ cnt \in Nat
  /\ stride \in Strides /\ k \in Nat /\ n \in Nat
  /\ kind = "scope" /\ failed = FALSE
Stutter == UNCHANGED vars

\* A1: a successful offset_length / read_scope lies inside the window it was taken from, has
\*     exactly n bytes and n is not huge
OffLenOkInside ==
  (len < HUGE /\ OffLenResult(len, k, n) = "Ok") =>
     /\ n < HUGE /\ n <= len
     /\ (n = 0 \/ k + n <= len)
     /\ Inside(SubScopeWin(lo, len, k, n), Win(lo, len))
     /\ SubScopeWin(lo, len, k, n)[2] = n
\* A2: HUGE is a sound representative: the rule with HUGE equals the exact rule on unbounded
\*     naturals, and depends on its arguments only through what the harness logs (Cap)
HugeSound ==
  len < HUGE =>
     /\ OffLenResult(len, k, n) = ExactOffLen(len, k, n)
     /\ OffLenResult(len, k, n) = OffLenResult(len, Cap(k), Cap(n))
\* A3: offset never fails and is inside; beyond the end it is the empty window
OffsetInside ==
  len < HUGE =>
     /\ Inside(OffsetWin(lo, len, k), Win(lo, len))
     /\ (k <= len => OffsetWin(lo, len, k) = Win(lo + k, len - k))
     /\ (k > len => OffsetWin(lo, len, k) = <<0, 0>>)
\* A4: an array of n elements of stride s is granted iff n * s bytes are left (for every n, also
\*     when n * s is far beyond HUGE), and then its window is exactly n * s bytes inside the rest
ArrayNeeds ==
  (len < HUGE /\ off <= len) =>
     /\ (OffLenResult(len, off, Mul(n, stride)) = "Ok") = (n * stride <= len - off)
     /\ (OffLenResult(len, off, Mul(n, stride)) = "Ok") =>
           /\ ArrayWin(lo, off, n, stride)[2] = n * stride
           /\ Inside(ArrayWin(lo, off, n, stride), CtxtScopeWin(lo, len, off))
     /\ Mul(n, stride) = Cap(n * stride)
     /\ Mul(n, stride) = Mul(Cap(n), stride)
\* A5: read_array_upto_hack never fails: its count always fits, is maximal, and never exceeds n
UptoFits ==
  (len < HUGE /\ off <= len) =>
     LET m == UptoCount(len, off, stride, n) IN
     /\ m >= 0 /\ m <= n /\ m * stride <= len - off
     /\ OffLenResult(len, off, Mul(m, stride)) = "Ok"
     /\ (m < n => (m + 1) * stride > len - off)
\* A6: element i < cnt of an array (window of cnt * stride bytes, element size k <= stride) lies inside the
\*     array's window, and elements i < j do not overlap
ItemInside ==
  (k <= stride /\ n < cnt) =>
     /\ ItemPos(lo, stride, n) >= lo
     /\ ItemPos(lo, stride, n) + k <= lo + cnt * stride
     /\ ItemPos(lo, stride, n) + k <= ItemPos(lo, stride, n + 1)
\* planted FALSE lemma (the driver requires the checker to refute it: the lemma part is not vacuous).
\* It is OffLenOkInside without the n = 0 escape: offset_length(k > len, 0) is Ok in the library.
PlantedFalse ==
  (len < HUGE /\ OffLenResult(len, k, n) = "Ok") => k + n <= len

LemmaInv == OffLenOkInside /\ HugeSound /\ OffsetInside /\ ArrayNeeds /\ UptoFits /\ ItemInside

\* ---------------------------------------------------------------- Part B
\* the design invariants WindowInRoot / CursorInWindow / ArrayExact of BinaryReader.tla on one object
IndInv ==
  /\ root \in Nat /\ root < HUGE
  /\ kind \in {"scope", "ctxt", "array"}
  /\ lo \in Nat /\ len \in Nat /\ off \in Nat /\ cnt \in Nat /\ stride \in Nat
  /\ k \in Nat /\ n \in Nat /\ failed \in BOOLEAN
  /\ lo + len <= root                                  \* WindowInRoot
  /\ (len = 0 => lo = 0)                               \* canonical empty window
  /\ off <= len                                        \* CursorInWindow
  /\ (kind # "ctxt" => off = 0)
  /\ (kind = "array" => len = cnt * stride /\ stride \in Strides)     \* ArrayExact
  /\ (kind # "array" => cnt = 0 /\ stride = 0)
IndInit == IndInv

\* the root scope: ReadScope::new(buffer)
Init ==
  /\ root \in Nat /\ root < HUGE
  /\ kind = "scope" /\ lo = 0 /\ len = root /\ off = 0 /\ cnt = 0 /\ stride = 0
  /\ k = 0 /\ n = 0 /\ failed = FALSE

\* @type: (Str, <<Int, Int>>) => Bool;
Become(kd, w) ==
  /\ kind' = kd /\ lo' = w[1] /\ len' = w[2] /\ off' = 0 /\ cnt' = 0 /\ stride' = 0 /\ failed' = FALSE
Fail == failed' = TRUE /\ UNCHANGED <<kind, lo, len, off, cnt, stride>>

DoOffset == kind = "scope" /\ Become("scope", OffsetWin(lo, len, k'))
DoOffsetLength ==
  /\ kind = "scope"
  /\ IF OffLenResult(len, k', n') = "Ok" THEN Become("scope", SubScopeWin(lo, len, k', n')) ELSE Fail
DoCtxt == kind = "scope" /\ Become("ctxt", Win(lo, len))
\* read_u8 .. read_i64be, read::<T>: n' is SIZE
DoRead ==
  /\ kind = "ctxt"
  /\ IF off + n' <= len
     THEN off' = off + n' /\ failed' = FALSE /\ UNCHANGED <<kind, lo, len, cnt, stride>>
     ELSE Fail
\* read_scope(n) / read_slice(n): continue with the moved context or with the new window
DoReadScope ==
  /\ kind = "ctxt"
  /\ IF OffLenResult(len, off, n') = "Ok"
     THEN \/ off' = off + n' /\ failed' = FALSE /\ UNCHANGED <<kind, lo, len, cnt, stride>>
          \/ Become("scope", ReadScopeWin(lo, off, n'))
     ELSE Fail
\* read_array / read_array_stride / read_array_dep: n' elements of stride'
DoReadArray ==
  /\ kind = "ctxt"
  /\ \E s \in Strides :
       LET bytes == Mul(n', s) IN
       IF OffLenResult(len, off, bytes) = "Ok"
       THEN \/ off' = off + bytes /\ failed' = FALSE /\ UNCHANGED <<kind, lo, len, cnt, stride>>
            \/ LET w == ArrayWin(lo, off, n', s) IN
               /\ kind' = "array" /\ lo' = w[1] /\ len' = w[2] /\ off' = 0 /\ cnt' = n' /\ stride' = s
               /\ failed' = FALSE
       ELSE Fail
DoCtxtScope == kind = "ctxt" /\ Become("scope", CtxtScopeWin(lo, len, off))

Next ==
  /\ k' \in Nat /\ n' \in Nat
  /\ root' = root
  /\ \/ DoOffset \/ DoOffsetLength \/ DoCtxt \/ DoRead \/ DoReadScope \/ DoCtxtScope
     \/ (DoReadArray)
     \/ (UNCHANGED <<kind, lo, len, off, cnt, stride, failed>>)

\* FailNoEffect as an action invariant: a failing operation changes nothing
FailNoEffect == failed' => UNCHANGED <<root, kind, lo, len, off, cnt, stride>>
\* DerivedInside as an action invariant: whatever the step produced lies inside the old window, from the
\* cursor on
DerivedInside == Inside(<<lo', len'>>, <<lo + (IF kind' = kind THEN 0 ELSE off), len - (IF kind' = kind THEN 0 ELSE off)>>)
\* planted FALSE inductive claim: without the canonical-empty-window clause the cursor bound alone is not
\* what is violated - the claim "the cursor never moves" is refuted by DoRead
PlantedFalseStep == off' = off \/ kind' # kind
=============================================================================
