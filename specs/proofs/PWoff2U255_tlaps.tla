-------------------------- MODULE PWoff2U255_tlaps --------------------------
(* TLAPS theorems over PWoff2U255 (SMT back end): the lemmas of PWoff2U255_apa.tla as closed formulas. *)
EXTENDS PWoff2U255, TLAPS

ByteS == 0 .. 255

LEMMA DivMod256 == \A v \in 0 .. 65535 : (v \div 256) * 256 + (v % 256) = v
  OBVIOUS

THEOREM RoundTrip ==
  \A v \in 0 .. 65535, n \in Nat, g1 \in ByteS, g2 \in ByteS :
    /\ "c253" \in Forms255(v)
    /\ \A f \in AllForms : f \in Forms255(v) =>
         LET e == Enc255Form(v, f)
             b2 == IF e[1] >= 2 THEN e[3] ELSE g1
             b3 == IF e[1] >= 3 THEN e[4] ELSE g2
         IN /\ e[1] \in 1 .. 3 /\ e[2] \in ByteS /\ e[3] \in ByteS /\ e[4] \in ByteS
            /\ n >= e[1] => Dec255(n, e[2], b2, b3) = [ok |-> TRUE, v |-> v, used |-> e[1]]
            /\ n < e[1] => ~Dec255(n, e[2], b2, b3).ok
<1> SUFFICES ASSUME NEW v \in 0 .. 65535, NEW n \in Nat, NEW g1 \in ByteS, NEW g2 \in ByteS
             PROVE  /\ "c253" \in Forms255(v)
                    /\ \A f \in AllForms : f \in Forms255(v) =>
                         LET e == Enc255Form(v, f)
                             b2 == IF e[1] >= 2 THEN e[3] ELSE g1
                             b3 == IF e[1] >= 3 THEN e[4] ELSE g2
                         IN /\ e[1] \in 1 .. 3 /\ e[2] \in ByteS /\ e[3] \in ByteS /\ e[4] \in ByteS
                            /\ n >= e[1] => Dec255(n, e[2], b2, b3) = [ok |-> TRUE, v |-> v, used |-> e[1]]
                            /\ n < e[1] => ~Dec255(n, e[2], b2, b3).ok
    OBVIOUS
<1>0. "c253" \in Forms255(v)
    BY DEF Forms255
<1>w1. v \div 256 \in 0 .. 255
    BY SMT
<1>w2. v % 256 \in 0 .. 255
    BY SMT
<1>w3. (v \div 256) * 256 + (v % 256) = v
    BY DivMod256
<1>w. /\ v \div 256 \in ByteS /\ v % 256 \in ByteS /\ (v \div 256) * 256 + (v % 256) = v
    BY <1>w1, <1>w2, <1>w3 DEF ByteS
<1>1. ASSUME "one" \in Forms255(v)
      PROVE LET e == Enc255Form(v, "one") IN
            /\ e[1] = 1 /\ e[2] \in ByteS /\ e[3] \in ByteS /\ e[4] \in ByteS
            /\ n >= 1 => Dec255(n, e[2], g1, g2) = [ok |-> TRUE, v |-> v, used |-> 1]
            /\ n < 1 => ~Dec255(n, e[2], g1, g2).ok
    BY <1>1, SMT DEF Forms255, Enc255Form, Dec255, U255Fail, ByteS
<1>2. ASSUME "c255" \in Forms255(v)
      PROVE LET e == Enc255Form(v, "c255") IN
            /\ e[1] = 2 /\ e[2] \in ByteS /\ e[3] \in ByteS /\ e[4] \in ByteS
            /\ n >= 2 => Dec255(n, e[2], e[3], g2) = [ok |-> TRUE, v |-> v, used |-> 2]
            /\ n < 2 => ~Dec255(n, e[2], e[3], g2).ok
    BY <1>2, SMT DEF Forms255, Enc255Form, Dec255, U255Fail, ByteS
<1>3. ASSUME "c254" \in Forms255(v)
      PROVE LET e == Enc255Form(v, "c254") IN
            /\ e[1] = 2 /\ e[2] \in ByteS /\ e[3] \in ByteS /\ e[4] \in ByteS
            /\ n >= 2 => Dec255(n, e[2], e[3], g2) = [ok |-> TRUE, v |-> v, used |-> 2]
            /\ n < 2 => ~Dec255(n, e[2], e[3], g2).ok
    BY <1>3, SMT DEF Forms255, Enc255Form, Dec255, U255Fail, ByteS
<1>4. LET e == Enc255Form(v, "c253") IN
            /\ e[1] = 3 /\ e[2] \in ByteS /\ e[3] \in ByteS /\ e[4] \in ByteS
            /\ n >= 3 => Dec255(n, e[2], e[3], e[4]) = [ok |-> TRUE, v |-> v, used |-> 3]
            /\ n < 3 => ~Dec255(n, e[2], e[3], e[4]).ok
<2> DEFINE q == v \div 256  r == v % 256
<2>1. q \in ByteS /\ r \in ByteS /\ q * 256 + r = v
    BY <1>w
<2>2. Enc255Form(v, "c253") = <<3, 253, q, r>>
    BY DEF Enc255Form, U16B
<2> HIDE DEF q, r
<2> QED BY <2>1, <2>2, SMT DEF Dec255, U255Fail, ByteS, U16Of
<1> QED BY <1>0, <1>1, <1>2, <1>3, <1>4, SMT DEF AllForms
=============================================================================
