------------------------ MODULE PBinaryReader_tlaps ------------------------
(***************************************************************************)
(* TLAPS theorems over PBinaryReader: the lemmas of PBinaryReader_apa.tla  *)
(* as closed formulas over ALL naturals and every HUGE >= 1, proved by the *)
(* SMT back end.  (Independent of the Apalache runs: another translation   *)
(* of TLA+ to SMT, the kernel of tlapm checks the proof structure.)        *)
(***************************************************************************)
EXTENDS PBinaryReader, TLAPS

ASSUME HugeNat == HUGE \in Nat /\ HUGE >= 1

THEOREM OffLenOkInside ==
  \A lo, len, k, n \in Nat :
    (len < HUGE /\ OffLenResult(len, k, n) = "Ok") =>
       /\ n < HUGE /\ n <= len
       /\ (n = 0 \/ k + n <= len)
       /\ Inside(SubScopeWin(lo, len, k, n), Win(lo, len))
       /\ SubScopeWin(lo, len, k, n)[2] = n
  BY HugeNat, SMT DEF OffLenResult, IsHuge, Inside, SubScopeWin, Win

THEOREM HugeSound ==
  \A len, k, n \in Nat :
    len < HUGE =>
       /\ OffLenResult(len, k, n) = ExactOffLen(len, k, n)
       /\ OffLenResult(len, k, n) = OffLenResult(len, Cap(k), Cap(n))
  BY HugeNat, SMT DEF OffLenResult, ExactOffLen, IsHuge, Cap

THEOREM OffsetInside ==
  \A lo, len, k \in Nat :
    len < HUGE =>
       /\ Inside(OffsetWin(lo, len, k), Win(lo, len))
       /\ (k <= len => OffsetWin(lo, len, k) = Win(lo + k, len - k))
       /\ (k > len => OffsetWin(lo, len, k) = <<0, 0>>)
  BY HugeNat, SMT DEF OffsetWin, Win, Inside, IsHuge

\* one stride at a time: n * s is linear for a numeral s
ArrayNeedsAt(s) ==
  \A lo, len, off, n \in Nat :
    (len < HUGE /\ off <= len) =>
       /\ (OffLenResult(len, off, Mul(n, s)) = "Ok") = (n * s <= len - off)
       /\ (OffLenResult(len, off, Mul(n, s)) = "Ok") =>
             /\ ArrayWin(lo, off, n, s)[2] = n * s
             /\ Inside(ArrayWin(lo, off, n, s), CtxtScopeWin(lo, len, off))
       /\ Mul(n, s) = Cap(n * s)
       /\ Mul(n, s) = Mul(Cap(n), s)

THEOREM ArrayNeeds == \A s \in Strides : ArrayNeedsAt(s)
  BY HugeNat, SMT DEF Strides, ArrayNeedsAt, OffLenResult, Mul, IsHuge, Cap, ArrayWin, CtxtScopeWin, Win, Inside

\* the nonlinear core, for ANY stride (not only the numerals of Strides): a later element starts at least
\* one stride later
LEMMA StrideMono == \A s, i, d \in Nat : (i + 1 + d) * s = i * s + s + d * s /\ d * s >= 0
  OBVIOUS

THEOREM ItemInside ==
  \A s, lo, size, i, cnt \in Nat :
    (size <= s /\ i < cnt) =>
       /\ ItemPos(lo, s, i) >= lo
       /\ ItemPos(lo, s, i) + size <= lo + cnt * s
       /\ ItemPos(lo, s, i) + size <= ItemPos(lo, s, i + 1)
<1> SUFFICES ASSUME NEW s \in Nat, NEW lo \in Nat, NEW size \in Nat, NEW i \in Nat, NEW cnt \in Nat,
                    size <= s, i < cnt
             PROVE  /\ lo + i * s >= lo
                    /\ lo + i * s + size <= lo + cnt * s
                    /\ lo + i * s + size <= lo + (i + 1) * s
    BY DEF ItemPos
<1> DEFINE d == cnt - i - 1
<1>1. d \in Nat /\ cnt = i + 1 + d
    OBVIOUS
<1>2. (i + 1 + d) * s = i * s + s + d * s /\ d * s >= 0
    BY <1>1, StrideMono
<1>3. (i + 1 + 0) * s = i * s + s + 0 * s /\ i * s >= 0
    BY StrideMono
<1> HIDE DEF d
<1> QED BY <1>1, <1>2, <1>3

\* read_array_upto_hack never fails: its count fits, is maximal and never exceeds n (s a numeral of Strides:
\* division by a numeral is linear)
UptoFitsAt(s) ==
  \A len, off, n \in Nat :
    (len < HUGE /\ off <= len) =>
       LET m == UptoCount(len, off, s, n) IN
       /\ m >= 0 /\ m <= n /\ m * s <= len - off
       /\ OffLenResult(len, off, Mul(m, s)) = "Ok"
       /\ (m < n => (m + 1) * s > len - off)
THEOREM UptoFits == \A s \in Strides : UptoFitsAt(s)
  BY HugeNat, SMT DEF Strides, UptoFitsAt, UptoCount, Min2, OffLenResult, Mul, IsHuge
=============================================================================
