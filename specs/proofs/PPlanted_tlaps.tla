--------------------------- MODULE PPlanted_tlaps ---------------------------
(* Five FALSE statements, one per proof module that has TLAPS theorems (PBinaryReader has its own planted    *)
(* module).  The driver requires tlapm to fail on EVERY one of them ("5/n obligations failed"): the prover,    *)
(* its SMT encoding and the way the driver reads its verdict do not accept everything.                         *)
EXTENDS Integers, TLAPS
U255 == INSTANCE PWoff2U255
CD == INSTANCE PCmapDelta
SS == INSTANCE PSfntSum
TB == INSTANCE PType2Bias
FL == INSTANCE PFixLimb

\* the decoder never returns 65535
THEOREM PlantedU255 == \A n \in Nat, c \in 0 .. 255, x \in 0 .. 255, y \in 0 .. 255 :
                         U255!Dec255(n, c, x, y).ok => U255!Dec255(n, c, x, y).v <= 65534
  BY SMT DEF U255!Dec255, U255!U255Fail, U255!U16Of
\* no wrap is ever needed
THEOREM PlantedCmap == \A c \in 0 .. 65535, d \in -32768 .. 32767 : CD!Mod16(c + d) = c + d
  BY SMT DEF CD!Mod16
\* Less32 is <= on the values
THEOREM PlantedSfnt == \A ah \in 0 .. 65535, al \in 0 .. 65535, bh \in 0 .. 65535, bl \in 0 .. 65535 :
                         SS!Less32(<<ah, al>>, <<bh, bl>>) <=> (ah * 65536 + al <= bh * 65536 + bl)
  BY SMT DEF SS!Less32
\* a 16-bit operand reaches every subroutine of an INDEX of 65537 entries
THEOREM PlantedBias == \A cnt \in 0 .. 65537, i \in Nat : i < cnt => i - TB!Bias(cnt) <= 32767
  BY SMT DEF TB!Bias
\* nine limb products and a carry still fit a TLC integer (eight do: 2147336200)
THEOREM PlantedFix == 9 * FL!MaxProd + FL!CarryMax <= FL!TlcMax
  BY SMT DEF FL!MaxProd, FL!CarryMax, FL!TlcMax, FL!B, FL!MaxCols
=============================================================================
