---------------------------- MODULE Mirror_FixLimb ----------------------------
(* X04 mirror check 7 (TLC): PFixLimb next to Fix.tla: B, the steps against one-limb AddAt / SubAt / MulAt,     *)
(* Add3 / Sub3 / Mul2x2 against AddAt / SubAt / MulAt on 3- and 2-limb sequences, MagAdd / MagSub / MagMul       *)
(* (which trim), and the values through MagToNat.                                                            *)
EXTENDS PFixLimb, Sequences, TLC, Json, IOUtils
L == INSTANCE Fix
VARIABLE i
Rec == ndJsonDeserialize(IOEnv.ARGS)
Report(e, what, want, got) ==
  PrintT(<<"MISMATCH", ToJson([i |-> e.i, plant |-> e.plant, what |-> what, want |-> want, got |-> got])>>)
Eq(e, what, want, got) == IF want = got THEN TRUE ELSE Report(e, what, want, got)
Opt(x) == IF x = 0 THEN <<>> ELSE <<x>>
Check(e) ==
  LET a == e.a  b == e.b                                    \* 3 limbs each
      r == Add3(a[1], a[2], a[3], b[1], b[2], b[3])
      big == IF L!MagCmp(a, b) >= 0 THEN a ELSE b
      sml == IF L!MagCmp(a, b) >= 0 THEN b ELSE a
      d == Sub3(big[1], big[2], big[3], sml[1], sml[2], sml[3])
      m == Mul2x2(a[1], a[2], b[1], IF e.plant = 1 THEN (b[2] + 1) % B ELSE b[2])
      t == AddStep(a[1], b[1], e.c)
      u == SubStep(a[1], b[1], e.c)
      w == MulStep(e.col, e.cm)
  IN
  /\ Eq(e, "B", L!B, B)
  /\ Eq(e, "AddStep", L!AddAt(<<a[1]>>, <<b[1]>>, 1, 1, e.c), <<t[1]>> \o Opt(t[2]))
  /\ Eq(e, "SubStep", L!SubAt(<<a[1], 1>>, <<b[1], 0>>, 1, 2, e.c), <<u[1], 1 - u[2]>>)
  /\ Eq(e, "MulStep", L!MulAt(<<e.ma>>, <<e.mb>>, 1, 1, e.cm),
        LET x == MulStep(e.ma * e.mb, e.cm) IN <<x[1]>> \o L!MagOfNat(x[2]))
  /\ Eq(e, "MulStep.exact", w[1] + B * w[2], e.col + e.cm)
  /\ Eq(e, "Add3", L!AddAt(a, b, 1, 3, 0), <<r[1], r[2], r[3]>> \o Opt(r[4]))
  /\ Eq(e, "MagAdd", L!MagAdd(L!Trim(a), L!Trim(b)), L!Trim(<<r[1], r[2], r[3], r[4]>>))
  /\ Eq(e, "Sub3", L!SubAt(big, sml, 1, 3, 0), <<d[1], d[2], d[3]>>)
  /\ Eq(e, "Sub3.borrow", 0, d[4])
  /\ Eq(e, "MagSub", L!MagSub(L!Trim(big), L!Trim(sml)), L!Trim(<<d[1], d[2], d[3]>>))
  /\ Eq(e, "Mul2x2", L!MulAt(<<a[1], a[2]>>, <<b[1], b[2]>>, 1, 3, 0), <<m[1], m[2], m[3]>> \o Opt(m[4]))
  /\ (a[2] # 0 /\ b[2] # 0) => Eq(e, "MagMul", L!MagMul(<<a[1], a[2]>>, <<b[1], b[2]>>), L!Trim(<<m[1], m[2], m[3], m[4]>>))
MInit == i = 1
MNext == i <= Len(Rec) /\ Check(Rec[i]) /\ i' = i + 1
MSpec == MInit /\ [][MNext]_i
=============================================================================
