CONSTANTS
  Tier = "thorough"
SPECIFICATION Spec
INVARIANTS CursorInRun CharsConserved DeletionOnlyByEmptySequence FlagsSane ProgramsWellFormed SmallStepIsDenotation EmitCase EmitProg
CHECK_DEADLOCK FALSE
