CONSTANTS
  Tier = "thorough"
SPECIFICATION Spec
INVARIANTS CursorInRun CharsConserved DeletionOnlyByEmptySequence FlagsSane ProgramsWellFormed SmallStepIsDenotation EmitCase EmitProg
PROPERTY Terminates
CHECK_DEADLOCK FALSE
