CONSTANTS
  CodeKeys = TRUE
  HasFV = TRUE
  HasImages = TRUE
  StoreFailed = FALSE
  PosKeyMode = "abs"
  IdxKeyMode = "abs"
  ImgKeepMode = "none"
  LookupsCap = 64
  FailKeep = FALSE
  RegionMemo = FALSE
  NegCache = FALSE
  SubMRU = FALSE
  MaxDepth = 3
  MaxDepthDmg = 2
  MaxDepthCollide = 2
  Families = {"fill"}
  ImgCounts = {2, 3}
  ImgFilterMode = "own"
  MaxImgFilters = 3
  FillKeys = 80
  FillLangs = 1
  FillLookups = 1
  MaxDepthVar = 2
  VarTuples = {"t0", "tA", "tB", "tC"}
  MaxDepthScopes = 2
  MaxDepthStrike = 2
  MaxDepthPairs = 2
SPECIFICATION Spec
VIEW View
INVARIANTS EmitCase
CHECK_DEADLOCK FALSE
