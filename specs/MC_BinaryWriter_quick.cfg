CONSTANTS
  MaxOps = 3
  MaxLen = 10
SPECIFICATION Spec
VIEW View
INVARIANTS DesignOK EmitCase
CHECK_DEADLOCK FALSE
