CONSTANTS
  NGC = 4
  SIDs = {1, 2, 3, 4}
  MaxAcc = 2
  NHMsC = {1, 3}
SPECIFICATION Spec
INVARIANTS DesignOK EmitCase
CHECK_DEADLOCK FALSE
