---------------------------- MODULE MC_Joining ----------------------------
(***************************************************************************)
(* Bounded exhaustive exploration of Joining and generator of replay cases *)
(* (spec -> impl) for X02.                                                 *)
(*                                                                         *)
(* Init picks an alphabet (a script plus one real code point per abstract  *)
(* glyph class) and a language tag.  Feed(s) appends ONE glyph to the run  *)
(* and performs ONE transition of the small-step machine Joining!Step, so  *)
(* the tree of all strings up to the bound IS the set of machine runs:     *)
(* every state is (run, machine state after the run).  Invariants, checked *)
(* on every state:                                                         *)
(*   SmallStepIsClosedForm  forms computed glyph by glyph = Joining!FormsOf*)
(*                          (under both readings of Dev_NonJoiningForm)    *)
(*   Design                 every conformant form assignment satisfies     *)
(*                          Joining!DesignOK (transparent glyphs carry no  *)
(*                          form, a form needing a neighbour has one that  *)
(*                          joins, adjacent letters agree, ALAPH forms)    *)
(*   FontFaithful           on the specification's font the staged shaper  *)
(*                          leaves exactly the ideal feature sequence      *)
(*   Emit                   prints FONT (once per script) and one CASE per *)
(*                          state: code points, expected number per        *)
(*                          visible glyph (primary reading), the other     *)
(*                          conformant readings, and - where the code      *)
(*                          model with all named defects differs - that    *)
(*                          model's numbers and the smallest set of        *)
(*                          defects that produces them                     *)
(***************************************************************************)
EXTENDS Joining

CONSTANTS LenMain,    \* alphabet -> longest run explored without a language tag
          LenLang     \* longest run explored with a language tag

VARIABLES alpha,  \* name of the alphabet
          lang,   \* language tag handed to Font::shape ("" = None)
          syms,   \* the run as abstract symbols
          m       \* machine state after the run: [forms, st, prev]
vars == <<alpha, lang, syms, m>>

\* abstract symbols: joining types, A = ALAPH, X = DALATH RISH, J = ZWJ, N = ZWNJ
SymClass(s) ==
  CASE s = "U" -> G("U", "none") [] s = "R" -> G("R", "none") [] s = "D" -> G("D", "none")
    [] s = "C" -> G("C", "none") [] s = "L" -> G("L", "none") [] s = "T" -> G("T", "none")
    [] s = "A" -> G("R", "alaph") [] s = "X" -> G("R", "dr")
    [] s = "J" -> G("C", "none") [] s = "N" -> G("U", "none")

Alpha ==
  [ arab  |-> [sc |-> "arab",    \* hamza, alef, beh, tatweel, Phags-pa superfixed RA, fatha, ZWJ, ZWNJ
               cp |-> [U |-> 1569, R |-> 1575, D |-> 1576, C |-> 1600, L |-> 43122, T |-> 1614,
                       J |-> 8205, N |-> 8204]],
    arab2 |-> [sc |-> "arab",    \* 'A', waw, farsi yeh, Mongolian nirugu, superscript alef, and the
                                 \* Syriac ALAPH / DALATH, which are plain R letters for this shaper
               cp |-> [U |-> 65, R |-> 1608, D |-> 1740, C |-> 6154, L |-> 43122, T |-> 1648,
                       A |-> 1808, X |-> 1813, J |-> 8205, N |-> 8204]],
    syrc  |-> [sc |-> "syrc",    \* end of paragraph, waw, beth, alaph, dalath, pthaha above, ZWJ, ZWNJ
               cp |-> [U |-> 1792, R |-> 1816, D |-> 1810, A |-> 1808, X |-> 1813, T |-> 1840,
                       J |-> 8205, N |-> 8204]],
    syrc2 |-> [sc |-> "syrc",    \* space, zain, gamal, alaph, rish, superscript alaph, tatweel, Phags-pa
               cp |-> [U |-> 32, R |-> 1817, D |-> 1811, A |-> 1808, X |-> 1834, T |-> 1809,
                       C |-> 1600, L |-> 43122]] ]

\* the alphabets are bound to the dumped table: a symbol stands for a code point of its class
ASSUME \A a \in DOMAIN Alpha : \A s \in DOMAIN Alpha[a].cp :
          /\ Alpha[a].cp[s] \in Universe
          /\ ClassOfCp(Alpha[a].cp[s]) = SymClass(s)
          /\ (Alpha[a].cp[s] \in Joiners) <=> (s \in {"J", "N"})

Sc   == Alpha[alpha].sc
Run  == TLCEval([i \in DOMAIN syms |-> SymClass(syms[i])])
Cps  == TLCEval([i \in DOMAIN syms |-> Alpha[alpha].cp[syms[i]]])
VisSeq == SelectSeq([i \in DOMAIN syms |-> i], LAMBDA i : Cps[i] \notin Joiners)
IdsV(vis, f) == LET tab == ExpTab[Sc][LangIdx(Sc, lang)] IN TLCEval([k \in DOMAIN vis |-> tab[f[vis[k]]]])

LangsTried(a) == {""} \cup {Langs(Alpha[a].sc)[2].tag, "ZZZ "}
Bound(a, l)   == IF l = "" THEN LenMain[a] ELSE LenLang

Init == \E a \in DOMAIN Alpha : \E l \in LangsTried(a) :
           alpha = a /\ lang = l /\ syms = <<>> /\ m = M0

\* one glyph = one action of the machine
Feed == /\ Len(syms) < Bound(alpha, lang)
        /\ \E s \in DOMAIN Alpha[alpha].cp :
              /\ syms' = Append(syms, s)
              /\ m' = Step(Sc, "isol", m, SymClass(s))
        /\ UNCHANGED <<alpha, lang>>
Next == Feed
Spec == Init /\ [][Next]_vars

---------------------------------------------------------------------------
C == Ctx(Run)

SmallStepIsClosedForm ==
  LET c == C
  IN /\ m.forms = FormsOfC({}, "isol", Sc, c)
     /\ [i \in DOMAIN syms |-> IF IsU(c.run[i]) THEN "none" ELSE m.forms[i]] = FormsOfC({}, "none", Sc, c)
     /\ m.prev = (IF NT(c.run) = {} THEN 0 ELSE Max(NT(c.run)))

Design == LET run == Run IN \A f \in AllForms({}, Sc, run) : DesignOK(Sc, run, f)

FontFaithful ==
  (syms = <<>> /\ lang = "") =>
     \A k \in DOMAIN Langs(Sc) : \A fo \in FormOpts(Sc) :
        /\ ShapeOnFont(Sc, Langs(Sc)[k].feats, fo) = ShapeIdeal(Sc, Langs(Sc)[k].feats, fo)
        /\ \A fo2 \in FormOpts(Sc) :
              (fo # fo2 /\ {fo, fo2} \subseteq Langs(Sc)[k].feats \cup {"none"})
                 => ExpTab[Sc][k][fo] # ExpTab[Sc][k][fo2]
        /\ (fo \in Langs(Sc)[k].feats \cup {"none"}) => IdForm(Sc, ExpTab[Sc][k][fo]) = fo

\* the first (smallest) set of defect readings under which the full code model conforms on this run,
\* modulo the Dev_ readings - the attribution Trace_Joining makes for an observation equal to it
MinDefects(vis, c, codeIds) ==
  LET ok(S) == codeIds \in {IdsV(vis, f) : f \in AllFormsC(S, Sc, c)}
  IN OrderedDefectSets[FirstOk(ok)]

Emit ==
  /\ (syms = <<>> /\ lang = "" /\ alpha \in Scripts) => PrintT(<<"FONT", ToJson(FontDesc(Sc))>>)
  /\ LET c       == C
         vis     == VisSeq
         stdIds  == IdsV(vis, m.forms)            \* = the closed form by SmallStepIsClosedForm
         codeIds == IdsV(vis, FormsOfC(Defects, "isol", Sc, c))
         differs == codeIds # stdIds
     IN PrintT(<<"CASE", ToJson(
          [a |-> alpha, s |-> Sc, l |-> lang, r |-> syms, c |-> Cps,
           e |-> stdIds,
           x |-> SetToSeq({IdsV(vis, f) : f \in AllFormsC({}, Sc, c)} \ {stdIds}),
           k |-> IF differs THEN codeIds ELSE <<>>,
           d |-> IF differs THEN SetToSeq(MinDefects(vis, c, codeIds)) ELSE <<>>])>>)

\* ---- bounds -------------------------------------------------------------------
LenQuick    == [arab |-> 5, arab2 |-> 4, syrc |-> 5, syrc2 |-> 4]
LenThorough == [arab |-> 6, arab2 |-> 5, syrc |-> 6, syrc2 |-> 5]
LenFont     == [arab |-> 0, arab2 |-> 0, syrc |-> 0, syrc2 |-> 0]      \* prints the FONT lines only (--replay)
=============================================================================
