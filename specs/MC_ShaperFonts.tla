--------------------------- MODULE MC_ShaperFonts ---------------------------
(***************************************************************************)
(* C02, font cases.  "Every loadable font" of the property includes fonts  *)
(* whose lookups reference each other in unusual ways and fonts that are   *)
(* shaped through a `morx` table.  This module enumerates such fonts as    *)
(* CASES (one CASE line each; c02_shape/synth2.rs writes the bytes) and    *)
(* models the one mechanism of allsorts that makes shaping total on the    *)
(* first kind: the recursion budget of nested contextual lookups.          *)
(*                                                                         *)
(* fam = "lkp": a graph of contextual lookups of one layout table.         *)
(*   kinds  sequence of node kinds: "C" context (GSUB type 5 / GPOS 7),    *)
(*          "H" chained context (6 / 8), "XC" / "XH" the same behind an    *)
(*          Extension lookup (7 / 9).  Every node matches on the glyph x   *)
(*          and names the next node at sequence index 0.                   *)
(*   shape  "cycle": the last node names the first one (a node alone names *)
(*          itself), fan = lookup records per node (1 or 2);               *)
(*          "chain": the last node names a terminal lookup `term`          *)
(*          (GSUB: single / multiple growing / multiple deleting /         *)
(*          ligature; GPOS: single adjustment).                            *)
(*   The model below applies the graph to a text that matches (an x):      *)
(*   `Enter` is one call of apply_subst for a nested lookup.  The top      *)
(*   level lookup starts with RecursionLimit (gsub.rs                      *)
(*   SUBST_RECURSION_LIMIT); a nested contextual lookup is entered only    *)
(*   with budget > 0 and gets budget - 1, otherwise the call answers       *)
(*   LimitExceeded and shaping forges ahead (Shaper!CallFailures accepts   *)
(*   Err with a run).  Invariants: Bounded (depth <= RecursionLimit + 1    *)
(*   whatever the graph), Measure (every step strictly decreases           *)
(*   budget-then-remaining-nodes), Outcome (a cycle always ends in         *)
(*   "limit", a chain ends in "limit" iff it has more than                 *)
(*   RecursionLimit + 1 contextual lookups).  The predicted outcome is     *)
(*   printed with the case as `hit` and only feeds vacuity counters: the   *)
(*   property does not say WHICH of Ok / Err a font gets, the judge        *)
(*   (Trace_Shaper) demands a returned, well-formed run.                   *)
(*   Dev_GposNestedContextIgnored: allsorts' gpos::apply_pos does nothing  *)
(*   for a nested contextual lookup, so a GPOS graph never nests.          *)
(*                                                                         *)
(* fam = "mx": parameters of a font with `morx` and no GSUB.               *)
(*   kind "lig": ligature f^(n-1) i, n components; pat = arrangement of    *)
(*     LAST / STORE in the action list ("L" LAST only, "LS" LAST+STORE,    *)
(*     "SM" a STORE in the middle, "SA" STORE on every component, "N" no   *)
(*     flag at all, "NS" STORE without LAST); da = 1: the entry that       *)
(*     performs the action also has DONT_ADVANCE, da = 2: the last         *)
(*     component is pushed by a DONT_ADVANCE entry and pushed again (one   *)
(*     component) by the performing entry of the next state; fda = failure *)
(*     transitions re-dispatch through DONT_ADVANCE; sk = a skipped (mark) *)
(*     class.                                                              *)
(*   kind "ctx": contextual, sub = which glyph is substituted, da = a      *)
(*     DONT_ADVANCE step, fmt = lookup table format (11 = format 10 with   *)
(*     one byte units).  kind "nc": noncontextual, one per lookup format.  *)
(*   kind "multi": several chains / feature flags / coverage bits.         *)
(*   kind "adv": a named table that is well formed but adversarial for     *)
(*     totality (DONT_ADVANCE cycles, indices at the table end, ...) or    *)
(*     whose headers lie about the counts and lengths that follow.         *)
(* fam = "cnt": a feature whose lookup list has a BOUNDARY SIZE.  allsorts *)
(*   collects the lookup indices of the feature it applies into a scratch  *)
(*   vector with InlineCap inline slots that spills to the heap            *)
(*   (gpos::apply_features: tiny_vec!([u16; 128])), sorts it, drops the    *)
(*   duplicates and applies each lookup once.  n = lookupIndexCount drawn  *)
(*   from 2^k - 1, 2^k, 2^k + 1 for k in SizeExps (InlineCap = 2^7 is      *)
(*   demanded by Sanity); tbl = the table; feat = the feature that carries *)
(*   the list (GPOS: base features of the default shaper; GSUB: default    *)
(*   features); arr = "distinct" n lookups listed ascending, "desc" listed *)
(*   descending, "same" one lookup listed n times (duplicates are legal).  *)
(*   Model of the collection: Collected(list) keeps every index whatever   *)
(*   the size (CollectTotal: nothing is lost or refused beyond the inline  *)
(*   capacity), ApplyOrder = sorted without duplicates.  Printed with the  *)
(*   case: napply (number of lookup applications) and spill (the list does *)
(*   not fit the inline slots); vacuity only - the judge demands a         *)
(*   returned well-formed run.                                             *)
(*   The text strings over the font's classes come from MC_Shaper (mode    *)
(*   "txt"): ligature at the start / middle / end of the run and           *)
(*   components left on the stack at the end of text are strings such as   *)
(*   Lf Li Lx, Lx Lf Li, Lf Lf.                                            *)
(***************************************************************************)
EXTENDS Integers, Sequences, FiniteSets, TLC, Json

CONSTANTS CycleLen,      \* cycles of 1 .. CycleLen contextual lookups
          ChainOver,     \* chains of 1 .. RecursionLimit + 1 + ChainOver contextual lookups
          SizeExpLo, SizeExpHi   \* boundary sizes 2^k - 1, 2^k, 2^k + 1 for k in SizeExpLo .. SizeExpHi

RecursionLimit == 2      \* src/gsub.rs SUBST_RECURSION_LIMIT

NodeKinds  == {"C", "H", "XC", "XH"}
PlainKinds == {"C", "H"}
Tables     == {"gsub", "gpos"}
TermKinds(tbl) == IF tbl = "gsub" THEN {"single", "grow", "delete", "lig"} ELSE {"single"}
MaxChain   == RecursionLimit + 1 + ChainOver

LigPatterns == {"L", "LS", "SM", "SA", "N", "NS"}
CtxSubs     == {"cur", "mark", "both"}
LookupFormats == {0, 2, 4, 6, 8, 10, 11}
AdvNames == {"ctx-da-self", "ctx-da-cycle2", "ctx-da-pingpong", "ctx-da-start-state", "ctx-da-chain3",
             "ctx-da-until-class-changes", "lig-da-self", "lig-da-cycle2", "lig-da-start-state", "lig-da-chain3",
             "lig-comp-last", "lig-comp-past", "lig-comp-negative", "lig-lig-last", "lig-lig-past",
             "lig-sum-overflow", "lig-action-last-nolast", "lig-action-past", "lig-underflow",
             "lig-push-forever", "lig-store-twice-stale", "entry-past", "state-past", "class-past",
             "ctx-mark-past", "ctx-cur-past", "ctx-deleted", "ctx-missing-gid", "lig-missing-gid",
             "nc-format10-unit4", "nc-format10-unit8", "cls-format10-unit4", "nc-deleted", "no-chains",
             "empty-chain", "hdr-nchains-huge", "hdr-nsubtables-huge", "hdr-nfeatures-huge",
             "hdr-chainlength-huge", "hdr-subtable-length-huge", "hdr-subtable-length-short"}

\* ---- boundary sizes of a feature's lookup list ---------------------------------------
InlineCap == 128          \* src/gpos.rs apply_features: tiny_vec!([u16; 128])
RECURSIVE Pow2(_)
Pow2(k) == IF k = 0 THEN 1 ELSE 2 * Pow2(k - 1)
BoundarySizes == UNION {{Pow2(k) - 1, Pow2(k), Pow2(k) + 1} : k \in SizeExpLo .. SizeExpHi}
CntFeats(tbl) == IF tbl = "gsub" THEN {"liga", "ccmp"} ELSE {"kern", "mark", "dist"}
Arrangements == {"distinct", "desc", "same"}
\* the lookupIndex array of the feature
FeatureList(n, arr) == [i \in 1 .. n |-> IF arr = "same" THEN 0 ELSE IF arr = "desc" THEN n - i ELSE i - 1]
\* the scratch vector: the first InlineCap indices sit inline, the rest on the heap - all of them are kept
Collected(list) == [inline |-> SubSeq(list, 1, IF Len(list) < InlineCap THEN Len(list) ELSE InlineCap),
                    heap   |-> SubSeq(list, InlineCap + 1, Len(list))]
CollectTotal(list) == LET s == Collected(list) IN s.inline \o s.heap = list
ApplySet(list) == {list[i] : i \in DOMAIN list}          \* sorted, duplicates dropped: each lookup once
CntCase(tbl, ft, n, arr) == [fam |-> "cnt", tbl |-> tbl, feat |-> ft, n |-> n, arr |-> arr]

VARIABLES c,        \* the font case
          at,       \* lkp: 1-based index of the lookup about to be applied (Len + 1 = the terminal lookup)
          depth,    \* contextual lookups entered so far, the top-level one included
          budget,   \* recursion budget the lookup at `at` would be entered with
          out       \* "run" while applying, then "ok" | "limit"
vars == <<c, at, depth, budget, out>>

Cycle(tbl, kinds, fan) == [fam |-> "lkp", tbl |-> tbl, shape |-> "cycle", kinds |-> kinds, fan |-> fan, term |-> "-"]
Chain(tbl, kinds, term) == [fam |-> "lkp", tbl |-> tbl, shape |-> "chain", kinds |-> kinds, fan |-> 1, term |-> term]

\* the case is drawn through nested quantifiers (never as one big set, AGENT_GUIDE)
IsLkp(x) ==
  \/ \E tbl \in Tables : \E n \in 1 .. CycleLen : \E ks \in [1 .. n -> NodeKinds] : \E fan \in {1, 2} :
        x = Cycle(tbl, ks, fan)
     \* chains: plain kinds up to the last contextual lookup, which takes every kind
  \/ \E tbl \in Tables : \E n \in 1 .. MaxChain : \E ks \in [1 .. n -> NodeKinds] : \E t \in TermKinds(tbl) :
        /\ \A k \in 1 .. (n - 1) : ks[k] \in PlainKinds
        /\ x = Chain(tbl, ks, t)

IsMx(x) ==
  \/ \E n \in 2 .. 4 : \E p \in LigPatterns : \E da \in {0, 1, 2} : \E fda \in {0, 1} : \E sk \in {0, 1} :
        x = [fam |-> "mx", kind |-> "lig", n |-> n, pat |-> p, da |-> da, fda |-> fda, sk |-> sk]
  \/ \E s \in CtxSubs : \E da \in {0, 1} : \E f \in {2, 6, 8, 11} :
        x = [fam |-> "mx", kind |-> "ctx", sub |-> s, da |-> da, fmt |-> f]
  \/ \E f \in LookupFormats : x = [fam |-> "mx", kind |-> "nc", fmt |-> f]
  \/ \E v \in 1 .. 4 : x = [fam |-> "mx", kind |-> "multi", v |-> v]
  \/ \E a \in AdvNames : x = [fam |-> "mx", kind |-> "adv", name |-> a]

IsCnt(x) ==
  \E tbl \in Tables : \E ft \in CntFeats(tbl) : \E n \in BoundarySizes : \E arr \in Arrangements :
     x = CntCase(tbl, ft, n, arr)

Init ==
  /\ IsLkp(c) \/ IsMx(c) \/ IsCnt(c)
  /\ at = 1 /\ depth = 0 /\ budget = RecursionLimit
  /\ out = IF c.fam = "lkp" THEN "run" ELSE "ok"

Contextual(k) == k <= Len(c.kinds)
Succ(k) == IF c.shape = "cycle" THEN (k % Len(c.kinds)) + 1 ELSE k + 1
Dev_GposNestedContextIgnored == c.tbl = "gpos"

\* lexicographic measure: the budget, then (chains) the lookups still ahead
Measure(b, k) == b * (MaxChain + 2) + (IF c.shape = "chain" THEN Len(c.kinds) + 1 - k ELSE 0)

\* one application of the lookup at `at` at a position where its context matches
Enter ==
  /\ out = "run"
  /\ IF ~Contextual(at)
       THEN /\ out' = "ok"                                   \* the terminal lookup substitutes / adjusts
            /\ UNCHANGED <<at, depth, budget>>
     ELSE IF depth = 0
       THEN /\ depth' = 1 /\ at' = Succ(at)                  \* the top-level lookup: gsub_apply_lookup
            /\ UNCHANGED <<budget, out>>
     ELSE IF Dev_GposNestedContextIgnored
       THEN /\ out' = "ok"
            /\ UNCHANGED <<at, depth, budget>>
     ELSE IF budget > 0
       THEN /\ depth' = depth + 1 /\ budget' = budget - 1 /\ at' = Succ(at)
            /\ Assert(budget' < budget, "the budget does not decrease")
            /\ UNCHANGED out
     ELSE /\ out' = "limit"                                  \* ParseError::LimitExceeded, shaping forges ahead
          /\ UNCHANGED <<at, depth, budget>>
  /\ UNCHANGED c
  /\ out' = "run" /\ depth > 0 => Measure(budget', at') < Measure(budget, at)

Next == Enter
Spec == Init /\ [][Next]_vars

---------------------------------------------------------------------------
\* whatever the graph, no more than RecursionLimit + 1 contextual lookups are ever nested
Bounded == depth <= RecursionLimit + 1 /\ budget >= 0

\* the predicted outcome, by the shape of the graph alone
Outcome ==
  (c.fam = "lkp" /\ out # "run") =>
     IF c.tbl = "gpos" THEN out = "ok"
     ELSE IF c.shape = "cycle" THEN out = "limit"
     ELSE (out = "limit") <=> (Len(c.kinds) > RecursionLimit + 1)

\* a feature's lookup list is collected completely whatever its size
CntOK == c.fam = "cnt" => /\ CollectTotal(FeatureList(c.n, c.arr))
                          /\ Cardinality(ApplySet(FeatureList(c.n, c.arr))) = IF c.arr = "same" THEN 1 ELSE c.n

\* the bounds contain what the strengthening is about (constant level: an assumption, checked by TLC)
Sanity ==
  /\ CycleLen >= 3 /\ ChainOver >= 1
  /\ IsLkp(Cycle("gsub", <<"C">>, 1))                       \* the lookup that names itself (seeded change C02-r2m3)
  /\ IsLkp(Cycle("gsub", <<"C", "XC", "C">>, 1))            \* type 5 only, through an Extension lookup
  /\ IsLkp(Cycle("gsub", <<"H", "H">>, 2)) /\ IsLkp(Cycle("gpos", <<"C", "H">>, 1))
  /\ IsLkp(Chain("gsub", <<"C", "H", "XC">>, "delete"))      \* exactly at the limit
  /\ IsLkp(Chain("gsub", <<"C", "H", "C", "XH">>, "lig"))    \* one above
  /\ IsLkp(Chain("gsub", <<"H", "C">>, "grow"))              \* one below
  /\ IsMx([fam |-> "mx", kind |-> "lig", n |-> 2, pat |-> "L", da |-> 1, fda |-> 0, sk |-> 0])   \* C02-r2m1
  /\ IsMx([fam |-> "mx", kind |-> "adv", name |-> "ctx-da-self"])
     \* lookup lists one below, exactly at and one above the inline capacity, in both tables
  /\ {InlineCap - 1, InlineCap, InlineCap + 1} \subseteq BoundarySizes
  /\ IsCnt(CntCase("gpos", "mark", InlineCap + 1, "distinct")) /\ IsCnt(CntCase("gsub", "liga", InlineCap, "same"))
ASSUME Sanity

Emit ==
  out # "run" =>
     PrintT(<<"CASE", ToJson(IF c.fam = "lkp" THEN c @@ [hit |-> (out = "limit"), depth |-> depth]
                             ELSE IF c.fam = "cnt"
                               THEN c @@ [napply |-> Cardinality(ApplySet(FeatureList(c.n, c.arr))), spill |-> (c.n > InlineCap)]
                             ELSE c)>>)
=============================================================================
