------------------------------ MODULE Trace_Glyf ------------------------------
(***************************************************************************)
(* Trace judge for TrueType outlines (C16), judging style.                 *)
(*                                                                         *)
(* One event = one call of allsorts' OutlineBuilder::visit on a GlyfTable: *)
(*   a.glyphs  the glyf records (raw bytes) of the visited glyph and of    *)
(*             everything it reaches through components, a.n = numGlyphs,  *)
(*   a.root    the glyph id visited,                                       *)
(*   o         ok / panic / err, and the commands the recording sink       *)
(*             received: <<op, cx, cy, x, y>> in fine units (1/16384),     *)
(*             finite = no coordinate was NaN / infinite / beyond 2^16.    *)
(* The judge parses the records, unpacks the points, expands the contours  *)
(* and composes the component transforms with the operators of Glyf, and   *)
(* accepts the delivered commands iff every sub-path is a valid walk of    *)
(* the corresponding contour (exactly when no matrix is involved, within   *)
(* 1/64 unit + the model's rounding bound otherwise).  Both the replayed   *)
(* TLC-generated cases (spec -> impl) and the glyphs of the repository     *)
(* fonts (impl -> spec) come through here.                                 *)
(* A mismatch is classified by the named deviations of Glyf!Outline that   *)
(* reproduce the observation (used only for the stable key of a finding).  *)
(***************************************************************************)
EXTENDS Glyf, Json, IOUtils, TLC

Rec == ndJsonDeserialize(IOEnv.TRACE)

VARIABLES l, stats
tvars == <<l, stats>>

Stats0 == [events |-> 0, judged_ok |-> 0, judged_err |-> 0, skipped |-> 0,
           root_simple |-> 0, root_composite |-> 0, root_empty |-> 0, with_matrix |-> 0,
           contours |-> 0, start_first_on |-> 0, start_last_on |-> 0, start_implied |-> 0,
           implied_points |-> 0, closing_edge_curves |-> 0, points |-> 0]

OutlineOf(e, dev) == Outline(e.a.glyphs, e.a.n, e.a.root, 0, dev)

\* Dev_ScaledOffsetSign: a delivery is accepted if it traces the outline under either legitimate reading of a
\* scaled component offset (the second one is evaluated only when the first does not fit and a matrix is involved)
Hypot == [NoDev EXCEPT !.hypot = TRUE]
\* Dev_LocaOvershoot: a.over > 0 says that the loca table under which the records were visited puts its final offset
\* `over` bytes beyond the end of glyf, so that the LAST record nominally extends past the table.  OpenType does not
\* allow it; fonts that do it exist, and a reader either rejects the table / the glyph (an error, never a panic) or
\* reads the last glyph from its own offset up to the end of the table (allsorts' documented workaround) - in which
\* case every glyph, the last one included, has the outline of ITS OWN record.  Nothing else is conformant.
Over(e) == IF "over" \in DOMAIN e.a THEN e.a.over ELSE 0
ConformsExact(e, r) ==
  CASE r.st = "ok"  -> /\ e.o.ok /\ e.o.finite
                       /\ IF TracesOutline(r, e.o.cmds) THEN TRUE
                          ELSE IF r.exact THEN FALSE
                          ELSE LET r2 == OutlineOf(e, Hypot) IN r2.st = "ok" /\ TracesOutline(r2, e.o.cmds)
    [] r.st = "err" -> ~e.o.ok /\ ~e.o.panic
    [] OTHER        -> TRUE                      \* malformed / unmodelled / outside the numeric domain: not judged
Conforms(e, r) ==
  IF Over(e) > 0 /\ ~e.o.ok THEN ~e.o.panic ELSE ConformsExact(e, r)

Explains(e, dev) == LET r == OutlineOf(e, dev) IN r.st = "ok" /\ TracesOutline(r, e.o.cmds)

Class(e, r) ==
  IF r.st = "err" THEN (IF e.o.panic THEN "panic-where-error-required" ELSE "delivered-beyond-nesting-bound")
  ELSE IF e.o.panic THEN "panic"
  ELSE IF ~e.o.ok THEN "error-on-wellformed-glyph"
  ELSE IF ~e.o.finite THEN "non-finite-coordinate"
  \* (the readings that touch only components with the respective flags come first: on a glyph without such a
  \* component they are the specification itself and explain nothing)
  ELSE IF Explains(e, [NoDev EXCEPT !.unscaled = TRUE]) THEN "Dev_ScaledOffsetIgnored"
  ELSE IF Explains(e, [NoDev EXCEPT !.noAnchor = TRUE]) THEN "Dev_PointNumbersIgnored"
  ELSE IF Explains(e, [NoDev EXCEPT !.noAnchor = TRUE, !.unscaled = TRUE]) THEN "Dev_PointNumbersIgnored+Dev_ScaledOffsetIgnored"
  ELSE IF Explains(e, [NoDev EXCEPT !.dropParent = TRUE]) THEN "Dev_ParentTransformDropped"
  ELSE IF Explains(e, [NoDev EXCEPT !.transpose = TRUE]) THEN "Dev_TwoByTwoTransposed"
  ELSE IF Explains(e, [NoDev EXCEPT !.dropParent = TRUE, !.transpose = TRUE]) THEN "Dev_ParentTransformDropped+Dev_TwoByTwoTransposed"
  ELSE LET P == SplitPaths(e.o.cmds) IN
       IF ~P.ok THEN "not-move-close-groups"
       ELSE IF Len(P.ps) # Len(r.cs) THEN "contour-count"
       ELSE "contour-shape"

FirstN(s, n) == SubSeq(s, 1, IF Len(s) < n THEN Len(s) ELSE n)

Count(S) == Cardinality(S)
Bump(s, r) ==
  LET cs  == r.cs
  IN [s EXCEPT
       !.contours = @ + Len(cs),
       !.start_first_on = @ + Count({i \in 1 .. Len(cs) : cs[i][1].on}),
       !.start_last_on  = @ + Count({i \in 1 .. Len(cs) : ~cs[i][1].on /\ cs[i][Len(cs[i])].on}),
       !.start_implied  = @ + Count({i \in 1 .. Len(cs) : ~cs[i][1].on /\ ~cs[i][Len(cs[i])].on}),
       !.closing_edge_curves = @ + Count({i \in 1 .. Len(cs) : ~cs[i][Len(cs[i])].on}),
       !.with_matrix = @ + (IF r.exact THEN 0 ELSE 1)]

CountImplied(cs) == FoldLeft(LAMBDA n, c : n + Len(Expand(c)) - Len(c), 0, cs)
CountPoints(cs) == FoldLeft(LAMBDA n, c : n + Len(c), 0, cs)

RootKind(e) ==
  LET rec == RecOf(e.a.glyphs, e.a.root) IN
  IF rec = <<>> THEN "empty" ELSE IF Len(rec) < 2 THEN "bad" ELSE IF I16(rec, 1) < 0 THEN "composite" ELSE "simple"

TInit == l = 1 /\ stats = Stats0

TNext ==
  /\ l <= Len(Rec)
  /\ l' = l + 1
  /\ \E r \in {OutlineOf(Rec[l], NoDev)} :       \* (a singleton: forces one evaluation of the outline)
     LET e  == Rec[l]
         k  == RootKind(e)
         s1 == [stats EXCEPT !.events = @ + 1,
                             !.root_simple = @ + (IF k = "simple" THEN 1 ELSE 0),
                             !.root_composite = @ + (IF k = "composite" THEN 1 ELSE 0),
                             !.root_empty = @ + (IF k = "empty" THEN 1 ELSE 0)]
         s2 == IF r.st = "ok"
               THEN [Bump(s1, r) EXCEPT !.judged_ok = @ + 1,
                                        !.implied_points = @ + CountImplied(r.cs),
                                        !.points = @ + CountPoints(r.cs)]
               ELSE IF r.st = "err" THEN [s1 EXCEPT !.judged_err = @ + 1]
               ELSE [s1 EXCEPT !.skipped = @ + 1]
     IN /\ stats' = s2
        /\ IF r.st \in {"ok", "err"} THEN TRUE
           ELSE PrintT(<<"SKIP", ToJson([i |-> e.i, case |-> e.case, why |-> r.st])>>)
        /\ IF Conforms(e, r) THEN TRUE
           ELSE PrintT(<<"MISMATCH", ToJson([i |-> e.i, case |-> e.case, class |-> Class(e, r), st |-> r.st, kind |-> k,
                                             ok |-> e.o.ok, err |-> e.o.err,
                                             nwant |-> Len(RefCommands(r.cs)), ngot |-> Len(e.o.cmds),
                                             want |-> FirstN(RefCommands(r.cs), 12), got |-> FirstN(e.o.cmds, 12),
                                             tol |-> IF r.exact THEN 0 ELSE Tol + r.eps + 1])>>)
        /\ IF l = Len(Rec) THEN PrintT(<<"STATS", ToJson(s2)>>) ELSE TRUE

TSpec == TInit /\ [][TNext]_tvars

AllConsumed == TLCGet("stats").diameter = Len(Rec) + 1
=============================================================================
