----------------------------- MODULE MC_Normalize -----------------------------
(***************************************************************************)
(* Bounded exhaustive check of Normalize and generator of replay cases.    *)
(*                                                                         *)
(* kind = "small": a scaled-down fixed point (FB fraction bits for the     *)
(*   16.16 role, FB-2 for the 2.14 role).  For EVERY axis triple over      *)
(*   SmallVals, EVERY valid segment map with at most MaxExtra interior     *)
(*   knots and EVERY user value from min-2 to max+2, the prescribed        *)
(*   fixed-point procedure (RefNormalize) must satisfy the exact semantics *)
(*   of the property: range, exact -1/0/+1 at min/def/max, accuracy within *)
(*   max(1, slope) output units, monotone.  This is the design check: it   *)
(*   shows the tolerance of the property is met by the prescribed          *)
(*   arithmetic for every rounding situation that exists at this scale.    *)
(* kind = "real": boundary axis triples and segment maps at full 16.16 /   *)
(*   2.14 width; TLC computes the user values that land on and next to     *)
(*   every knot (pre-images, +-1, +-2 raw units), the axis ends and far    *)
(*   outside, and prints one CASE per (axis, map, placement).  The harness *)
(*   turns each CASE into fvar/avar bytes and calls FvarTable::normalize;  *)
(*   Trace_Normalize judges the outputs.                                   *)
(* Round 3:                                                                *)
(*  - "small" also runs over GENERAL segment maps (IsGenMap: records with  *)
(*    from-coordinates beyond -1/+1, to-coordinates over the whole 2.14    *)
(*    range, decreasing / flat segments, duplicate from-coordinates, maps  *)
(*    without the -1/0/+1 records, one-record maps) on GenAxes;            *)
(*  - "real" has a second family RealMaps2 x RealAxes2 of such maps at     *)
(*    full width, with user values landing inside every segment (mid       *)
(*    points), and a third family LayCases in which the fvar table has a   *)
(*    different layout (axesArrayOffset, axisSize, instanceSize, instance  *)
(*    count): TLC computes where every axis / instance record goes         *)
(*    (Normalize!FvarAxisPos / FvarInstPos) and the harness writes the     *)
(*    records there.                                                       *)
(***************************************************************************)
EXTENDS Normalize, Json, TLC, SequencesExt

CONSTANTS FB,          \* fraction bits of the scaled-down "Fixed"
          SmallVals,   \* raw axis values of the scaled-down model
          MaxExtra,    \* interior knots per map in the scaled-down model
          RealAxes, RealMaps,
          GenLevel,    \* 0: no general maps in the scaled-down model, 1: quick families, 2: all families
          GenFroms, GenTos, GenAxes,          \* records / axes of the general maps of the scaled-down model
          RealAxes2, RealMaps2,               \* full width: general maps
          LayAxes, LayMaps, Layouts           \* full width: fvar layouts

VARIABLES c, done
vars == <<c, done>>

SU == Pow2(FB - 2)                 \* scaled-down output units per 1.0

\* ---- scaled-down universe ---------------------------------------------------------
SmallAxes == {t \in SmallVals \X SmallVals \X SmallVals : t[1] <= t[2] /\ t[2] <= t[3]}

Interior == {k \in (-SU + 1) .. (SU - 1) : k # 0}
Knots == {<<f, t>> : f \in Interior, t \in -SU .. SU}
Mandatory == {<<-SU, -SU>>, <<0, 0>>, <<SU, SU>>}
KnotLess(a, b) == a[1] < b[1]
MapOf(K) == SetToSortSeq(K \cup Mandatory, KnotLess)
DistinctFrom(K) == \A a, b \in K : a # b => a[1] # b[1]
KSets == {{}} \cup {{a} : a \in Knots}
         \cup (IF MaxExtra >= 2 THEN {{a, b} : a \in Knots, b \in Knots} ELSE {})
         \cup (IF MaxExtra >= 3 THEN {{a, b, d} : a \in Knots, b \in Knots, d \in Knots} ELSE {})
SmallMaps ==
  {<<>>} \cup {m \in {MapOf(K) : K \in {K \in KSets : DistinctFrom(K)}} : MapValid(SU, m)}

SmallCases == {[kind |-> "small", ax |-> ax, avar |-> TRUE, map |-> m, place |-> 0, lay |-> <<16, 20, 0, 0>>] :
                  ax \in SmallAxes, m \in SmallMaps}
          \cup {[kind |-> "small", ax |-> ax, avar |-> FALSE, map |-> <<>>, place |-> 0, lay |-> <<16, 20, 0, 0>>] :
                  ax \in SmallAxes}

\* ---- full-width universe -----------------------------------------------------------
U14 == 16384
I32Min == -2147483647 - 1
I32Max == 2147483647

\* a layout of the fvar table: <<axesArrayOffset, axisSize, 0 / 1 = without / with postScriptNameID, instances>>
StdLayout == <<16, 20, 0, 0>>
RealCases == {[kind |-> "real", ax |-> ax, avar |-> TRUE, map |-> m, place |-> p, lay |-> StdLayout] :
                  ax \in RealAxes, m \in RealMaps, p \in 0 .. 2}
         \cup {[kind |-> "real", ax |-> ax, avar |-> FALSE, map |-> <<>>, place |-> p, lay |-> StdLayout] :
                  ax \in RealAxes, p \in {0, 1}}
         \cup {[kind |-> "real", ax |-> ax, avar |-> TRUE, map |-> m, place |-> p, lay |-> StdLayout] :
                  ax \in RealAxes2, m \in RealMaps2, p \in 0 .. 2}
         \cup {[kind |-> "real", ax |-> ax, avar |-> TRUE, map |-> m, place |-> p, lay |-> l] :
                  ax \in LayAxes, m \in LayMaps, p \in 0 .. 2, l \in Layouts}
         \cup {[kind |-> "real", ax |-> ax, avar |-> FALSE, map |-> <<>>, place |-> p, lay |-> l] :
                  ax \in LayAxes, p \in {0, 2}, l \in Layouts}

\* ---- scaled-down universe of general maps -----------------------------------------------
GRecs == {<<f, t>> : f \in GenFroms, t \in GenTos}
RLo == <<-SU, -SU>>
RMid == <<0, 0>>
RHi == <<SU, SU>>
GenCase(ax, m) == [kind |-> "small", ax |-> ax, avar |-> TRUE, map |-> m, place |-> 0, lay |-> StdLayout]
\* (a zero-width FIRST segment above -1 divides by zero below it: the 16.16 procedure saturates there,
\*  the judge looks at the range only; such maps are left to the full-width part)
FirstOK(a, b) == a[1] < b[1] \/ a[1] <= -SU
IsGenCase(x) ==
  /\ GenLevel >= 1
  /\ \E ax \in GenAxes :
       \/ \E a \in GRecs : x = GenCase(ax, <<a>>)
       \/ \E a, b \in GRecs : a[1] <= b[1] /\ FirstOK(a, b) /\ x = GenCase(ax, <<a, b>>)
       \/ \E a \in GRecs : -SU <= a[1] /\ a[1] <= SU /\ x = GenCase(ax, <<RLo, a, RHi>>)
       \/ \E a \in GRecs : -SU <= a[1] /\ a[1] <= 0 /\ x = GenCase(ax, <<RLo, a, RMid, RHi>>)
       \/ \E a \in GRecs : 0 <= a[1] /\ a[1] <= SU /\ x = GenCase(ax, <<RLo, RMid, a, RHi>>)
       \/ /\ GenLevel >= 2
          /\ \/ \E a, b \in GRecs : 0 <= a[1] /\ a[1] <= b[1] /\ b[1] <= SU /\ x = GenCase(ax, <<RLo, RMid, a, b, RHi>>)
             \/ \E a, b \in GRecs : -SU <= a[1] /\ a[1] <= b[1] /\ b[1] <= 0 /\ x = GenCase(ax, <<RLo, a, b, RMid, RHi>>)
             \/ \E a, b \in GRecs : a[1] <= b[1] /\ b[1] <= SU /\ FirstOK(a, b) /\ x = GenCase(ax, <<a, b, RHi>>)
             \/ \E a, b \in GRecs : -SU <= a[1] /\ a[1] <= b[1] /\ x = GenCase(ax, <<RLo, a, b>>)

\* user value whose default normalisation is (just at or below) f/U:  def + floor(f * span / U)
PreImage(ax, f) ==
  LET span == IF f < 0 THEN ZSub(ZOf(ADef(ax)), ZOf(AMin(ax))) ELSE ZSub(ZOf(AMax(ax)), ZOf(ADef(ax)))
      z == ZAdd(ZOf(ADef(ax)), ZFloorShr14(ZMul(ZOf(f), span)))
  IN IF ZFits(z) THEN ZToInt(z) ELSE ADef(ax)

Around(x) == {y \in {x - 2, x - 1, x, x + 1, x + 2} : TRUE}
SafeAround(x) ==                                  \* stay inside i32
  IF x > I32Max - 2 THEN {x - 2, x - 1, x}
  ELSE IF x < I32Min + 2 THEN {x, x + 1, x + 2} ELSE Around(x)

\* the records, fixed positions, and a position strictly inside every segment (midpoint, thirds)
ProbeFroms(map) == {KnotF(map, k) : k \in 1 .. Len(map)} \cup {-U14, -8192, -1, 0, 1, 5461, 8192, U14}
                   \cup {(KnotF(map, k) + KnotF(map, k + 1)) \div 2 : k \in 1 .. Len(map) - 1}
                   \cup {(2 * KnotF(map, k) + KnotF(map, k + 1)) \div 3 : k \in 1 .. Len(map) - 1}

RealValues(ax, map) ==
  UNION {SafeAround(PreImage(ax, f)) : f \in ProbeFroms(map)}
    \cup SafeAround(AMin(ax)) \cup SafeAround(ADef(ax)) \cup SafeAround(AMax(ax))
    \cup {I32Min, I32Max, 0}

LessEq(a, b) == a < b

---------------------------------------------------------------------------
Init == /\ \/ c \in SmallCases \cup RealCases
           \/ IsGenCase(c)
        /\ done = FALSE
Next == /\ ~done /\ done' = TRUE /\ UNCHANGED c
Spec == Init /\ [][Next]_vars

Abs(x) == IF x < 0 THEN -x ELSE x
Steep(m) == \E k \in 1 .. Len(m) - 1 : Abs(KnotT(m, k + 1) - KnotT(m, k)) > KnotF(m, k + 1) - KnotF(m, k)
Flat(m)  == \E k \in 1 .. Len(m) - 1 : KnotT(m, k + 1) = KnotT(m, k)
Decr(m)  == \E k \in 1 .. Len(m) - 1 : KnotT(m, k + 1) < KnotT(m, k)
DupFrom(m) == \E k \in 1 .. Len(m) - 1 : KnotF(m, k + 1) = KnotF(m, k)
ToBeyond(u, m) == \E k \in 1 .. Len(m) : KnotT(m, k) < -u \/ KnotT(m, k) > u

\* ---- design invariants (scaled-down, exhaustive) ---------------------------------------
SmallRange == (AMin(c.ax) - 2) .. (AMax(c.ax) + 2)
SmallOut(v) == RefNormalize(FB, c.ax, c.avar, c.map, v)

DesignOK ==
  (done /\ c.kind = "small") =>        \* (checked on the successor state so that all workers share the load)
    /\ MapJudged(c.map)
    /\ \A v \in SmallRange : Verdict(SU, c.ax, c.avar, c.map, v, SmallOut(v)) = ""
    /\ (~c.avar \/ MonotoneDemanded(SU, c.map)) =>
          \A v \in SmallRange : (v + 1 \in SmallRange) => SmallOut(v) <= SmallOut(v + 1)
    \* the clauses are not vacuous: a wrong output is rejected
    /\ (Steep(c.map) \/ ~MapValid(SU, c.map))
         \/ \A v \in SmallRange : Verdict(SU, c.ax, c.avar, c.map, v, SmallOut(v) + 3) # ""

\* the real-width value sets really contain the ends of the axis
RealOK ==
  (done /\ c.kind = "real") =>
    LET vs == RealValues(c.ax, c.map) IN {AMin(c.ax), ADef(c.ax), AMax(c.ax)} \subseteq vs

\* ---- generator -------------------------------------------------------------------------
\* the layout of the fvar table of a case with n axes: header fields and the position of every record
LayoutOf(l, n) ==
  LET isz == 4 * n + 4 + 2 * l[3] IN
  [off |-> l[1], asz |-> l[2], isz |-> isz, ninst |-> l[4],
   apos |-> [i \in 1 .. n |-> FvarAxisPos(l[1], l[2], i - 1)],
   ipos |-> [j \in 1 .. l[4] |-> FvarInstPos(l[1], l[2], n, isz, j - 1)],
   len |-> FvarLen(l[1], l[2], n, isz, l[4])]
LayoutOK ==
  (done /\ c.kind = "real") =>
    LET y == LayoutOf(c.lay, c.place + 1) IN
    /\ y.off >= 16 /\ y.asz >= 20 /\ FvarInstSizeOK(c.place + 1, y.isz)
    /\ \A i \in 1 .. c.place : y.apos[i] + y.asz <= y.apos[i + 1]                 \* records do not overlap
    /\ \A j \in 1 .. y.ninst : y.ipos[j] >= y.apos[c.place + 1] + y.asz /\ y.ipos[j] + y.isz <= y.len
EmitCase ==
  (done /\ c.kind = "real") =>
    PrintT(<<"CASE", ToJson([ax |-> c.ax, avar |-> c.avar, map |-> c.map, place |-> c.place,
                             vs |-> SetToSortSeq(RealValues(c.ax, c.map), LessEq),
                             lay |-> LayoutOf(c.lay, c.place + 1)])>>)

\* the final clamp is the deciding step: the segment that holds the position leaves [-1, 1] there
ClampDecides(cs, v) ==
  /\ cs.avar /\ Len(cs.map) >= 2
  /\ LET n == DefNorm(cs.ax, v) IN
     \E k \in 1 .. Len(cs.map) - 1 : SegHolds(SU, cs.map, n, k) /\ SegClamped(SU, cs.map, n, k)

\* vacuity counters for the scaled-down part, one line per state
EmitStat ==
  (done /\ c.kind = "small") =>
    PrintT(<<"STAT", ToJson([n |-> Cardinality(SmallRange),
                             knots |-> Len(c.map),
                             degenerate |-> (AMin(c.ax) = ADef(c.ax) \/ ADef(c.ax) = AMax(c.ax)),
                             steep |-> Steep(c.map), flat |-> Flat(c.map),
                             valid |-> MapValid(SU, c.map), decr |-> Decr(c.map), dup |-> DupFrom(c.map),
                             beyond |-> ToBeyond(SU, c.map), mono |-> MonotoneDemanded(SU, c.map),
                             clampdecides |-> Cardinality({v \in SmallRange : ClampDecides(c, v)})])>>)

---------------------------------------------------------------------------
\* ---- constants for the configurations ---------------------------------------------------
F(x) == x * 65536
SmallValsQuick    == {-7, -2, 0, 1, 6}
SmallValsThorough == {-21, -9, -4, -1, 0, 1, 5, 16, 33}

RealAxesQuick == {
  <<F(100), F(400), F(900)>>,                   \* wght
  <<4096000, F(100), F(100)>>,                  \* wdth 62.5 .. 100, default = max
  <<0, 0, F(100)>>,                             \* min = default
  <<F(5), F(5), F(5)>>,                         \* min = default = max
  <<0, 0, 0>>,
  <<F(-10), 0, 0>>,                             \* slnt
  <<F(8), F(14), F(144)>>,                      \* opsz
  <<0, 1, 2>>,                                  \* one raw unit wide on each side
  <<-1, 0, 3>>,
  <<6554, 32768, 58982>>,                       \* 0.1 0.5 0.9
  <<F(-8191), F(-1), F(8191)>>,
  <<F(-16000), F(300), F(16383)>>,              \* spans just below 32768.0
  <<7, 65543, 19660807>>                        \* odd raw values
}
\* half-spans of 32768.0 and more: the differences do not fit a 16.16 number (known finding of C13)
WideAxes == {
  <<F(-20000), F(-20000), F(20000)>>,
  <<F(-20000), F(20000), F(20000)>>,
  <<-1073741824, 1073741824, 1073741824>>       \* default - min = 2^31 exactly
}
RealAxesQuickW == RealAxesQuick \cup WideAxes
RealAxesThorough == RealAxesQuickW \cup {
  <<F(1), F(1), F(1000)>>, <<F(1), F(1000), F(1000)>>, <<F(-90), 0, F(90)>>,
  <<F(25), F(100), F(151)>>, <<F(-1), 0, F(1)>>, <<-65535, 1, 65537>>,
  <<F(-16384), 0, F(16383)>>, <<F(-32768), F(-32768), F(-1)>>, <<F(1), F(32767), F(32767)>>,
  <<0, 3, 7>>, <<F(300), F(301), F(1000)>>, <<F(-200), F(-100), F(-50)>>
}

\* ---- round 3: general maps, fvar layouts ---------------------------------------------------
\* scaled-down (SU = 4 at FB = 4, 16 at FB = 6): from-coordinates from -1.25 to +1.25, to-coordinates over the
\* whole range of the scaled-down "F2Dot14" (-2 .. 2 - 1 unit)
GenFromsQuick == {-5, -4, -3, -1, 0, 1, 2, 4, 5}
GenTosQuick   == {-8, -5, -4, -1, 0, 1, 3, 4, 7}
\* every 16.16 position; positions that are truncated; a degenerate side
GenAxesQuick  == {<<-16, 0, 16>>, <<-7, -2, 6>>, <<0, 0, 6>>}
GenFromsThorough == {-20, -16, -9, -1, 0, 5, 16, 18}
GenTosThorough   == {-32, -17, -16, -3, 0, 7, 16, 31}
GenAxesThorough  == {<<-64, 0, 64>>, <<-21, -4, 33>>, <<0, 0, 5>>}

\* full width.  to-coordinates beyond [-1, 1]: the final clamp decides
M2Beyond == {
  <<<<-U14, -U14>>, <<0, 0>>, <<8192, 20480>>, <<U14, U14>>>>,                                  \* 0.5 -> 1.25
  <<<<-U14, -U14>>, <<-8192, -24576>>, <<0, 0>>, <<U14, U14>>>>,                                \* -0.5 -> -1.5
  <<<<-U14, -U14>>, <<-4096, -32768>>, <<0, 0>>, <<4096, 32767>>, <<U14, U14>>>>,               \* the 2.14 extremes
  <<<<-U14, -20000>>, <<0, 0>>, <<U14, 20000>>>>,                                               \* the ends themselves
  <<<<-U14, -U14>>, <<0, 0>>, <<12288, 16385>>, <<U14, U14>>>>                                  \* one unit beyond
}
\* decreasing and flat segments, duplicate from-coordinates (steps up and down)
M2Shape == {
  <<<<-U14, -U14>>, <<0, 0>>, <<4096, 12288>>, <<8192, 4096>>, <<U14, U14>>>>,                  \* down between .25 and .5
  <<<<-U14, -U14>>, <<-8192, -2048>>, <<-4096, -12288>>, <<0, 0>>, <<U14, U14>>>>,
  <<<<-U14, U14>>, <<0, 0>>, <<U14, -U14>>>>,                                                   \* mirrored ends
  <<<<-U14, -U14>>, <<0, 0>>, <<8192, 4096>>, <<8192, 12288>>, <<U14, U14>>>>,                  \* step up
  <<<<-U14, -U14>>, <<0, 0>>, <<8192, 12288>>, <<8192, 4096>>, <<U14, U14>>>>,                  \* step down
  <<<<-U14, -U14>>, <<-5461, -9000>>, <<-5461, -100>>, <<-5461, -3000>>, <<0, 0>>, <<U14, U14>>>>, \* three on one
  <<<<-U14, -U14>>, <<-U14, -8192>>, <<0, 0>>, <<U14, 8192>>, <<U14, U14>>>>,                   \* duplicates at the ends
  <<<<-U14, -U14>>, <<0, 0>>, <<0, 4096>>, <<5461, 4096>>, <<10923, 4096>>, <<U14, U14>>>>      \* step at 0, flat
}
\* without (some of) the -1 / 0 / +1 records, one record, from-coordinates beyond [-1, 1]
M2Partial == {
  <<<<0, 0>>, <<U14, U14>>>>,
  <<<<0, 0>>, <<8192, 12288>>, <<U14, U14>>>>,
  <<<<-U14, -U14>>, <<U14, U14>>>>,
  <<<<-U14, -U14>>, <<4096, -4096>>, <<U14, U14>>>>,
  <<<<-U14, -U14>>, <<0, 0>>>>,
  <<<<-U14, -U14>>, <<0, 0>>, <<8192, 2048>>>>,
  <<<<-8192, -4096>>, <<8192, 12288>>>>,
  <<<<-8192, -8192>>, <<-8100, 0>>, <<8192, 8192>>>>,                                           \* narrow first segment
  <<<<-U14, -8192>>, <<0, 4096>>, <<U14, 12288>>>>,                                             \* no fixed point
  <<<<0, 0>>>>, <<<<0, 8192>>>>, <<<<U14, -U14>>>>, <<<<-U14, 0>>>>,
  <<<<-24576, -U14>>, <<0, 0>>, <<24576, U14>>>>,
  <<<<-32768, -32768>>, <<32767, 32767>>>>,
  <<<<4096, 4096>>, <<4096, 8192>>, <<U14, U14>>>>                                              \* zero-width first segment
}
RealMaps2Quick == M2Beyond \cup M2Shape \cup M2Partial
RealMaps2Thorough == RealMaps2Quick \cup {
  <<<<-U14, -U14>>, <<-1, 32767>>, <<0, 0>>, <<1, -32768>>, <<U14, U14>>>>,
  <<<<-U14, 32767>>, <<0, 0>>, <<U14, -32768>>>>,
  <<<<-U14, -U14>>, <<0, 0>>, <<1, 1>>, <<2, 0>>, <<3, 3>>, <<U14, U14>>>>,
  <<<<-U14, -U14>>, <<0, 0>>, <<16383, -16383>>, <<U14, U14>>>>,
  <<<<-U14, -U14>>, <<-16383, 16383>>, <<0, 0>>, <<U14, U14>>>>,
  <<<<-100, -100>>, <<100, 100>>>>,
  <<<<-U14, -U14>>, <<0, 0>>, <<0, 0>>, <<U14, U14>>>>,
  <<<<-U14, -U14>>, <<0, 100>>, <<0, -100>>, <<U14, U14>>>>
}
RealAxes2Quick == {
  <<F(100), F(400), F(900)>>, <<4096000, F(100), F(100)>>, <<0, 1, 2>>, <<7, 65543, 19660807>>,
  <<F(-16000), F(300), F(16383)>>
}
RealAxes2Thorough == RealAxes2Quick \cup {<<0, 0, F(100)>>, <<F(-20000), F(-20000), F(20000)>>, <<F(-1), 0, F(1)>>,
                                          <<-65535, 1, 65537>>, <<F(8), F(14), F(144)>>}

\* fvar layouts <<axesArrayOffset, axisSize, postScriptNameID, instances>>
LayoutsQuick == {
  <<16, 20, 1, 2>>, <<16, 20, 0, 3>>,                 \* standard header, with instances
  <<20, 20, 0, 0>>, <<18, 20, 1, 1>>, <<36, 20, 0, 2>>, <<24, 20, 1, 3>>,     \* bytes between header and axis array
  <<16, 24, 0, 0>>, <<16, 22, 1, 2>>, <<16, 40, 0, 3>>,                       \* wider axis records
  <<20, 24, 1, 2>>, <<40, 36, 0, 1>>, <<17, 21, 1, 1>>                        \* both; odd offsets
}
LayoutsThorough == LayoutsQuick \cup {
  <<16, 20, 0, 1>>, <<16, 20, 1, 5>>, <<32, 20, 1, 0>>, <<16, 28, 1, 1>>, <<56, 20, 0, 4>>, <<19, 23, 0, 2>>,
  <<256, 20, 0, 1>>, <<16, 260, 1, 2>>
}
NotoLike == <<<<-U14, -U14>>, <<-10923, -13056>>, <<-5461, -8192>>, <<0, 0>>, <<3277, 1638>>, <<U14, U14>>>>
LayMapsQuick == {NotoLike}
LayAxesQuick == {<<F(100), F(400), F(900)>>, <<4096000, F(100), F(100)>>}
LayAxesThorough == LayAxesQuick \cup {<<7, 65543, 19660807>>, <<F(-10), 0, 0>>}

Identity3 == <<<<-U14, -U14>>, <<0, 0>>, <<U14, U14>>>>
RealMapsQuick == {
  <<>>,
  Identity3,
  \* NotoSans-VF like
  <<<<-U14, -U14>>, <<-10923, -13056>>, <<-5461, -8192>>, <<0, 0>>, <<3277, 1638>>, <<U14, U14>>>>,
  \* steep then flat on the positive side, knots one unit away from the mandatory ones
  <<<<-U14, -U14>>, <<-16383, -100>>, <<0, 0>>, <<1, 8000>>, <<8192, 8000>>, <<16383, 8001>>, <<U14, U14>>>>,
  \* flat negative side
  <<<<-U14, -U14>>, <<-12000, 0>>, <<0, 0>>, <<U14, U14>>>>,
  \* slopes 3 and 1/3
  <<<<-U14, -U14>>, <<-12288, -4096>>, <<0, 0>>, <<4096, 12288>>, <<U14, U14>>>>
}
RealMapsThorough == RealMapsQuick \cup {
  <<<<-U14, -U14>>, <<-1, -1>>, <<0, 0>>, <<1, 1>>, <<U14, U14>>>>,
  <<<<-U14, -U14>>, <<-16383, -16384>>, <<0, 0>>, <<16383, 16384>>, <<U14, U14>>>>,
  <<<<-U14, -U14>>, <<-8192, -8192>>, <<0, 0>>, <<5461, 5461>>, <<10923, 10923>>, <<U14, U14>>>>,
  <<<<-U14, -U14>>, <<0, 0>>, <<100, 16000>>, <<U14, U14>>>>,
  <<<<-U14, -U14>>, <<-3, -16384>>, <<0, 0>>, <<16381, 3>>, <<U14, U14>>>>
}
=============================================================================
