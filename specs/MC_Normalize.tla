----------------------------- MODULE MC_Normalize -----------------------------
(***************************************************************************)
(* Bounded exhaustive check of Normalize and generator of replay cases.    *)
(*                                                                         *)
(* kind = "small": a scaled-down fixed point (FB fraction bits for the     *)
(*   16.16 role, FB-2 for the 2.14 role).  For EVERY axis triple over      *)
(*   SmallVals, EVERY valid segment map with at most MaxExtra interior     *)
(*   knots and EVERY user value from min-2 to max+2, the prescribed        *)
(*   fixed-point procedure (RefNormalize) must satisfy the exact semantics *)
(*   of the property: range, exact -1/0/+1 at min/def/max, accuracy within *)
(*   max(1, slope) output units, monotone.  This is the design check: it   *)
(*   shows the tolerance of the property is met by the prescribed          *)
(*   arithmetic for every rounding situation that exists at this scale.    *)
(* kind = "real": boundary axis triples and segment maps at full 16.16 /   *)
(*   2.14 width; TLC computes the user values that land on and next to     *)
(*   every knot (pre-images, +-1, +-2 raw units), the axis ends and far    *)
(*   outside, and prints one CASE per (axis, map, placement).  The harness *)
(*   turns each CASE into fvar/avar bytes and calls FvarTable::normalize;  *)
(*   Trace_Normalize judges the outputs.                                   *)
(***************************************************************************)
EXTENDS Normalize, Json, TLC, SequencesExt

CONSTANTS FB,          \* fraction bits of the scaled-down "Fixed"
          SmallVals,   \* raw axis values of the scaled-down model
          MaxExtra,    \* interior knots per map in the scaled-down model
          RealAxes, RealMaps

VARIABLES c, done
vars == <<c, done>>

SU == Pow2(FB - 2)                 \* scaled-down output units per 1.0

\* ---- scaled-down universe ---------------------------------------------------------
SmallAxes == {t \in SmallVals \X SmallVals \X SmallVals : t[1] <= t[2] /\ t[2] <= t[3]}

Interior == {k \in (-SU + 1) .. (SU - 1) : k # 0}
Knots == {<<f, t>> : f \in Interior, t \in -SU .. SU}
Mandatory == {<<-SU, -SU>>, <<0, 0>>, <<SU, SU>>}
KnotLess(a, b) == a[1] < b[1]
MapOf(K) == SetToSortSeq(K \cup Mandatory, KnotLess)
DistinctFrom(K) == \A a, b \in K : a # b => a[1] # b[1]
KSets == {{}} \cup {{a} : a \in Knots}
         \cup (IF MaxExtra >= 2 THEN {{a, b} : a \in Knots, b \in Knots} ELSE {})
         \cup (IF MaxExtra >= 3 THEN {{a, b, d} : a \in Knots, b \in Knots, d \in Knots} ELSE {})
SmallMaps ==
  {<<>>} \cup {m \in {MapOf(K) : K \in {K \in KSets : DistinctFrom(K)}} : MapValid(SU, m)}

SmallCases == {[kind |-> "small", ax |-> ax, avar |-> TRUE, map |-> m, place |-> 0] :
                  ax \in SmallAxes, m \in SmallMaps}
          \cup {[kind |-> "small", ax |-> ax, avar |-> FALSE, map |-> <<>>, place |-> 0] : ax \in SmallAxes}

\* ---- full-width universe -----------------------------------------------------------
U14 == 16384
I32Min == -2147483647 - 1
I32Max == 2147483647

RealCases == {[kind |-> "real", ax |-> ax, avar |-> TRUE, map |-> m, place |-> p] :
                  ax \in RealAxes, m \in RealMaps, p \in 0 .. 2}
         \cup {[kind |-> "real", ax |-> ax, avar |-> FALSE, map |-> <<>>, place |-> p] :
                  ax \in RealAxes, p \in {0, 1}}

\* user value whose default normalisation is (just at or below) f/U:  def + floor(f * span / U)
PreImage(ax, f) ==
  LET span == IF f < 0 THEN ZSub(ZOf(ADef(ax)), ZOf(AMin(ax))) ELSE ZSub(ZOf(AMax(ax)), ZOf(ADef(ax)))
      z == ZAdd(ZOf(ADef(ax)), ZFloorShr14(ZMul(ZOf(f), span)))
  IN IF ZFits(z) THEN ZToInt(z) ELSE ADef(ax)

Around(x) == {y \in {x - 2, x - 1, x, x + 1, x + 2} : TRUE}
SafeAround(x) ==                                  \* stay inside i32
  IF x > I32Max - 2 THEN {x - 2, x - 1, x}
  ELSE IF x < I32Min + 2 THEN {x, x + 1, x + 2} ELSE Around(x)

ProbeFroms(map) == {KnotF(map, k) : k \in 1 .. Len(map)} \cup {-U14, -8192, -1, 0, 1, 5461, 8192, U14}

RealValues(ax, map) ==
  UNION {SafeAround(PreImage(ax, f)) : f \in ProbeFroms(map)}
    \cup SafeAround(AMin(ax)) \cup SafeAround(ADef(ax)) \cup SafeAround(AMax(ax))
    \cup {I32Min, I32Max, 0}

LessEq(a, b) == a < b

---------------------------------------------------------------------------
Init == /\ c \in SmallCases \cup RealCases
        /\ done = FALSE
Next == /\ ~done /\ done' = TRUE /\ UNCHANGED c
Spec == Init /\ [][Next]_vars

Steep(m) == \E k \in 1 .. Len(m) - 1 : KnotT(m, k + 1) - KnotT(m, k) > KnotF(m, k + 1) - KnotF(m, k)
Flat(m)  == \E k \in 1 .. Len(m) - 1 : KnotT(m, k + 1) = KnotT(m, k)

\* ---- design invariants (scaled-down, exhaustive) ---------------------------------------
SmallRange == (AMin(c.ax) - 2) .. (AMax(c.ax) + 2)
SmallOut(v) == RefNormalize(FB, c.ax, c.avar, c.map, v)

DesignOK ==
  (done /\ c.kind = "small") =>        \* (checked on the successor state so that all workers share the load)
    /\ \A v \in SmallRange : Verdict(SU, c.ax, c.avar, c.map, v, SmallOut(v)) = ""
    /\ \A v \in SmallRange : (v + 1 \in SmallRange) => SmallOut(v) <= SmallOut(v + 1)
    \* the clauses are not vacuous: a wrong output is rejected
    /\ Steep(c.map) \/ \A v \in SmallRange : Verdict(SU, c.ax, c.avar, c.map, v, SmallOut(v) + 3) # ""

\* the real-width value sets really contain the ends of the axis
RealOK ==
  (done /\ c.kind = "real") =>
    LET vs == RealValues(c.ax, c.map) IN {AMin(c.ax), ADef(c.ax), AMax(c.ax)} \subseteq vs

\* ---- generator -------------------------------------------------------------------------
EmitCase ==
  (done /\ c.kind = "real") =>
    PrintT(<<"CASE", ToJson([ax |-> c.ax, avar |-> c.avar, map |-> c.map, place |-> c.place,
                             vs |-> SetToSortSeq(RealValues(c.ax, c.map), LessEq)])>>)

\* vacuity counters for the scaled-down part, one line per state
EmitStat ==
  (done /\ c.kind = "small") =>
    PrintT(<<"STAT", ToJson([n |-> Cardinality(SmallRange),
                             knots |-> Len(c.map),
                             degenerate |-> (AMin(c.ax) = ADef(c.ax) \/ ADef(c.ax) = AMax(c.ax)),
                             steep |-> Steep(c.map), flat |-> Flat(c.map)])>>)

---------------------------------------------------------------------------
\* ---- constants for the configurations ---------------------------------------------------
F(x) == x * 65536
SmallValsQuick    == {-7, -2, 0, 1, 6}
SmallValsThorough == {-21, -9, -4, -1, 0, 1, 5, 16, 33}

RealAxesQuick == {
  <<F(100), F(400), F(900)>>,                   \* wght
  <<4096000, F(100), F(100)>>,                  \* wdth 62.5 .. 100, default = max
  <<0, 0, F(100)>>,                             \* min = default
  <<F(5), F(5), F(5)>>,                         \* min = default = max
  <<0, 0, 0>>,
  <<F(-10), 0, 0>>,                             \* slnt
  <<F(8), F(14), F(144)>>,                      \* opsz
  <<0, 1, 2>>,                                  \* one raw unit wide on each side
  <<-1, 0, 3>>,
  <<6554, 32768, 58982>>,                       \* 0.1 0.5 0.9
  <<F(-8191), F(-1), F(8191)>>,
  <<F(-16000), F(300), F(16383)>>,              \* spans just below 32768.0
  <<7, 65543, 19660807>>                        \* odd raw values
}
\* half-spans of 32768.0 and more: the differences do not fit a 16.16 number (known finding of C13)
WideAxes == {
  <<F(-20000), F(-20000), F(20000)>>,
  <<F(-20000), F(20000), F(20000)>>,
  <<-1073741824, 1073741824, 1073741824>>       \* default - min = 2^31 exactly
}
RealAxesQuickW == RealAxesQuick \cup WideAxes
RealAxesThorough == RealAxesQuickW \cup {
  <<F(1), F(1), F(1000)>>, <<F(1), F(1000), F(1000)>>, <<F(-90), 0, F(90)>>,
  <<F(25), F(100), F(151)>>, <<F(-1), 0, F(1)>>, <<-65535, 1, 65537>>,
  <<F(-16384), 0, F(16383)>>, <<F(-32768), F(-32768), F(-1)>>, <<F(1), F(32767), F(32767)>>,
  <<0, 3, 7>>, <<F(300), F(301), F(1000)>>, <<F(-200), F(-100), F(-50)>>
}

Identity3 == <<<<-U14, -U14>>, <<0, 0>>, <<U14, U14>>>>
RealMapsQuick == {
  <<>>,
  Identity3,
  \* NotoSans-VF like
  <<<<-U14, -U14>>, <<-10923, -13056>>, <<-5461, -8192>>, <<0, 0>>, <<3277, 1638>>, <<U14, U14>>>>,
  \* steep then flat on the positive side, knots one unit away from the mandatory ones
  <<<<-U14, -U14>>, <<-16383, -100>>, <<0, 0>>, <<1, 8000>>, <<8192, 8000>>, <<16383, 8001>>, <<U14, U14>>>>,
  \* flat negative side
  <<<<-U14, -U14>>, <<-12000, 0>>, <<0, 0>>, <<U14, U14>>>>,
  \* slopes 3 and 1/3
  <<<<-U14, -U14>>, <<-12288, -4096>>, <<0, 0>>, <<4096, 12288>>, <<U14, U14>>>>
}
RealMapsThorough == RealMapsQuick \cup {
  <<<<-U14, -U14>>, <<-1, -1>>, <<0, 0>>, <<1, 1>>, <<U14, U14>>>>,
  <<<<-U14, -U14>>, <<-16383, -16384>>, <<0, 0>>, <<16383, 16384>>, <<U14, U14>>>>,
  <<<<-U14, -U14>>, <<-8192, -8192>>, <<0, 0>>, <<5461, 5461>>, <<10923, 10923>>, <<U14, U14>>>>,
  <<<<-U14, -U14>>, <<0, 0>>, <<100, 16000>>, <<U14, U14>>>>,
  <<<<-U14, -U14>>, <<-3, -16384>>, <<0, 0>>, <<16381, 3>>, <<U14, U14>>>>
}
=============================================================================
