CONSTANTS
  MaxSeq = 2
  Triples = FALSE
  FilePairs = "reduced"
  ReducedPairVC = {"zero", "max", "filelen", "self", "eqnext", "der-1"}
SPECIFICATION Spec
INVARIANTS LemmasAndEmit Sanity
CHECK_DEADLOCK FALSE
