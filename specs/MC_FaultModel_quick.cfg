CONSTANTS
  MaxSeq = 2
  Triples = FALSE
  FilePairs = "reduced"
  ReducedPairVC = {"zero", "max", "filelen", "self", "eqnext"}
SPECIFICATION Spec
INVARIANTS LemmasAndEmit Sanity
CHECK_DEADLOCK FALSE
